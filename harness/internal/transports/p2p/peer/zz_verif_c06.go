//go:build verif

package peer

// Add-only, in-package test access for properties C06/C07 of /verif (tagged `verif`, injected through
// `go build -overlay`): read-only view of the experimental peer's sync state, and the checkpoint cursor
// on its own (for the cursor_spec tie).

import (
	"github.com/bitcoin-sv/block-headers-service/domains"
	"github.com/bitcoin-sv/block-headers-service/internal/chaincfg"
	"github.com/bitcoin-sv/block-headers-service/internal/chaincfg/chainhash"
	"github.com/bitcoin-sv/block-headers-service/internal/wire"
	"github.com/rs/zerolog"
)

// VerifC06State returns (current checkpoint height or -1, current index, sendHeadersMode, syncedCheckpoints, latestHeight).
func (p *Peer) VerifC06State() (cpHeight int32, cpIndex int, sendHeadersMode, syncedCheckpoints bool, latestHeight int32) {
	cpHeight, cpIndex = -1, -1
	if p.checkpoint != nil {
		p.checkpoint.lock.RLock()
		if p.checkpoint.currentCheckpoint != nil {
			cpHeight = p.checkpoint.currentCheckpoint.Height
			cpIndex = p.checkpoint.currentIndex
		}
		p.checkpoint.lock.RUnlock()
	}
	lh, _ := p.getLatestStats()
	return cpHeight, cpIndex, p.sendHeadersMode, p.syncedCheckpoints, lh
}

// VerifC06Cursor is a real checkpoint cursor outside a peer.
type VerifC06Cursor struct{ ch *checkpoint }

// VerifC06NewCursor is newCheckpoint.
func VerifC06NewCursor(cps []chaincfg.Checkpoint, tipHeight int32) *VerifC06Cursor {
	lg := zerolog.Nop()
	return &VerifC06Cursor{ch: newCheckpoint(cps, tipHeight, &lg)}
}

// State returns (height or -1, index or -1).
func (c *VerifC06Cursor) State() (int32, int) {
	if c.ch.currentCheckpoint == nil {
		return -1, -1
	}
	return c.ch.currentCheckpoint.Height, c.ch.currentIndex
}

// Verify is VerifyAndAdvance on a header with the given height and hash.
func (c *VerifC06Cursor) Verify(height int32, hash chainhash.Hash) (ok bool) {
	h := &domains.BlockHeader{Height: height, Hash: hash}
	return c.ch.VerifyAndAdvance(h) == nil
}

// VerifC15HandleHeaders runs the real handleHeadersMsg on the CALLING goroutine (the read loop calls it the same way
// for a headers message read from the connection), so that a harness can place the call in a goroutine it schedules.
func (p *Peer) VerifC15HandleHeaders(m *wire.MsgHeaders) { p.handleHeadersMsg(m) }
