//go:build verif

package p2pexp

// Add-only, in-package test access for properties C06/C07 of /verif (tagged `verif`, injected through
// `go build -overlay`): an experimental server value with chosen chain parameters (NewServer takes them
// from the configured network) whose REAL connectPeer (NewPeer, Connect, StartHeadersSync) is applied to a
// connection supplied by the rig.

import (
	"net"

	"github.com/bitcoin-sv/block-headers-service/config"
	"github.com/bitcoin-sv/block-headers-service/internal/chaincfg"
	"github.com/bitcoin-sv/block-headers-service/internal/transports/p2p/peer"
	"github.com/bitcoin-sv/block-headers-service/service"
	"github.com/rs/zerolog"
)

// VerifC06Server wraps a server value.
type VerifC06Server struct {
	s   *server
	log zerolog.Logger
}

// VerifC06NewServer is NewServer with explicit chain parameters.
func VerifC06NewServer(cfg *config.P2PConfig, params *chaincfg.Params, hs service.Headers, cs service.Chains) *VerifC06Server {
	v := &VerifC06Server{log: zerolog.Nop()}
	v.s = &server{config: cfg, chainParams: params, headersService: hs, chainService: cs, log: &v.log, peers: make([]*peer.Peer, 0)}
	return v
}

// Connect runs the real connectPeer on an (outbound) connection and returns the peer object.
func (v *VerifC06Server) Connect(conn net.Conn) (*peer.Peer, error) {
	err := v.s.connectPeer(conn, false)
	var p *peer.Peer
	if n := len(v.s.peers); n > 0 {
		p = v.s.peers[n-1]
	}
	return p, err
}
