//go:build verif

package wire

// Add-only exports for the C14 harness (compiled through go build -overlay; never written to /repo).

// VerifMakeEmptyMessage exposes the command table of ReadMessage (makeEmptyMessage).
func VerifMakeEmptyMessage(command string) (Message, error) { return makeEmptyMessage(command) }

// VerifMaxMessagePayload exposes maxMessagePayload() for the configured limits.
func VerifMaxMessagePayload() uint32 { return maxMessagePayload() }
