//go:build verif

package main

import (
	"errors"
	"fmt"
	"os"
	"strings"

	"github.com/bitcoin-sv/block-headers-service/domains"
	"github.com/bitcoin-sv/block-headers-service/internal/chaincfg/chainhash"
	"github.com/bitcoin-sv/block-headers-service/repository"
	"github.com/jmoiron/sqlx"
)

func init() { register("C05", runC05) }

// faultRepo decorates repository.Headers: the write number failAt (0-based, counted over
// AddHeaderToDatabase / UpdateState calls since arming) either "kills the process" (panic with a
// sentinel that the harness recovers - every earlier write is already committed in its own transaction)
// or returns an error instead of executing.
type faultRepo struct {
	repository.Headers
	armed  bool
	mode   string // "kill" | "fault"
	failAt int
	count  int
	hit    bool
}

var errInjected = errors.New("verif: injected storage failure")

func (f *faultRepo) gate() (bool, error) {
	if !f.armed {
		return false, nil
	}
	if f.count == f.failAt && !f.hit {
		f.hit = true
		if f.mode == "kill" {
			panic(Killed{})
		}
		f.count++
		return true, errInjected
	}
	f.count++
	return false, nil
}

func (f *faultRepo) AddHeaderToDatabase(h domains.BlockHeader) error {
	if stop, err := f.gate(); stop {
		return err
	}
	return f.Headers.AddHeaderToDatabase(h)
}

func (f *faultRepo) UpdateState(hs []chainhash.Hash, st domains.HeaderState) error {
	if stop, err := f.gate(); stop {
		return err
	}
	return f.Headers.UpdateState(hs, st)
}

// addGuarded submits one header; a recovered kill is reported as "K".
func addGuarded(s *Stack, src domains.BlockHeaderSource) (out string) {
	return AddOutcome(s, src)
}

// C05 case: history line with x=<mode>:<i>:<k>   mode = kill | ckill | cfault | sfault | fault | cont | ikill
//
//	cfault: the k-th COMMIT since arming fails once (commit hook), the process continues (same model as fault)
//	ikill: killed during the very first start, after the schema migrations and before genesis is inserted (i = k = 0)
//	sfault: a SQLite trigger aborts statement kind k (0 demote / 1 promote / 2 insert) while header i is added
//	kill/fault/cont count repository write calls; ckill counts committed SQLite transactions (commit hook)
//
// obs: pre:<rows>|crash:<outcome>/<rows after restart>|redeliver:<o,o,..>/<rows>|clean:<rows>
//
//	(cont: the fault at (i,k) is followed by ingestion of the remaining headers before the restart;
//	 crash:<o_i,o_i+1,...>/<rows after restart>)
func runC05(c *Ctx) error {
	var fr *faultRepo
	opts := StackOpts{Dir: c.TmpDir("c05"), WrapHeaders: func(h repository.Headers) repository.Headers {
		fr = &faultRepo{Headers: h}
		return fr
	}}
	s, err := NewStack(opts)
	if err != nil {
		return err
	}
	defer func() { s.Close() }()
	// "ckill": the process dies at a TRANSACTION boundary below the repository layer: the first commitBudget
	// commits after arming succeed, every later COMMIT is turned into a ROLLBACK by a SQLite commit hook.
	var hookArmed bool
	var commitBudget, commitsSeen int
	var hookHit, hookOnce bool
	hook := func() int {
		if !hookArmed {
			return 0
		}
		if commitsSeen < commitBudget {
			commitsSeen++
			return 0
		}
		if hookOnce && hookHit {
			return 0 // "cfault": exactly one COMMIT fails, the process lives on
		}
		hookHit = true
		return 1
	}
	if err := s.HookCommits(4, hook); err != nil {
		return err
	}
	rowsNow := func(m *Mat) (string, error) {
		r, err := s.DumpHeaders()
		if err != nil {
			return "", err
		}
		return RowsString(r, m), nil
	}
	cleanCache := map[string]string{}
	nfresh := 0
	nrestart := 0
	var abandoned []*sqlx.DB
	defer func() {
		for _, d := range abandoned {
			_ = d.Close()
		}
	}()
	// returns ok=false when write k of sub i does not exist (nothing to crash)
	doCase := func(h *History, mode string, i, k int, tag string) (bool, error) {
		hh := &History{Forbidden: h.Forbidden, Subs: h.Subs, X: []string{fmt.Sprintf("%s:%d:%d", mode, i, k)}}
		m, err := Materialize(hh)
		if err != nil {
			return false, err
		}
		base := (&History{Forbidden: h.Forbidden, Subs: h.Subs}).Line()
		clean, ok := cleanCache[base]
		if !ok {
			if err := s.ResetHeaders(); err != nil {
				return false, err
			}
			s.SetForbidden(m.ForbiddenHashes())
			for j := range hh.Subs {
				AddOutcome(s, m.Src[j])
			}
			if clean, err = rowsNow(m); err != nil {
				return false, err
			}
			cleanCache[base] = clean
		}
		if mode == "ikill" {
			// the process dies during its FIRST start, between the schema migrations and the (separate) transaction
			// that inserts genesis: the crash image is a migrated database with an empty headers table.  Built on a
			// database file of its own: database.Init (real), then the genesis transaction is undone.
			nfresh++
			fs, err := NewStack(StackOpts{Dir: c.TmpDir(fmt.Sprintf("c05-fresh-%d", nfresh))})
			if err != nil {
				return false, err
			}
			if _, err := fs.DB.Exec("DELETE FROM headers"); err != nil {
				fs.Close()
				return false, err
			}
			fs2, err := fs.Reopen() // the restart: database.Init on the same file
			if err != nil {
				return false, fmt.Errorf("restart of the first-start crash image: %w", err)
			}
			defer fs2.Close()
			fs2.SetForbidden(m.ForbiddenHashes())
			r0, err := fs2.DumpHeaders()
			if err != nil {
				return false, err
			}
			red := []string{}
			for j := range hh.Subs {
				red = append(red, AddOutcome(fs2, m.Src[j]))
			}
			r1, err := fs2.DumpHeaders()
			if err != nil {
				return false, err
			}
			obs := fmt.Sprintf("pre:|crash:X/%s|redeliver:%s/%s|clean:%s", RowsString(r0, m), strings.Join(red, ","), RowsString(r1, m), clean)
			c.Case(hh.Line(), obs)
			c.Count("mode:" + mode)
			c.Count("gen:" + tag)
			return true, nil
		}
		if err := s.ResetHeaders(); err != nil {
			return false, err
		}
		s.SetForbidden(m.ForbiddenHashes())
		for j := 0; j < i; j++ {
			AddOutcome(s, m.Src[j])
		}
		pre, err := rowsNow(m)
		if err != nil {
			return false, err
		}
		if mode == "sfault" && k < 2 && tag != "corpus" && tag != "only" {
			// no state update can be planned for a header that extends the tip or has an unstored parent: skip those
			t, terr := s.Repo.Headers.GetTip()
			par, perr := s.Repo.Headers.GetHeaderByHash(m.Src[i].PrevBlock.String())
			if terr != nil || t == nil || perr != nil || par == nil || par.Hash == t.Hash || par.IsOrphan() {
				return false, nil
			}
		}
		var outs []string
		var hit bool
		if mode == "sfault" {
			// a SQLite trigger aborts one statement kind while this header is added (k: 0 demote, 1 promote, 2 insert)
			ddl := map[int]string{
				0: "CREATE TRIGGER verif_fault BEFORE UPDATE ON headers WHEN NEW.header_state = 'STALE' BEGIN SELECT RAISE(ABORT, 'verif: injected statement failure'); END",
				1: "CREATE TRIGGER verif_fault BEFORE UPDATE ON headers WHEN NEW.header_state = 'LONGEST_CHAIN' BEGIN SELECT RAISE(ABORT, 'verif: injected statement failure'); END",
				2: "CREATE TRIGGER verif_fault BEFORE INSERT ON headers BEGIN SELECT RAISE(ABORT, 'verif: injected statement failure'); END",
			}[k]
			if _, err := s.DB.Exec(ddl); err != nil {
				return false, err
			}
			o := addGuarded(s, m.Src[i])
			if _, err := s.DB.Exec("DROP TRIGGER verif_fault"); err != nil {
				return false, err
			}
			// always recorded: whether the statement was reached is the MODEL's prediction (an error that is
			// swallowed below the repository must not make the case disappear)
			hit = true
			if os.Getenv("VERIF_DEBUG") != "" {
				fmt.Fprintf(os.Stderr, "sfault k=%d outcome=%s\n", k, o)
			}
			outs = []string{o}
		} else if mode == "cfault" {
			// ONE COMMIT fails (SQLite turns it into a rollback and reports the error); the process goes on: Add must
			// report the failure, exactly as when the repository call itself fails
			hookArmed, commitBudget, commitsSeen, hookHit, hookOnce = true, k, 0, false, true
			o := addGuarded(s, m.Src[i])
			hookArmed, hookOnce = false, false
			hit = hookHit
			outs = []string{o}
		} else if mode == "ckill" {
			hookArmed, commitBudget, commitsSeen, hookHit = true, k, 0, false
			o := addGuarded(s, m.Src[i])
			hookArmed = false
			hit = hookHit
			_ = o
			outs = []string{"X"} // the process is dead: what Add answered is not observable
		} else {
			fr.armed, fr.mode, fr.failAt, fr.count, fr.hit = true, mode, k, 0, false
			if mode == "cont" {
				fr.mode = "fault"
			}
			outs = []string{addGuarded(s, m.Src[i])}
			hit = fr.hit
			fr.armed = false
		}
		if !hit {
			return false, nil
		}
		if mode == "cont" {
			for j := i + 1; j < len(hh.Subs); j++ {
				outs = append(outs, AddOutcome(s, m.Src[j]))
			}
		}
		// restart: close the database and run database.Init on the same file again
		var ns *Stack
		nrestart++
		if (mode == "kill" || mode == "ckill") && nrestart%9 == 0 && len(abandoned) < 200 {
			// a killed process closes nothing: every ninth crash restarts while the old handle is still open
			var oldDB *sqlx.DB
			ns, oldDB, err = s.ReopenAbandoned()
			if oldDB != nil {
				abandoned = append(abandoned, oldDB)
			}
			c.Count("restart:old-handle-not-closed")
		} else {
			ns, err = s.Reopen()
		}
		if err != nil {
			// the restart REFUSES the crash image (database.Init fails): that is an observable, not a harness error.
			// The database file is abandoned; the run goes on with a fresh stack.
			msg := strings.NewReplacer("|", "/", "\n", " ", "\t", " ").Replace(err.Error())
			if len(msg) > 200 {
				msg = msg[:200]
			}
			obs := fmt.Sprintf("pre:%s|crash:%s/RESTART-FAILED %s|redeliver:/|clean:%s", pre, strings.Join(outs, ","), msg, clean)
			c.Case(hh.Line(), obs)
			c.Count("mode:" + mode)
			c.Count("restart-failed")
			nfresh++
			o2 := opts
			o2.Dir = c.TmpDir(fmt.Sprintf("c05-after-refused-restart-%d", nfresh))
			fs, ferr := NewStack(o2)
			if ferr != nil {
				return false, fmt.Errorf("fresh stack after a refused restart: %w", ferr)
			}
			s = fs
			if err := s.HookCommits(4, hook); err != nil {
				return false, err
			}
			return true, nil
		}
		s = ns
		if err := s.HookCommits(4, hook); err != nil {
			return false, err
		}
		s.SetForbidden(m.ForbiddenHashes())
		crash, err := rowsNow(m)
		if err != nil {
			return false, err
		}
		// full redelivery
		red := []string{}
		for j := range hh.Subs {
			red = append(red, AddOutcome(s, m.Src[j]))
		}
		after, err := rowsNow(m)
		if err != nil {
			return false, err
		}
		obs := fmt.Sprintf("pre:%s|crash:%s/%s|redeliver:%s/%s|clean:%s", pre, strings.Join(outs, ","), crash, strings.Join(red, ","), after, clean)
		c.Case(hh.Line(), obs)
		c.Count("mode:" + mode)
		c.Count(fmt.Sprintf("write:%d", k))
		c.Count("gen:" + tag)
		return true, nil
	}
	zeroEvery := 0
	insEvery := 0
	all := func(h *History, tag string, modes []string, budget *int) error {
		wantS := false
		nm := modes[:0:0]
		for _, mo := range modes {
			if mo == "sfault" {
				wantS = true
			} else {
				nm = append(nm, mo)
			}
		}
		modes = nm
		if wantS {
			// a storage error on one statement kind (0 demote, 1 promote, 2 insert) while header i is added
			for i := range h.Subs {
				for kind := 0; kind < 3; kind++ {
					if *budget <= 0 {
						return nil
					}
					if kind == 2 && tag != "corpus" {
						insEvery++
						if insEvery%5 != 0 {
							continue
						}
					}
					ok, err := doCase(h, "sfault", i, kind, tag)
					if err != nil {
						return err
					}
					if ok {
						*budget--
					}
				}
			}
		}
		for i := range h.Subs {
			for k := 0; k < 3; k++ {
				if k == 0 && tag != "corpus" {
					// "killed before the first write" leaves the store untouched: keep only every 6th such case
					zeroEvery++
					if zeroEvery%6 != 0 {
						continue
					}
				}
				for _, mode := range modes {
					if *budget <= 0 {
						return nil
					}
					ok, err := doCase(h, mode, i, k, tag)
					if err != nil {
						return err
					}
					if !ok {
						break
					}
					*budget--
				}
			}
		}
		return nil
	}
	if c.Only != "" {
		h, err := ParseHistory(c.Only)
		if err != nil {
			return err
		}
		if len(h.X) != 1 {
			return fmt.Errorf("C05 case needs one x=mode:i:k token")
		}
		var mode string
		var i, k int
		p := strings.Split(h.X[0], ":")
		if len(p) != 3 {
			return fmt.Errorf("bad x token")
		}
		mode = p[0]
		fmt.Sscanf(p[1], "%d", &i)
		fmt.Sscanf(p[2], "%d", &k)
		if i >= len(h.Subs) {
			i = len(h.Subs) - 1
		}
		if i < 0 {
			return nil
		}
		_, err = doCase(h, mode, i, k, "only")
		return err
	}
	big := 1 << 30
	for _, l := range corpusLines(c, "C05") {
		h, err := ParseHistory(l)
		if err != nil {
			return err
		}
		if len(h.X) == 1 {
			var i, k int
			p := strings.Split(h.X[0], ":")
			fmt.Sscanf(p[1], "%d", &i)
			fmt.Sscanf(p[2], "%d", &k)
			if _, err := doCase(h, p[0], i, k, "corpus"); err != nil {
				return err
			}
		} else if err := all(h, "corpus", []string{"kill", "ckill", "cfault", "sfault", "fault", "cont"}, &big); err != nil {
			return err
		}
	}
	// killed during the very first start (schema migrated, genesis not yet inserted), then restart and delivery
	for n := 0; n < c.Pick(4, 40); n++ {
		o := GenOpts{N: 2 + c.Rng.Intn(8), PUnknown: 0.05, PLate: 0.08, PDup: 0.05, PForbidden: 0.05, Positive: true, Deep: true}
		if _, err := doCase(GenHistory(c.Rng, o), "ikill", 0, 0, "first-start"); err != nil {
			return err
		}
	}
	// reorganisations of more than 500 headers (demotion and promotion are ONE transaction each however long the
	// branch is): killed / failing at each transaction boundary of the triggering submission
	for hi, h := range LongReorgHistories(c.Thorough()) {
		h.X = nil
		// the submission that moves the most headers: the first whose parent is neither the previous submission nor absent
		trig := -1
		for i := 1; i < len(h.Subs); i++ {
			if h.Subs[i].Prev != h.Subs[i-1].ID {
				trig = i
				break
			}
		}
		isL1 := trig >= 0 && h.Subs[trig].Bits == bitsMain
		// quick: the one-header takeovers only (the model of the 500-header branch overtake costs 10 s a case); never the orphan flood
		if trig < 0 || hi == len(LongReorgHistories(c.Thorough()))-1 || !isL1 && !c.Thorough() {
			continue
		}
		if h.Subs[trig].Bits == bitsW2 {
			// branch b of L2: the reorganisation happens at its LAST header
			for trig+1 < len(h.Subs) && h.Subs[trig+1].Prev == h.Subs[trig].ID {
				trig++
			}
		}
		h.Subs = h.Subs[:trig+1]
		for _, mk := range []struct {
			mode string
			k    int
		}{{"ckill", 1}, {"ckill", 2}, {"cfault", 1}, {"kill", 1}} {
			if _, err := doCase(h, mk.mode, trig, mk.k, "long-reorg"); err != nil {
				return err
			}
		}
	}
	// bounded-exhaustive reorganisation shapes: all trees over n headers x work {2,4} x arrival orders, every (i,k), kill
	budget := c.Pick(1400, 40000)
	var eerr error
	ExhaustiveHistories(c.Pick(3, 4), []uint32{bitsW2, bitsW4}, func(h *History) {
		if eerr == nil && budget > 0 {
			eerr = all(h, "exhaustive", []string{"kill", "ckill", "sfault"}, &budget)
		}
	})
	if eerr != nil {
		return eerr
	}
	// random deep-reorganisation histories: every (i,k) x {kill, fault, cont}
	budget = c.Pick(1600, 30000)
	for n := 0; budget > 0 && n < c.Pick(400, 8000); n++ {
		o := GenOpts{N: 3 + c.Rng.Intn(c.Pick(8, 14)), PUnknown: 0.05, PLate: 0.08, PDup: 0.05, PForbidden: 0.05, Positive: true, Deep: true}
		if err := all(GenHistory(c.Rng, o), "random-deep", []string{"kill", "ckill", "cfault", "sfault", "fault", "cont"}, &budget); err != nil {
			return err
		}
	}
	return nil
}
