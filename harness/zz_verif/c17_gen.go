//go:build verif

package main

// C17 case generator: sources (chains with field extremes, stale siblings, orphans, reorganisations,
// one long chain crossing the import batch boundary) x target scenarios (clean round trip, every
// single-field corruption, structural corruptions, checkpoints, second starts, non-empty targets).

import (
	"fmt"
	"strings"

	"github.com/bitcoin-sv/block-headers-service/database"
	"github.com/bitcoin-sv/block-headers-service/internal/chaincfg/chainhash"
)

func (h *c17H) pickI64(vals []int64, rnd func() int64) int64 {
	if h.c.Rng.Intn(3) == 0 {
		return rnd()
	}
	return vals[h.c.Rng.Intn(len(vals))]
}

func (h *c17H) randMerkle() chainhash.Hash {
	var m chainhash.Hash
	switch h.c.Rng.Intn(12) {
	case 0: // all zero
	case 1:
		for i := range m {
			m[i] = 0xff
		}
	case 2:
		m[0] = byte(1 + h.c.Rng.Intn(255)) // small value: display string with many leading zeros
	default:
		h.c.Rng.Read(m[:])
	}
	return m
}

// randF draws header fields with the extremes of every type well represented.
// mode: 0 = anything, 1 = regular work (fixed bits, for forks that must stay below / overtake), 2 = zero work,
// 3 = long chains (the 256-bit division of every row is what the extracted model spends its time on)
func (h *c17H) randF(mode int) c17F {
	r := h.c.Rng
	f := c17F{}
	f.ver = int32(h.pickI64([]int64{-1 << 31, -1, 0, 1, 2, 0x20000000, 1<<31 - 1, -2}, func() int64 { return int64(int32(r.Uint32())) }))
	f.merkle = h.randMerkle()
	f.ts = h.pickI64([]int64{0, 1, 1<<31 - 1, 1 << 31, 1<<32 - 1, 1231006505, 1<<32 - 2}, func() int64 { return int64(r.Uint32()) })
	f.nonce = uint32(h.pickI64([]int64{0, 1, 1<<32 - 1, 1 << 31, 2083236893}, func() int64 { return int64(r.Uint32()) }))
	switch mode {
	case 1:
		f.bits = 0x1d00ffff
	case 2:
		f.bits = uint32([]int64{0, 0xffffffff, 0x1d800001, 0x00ffffff, 1}[r.Intn(5)])
	case 3: // cheap for the model's exact arithmetic: zero or tiny work, now and then the usual one
		f.bits = uint32([]int64{0, 0xffffffff, 0x207fffff, 0x2100ffff, 0x2200ffff, 0x1d800001, 0x20123456, 0x1d00ffff}[r.Intn(8)])
	default:
		f.bits = uint32(h.pickI64([]int64{0, 1, 0xffffffff, 0x1d00ffff, 0x207fffff, 0x1d800001, 0x03000001, 0x01010000, 0x2100ffff, 0xff7fffff, 0x1b0404cb},
			func() int64 { return int64(r.Uint32()) }))
	}
	return f
}

// genSource returns the source operations of one store.
func (h *c17H) genSource(n int, kind string) []string {
	r := h.c.Rng
	var ops []string
	add := "a"
	if kind == "direct" {
		add = "d"
	}
	mode := 0
	if kind == "reorg" {
		mode = 1
	}
	if kind == "direct" || kind == "long" {
		mode = 3
	}
	if kind == "shuffled" {
		add = "d"
		ops = append(ops, fmt.Sprintf("z %d", 1+r.Int63n(1<<40)))
	}
	for i := 0; i < n; i++ {
		ops = append(ops, add+" "+h.randF(mode).String())
		if kind == "direct" || kind == "shuffled" {
			continue
		}
		switch x := r.Intn(14); {
		case x == 0: // stale sibling somewhere below the tip, no more work than the tip
			ops = append(ops, fmt.Sprintf("f %d %s", r.Intn(3), h.randF(2).String()))
		case x == 1: // stale sibling with regular work, then maybe a child
			ops = append(ops, fmt.Sprintf("f %d %s", r.Intn(2), h.randF(mode).String()))
			if r.Intn(2) == 0 {
				ops = append(ops, "e "+h.randF(2).String())
			}
		case x == 2:
			ops = append(ops, "o "+h.randF(0).String())
			if r.Intn(2) == 0 {
				ops = append(ops, "oc "+h.randF(0).String())
			}
		case x == 3 && kind == "reorg": // equal-work sibling, then its child overtakes: the chain is reorganised
			ops = append(ops, "f 0 "+h.randF(1).String(), "e "+h.randF(1).String())
		}
	}
	return ops
}

type c17Corr struct {
	col   int
	val   string
	class string
}

func (h *c17H) corruptions() []c17Corr {
	hex64 := h.randMerkle().String()
	if hex64 == (chainhash.Hash{}).String() {
		hex64 = strings.Repeat("ab", 32)
	}
	return []c17Corr{
		{0, "abc", "nonnumeric"}, {0, "~", "empty"}, {0, "2147483648", "range"}, {0, "-2147483649", "range"},
		{0, "1.5", "nonnumeric"}, {0, "0x10", "nonnumeric"}, {0, "+7", "accepted-form"}, {0, "007", "accepted-form"},
		{0, "-0", "accepted-form"}, {0, "^1", "nonnumeric"}, {0, "1^", "nonnumeric"}, {0, "99999999999999999999", "range"},
		{0, "-", "nonnumeric"}, {0, "+", "nonnumeric"}, {0, "1_000", "nonnumeric"}, {0, "2147483647", "valid-other"}, {0, "-2147483648", "valid-other"},
		{1, "zz", "nonnumeric"}, {1, "~", "accepted-form"}, {1, hex64 + "0", "range"}, {1, hex64[:63], "accepted-form"},
		{1, strings.ToUpper(hex64), "accepted-form"}, {1, "g" + hex64[1:], "nonnumeric"}, {1, hex64, "valid-other"}, {1, "1", "accepted-form"},
		{1, hex64[:32] + "^" + hex64[33:], "nonnumeric"},
		{2, "abc", "nonnumeric"}, {2, "~", "empty"}, {2, "4294967296", "range"}, {2, "-1", "range"}, {2, "+5", "nonnumeric"},
		{2, "1.0", "nonnumeric"}, {2, "18446744073709551616", "range"}, {2, "007", "accepted-form"}, {2, "4294967295", "valid-other"}, {2, "0", "valid-other"},
		{3, "abc", "nonnumeric"}, {3, "~", "empty"}, {3, "4294967296", "range"}, {3, "-1", "range"}, {3, "+5", "nonnumeric"},
		{3, "1d00ffff", "nonnumeric"}, {3, "18446744073709551616", "range"}, {3, "00486604799", "accepted-form"}, {3, "4294967295", "valid-other"}, {3, "0", "valid-other"},
		// integer-literal syntax of other bases / digit separators / exponents: not decimal numerals, malformed
		{0, "0x1", "literal-syntax"}, {0, "1_0", "literal-syntax"}, {0, "1e3", "literal-syntax"}, {0, "0b1", "literal-syntax"}, {0, "0o7", "literal-syntax"},
		{0, "-0x1", "literal-syntax"}, {0, "017", "valid-other"},
		{2, "0x17", "literal-syntax"}, {2, "0b1", "literal-syntax"}, {2, "0o17", "literal-syntax"}, {2, "4_294_967_295", "literal-syntax"},
		{2, "1_0", "literal-syntax"}, {2, "1e3", "literal-syntax"}, {2, "0X1F", "literal-syntax"}, {2, "017", "valid-other"}, {2, "^1", "nonnumeric"}, {2, "1^", "nonnumeric"},
		{3, "0x1d00ffff", "literal-syntax"}, {3, "0b1", "literal-syntax"}, {3, "0o17", "literal-syntax"}, {3, "4_294_967_295", "literal-syntax"},
		{3, "1_0", "literal-syntax"}, {3, "1e3", "literal-syntax"}, {3, "+1", "nonnumeric"}, {3, "017", "valid-other"}, {3, "^1", "nonnumeric"}, {3, "1^", "nonnumeric"},
		{4, "0x5", "literal-syntax"}, {4, "0b1", "literal-syntax"}, {4, "1_0", "literal-syntax"}, {4, "0o17", "literal-syntax"}, {4, "017", "valid-other"},
		{4, "^1", "nonnumeric"}, {4, "1^", "nonnumeric"},
		{4, "abc", "nonnumeric"}, {4, "~", "empty"}, {4, "9223372036854775808", "range"}, {4, "-9223372036854775809", "range"},
		{4, "1e9", "nonnumeric"}, {4, "2009-01-03", "nonnumeric"}, {4, "1231006505.0", "nonnumeric"}, {4, "+1231006505", "accepted-form"},
		{4, "4294967295", "valid-other"}, {4, "0", "valid-other"}, {4, "-1", "valid-other"}, {4, "4294967296", "valid-other"},
	}
}

func (h *c17H) run(class string, src []string, tgt ...string) error {
	ops := append(append([]string{}, src...), tgt...)
	return h.runCase(ops, class)
}

// targetFamilies runs the target scenarios for one source with n exported rows (genesis included).
func (h *c17H) targetFamilies(src []string, n int, full bool) error {
	r := h.c.Rng
	steps := []func() error{
		func() error { return h.run("roundtrip", src, "i") },
		func() error { return h.run("roundtrip-restart", src, "i", "i") },
		func() error { return h.run("roundtrip-then-unprepared", src, "i", "iu") },
		func() error { return h.run("unprepared-then-import", src, "iu", "i") },
	}
	rowsToHit := []int{0, n - 1}
	if n > 2 {
		rowsToHit = append(rowsToHit, 1+r.Intn(n-2))
	}
	corrs := h.corruptions()
	for _, cr := range corrs {
		cr := cr
		rows := rowsToHit
		if !full {
			rows = []int{rowsToHit[r.Intn(len(rowsToHit))]}
		} else if !h.c.Thorough() && len(rowsToHit) > 2 {
			drop := r.Intn(len(rowsToHit))
			rows = append(append([]int{}, rowsToHit[:drop]...), rowsToHit[drop+1:]...)
		}
		for _, row := range rows {
			row := row
			k := fmt.Sprintf("kset %d %d %s", row, cr.col, cr.val)
			tail := []string{k, "i"}
			switch r.Intn(4) {
			case 0:
				tail = append(tail, "i")
			case 1:
				tail = append(tail, "kfix", "i")
			}
			if cr.class == "valid-other" && row > 0 && r.Intn(2) == 0 {
				// a changed but well-formed value above the newest checkpoint is not detectable
				tail = append([]string{fmt.Sprintf("p %d g", row-1)}, tail...)
			}
			steps = append(steps, func() error { return h.run("field:"+cr.class, src, tail...) })
			if cr.class != "valid-other" && row > 0 && (full || r.Intn(3) == 0) {
				// newest checkpoint below the edited row: the parser alone has to refuse a malformed value
				// (and an accepted alternative spelling must give the same chain)
				below := []string{fmt.Sprintf("p %d g", row-1), k, "i"}
				steps = append(steps, func() error { return h.run("field-below-checkpoint:"+cr.class, src, below...) })
			}
		}
	}
	// things special to a csv reader, in every column and row position class: the importer's reader must see what
	// encoding/csv in its default configuration sees (a comment character, lazy quotes, trimmed blanks .. would change that)
	rawField := []string{"hash", "qlead", "qmid", "qtrail", "qpair", "quoted", "qq", "comma", "qcomma", "cr", "qlf", "bom", "tblank", "lblank", "ttab", "nul"}
	rawLine := []string{"emptyline", "blankline", "commas", "crlf", "hashline"}
	addRaw := func(kind string, col int) {
		rows := rowsToHit
		if !h.c.Thorough() {
			row := rowsToHit[r.Intn(len(rowsToHit))]
			if row == 0 && n > 1 && r.Intn(3) != 0 {
				row = n - 1
			}
			rows = []int{row}
		}
		for _, row := range rows {
			k := fmt.Sprintf("kraw %d %d %s", row, col, kind)
			tail := []string{k, "i"}
			if r.Intn(3) == 0 {
				tail = append(tail, "i")
			}
			steps = append(steps, func() error { return h.run("csv:"+kind, src, tail...) })
			if row > 0 && (full && (kind == "hash" || kind == "emptyline" || r.Intn(2) == 0) || !full && r.Intn(3) == 0) {
				below := []string{fmt.Sprintf("p %d g", row-1), k, "i", "i"}
				steps = append(steps, func() error { return h.run("csv-below-checkpoint:"+kind, src, below...) })
			}
		}
	}
	for _, kind := range rawField {
		cols := []int{0, 1, 2, 3, 4}
		if !h.c.Thorough() {
			// the first field always (comment character, byte order mark), two of the others
			p := r.Perm(4)
			cols = []int{0, 1 + p[0], 1 + p[1]}
		}
		for _, col := range cols {
			addRaw(kind, col)
		}
	}
	for _, kind := range rawLine {
		addRaw(kind, 0)
	}
	mid := r.Intn(n)
	nonceOther := fmt.Sprintf("kset %d 2 %d", mid, 12345+r.Intn(1000))
	structural := [][]string{
		// the import and its validation do not depend on the p2p options of the configuration
		{"c dc", "i"}, {"c ex", "i", "i"}, {"c dc,ex", "i"},
		{"c dc", fmt.Sprintf("p %d b", mid), "i", "i"}, {"c ex", fmt.Sprintf("p %d b", mid), "i"}, {"c dc,ex", fmt.Sprintf("p %d b", n-1), "i", "i"},
		{"c dc", fmt.Sprintf("p %d g", n), "i", "i"}, {"c dc,ex", fmt.Sprintf("p %d g", n+3), "i"},
		{"c dc", nonceOther, "i", "i"}, {"c dc", fmt.Sprintf("p %d g", mid), nonceOther, "i"}, {"c ex", nonceOther, "i"},
		{"c dc", fmt.Sprintf("kset %d 0 abc", mid), "i"}, {"c dc", "tg", fmt.Sprintf("p %d b", mid), "i"}, {"c dc", "kempty", "i"},
		{fmt.Sprintf("kdelcol %d %d", mid, r.Intn(5)), "i", "i"},
		{fmt.Sprintf("kaddcol %d 0", mid), "i"},
		{fmt.Sprintf("kaddcol %d ~", n-1), "i", "i"},
		{"kallcols 4", "i"}, {"kallcols 6", "i", "i"}, {"kallcols 1", "i"},
		{fmt.Sprintf("kdelrow %d", mid), "i", "i"},
		{fmt.Sprintf("kdelrow %d", n-1), "i"},
		{fmt.Sprintf("kduprow %d", mid), "i", "i"},
		{"kaddrow 1," + strings.Repeat("cd", 32) + ",7,486604799,1300000000", "i", "i"},
		{"kaddrow 1," + strings.Repeat("cd", 32) + ",7,486604799,1300000000", fmt.Sprintf("p %d g", n-1), "i", "i"},
		{"kaddrow x,y", "i"},
		{fmt.Sprintf("ktrunc %d", mid), fmt.Sprintf("p %d g", mid-1), "i", "i"},
		{fmt.Sprintf("ktrunc %d", mid), "i", "i"},
		{"ktrunc 0", "p 0 g", "i", "i"},
		{"knohdr", "i", "i"}, {"knohdr", fmt.Sprintf("p %d g", n-2), "i"},
		{"kempty", "i", "i"}, {"knofile", "i", "kfix", "i"}, {"kgarbage", "i", "i"},
		{fmt.Sprintf("p %d g", mid), "i", "i"},
		{fmt.Sprintf("p %d b", mid), "i", "i"},
		{fmt.Sprintf("p %d b", n-1), "i", "kfix", "i"},
		{"p 0 g", "i"}, {"p 0 b", "i", "i"},
		{fmt.Sprintf("p %d g", n), "i", "i"},
		{fmt.Sprintf("p %d g", n+7), "i"},
		// a database that already holds headers is never overwritten
		{"tg", "i"}, {"tg", "i", "i"}, {"tc", "i"}, {"tc", "kset 0 0 abc", "i", "i"}, {"tg", "knofile", "i"},
		{"tg", fmt.Sprintf("p %d b", mid), "i"}, {"tc", "kempty", "i", "iu"}, {"tg", "kgarbage", "i"},
	}
	for _, t := range structural {
		t := t
		cl := strings.Fields(t[0])[0]
		if cl == "c" {
			cl = "config:" + strings.Fields(t[0])[1] + ":" + strings.Fields(t[1])[0]
		}
		if cl == "p" {
			cl = "checkpoint:" + strings.Fields(t[0])[2]
		}
		steps = append(steps, func() error { return h.run("struct:"+cl, src, t...) })
	}
	if !full {
		// a random third of the structural scenarios, all basic ones
		var sel []func() error
		for i, s := range steps {
			if i < 4 || r.Intn(3) == 0 {
				sel = append(sel, s)
			}
		}
		steps = sel
	}
	for _, s := range steps {
		if err := s(); err != nil {
			return err
		}
	}
	return nil
}

func c17CountAdds(ops []string) int {
	n := 1
	for _, o := range ops {
		if strings.HasPrefix(o, "a ") || strings.HasPrefix(o, "d ") {
			n++
		}
	}
	return n
}

// exportedLen is the number of data rows of the current source's export (longest chain incl. genesis).
func (h *c17H) exportedLen(src []string) (int, error) {
	s, err := h.buildSource(src)
	if err != nil {
		return 0, err
	}
	if s.good == nil || len(s.good) < 1 {
		return len(c17Longest(s.rows)), nil
	}
	return len(s.good) - 1, nil
}

func (h *c17H) generate() error {
	c := h.c
	r := c.Rng
	b := database.VerifSQLiteBatchSize

	// 1. small stores, every scenario
	nFull := c.Pick(2, 6)
	nPart := c.Pick(6, 36)
	kinds := []string{"mixed", "reorg", "mixed", "plain", "shuffled"}
	for i := 0; i < nFull+nPart; i++ {
		if h.leaks > 14000 {
			// database.Init does not close its connection when it fails (the service exits then); this process keeps
			// those descriptors, so the number of refused starts per run is bounded by the descriptor limit
			c.Meta("generation_truncated", fmt.Sprintf("after %d stores: %d refused in-process starts", i, h.leaks))
			break
		}
		kind := kinds[i%len(kinds)]
		n := 1 + r.Intn(60)
		if i == 0 {
			n = 0 // genesis only
		}
		if i == 1 {
			n = 1
		}
		src := h.genSource(n, kind)
		en, err := h.exportedLen(src)
		if err != nil {
			return err
		}
		if en < 1 {
			en = 1
		}
		c.Count("source:" + kind)
		if err := h.targetFamilies(src, en, i < nFull); err != nil {
			return err
		}
		// the same store exported after earlier exports in the same temporary directory: a longer store whose
		// export failed at its last step / succeeded, a shorter one, two in a row
		longer := func() int { return en + 3 + r.Intn(40) }
		shorter := func() int { return r.Intn(en) }
		xe := func(mode string, k int) string { return fmt.Sprintf("xe %s %d %d", mode, k, 1+r.Int63n(1<<40)) }
		earlier := [][]string{
			{xe("f", longer())}, {xe("s", longer())}, {xe("f", shorter())}, {xe("s", shorter())},
			{xe("f", longer()), xe("f", longer()+50)}, {xe("s", longer()), xe("f", longer())},
		}
		for ei, pre := range earlier {
			if i >= nFull && ei != i%len(earlier) && ei != 0 {
				continue
			}
			srcE := append(append([]string{}, pre...), src...)
			if err := h.run("after-earlier-export:"+strings.Fields(pre[0])[1], srcE, "i"); err != nil {
				return err
			}
		}
	}

	// 1b. the zone of the processes is a dimension of the tie: the store is written, exported and imported by child
	// processes under different TZ; header times around daylight-saving changes (Europe 2021-10-31, US 2021-11-07)
	zoneSets := [][3]string{
		{"UTC", "Europe/Warsaw", "Asia/Kolkata"}, {"Europe/Warsaw", "UTC", "America/New_York"}, {"UTC", "America/New_York", "UTC"},
		{"Asia/Kolkata", "Europe/Warsaw", "UTC"}, {"America/New_York", "Asia/Kolkata", "Europe/Warsaw"}, {"UTC", "UTC", "UTC"},
		{"Europe/Warsaw", "Europe/Warsaw", "Europe/Warsaw"}, {"UTC", "Asia/Kolkata", "America/New_York"},
	}
	nz := c.Pick(4, len(zoneSets)*3)
	for zi := 0; zi < nz; zi++ {
		zs := zoneSets[zi%len(zoneSets)]
		base := []int64{1635634800, 1636264800, 1616893200, 1231006505}[(zi/2)%4]
		src := []string{fmt.Sprintf("tz %s %s %s", zs[0], zs[1], zs[2])}
		n := 4 + r.Intn(12)
		for i := 0; i < n; i++ {
			f := h.randF(1)
			f.ts = base - 3*1800 + int64(i)*1800
			src = append(src, "a "+f.String())
			if i == n/2 {
				g := h.randF(2)
				g.ts = base + 900
				src = append(src, "f 0 "+g.String())
			}
		}
		c.Count("source:zones")
		tails := [][]string{{"i"}, {"i", "i"}, {fmt.Sprintf("p %d g", n/2), "i"}, {fmt.Sprintf("p %d b", n/2), "i", "i"}, {fmt.Sprintf("kset %d 4 abc", n/2), "i"}}
		for ti, t := range tails {
			if ti > 0 && zi%len(tails) != ti && !c.Thorough() {
				continue
			}
			if err := h.run("zones:"+zs[0]+">"+zs[1]+">"+zs[2], src, t...); err != nil {
				return err
			}
		}
	}

	// 2. a long chain crossing the batch boundary of the import (inserted directly)
	if b >= 1 && b <= 2000 {
		nLong := c.Pick(1, 3)
		for li := 0; li < nLong; li++ {
			n := 2*b + 5 + r.Intn(40)
			if c.Thorough() && li == 1 {
				n = 3*b + r.Intn(b) // up to 4 batches
			}
			kind := "direct"
			if c.Thorough() && li == 2 {
				kind = "long" // through Chains.Add
				n = b + 50 + r.Intn(100)
			}
			src := h.genSource(n, kind)
			if kind == "long" {
				src = append(src, "f 0 "+h.randF(2).String(), "o "+h.randF(0).String())
			}
			en, err := h.exportedLen(src)
			if err != nil {
				return err
			}
			c.Count("source:long-" + kind)
			bad := func(row int) string {
				return fmt.Sprintf("kset %d %d %s", row, r.Intn(5), []string{"abc", "1.5", "-9999999999999999999999"}[r.Intn(3)])
			}
			long := [][]string{
				{"i"}, {"i", "i"},
				{bad(b + 100), "i", "i"},         // the probe of the design: a bad row in the second batch
				{bad(b + 100), "i", "kfix", "i"}, // ... and the operator repairs the file
				{bad(b), "i", "i"},               // first row of the second batch
				{bad(b - 1), "i", "i"},           // last row of the first batch: nothing committed
				{bad(2*b + 3), "i", "i", "i"},    // two batches committed
				{bad(en - 1), "i", "i"},
				{bad(0), "i", "i"},
				{fmt.Sprintf("kdelcol %d 2", b+1), "i", "i"},
				{fmt.Sprintf("ktrunc %d", b), fmt.Sprintf("p %d g", b-1), "i", "i"}, // exactly one batch
				{fmt.Sprintf("ktrunc %d", b+1), fmt.Sprintf("p %d g", b), "i"},
				{fmt.Sprintf("ktrunc %d", b-1), fmt.Sprintf("p %d g", b-2), "i"},
				{fmt.Sprintf("ktrunc %d", 2*b), fmt.Sprintf("p %d g", b), "i", "i"},
				{fmt.Sprintf("ktrunc %d", 2*b), fmt.Sprintf("p %d b", b), "i", "i"},
				{fmt.Sprintf("p %d b", b+200), "i", "i"}, // validation fails after everything was inserted
				{fmt.Sprintf("p %d g", en), "i", "i"},
				{fmt.Sprintf("kset %d 2 12345", b+7), fmt.Sprintf("p %d g", b+6), "i"},
				{"tc", bad(b + 100), "i"},
			}
			for _, t := range long {
				if err := h.run("long:"+strings.Fields(t[0])[0], src, t...); err != nil {
					return err
				}
			}
			// every kind of malformed row exactly before / at / after each batch boundary and in the last row,
			// with the newest checkpoint below the bad row (only the reader can refuse) and above it
			if en > 2*b+1 {
				hex65 := strings.Repeat("ab", 32) + "0"
				type kind struct {
					name string
					op   func(row int) string
				}
				set := func(col int, val string) func(int) string {
					return func(row int) string { return fmt.Sprintf("kset %d %d %s", row, col, val) }
				}
				kinds := []kind{
					{"version-nonnumeric", set(0, "abc")}, {"version-range", set(0, "2147483648")}, {"version-empty", set(0, "~")},
					{"merkle-nonhex", set(1, "zz")}, {"merkle-too-long", set(1, hex65)},
					{"nonce-nonnumeric", set(2, "1x")}, {"nonce-range", set(2, "4294967296")}, {"nonce-empty", set(2, "~")},
					{"bits-nonnumeric", set(3, "abc")}, {"bits-range", set(3, "-1")}, {"bits-empty", set(3, "~")},
					{"ts-nonnumeric", set(4, "1e9")}, {"ts-range", set(4, "9223372036854775808")}, {"ts-empty", set(4, "~")},
					{"column-missing", func(row int) string { return fmt.Sprintf("kdelcol %d %d", row, r.Intn(5)) }},
					{"column-extra", func(row int) string { return fmt.Sprintf("kaddcol %d 0", row) }},
					{"nonce-hex-literal", set(2, "0x17")}, {"bits-digit-separators", set(3, "4_294_967_295")}, {"version-hex-literal", set(0, "0x1")},
					{"csv-comment-char", func(row int) string { return fmt.Sprintf("kraw %d 0 hash", row) }},
					{"csv-open-quote", func(row int) string { return fmt.Sprintf("kraw %d %d qlead", row, r.Intn(5)) }},
					{"csv-commas-only-line", func(row int) string { return fmt.Sprintf("kraw %d 0 commas", row) }},
				}
				rows := []int{b - 1, b, b + 1, 2*b - 1, 2 * b, 2*b + 1, en - 1}
				for _, row := range rows {
					atBoundary := row%b == 0
					for _, below := range []bool{true, false} {
						ks := kinds
						if !c.Thorough() && !(atBoundary && below) {
							// quick: every kind at the first row of a batch with the checkpoint below it, a sample elsewhere
							take := 2
							if atBoundary {
								take = 6
							}
							ks = nil
							for _, i := range r.Perm(len(kinds))[:take] {
								ks = append(ks, kinds[i])
							}
						}
						for _, k := range ks {
							var t []string
							where := "above"
							if below {
								ck := row - 1
								if r.Intn(2) == 0 {
									ck = r.Intn(row)
								}
								t = append(t, fmt.Sprintf("p %d g", ck))
								where = "below"
							}
							t = append(t, k.op(row), "i", "i")
							pos := "inside-batch"
							if atBoundary {
								pos = "first-row-of-batch"
							} else if (row+1)%b == 0 {
								pos = "last-row-of-batch"
							}
							if err := h.run("boundary:"+pos+":checkpoint-"+where, src, t...); err != nil {
								return err
							}
							c.Count("boundary-kind:" + k.name)
						}
					}
				}
			}
		}
	} else {
		c.Meta("long_chain_family", fmt.Sprintf("skipped: batch size %d", b))
	}
	c.Meta("sources_built", fmt.Sprintf("%d", h.nsrc))
	return nil
}
