//go:build verif

package main

import "fmt"

func init() { register("selftest", runSelftest) }

// selftest: opens the real stack and performs one request (smoke test of the fixture).
func runSelftest(c *Ctx) error {
	s, err := NewStack(StackOpts{Dir: c.TmpDir("self")})
	if err != nil {
		return err
	}
	defer s.Close()
	code, body := s.Do("GET", "/api/v1/chain/tip/longest", "", nil)
	rows, err := s.DumpHeaders()
	if err != nil {
		return err
	}
	fmt.Println(code, body, len(rows), rows[0])
	c.Case("selftest", fmt.Sprintf("%d %d", code, len(rows)))
	return nil
}
