//go:build verif

package main

import (
	"fmt"
	"math"
	"sort"
	"strconv"
	"strings"
	"time"

	"github.com/bitcoin-sv/block-headers-service/transports/p2p"
)

// Admission cases.
//
// head:   adm mp=<config.MaxPeers> ip=<config.MaxPeersPerIP> D=<ban duration in clock units>
//         [u=<milliseconds per clock unit>, default 3600000 (one hour); u=1 gives millisecond positions]
//         [k=<n> sk=<minutes>: before the script n peers whose version timestamps were off by sk minutes have
//         been seen (timeSource.AddTimeSample, as OnVersion does); bans run on the LOCAL clock regardless]
// events: L<k>.<pid>.<h>   as A, but the add message is handled while the peer's OnVersion listener is still
//                          running (peerHandler may take the queued message at once)
//         A<k>.<pid>.<h>   a NEW peer object <pid> of kind k (i inbound, o outbound, p persistent
//                          outbound) from host <h> is delivered to handleAddPeerMsg
//         C.<pid>          the connection of peer object <pid> drops (peer.Disconnect())
//         X.<pid>          peer object <pid> is delivered to handleDonePeerMsg (in production only
//                          after its connection dropped: scripts of the reachable alphabet put C first)
//         B<h>             a peer of host <h> is delivered to handleBanPeerMsg
//         T<n>             n clock units pass
// host h has IP 45.(10+h/3).(1+h%3).9, hence outbound group h/3 ("45.(10+h/3).0.0").
//
// observable: one word per event, "<tag>:<state>" with tag a<decision><Connected()> | c | x | b | t | ?
// and state = n<Count()>/I<inbound pids>/O<outbound pids>/P<persistent pids>/H<host:connectionCount,..>
// /G<group:outboundGroups,..>/B<host:remaining ban units,..> (bans still in force); zero counters are not printed,
// everything is sorted.  pids are the case's logical pids (the harness maps peer.ID() back).

// IPv6 hosts (indices chosen so that h/3 is their outbound group): an IPv4-mapped address, one link-local
// address in two zones, two global addresses of one /32.  key = the host string the handlers see
// (SplitHostPort of sp.Addr()): on HEAD a zone is part of it, so the two zones are two hosts; an inbound
// IPv4-mapped peer is keyed by its dotted-quad form.
var c18V6 = map[int][2]string{ // index -> {address handed to the peer, host key}
	291: {"::ffff:10.0.0.1", "10.0.0.1"},
	292: {"fe80::1%eth0", "fe80::1%eth0"},
	293: {"fe80::1%eth1", "fe80::1%eth1"},
	294: {"2001:db8::1", "2001:db8::1"}, // documentation range: unroutable for addrmgr, inbound only
	297: {"2a01:4f8::1", "2a01:4f8::1"},
	298: {"2a01:4f8::2", "2a01:4f8::2"},
}

func c18HostIP(h int) string {
	if v, ok := c18V6[h]; ok {
		return v[0]
	}
	return fmt.Sprintf("45.%d.%d.9", 10+h/3, 1+h%3)
}

// c18HostKey is the key under which the handlers file host h.
func c18HostKey(h int) string {
	if v, ok := c18V6[h]; ok {
		return v[1]
	}
	return c18HostIP(h)
}

func c18HostOfIP(ip string) string {
	for h, v := range c18V6 {
		if v[1] == ip {
			return strconv.Itoa(h)
		}
	}
	var a, b, cc, d int
	if _, err := fmt.Sscanf(ip, "%d.%d.%d.%d", &a, &b, &cc, &d); err != nil || a != 45 || d != 9 {
		return "299" // a key no host of the case is filed under: reported as the pseudo host 299
	}
	return strconv.Itoa((b-10)*3 + (cc - 1))
}

func c18GroupOfKey(k string) string {
	switch k {
	case "unroutable": // link-local and private (IPv4-mapped 10.0.0.1) addresses: hosts 291..293
		return "97"
	case "2a01:4f8::": // hosts 297, 298
		return "99"
	}
	var a, b, cc, d int
	if _, err := fmt.Sscanf(k, "%d.%d.%d.%d", &a, &b, &cc, &d); err != nil || a != 45 || cc != 0 || d != 0 {
		return "?" + k
	}
	return strconv.Itoa(b - 10)
}

type c18PeerSpec struct {
	kind byte
	host int
}

// c18RunAdm runs the case; a run in which the wall clock moved too far between re-anchoring a ban and the
// handler's own time.Now() (only relevant for positions within 2 ms before an expiry) is repeated.
func c18RunAdm(head []string, evs []string) string {
	var obs string
	for try := 0; try < 6; try++ {
		var ok bool
		obs, ok = c18RunAdm1(head, evs)
		if ok {
			break
		}
	}
	return obs
}

func c18RunAdm1(head []string, evs []string) (obs string, reliable bool) {
	reliable = true
	mp, ip := p2p.VerifC18Limits()
	if c18Head(head, "mp", -1) != mp || c18Head(head, "ip", -1) != ip {
		// the case was written for other compiled-in limits: report them, the model is run with
		// the limits of the input line and will disagree
		return fmt.Sprintf("LIMITS mp=%d ip=%d", mp, ip), true
	}
	D := c18Head(head, "D", 10)
	u := c18Head(head, "u", 3600000)
	if u < 1 {
		u = 1
	}
	c18Unit := time.Duration(u) * time.Millisecond
	a := p2p.VerifC18NewAdm(time.Duration(D) * c18Unit)
	defer a.Close()
	if k := c18Head(head, "k", 0); k > 0 && k <= 200 {
		sk := c18Head(head, "sk", 0)
		if sk >= -100000 && sk <= 100000 {
			a.SeenSkewedPeers(k, time.Duration(sk)*time.Minute)
		}
	}
	// logical clock (units) and, per banned host, the logical expiry measured from what the real
	// handleBanPeerMsg stored
	nowU := int64(0)
	expU := map[string]int64{}
	reanchor := func() {
		for _, h := range a.BannedHosts() {
			if e, ok := expU[h]; ok {
				a.SetBanLeft(h, time.Duration(e-nowU)*c18Unit)
			}
		}
	}

	// pre-scan: the attributes of each peer object come from its (first) A token
	specs := map[int]c18PeerSpec{}
	for _, e := range evs {
		if len(e) >= 2 && (e[0] == 'A' || e[0] == 'L') {
			f := strings.Split(e[2:], ".")
			if len(f) == 3 && f[0] == "" {
				pid, e1 := strconv.Atoi(f[1])
				h, e2 := strconv.Atoi(f[2])
				if e1 == nil && e2 == nil && h >= 0 && h < 300 && pid > 0 && strings.ContainsRune("iop", rune(e[1])) {
					if _, dup := specs[pid]; !dup {
						specs[pid] = c18PeerSpec{e[1], h}
					}
				}
			}
		}
	}
	handle := map[int]int{} // pid -> fixture handle
	added := map[int]bool{} // pid already delivered to Add once
	byID := map[int32]int{} // peer.ID() -> pid
	get := func(pid int) (int, bool) {
		if h, ok := handle[pid]; ok {
			return h, true
		}
		sp, ok := specs[pid]
		if !ok {
			return 0, false
		}
		port := 8333
		if sp.kind == 'i' {
			port = 30000 + pid%30000
		}
		h, err := a.NewPeer(sp.kind, c18HostIP(sp.host), port)
		if err != nil {
			panic("fixture: " + err.Error())
		}
		handle[pid] = h
		byID[a.PeerID(h)] = pid
		return h, true
	}
	digest := func() string {
		s := a.Snapshot()
		ids := func(l []int32) string {
			r := make([]int, 0, len(l))
			for _, id := range l {
				if p, ok := byID[id]; ok {
					r = append(r, p)
				} else {
					r = append(r, -int(id))
				}
			}
			sort.Ints(r)
			w := make([]string, len(r))
			for i, v := range r {
				w[i] = strconv.Itoa(v)
			}
			return strings.Join(w, ",")
		}
		kv := func(m map[string]int, name func(string) string) string {
			type e struct {
				k string
				n int
				v int
			}
			var l []e
			for k, v := range m {
				if v == 0 {
					continue
				}
				nm := name(k)
				n, err := strconv.Atoi(nm)
				if err != nil {
					n = 1 << 30
				}
				l = append(l, e{nm, n, v})
			}
			sort.Slice(l, func(i, j int) bool {
				if l[i].n != l[j].n {
					return l[i].n < l[j].n
				}
				return l[i].k < l[j].k
			})
			w := make([]string, len(l))
			for i, x := range l {
				w[i] = fmt.Sprintf("%s:%d", x.k, x.v)
			}
			return strings.Join(w, ",")
		}
		// ban table: only entries that are still in force (>= 1 unit left) are part of the
		// observable; whether an expired entry is dropped eagerly or lazily is not behaviour
		type be struct {
			n int
			v int
		}
		var bs []be
		for k, v := range s.BannedLeft {
			left := int(math.Round(float64(v) / float64(c18Unit)))
			if e, ok := expU[k]; ok {
				left = int(e - nowU)
			}
			if left < 1 {
				continue
			}
			n, err := strconv.Atoi(c18HostOfIP(k))
			if err != nil {
				n = 1 << 30
			}
			bs = append(bs, be{n, left})
		}
		sort.Slice(bs, func(i, j int) bool { return bs[i].n < bs[j].n })
		bw := make([]string, len(bs))
		for i, x := range bs {
			bw[i] = fmt.Sprintf("%d:%d", x.n, x.v)
		}
		return fmt.Sprintf("n%d/I%s/O%s/P%s/H%s/G%s/B%s", s.Count, ids(s.Inbound), ids(s.Outbound), ids(s.Persistent),
			kv(s.ConnCount, c18HostOfIP), kv(s.Groups, c18GroupOfKey), strings.Join(bw, ","))
	}
	var out []string
	step := func(e string) (tag string) {
		defer func() {
			if r := recover(); r != nil {
				if s, ok := r.(string); ok && strings.HasPrefix(s, "fixture: ") {
					panic(r)
				}
				tag = "PANIC"
			}
		}()
		switch {
		case len(e) >= 2 && e[0] == 'L':
			f := strings.Split(e[2:], ".")
			if len(f) != 3 {
				return "?"
			}
			pid, err := strconv.Atoi(f[1])
			hh, err2 := strconv.Atoi(f[2])
			sp, ok := specs[pid]
			_, exists := handle[pid]
			if err != nil || err2 != nil || !ok || added[pid] || exists || sp.kind != e[1] || sp.host != hh {
				return "?"
			}
			port := 8333
			if sp.kind == 'i' {
				port = 30000 + pid%30000
			}
			added[pid] = true
			reanchor()
			h, d, perr := a.NewPeerAddInListener(sp.kind, c18HostIP(sp.host), port)
			if perr != nil {
				panic("fixture: " + perr.Error())
			}
			handle[pid] = h
			byID[a.PeerID(h)] = pid
			return fmt.Sprintf("a%d%d", b2i(d), b2i(a.Connected(h)))
		case len(e) >= 2 && e[0] == 'A':
			f := strings.Split(e[2:], ".")
			if len(f) != 3 {
				return "?"
			}
			pid, err := strconv.Atoi(f[1])
			hh, err2 := strconv.Atoi(f[2])
			sp, ok := specs[pid]
			if err != nil || err2 != nil || !ok || added[pid] || sp.kind != e[1] || sp.host != hh {
				return "?"
			}
			h, _ := get(pid)
			added[pid] = true
			t0 := time.Now()
			reanchor()
			d := a.Add(h)
			if e, ok := expU[c18HostKey(sp.host)]; ok {
				left := time.Duration(e-nowU) * c18Unit
				if left > 0 && left <= 2*time.Millisecond && time.Since(t0) > 400*time.Microsecond {
					reliable = false
				}
			}
			return fmt.Sprintf("a%d%d", b2i(d), b2i(a.Connected(h)))
		case strings.HasPrefix(e, "C."):
			pid, err := strconv.Atoi(e[2:])
			if err != nil {
				return "?"
			}
			h, ok := get(pid)
			if !ok {
				return "?"
			}
			a.Disconnect(h)
			return "c"
		case strings.HasPrefix(e, "X."):
			pid, err := strconv.Atoi(e[2:])
			if err != nil {
				return "?"
			}
			h, ok := get(pid)
			if !ok {
				return "?"
			}
			a.Done(h)
			return "x"
		case len(e) >= 2 && e[0] == 'B':
			h, err := strconv.Atoi(e[1:])
			if err != nil || h < 0 || h >= 300 {
				return "?"
			}
			if err := a.Ban(c18HostIP(h), 8333); err != nil {
				return "?"
			}
			if left, ok := a.BanLeft(c18HostKey(h)); ok {
				expU[c18HostKey(h)] = nowU + int64(math.Round(float64(left)/float64(c18Unit)))
			}
			return "b"
		case len(e) >= 2 && e[0] == 'T':
			n, err := strconv.Atoi(e[1:])
			if err != nil || n < 0 || n > 1000000000 {
				return "?"
			}
			nowU += int64(n) // the stored expiries are re-anchored to the wall clock before each Add
			return "t"
		}
		return "?"
	}
	for _, e := range evs {
		tag := step(e)
		out = append(out, tag+":"+digest())
	}
	if len(out) == 0 {
		return "-", true
	}
	return strings.Join(out, " "), reliable
}

func mpip(ip int) int { return ip }

func b2i(b bool) int {
	if b {
		return 1
	}
	return 0
}

// ---------------------------------------------------------------------------------------------
// generators

func c18GenAdm(c *Ctx) error {
	mp, ip := p2p.VerifC18Limits()
	const D = 10
	head := fmt.Sprintf("adm mp=%d ip=%d D=%d", mp, ip, D)
	seen := map[string]bool{}
	emit := func(evs []string, class string) {
		in := head + ";" + strings.Join(evs, ";")
		if seen[in] {
			return
		}
		seen[in] = true
		c.Case(in, c18RunAdm(strings.Fields(head), evs))
		c.Count("adm:" + class)
	}

	// (1) exhaustive: every sequence up to depth d over the full alphabet on hosts {0,1,3}
	//     (0 and 1 share an outbound group), fresh pid per Add, Done of any earlier peer,
	//     Ban of each host, clock steps 4 (inside the ban) and 10 (to expiry).
	hosts := []int{0, 1, 3}
	var rec func(prefix []string, nadd int, depth int, alpha func(nadd int) []string, class string)
	rec = func(prefix []string, nadd int, depth int, alpha func(nadd int) []string, class string) {
		if len(prefix) > 0 {
			emit(prefix, class)
		}
		if depth == 0 {
			return
		}
		for _, t := range alpha(nadd) {
			n2 := nadd
			tok := t
			if t[0] == 'A' {
				n2 = nadd + 1
				tok = fmt.Sprintf("%s.%d.%s", t[:2], n2, t[3:])
			}
			rec(append(append([]string{}, prefix...), tok), n2, depth-1, alpha, class)
		}
	}
	full := func(nadd int) []string {
		var r []string
		for _, k := range "iop" {
			for _, h := range hosts {
				r = append(r, fmt.Sprintf("A%c.%d", k, h))
			}
		}
		for p := 1; p <= nadd; p++ {
			r = append(r, fmt.Sprintf("C.%d", p), fmt.Sprintf("X.%d", p))
		}
		for _, h := range hosts {
			r = append(r, fmt.Sprintf("B%d", h))
		}
		return append(r, "T4", "T10")
	}
	rec(nil, 0, c.Pick(3, 4), full, "exhaustive-full")
	// reduced alphabet, deeper
	reduced := func(nadd int) []string {
		r := []string{"Ai.0", "Ao.0", "Ao.1", "B0", "T10"}
		if nadd >= 1 {
			r = append(r, "C.1", "X.1")
		}
		if nadd >= 2 {
			r = append(r, fmt.Sprintf("X.%d", nadd))
		}
		return r
	}
	rec(nil, 0, c.Pick(5, 6), reduced, "exhaustive-reduced")
	// every processing order of one peer's Add / connection drop / Done, around a second peer of
	// the same host (the Done-before-Add race of peerHandler's select)
	for _, k := range "iop" {
		trio := []string{fmt.Sprintf("A%c.1.0", k), "C.1", "X.1"}
		perms := [][]int{{0, 1, 2}, {0, 2, 1}, {1, 0, 2}, {1, 2, 0}, {2, 0, 1}, {2, 1, 0}}
		for _, pm := range perms {
			base := []string{trio[pm[0]], trio[pm[1]], trio[pm[2]]}
			emit(base, "add-drop-done-orders")
			for pos := 0; pos <= 3; pos++ {
				for _, other := range []string{"Ao.2.0", "Ai.2.1", "B0"} {
					evs := append(append(append([]string{}, base[:pos]...), other), base[pos:]...)
					emit(append(evs, "C.2", "X.2", "Ai.3.0"), "add-drop-done-orders")
				}
			}
		}
	}

	// ban edges, millisecond clock (u=1): ban durations 300 ms, 1.5 s and the default 24 h; a fresh
	// peer of the banned host knocks at banEnd - {900,600,501,500,499,400,100,1} ms, at banEnd and at
	// banEnd + {1,500} ms (the model compares exact instants: admitted iff now >= banEnd)
	offs := []int{900, 600, 501, 500, 499, 400, 100, 1, 0, -1, -500}
	for i, n := 0, c.Pick(45, 900); i < n; i++ {
		D := []int{300, 1500, 86400000}[i%3]
		h2 := fmt.Sprintf("adm mp=%d ip=%d D=%d u=1", mp, ip, D)
		var evs []string
		pidn := 0
		add := func(host int) {
			pidn++
			evs = append(evs, fmt.Sprintf("A%c.%d.%d", "ioo"[c.Rng.Intn(3)], pidn, host))
		}
		if c.Rng.Intn(2) == 0 {
			add(0)
		}
		if c.Rng.Intn(3) == 0 {
			evs = append(evs, "B1", fmt.Sprintf("T%d", 1+c.Rng.Intn(200)))
		}
		evs = append(evs, "B0")
		at := D // milliseconds left
		for _, o := range offs {
			if o > D || (i >= 9 && c.Rng.Intn(4) == 0) {
				continue
			}
			if at-o > 0 {
				evs = append(evs, fmt.Sprintf("T%d", at-o))
			}
			at = o
			add(0)
			if c.Rng.Intn(6) == 0 {
				add(1)
			}
			if o > 0 && i >= 9 && c.Rng.Intn(12) == 0 {
				evs = append(evs, "B0") // ban renewed: the expiry moves to now + D
				at = D
			}
		}
		in := h2 + ";" + strings.Join(evs, ";")
		if !seen[in] {
			seen[in] = true
			c.Case(in, c18RunAdm(strings.Fields(h2), evs))
			c.Count("adm:ban-edge-ms")
		}
	}

	// skewed peers: k peers whose clocks are off by d have been seen before the script (minute clock,
	// 10-minute bans); the ban must still last exactly its duration on the local clock
	for i, n := 0, c.Pick(36, 720); i < n; i++ {
		k := []int{5, 7, 0, 5, 7, 6}[i%6]
		sk := []int{-70, -60, 30, 0, 45, -70}[(i/6)%6]
		h3 := fmt.Sprintf("adm mp=%d ip=%d D=10 u=60000 k=%d sk=%d", mp, ip, k, sk)
		var evs []string
		pidn := 0
		add := func(host int) {
			pidn++
			evs = append(evs, fmt.Sprintf("A%c.%d.%d", "ioo"[c.Rng.Intn(3)], pidn, host))
		}
		if c.Rng.Intn(2) == 0 {
			add(0)
		}
		evs = append(evs, "B0")
		add(0) // right after the ban
		for _, step := range []int{1, 4, 4, 1, 1, 20, 15, 30} {
			if i >= 12 && c.Rng.Intn(4) == 0 {
				continue
			}
			evs = append(evs, fmt.Sprintf("T%d", step))
			add(0)
			if c.Rng.Intn(8) == 0 {
				evs = append(evs, "B1")
				add(1)
			}
		}
		in := h3 + ";" + strings.Join(evs, ";")
		if !seen[in] {
			seen[in] = true
			c.Case(in, c18RunAdm(strings.Fields(h3), evs))
			c.Count("adm:ban-skewed-peers")
		}
	}

	// the add message handled inside the OnVersion listener, then the usual life: counters must return to zero
	for i, n := 0, c.Pick(30, 600); i < n; i++ {
		var evs []string
		var live []int
		pidn := 0
		for k, m := 0, 3+c.Rng.Intn(6); k < m; k++ {
			pidn++
			tok := "L"
			if c.Rng.Intn(3) == 0 {
				tok = "A"
			}
			evs = append(evs, fmt.Sprintf("%s%c.%d.%d", tok, "iop"[c.Rng.Intn(3)], pidn, c.Rng.Intn(2)))
			live = append(live, pidn)
			if c.Rng.Intn(3) == 0 {
				j := c.Rng.Intn(len(live))
				evs = append(evs, fmt.Sprintf("C.%d", live[j]), fmt.Sprintf("X.%d", live[j]))
				live = append(live[:j], live[j+1:]...)
			}
		}
		for _, p := range live {
			evs = append(evs, fmt.Sprintf("C.%d", p), fmt.Sprintf("X.%d", p))
		}
		pidn++
		evs = append(evs, fmt.Sprintf("Li.%d.0", pidn))
		emit(evs, "add-inside-listener")
	}

	// IPv6 hosts in the per-host families: limit reached, peers done, counters back to zero, a later
	// peer admitted again.  Link-local peers with a zone and the IPv4-mapped host are inbound (an
	// outbound address with a zone cannot be parsed into a NetAddress).
	for i, n := 0, c.Pick(40, 800); i < n; i++ {
		h := []int{292, 293, 297, 291, 298, 294}[i%6]
		kindsOf := "i"
		if h >= 297 {
			kindsOf = "ioo"
		}
		var evs []string
		pidn := 0
		var live []int
		for k, m := 0, mpip(ip)+2+c.Rng.Intn(3); k < m; k++ {
			hh := h
			if h == 292 && c.Rng.Intn(4) == 0 {
				hh = 293 // the same address in another zone
			}
			if h == 297 && c.Rng.Intn(4) == 0 {
				hh = 298
			}
			pidn++
			kd := kindsOf[c.Rng.Intn(len(kindsOf))]
			if hh < 297 {
				kd = 'i'
			}
			evs = append(evs, fmt.Sprintf("A%c.%d.%d", kd, pidn, hh))
			live = append(live, pidn)
			if c.Rng.Intn(5) == 0 && len(live) > 0 {
				j := c.Rng.Intn(len(live))
				evs = append(evs, fmt.Sprintf("C.%d", live[j]), fmt.Sprintf("X.%d", live[j]))
				live = append(live[:j], live[j+1:]...)
			}
		}
		if h != 291 && c.Rng.Intn(3) == 0 {
			evs = append(evs, fmt.Sprintf("B%d", h), "T3")
			pidn++
			evs = append(evs, fmt.Sprintf("Ai.%d.%d", pidn, h), "T7")
		}
		for _, p := range live {
			evs = append(evs, fmt.Sprintf("C.%d", p), fmt.Sprintf("X.%d", p))
		}
		pidn++
		evs = append(evs, fmt.Sprintf("Ai.%d.%d", pidn, h))
		emit(evs, "ipv6-hosts")
	}

	// (2) seeded random sequences
	kinds := "ioooiip"
	randSeq := func(n, nh int, pAdd, pDone, pBan float64, ticks []int) []string {
		var evs []string
		nadd := 0
		for len(evs) < n {
			r := c.Rng.Float64()
			switch {
			case r < pAdd:
				nadd++
				evs = append(evs, fmt.Sprintf("A%c.%d.%d", kinds[c.Rng.Intn(len(kinds))], nadd, c.Rng.Intn(nh)))
			case r < pAdd+pDone && nadd > 0:
				p := 1 + c.Rng.Intn(nadd)
				switch c.Rng.Intn(10) {
				case 0:
					evs = append(evs, fmt.Sprintf("C.%d", p)) // dropped, Done still to come
				case 1:
					evs = append(evs, fmt.Sprintf("X.%d", p)) // Done alone (the drop happened earlier, or never)
				default:
					evs = append(evs, fmt.Sprintf("C.%d", p), fmt.Sprintf("X.%d", p))
				}
			case r < pAdd+pDone+pBan:
				evs = append(evs, fmt.Sprintf("B%d", c.Rng.Intn(nh)))
			default:
				evs = append(evs, fmt.Sprintf("T%d", ticks[c.Rng.Intn(len(ticks))]))
			}
		}
		return evs
	}
	for i, n := 0, c.Pick(600, 12000); i < n; i++ {
		emit(randSeq(4+c.Rng.Intn(12), 2+c.Rng.Intn(3), 0.5, 0.25, 0.1, []int{1, 4, 9, 10, 11}), "random-short")
	}
	// per-host limit: many adds on one or two hosts
	for i, n := 0, c.Pick(200, 4000); i < n; i++ {
		emit(randSeq(10+c.Rng.Intn(25), 1+c.Rng.Intn(2), 0.6, 0.3, 0.03, []int{5, 10}), "host-limit")
	}
	// ban boundary: ban, then adds at 9, 10, 11 units
	for i, n := 0, c.Pick(200, 4000); i < n; i++ {
		emit(randSeq(6+c.Rng.Intn(14), 1+c.Rng.Intn(2), 0.35, 0.1, 0.2, []int{1, 1, 2, 8, 9, 10}), "ban-boundary")
	}
	// Done delivered before Add (both orders occur: the two channels of peerHandler race)
	for i, n := 0, c.Pick(100, 2000); i < n; i++ {
		evs := randSeq(6+c.Rng.Intn(10), 2, 0.6, 0.3, 0.05, []int{10})
		j := c.Rng.Intn(len(evs))
		q := 1 + c.Rng.Intn(6)
		evs = append(evs[:j:j], append([]string{fmt.Sprintf("C.%d", q), fmt.Sprintf("X.%d", q)}, evs[j:]...)...)
		emit(evs, "done-before-add")
	}
	// total limit: more than MaxPeers adds over many hosts, then churn
	for i, n := 0, c.Pick(4, 60); i < n; i++ {
		nh := mp/ip + 3 + c.Rng.Intn(10)
		evs := randSeq(mp+40+c.Rng.Intn(120), nh, 0.9, 0.05, 0.01, []int{10})
		evs = append(evs, randSeq(60+c.Rng.Intn(100), nh, 0.5, 0.45, 0.02, []int{5, 10})...)
		// renumber the pids of the second half so they stay fresh
		nadd := 0
		for k, e := range evs {
			if e[0] == 'A' {
				nadd++
				f := strings.Split(e, ".")
				evs[k] = fmt.Sprintf("%s.%d.%s", f[0], nadd, f[2])
			}
		}
		emit(evs, "total-limit")
	}
	return nil
}
