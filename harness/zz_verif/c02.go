//go:build verif

package main

// C02: merkle-root verification verdicts are exact and follow reorganisations.
//
// A case is a ';'-separated operation list (replayable with --only, shrinkable by dropping operations):
//
//   g=<genesis>;f=<forbidden ids>;e=<configured max_block_height_excess>;[zw=1;]<op>;<op>;...
//   (zw=1: the history contains zero-work headers - C01's known finding makes the history-level oracle inapplicable,
//    only model = implementation is required; the _any_work theorems cover these stores)
//
//   op = <id>,<prev>,<bits>,<ver>,<merkle>,<ts>,<nonce>      Chains.Add of that header (common_chain.go syntax)
//      | q=<item>,<item>,...                                 POST /api/v1/chain/merkleroot/verify on the gin engine
//      | d=S                                                 damage: UPDATE headers SET header_state = 'STALE' (no longest row
//                                                            left; outside the property's quantifier, model = implementation only)
//   item = <root token>:<height>      root token:  r<merkle id>  canonical text of that merkle id
//                                                  u<merkle id>  the same text in upper case (no row carries it)
//                                                  x<k>          k-th entry of the junk table (no row carries it)
//
// observable: one block per q operation, joined by '|':
//   <http status>/<overall C|U|I>/<root token>:<height>:<C|U|I>:<block hash id or ->,...      (200)
//   <http status>/<error code>                                                                (otherwise)

import (
	"encoding/json"
	"fmt"
	"math"
	"math/rand"
	"strconv"
	"strings"

	"github.com/bitcoin-sv/block-headers-service/config"
	"github.com/bitcoin-sv/block-headers-service/internal/chaincfg/chainhash"
)

func init() { register("C02", runC02) }

var c02Junk = []string{
	"",
	"zz",
	"0",
	strings.Repeat("g", 64),
	"4a5e1e4baab89f3a32518a88c31bc87f618f76673e2cc77ab2127b7afdeda33b ",
	"4a5e1e4baab89f3a32518a88c31bc87f618f76673e2cc77ab2127b7afdeda33",
	"' OR 1=1 --",
	"%",
	"4a5e1e4baab89f3a32518a88c31bc87f618f76673e2cc77ab2127b7afdeda33b\u0000",
}

type c02Item struct {
	Tok string
	H   int64
}

// c02RootText renders a root token as the request string.
func c02RootText(tok string) (string, error) {
	if len(tok) < 2 {
		return "", fmt.Errorf("bad root token %q", tok)
	}
	n, err := strconv.Atoi(tok[1:])
	if err != nil {
		return "", fmt.Errorf("bad root token %q", tok)
	}
	switch tok[0] {
	case 'r':
		return merkleBytes(n).String(), nil
	case 'u':
		return strings.ToUpper(merkleBytes(n).String()), nil
	case 'x':
		if n < 0 || n >= len(c02Junk) {
			return "", fmt.Errorf("bad junk index %q", tok)
		}
		return c02Junk[n], nil
	}
	return "", fmt.Errorf("bad root token %q", tok)
}

func c02ParseItems(s string) ([]c02Item, error) {
	var out []c02Item
	if s == "" {
		return out, nil
	}
	for _, p := range strings.Split(s, ",") {
		i := strings.LastIndex(p, ":")
		if i < 0 {
			return nil, fmt.Errorf("bad item %q", p)
		}
		h, err := strconv.ParseInt(p[i+1:], 10, 64)
		if err != nil || h < math.MinInt32 || h > math.MaxInt32 {
			return nil, fmt.Errorf("bad height in %q", p)
		}
		out = append(out, c02Item{Tok: p[:i], H: h})
	}
	return out, nil
}

func c02ItemsString(items []c02Item) string {
	parts := make([]string, len(items))
	for i, it := range items {
		parts[i] = fmt.Sprintf("%s:%d", it.Tok, it.H)
	}
	return strings.Join(parts, ",")
}

type c02Resp struct {
	ConfirmationState string `json:"confirmationState"`
	Confirmations     []struct {
		BlockHash    string `json:"blockHash"`
		BlockHeight  int64  `json:"blockHeight"`
		MerkleRoot   string `json:"merkleRoot"`
		Confirmation string `json:"confirmation"`
	} `json:"confirmations"`
}

func c02Letter(s string) string {
	switch s {
	case "CONFIRMED":
		return "C"
	case "UNABLE_TO_VERIFY":
		return "U"
	case "INVALID":
		return "I"
	}
	return "?" + s
}

func errCodeOf(body string) string {
	var e struct {
		Code string `json:"code"`
	}
	if json.Unmarshal([]byte(body), &e) == nil && e.Code != "" {
		return e.Code
	}
	return "?"
}

// c02Query performs one verification request and projects the answer.
func c02Query(s *Stack, m *Mat, items []c02Item) (obs string) {
	defer func() {
		if r := recover(); r != nil {
			obs = "PANIC"
		}
	}()
	type reqItem struct {
		MerkleRoot  string `json:"merkleRoot"`
		BlockHeight int64  `json:"blockHeight"`
	}
	body := make([]reqItem, 0, len(items))
	back := map[string]string{}
	for _, it := range items {
		txt, err := c02RootText(it.Tok)
		if err != nil {
			return "BADCASE " + err.Error()
		}
		body = append(body, reqItem{MerkleRoot: txt, BlockHeight: it.H})
		if _, ok := back[txt]; !ok {
			back[txt] = it.Tok
		}
	}
	js, _ := json.Marshal(body)
	code, resp := s.Do("POST", "/api/v1/chain/merkleroot/verify", string(js), nil)
	if code != 200 {
		return fmt.Sprintf("%d/%s", code, errCodeOf(resp))
	}
	var r c02Resp
	if err := json.Unmarshal([]byte(resp), &r); err != nil {
		return fmt.Sprintf("%d/unparsable", code)
	}
	parts := make([]string, 0, len(r.Confirmations))
	for _, cf := range r.Confirmations {
		tok, ok := back[cf.MerkleRoot]
		if !ok {
			tok = "?"
		}
		hid := "-"
		if cf.BlockHash != "" {
			hid = strconv.Itoa(m.ID(cf.BlockHash))
		}
		parts = append(parts, fmt.Sprintf("%s:%d:%s:%s", tok, cf.BlockHeight, c02Letter(cf.Confirmation), hid))
	}
	return fmt.Sprintf("%d/%s/%s", code, c02Letter(r.ConfirmationState), strings.Join(parts, ","))
}

// stacks, one per configured excess (the value is read from the configuration when the services are built)
type c02Stacks struct {
	c  *Ctx
	by map[int64]*Stack
}

func (p *c02Stacks) get(excess int64) (*Stack, error) {
	if s, ok := p.by[excess]; ok {
		return s, nil
	}
	s, err := NewStack(StackOpts{Dir: p.c.TmpDir(fmt.Sprintf("c02-e%d", excess)), Mutate: func(cfg *config.AppConfig) {
		cfg.MerkleRoot.MaxBlockHeightExcess = int(excess)
	}})
	if err != nil {
		return nil, err
	}
	p.by[excess] = s
	return s, nil
}

func (p *c02Stacks) close() {
	for _, s := range p.by {
		s.Close()
	}
}

// merkOp is one operation of a merkle-root case (shared with C08).
type merkOp struct {
	Sub *Sub   // a submission ...
	Tag string // ... or a query: the letter before '='
	Arg string // and its argument
}

// merkParse splits a case line into its head tokens (g=, f=, and <cfg>= ones) and its operations.
func merkParse(line string, cfgKeys string) (head map[string]string, ops []merkOp, err error) {
	head = map[string]string{}
	for _, tok := range strings.Split(line, ";") {
		tok = strings.TrimSpace(tok)
		if tok == "" {
			continue
		}
		if len(tok) >= 2 && tok[1] == '=' {
			k := tok[:1]
			if k == "g" || k == "f" || strings.Contains(cfgKeys, k) {
				head[k] = tok[2:]
				continue
			}
			ops = append(ops, merkOp{Tag: k, Arg: tok[2:]})
			continue
		}
		if len(tok) >= 3 && tok[2] == '=' { // two-letter head keys (ho=)
			head[tok[:2]] = tok[3:]
			continue
		}
		h, perr := ParseHistory(tok)
		if perr != nil || len(h.Subs) != 1 {
			return nil, nil, fmt.Errorf("bad operation %q", tok)
		}
		sb := h.Subs[0]
		ops = append(ops, merkOp{Sub: &sb})
	}
	return head, ops, nil
}

// merkDamage relabels every row STALE directly in the table (not reachable by ingestion).
func merkDamage(s *Stack) error {
	_, err := s.DB.Exec(`UPDATE headers SET header_state = 'STALE'`)
	return err
}

func merkHistory(head map[string]string, ops []merkOp) (*History, error) {
	h, err := ParseHistory("f=" + head["f"])
	if err != nil {
		return nil, err
	}
	for _, o := range ops {
		if o.Sub != nil {
			h.Subs = append(h.Subs, *o.Sub)
		}
	}
	return h, nil
}

func merkHeadLine(h *History) string {
	e := &History{Forbidden: h.Forbidden}
	return e.Line()
}

type c02Row struct {
	Merk   int
	Height int64
	State  string
}

func c02Rows(s *Stack, m *Mat) ([]c02Row, int64, error) {
	rows, err := s.DumpHeaders()
	if err != nil {
		return nil, 0, err
	}
	out := make([]c02Row, 0, len(rows))
	tip := int64(-1)
	for _, r := range rows {
		mid := -1
		if hh, err := chainhash.NewHashFromStr(r.Merkle); err == nil {
			if id, ok := m.MerkID[*hh]; ok {
				mid = id
			}
		}
		st := stLetter(r.State)
		out = append(out, c02Row{Merk: mid, Height: r.Height, State: st})
		if st == "L" && r.Height > tip {
			tip = r.Height
		}
	}
	return out, tip, nil
}

func clamp32(v int64) int64 {
	if v > math.MaxInt32 {
		return math.MaxInt32
	}
	if v < math.MinInt32 {
		return math.MinInt32
	}
	return v
}

// c02GenItems draws a request list for the current store.
func c02GenItems(r *rand.Rand, rows []c02Row, tip, excess int64, prev []c02Item, c *Ctx) []c02Item {
	var n int
	switch r.Intn(8) {
	case 0:
		n = 1
	case 1:
		n = 2
	case 2:
		n = 50
	case 3:
		n = 20 + r.Intn(31)
	default:
		n = 1 + r.Intn(12)
	}
	heights := []int64{-1, 0, tip, tip + 1, tip - 1, clamp32(tip + excess), clamp32(tip + excess + 1), clamp32(tip + excess - 1),
		math.MaxInt32, math.MinInt32, math.MaxInt32 - 1, tip + 2, 1}
	items := make([]c02Item, 0, n)
	// re-ask what was asked before (verdicts across reorganisations)
	if len(prev) > 0 {
		k := len(prev)
		if k > 15 {
			k = 15
		}
		if k > n {
			k = n
		}
		items = append(items, prev[:k]...)
		c.Count("item:re-asked")
	}
	for len(items) < n {
		x := r.Intn(100)
		row := rows[r.Intn(len(rows))]
		tok := fmt.Sprintf("r%d", row.Merk)
		switch {
		case x < 35: // a stored pair exactly (longest, stale or orphan row)
			items = append(items, c02Item{tok, row.Height})
			c.Count("item:stored-pair-" + row.State)
		case x < 50: // a stored root at a special height
			items = append(items, c02Item{tok, heights[r.Intn(len(heights))]})
			c.Count("item:stored-root-special-height")
		case x < 54: // a stored root one off
			items = append(items, c02Item{tok, row.Height + int64(r.Intn(3)) - 1})
			c.Count("item:stored-root-near-height")
		case x < 62: // a stored root at the height of another stored row (another copy of the root, or another root's height)
			items = append(items, c02Item{tok, rows[r.Intn(len(rows))].Height})
			c.Count("item:stored-root-other-row-height")
		case x < 76: // an unknown root at a special height
			items = append(items, c02Item{fmt.Sprintf("r%d", 9000+r.Intn(5)), heights[r.Intn(len(heights))]})
			c.Count("item:unknown-root")
		case x < 80: // an unknown root at a stored height
			items = append(items, c02Item{fmt.Sprintf("r%d", 9000+r.Intn(5)), row.Height})
			c.Count("item:unknown-root")
		case x < 85: // upper-case text of a stored root at its height
			if strings.ToUpper(merkleBytes(row.Merk).String()) != merkleBytes(row.Merk).String() {
				items = append(items, c02Item{fmt.Sprintf("u%d", row.Merk), row.Height})
				c.Count("item:upper-case-root")
			}
		case x < 90: // junk
			items = append(items, c02Item{fmt.Sprintf("x%d", r.Intn(len(c02Junk))), heights[r.Intn(len(heights))]})
			c.Count("item:junk-root")
		default: // a duplicate of an earlier item
			if len(items) > 0 {
				items = append(items, items[r.Intn(len(items))])
				c.Count("item:duplicate")
			}
		}
	}
	return items
}

var c02Excesses = []int64{6, 0, 1, 1000, 6, 1, 0, 1000, 2, -1, math.MaxInt32, 2147483648, 4294967298}

// c02Run executes a case.  In generation mode (gen != nil) the q operations are drawn while the history runs.
func c02Run(c *Ctx, p *c02Stacks, head map[string]string, ops []merkOp, gen *rand.Rand, tag string) error {
	h, err := merkHistory(head, ops)
	if err != nil {
		return err
	}
	m, err := Materialize(h)
	if err != nil {
		return err
	}
	excess, err := strconv.ParseInt(head["e"], 10, 64)
	if err != nil {
		return fmt.Errorf("bad e= token: %w", err)
	}
	s, err := p.get(excess)
	if err != nil {
		return err
	}
	if err := s.ResetHeaders(); err != nil {
		return err
	}
	s.SetForbidden(m.ForbiddenHashes())
	var sb strings.Builder
	sb.WriteString(merkHeadLine(h))
	fmt.Fprintf(&sb, ";e=%d", excess)
	if head["zw"] != "" {
		sb.WriteString(";zw=1")
	}
	var obs []string
	var prev []c02Item
	var fixed []c02Item
	if head["_fixed"] != "" {
		if fixed, err = c02ParseItems(head["_fixed"]); err != nil {
			return err
		}
	}
	nq, reorgs := 0, 0
	query := func(items []c02Item) {
		fmt.Fprintf(&sb, ";q=%s", c02ItemsString(items))
		obs = append(obs, c02Query(s, m, items))
		nq++
	}
	genQuery := func(all bool) error {
		rows, tip, err := c02Rows(s, m)
		if err != nil {
			return err
		}
		var items []c02Item
		if all {
			for _, r := range rows {
				items = append(items, c02Item{fmt.Sprintf("r%d", r.Merk), r.Height})
			}
			c.Count("query:all-stored-pairs")
		} else {
			items = c02GenItems(gen, rows, tip, excess, prev, c)
			c.Count("query:drawn")
		}
		prev = items
		query(items)
		return nil
	}
	si := 0
	for _, o := range ops {
		if o.Sub == nil {
			if o.Tag == "d" {
				if err := merkDamage(s); err != nil {
					return err
				}
				sb.WriteString(";d=S")
				continue
			}
			if o.Tag != "q" {
				return fmt.Errorf("unknown operation %s=", o.Tag)
			}
			items, err := c02ParseItems(o.Arg)
			if err != nil {
				return err
			}
			query(items)
			continue
		}
		var tipBefore string
		if gen != nil {
			if t, terr := s.Repo.Headers.GetTip(); terr == nil && t != nil {
				tipBefore = t.Hash.String()
			}
		}
		out := AddOutcome(s, m.Src[si])
		sb.WriteByte(';')
		sb.WriteString(o.Sub.String())
		if gen != nil {
			reorg := out == "SL" && m.Src[si].PrevBlock.String() != tipBefore
			if reorg {
				reorgs++
			}
			if fixed != nil {
				// long-reorganisation stores: the same targeted list after every reorganisation
				if reorg {
					query(fixed)
					c.Count("query:long-reorg-targeted")
				}
			} else if (reorg && gen.Intn(4) != 0) || gen.Intn(12) == 0 {
				if err := genQuery(false); err != nil {
					return err
				}
			}
		}
		si++
	}
	if gen != nil && fixed != nil {
		query(fixed)
		c.Count("query:long-reorg-targeted")
	} else if gen != nil {
		if err := genQuery(gen.Intn(3) == 0); err != nil {
			return err
		}
		if gen.Intn(25) == 0 {
			query(nil) // the empty list
			c.Count("query:empty-list")
		}
		if gen.Intn(30) == 0 && len(prev) > 0 {
			if err := merkDamage(s); err != nil {
				return err
			}
			sb.WriteString(";d=S")
			query(prev)
			c.Count("query:on-damaged-store")
		}
	}
	c.Case(sb.String(), strings.Join(obs, "|"))
	c.Count("gen:" + tag)
	c.Count(fmt.Sprintf("excess:%d", excess))
	c.Count(fmt.Sprintf("queries-per-case:%d", nq))
	if reorgs > 0 {
		c.Count("history:with-reorganisation")
		if nq > 1 {
			c.Count("history:queried-across-reorganisation")
		}
	}
	for _, cl := range HistoryClass(h) {
		c.Count("class:" + cl)
	}
	return nil
}

// merkHeights: height of every header of a history whose parents all arrive (genesis = 0).
func merkHeights(h *History) (map[int]int, int) {
	ht := map[int]int{genesisID: 0}
	maxH := 0
	for pass := 0; pass < 2; pass++ {
		for _, sb := range h.Subs {
			if d, ok := ht[sb.Prev]; ok {
				ht[sb.ID] = d + 1
				if d+1 > maxH {
					maxH = d + 1
				}
			}
		}
	}
	return ht, maxH
}

// merkBoundaryHeights: low heights and everything from just below the first 500-boundary up to above every tip.
func merkBoundaryHeights(maxH int) map[int]bool {
	set := map[int]bool{}
	for x := 0; x <= 9; x++ {
		set[x] = true
	}
	for x := 495; x <= maxH+9; x++ {
		set[x] = true
	}
	return set
}

// c02LongItems: for every boundary height the roots of ALL headers stored at that height (displaced and newly
// longest ones) and an unknown root (UNABLE_TO_VERIFY vs INVALID above the new tip).
func c02LongItems(h *History) []c02Item {
	ht, maxH := merkHeights(h)
	set := merkBoundaryHeights(maxH)
	var items []c02Item
	seen := map[int]bool{}
	for _, sb := range h.Subs {
		if x, ok := ht[sb.ID]; ok && set[x] && !seen[sb.ID] {
			seen[sb.ID] = true
			items = append(items, c02Item{fmt.Sprintf("r%d", sb.Merkle), int64(x)})
		}
	}
	for x := 0; x <= maxH+9; x++ {
		if set[x] {
			items = append(items, c02Item{"r9000", int64(x)})
		}
	}
	items = append(items, c02Item{"r1", 0})
	return items
}

// c02LongRequests: a linear chain of 150..170 blocks with a few stale siblings and an orphan, and request lists of
// 101, 150, 205, 260 and 1000 items in which item i is (period 7, configured excess 6):
//   i%7 in {0,3}: the pair of a longest-chain block, each block used once per list while they last   -> CONFIRMED
//   i%7 in {1,4}: a root no row carries (different for every i) at a height <= tip                     -> INVALID
//   i%7 in {2,5}: a root no row carries (different for every i) at height tip+1 .. tip+6              -> UNABLE_TO_VERIFY
//   i%7 == 6    : the root of a longest-chain block one height too high                               -> INVALID
// All pairs of one list are different, so position i of the answer identifies item i.
func c02LongRequests(r *rand.Rand, submissions int) (*History, []merkOp) {
	n := 150 + r.Intn(21)
	h := &History{}
	prev := genesisID
	for i := 0; i < n; i++ {
		id := 2 + i
		h.Subs = append(h.Subs, Sub{ID: id, Prev: prev, Bits: bitsW2, Ver: 1, Merkle: 100 + id, TS: uint32(1600000000 + i), Nonce: uint32(i)})
		if (i+1)%50 == 0 {
			sid := 5000 + i
			h.Subs = append(h.Subs, Sub{ID: sid, Prev: prev, Bits: bitsW2, Ver: 1, Merkle: 100 + sid, TS: uint32(1700000000 + i), Nonce: uint32(i)})
		}
		prev = id
	}
	h.Subs = append(h.Subs, Sub{ID: 7000, Prev: 7999, Bits: bitsW2, Ver: 1, Merkle: 7100, TS: 1800000000, Nonce: 1})
	ops := subOps02(h.Subs)
	tip := n
	list := func(size int) string {
		items := make([]c02Item, 0, size)
		start := r.Intn(n)
		used := 0
		for i := 0; i < size; i++ {
			switch i % 7 {
			case 0, 3:
				if used < n {
					k := 1 + (start+used)%n // height k, block id k+1, merkle id 101+k
					used++
					items = append(items, c02Item{fmt.Sprintf("r%d", 101+k), int64(k)})
				} else {
					items = append(items, c02Item{"r1", int64(0 - i)}) // genesis root at a negative height: INVALID, still unique
				}
			case 1, 4:
				items = append(items, c02Item{fmt.Sprintf("r%d", 20000+i), int64(i % (tip + 1))})
			case 2, 5:
				items = append(items, c02Item{fmt.Sprintf("r%d", 30000+i), int64(tip + 1 + i%6)})
			default:
				k := 1 + (i/7)%(n-1)
				items = append(items, c02Item{fmt.Sprintf("r%d", 101+k), int64(k + 1)})
			}
		}
		return c02ItemsString(items)
	}
	for s := 0; s < submissions; s++ {
		for _, size := range []int{101, 150, 205, 260, 1000} {
			ops = append(ops, merkOp{Tag: "q", Arg: list(size)})
		}
	}
	// 100 items: the boundary below which nothing may change
	ops = append(ops, merkOp{Tag: "q", Arg: list(100)})
	return h, ops
}

func subOps02(subs []Sub) []merkOp {
	ops := make([]merkOp, len(subs))
	for i := range subs {
		sb := subs[i]
		ops[i] = merkOp{Sub: &sb}
	}
	return ops
}

// c02ShareRoots redraws every header's merkle id from a pool of the given size (sometimes the genesis root),
// identically for repeated submissions of the same id.
func c02ShareRoots(r *rand.Rand, h *History, pool int) {
	def := map[int]int{}
	for j := range h.Subs {
		id := h.Subs[j].ID
		if _, ok := def[id]; !ok {
			if r.Intn(12) == 0 {
				def[id] = 1
			} else {
				def[id] = 150 + r.Intn(pool)
			}
		}
		h.Subs[j].Merkle = def[id]
	}
}

// c02Matrix asks for every (root of the history, height 0..depth+1): each root at each of its heights and at the
// heights where other roots live (at most 60 items, drawn when there are more).
func c02Matrix(r *rand.Rand, h *History) string {
	roots := []int{1}
	seen := map[int]bool{1: true}
	for _, sb := range h.Subs {
		if !seen[sb.Merkle] {
			seen[sb.Merkle] = true
			roots = append(roots, sb.Merkle)
		}
	}
	depth := map[int]int{genesisID: 0}
	maxd := 0
	for pass := 0; pass < 3; pass++ {
		for _, sb := range h.Subs {
			if d, ok := depth[sb.Prev]; ok {
				depth[sb.ID] = d + 1
				if d+1 > maxd {
					maxd = d + 1
				}
			}
		}
	}
	var items []c02Item
	for _, rt := range roots {
		for hh := 0; hh <= maxd+1; hh++ {
			items = append(items, c02Item{fmt.Sprintf("r%d", rt), int64(hh)})
		}
	}
	r.Shuffle(len(items), func(i, j int) { items[i], items[j] = items[j], items[i] })
	if len(items) > 60 {
		items = items[:60]
	}
	return c02ItemsString(items)
}

// c02Planted builds the shapes in which one merkle root occurs at several heights:
//   0 (a) a linear longest chain whose roots come from a pool of 1..3
//   1 (b) a main chain with a stale sibling at every height carrying the root of the main block of the SAME height or
//         of ANOTHER height
//   2 (c) a common prefix, an old branch, and a longer new branch that repeats roots of the prefix: the reorganisation
//         promotes second copies of roots whose first copies stay on the longest chain; asked before and after
//   3 (d) as (c) but the new branch repeats roots of the OLD branch (the first copy goes stale, the second becomes longest)
func c02Planted(r *rand.Rand, kind int) (*History, []merkOp) {
	h := &History{}
	k := 0
	add := func(id, prev, merkle int) {
		h.Subs = append(h.Subs, Sub{ID: id, Prev: prev, Bits: bitsW2, Ver: 1, Merkle: merkle, TS: uint32(1600000000 + k), Nonce: uint32(k)})
		k++
	}
	pool := 1 + r.Intn(3)
	rt := func() int { return 150 + r.Intn(pool) }
	switch kind {
	case 0:
		n := 2 + r.Intn(8)
		prev := genesisID
		for i := 0; i < n; i++ {
			add(2+i, prev, rt())
			prev = 2 + i
		}
		return h, append(subOps02(h.Subs), merkOp{Tag: "q", Arg: c02Matrix(r, h)})
	case 1:
		n := 2 + r.Intn(7)
		main := make([]int, n)
		for i := range main {
			main[i] = 160 + i
		}
		prev := genesisID
		for i := 0; i < n; i++ {
			add(2+i, prev, main[i])
			if r.Intn(2) == 0 {
				add(200+i, prev, main[i]) // same height, same root
			} else {
				add(200+i, prev, main[r.Intn(n)]) // the root of another height
			}
			prev = 2 + i
		}
		return h, append(subOps02(h.Subs), merkOp{Tag: "q", Arg: c02Matrix(r, h)})
	default:
		p := 1 + r.Intn(3)
		a := 1 + r.Intn(3)
		prev := genesisID
		var prefixRoots, oldRoots []int
		for i := 0; i < p; i++ {
			m := 170 + i
			add(2+i, prev, m)
			prefixRoots = append(prefixRoots, m)
			prev = 2 + i
		}
		fork := prev
		for i := 0; i < a; i++ {
			m := 180 + i
			add(20+i, prev, m)
			oldRoots = append(oldRoots, m)
			prev = 20 + i
		}
		prev = fork
		src := prefixRoots
		if kind == 3 {
			src = oldRoots
		}
		for i := 0; i <= a; i++ {
			add(40+i, prev, src[r.Intn(len(src))])
			prev = 40 + i
		}
		ops := subOps02(h.Subs)
		q := merkOp{Tag: "q", Arg: c02Matrix(r, h)}
		// asked just before the header that triggers the reorganisation, and after it
		last := ops[len(ops)-1]
		ops = append(ops[:len(ops)-1], q, last, q)
		return h, ops
	}
}

func runC02(c *Ctx) error {
	p := &c02Stacks{c: c, by: map[int64]*Stack{}}
	defer p.close()
	if c.Only != "" {
		head, ops, err := merkParse(c.Only, "e")
		if err != nil {
			return err
		}
		return c02Run(c, p, head, ops, nil, "only")
	}
	for _, l := range corpusLines(c, "C02") {
		head, ops, err := merkParse(l, "e")
		if err != nil {
			return fmt.Errorf("corpus line %q: %w", l, err)
		}
		if err := c02Run(c, p, head, ops, nil, "corpus"); err != nil {
			return fmt.Errorf("corpus line %q: %w", l, err)
		}
	}
	k := 0
	zeroWork := false
	longFixed := ""
	forceExcess := ""
	var fromOps func(h *History, ops []merkOp, tag string) error
	fromHistory := func(h *History, tag string) error { return fromOps(h, subOps02(h.Subs), tag) }
	fromOps = func(h *History, ops []merkOp, tag string) error {
		head := map[string]string{"e": strconv.FormatInt(c02Excesses[k%len(c02Excesses)], 10)}
		k++
		fs := make([]string, len(h.Forbidden))
		for i, f := range h.Forbidden {
			fs[i] = strconv.Itoa(f)
		}
		head["f"] = strings.Join(fs, ",")
		if zeroWork {
			head["zw"] = "1"
		}
		if longFixed != "" {
			head["_fixed"] = longFixed
			head["e"] = "6"
		}
		if forceExcess != "" {
			head["e"] = forceExcess
		}
		return c02Run(c, p, head, ops, c.Rng, tag)
	}
	// all trees over n headers x work classes {2,4} x arrival orders: stale siblings at a longest height,
	// orphans, ties, small reorganisations
	var eerr error
	cnt := 0
	stride := c.Pick(2, 1)
	ExhaustiveHistories(3, []uint32{bitsW2, bitsW4}, func(h *History) {
		cnt++
		if eerr == nil && cnt%stride == 0 {
			eerr = fromHistory(h, "exhaustive-3")
		}
	})
	if eerr != nil {
		return eerr
	}
	// shared merkle roots (the property does NOT assume distinct roots): ids drawn from a small pool, and planted shapes
	for i := 0; i < c.Pick(140, 1200); i++ {
		h := GenHistory(c.Rng, GenOpts{N: 3 + c.Rng.Intn(c.Pick(14, 24)), PUnknown: 0.06, PLate: 0.08, PDup: 0.05, Positive: true, Deep: i%3 != 0})
		c02ShareRoots(c.Rng, h, 1+c.Rng.Intn(4))
		if err := fromOps(h, append(subOps02(h.Subs), merkOp{Tag: "q", Arg: c02Matrix(c.Rng, h)}), "shared-roots-random"); err != nil {
			return err
		}
	}
	for i := 0; i < c.Pick(120, 900); i++ {
		h, ops := c02Planted(c.Rng, i%4)
		if err := fromOps(h, ops, fmt.Sprintf("shared-roots-planted-%c", "abcd"[i%4])); err != nil {
			return err
		}
	}
	// long request lists (101..1000 items, every item a different pair, verdicts alternating with period 7), each size
	// submitted several times: any reordering / chunking of the answer is visible at the first displaced position
	for rep := 0; rep < c.Pick(1, 3); rep++ {
		h, ops := c02LongRequests(c.Rng, c.Pick(3, 6))
		forceExcess = "6"
		err := fromOps(h, ops, "long-request-lists")
		forceExcess = ""
		if err != nil {
			return err
		}
	}
	// reorganisations switching more than 500 headers in one submission (batching thresholds of the storage layer)
	// (quick: the 503-header displacement only - the extracted tip query is quadratic in the store size, the two
	// 500-header branches of L2 cost ~9 s of model time; thorough: all of them)
	for i, h := range LongReorgHistories(c.Thorough()) {
		if !c.Thorough() && i > 0 {
			break
		}
		longFixed = c02ItemsString(c02LongItems(h))
		err := fromHistory(h, "long-reorganisation")
		longFixed = ""
		if err != nil {
			return err
		}
	}
	// zero-work headers (any-work theorems; oracle not applied, model = implementation only)
	for i := 0; i < c.Pick(80, 600); i++ {
		h := GenHistory(c.Rng, GenOpts{N: 2 + c.Rng.Intn(c.Pick(16, 30)), PUnknown: 0.06, PLate: 0.08, PDup: 0.05, ZeroWork: true, Deep: i%2 == 0})
		zeroWork = true
		err := fromHistory(h, "zero-work")
		zeroWork = false
		if err != nil {
			return err
		}
	}
	n := c.Pick(800, 4000)
	for i := 0; i < n; i++ {
		o := GenOpts{N: 2 + c.Rng.Intn(c.Pick(22, 40)), PUnknown: 0.08, PLate: 0.1, PDup: 0.05, PForbidden: 0.1, Positive: true, Deep: i%3 != 0}
		if err := fromHistory(GenHistory(c.Rng, o), "random"); err != nil {
			return err
		}
	}
	return nil
}
