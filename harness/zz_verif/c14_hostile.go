//go:build verif

package main

// C14: the hostile stream.  Starting from valid payloads / frames of EVERY command of the table
// (authch and the payload-ignoring protoconf included, and the commands whose payload decoder is
// outside the model) it produces: bit flips, truncations, extensions, count-varint and length-field
// inflation (limit, limit+1, huge, non-canonical), wrong magic, foreign / unknown / non-UTF-8
// commands, checksum damage, splices of two frames, and raw random bytes.

import (
	"bytes"
	"encoding/binary"
	"encoding/hex"
	"fmt"
	"strings"

	"github.com/bitcoin-sv/block-headers-service/config"
	"github.com/bitcoin-sv/block-headers-service/internal/chaincfg/chainhash"
	"github.com/bitcoin-sv/block-headers-service/internal/wire"
)

func c14Frame(net uint32, cmd []byte, payload []byte) []byte {
	h := make([]byte, 24, 24+len(payload))
	binary.LittleEndian.PutUint32(h[0:4], net)
	copy(h[4:16], cmd)
	binary.LittleEndian.PutUint32(h[16:20], uint32(len(payload)))
	copy(h[20:24], chainhash.DoubleHashB(payload)[0:4])
	return append(h, payload...)
}

func c14Varint(v uint64) []byte {
	var b bytes.Buffer
	_ = wire.WriteVarInt(&b, 0, v)
	return b.Bytes()
}

// validOpaque builds a valid message for a command whose payload decoder is outside the model.
func (g *c14gen) validOpaque(cmd string) wire.Message {
	h := g.hash()
	bh := &wire.BlockHeader{Version: g.i32(), PrevBlock: g.hash(), MerkleRoot: g.hash(), Bits: g.u32(), Nonce: g.u32()}
	tx := func() *wire.MsgTx {
		t := wire.NewMsgTx(1)
		for i, n := 0, 1+g.r.Intn(3); i < n; i++ {
			hh := g.hash()
			t.AddTxIn(wire.NewTxIn(wire.NewOutPoint(&hh, g.u32()), g.bytesN(g.r.Intn(40))))
		}
		for i, n := 0, 1+g.r.Intn(3); i < n; i++ {
			t.AddTxOut(wire.NewTxOut(int64(g.r.Intn(1000000)), g.bytesN(g.r.Intn(30))))
		}
		return t
	}
	switch cmd {
	case "block":
		b := wire.NewMsgBlock(bh)
		for i, n := 0, g.r.Intn(3); i < n; i++ {
			_ = b.AddTransaction(tx())
		}
		return b
	case "tx":
		return tx()
	case "filteradd":
		return wire.NewMsgFilterAdd(g.bytesN(1 + g.r.Intn(40)))
	case "filterclear":
		return wire.NewMsgFilterClear()
	case "filterload":
		return wire.NewMsgFilterLoad(g.bytesN(1+g.r.Intn(60)), uint32(g.r.Intn(50)), g.u32(), wire.BloomUpdateType(g.r.Intn(3)))
	case "merkleblock":
		m := wire.NewMsgMerkleBlock(bh)
		for i, n := 0, 1+g.r.Intn(4); i < n; i++ {
			hh := g.hash()
			_ = m.AddTxHash(&hh)
		}
		m.Transactions = uint32(len(m.Hashes))
		m.Flags = g.bytesN(1 + g.r.Intn(3))
		return m
	case "getcfilters":
		return wire.NewMsgGetCFilters(wire.GCSFilterRegular, g.u32(), &h)
	case "getcfheaders":
		return wire.NewMsgGetCFHeaders(wire.GCSFilterRegular, g.u32(), &h)
	case "getcfcheckpt":
		return wire.NewMsgGetCFCheckpt(wire.GCSFilterRegular, &h)
	case "cfilter":
		return wire.NewMsgCFilter(wire.GCSFilterRegular, &h, g.bytesN(g.r.Intn(50)))
	case "cfheaders":
		m := wire.NewMsgCFHeaders()
		m.StopHash, m.PrevFilterHeader = g.hash(), g.hash()
		for i, n := 0, g.r.Intn(4); i < n; i++ {
			hh := g.hash()
			_ = m.AddCFHash(&hh)
		}
		return m
	case "cfcheckpt":
		m := wire.NewMsgCFCheckpt(wire.GCSFilterRegular, &h, 4)
		for i, n := 0, g.r.Intn(4); i < n; i++ {
			hh := g.hash()
			_ = m.AddCFHeader(&hh)
		}
		return m
	}
	panic("validOpaque " + cmd)
}

// a valid payload for any command of the table (nil when the implementation refuses to encode it)
func (g *c14gen) validPayload(cmd string, pver uint32, big bool) []byte {
	var m wire.Message
	switch {
	case c14Opaque[cmd]:
		m = g.validOpaque(cmd)
	case cmd == "authch":
		m = g.msg("protoconf", pver, false, false)
	default:
		m = g.msg(cmd, pver, false, big)
	}
	var b bytes.Buffer
	ok := true
	func() {
		defer func() {
			if recover() != nil {
				ok = false
			}
		}()
		if err := m.BsvEncode(&b, pver, wire.BaseEncoding); err != nil {
			ok = false
		}
	}()
	if !ok {
		return nil
	}
	return b.Bytes()
}

// offsets of count / length varints inside a valid payload of the command
func c14CountOffsets(cmd string, payload []byte) []int {
	switch cmd {
	case "addr", "headers", "inv", "getdata", "notfound", "filteradd", "filterload":
		return []int{0}
	case "getblocks", "getheaders", "tx":
		return []int{4}
	case "version":
		return []int{80}
	case "block", "merkleblock":
		return []int{80, 84}
	case "reject":
		o := []int{0}
		if len(payload) > 0 && payload[0] < 0xfd {
			o = append(o, int(payload[0])+2)
		}
		return o
	case "cfilter":
		return []int{33}
	case "cfheaders":
		return []int{65}
	case "cfcheckpt":
		return []int{33}
	}
	return nil
}

func c14CountLimit(cmd string) uint64 {
	switch cmd {
	case "addr":
		return wire.MaxAddrPerMsg
	case "headers", "cfheaders":
		return wire.MaxBlockHeadersPerMsg
	case "inv", "getdata", "notfound":
		return wire.MaxInvPerMsg
	case "getblocks", "getheaders":
		return wire.MaxBlockLocatorsPerMsg
	case "version":
		return wire.MaxUserAgentLen
	case "filteradd":
		return wire.MaxFilterAddDataSize
	case "filterload":
		return wire.MaxFilterLoadFilterSize
	}
	return 1000
}

// replaceVarint substitutes the varint at offset off by enc
func c14ReplaceVarint(p []byte, off int, enc []byte) []byte {
	if off >= len(p) {
		return append(append([]byte(nil), p...), enc...)
	}
	w := 1
	switch p[off] {
	case 0xfd:
		w = 3
	case 0xfe:
		w = 5
	case 0xff:
		w = 9
	}
	if off+w > len(p) {
		w = len(p) - off
	}
	out := append([]byte(nil), p[:off]...)
	out = append(out, enc...)
	return append(out, p[off+w:]...)
}

func (g *c14gen) flip(p []byte, n int) []byte {
	out := append([]byte(nil), p...)
	if len(out) == 0 {
		return out
	}
	for i := 0; i < n; i++ {
		k := g.r.Intn(len(out))
		out[k] ^= 1 << uint(g.r.Intn(8))
	}
	return out
}

func (r *c14run) hostile(g *c14gen, run func(string) error) error {
	c := r.c
	prod := uint32(config.ExcessiveBlockSize)
	main := uint32(wire.MainNet)
	hx := hex.EncodeToString
	rounds := c.Pick(2, 32)
	hugeBudget := map[string]int{} // large-allocation cases per command (they are slow)
	for round := 0; round < rounds; round++ {
		var frames [][]byte // valid frames of this round, for splicing
		for _, cmd := range c14AllCmds {
			for rep := 0; rep < 3; rep++ {
				pver := uint32(70013)
				if rep == 2 {
					pver = g.pver()
				}
				ebs := prod
				if g.r.Intn(8) == 0 {
					ebs = []uint32{32000000, 1000000, 2000000}[g.r.Intn(3)]
				}
				ebsWide := ebs
				if !c14Opaque[cmd] && g.r.Intn(12) == 0 {
					ebsWide = 3200000000
				}
				c14Configure([]uint32{ebs})
				mmp := uint64(c14DeclaredLimit(ebs))
				payload := g.validPayload(cmd, pver, rep == 1 && g.r.Intn(4) == 0 && !c14Opaque[cmd])
				if payload == nil {
					payload = g.bytesN(g.r.Intn(40))
				}
				if len(payload) > 6000 && !(rep == 1 && round%5 == 0) {
					payload = g.validPayload(cmd, pver, false)
					if payload == nil || len(payload) > 6000 {
						payload = g.bytesN(g.r.Intn(40))
					}
				}
				m0, _ := wire.VerifMakeEmptyMessage(cmd)
				typeMax := uint64(m0.MaxPayloadLength(pver))
				D := func(p []byte) error { return run(fmt.Sprintf("D %d %d %s %s", pver, ebs, cmd, hx(p))) }
				R := func(e uint32, net uint32, s []byte) error { return run(fmt.Sprintf("R %d %d %d %s", pver, e, net, hx(s))) }
				frame := c14Frame(main, []byte(cmd), payload)
				if len(frame) < 3000 {
					frames = append(frames, frame)
				}
				small := len(payload) <= 6000

				// ---- payload level ----
				var ps [][]byte
				ps = append(ps, payload, nil)
				for _, cut := range []int{1, len(payload) / 2, len(payload) - 1, g.r.Intn(len(payload) + 1)} {
					if cut >= 0 && cut <= len(payload) {
						ps = append(ps, payload[:cut])
					}
				}
				if small {
					for i := 0; i < 6; i++ {
						ps = append(ps, g.flip(payload, 1+g.r.Intn(3)))
					}
					ps = append(ps, append(append([]byte(nil), payload...), g.bytesN(1+g.r.Intn(20))...))
					ps = append(ps, g.bytesN(g.r.Intn(100)), g.bytesN(g.r.Intn(12)))
				}
				lim := c14CountLimit(cmd)
				vals := [][]byte{c14Varint(lim), c14Varint(lim + 1), c14Varint(lim * 2), c14Varint(0), c14Varint(0xfc), c14Varint(0xfd),
					c14Varint(0xffff), c14Varint(0x10000), {0xfd, 0x01, 0x00}, {0xfd, 0xfc, 0x00}, {0xfe, 0xff, 0xff, 0x00, 0x00},
					{0xff, 0xff, 0xff, 0xff, 0xff, 0, 0, 0, 0}, {0xfd}, {0xfe, 1}, {0xff, 1, 2, 3}}
				huge := [][]byte{c14Varint(0xffffffff), c14Varint(0x100000000), c14Varint(1 << 63), c14Varint(^uint64(0)),
					c14Varint(1 << 20), c14Varint(4 << 20), c14Varint(200 << 20), c14Varint(mmp), c14Varint(mmp + 1), c14Varint(mmp - 1)}
				offs := c14CountOffsets(cmd, payload)
				if small {
					for _, off := range offs {
						for _, v := range vals {
							ps = append(ps, c14ReplaceVarint(payload, off, v))
						}
						for _, v := range huge {
							if c14Opaque[cmd] {
								if hugeBudget[cmd] >= c.Pick(2, 6) {
									continue
								}
								hugeBudget[cmd]++
							}
							ps = append(ps, c14ReplaceVarint(payload, off, v))
						}
					}
					if len(payload) > 0 {
						off := g.r.Intn(len(payload))
						ps = append(ps, c14ReplaceVarint(payload, off, vals[g.r.Intn(len(vals))]))
					}
				}
				for _, p := range ps {
					if err := D(p); err != nil {
						return err
					}
				}

				// ---- frame level ----
				fr := func(p []byte) []byte { return c14Frame(main, []byte(cmd), p) }
				var ss [][]byte
				ss = append(ss, frame, append(append([]byte(nil), frame...), g.bytesN(1+g.r.Intn(30))...))
				// payload mutations with a matching checksum (the payload decoder is reached)
				for i, p := range ps {
					if len(p) <= 2000 && (i < 12 || g.r.Intn(4) == 0) {
						ss = append(ss, fr(p))
					}
				}
				// length field
				setLen := func(v uint32) []byte {
					o := append([]byte(nil), frame...)
					binary.LittleEndian.PutUint32(o[16:20], v)
					return o
				}
				lens := []uint64{typeMax, typeMax + 1, mmp, mmp + 1, 0xffffffff, uint64(len(payload)) + 1, 0, 10240, 10241, 20481}
				if len(payload) > 0 {
					lens = append(lens, uint64(len(payload))-1)
				}
				for _, l := range lens {
					if l > 0xffffffff {
						continue
					}
					if l > 16<<20 && l <= typeMax && l <= mmp {
						// the implementation will allocate l bytes: keep these few
						if hugeBudget["len:"+cmd] >= c.Pick(1, 3) {
							continue
						}
						hugeBudget["len:"+cmd]++
					}
					ss = append(ss, setLen(uint32(l)))
				}
				// a frame whose payload really has the declared length, at and just above the type's limit
				if typeMax <= 3000 {
					big := g.bytesN(int(typeMax) + 1)
					ss = append(ss, fr(big[:typeMax]), fr(big))
				}
				// magic
				for _, n := range []uint32{uint32(wire.TestNet), uint32(wire.TestNet3), uint32(wire.SimNet), 0, main ^ 1, g.r.Uint32()} {
					o := append([]byte(nil), frame...)
					binary.LittleEndian.PutUint32(o[0:4], n)
					ss = append(ss, o)
				}
				// command
				other := c14AllCmds[g.r.Intn(len(c14AllCmds))]
				cmds := [][]byte{[]byte(other), []byte("foo"), []byte("Version"), []byte(cmd + "x"), {}, []byte("ver\x00sion"),
					{0xff, 0xfe}, {0xc3, 0x28}, {0xe2, 0x82, 0xac}, {0xe2, 0x82}, {0xed, 0xa0, 0x80}, {0xf0, 0x9f, 0x98, 0x80},
					{0xf4, 0x90, 0x80, 0x80}, {0xc0, 0xaf}, []byte("abcdefghijkl"), append([]byte(cmd), 0, 'x'), g.bytesN(12),
					[]byte(cmd[:len(cmd)-1])}
				for _, cb := range cmds {
					if len(cb) > 12 {
						cb = cb[:12]
					}
					if c14Opaque[string(bytes.TrimRight(cb, "\x00"))] && len(payload) > 200 {
						continue
					}
					ss = append(ss, c14Frame(main, cb, payload))
				}
				// checksum damage, header/payload bit flips, truncations
				for i := 0; i < 4; i++ {
					o := append([]byte(nil), frame...)
					o[20+i] ^= 1 << uint(g.r.Intn(8))
					ss = append(ss, o)
				}
				if small {
					for i := 0; i < 8; i++ {
						ss = append(ss, g.flip(frame, 1+g.r.Intn(2)))
					}
					for i := 0; i < 4; i++ {
						o := append([]byte(nil), frame...)
						k := g.r.Intn(24)
						o[k] ^= 1 << uint(g.r.Intn(8))
						ss = append(ss, o)
					}
				}
				for _, cut := range []int{0, 1, 4, 16, 20, 23, 24, 25, len(frame) - 1, g.r.Intn(len(frame) + 1)} {
					if cut >= 0 && cut <= len(frame) {
						ss = append(ss, frame[:cut])
					}
				}
				// splices and raw bytes
				if len(frames) > 1 && small {
					b := frames[g.r.Intn(len(frames))]
					ss = append(ss, append(append([]byte(nil), frame...), b...))
					i, j := g.r.Intn(len(frame)+1), g.r.Intn(len(b)+1)
					ss = append(ss, append(append([]byte(nil), frame[:i]...), b[j:]...))
					ss = append(ss, append(append([]byte(nil), b[:24]...), payload...))
				}
				ss = append(ss, g.bytesN(g.r.Intn(200)))
				rb := g.bytesN(24 + g.r.Intn(60))
				binary.LittleEndian.PutUint32(rb[0:4], main)
				copy(rb[4:16], append([]byte(cmd), make([]byte, 12)...))
				binary.LittleEndian.PutUint32(rb[16:20], uint32(len(rb)-24))
				ss = append(ss, rb)
				for i, s := range ss {
					e := ebs
					if i%7 == 3 {
						e = ebsWide
					}
					net := main
					if g.r.Intn(30) == 0 {
						net = c14Nets[g.r.Intn(len(c14Nets))]
					}
					if err := R(e, net, s); err != nil {
						return err
					}
				}
			}
		}
	}
	return nil
}

// streams: 2-5 frames on one reader.  Each frame is valid or rejected for exactly one reason (above its type's
// limit - also with a complete valid frame hidden in the oversize payload -, refused by the payload decoder,
// wrong magic, unknown / non-UTF-8 command, bad checksum); the last one may be truncated and a frame above the
// GLOBAL limit (whose payload the reader does not skip) may appear anywhere.  What one ReadMessage leaves on the
// reader is what the next one parses: after a rejected but fully framed frame the following frames must still be read.
func (r *c14run) streams(g *c14gen, run func(string) error) error {
	c := r.c
	prod := uint32(config.ExcessiveBlockSize)
	main := uint32(wire.MainNet)
	small := []string{"ping", "verack", "pong", "getaddr", "sendheaders", "feefilter", "mempool", "getheaders", "inv", "version",
		"addr", "headers", "reject", "getdata", "notfound", "getblocks", "filteradd", "filterclear", "filterload", "protoconf", "authch"}
	tight := []string{"ping", "verack", "pong", "getaddr", "sendheaders", "feefilter", "mempool", "filterclear", "version", "getcfcheckpt"}
	n := c.Pick(600, 8000)
	for i := 0; i < n; i++ {
		pver := uint32(70013)
		if i%7 == 6 {
			pver = g.pver()
		}
		ebs := prod
		if i%11 == 10 {
			ebs = 1000000 // maxMessagePayload = 2 MiB
		}
		c14Configure([]uint32{ebs})
		mmp := c14DeclaredLimit(ebs)
		valid := func() []byte {
			cmd := small[g.r.Intn(len(small))]
			if g.r.Intn(12) == 0 {
				cmd = "tx"
			}
			p := g.validPayload(cmd, pver, false)
			if p == nil || len(p) > 1500 {
				cmd, p = "verack", nil
			}
			return c14Frame(main, []byte(cmd), p)
		}
		rejected := func() []byte {
			switch g.r.Intn(9) {
			case 0, 1, 2: // above the type's limit, correct checksum
				cmd := tight[g.r.Intn(len(tight))]
				m0, _ := wire.VerifMakeEmptyMessage(cmd)
				lim := int(m0.MaxPayloadLength(pver))
				var p []byte
				switch g.r.Intn(3) {
				case 0:
					p = g.bytesN(lim + 1)
				case 1:
					p = g.bytesN(lim + 1 + g.r.Intn(60))
				default: // a complete valid frame (or two) inside the oversize payload
					p = append(valid(), g.bytesN(g.r.Intn(3))...)
					if g.r.Intn(3) == 0 {
						p = append(p, valid()...)
					}
					for len(p) <= lim {
						p = append(p, valid()...)
					}
				}
				return c14Frame(main, []byte(cmd), p)
			case 3: // refused by the payload decoder
				ps := [][]byte{append(c14Varint(wire.MaxInvPerMsg+1), g.bytesN(g.r.Intn(40))...), {0xfd, 0x01, 0x00}, g.bytesN(3)}
				return c14Frame(main, []byte([]string{"inv", "getdata", "headers", "addr"}[g.r.Intn(4)]), ps[g.r.Intn(len(ps))])
			case 4:
				f := valid()
				binary.LittleEndian.PutUint32(f[0:4], []uint32{uint32(wire.TestNet3), uint32(wire.SimNet), main ^ 0x100, g.r.Uint32()}[g.r.Intn(4)])
				return f
			case 5:
				cmds := [][]byte{[]byte("foo"), []byte("Ping"), {0xff, 0xfe}, {0xc3, 0x28}, []byte("ver\x00ack"), g.bytesN(12)}
				return c14Frame(main, cmds[g.r.Intn(len(cmds))], g.bytesN(g.r.Intn(60)))
			case 6:
				f := valid()
				f[20+g.r.Intn(4)] ^= 1 << uint(g.r.Intn(8))
				return f
			case 7:
				// embedded header-like garbage: payload that itself looks like the start of a huge frame
				inner := c14Frame(main, []byte("inv"), nil)
				binary.LittleEndian.PutUint32(inner[16:20], 1000000)
				return c14Frame(main, []byte("ping"), append(inner, g.bytesN(g.r.Intn(8))...))
			}
			// above the GLOBAL limit: the reader does not skip anything (by design the stream is lost)
			f := c14Frame(main, []byte("reject"), g.bytesN(g.r.Intn(30)))
			binary.LittleEndian.PutUint32(f[16:20], mmp+1+uint32(g.r.Intn(1000)))
			return f
		}
		k := 2 + g.r.Intn(4)
		var parts []string
		for j := 0; j < k; j++ {
			var f []byte
			switch {
			case j == 0 && i%3 != 2:
				f = rejected() // most streams open with a rejected frame followed by valid ones
			case g.r.Intn(3) == 0:
				f = rejected()
			default:
				f = valid()
			}
			if j == k-1 && g.r.Intn(8) == 0 && len(f) > 1 {
				f = f[:1+g.r.Intn(len(f)-1)] // truncated last frame
			}
			parts = append(parts, hex.EncodeToString(f))
		}
		if err := run(fmt.Sprintf("S %d %d %d %s", pver, ebs, main, strings.Join(parts, ";"))); err != nil {
			return err
		}
		// the same stream through a reader that returns short reads
		if i%2 == 0 {
			k := []int{1, 7, 1460, 16384, 2, 24, 25}[g.r.Intn(7)]
			if err := run(fmt.Sprintf("T %d %d %d %d %s", pver, ebs, main, k, strings.Join(parts, ";"))); err != nil {
				return err
			}
		}
	}
	// large frames (payloads above 1 MiB included) followed by a ping, through short reads
	ping := hex.EncodeToString(c14Frame(main, []byte("ping"), []byte{1, 2, 3, 4, 5, 6, 7, 8}))
	for _, big := range []string{"inv:30000", "inv:50000", "getdata:29128", "notfound:29127", "headers:2000", "addr:1000", "inv:29200"} {
		for _, k := range []int{1, 7, 1460, 16384} {
			if err := run(fmt.Sprintf("T 70013 %d %d %d @%s;%s", prod, main, k, big, ping)); err != nil {
				return err
			}
		}
	}
	return nil
}

