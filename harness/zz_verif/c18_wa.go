//go:build verif

package main

import (
	"fmt"
	"net"
	"strconv"
	"strings"
	"time"

	"github.com/bitcoin-sv/block-headers-service/transports/p2p"
	"github.com/bitcoin-sv/block-headers-service/transports/p2p/connmgr"
)

// Wired cases with the REAL address source: as the wr family (real server.Start, real connmgr, the
// server's own callbacks), and in addition GetNewAddress is the production closure
// p2putil.NewAddressFunc(addrManager.GetAddress, server.OutboundGroupCount, lookup) over the server's
// real address manager, filled by the script.  Every dial succeeds and every handshake completes.
//
// head:   wa t=<TargetOutbound> mf=<connmgr.maxFailedAttempts>
// book:   a<g>.<i>.<p><r>   a known address 45.(10+g).(1+i).9 (outbound group g); p = d default port /
//                           n non-default port; r = f fresh / r attempted just now (< 10 minutes ago)
// events: X<k>              the remote closes the (k mod live)-th live connection
// The address manager picks candidates at random, so only projections that do not depend on the pick
// are observed: "s:" after Start once the target is established (or the bound expired), one word per
// event once the closed connection is replaced, "e:" after a settling period; each
// "o<open connections>/c<server.ConnectedCount()>/n<Dial calls>".  A book with fewer outbound groups
// than the target cannot fill the target by design (the group filter never relaxes): such a case is
// reported as UNDERDETERMINED by both sides.

func c18WaBook(evs []string) (book []p2p.VerifC18BookEntry, groups map[int]bool, rest []string, ok bool) {
	groups = map[int]bool{}
	for _, e := range evs {
		if len(e) >= 2 && e[0] == 'a' {
			f := strings.Split(e[1:], ".")
			if len(f) != 3 || len(f[2]) != 2 {
				return nil, nil, nil, false
			}
			g, e1 := strconv.Atoi(f[0])
			i, e2 := strconv.Atoi(f[1])
			if e1 != nil || e2 != nil || g < 0 || g > 99 || i < 0 || i > 99 ||
				!strings.ContainsRune("dn", rune(f[2][0])) || !strings.ContainsRune("fr", rune(f[2][1])) {
				return nil, nil, nil, false
			}
			port := 8333
			if f[2][0] == 'n' {
				port = 18555
			}
			book = append(book, p2p.VerifC18BookEntry{IP: net.IPv4(45, byte(10+g), byte(1+i), 9), Port: port, Recent: f[2][1] == 'r'})
			groups[g] = true
		} else {
			rest = append(rest, e)
		}
	}
	return book, groups, rest, true
}

func c18RunWa(head []string, evs []string, st *Stack) (obs string) {
	target := c18Head(head, "t", 0)
	if c18Head(head, "mf", -1) != connmgr.VerifC18MaxFailedAttempts {
		return fmt.Sprintf("LIMITS mf=%d", connmgr.VerifC18MaxFailedAttempts)
	}
	book, groups, rest, ok := c18WaBook(evs)
	if !ok || target < 1 || target > 8 {
		return "BAD-INPUT"
	}
	if len(groups) < target {
		return "UNDERDETERMINED"
	}
	f := &c18WrFix{quit: make(chan struct{}), plan: map[string]c18WrDial{}, nonce: uint64(time.Now().UnixNano())}
	w, err := p2p.VerifC18NewWired(p2p.VerifC18WiredCfg{
		Services:          st.Services,
		Target:            target,
		Retry:             2 * time.Millisecond,
		RealAddressSource: true,
		Book:              book,
		Dial: func(a net.Addr) (net.Conn, error) {
			f.mu.Lock()
			defer f.mu.Unlock()
			f.dials++
			ta, isTCP := a.(*net.TCPAddr)
			if !isTCP {
				return nil, fmt.Errorf("unexpected address type %T", a)
			}
			c := &c18WrConn{f: f, closed: make(chan struct{}), raddr: ta, live: true}
			f.nonce++
			data, err := f.w.RemoteHandshake(ta.IP, ta.Port, f.nonce, true, true)
			if err != nil {
				return nil, err
			}
			c.data = data
			f.conns = append(f.conns, c)
			return c, nil
		},
	})
	if err != nil {
		return "ERR " + err.Error()
	}
	f.w = w
	openCount := func() int {
		n := 0
		for _, c := range f.conns {
			if !c.isClosed() {
				n++
			}
		}
		return n
	}
	settled := func(wantDials int) bool {
		b := c18CmBound
		if c18WrTimeouts >= 3 {
			b = 150 * time.Millisecond
		}
		deadline := time.Now().Add(b)
		for {
			f.mu.Lock()
			ok := openCount() == target && f.dials >= wantDials
			f.mu.Unlock()
			if ok && w.ConnectedCount(2*time.Second) == target {
				return true
			}
			if time.Now().After(deadline) {
				c18WrTimeouts++
				return false
			}
			time.Sleep(100 * time.Microsecond)
		}
	}
	digest := func() string {
		cc := w.ConnectedCount(2 * time.Second)
		f.mu.Lock()
		defer f.mu.Unlock()
		return fmt.Sprintf("o%d/c%d/n%d", openCount(), cc, f.dials)
	}
	defer func() {
		if r := recover(); r != nil {
			obs = fmt.Sprintf("PANIC %v", r)
		}
		done := make(chan struct{})
		go func() { w.Stop(); close(done) }()
		select {
		case <-done:
		case <-time.After(5 * time.Second):
		}
		f.mu.Lock()
		for _, c := range f.conns {
			_ = c.Close()
		}
		f.mu.Unlock()
	}()
	if err := w.Start(); err != nil {
		return "ERR " + err.Error()
	}
	var out []string
	tag := "s"
	if !settled(target) {
		tag = "!"
	}
	out = append(out, tag+":"+digest())
	for _, e := range rest {
		tag := "?"
		if len(e) >= 2 && e[0] == 'X' {
			if k, err := strconv.Atoi(e[1:]); err == nil && k >= 0 {
				f.mu.Lock()
				var live []*c18WrConn
				for _, c := range f.conns {
					if !c.isClosed() {
						live = append(live, c)
					}
				}
				d0 := f.dials
				f.mu.Unlock()
				if len(live) == 0 {
					tag = "-"
				} else {
					_ = live[k%len(live)].Close()
					tag = "X"
					if !settled(d0 + 1) {
						tag = "!"
					}
				}
			}
		}
		out = append(out, tag+":"+digest())
	}
	time.Sleep(5 * time.Millisecond)
	out = append(out, "e:"+digest())
	return strings.Join(out, " ")
}

func c18GenWa(c *Ctx, st *Stack) error {
	mf := connmgr.VerifC18MaxFailedAttempts
	seen := map[string]bool{}
	emit := func(t int, evs []string, class string) {
		head := fmt.Sprintf("wa t=%d mf=%d", t, mf)
		in := head + ";" + strings.Join(evs, ";")
		if seen[in] {
			return
		}
		seen[in] = true
		c.Case(in, c18RunWa(strings.Fields(head), evs, st))
		c.Count("wa:" + class)
	}
	closes := func() []string {
		var r []string
		for k, m := 0, 1+c.Rng.Intn(3); k < m; k++ {
			r = append(r, fmt.Sprintf("X%d", c.Rng.Intn(4)))
		}
		return r
	}
	for rep, n := 0, c.Pick(2, 40); rep < n; rep++ {
		for t := 1; t <= 3; t++ {
			ng := t + c.Rng.Intn(3) // at least as many groups as the target
			per := 1 + c.Rng.Intn(2)
			mk := func(flags func(g, i int) string) []string {
				var b []string
				for g := 0; g < ng; g++ {
					for i := 0; i < per; i++ {
						b = append(b, fmt.Sprintf("a%d.%d.%s", g, i, flags(g, i)))
					}
				}
				return b
			}
			// (a) every address on a non-default port
			emit(t, append(mk(func(g, i int) string { return "nf" }), closes()...), "nondefault-port")
			// (b) every address attempted less than ten minutes ago
			emit(t, append(mk(func(g, i int) string { return "dr" }), closes()...), "recently-attempted")
			// both at once
			emit(t, append(mk(func(g, i int) string { return "nr" }), closes()...), "nondefault-and-recent")
			// (c) mixtures with one fresh default-port address
			emit(t, append(mk(func(g, i int) string {
				if g == 0 && i == 0 {
					return "df"
				}
				return []string{"nf", "dr", "nr"}[c.Rng.Intn(3)]
			}), closes()...), "mixed-one-fresh")
			// plain book
			emit(t, append(mk(func(g, i int) string { return "df" }), closes()...), "fresh-default")
		}
		// (d) one /16 group only: the group filter; the target is 1 (a second slot could never be filled)
		var b []string
		for i, m := 0, 2+c.Rng.Intn(3); i < m; i++ {
			b = append(b, fmt.Sprintf("a7.%d.%s", i, []string{"df", "nf", "dr"}[c.Rng.Intn(3)]))
		}
		emit(1, append(b, closes()...), "one-group")
	}
	return nil
}
