//go:build verif

package main

import (
	"context"
	"fmt"
	"net"
	"os"
	"os/exec"
	"path/filepath"
	"strconv"
	"strings"
	"time"

	"github.com/bitcoin-sv/block-headers-service/transports/p2p"
	"github.com/bitcoin-sv/block-headers-service/transports/p2p/connmgr"
)

// Wired cases with the REAL address source: as the wr family (real server.Start, real connmgr, the
// server's own callbacks), and in addition GetNewAddress is the production closure
// p2putil.NewAddressFunc(addrManager.GetAddress, server.OutboundGroupCount, lookup) over the server's
// real address manager (BanAddress: addrManager.BanAddress), filled by the script.  A dial succeeds and
// the handshake completes unless the script made the address go away.
//
// head:   wa t=<TargetOutbound> mf=<connmgr.maxFailedAttempts>
// book:   a<g>.<i>.<p><r>[n] known before Start: 45.(10+g).(1+i).9 (outbound group g); p = d default port /
//                           n non-default port; r = f fresh / r attempted just now (< 10 minutes ago);
//                           n = 1..8 learnt from n sources in different /16 groups, i.e. the address sits in
//                           n new buckets of the address manager (refs = n)
// events: X<k>              the remote closes the (k mod live)-th live connection
//         Z<g>.<i>          the node at that address goes away: its live connections are closed by the
//                           remote and every later dial to it is refused (after maxFailedAttempts refusals
//                           the connection manager bans the address: addrManager.BanAddress)
//         D<g>.<i>          later dials to that address are refused (a live connection stays)
//         B<g>.<i>.<p><r>[n] a further address becomes known now (addrManager.AddAddresses, from n sources)
// The address manager picks candidates at random, so only projections that do not depend on the pick
// are observed.  At each step U = number of outbound groups with a known address that has not gone
// away.  If U >= target the target is owed: the word is "<tag>:o<open connections>/c<ConnectedCount()>
// /n<Dial calls>" once the manager is back at the target (tag "!" when the bound expired); n is printed
// as "*" in scripts with Z/D events (how often a dead address is retried depends on the picks).  If
// U < target the group filter (which never relaxes, by design) may make the target unreachable: the word
// is "u".  A call into the address manager that does not return within its bound (AddAddresses for B,
// a NeedMoreAddresses probe after every step) appends "/ADDRMGR-BLOCKED"; a B that did not return has
// tag "#".  When the address manager's own counters disagree with its tables (nTried vs. entries of the
// tried table, nNew vs. distinct addresses of the new table, index size vs. both) the word gets
// "/ADDRMGR-COUNTS:<nTried>-<in tried>,<nNew>-<in new>,<index>".  "s:" = after Start, "e:" = after a settling period.
// Scripts with Z/D/B events run in a child process (a blocked address manager leaves a goroutine that
// spins for ever holding the mutex; the child's exit ends it) with a hard time limit.

type c18WaAddr struct {
	g, i    int
	port    int
	recent  bool
	sources int
}

func c18WaParseAddr(s string, withFlags bool) (a c18WaAddr, ok bool) {
	f := strings.Split(s, ".")
	want := 2
	if withFlags {
		want = 3
	}
	if len(f) != want {
		return a, false
	}
	g, e1 := strconv.Atoi(f[0])
	i, e2 := strconv.Atoi(f[1])
	if e1 != nil || e2 != nil || g < 0 || g > 99 || i < 0 || i > 99 {
		return a, false
	}
	a = c18WaAddr{g: g, i: i, port: 8333}
	if withFlags {
		if (len(f[2]) != 2 && len(f[2]) != 3) || !strings.ContainsRune("dn", rune(f[2][0])) || !strings.ContainsRune("fr", rune(f[2][1])) {
			return a, false
		}
		a.sources = 1
		if len(f[2]) == 3 {
			if f[2][2] < '1' || f[2][2] > '8' {
				return a, false
			}
			a.sources = int(f[2][2] - '0')
		}
		if f[2][0] == 'n' {
			a.port = 18555
		}
		a.recent = f[2][1] == 'r'
	}
	return a, true
}

func (a c18WaAddr) ip() net.IP  { return net.IPv4(45, byte(10+a.g), byte(1+a.i), 9) }
func (a c18WaAddr) key() string { return fmt.Sprintf("%d.%d", a.g, a.i) }
func (a c18WaAddr) entry() p2p.VerifC18BookEntry {
	return p2p.VerifC18BookEntry{IP: a.ip(), Port: a.port, Recent: a.recent, Sources: a.sources}
}

func c18WaNeedsChild(evs []string) bool {
	for _, e := range evs {
		if len(e) >= 2 && (e[0] == 'Z' || e[0] == 'D' || e[0] == 'B') {
			return true
		}
	}
	return false
}

// c18RunWaChild runs the case in a child process of this harness binary (--only) under a hard limit.
func c18RunWaChild(c *Ctx, input string) string {
	dir := c.TmpDir("wa-child")
	ctx, cancel := context.WithTimeout(context.Background(), 40*time.Second)
	defer cancel()
	cmd := exec.CommandContext(ctx, os.Args[0], "C18", dir, "--only", input)
	cmd.Env = os.Environ()
	cmd.Dir = dir
	out, err := cmd.CombinedOutput()
	b, rerr := os.ReadFile(filepath.Join(dir, "impl.txt"))
	if rerr == nil {
		l := strings.TrimRight(string(b), "\n")
		if i := strings.IndexByte(l, '\t'); i >= 0 && !strings.Contains(l[i+1:], "\n") {
			return l[i+1:]
		}
	}
	if ctx.Err() != nil {
		return "CHILD-TIMEOUT"
	}
	msg := strings.ReplaceAll(strings.ReplaceAll(string(out), "\n", " "), "\t", " ")
	if len(msg) > 200 {
		msg = msg[len(msg)-200:]
	}
	return fmt.Sprintf("CHILD-FAILED %v %s", err, msg)
}

func c18RunWa(head []string, evs []string, st *Stack) (obs string) {
	target := c18Head(head, "t", 0)
	mf := connmgr.VerifC18MaxFailedAttempts
	if c18Head(head, "mf", -1) != mf {
		return fmt.Sprintf("LIMITS mf=%d", mf)
	}
	if target < 1 || target > 8 {
		return "BAD-INPUT"
	}
	// book tokens (anywhere in the script) are known before Start
	var book []p2p.VerifC18BookEntry
	known := map[string]c18WaAddr{}
	gone := map[string]bool{}
	var rest []string
	for _, e := range evs {
		if len(e) >= 2 && e[0] == 'a' {
			a, ok := c18WaParseAddr(e[1:], true)
			if !ok {
				return "BAD-INPUT"
			}
			book = append(book, a.entry())
			if _, dup := known[a.key()]; !dup {
				known[a.key()] = a
			}
		} else {
			rest = append(rest, e)
		}
	}
	// dial counts are only determined when no address goes away and the target is owed throughout
	starN := false
	{
		kn := map[string]int{}
		for k, a := range known {
			kn[k] = a.g
		}
		ug := func() int {
			gs := map[int]bool{}
			for _, g := range kn {
				gs[g] = true
			}
			return len(gs)
		}
		if ug() < target {
			starN = true
		}
		for _, e := range rest {
			if len(e) >= 2 && (e[0] == 'Z' || e[0] == 'D') {
				starN = true
			}
			if len(e) >= 2 && e[0] == 'B' {
				if a, ok := c18WaParseAddr(e[1:], true); ok {
					kn[a.key()] = a.g
				}
			}
		}
	}
	usable := func() int {
		gs := map[int]bool{}
		for k, a := range known {
			if !gone[k] {
				gs[a.g] = true
			}
		}
		return len(gs)
	}
	f := &c18WrFix{quit: make(chan struct{}), plan: map[string]c18WrDial{}, nonce: uint64(time.Now().UnixNano())}
	refuse := map[string]bool{} // "ip:port" -> dials refused
	refused := map[string]int{}
	banned := map[string]bool{} // addresses the connection manager had banned (addrManager.BanAddress returned)
	w, err := p2p.VerifC18NewWired(p2p.VerifC18WiredCfg{
		Services:          st.Services,
		Target:            target,
		Retry:             2 * time.Millisecond,
		RealAddressSource: true,
		Book:              book,
		OnBan: func(addr string) {
			f.mu.Lock()
			banned[addr] = true
			f.mu.Unlock()
		},
		Dial: func(a net.Addr) (net.Conn, error) {
			f.mu.Lock()
			defer f.mu.Unlock()
			f.dials++
			ta, isTCP := a.(*net.TCPAddr)
			if !isTCP {
				return nil, fmt.Errorf("unexpected address type %T", a)
			}
			if refuse[ta.String()] {
				refused[ta.String()]++
				return nil, fmt.Errorf("connection refused")
			}
			c := &c18WrConn{f: f, closed: make(chan struct{}), raddr: ta, live: true}
			f.nonce++
			data, err := f.w.RemoteHandshake(ta.IP, ta.Port, f.nonce, true, true)
			if err != nil {
				return nil, err
			}
			c.data = data
			f.conns = append(f.conns, c)
			return c, nil
		},
	})
	if err != nil {
		return "ERR " + err.Error()
	}
	f.w = w
	blocked := false
	openCount := func() int {
		n := 0
		for _, c := range f.conns {
			if !c.isClosed() {
				n++
			}
		}
		return n
	}
	settled := func(wantDials int) bool {
		b := c18CmBound
		if c18WrTimeouts >= 3 {
			b = 150 * time.Millisecond
		}
		if blocked {
			b = 50 * time.Millisecond
		}
		deadline := time.Now().Add(b)
		for {
			f.mu.Lock()
			ok := openCount() == target && f.dials >= wantDials
			f.mu.Unlock()
			if ok && w.ConnectedCount(2*time.Second) == target {
				return true
			}
			if time.Now().After(deadline) {
				c18WrTimeouts++
				return false
			}
			time.Sleep(100 * time.Microsecond)
		}
	}
	probe := func() {
		if !blocked && !w.AddrMgrResponds(400*time.Millisecond) {
			blocked = true
		}
	}
	word := func(tag string, owed bool) string {
		probe()
		if os.Getenv("C18_DEBUG") != "" {
			a, b, cc, d, e, ok := w.AddrCounts()
			fmt.Fprintln(os.Stderr, "addrmgr nTried", a, "nNew", b, "inTried", cc, "inNew", d, "index", e, ok)
		}
		sfx := ""
		if blocked {
			sfx = "/ADDRMGR-BLOCKED"
		} else if nt, nn, it, in, ix, ok := w.AddrCounts(); ok && (nt != it || nn != in || ix != it+in) {
			sfx = fmt.Sprintf("/ADDRMGR-COUNTS:%d-%d,%d-%d,%d", nt, it, nn, in, ix)
		}
		if !owed {
			return "u" + sfx
		}
		cc := w.ConnectedCount(2 * time.Second)
		f.mu.Lock()
		defer f.mu.Unlock()
		n := strconv.Itoa(f.dials)
		if starN {
			n = "*"
		}
		return fmt.Sprintf("%s:o%d/c%d/n%s%s", tag, openCount(), cc, n, sfx)
	}
	defer func() {
		if r := recover(); r != nil {
			obs = fmt.Sprintf("PANIC %v", r)
		}
		done := make(chan struct{})
		go func() { w.Stop(); close(done) }()
		select {
		case <-done:
		case <-time.After(3 * time.Second):
		}
		f.mu.Lock()
		for _, c := range f.conns {
			_ = c.Close()
		}
		f.mu.Unlock()
	}()
	if err := w.Start(); err != nil {
		return "ERR " + err.Error()
	}
	var out []string
	step := func(tag string, wantDials int) {
		owed := usable() >= target
		if owed {
			if !settled(wantDials) && tag != "#" {
				tag = "!"
			}
		} else {
			time.Sleep(2 * time.Millisecond)
		}
		out = append(out, word(tag, owed))
	}
	step("s", target)
	for _, e := range rest {
		tag := "?"
		f.mu.Lock()
		d0 := f.dials
		f.mu.Unlock()
		want := 0
		switch {
		case len(e) >= 2 && e[0] == 'X':
			if k, err := strconv.Atoi(e[1:]); err == nil && k >= 0 {
				f.mu.Lock()
				var live []*c18WrConn
				for _, c := range f.conns {
					if !c.isClosed() {
						live = append(live, c)
					}
				}
				f.mu.Unlock()
				if len(live) == 0 {
					tag = "-"
				} else {
					_ = live[k%len(live)].Close()
					tag = "X"
					want = d0 + 1
				}
			}
		case len(e) >= 2 && (e[0] == 'Z' || e[0] == 'D'):
			a, ok := c18WaParseAddr(e[1:], false)
			if !ok {
				break
			}
			ka, isKnown := known[a.key()]
			if !isKnown {
				tag = "-"
				break
			}
			tag = e[:1]
			gone[a.key()] = true
			addr := (&net.TCPAddr{IP: ka.ip(), Port: ka.port}).String()
			f.mu.Lock()
			refuse[addr] = true
			var victims []*c18WrConn
			if e[0] == 'Z' {
				for _, c := range f.conns {
					if !c.isClosed() && c.raddr.String() == addr {
						victims = append(victims, c)
					}
				}
			}
			f.mu.Unlock()
			for _, c := range victims {
				_ = c.Close()
			}
			if usable() < target && !blocked {
				// nothing else can fill the free slots: give the manager time to run into the ban of
				// every address that has gone away
				deadline := time.Now().Add(600 * time.Millisecond)
				for time.Now().Before(deadline) {
					f.mu.Lock()
					done := openCount() >= target
					if !done {
						done = true
						for k, isGone := range gone {
							ga := known[k]
							if isGone && !banned[(&net.TCPAddr{IP: ga.ip(), Port: ga.port}).String()] {
								done = false
							}
						}
					}
					f.mu.Unlock()
					if done {
						break
					}
					time.Sleep(200 * time.Microsecond)
				}
				time.Sleep(5 * time.Millisecond)
			}
		case len(e) >= 2 && e[0] == 'B':
			a, ok := c18WaParseAddr(e[1:], true)
			if !ok {
				break
			}
			tag = "B"
			if _, dup := known[a.key()]; !dup {
				known[a.key()] = a
			}
			if blocked || !w.AddAddress(a.entry(), 500*time.Millisecond) {
				blocked = true
				tag = "#"
			} else if os.Getenv("C18_DEBUG") != "" {
				fmt.Fprintln(os.Stderr, "refs of", a.key(), "=", w.Refs(a.entry()), "wanted", a.sources)
			}
		}
		step(tag, want)
	}
	time.Sleep(5 * time.Millisecond)
	step("e", 0)
	return strings.Join(out, " ")
}

func c18GenWa(c *Ctx, st *Stack) error {
	mf := connmgr.VerifC18MaxFailedAttempts
	seen := map[string]bool{}
	type job struct {
		in, head, class string
		evs             []string
	}
	var later []job
	emit := func(t int, evs []string, class string) {
		head := fmt.Sprintf("wa t=%d mf=%d", t, mf)
		in := head + ";" + strings.Join(evs, ";")
		if seen[in] {
			return
		}
		seen[in] = true
		if c18WaNeedsChild(evs) {
			later = append(later, job{in, head, class, evs})
			return
		}
		c.Case(in, c18RunWa(strings.Fields(head), evs, st))
		c.Count("wa:" + class)
	}
	closes := func() []string {
		var r []string
		for k, m := 0, 1+c.Rng.Intn(3); k < m; k++ {
			r = append(r, fmt.Sprintf("X%d", c.Rng.Intn(4)))
		}
		return r
	}
	fl := func() string { return []string{"df", "df", "nf", "dr", "nr"}[c.Rng.Intn(5)] }
	for rep, n := 0, c.Pick(2, 40); rep < n; rep++ {
		for t := 1; t <= 3; t++ {
			ng := t + c.Rng.Intn(3) // at least as many groups as the target
			per := 1 + c.Rng.Intn(2)
			mk := func(flags func(g, i int) string) []string {
				var b []string
				for g := 0; g < ng; g++ {
					for i := 0; i < per; i++ {
						b = append(b, fmt.Sprintf("a%d.%d.%s", g, i, flags(g, i)))
					}
				}
				return b
			}
			// (a) every address on a non-default port
			emit(t, append(mk(func(g, i int) string { return "nf" }), closes()...), "nondefault-port")
			// (b) every address attempted less than ten minutes ago
			emit(t, append(mk(func(g, i int) string { return "dr" }), closes()...), "recently-attempted")
			// both at once
			emit(t, append(mk(func(g, i int) string { return "nr" }), closes()...), "nondefault-and-recent")
			// (c) mixtures with one fresh default-port address
			emit(t, append(mk(func(g, i int) string {
				if g == 0 && i == 0 {
					return "df"
				}
				return []string{"nf", "dr", "nr"}[c.Rng.Intn(3)]
			}), closes()...), "mixed-one-fresh")
			// plain book
			emit(t, append(mk(func(g, i int) string { return "df" }), closes()...), "fresh-default")

			// address bans: every peer the service was connected to goes away (closed by the remote,
			// then refusing until the connection manager bans the address), then further addresses of
			// other groups become known: the target has to be re-established
			var evs []string
			for g := 0; g < t; g++ {
				evs = append(evs, fmt.Sprintf("a%d.0.%s", g, fl()))
			}
			for g := 0; g < t; g++ {
				evs = append(evs, fmt.Sprintf("Z%d.0", g))
			}
			for g := 0; g < t; g++ {
				evs = append(evs, fmt.Sprintf("B%d.0.%s", 10+g, fl()))
			}
			emit(t, append(evs, closes()...), "ban-all-connected-then-new")
			// the other dialable address is known BEFORE the connected one goes away
			evs = nil
			for g := 0; g < t; g++ {
				evs = append(evs, fmt.Sprintf("a%d.0.%s", g, fl()))
			}
			evs = append(evs, fmt.Sprintf("B%d.0.%s", 20, fl()), "Z0.0")
			emit(t, append(evs, closes()...), "ban-with-other-known")
			// one by one: a peer goes away, a new address shows up, the next one goes away ...
			evs = nil
			for g := 0; g < t; g++ {
				evs = append(evs, fmt.Sprintf("a%d.0.%s", g, fl()))
			}
			for g := 0; g < t; g++ {
				evs = append(evs, fmt.Sprintf("Z%d.0", g), fmt.Sprintf("B%d.0.%s", 30+g, fl()))
			}
			evs = append(evs, fmt.Sprintf("Z%d.0", 30), fmt.Sprintf("B%d.0.df", 40))
			emit(t, append(evs, closes()...), "ban-one-by-one")
			// an address learnt from several source groups (several new-bucket references) refuses until
			// it is banned; then exactly refs-1 healthy addresses become known (the new-table counter
			// must count ADDRESSES, not references), plus variants with more / fewer / earlier ones
			for _, refs := range []int{2 + c.Rng.Intn(2), 2 + c.Rng.Intn(5)} {
				evs = nil
				for g := 0; g < t; g++ {
					evs = append(evs, fmt.Sprintf("a%d.0.%s", g, fl()))
				}
				evs = append(evs, fmt.Sprintf("B60.0.%s%d", fl(), refs), "D60.0")
				if c.Rng.Intn(3) == 0 {
					evs = append(evs, fmt.Sprintf("B61.0.%s%d", fl(), 1+c.Rng.Intn(3)))
				}
				for g := 0; g < t; g++ {
					evs = append(evs, fmt.Sprintf("Z%d.0", g))
				}
				healthy := refs - 1
				if c.Rng.Intn(3) == 0 {
					healthy = t + c.Rng.Intn(3)
				}
				if healthy < t {
					healthy = t
				}
				for k := 0; k < healthy; k++ {
					evs = append(evs, fmt.Sprintf("B%d.0.df%d", 70+k, 1+c.Rng.Intn(2)))
				}
				emit(t, append(evs, closes()...), "ban-multi-source")
			}
			// refusing addresses beside good ones of the same and of other groups
			evs = nil
			for g := 0; g < t+1; g++ {
				evs = append(evs, fmt.Sprintf("a%d.0.%s", g, fl()), fmt.Sprintf("a%d.1.%s", g, fl()))
			}
			evs = append(evs, "D0.0", "D1.1")
			evs = append(evs, closes()...)
			evs = append(evs, "Z0.1", fmt.Sprintf("B%d.0.df", 50))
			emit(t, append(evs, closes()...), "refusing-beside-good")
		}
		// (d) one /16 group only: the group filter; the target is 1 (a second slot could never be filled)
		var b []string
		for i, m := 0, 2+c.Rng.Intn(3); i < m; i++ {
			b = append(b, fmt.Sprintf("a7.%d.%s", i, []string{"df", "nf", "dr"}[c.Rng.Intn(3)]))
		}
		emit(1, append(b, closes()...), "one-group")
	}
	// the scripts that may leave a blocked address manager behind run last, each in a child process
	for _, j := range later {
		c.Case(j.in, c18RunWaChild(c, j.in))
		c.Count("wa:" + j.class)
	}
	return nil
}
