//go:build verif

package main

import (
	"crypto/sha256"
	"fmt"
	"math/big"
	"math/rand"
	"sort"
	"strconv"
	"strings"
	"time"

	"github.com/bitcoin-sv/block-headers-service/domains"
	"github.com/bitcoin-sv/block-headers-service/internal/chaincfg"
	"github.com/bitcoin-sv/block-headers-service/internal/chaincfg/chainhash"
	"github.com/bitcoin-sv/block-headers-service/service"
)

// ---------------------------------------------------------------------------------------------
// Abstract histories of header submissions, shared by the chain properties (C01-C05, C08, C11, C13, C15).
//
// line format (";"-separated so that the shrinker can drop submissions):
//    g=<id>,<bits>,<ver>,<merkle>,<ts>,<nonce>;f=<id>,<id>..;<sub>;<sub>;...
//    sub = <id>,<prev>,<bits>,<ver>,<merkle>,<ts>,<nonce>
// ids: 0 = all-zero hash, 1 = genesis, others chosen by the generator.  A real 80-byte header is built
// for every sub (prev = the real hash of the sub that defines <prev>, or a fake hash derived from the id
// when no sub defines it), hashed by the service's own hasher; distinct ids <-> distinct hashes is asserted.
// ---------------------------------------------------------------------------------------------

// Sub is one abstract submission.
type Sub struct {
	ID, Prev int
	Bits     uint32
	Ver      int32
	Merkle   int
	TS       uint32
	Nonce    uint32
}

// History is a list of submissions plus the forbidden ids.
type History struct {
	Forbidden []int
	Subs      []Sub
	X         []string // extra "x=..." tokens (scenario parameters of the property that uses the history)
}

const genesisID = 1

func (s Sub) String() string {
	return fmt.Sprintf("%d,%d,%d,%d,%d,%d,%d", s.ID, s.Prev, s.Bits, s.Ver, s.Merkle, s.TS, s.Nonce)
}

// Line renders the history as a case input line.
func (h *History) Line() string {
	gh := chaincfg.MainNetParams.GenesisBlock.Header
	var sb strings.Builder
	fmt.Fprintf(&sb, "g=%d,%d,%d,%d,%d,%d;f=", genesisID, gh.Bits, 1, 1, gh.Timestamp.Unix(), gh.Nonce)
	for i, f := range h.Forbidden {
		if i > 0 {
			sb.WriteByte(',')
		}
		fmt.Fprintf(&sb, "%d", f)
	}
	for _, x := range h.X {
		sb.WriteString(";x=")
		sb.WriteString(x)
	}
	for _, s := range h.Subs {
		sb.WriteByte(';')
		sb.WriteString(s.String())
	}
	return sb.String()
}

// ParseHistory parses a case input line (the part after an optional "<tag> " prefix is handled by callers).
func ParseHistory(line string) (*History, error) {
	h := &History{}
	for _, tok := range strings.Split(line, ";") {
		tok = strings.TrimSpace(tok)
		if tok == "" || strings.HasPrefix(tok, "g=") {
			continue
		}
		if strings.HasPrefix(tok, "x=") {
			h.X = append(h.X, tok[2:])
			continue
		}
		if strings.HasPrefix(tok, "f=") {
			for _, x := range strings.Split(tok[2:], ",") {
				if x == "" {
					continue
				}
				v, err := strconv.Atoi(x)
				if err != nil {
					return nil, err
				}
				h.Forbidden = append(h.Forbidden, v)
			}
			continue
		}
		p := strings.Split(tok, ",")
		if len(p) != 7 {
			return nil, fmt.Errorf("bad sub %q", tok)
		}
		n := make([]int64, 7)
		for i := range p {
			v, err := strconv.ParseInt(p[i], 10, 64)
			if err != nil {
				return nil, err
			}
			n[i] = v
		}
		h.Subs = append(h.Subs, Sub{ID: int(n[0]), Prev: int(n[1]), Bits: uint32(n[2]), Ver: int32(n[3]), Merkle: int(n[4]), TS: uint32(n[5]), Nonce: uint32(n[6])})
	}
	return h, nil
}

// merkleBytes maps a merkle id to 32 deterministic bytes (id 1 = the real genesis merkle root);
// some ids give extreme patterns (leading / trailing zero bytes, all 0xff).
func merkleBytes(id int) chainhash.Hash {
	if id == 1 {
		return chaincfg.MainNetParams.GenesisBlock.Header.MerkleRoot
	}
	d := sha256.Sum256([]byte(fmt.Sprintf("merkle-%d", id)))
	var h chainhash.Hash
	copy(h[:], d[:])
	switch id % 11 {
	case 3:
		for i := 0; i < 8; i++ {
			h[i] = 0
		}
	case 5:
		for i := 24; i < 32; i++ {
			h[i] = 0
		}
	case 7:
		for i := 0; i < 32; i += 2 {
			h[i] = 0xff
		}
	}
	return h
}

func fakeHash(id int) chainhash.Hash {
	d := sha256.Sum256([]byte(fmt.Sprintf("unknown-parent-%d", id)))
	var h chainhash.Hash
	copy(h[:], d[:])
	return h
}

// Mat is a materialised history: real headers and the id <-> hash maps.
type Mat struct {
	H      *History
	Src    []domains.BlockHeaderSource // one per sub
	Hash   map[int]chainhash.Hash      // id -> real hash
	IDOf   map[chainhash.Hash]int      // real hash -> id
	MerkID map[chainhash.Hash]int      // merkle bytes -> merkle id
	def    map[int]int                 // id -> index of defining sub
}

// Materialize builds the real headers of a history.
func Materialize(h *History) (*Mat, error) {
	m := &Mat{H: h, Hash: map[int]chainhash.Hash{}, IDOf: map[chainhash.Hash]int{}, MerkID: map[chainhash.Hash]int{}, def: map[int]int{}}
	for i, s := range h.Subs {
		if _, ok := m.def[s.ID]; !ok {
			m.def[s.ID] = i
		}
	}
	m.Hash[0] = chainhash.Hash{}
	m.Hash[genesisID] = *chaincfg.MainNetParams.GenesisHash
	hasher := service.DefaultBlockHasher()
	var hashOf func(id int, depth int) (chainhash.Hash, error)
	srcOf := func(s Sub, prev chainhash.Hash) domains.BlockHeaderSource {
		return domains.BlockHeaderSource{Version: s.Ver, PrevBlock: prev, MerkleRoot: merkleBytes(s.Merkle),
			Timestamp: time.Unix(int64(s.TS), 0), Bits: s.Bits, Nonce: s.Nonce}
	}
	hashOf = func(id int, depth int) (chainhash.Hash, error) {
		if v, ok := m.Hash[id]; ok {
			return v, nil
		}
		if depth > len(h.Subs)+2 {
			return chainhash.Hash{}, fmt.Errorf("cyclic parent links at id %d", id)
		}
		i, ok := m.def[id]
		if !ok {
			v := fakeHash(id)
			m.Hash[id] = v
			return v, nil
		}
		s := h.Subs[i]
		ph, err := hashOf(s.Prev, depth+1)
		if err != nil {
			return ph, err
		}
		src := srcOf(s, ph)
		bh := hasher.BlockHash(&src)
		v := chainhash.Hash(bh)
		m.Hash[id] = v
		return v, nil
	}
	for _, s := range h.Subs {
		if _, err := hashOf(s.ID, 0); err != nil {
			return nil, err
		}
		ph, err := hashOf(s.Prev, 0)
		if err != nil {
			return nil, err
		}
		// a repeated id must describe the same header (a duplicate submission)
		d := h.Subs[m.def[s.ID]]
		if d != s {
			return nil, fmt.Errorf("id %d defined twice with different fields", s.ID)
		}
		m.Src = append(m.Src, srcOf(s, ph))
		mb := merkleBytes(s.Merkle)
		if old, ok := m.MerkID[mb]; ok && old != s.Merkle {
			return nil, fmt.Errorf("merkle ids %d and %d collide", old, s.Merkle)
		}
		m.MerkID[mb] = s.Merkle
	}
	m.MerkID[merkleBytes(1)] = 1
	for id, hv := range m.Hash {
		if old, ok := m.IDOf[hv]; ok && old != id {
			return nil, fmt.Errorf("hash collision between ids %d and %d (SHA-256d injectivity assumption violated)", old, id)
		}
		m.IDOf[hv] = id
	}
	return m, nil
}

// ID maps a hash (hex string as the service prints it) to its abstract id, -1 when unknown.
func (m *Mat) ID(hexHash string) int {
	h, err := chainhash.NewHashFromStr(hexHash)
	if err != nil {
		return -1
	}
	if id, ok := m.IDOf[*h]; ok {
		return id
	}
	return -1
}

// ForbiddenHashes returns the real hashes of the forbidden ids.
func (m *Mat) ForbiddenHashes() []*chainhash.Hash {
	var out []*chainhash.Hash
	for _, f := range m.H.Forbidden {
		hv, ok := m.Hash[f]
		if !ok {
			hv = fakeHash(f)
		}
		c := hv
		out = append(out, &c)
	}
	return out
}

// SetForbidden rebuilds the Chains service with the given forbidden hashes (HeadersToIgnore).
func (s *Stack) SetForbidden(hs []*chainhash.Hash) {
	p := chaincfg.MainNetParams
	p.HeadersToIgnore = hs
	s.Services.Chains = service.NewChainsService(s.Repo, &p, s.Log, service.DefaultBlockHasher(), s.Services.Notifier)
}

// Killed is the panic value the fault-injecting repository decorator uses to simulate a process kill.
type Killed struct{}

func stLetter(st string) string {
	switch st {
	case "LONGEST_CHAIN":
		return "L"
	case "STALE":
		return "S"
	case "ORPHAN":
		return "O"
	}
	return "?" + st
}

// AddOutcome submits one header through Chains.Add and classifies the answer.
func AddOutcome(s *Stack, src domains.BlockHeaderSource) (out string) {
	defer func() {
		if r := recover(); r != nil {
			if _, ok := r.(Killed); ok {
				out = "K" // the harness's own "process killed here" sentinel (C05), not a crash of the service
				return
			}
			out = "P"
		}
	}()
	h, err := s.Services.Chains.Add(src)
	if err == nil {
		if h == nil {
			return "E-nil"
		}
		return "S" + stLetter(string(h.State))
	}
	switch {
	case service.HeaderAlreadyExists.Is(err):
		return "D"
	case service.BlockRejected.Is(err):
		return "F"
	case service.HeaderCreationFail.Is(err):
		return "EC"
	case service.ChainUpdateFail.Is(err):
		return "EU"
	case service.HeaderSaveFail.Is(err):
		return "ES"
	}
	return "E?"
}

func hexOfDec(dec string) string {
	b, ok := new(big.Int).SetString(dec, 10)
	if !ok {
		return "?" + dec
	}
	return b.Text(16)
}

// StatesAndTip returns the state letters of all rows in rowid order and the tip id as the repository reports it.
func StatesAndTip(s *Stack, m *Mat) (string, int, []HeaderRow, error) {
	rows, err := s.DumpHeaders()
	if err != nil {
		return "", 0, nil, err
	}
	var sb strings.Builder
	for _, r := range rows {
		sb.WriteString(stLetter(r.State))
	}
	tip := 0
	t, terr := s.Repo.Headers.GetTip()
	if terr == nil && t != nil {
		tip = m.ID(t.Hash.String())
	} else {
		tip = -2
	}
	return sb.String(), tip, rows, nil
}

// RowsString renders raw rows as id:prev:height:work:cum:state (hex work), in rowid order.
func RowsString(rows []HeaderRow, m *Mat) string {
	parts := make([]string, 0, len(rows))
	for _, r := range rows {
		parts = append(parts, fmt.Sprintf("%d:%d:%d:%s:%s:%s", m.ID(r.Hash), m.ID(r.Prev), r.Height, hexOfDec(r.Work), hexOfDec(r.Cum), stLetter(r.State)))
	}
	return strings.Join(parts, ",")
}

// ---------------------------------------------------------------------------------------------
// generators
// ---------------------------------------------------------------------------------------------

// work classes: few distinct values so that ties are common; two zero-work encodings
var (
	bitsW2   = uint32(0x207fffff) // work 2
	bitsW4   = uint32(0x203fffff) // work 4
	bitsW8   = uint32(0x201fffff) // work 8
	bitsMain = uint32(0x1d00ffff) // work 4295032833
	bitsNeg  = uint32(0x1d800001) // negative target -> work 0
	bitsZero = uint32(0x00000000) // zero target -> work 0
)

// GenOpts steers the random history generator.
type GenOpts struct {
	N           int     // number of distinct headers
	PUnknown    float64 // probability that a header's parent is unknown
	PLate       float64 // probability that a header is delivered before its parent (orphan by order)
	PDup        float64 // probability of re-submitting an already submitted header after each step
	PForbidden  float64 // probability that some header is put on the forbidden list
	ZeroWork    bool    // allow zero-work encodings
	Positive    bool    // only positive work
	Deep        bool    // bias towards long competing branches (deep reorganisations)
	Extreme     bool    // extreme field values (C03)
	ShareMerkle bool    // some headers carry the merkle root of an earlier, different header (legal for 80-byte headers)
	Lattice     bool    // difficulty bits whose work is about 2^k for k around 31/32/63/64/127/128: cumulative work crosses the widths of machine integers
}

// LongReorgHistories: reorganisations that switch the state of more headers than any batching threshold a storage
// layer is likely to use (100, 500, 1000 bound parameters): one heavy header displacing a long light chain, a long
// branch overtaking another long branch header by header, and the reorganisation back.
func LongReorgHistories(thorough bool) []*History {
	mk := func(id, prev int, bits uint32) Sub {
		return Sub{ID: id, Prev: prev, Bits: bits, Ver: 1, Merkle: id + 100, TS: uint32(1600000000 + id), Nonce: uint32(id)}
	}
	var out []*History
	// L1: n light headers on genesis, then ONE heavy sibling of the first (demotes n, promotes 1)
	ns := []int{503, 1003}
	if thorough {
		ns = append(ns, 101, 2005)
	}
	for _, n := range ns {
		h := &History{}
		for i := 0; i < n; i++ {
			h.Subs = append(h.Subs, mk(i+2, i+1, bitsW2))
		}
		h.Subs = append(h.Subs, mk(n+2, genesisID, bitsMain))
		// ... and the light chain continued afterwards stays stale
		h.Subs = append(h.Subs, mk(n+3, n+1, bitsW2))
		h.X = []string{"sparse"}
		out = append(out, h)
	}
	// L2: branch a of n headers; branch b forks at height 5 and overtakes a with its last header (demotes n-5,
	// promotes n-4 headers in one submission); then a is extended by two and takes the chain back
	n := 507
	if thorough {
		n = 1012
	}
	h := &History{}
	for i := 0; i < n; i++ {
		h.Subs = append(h.Subs, mk(i+2, i+1, bitsW2))
	}
	base := n + 2
	prev := 6 // the header at height 5
	for i := 0; i < n-4; i++ {
		h.Subs = append(h.Subs, mk(base+i, prev, bitsW2))
		prev = base + i
	}
	h.Subs = append(h.Subs, mk(base+n, n+1, bitsW2), mk(base+n+1, base+n, bitsW2))
	h.X = []string{"sparse"}
	out = append(out, h)
	no := 120
	if thorough {
		no = 1100
	}
	fl := OrphanFloodHistory(no)
	fl.X = []string{"sparse"}
	out = append(out, fl)
	return out
}

// latticeBits: compact encodings whose work floor(2^256/(target+1)) is 2^k - 1 (target = 2^(256-k)), for the k at
// which a sum of works crosses the width of a machine integer.
var latticeBits = func() []uint32 {
	var out []uint32
	for _, k := range []int{30, 31, 32, 33, 61, 62, 63, 64, 65, 126, 127, 128, 129} {
		t := 256 - k // target = 2^t = m * 256^(e-3)
		e3 := (t - 16) / 8
		mexp := t - 8*e3
		if mexp > 22 {
			e3++
			mexp -= 8
		}
		out = append(out, uint32(e3+3)<<24|uint32(1)<<uint(mexp))
	}
	return out
}()

// OrphanFloodHistory: more orphans than any bounded "orphan pool" would keep (btcd keeps 100): three main-chain
// headers, an orphan branch of two, then n unrelated orphan roots, then a third header on the early orphan branch,
// one more main-chain header and a child of the first flood orphan - nothing stored may disappear, and the late
// orphan children get their parent's height + 1 and cumulated work.
func OrphanFloodHistory(n int) *History {
	mk := func(id, prev int, bits uint32) Sub {
		return Sub{ID: id, Prev: prev, Bits: bits, Ver: 1, Merkle: id + 100, TS: uint32(1600000000 + id), Nonce: uint32(id)}
	}
	fl := &History{}
	fl.Subs = append(fl.Subs, mk(2, 1, bitsW2), mk(3, 2, bitsW2), mk(4, 3, bitsW2), mk(50, 49, bitsW2), mk(51, 50, bitsW2))
	for i := 0; i < n; i++ {
		fl.Subs = append(fl.Subs, mk(1000+i, 5000+i, bitsW2))
	}
	fl.Subs = append(fl.Subs, mk(52, 51, bitsW2), mk(5, 4, bitsW2), mk(3000, 1000, bitsW2))
	return fl
}

// GenHistory draws a random history.
func GenHistory(r *rand.Rand, o GenOpts) *History {
	h := &History{}
	type node struct {
		id, prev int
	}
	ids := []int{genesisID}
	subs := make([]Sub, 0, o.N)
	tipish := genesisID
	branchTip := genesisID
	for k := 0; k < o.N; k++ {
		id := k + 2
		var prev int
		x := r.Float64()
		switch {
		case x < o.PUnknown:
			prev = 1000 + k
		case o.Deep && x < 0.55:
			prev = tipish
		case o.Deep && x < 0.9:
			prev = branchTip
		case x < 0.45:
			prev = ids[len(ids)-1]
		default:
			prev = ids[r.Intn(len(ids))]
		}
		var bits uint32
		y := r.Float64()
		switch {
		case o.ZeroWork && !o.Positive && y < 0.12:
			bits = bitsNeg
		case o.ZeroWork && !o.Positive && y < 0.2:
			bits = bitsZero
		case y < 0.6:
			bits = bitsW2
		case y < 0.85:
			bits = bitsW4
		case y < 0.95:
			bits = bitsW8
		default:
			bits = bitsMain
		}
		if o.Lattice && r.Intn(10) < 7 {
			bits = latticeBits[r.Intn(len(latticeBits))]
		}
		s := Sub{ID: id, Prev: prev, Bits: bits, Ver: 1, Merkle: id + 100, TS: uint32(1600000000 + k), Nonce: uint32(k)}
		if o.ShareMerkle && len(subs) > 0 && r.Intn(4) == 0 {
			s.Merkle = subs[r.Intn(len(subs))].Merkle
		}
		if o.Extreme {
			switch r.Intn(6) {
			case 0:
				s.Ver = -2147483648
			case 1:
				s.Ver = 2147483647
			case 2:
				s.Ver = int32(r.Uint32())
			}
			switch r.Intn(6) {
			case 0:
				s.Nonce = 4294967295
			case 1:
				s.Nonce = 0
			case 2:
				s.Nonce = r.Uint32()
			}
			switch r.Intn(6) {
			case 0:
				s.TS = 0
			case 1:
				s.TS = 4294967295
			case 2:
				s.TS = 2147483648
			case 3:
				s.TS = r.Uint32()
			}
			if !o.Positive && r.Intn(4) == 0 {
				s.Bits = r.Uint32()
			}
			if !o.Positive && r.Intn(5) == 0 {
				// difficulty encodings around the 256-bit boundary of the target (work 1 / work 0) and tiny targets
				edge := []uint32{0x2100ffff, 0x21008000, 0x21007fff, 0x22000080, 0x2200007f, 0x220000ff, 0x21010000, 0x23000001,
					0xff7fffff, 0x01010000, 0x02008000, 0x03000001, 0x04000001, 0x00ffffff, 0x01800000, 0x20000001}
				s.Bits = edge[r.Intn(len(edge))]
			}
		}
		subs = append(subs, s)
		ids = append(ids, id)
		if o.Deep {
			if prev == tipish {
				tipish = id
			} else if prev == branchTip || r.Intn(3) == 0 {
				branchTip = id
			}
		}
	}
	// arrival order: mostly topological; with PLate a header is moved before its parent
	order := make([]Sub, len(subs))
	copy(order, subs)
	for i := range order {
		if r.Float64() < o.PLate && i > 0 {
			j := r.Intn(i)
			order[i], order[j] = order[j], order[i]
		}
	}
	if r.Float64() < o.PForbidden && len(subs) > 0 {
		h.Forbidden = append(h.Forbidden, subs[r.Intn(len(subs))].ID)
		// the configured list has several entries (main net: 4): the entry that is hit is not always the first
		switch r.Intn(3) {
		case 0:
			h.Forbidden = append([]int{9001, 9002}[:1+r.Intn(2)], h.Forbidden...) // ids nobody submits
		case 1:
			if x := subs[r.Intn(len(subs))].ID; x != h.Forbidden[0] {
				h.Forbidden = append(h.Forbidden, x)
			}
			h.Forbidden = append(h.Forbidden, 9003)
		}
	}
	for i, s := range order {
		h.Subs = append(h.Subs, s)
		if r.Float64() < o.PDup {
			h.Subs = append(h.Subs, order[r.Intn(i+1)])
		}
	}
	return h
}

// ExhaustiveHistories enumerates all trees over n headers (parent = genesis, any earlier header, or unknown),
// all assignments of the given work classes and all arrival orders.
func ExhaustiveHistories(n int, bitsClasses []uint32, f func(*History)) {
	parents := make([]int, n)
	bits := make([]int, n)
	perm := make([]int, n)
	var recBits func(k int)
	var recPar func(k int)
	permute := func() {
		for i := range perm {
			perm[i] = i
		}
		var rec func(k int)
		rec = func(k int) {
			if k == n {
				h := &History{}
				for _, idx := range perm {
					h.Subs = append(h.Subs, Sub{ID: idx + 2, Prev: parents[idx], Bits: bitsClasses[bits[idx]], Ver: 1, Merkle: idx + 102, TS: uint32(1600000000 + idx), Nonce: uint32(idx)})
				}
				f(h)
				return
			}
			for i := k; i < n; i++ {
				perm[k], perm[i] = perm[i], perm[k]
				rec(k + 1)
				perm[k], perm[i] = perm[i], perm[k]
			}
		}
		rec(0)
	}
	recBits = func(k int) {
		if k == n {
			permute()
			return
		}
		for b := range bitsClasses {
			bits[k] = b
			recBits(k + 1)
		}
	}
	recPar = func(k int) {
		if k == n {
			recBits(0)
			return
		}
		opts := []int{genesisID}
		for j := 0; j < k; j++ {
			opts = append(opts, j+2)
		}
		opts = append(opts, 1000+k)
		for _, p := range opts {
			parents[k] = p
			recPar(k + 1)
		}
	}
	recPar(0)
}

// HistoryClass gives coarse classes of a history for the input-distribution histogram.
func HistoryClass(h *History) []string {
	var cl []string
	kids := map[int]int{}
	seen := map[int]bool{}
	dup, late, unk, zero := false, false, false, false
	defined := map[int]bool{genesisID: true}
	for _, s := range h.Subs {
		defined[s.ID] = true
	}
	arrived := map[int]bool{genesisID: true}
	for _, s := range h.Subs {
		if seen[s.ID] {
			dup = true
			continue
		}
		seen[s.ID] = true
		kids[s.Prev]++
		if !defined[s.Prev] {
			unk = true
		} else if !arrived[s.Prev] {
			late = true
		}
		arrived[s.ID] = true
		if s.Bits == bitsNeg || s.Bits == bitsZero {
			zero = true
		}
	}
	fork := false
	for _, c := range kids {
		if c > 1 {
			fork = true
		}
	}
	if fork {
		cl = append(cl, "fork")
	} else {
		cl = append(cl, "linear")
	}
	if dup {
		cl = append(cl, "duplicate")
	}
	if late {
		cl = append(cl, "parent-arrives-later")
	}
	if unk {
		cl = append(cl, "unknown-parent")
	}
	if zero {
		cl = append(cl, "zero-work")
	}
	if len(h.Forbidden) > 0 {
		cl = append(cl, "forbidden")
	}
	sort.Strings(cl)
	return cl
}
