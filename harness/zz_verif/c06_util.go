//go:build verif

package main

// scenario-building helpers shared by the C06 and C07 runners

// linearSubs builds ids first..first+n-1 chained after prev.
func linearSubs(first, prev, n int, bits uint32, tsBase uint32) []Sub {
	out := make([]Sub, 0, n)
	for i := 0; i < n; i++ {
		id := first + i
		out = append(out, Sub{ID: id, Prev: prev, Bits: bits, Ver: 1, Merkle: id + 100, TS: tsBase + uint32(id), Nonce: uint32(id)})
		prev = id
	}
	return out
}

func seqInts(first, n int) []int {
	out := make([]int, n)
	for i := range out {
		out[i] = first + i
	}
	return out
}

func catInts(ls ...[]int) []int {
	var out []int
	for _, l := range ls {
		out = append(out, l...)
	}
	return out
}

const (
	tsOld = uint32(1600000000) // far in the past of rigNow: never "current"
	tsNew = uint32(4000000000) // far in the future of rigNow: always "current"
)

// forkUniverse: prefix ids 2..a+1 after genesis, good branch ids 100.., bad branch ids 200.. (both after the prefix tip).
func forkUniverse(a, good, bad int, ts uint32) (u *History, pre, g, b []int) {
	u = &History{}
	tip := genesisID
	if a > 0 {
		u.Subs = append(u.Subs, linearSubs(2, genesisID, a, bitsW2, ts)...)
		tip = a + 1
	}
	u.Subs = append(u.Subs, linearSubs(100, tip, good, bitsW2, ts)...)
	u.Subs = append(u.Subs, linearSubs(200, tip, bad, bitsW2, ts)...)
	return u, seqInts(2, a), seqInts(100, good), seqInts(200, bad)
}

