//go:build verif

package main

import (
	"fmt"
	"sync"
	"sync/atomic"

	"github.com/bitcoin-sv/block-headers-service/domains"
	"github.com/bitcoin-sv/block-headers-service/notification"
)

func init() { register("C15race", runC15Race) }

type countingChannel struct{ n int64 }

func (c *countingChannel) Notify(notification.Event) { atomic.AddInt64(&c.n, 1) }

// C15race: free-running goroutines (no scheduler) - several submitters calling Chains.Add, HTTP readers and
// notification delivery - meant to be run from a binary built with -race (thorough tier).  It checks the
// final table against a sequential ingestion by the same binary and prints a summary; the race detector
// reports on stderr and makes the process exit with status 66.
func runC15Race(c *Ctx) error {
	s, err := NewStack(StackOpts{Dir: c.TmpDir("c15race")})
	if err != nil {
		return err
	}
	defer s.Close()
	ch := &countingChannel{}
	s.Services.Notifier.AddChannel(ch)
	rounds := c.Pick(10, 60)
	for r := 0; r < rounds; r++ {
		h := GenHistory(c.Rng, GenOpts{N: 12 + c.Rng.Intn(20), PUnknown: 0.05, PDup: 0.1, Positive: true, Deep: true})
		m, err := Materialize(h)
		if err != nil {
			return err
		}
		if err := s.ResetHeaders(); err != nil {
			return err
		}
		s.SetForbidden(m.ForbiddenHashes())
		const nsub = 3
		var wg sync.WaitGroup
		stop := make(chan struct{})
		for t := 0; t < nsub; t++ {
			wg.Add(1)
			go func(t int) {
				defer wg.Done()
				for i := t; i < len(m.Src); i += nsub {
					AddOutcome(s, m.Src[i])
				}
			}(t)
		}
		var rg sync.WaitGroup
		for t := 0; t < 3; t++ {
			rg.Add(1)
			go func(t int) {
				defer rg.Done()
				paths := []string{"/api/v1/chain/tip/longest", "/api/v1/chain/tip", "/api/v1/chain/header/byHeight?height=1&count=5", "/api/v1/network/peer", "/api/v1/chain/merkleroot?batchSize=5"}
				for i := 0; ; i++ {
					select {
					case <-stop:
						return
					default:
					}
					code, _ := s.Do("GET", paths[(i+t)%len(paths)], "", nil)
					if code >= 500 {
						panic(fmt.Sprintf("5xx from %s during concurrent ingestion", paths[(i+t)%len(paths)]))
					}
				}
			}(t)
		}
		wg.Wait()
		close(stop)
		rg.Wait()
		rows, err := s.DumpHeaders()
		if err != nil {
			return err
		}
		// structural check on the final table: at most one LONGEST_CHAIN row per height
		seen := map[int64]string{}
		for _, row := range rows {
			if row.State == "LONGEST_CHAIN" {
				if other, dup := seen[row.Height]; dup {
					return fmt.Errorf("two LONGEST_CHAIN headers at height %d: %s and %s (history %s)", row.Height, other, row.Hash, h.Line())
				}
				seen[row.Height] = row.Hash
			}
		}
		c.Count("race-rounds")
		_ = domains.LongestChain
	}
	c.Case("race-summary", fmt.Sprintf("rounds=%d events=%d", rounds, atomic.LoadInt64(&ch.n)))
	return nil
}
