//go:build verif

package main

import (
	"errors"
	"fmt"
	"io"
	"net"
	"strconv"
	"strings"
	"sync"
	"time"

	"github.com/bitcoin-sv/block-headers-service/transports/p2p"
	"github.com/bitcoin-sv/block-headers-service/transports/p2p/connmgr"
)

// Wired cases: the REAL server (server.Start -> peerHandler, sync manager, address manager, query path)
// wired to the REAL connection manager through the server's own callbacks, exactly as newServer wires
// them; only Dial / GetNewAddress are the harness's (in-memory connections, scripted remote side).
//
// head:   wr t=<TargetOutbound> mf=<connmgr.maxFailedAttempts>
// events: N0   the oldest blocked GetNewAddress call gets a fresh address, its dial succeeds, and the
//              remote closes the connection BEFORE sending its version
//         N1   same, the remote sends its version and closes before its verack
//         N3   same, the remote sends version and verack and closes right after
//         N2   same, the handshake completes and the connection stays up
//         N4   same, but the remote sends its version TWICE, then its verack, and keeps the connection
//              open (a second version is a protocol violation: the peer has to drop the connection)
//         N5   same, the remote sends its version twice and closes
//         F    the oldest blocked GetNewAddress call gets a fresh address and its dial is refused
//         X<k> the remote closes the (k mod live)-th oldest live connection
// After an event the harness waits (bounded) for the reaction the system owes: a replacement request
// (a new GetNewAddress call) when a connection died or a dial failed, one more connected peer for N2.
//
// observable: "<tag>:o<open connections>/w<blocked GetNewAddress calls>/c<server.ConnectedCount()>
// /n<Dial calls>/g<sum of server.OutboundGroupCount over the groups dialled>" per event, preceded by "s:" (after Start) and followed by "e:" (after a settling
// period).  tag: the event's first letter, "-" nothing to apply it to, "!" reaction missing.

type c18WrConn struct {
	f      *c18WrFix
	mu     sync.Mutex
	data   []byte
	closed chan struct{}
	once   sync.Once
	raddr  *net.TCPAddr
	live   bool // handshake completes and the connection is meant to stay
}

func (c *c18WrConn) Read(b []byte) (int, error) {
	c.mu.Lock()
	if len(c.data) > 0 {
		n := copy(b, c.data)
		c.data = c.data[n:]
		c.mu.Unlock()
		return n, nil
	}
	c.mu.Unlock()
	if !c.live {
		return 0, io.EOF // the remote closed after what it sent
	}
	<-c.closed
	return 0, io.EOF
}
func (c *c18WrConn) Write(b []byte) (int, error) {
	select {
	case <-c.closed:
		return 0, io.ErrClosedPipe
	default:
		return len(b), nil
	}
}
func (c *c18WrConn) Close() error                       { c.once.Do(func() { close(c.closed) }); return nil }
func (c *c18WrConn) LocalAddr() net.Addr                { return &net.TCPAddr{IP: net.IPv4(127, 0, 0, 1), Port: 1} }
func (c *c18WrConn) RemoteAddr() net.Addr               { return c.raddr }
func (c *c18WrConn) SetDeadline(t time.Time) error      { return nil }
func (c *c18WrConn) SetReadDeadline(t time.Time) error  { return nil }
func (c *c18WrConn) SetWriteDeadline(t time.Time) error { return nil }
func (c *c18WrConn) isClosed() bool {
	select {
	case <-c.closed:
		return true
	default:
		return false
	}
}

type c18WrDial struct {
	ok    bool
	stage int
}

type c18WrFix struct {
	mu       sync.Mutex
	w        *p2p.VerifC18Wired
	quit     chan struct{}
	getWait  []chan *net.TCPAddr
	plan     map[string]c18WrDial // address -> what its dial does
	getCalls int
	dials    int
	conns    []*c18WrConn
	nonce    uint64
}

func (f *c18WrFix) wait(pred func() bool, bound time.Duration) bool {
	deadline := time.Now().Add(bound)
	for i := 0; ; i++ {
		f.mu.Lock()
		ok := pred()
		f.mu.Unlock()
		if ok {
			return true
		}
		if time.Now().After(deadline) {
			return false
		}
		if i < 200 {
			time.Sleep(20 * time.Microsecond)
		} else {
			time.Sleep(500 * time.Microsecond)
		}
	}
}

var c18WrTimeouts int

func c18RunWr(head []string, evs []string, st *Stack) (obs string) {
	target := c18Head(head, "t", 0)
	if c18Head(head, "mf", -1) != connmgr.VerifC18MaxFailedAttempts {
		return fmt.Sprintf("LIMITS mf=%d", connmgr.VerifC18MaxFailedAttempts)
	}
	if target < 1 || target > 8 {
		return "BAD-INPUT"
	}
	f := &c18WrFix{quit: make(chan struct{}), plan: map[string]c18WrDial{}, nonce: uint64(time.Now().UnixNano())}
	w, err := p2p.VerifC18NewWired(p2p.VerifC18WiredCfg{
		Services: st.Services,
		Target:   target,
		Retry:    2 * time.Millisecond,
		GetNewAddress: func() (net.Addr, error) {
			ch := make(chan *net.TCPAddr, 1)
			f.mu.Lock()
			f.getCalls++
			f.getWait = append(f.getWait, ch)
			f.mu.Unlock()
			select {
			case a := <-ch:
				return a, nil
			case <-f.quit:
				return nil, errors.New("fixture closed")
			}
		},
		Dial: func(a net.Addr) (net.Conn, error) {
			f.mu.Lock()
			defer f.mu.Unlock()
			f.dials++
			pl := f.plan[a.String()]
			if !pl.ok {
				return nil, errors.New("connection refused")
			}
			ta := a.(*net.TCPAddr)
			c := &c18WrConn{f: f, closed: make(chan struct{}), raddr: ta, live: pl.stage == 2 || pl.stage == 4}
			f.nonce += 100
			var data []byte
			var err error
			if pl.stage >= 4 {
				data, err = f.w.RemoteHandshakeN(ta.IP, ta.Port, f.nonce, 2, pl.stage == 4)
			} else {
				data, err = f.w.RemoteHandshake(ta.IP, ta.Port, f.nonce, pl.stage >= 1, pl.stage >= 2)
			}
			if err != nil {
				return nil, err
			}
			c.data = data
			if pl.stage == 0 {
				_ = c.Close() // the remote hangs up at once
			}
			f.conns = append(f.conns, c)
			return c, nil
		},
	})
	if err != nil {
		return "ERR " + err.Error()
	}
	f.w = w
	bound := c18CmBound
	waitf := func(pred func() bool) bool {
		b := bound
		if c18WrTimeouts >= 3 {
			b = 150 * time.Millisecond
		}
		ok := f.wait(pred, b)
		if !ok {
			c18WrTimeouts++
		}
		return ok
	}
	digest := func() string {
		cc := w.ConnectedCount(2 * time.Second)
		gg := w.OutboundGroups([]string{"45.10.0.0", "45.11.0.0"}, 2*time.Second)
		f.mu.Lock()
		defer f.mu.Unlock()
		open := 0
		for _, c := range f.conns {
			if !c.isClosed() {
				open++
			}
		}
		return fmt.Sprintf("o%d/w%d/c%d/n%d/g%d", open, len(f.getWait), cc, f.dials, gg)
	}
	defer func() {
		if r := recover(); r != nil {
			obs = fmt.Sprintf("PANIC %v", r)
		}
		done := make(chan struct{})
		go func() { w.Stop(); close(done) }()
		time.Sleep(200 * time.Microsecond)
		close(f.quit)
		select {
		case <-done:
		case <-time.After(5 * time.Second):
		}
		f.mu.Lock()
		for _, c := range f.conns {
			_ = c.Close()
		}
		f.mu.Unlock()
	}()
	if err := w.Start(); err != nil {
		return "ERR " + err.Error()
	}
	var out []string
	tag := "s"
	if !waitf(func() bool { return len(f.getWait) >= target }) {
		tag = "!"
	}
	out = append(out, tag+":"+digest())
	seq := 0
	release := func(ok bool, stage int) bool {
		f.mu.Lock()
		if len(f.getWait) == 0 {
			f.mu.Unlock()
			return false
		}
		ch := f.getWait[0]
		f.getWait = f.getWait[1:]
		seq++
		a := &net.TCPAddr{IP: net.IPv4(45, byte(10+seq/200), byte(1+seq%200), 9), Port: 8333}
		f.plan[a.String()] = c18WrDial{ok: ok, stage: stage}
		f.mu.Unlock()
		ch <- a
		return true
	}
	for _, e := range evs {
		tag := "?"
		f.mu.Lock()
		g0 := f.getCalls
		f.mu.Unlock()
		okw := true
		switch {
		case e == "N4":
			c0 := w.ConnectedCount(2 * time.Second)
			if !release(true, 4) {
				tag = "-"
				break
			}
			// either the peer drops the connection (replacement request) or it keeps it (one more
			// connected peer): wait for whichever happens, then let the dust settle
			deadline := time.Now().Add(bound)
			okw = false
			for time.Now().Before(deadline) {
				f.mu.Lock()
				rep := f.getCalls > g0
				f.mu.Unlock()
				if rep || w.ConnectedCount(2*time.Second) > c0 {
					okw = true
					break
				}
				time.Sleep(100 * time.Microsecond)
			}
			time.Sleep(3 * time.Millisecond)
			tag = "N"
		case e == "N0" || e == "N1" || e == "N3" || e == "N5" || e == "F":
			stage := 0
			if e[0] == 'N' {
				stage = int(e[1] - '0')
			}
			if !release(e[0] == 'N', stage) {
				tag = "-"
				break
			}
			// the connection dies (or the dial fails): a replacement request must show up
			okw = waitf(func() bool { return f.getCalls > g0 })
			tag = e[:1]
		case e == "N2":
			c0 := w.ConnectedCount(2 * time.Second)
			if !release(true, 2) {
				tag = "-"
				break
			}
			deadline := time.Now().Add(bound)
			okw = false
			for time.Now().Before(deadline) {
				if w.ConnectedCount(2*time.Second) > c0 {
					okw = true
					break
				}
				time.Sleep(100 * time.Microsecond)
			}
			tag = "N"
		case len(e) >= 2 && e[0] == 'X':
			k, err := strconv.Atoi(e[1:])
			if err != nil || k < 0 {
				break
			}
			f.mu.Lock()
			var live []*c18WrConn
			for _, c := range f.conns {
				if c.live && !c.isClosed() {
					live = append(live, c)
				}
			}
			f.mu.Unlock()
			if len(live) == 0 {
				tag = "-"
				break
			}
			_ = live[k%len(live)].Close() // remote side goes away
			okw = waitf(func() bool { return f.getCalls > g0 })
			tag = "X"
		}
		if !okw {
			tag = "!"
		}
		out = append(out, tag+":"+digest())
	}
	time.Sleep(8 * time.Millisecond)
	out = append(out, "e:"+digest())
	return strings.Join(out, " ")
}

func c18GenWr(c *Ctx, st *Stack) error {
	mf := connmgr.VerifC18MaxFailedAttempts
	seen := map[string]bool{}
	emit := func(t int, evs []string, class string) {
		head := fmt.Sprintf("wr t=%d mf=%d", t, mf)
		in := head + ";" + strings.Join(evs, ";")
		if seen[in] {
			return
		}
		seen[in] = true
		c.Case(in, c18RunWr(strings.Fields(head), evs, st))
		c.Count("wr:" + class)
	}
	// a connection closing at each handshake stage, TargetOutbound times in a row, then recovery
	for t := 1; t <= 3; t++ {
		for _, st0 := range []string{"N0", "N1", "N3", "N4", "N5", "F"} {
			var evs []string
			for i := 0; i < t+1; i++ {
				evs = append(evs, st0)
			}
			for i := 0; i < t; i++ {
				evs = append(evs, "N2")
			}
			evs = append(evs, "X0", st0, "N2")
			emit(t, evs, "stage-"+st0)
		}
	}
	alpha := []string{"N0", "N1", "N2", "N2", "N3", "N4", "N5", "F", "X0", "X1"}
	for i, n := 0, c.Pick(24, 600); i < n; i++ {
		t := 1 + c.Rng.Intn(3)
		var evs []string
		for k, m := 0, 5+c.Rng.Intn(10); k < m; k++ {
			evs = append(evs, alpha[c.Rng.Intn(len(alpha))])
		}
		for k := 0; k < t; k++ {
			evs = append(evs, "N2")
		}
		emit(t, evs, "random")
	}
	return nil
}
