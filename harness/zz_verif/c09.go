//go:build verif

package main

import (
	"crypto/md5"
	"crypto/sha1"
	"crypto/sha256"
	"encoding/base64"
	"encoding/hex"
	"encoding/json"
	"fmt"
	"os"
	"path/filepath"
	"sort"
	"strings"
	"time"

	"github.com/bitcoin-sv/block-headers-service/config"
	"github.com/bitcoin-sv/block-headers-service/metrics"
)

func init() {
	register("C09", runC09)
	registerDump("Routes", dumpRoutes)
}

// C09: every API route is mediated by authentication; admin routes by the admin token.
//
// input : "cfg=<a><p><m> <METHOD> <route pattern> H-"             (no Authorization header)
//         "cfg=<a><p><m> <METHOD> <route pattern> H=<template>"   (header present; the template is
//          everything after "H=", verbatim, with $A = admin token, $U = an issued token, $R = a token that was
//          issued, used successfully and then revoked, $X = a never issued value)
//         a = use_auth, p = profiling endpoints, m = metrics, an optional 4th character 'f' = the token store
//         fails (SELECT on the tokens table returns a storage error) during the request; optional "~U" / "~X" / "~R" =
//         the request is made while an authenticate (GET /api/v1/access) of that token is held inside the token
//         repository (its lookup has returned), "~sU" / "~sX" / "~sR" = while every SQL statement is made to wait (the
//         connection pool is held) and an authenticate of that token is already waiting; optional "@<src>=<value>" = the configured admin token, percent-encoded, <src> = e (environment) / f (config
//         file) - both through the real SetDefaults + LoadFlags + Load in a child process - or d (directly);
//         the route pattern is the one of engine.Routes() (parameters are instantiated by the harness).
// obs   : "pass"                                   the request was not answered 401
//         "401 <code> unchanged|CHANGED(<tables>)"  structured 401 (code of the JSON body) and whether the
//                                                   tokens / webhooks / headers tables changed across the request
//         "401 UNSTRUCTURED ..."                    401 whose body is not {"code":..,"message":..}
//         in a "~" configuration followed by " bg=pass" / " bg=401:<code>", the answer of the held request

type c09Cfg struct {
	auth, prof, met, fail bool
	empty                 bool   // no token is issued in the fixture: the tokens table is empty
	over                  string // "U" / "X" / "R": the request is made while a lookup of that token is in flight
	admin                 string // configured admin token ("" = the default); the literal the operator configured
	lite                  bool   // (not part of the name) only a small credential matrix is run in this configuration
	adminSrc              string // how: "e" environment, "f" config file (both through the real config loading
	//                              in a child process), "d" written into the AppConfig directly
}

func (k c09Cfg) String() string {
	b := func(x bool) string {
		if x {
			return "1"
		}
		return "0"
	}
	out := b(k.auth) + b(k.prof) + b(k.met)
	if k.fail {
		out += "f"
	}
	if k.empty {
		out += "e"
	}
	if k.over != "" {
		out += "~" + k.over
	}
	if k.admin != "" {
		src := k.adminSrc
		if src == "" {
			src = "d"
		}
		out += "@" + src + "=" + pctEncode(k.admin)
	}
	return out
}

// plain: one of the configurations whose routing table goes into coq/gen/Routes.v
func (k c09Cfg) plain() bool { return k.over == "" && k.admin == "" && !k.empty }

// metrics cannot be switched off again in one process (package-level state of /repo/metrics), hence the order
func c09Configs() []c09Cfg {
	var out []c09Cfg
	for _, m := range []bool{false, true} {
		for _, a := range []bool{false, true} {
			for _, p := range []bool{false, true} {
				out = append(out, c09Cfg{auth: a, prof: p, met: m})
			}
		}
		// the same routes while every token lookup FAILS with a storage error (the tokens table is made unavailable
		// for the duration of each request): authentication must fail closed, the admin token must still work
		out = append(out, c09Cfg{auth: true, met: m, fail: true})
		if !m {
			// overlapping authentications: the request is made while the lookup of another token is held inside
			// the token repository (the verdict must depend on the request's own token only)
			out = append(out, c09Cfg{auth: true, empty: true}) // nothing issued yet
			for _, o := range []string{"U", "X", "R", "sU", "sX", "sR"} {
				out = append(out, c09Cfg{auth: true, over: o})
			}
			// the admin token is configuration: shorter / as long as / longer than issued tokens, other characters
			for i, adm := range adminTokenVariants() {
				out = append(out, c09Cfg{auth: true, admin: adm, adminSrc: []string{"e", "f"}[i%2]})
				if strings.Contains(adm, "$") { // a literal '$': through both sources
					out = append(out, c09Cfg{auth: true, admin: adm, adminSrc: []string{"f", "e"}[i%2], lite: true})
				}
			}
		}
	}
	return out
}

type c09Route struct{ Method, Path string }

var c09Pause = &tokPauser{}

// set by c09Build when the service's configuration loading failed for the configured admin token
var c09CfgLoadFailure string

func c09Build(k c09Cfg, dir string) (*FullStack, []c09Route, error) {
	if k.met {
		if _, on := metrics.Get(); !on {
			metrics.EnableMetrics()
		}
	} else if _, on := metrics.Get(); on {
		return nil, nil, fmt.Errorf("metrics already enabled in this process; metrics-off configuration %s cannot be built", k)
	}
	var mutate func(*config.AppConfig)
	c09CfgLoadFailure = ""
	if k.admin != "" {
		// the stack gets the value the service's own configuration loading yields for the configured literal
		eff, ok := effectiveAdminToken(os.TempDir(), k.admin, k.adminSrc)
		if !ok {
			c09CfgLoadFailure, eff = eff, k.admin
		}
		mutate = func(cf *config.AppConfig) { cf.HTTP.AuthToken = eff }
	}
	s, err := NewStack(StackOpts{Dir: dir, UseAuth: k.auth, Profiling: k.prof, Mutate: mutate})
	if err != nil {
		return nil, nil, err
	}
	c09Pause.install(s) // scheduling point in the token repository (used by the overlap configurations)
	s.Cfg.HTTP.ProfilingEndpointsEnabled = k.prof
	s.Cfg.Metrics.Enabled = k.met
	fs, err := NewFullStack(s, FullOpts{Websocket: true})
	if err != nil {
		s.Close()
		return nil, nil, err
	}
	var rs []c09Route
	for _, r := range s.Engine.Routes() {
		rs = append(rs, c09Route{r.Method, r.Path})
	}
	sort.Slice(rs, func(i, j int) bool {
		if rs[i].Path != rs[j].Path {
			return rs[i].Path < rs[j].Path
		}
		return rs[i].Method < rs[j].Method
	})
	return fs, rs, nil
}

func coqStr(s string) string { return "\"" + strings.ReplaceAll(s, "\"", "\"\"") + "\"" }

// dumpRoutes regenerates coq/gen/Routes.v: the routing table of every configuration.
func dumpRoutes() (string, error) {
	dir, err := os.MkdirTemp("", "c09-dump")
	if err != nil {
		return "", err
	}
	defer os.RemoveAll(dir)
	var sb strings.Builder
	sb.WriteString("(* routing tables (engine.Routes(), sorted by path then method) of the gin engine wired as cmd/main.go wires it\n")
	sb.WriteString("   (metrics.Register, endpoints.SetupRoutes, websocket SetupEntrypoint) for use_auth x profiling x metrics *)\n")
	sb.WriteString("From Coq Require Import String List.\nImport ListNotations.\nOpen Scope string_scope.\n\n")
	var names []string
	for i, k := range c09Configs() {
		if !k.plain() {
			continue
		}
		fs, rs, err := c09Build(k, filepath.Join(dir, fmt.Sprint(i)))
		if err != nil {
			return "", err
		}
		fs.Shutdown()
		name := "routes_" + k.String()
		names = append(names, fmt.Sprintf("  ((%v, %v, %v), %s)", k.auth, k.prof, k.met, name))
		fmt.Fprintf(&sb, "(* use_auth=%v profiling=%v metrics=%v *)\nDefinition %s : list (string * string) := [\n", k.auth, k.prof, k.met, name)
		for j, r := range rs {
			sep := ";"
			if j == len(rs)-1 {
				sep = ""
			}
			fmt.Fprintf(&sb, "  (%s, %s)%s\n", coqStr(r.Method), coqStr(r.Path), sep)
		}
		sb.WriteString("].\n\n")
	}
	sb.WriteString("(* ((use_auth, profiling, metrics), routes) *)\n")
	sb.WriteString("Definition all_configs : list (bool * bool * bool * list (string * string)) := [\n" + strings.Join(names, ";\n") + "\n].\n")
	return sb.String(), nil
}

// ---- credentials ----

type c09Cred struct{ hdr, class string } // hdr: "-" absent, "=<template>" present

// $R (class "revoked") is a token that was issued, used successfully and then revoked, see open()
var c09Creds = []c09Cred{
	{"-", "none"}, {"=", "empty"},
	{"=Bearer $A", "admin"}, {"=Bearer $U", "user"}, {"=Bearer $R", "revoked"}, {"=Bearer $X", "unknown"},
	{"=Bearer $A$U", "unknown"}, {"=Bearer $U.", "unknown"},
	{"=Bearer", "no-token"}, {"=Bearer ", "no-token"}, {"= ", "no-token"},
	{"=Bearer  $U", "extra-parts"}, {"=Bearer $U ", "extra-parts"}, {"= Bearer $U", "extra-parts"},
	{"=Bearer $U $U", "extra-parts"}, {"=Bearer $A x", "extra-parts"}, {"=Bearer $A ", "extra-parts"},
	{"=bearer $A", "wrong-scheme"}, {"=BEARER $U", "wrong-scheme"}, {"=Basic $A", "wrong-scheme"},
	{"=Token $U", "wrong-scheme"}, {"=$A", "wrong-scheme"}, {"=$U", "wrong-scheme"}, {"=Bearer$A", "wrong-scheme"},
	{"=Bearer: $A", "wrong-scheme"}, {"=$A Bearer", "wrong-scheme"},
}

// c09SQLMeta: credentials made of SQL meta characters (no blank needed): quotes, comment markers, UNION, ';', '--',
// percent-encoded quotes (decoded nowhere), a NUL byte.  None is a credential, whatever is in the tokens table.
var c09SQLMeta = []c09Cred{
	{"=Bearer x'OR'1'='1", "sql-meta"}, {"=Bearer x'UNION/**/SELECT'made-up','2024-01-01", "sql-meta"},
	{"=Bearer x'UNION/**/SELECT/**/token,created_at/**/FROM/**/tokens--", "sql-meta"},
	{"=Bearer '", "sql-meta"}, {"=Bearer ''", "sql-meta"}, {"=Bearer $U'--", "sql-meta"}, {"=Bearer $U';--", "sql-meta"},
	{"=Bearer $X'OR(token)LIKE'%", "sql-meta"}, {"=Bearer x'/*", "sql-meta"}, {"=Bearer x\"OR\"1\"=\"1", "sql-meta"},
	{"=Bearer %27OR%271%27=%271", "sql-meta"}, {"=Bearer x';DELETE/**/FROM/**/tokens;--", "sql-meta"},
	{"=Bearer x'OR/**/1=1--", "sql-meta"}, {"=Bearer x\\'OR\\'1\\'=\\'1", "sql-meta"}, {"=Bearer ${rawnul:U}", "sql-meta"},
	{"=Bearer x'OR'1'='1'/*", "sql-meta"}, {"=Bearer $U'/**/OR/**/'1", "sql-meta"},
}

type c09Env struct {
	c          *Ctx
	k          c09Cfg
	fs         *FullStack
	routes     []c09Route
	A, U, R, X string
	D          string // a sacrificial issued token: the target of DELETE /access/:token requests
	nhook      int
	setup      []string // fixture steps of the current configuration that failed
	dTokens    string
}

const c09Victim = "http://c09.invalid/victim"

// prepare makes the request "effective": if the handler of a state-changing route ran, a table would change.
// Returns the concrete path (+query) and body for the route pattern.
func (e *c09Env) prepare(method, pattern string) (target, body string) {
	target = c09Concrete(pattern)
	if method == "POST" || method == "PUT" || method == "PATCH" {
		body = "{}"
	}
	switch {
	case pattern == "/api/v1/access/:token" && method == "DELETE" && e.k.empty:
		target = "/api/v1/access/" + c10Unknown("emptyD")
	case pattern == "/api/v1/access/:token" && method == "DELETE":
		if e.D == "" || e.fs.TableDigest("tokens") != e.dTokens {
			if t, err := e.fs.Services.Tokens.GenerateToken(); err == nil && t != nil {
				e.D = t.Token
			}
			e.dTokens = e.fs.TableDigest("tokens")
		}
		target = "/api/v1/access/" + e.D
	case pattern == "/api/v1/webhook" && method == "POST":
		e.nhook++
		body = fmt.Sprintf(`{"url":"http://c09.invalid/hook-%d","requiredAuth":{"type":"BEARER","token":"t","header":"h"}}`, e.nhook)
	case pattern == "/api/v1/webhook" && method == "DELETE":
		_, _ = e.fs.Services.Webhooks.CreateWebhook("BEARER", "h", "t", c09Victim)
		target += "?url=" + c09Victim
	case pattern == "/api/v1/webhook" && method == "GET":
		target += "?url=" + c09Victim
	}
	return target, body
}

func (e *c09Env) subst(t string) string {
	// derived values first: ${<fn>:<T>} with T in {A, U}
	for strings.Contains(t, "${") {
		i := strings.Index(t, "${")
		j := strings.Index(t[i:], "}")
		if j < 0 {
			break
		}
		p := strings.SplitN(t[i+2:i+j], ":", 2)
		v := "BAD-TEMPLATE"
		if len(p) == 2 {
			v = e.derive(p[0], p[1])
		}
		t = t[:i] + v + t[i+j+1:]
	}
	return strings.NewReplacer("$A", e.A, "$U", e.U, "$R", e.R, "$X", e.X).Replace(t)
}

// c09Derivations: values DERIVED from a valid credential (an issued token U, the admin token A) - none of them is
// a credential: digests and encodings of it, case changes, reversal, neighbours, the row's other identifiers.
var c09Derivations = []string{"sha256", "sha1", "md5", "sha256up", "b64", "b64url", "hex", "upper", "lower", "rev",
	"nul", "nl", "pre", "suf", "dbl", "rowid", "quoted", "sha256sha256", "rawnul", "rawnulx"}

func (e *c09Env) derive(fn, which string) string {
	v := e.U
	if which == "A" {
		v = e.A
	}
	if which == "X" {
		v = e.X
	}
	if strings.HasPrefix(fn, "pad") { // the value padded to n bytes (a bearer value of that length)
		n := 0
		fmt.Sscanf(fn[3:], "%d", &n)
		if n > len(v) {
			return v + strings.Repeat("p", n-len(v))
		}
		return v + "p"
	}
	switch fn {
	case "sha256":
		h := sha256.Sum256([]byte(v))
		return hex.EncodeToString(h[:])
	case "sha256up":
		h := sha256.Sum256([]byte(v))
		return strings.ToUpper(hex.EncodeToString(h[:]))
	case "sha256sha256":
		h := sha256.Sum256([]byte(v))
		h2 := sha256.Sum256([]byte(hex.EncodeToString(h[:])))
		return hex.EncodeToString(h2[:])
	case "sha1":
		h := sha1.Sum([]byte(v))
		return hex.EncodeToString(h[:])
	case "md5":
		h := md5.Sum([]byte(v))
		return hex.EncodeToString(h[:])
	case "b64":
		return base64.StdEncoding.EncodeToString([]byte(v))
	case "b64url":
		return base64.RawURLEncoding.EncodeToString([]byte(v))
	case "hex":
		return hex.EncodeToString([]byte(v))
	case "upper":
		return strings.ToUpper(v)
	case "lower":
		return strings.ToLower(v)
	case "rev":
		b := []byte(v)
		for i, j := 0, len(b)-1; i < j; i, j = i+1, j-1 {
			b[i], b[j] = b[j], b[i]
		}
		return string(b)
	case "nul":
		return v + "%00"
	case "rawnul":
		return v + "\x00"
	case "rawnulx":
		return v + "\x00x"
	case "nl":
		return v + "%0A"
	case "pre":
		if len(v) > 1 {
			return v[:len(v)-1]
		}
		return v + "p"
	case "suf":
		return v + "0"
	case "dbl":
		return v + v
	case "quoted":
		return "\"" + v + "\""
	case "rowid":
		var id int64
		if err := e.fs.DB.Get(&id, `SELECT rowid FROM tokens ORDER BY rowid LIMIT 1`); err != nil {
			return "norow"
		}
		return fmt.Sprint(id)
	}
	return "BAD-DERIVATION"
}

// c09Spellings: non-canonical spellings of a concrete request path (applied to the part before '?').
var c09Spellings = []string{"lead2", "ds1", "ds2", "ds3", "ds4", "ds5", "dot0", "dot2", "up0", "up2", "trail",
	"pslash", "pletter", "plast", "upper", "upapi", "title", "bslash"}

// spell returns the spelling of path p, or "" when it does not apply / changes nothing.
func c09Spell(id, p string) string {
	seg := strings.Split(p, "/") // "", "api", "v1", ...
	join := func(s []string) string { return strings.Join(s, "/") }
	out := p
	switch {
	case id == "lead2":
		out = "/" + p
	case strings.HasPrefix(id, "ds"):
		i := int(id[2] - '0')
		if i >= len(seg)-1 {
			return ""
		}
		c := append([]string{}, seg[:i+1]...)
		c = append(c, "")
		c = append(c, seg[i+1:]...)
		out = join(c)
	case id == "dot0":
		out = "/." + p
	case id == "dot2" && len(seg) > 2:
		out = join(append(append(append([]string{}, seg[:2]...), "."), seg[2:]...))
	case id == "up0":
		out = "/x/.." + p
	case id == "up2" && len(seg) > 2:
		out = join(append(append(append([]string{}, seg[:2]...), "x", ".."), seg[2:]...))
	case id == "trail":
		out = p + "/"
	case id == "pslash" && len(seg) > 2:
		out = "/" + seg[1] + "%2F" + join(seg[2:])
	case id == "pletter" && len(seg) > 1 && len(seg[1]) > 0:
		c := append([]string{}, seg...)
		c[1] = fmt.Sprintf("%%%02x", c[1][0]) + c[1][1:]
		out = join(c)
	case id == "plast" && len(seg) > 3 && len(seg[3]) > 0:
		c := append([]string{}, seg...)
		c[3] = fmt.Sprintf("%%%02x", c[3][0]) + c[3][1:]
		out = join(c)
	case id == "upper":
		out = strings.ToUpper(p)
	case id == "upapi" && len(seg) > 1:
		c := append([]string{}, seg...)
		c[1] = strings.ToUpper(c[1])
		out = join(c)
	case id == "title":
		c := append([]string{}, seg...)
		for i := 1; i < len(c) && i < 3; i++ {
			if c[i] != "" {
				c[i] = strings.ToUpper(c[i][:1]) + c[i][1:]
			}
		}
		out = join(c)
	case id == "bslash" && len(seg) > 2:
		out = "/" + seg[1] + "%5C" + join(seg[2:])
	}
	if out == p {
		return ""
	}
	return out
}

func c09Concrete(path string) string {
	p := path
	p = strings.ReplaceAll(p, ":ancestorHash", "000000000019d6689c085ae165831e934ff763ae46a2a6c172b3f1b60a8ce26f")
	p = strings.ReplaceAll(p, ":hash", "000000000019d6689c085ae165831e934ff763ae46a2a6c172b3f1b60a8ce26f")
	p = strings.ReplaceAll(p, ":token", c10Unknown("c09"))
	p = strings.ReplaceAll(p, "*any", "index.html")
	return p
}

func (e *c09Env) open(k c09Cfg, dir string) error {
	fs, rs, err := c09Build(k, dir)
	if err != nil {
		return err
	}
	e.k, e.fs, e.routes = k, fs, rs
	e.A = fs.Cfg.HTTP.AuthToken
	if k.admin != "" {
		e.A = k.admin // what the operator configured is what is presented
	}
	e.X = c10Unknown("X")
	// Fixture steps.  A step that fails because the implementation misbehaves is recorded in e.setup (it becomes
	// the observable of the "SETUP" case of this configuration) and the run goes on as far as possible; only a
	// failure of the harness's own infrastructure (NewStack above) aborts.
	e.setup = nil
	if c09CfgLoadFailure != "" {
		e.setup = append(e.setup, "config-load-of-admin-token:"+c09CfgLoadFailure)
	}
	fail := func(format string, a ...interface{}) { e.setup = append(e.setup, fmt.Sprintf(format, a...)) }
	// the fixture tokens are made through the service layer (not through the API under test)
	mk := func(what string) string {
		t, err := fs.Services.Tokens.GenerateToken()
		if err != nil || t == nil || !isAlnum32(t.Token) {
			fail("GenerateToken(%s):%v", what, err)
			return c10Unknown("nogen" + what)
		}
		return t.Token
	}
	if k.empty {
		// nothing is issued in this configuration: $U and $R are values that were never issued
		e.U, e.R = c10Unknown("emptyU"), c10Unknown("emptyR")
		e.D, e.dTokens = "", ""
		if n := e.fs.TableDigest("tokens"); !strings.HasPrefix(n, "0:") {
			fail("tokens-table-not-empty-at-start:%s", n)
		}
		return nil
	}
	e.U = mk("U")
	e.R = mk("R")
	// the revoked credential is a token that was issued, USED successfully (on two API routes and on the
	// token check the websocket connect handler performs) and only then revoked
	if k.auth {
		for _, path := range []string{"/api/v1/access", "/api/v1/chain/tip/longest"} {
			if code, _ := fs.Do("GET", path, "", map[string]string{"Authorization": "Bearer " + e.R}); code != 200 {
				fail("issued-token-on-GET-%s-before-revocation:%d", path, code)
			}
		}
		if _, err := fs.Services.Tokens.GetToken(e.R); err != nil {
			fail("issued-token-on-websocket-check-before-revocation:refused")
		}
	}
	if code, _ := fs.Do("DELETE", "/api/v1/access/"+e.R, "", map[string]string{"Authorization": "Bearer " + e.A}); code != 200 {
		fail("revocation-by-admin:%d", code)
		// the API under test refused: revoke through the service layer so that the run can go on and show it
		_ = fs.Services.Tokens.DeleteToken(e.R)
	}
	if _, err := fs.Repo.Tokens.GetTokenByValue(e.R); err == nil {
		fail("revoked-token-still-in-tokens-table")
		_, _ = fs.DB.Exec(`DELETE FROM tokens WHERE token = ?`, e.R)
	}
	e.D, e.dTokens = "", ""
	if e.U == e.R || e.U == e.A || e.R == e.A {
		fail("generated-tokens-not-distinct")
	}
	if len(k.over) == 2 {
		fs.DB.SetMaxOpenConns(2) // the slow-SQL overlap holds the whole pool
		fs.DB.SetMaxIdleConns(2)
	}
	return nil
}

// setupObs is the observable of the "cfg=<k> SETUP - H-" case.
func (e *c09Env) setupObs() string {
	if len(e.setup) == 0 {
		return "SETUP-OK"
	}
	return "SETUP-FAILED " + strings.ReplaceAll(strings.Join(e.setup, ";"), " ", "_")
}

func (e *c09Env) digests() [3]string {
	return [3]string{e.fs.TableDigest("tokens"), e.fs.TableDigest("webhooks"), e.fs.TableDigest("headers")}
}

// one request; returns the observable.  In an overlap configuration the request is made while an authenticate
// (GET /api/v1/access) of the token e.k.over is held inside the token repository; the observable then ends with
// " bg=pass" / " bg=401:<code>", the answer of that held request.
func (e *c09Env) request(method, pattern, hdr, query string) (obs string) {
	if method == "WSCHK" {
		// the token check of the websocket connect handler (websocket_server.go OnConnecting) for the token of "Bearer <token>"
		defer func() {
			if r := recover(); r != nil {
				obs = fmt.Sprintf("PANIC %v", r)
			}
		}()
		v := e.subst(strings.TrimPrefix(hdr, "="))
		if !strings.HasPrefix(v, "Bearer ") {
			return "HARNESS-ERROR WSCHK needs a Bearer template"
		}
		if e.k.auth {
			if _, err := e.fs.Services.Tokens.GetToken(strings.TrimPrefix(v, "Bearer ")); err != nil {
				return "ws:no"
			}
		}
		return "ws:ok"
	}
	if e.k.over == "" {
		return e.requestPlain(method, pattern, hdr, query)
	}
	if len(e.k.over) == 2 {
		return e.requestSlow(method, pattern, hdr, query)
	}
	held := e.subst("$" + e.k.over)
	reached, release := c09Pause.arm(held)
	bg := make(chan string, 1)
	go func() {
		defer func() {
			if r := recover(); r != nil {
				bg <- "PANIC"
			}
		}()
		code, out := e.fs.Do("GET", "/api/v1/access", "", map[string]string{"Authorization": "Bearer " + held})
		if code != 401 {
			bg <- "pass"
			return
		}
		var er struct {
			Code string `json:"code"`
		}
		_ = json.Unmarshal([]byte(out), &er)
		bg <- "401:" + er.Code
	}()
	bgRes := ""
	select {
	case <-reached:
	case bgRes = <-bg:
	case <-time.After(waitDeadline):
		bgRes = "TIMEOUT"
	}
	fg := make(chan string, 1)
	go func() { fg <- e.requestPlain(method, pattern, hdr, query) }()
	fgRes := ""
	select {
	case fgRes = <-fg:
	case <-time.After(300 * time.Millisecond): // the request waits for the held lookup: let that one finish
	}
	c09Pause.disarm()
	close(release)
	if fgRes == "" {
		select {
		case fgRes = <-fg:
		case <-time.After(waitDeadline):
			fgRes = "TIMEOUT"
		}
	}
	if bgRes == "" {
		select {
		case bgRes = <-bg:
		case <-time.After(waitDeadline):
			bgRes = "TIMEOUT"
		}
	}
	return fgRes + " bg=" + bgRes
}

// bgAccess: GET /api/v1/access with "Bearer tok" -> "pass" / "401:<code>"
func (e *c09Env) bgAccess(tok string) (res string) {
	defer func() {
		if r := recover(); r != nil {
			res = "PANIC"
		}
	}()
	code, out := e.fs.Do("GET", "/api/v1/access", "", map[string]string{"Authorization": "Bearer " + tok})
	if code != 401 {
		return "pass"
	}
	var er struct {
		Code string `json:"code"`
	}
	_ = json.Unmarshal([]byte(out), &er)
	return "401:" + er.Code
}

// requestSlow ("~sU" / "~sX" / "~sR"): the overlap is produced BELOW the repository layer - the whole connection
// pool is held, so that every SQL statement waits; an authenticate of the named token is started and, once its
// statement waits, the request of the case; then the pool is released.
func (e *c09Env) requestSlow(method, pattern, hdr, query string) string {
	other := e.subst("$" + e.k.over[1:])
	ready, goOn := make(chan struct{}), make(chan struct{})
	fg := make(chan string, 1)
	go func() {
		fg <- e.requestHooked(method, pattern, hdr, query, func() { close(ready); <-goOn })
	}()
	select {
	case <-ready: // prepared, tables digested: nothing of the harness needs the database until the pool is free again
	case r := <-fg:
		return r + " bg=NOT-RUN"
	}
	release, waiters, err := holdPool(e.fs.Stack, 2)
	if err != nil {
		close(goOn)
		return <-fg + " bg=HARNESS-ERROR"
	}
	bg := make(chan string, 1)
	go func() { bg <- e.bgAccess(other) }()
	waitFor(waitDeadline, func() bool { return waiters() >= 1 })
	close(goOn)
	// the request's own lookup waits too (not when it is refused before any lookup, or merged into another one)
	waitFor(40*time.Millisecond, func() bool { return waiters() >= 2 })
	release()
	get := func(ch chan string) string {
		select {
		case r := <-ch:
			return r
		case <-time.After(waitDeadline):
			return "TIMEOUT"
		}
	}
	return get(fg) + " bg=" + get(bg)
}

func (e *c09Env) requestPlain(method, pattern, hdr, query string) (obs string) {
	return e.requestHooked(method, pattern, hdr, query, nil)
}

// requestHooked: pre (when not nil) runs after the request was prepared and the tables were digested, right before
// the request is sent.
func (e *c09Env) requestHooked(method, pattern, hdr, query string, pre func()) (obs string) {
	defer func() {
		if r := recover(); r != nil {
			obs = fmt.Sprintf("PANIC %v", r)
		}
	}()
	h := map[string]string{}
	if strings.HasPrefix(hdr, "=") {
		h["Authorization"] = e.subst(hdr[1:])
	}
	// "RAW.<spelling>:<METHOD>": the same request sent to a non-canonical spelling of the route's path
	spelling := ""
	if strings.HasPrefix(method, "RAW.") {
		p := strings.SplitN(method[4:], ":", 2)
		if len(p) != 2 {
			return "HARNESS-ERROR bad RAW method"
		}
		spelling, method = p[0], p[1]
	}
	target, body := e.prepare(method, pattern)
	if spelling != "" {
		pth, q := target, ""
		if i := strings.Index(target, "?"); i >= 0 {
			pth, q = target[:i], target[i:]
		}
		sp := c09Spell(spelling, pth)
		if sp == "" {
			return "HARNESS-ERROR spelling does not apply"
		}
		target = sp + q
	}
	if query != "" {
		target += query
	}
	before := e.digests()
	var code int
	var out string
	if e.k.fail {
		if _, err := e.fs.DB.Exec(`ALTER TABLE tokens RENAME TO tokens_unavailable`); err != nil {
			return "HARNESS-ERROR " + err.Error()
		}
	}
	if pre != nil {
		pre()
	}
	if strings.HasPrefix(hdr, "=") && hdr == "=" {
		// an Authorization header that is present but empty
		code, out = e.fs.Do(method, target, body, map[string]string{"Authorization": ""})
	} else {
		code, out = e.fs.Do(method, target, body, h)
	}
	if e.k.fail {
		if _, err := e.fs.DB.Exec(`ALTER TABLE tokens_unavailable RENAME TO tokens`); err != nil {
			return "HARNESS-ERROR " + err.Error()
		}
	}
	if spelling != "" {
		// routing-independent observable: did anything answer 2xx, did a table change
		after := e.digests()
		st := "refused"
		if code >= 200 && code < 300 {
			st = "2xx"
		}
		for i, n := range []string{"tokens", "webhooks", "headers"} {
			if before[i] != after[i] {
				return st + " CHANGED(" + n + ")"
			}
		}
		return st + " unchanged"
	}
	if code != 401 {
		return "pass"
	}
	after := e.digests()
	var er struct {
		Code    string `json:"code"`
		Message string `json:"message"`
	}
	code9 := er.Code
	if json.Unmarshal([]byte(out), &er) != nil || er.Code == "" || er.Message == "" || strings.ContainsAny(er.Code, " \t\n") {
		code9 = "UNSTRUCTURED"
	} else {
		code9 = er.Code
	}
	ch := []string{}
	for i, n := range []string{"tokens", "webhooks", "headers"} {
		if before[i] != after[i] {
			ch = append(ch, n)
		}
	}
	if len(ch) > 0 {
		return "401 " + code9 + " CHANGED(" + strings.Join(ch, ",") + ")"
	}
	return "401 " + code9 + " unchanged"
}

func c09Slow(r c09Route) bool {
	return r.Path == "/pprof/debug/profile" || r.Path == "/pprof/debug/trace"
}

func c09Input(k c09Cfg, r c09Route, hdr string) string {
	return fmt.Sprintf("cfg=%s %s %s H%s", k, r.Method, r.Path, hdr)
}

func c09ParseInput(in string) (k c09Cfg, r c09Route, hdr string, err error) {
	// header = everything after the third space + "H"
	rest := strings.SplitN(in, " ", 4)
	if len(rest) != 4 || !strings.HasPrefix(rest[0], "cfg=") || len(rest[0]) < 7 || !strings.HasPrefix(rest[3], "H") || len(rest[3]) < 2 {
		return k, r, "", fmt.Errorf("bad input %q", in)
	}
	cf := rest[0][4:]
	k = c09Cfg{auth: cf[0] == '1', prof: cf[1] == '1', met: cf[2] == '1'}
	cf = cf[3:]
	if i := strings.Index(cf, "@"); i >= 0 {
		a := cf[i+1:]
		cf = cf[:i]
		if len(a) < 3 || a[1] != '=' {
			return k, r, "", fmt.Errorf("bad admin token in %q", in)
		}
		k.adminSrc, k.admin = a[:1], pctDecode(a[2:])
	}
	if strings.HasPrefix(cf, "f") {
		k.fail, cf = true, cf[1:]
	}
	if strings.HasPrefix(cf, "e") {
		k.empty, cf = true, cf[1:]
	}
	if strings.HasPrefix(cf, "~") && (len(cf) == 2 || (len(cf) == 3 && cf[1] == 's')) {
		k.over, cf = cf[1:], ""
	}
	if cf != "" {
		return k, r, "", fmt.Errorf("bad configuration in %q", in)
	}
	return k, c09Route{rest[1], rest[2]}, rest[3][1:], nil
}

var c09Pieces = []string{"Bearer", "Bearer", " ", " ", " ", "$A", "$U", "$R", "$X", "bearer", "x", "  ", "Bearer ", " $A", "$U "}

func runC09(c *Ctx) error {
	e := &c09Env{c: c}
	base := c.TmpDir("c09")
	if c.Only != "" {
		k, r, hdr, err := c09ParseInput(c.Only)
		if err != nil {
			return err
		}
		if err := e.open(k, filepath.Join(base, "only")); err != nil {
			return err
		}
		defer e.fs.Shutdown()
		if r.Method == "SETUP" {
			c.Case(c.Only, e.setupObs())
			return nil
		}
		q := ""
		if c09Slow(r) {
			q = "?seconds=1"
		}
		c.Case(c.Only, e.request(r.Method, r.Path, hdr, q))
		return nil
	}
	// corpus: lines are "<METHOD> <pattern> H..." (run in every configuration that has the route) - see corpus/C09
	var corpus []string
	files, _ := filepath.Glob(filepath.Join(c10VerifDir(), "corpus", "C09", "*.txt"))
	sort.Strings(files)
	for _, f := range files {
		b, err := os.ReadFile(f)
		if err != nil {
			return err
		}
		for _, l := range strings.Split(string(b), "\n") {
			if strings.TrimSpace(l) == "" || strings.HasPrefix(l, "#") {
				continue
			}
			corpus = append(corpus, l)
		}
	}
	seen := map[string]bool{}
	ncase := 0
	prewarmAdminTokens(os.TempDir())
	for i, k := range c09Configs() {
		if err := e.open(k, filepath.Join(base, fmt.Sprint(i))); err != nil {
			return err
		}
		fmt.Fprintf(os.Stderr, "c09: configuration %s in flight\n", k)
		c.Case(fmt.Sprintf("cfg=%s SETUP - H-", k), e.setupObs())
		flushCases(c)
		c.Count("fixture:setup-case")
		one := func(r c09Route, hdr, class, q string) {
			in := c09Input(k, r, hdr)
			if seen[in] {
				return
			}
			seen[in] = true
			c.Case(in, e.request(r.Method, r.Path, hdr, q))
			if ncase++; ncase%200 == 0 {
				flushCases(c) // a killed run still shows everything up to the cases in flight
			}
			c.Count("cred:" + class)
			ck := k
			if ck.admin != "" {
				ck.admin = fmt.Sprintf("len%03d", len(k.admin))
			}
			c.Count("cfg:" + ck.String())
			if strings.HasPrefix(r.Path, "/api/v1") {
				c.Count("route:api")
			} else {
				c.Count("route:root")
			}
		}
		has := map[c09Route]bool{}
		for _, r := range e.routes {
			has[r] = true
		}
		for _, l := range corpus {
			p := strings.SplitN(l, " ", 3)
			if len(p) == 3 && has[c09Route{p[0], p[1]}] && strings.HasPrefix(p[2], "H") {
				one(c09Route{p[0], p[1]}, p[2][1:], "corpus", "")
			}
		}
		// the routes / credentials exercised in this configuration
		routes, creds := e.routes, c09Creds
		rep4 := func(r c09Route) bool {
			return r.Path == "/api/v1/access" || r.Path == "/api/v1/access/:token" || r.Path == "/api/v1/chain/tip/longest" || r.Path == "/api/v1/webhook"
		}
		switch {
		case k.empty:
			routes = nil
			for _, r := range e.routes {
				if strings.HasPrefix(r.Path, "/api/v1") {
					routes = append(routes, r)
				}
			}
			creds = append([]c09Cred{{"-", "none"}, {"=Bearer $X", "unknown"}, {"=Bearer $U", "unknown"}, {"=Bearer ${sha256:U}", "derived"}}, c09SQLMeta...)
		case k.over != "":
			// ordinary routes (one of them state-changing) and the two admin routes
			routes = nil
			for _, r := range e.routes {
				if rep4(r) || r.Path == "/api/v1/chain/merkleroot/verify" {
					routes = append(routes, r)
				}
			}
			creds = []c09Cred{{"=Bearer $X", "unknown"}, {"=Bearer $R", "revoked"}, {"=Bearer $U", "user"}, {"=Bearer $A", "admin"},
				{"-", "none"}, {"=Bearer $U x", "extra-parts"}, {"=Bearer $X$U", "unknown"}}
		case k.admin != "" && k.lite && !c.Thorough():
			routes = nil
			for _, r := range e.routes {
				if r.Path == "/api/v1/access" || r.Path == "/api/v1/chain/tip/longest" {
					routes = append(routes, r)
				}
			}
			creds = []c09Cred{{"=Bearer $A", "admin"}, {"=Bearer $U", "user"}, {"=Bearer $X", "unknown"}, {"-", "none"}, {"=Bearer $A x", "extra-parts"}, {"=bearer $A", "wrong-scheme"}}
		case k.admin != "" && !c.Thorough():
			routes = nil
			for _, r := range e.routes {
				if rep4(r) || r.Path == "/api/v1/network/peer" || r.Path == "/status" {
					routes = append(routes, r)
				}
			}
		}
		for _, r := range routes {
			if c09Slow(r) {
				// CPU profile / execution trace block for their whole duration: classified through the
				// regenerated table; invoked once (1 s) in the thorough tier only
				c.Count("route:root-classified-only")
				if c.Thorough() {
					one(r, "-", "none", "?seconds=1")
				}
				continue
			}
			for _, cr := range creds {
				one(r, cr.hdr, cr.class, "")
			}
		}
		// malformed / random Authorization values on representative routes (the parser is the same for all)
		if k.auth && k.over == "" {
			var rep []c09Route
			for _, r := range e.routes {
				if r.Path == "/api/v1/access" || r.Path == "/api/v1/access/:token" || r.Path == "/api/v1/chain/tip/longest" || r.Path == "/api/v1/webhook" {
					rep = append(rep, r)
				}
			}
			nrand := c.Pick(150, 5000)
			if k.admin != "" {
				nrand = c.Pick(20, 500)
				if k.lite {
					nrand = c.Pick(0, 100)
				}
			}
			for j, n := 0, nrand; j < n && len(rep) > 0; j++ {
				var sb strings.Builder
				for l, m := 0, 1+c.Rng.Intn(5); l < m; l++ {
					sb.WriteString(c09Pieces[c.Rng.Intn(len(c09Pieces))])
				}
				one(rep[c.Rng.Intn(len(rep))], "="+sb.String(), "random", "")
			}
		}
		if k.auth && k.over == "" && k.admin == "" {
			// SQL meta characters as credential: on every API route (also while the token store fails / is empty),
			// and on the websocket connect check
			if ks := k.String(); ks == "100" || ks == "111" || ks == "100f" || c.Thorough() && !k.empty {
				for _, r := range e.routes {
					if !strings.HasPrefix(r.Path, "/api/v1") || c09Slow(r) {
						continue
					}
					for _, cr := range c09SQLMeta {
						one(r, cr.hdr, cr.class, "")
					}
				}
			}
			if !k.fail && !k.met && !k.prof {
				ws := c09Route{"WSCHK", "/connection/websocket"}
				for _, cr := range c09SQLMeta {
					one(ws, cr.hdr, cr.class, "")
				}
				for _, h := range []string{"=Bearer $U", "=Bearer $X", "=Bearer $R", "=Bearer $A", "=Bearer ${sha256:U}", "=Bearer ${rawnulx:A}", "=Bearer ${upper:U}"} {
					one(ws, h, "ws-check", "")
				}
			}
		}
		if k.auth && k.plain() && !k.fail {
			// LONG bearer values (255 / 256 / 257 / 1000 / 70000 bytes; a never issued value and a valid token padded):
			// not credentials - 401 like any other unknown value, on every route class
			for _, r := range e.routes {
				if !(rep4(r) || k.String() == "100" && strings.HasPrefix(r.Path, "/api/v1") && !c09Slow(r)) {
					continue
				}
				for _, n := range []int{255, 256, 257, 1000, 70000} {
					for _, which := range []string{"X", "U"} {
						one(r, fmt.Sprintf("=Bearer ${pad%d:%s}", n, which), "long-bearer", "")
					}
				}
			}
		}
		if k.auth && k.plain() && !k.fail {
			// credentials DERIVED from a valid one (digests, encodings, case, neighbours): never a credential
			for _, r := range e.routes {
				if !rep4(r) {
					continue
				}
				for _, which := range []string{"U", "A"} {
					for _, fn := range c09Derivations {
						v := e.derive(fn, which)
						if v == e.U || v == e.A || strings.ContainsAny(v, " \t") {
							continue // e.g. upper-casing changes nothing: then it IS the credential
						}
						one(r, "=Bearer ${"+fn+":"+which+"}", "derived", "")
					}
				}
			}
		}
		if ks := k.String(); ks == "100" || ks == "111" {
			// non-canonical SPELLINGS of every API route (doubled slashes, dot segments, percent-encoding, case,
			// trailing slash): whatever the router makes of them, a request without an accepted credential must
			// not get a 2xx and must not change a table
			for _, r := range e.routes {
				if !strings.HasPrefix(r.Path, "/api/v1") {
					continue
				}
				rawCreds := []c09Cred{{"-", "none"}, {"=Bearer $X", "unknown"}, {"=Bearer $R", "revoked"}, {"=bearer $A", "wrong-scheme"}}
				if r.Path == "/api/v1/access" && r.Method == "POST" || r.Path == "/api/v1/access/:token" {
					rawCreds = append(rawCreds, c09Cred{"=Bearer $U", "user"}) // valid, but not the admin
				}
				for _, sp := range c09Spellings {
					if c09Spell(sp, c09Concrete(r.Path)) == "" {
						continue
					}
					for _, cr := range rawCreds {
						one(c09Route{"RAW." + sp + ":" + r.Method, r.Path}, cr.hdr, "spelling:"+cr.class, "")
					}
				}
			}
		}
		if k.plain() {
			c.Meta("routes_cfg_"+k.String(), fmt.Sprint(len(e.routes)))
		}
		e.fs.Shutdown()
	}
	// observation recorded in the evidence (not a case): an empty http.auth_token is accepted by the
	// configuration; the model then says that "Bearer " (empty token) is the admin credential.
	if s, err := NewStack(StackOpts{Dir: filepath.Join(base, "empty-admin"), UseAuth: true, Mutate: func(cf *config.AppConfig) { cf.HTTP.AuthToken = "" }}); err == nil {
		code, body := s.Do("GET", "/api/v1/access", "", map[string]string{"Authorization": "Bearer "})
		c.Meta("observation_empty_admin_token", fmt.Sprintf("auth_token=\"\" (not rejected by config validation): GET /api/v1/access with 'Authorization: Bearer ' -> %d %s", code, strings.TrimSpace(body)))
		s.Close()
	}
	return nil
}
