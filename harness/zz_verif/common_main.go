//go:build verif

// Package main is the verification harness of /verif.  It is compiled inside
// the block-headers-service module through `go build -overlay` (nothing is written
// into /repo) and runs generated cases against the real implementation.
//
// usage: harness <PROP> <outdir>     env: VERIF_SEED, VERIF_TIER
// writes <outdir>/cases.txt  (id \t input)   and   <outdir>/impl.txt (id \t observable)
package main

import (
	"bufio"
	"fmt"
	"math/rand"
	"os"
	"path/filepath"
	"sort"
	"strconv"
	"strings"
)

// Ctx is handed to each property runner.
type Ctx struct {
	Prop   string
	Out    string
	Seed   int64
	Tier   string
	Rng    *rand.Rand
	cases  *bufio.Writer
	impl   *bufio.Writer
	meta   *bufio.Writer
	n      int
	Hist   map[string]int // input-distribution histogram, goes into evidence
	Args   []string
	Only   string // when non-empty: run exactly this input line (replay / shrinking)
	caseFs []*os.File
}

// Thorough reports whether the thorough tier was requested.
func (c *Ctx) Thorough() bool { return c.Tier == "thorough" }

// Pick returns q in the quick tier and t in the thorough tier.
func (c *Ctx) Pick(q, t int) int {
	if c.Thorough() {
		return t
	}
	return q
}

// Case records one case: its input line (what the model is run on) and the
// implementation's projected observable.  Neither may contain a newline or a tab.
func (c *Ctx) Case(input, obs string) string {
	c.n++
	id := fmt.Sprintf("%s-%06d", strings.ToLower(c.Prop), c.n)
	if strings.ContainsAny(input, "\n\t") || strings.ContainsAny(obs, "\n\t") {
		panic("case text contains newline or tab: " + input + " / " + obs)
	}
	fmt.Fprintf(c.cases, "%s\t%s\n", id, input)
	fmt.Fprintf(c.impl, "%s\t%s\n", id, obs)
	return id
}

// Count adds to the input-distribution histogram.
func (c *Ctx) Count(key string) { c.Hist[key]++ }

// Meta writes a free-form key/value line into meta.txt (read by bin/check into evidence).
func (c *Ctx) Meta(key, val string) {
	fmt.Fprintf(c.meta, "%s\t%s\n", key, strings.ReplaceAll(val, "\n", " "))
}

// TmpDir returns a scratch directory under the output directory.
func (c *Ctx) TmpDir(name string) string {
	d := filepath.Join(c.Out, "tmp", name)
	_ = os.RemoveAll(d)
	if err := os.MkdirAll(d, 0o755); err != nil {
		panic(err)
	}
	return d
}

type runner func(c *Ctx) error

var registry = map[string]runner{}

func register(name string, r runner) { registry[name] = r }

func main() {
	if len(os.Args) < 3 {
		names := []string{}
		for k := range registry {
			names = append(names, k)
		}
		sort.Strings(names)
		fmt.Fprintf(os.Stderr, "usage: harness <PROP|dump> <outdir> [args]; known: %v\n", names)
		os.Exit(2)
	}
	prop, out := os.Args[1], os.Args[2]
	r, ok := registry[prop]
	if !ok {
		fmt.Fprintf(os.Stderr, "unknown runner %s\n", prop)
		os.Exit(2)
	}
	if err := os.MkdirAll(out, 0o755); err != nil {
		panic(err)
	}
	seed, _ := strconv.ParseInt(os.Getenv("VERIF_SEED"), 10, 64)
	tier := os.Getenv("VERIF_TIER")
	if tier == "" {
		tier = "quick"
	}
	mk := func(n string) (*bufio.Writer, *os.File) {
		f, err := os.Create(filepath.Join(out, n))
		if err != nil {
			panic(err)
		}
		return bufio.NewWriterSize(f, 1<<20), f
	}
	cw, cf := mk("cases.txt")
	iw, ifl := mk("impl.txt")
	mw, mf := mk("meta.txt")
	c := &Ctx{Prop: prop, Out: out, Seed: seed, Tier: tier, Rng: rand.New(rand.NewSource(seed)),
		cases: cw, impl: iw, meta: mw, Hist: map[string]int{}, Args: os.Args[3:]}
	for i := 0; i+1 < len(c.Args); i++ {
		if c.Args[i] == "--only" {
			c.Only = c.Args[i+1]
		}
	}
	err := r(c)
	keys := []string{}
	for k := range c.Hist {
		keys = append(keys, k)
	}
	sort.Strings(keys)
	for _, k := range keys {
		fmt.Fprintf(mw, "hist:%s\t%d\n", k, c.Hist[k])
	}
	fmt.Fprintf(mw, "cases\t%d\n", c.n)
	cw.Flush()
	iw.Flush()
	mw.Flush()
	cf.Close()
	ifl.Close()
	mf.Close()
	_ = os.RemoveAll(filepath.Join(out, "tmp"))
	if err != nil {
		fmt.Fprintf(os.Stderr, "harness %s: %v\n", prop, err)
		os.Exit(3)
	}
}
