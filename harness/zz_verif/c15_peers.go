//go:build verif

package main

// C15peers: a free-running probe (no model, no assertions beyond "no 5xx") meant for a -race binary.
// A real p2p server value + real SyncManager (its real blockHandler goroutine started with Start) share the
// peer-state map (map[*peer.Peer]*peer.SyncState) with a real service.NetworkService, exactly as cmd/main.go wires
// them.  N scripted nodes connect (real inboundPeerConnected -> serverPeer/peer.Peer, handshake, OnVersion ->
// NewPeer -> handleNewPeerMsg writes the map) and disconnect (peerDoneHandler -> DonePeer -> handleDonePeerMsg
// deletes from the map) in a loop from goroutines while other goroutines call GET /api/v1/network/peer
// (NetworkService.GetPeers ranges over the same map) through the gin engine.
//
//   bin/build_harness C15 -race && mkdir -p /tmp/c15p && build/bin/C15/harness-race C15peers /tmp/c15p
//
// Self-contained on purpose (uses only the common fixture and the add-only in-package hooks of C06).

import (
	"errors"
	"fmt"
	"net"
	"sync"
	"sync/atomic"
	"time"

	"github.com/bitcoin-sv/block-headers-service/config"
	"github.com/bitcoin-sv/block-headers-service/domains"
	"github.com/bitcoin-sv/block-headers-service/internal/chaincfg"
	"github.com/bitcoin-sv/block-headers-service/internal/wire"
	"github.com/bitcoin-sv/block-headers-service/service"
	"github.com/bitcoin-sv/block-headers-service/transports/http/endpoints"
	httpserver "github.com/bitcoin-sv/block-headers-service/transports/http/server"
	"github.com/bitcoin-sv/block-headers-service/transports/p2p"
	peerpkg "github.com/bitcoin-sv/block-headers-service/transports/p2p/peer"
	"github.com/gin-gonic/gin"
	"github.com/rs/zerolog"
)

func init() { register("C15peers", runC15Peers) }

type c15Conn struct {
	net.Conn
	local, remote net.Addr
}

func (c *c15Conn) LocalAddr() net.Addr  { return c.local }
func (c *c15Conn) RemoteAddr() net.Addr { return c.remote }

// c15Session performs one connect / handshake / linger / disconnect cycle of a scripted node.
func c15Session(srv *p2p.VerifC06Server, btcnet wire.BitcoinNet, id int, seq uint64, linger time.Duration) error {
	// every fifth session is a node the server turns away in OnVersion (user agent of another chain): its done
	// message reaches the sync manager for a peer that was never registered there
	ua := "verif-c15"
	if seq%5 == 3 {
		ua = "Bitcoin ABC"
	}
	a, b := net.Pipe()
	nodeAddr := &net.TCPAddr{IP: net.IPv4(10, 15, byte(id>>8), byte(id)), Port: 18333}
	me := &net.TCPAddr{IP: net.IPv4(10, 15, 255, 254), Port: 8333}
	svcSide := &c15Conn{Conn: a, local: me, remote: nodeAddr}
	nodeSide := &c15Conn{Conn: b, local: nodeAddr, remote: me}
	defer nodeSide.Close()
	const pver = uint32(70015)
	recv := make(chan wire.Message, 64)
	go func() {
		defer close(recv)
		for {
			m, _, err := wire.ReadMessage(nodeSide, pver, btcnet)
			if err != nil {
				var me *wire.MessageError
				if errors.As(err, &me) {
					continue
				}
				return
			}
			select {
			case recv <- m:
			default:
			}
		}
	}()
	srv.Accept(svcSide)
	v := wire.NewMsgVersion(wire.NewNetAddress(nodeAddr, wire.SFNodeNetwork), wire.NewNetAddress(me, 0), 0xc15000000000+seq, 5)
	v.Services = wire.SFNodeNetwork
	v.ProtocolVersion = int32(pver)
	_ = v.AddUserAgent(ua, "1.0")
	_ = nodeSide.SetWriteDeadline(time.Now().Add(2 * time.Second))
	if err := wire.WriteMessage(nodeSide, v, pver, btcnet); err != nil {
		return err
	}
	gotVer, gotAck := false, false
	deadline := time.After(2 * time.Second)
	for !(gotVer && gotAck) {
		select {
		case m, ok := <-recv:
			if !ok {
				if ua != "verif-c15" {
					return nil // turned away, as expected
				}
				return fmt.Errorf("closed during handshake")
			}
			switch m.(type) {
			case *wire.MsgVersion:
				gotVer = true
			case *wire.MsgVerAck:
				gotAck = true
			}
		case <-deadline:
			if ua != "verif-c15" {
				return nil
			}
			return fmt.Errorf("handshake timeout")
		}
	}
	if err := wire.WriteMessage(nodeSide, wire.NewMsgVerAck(), pver, btcnet); err != nil {
		return err
	}
	// every other session also asks for headers: the peer's input handler then consults the sync manager
	// (IsCurrent) from its own goroutine while other peers come and go
	if seq%2 == 0 {
		gh := wire.NewMsgGetHeaders()
		gh.ProtocolVersion = pver
		_ = gh.AddBlockLocatorHash(chaincfg.MainNetParams.GenesisHash)
		_ = nodeSide.SetWriteDeadline(time.Now().Add(2 * time.Second))
		_ = wire.WriteMessage(nodeSide, gh, pver, btcnet)
	}
	time.Sleep(linger)
	return nil
}

func runC15Peers(c *Ctx) error {
	s, err := NewStack(StackOpts{Dir: c.TmpDir("c15peers")})
	if err != nil {
		return err
	}
	defer s.Close()
	lg := zerolog.Nop()
	prm := chaincfg.MainNetParams
	// a "current" service (its tip is recent and not below the last checkpoint): only then do getheaders requests of
	// peers reach the part of the sync manager that looks at the sync peer.  One checkpoint = genesis; one header
	// stamped now on top of it.
	cps := []chaincfg.Checkpoint{{Height: 0, Hash: prm.GenesisHash}}
	config.Checkpoints = cps
	if config.TimeSource == nil {
		config.TimeSource = config.NewMedianTime(&lg)
	}
	fresh := domains.BlockHeaderSource{Version: 1, PrevBlock: *prm.GenesisHash, MerkleRoot: merkleBytes(4242), Timestamp: time.Now(), Bits: bitsW2, Nonce: 1}
	if _, err := s.Services.Chains.Add(fresh); err != nil {
		return fmt.Errorf("c15peers: storing a current tip: %w", err)
	}
	// the shared map, wired as in cmd/main.go: NetworkService and SyncManager get the same map value
	peers := map[*peerpkg.Peer]*peerpkg.SyncState{}
	svc := *s.Services
	svc.Headers = service.NewHeaderService(s.Repo, nil, &lg)
	svc.Network = service.NewNetworkService(peers)
	srv, err := p2p.VerifC06NewServerWithPeers(&prm, &svc, cps, false, peers)
	if err != nil {
		return err
	}
	var engine *gin.Engine
	hsrv := httpserver.NewHTTPServer(s.Cfg.HTTP, &lg)
	hsrv.ApplyConfiguration(endpoints.SetupRoutes(&svc, s.Cfg.HTTP))
	hsrv.ApplyConfiguration(func(e *gin.Engine) { engine = e })
	s.Engine = engine
	sm := srv.SM()
	sm.Start()
	defer sm.Stop()

	dur := time.Duration(c.Pick(2000, 6000)) * time.Millisecond
	stop := time.Now().Add(dur)
	var wg sync.WaitGroup
	var sessions, sessionErrs, requests, fivexx uint64
	var seq uint64
	nNodes, nReaders := 6, 4
	for i := 0; i < nNodes; i++ {
		wg.Add(1)
		go func(id int) {
			defer wg.Done()
			for time.Now().Before(stop) {
				if err := c15Session(srv, prm.Net, id, atomic.AddUint64(&seq, 1), time.Duration(1+id)*time.Millisecond); err != nil {
					atomic.AddUint64(&sessionErrs, 1)
				}
				atomic.AddUint64(&sessions, 1)
				srv.DrainServerQueues()
			}
		}(i + 1)
	}
	for i := 0; i < nReaders; i++ {
		wg.Add(1)
		go func() {
			defer wg.Done()
			for time.Now().Before(stop) {
				code, _ := s.Do("GET", "/api/v1/network/peer", "", nil)
				atomic.AddUint64(&requests, 1)
				if code >= 500 {
					atomic.AddUint64(&fivexx, 1)
				}
				code, _ = s.Do("GET", "/api/v1/network/peer/count", "", nil)
				if code >= 500 {
					atomic.AddUint64(&fivexx, 1)
				}
			}
		}()
	}
	// watchdog: a deadlock (a lock left held, a goroutine waiting for ever) must end as a failure of this run, not as
	// a hang of the harness
	fin := make(chan struct{})
	go func() { wg.Wait(); close(fin) }()
	select {
	case <-fin:
	case <-time.After(dur + 15*time.Second):
		return fmt.Errorf("c15peers: HANG - sessions or GET /network/peer requests still blocked %s after the end of the run (sessions=%d requests=%d)", 15*time.Second, atomic.LoadUint64(&sessions), atomic.LoadUint64(&requests))
	}
	time.Sleep(100 * time.Millisecond)
	obs := "no-5xx"
	if fivexx > 0 {
		obs = fmt.Sprintf("5xx=%d", fivexx)
	}
	c.Case("c15peers free-running peer churn vs GET /api/v1/network/peer", obs)
	c.Meta("c15peers", fmt.Sprintf("sessions=%d session_errors=%d requests=%d 5xx=%d duration=%s", sessions, sessionErrs, requests, fivexx, dur))
	fmt.Printf("C15peers: sessions=%d session_errors=%d requests=%d 5xx=%d\n", sessions, sessionErrs, requests, fivexx)
	return nil
}
