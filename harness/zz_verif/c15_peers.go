//go:build verif

package main

// C15peers: a free-running probe (no model, no assertions beyond "no 5xx") meant for a -race binary.
// A real p2p server value + real SyncManager (its real blockHandler goroutine started with Start) share the
// peer-state map (map[*peer.Peer]*peer.SyncState) with a real service.NetworkService, exactly as cmd/main.go wires
// them.  N scripted nodes connect (real inboundPeerConnected -> serverPeer/peer.Peer, handshake, OnVersion ->
// NewPeer -> handleNewPeerMsg writes the map) and disconnect (peerDoneHandler -> DonePeer -> handleDonePeerMsg
// deletes from the map) in a loop from goroutines while other goroutines call GET /api/v1/network/peer
// (NetworkService.GetPeers ranges over the same map) through the gin engine.
//
//   bin/build_harness C15 -race && mkdir -p /tmp/c15p && build/bin/C15/harness-race C15peers /tmp/c15p
//
// Self-contained on purpose (uses only the common fixture and the add-only in-package hooks of C06).

import (
	"errors"
	"fmt"
	"net"
	"sync"
	"sync/atomic"
	"time"

	"github.com/bitcoin-sv/block-headers-service/config"
	"github.com/bitcoin-sv/block-headers-service/domains"
	"github.com/bitcoin-sv/block-headers-service/internal/chaincfg"
	"github.com/bitcoin-sv/block-headers-service/internal/chaincfg/chainhash"
	"github.com/bitcoin-sv/block-headers-service/internal/wire"
	"github.com/bitcoin-sv/block-headers-service/service"
	"github.com/bitcoin-sv/block-headers-service/transports/http/endpoints"
	httpserver "github.com/bitcoin-sv/block-headers-service/transports/http/server"
	"github.com/bitcoin-sv/block-headers-service/transports/p2p"
	peerpkg "github.com/bitcoin-sv/block-headers-service/transports/p2p/peer"
	"github.com/gin-gonic/gin"
	"github.com/rs/zerolog"
)

func init() { register("C15peers", runC15Peers) }

type c15Conn struct {
	net.Conn
	local, remote net.Addr
}

func (c *c15Conn) LocalAddr() net.Addr  { return c.local }
func (c *c15Conn) RemoteAddr() net.Addr { return c.remote }

// c15Session performs one connect / handshake / linger / disconnect cycle of a scripted node.
func c15Session(srv *p2p.VerifC06Server, btcnet wire.BitcoinNet, id int, seq uint64, linger time.Duration) error {
	// every fifth session is a node the server turns away in OnVersion (user agent of another chain): its done
	// message reaches the sync manager for a peer that was never registered there
	ua := "verif-c15"
	if seq%5 == 3 {
		ua = "Bitcoin ABC"
	}
	a, b := net.Pipe()
	nodeAddr := &net.TCPAddr{IP: net.IPv4(10, 15, byte(id>>8), byte(id)), Port: 18333}
	me := &net.TCPAddr{IP: net.IPv4(10, 15, 255, 254), Port: 8333}
	svcSide := &c15Conn{Conn: a, local: me, remote: nodeAddr}
	nodeSide := &c15Conn{Conn: b, local: nodeAddr, remote: me}
	defer nodeSide.Close()
	const pver = uint32(70015)
	recv := make(chan wire.Message, 64)
	go func() {
		defer close(recv)
		for {
			m, _, err := wire.ReadMessage(nodeSide, pver, btcnet)
			if err != nil {
				var me *wire.MessageError
				if errors.As(err, &me) {
					continue
				}
				return
			}
			select {
			case recv <- m:
			default:
			}
		}
	}()
	srv.Accept(svcSide)
	// every third session is a node BEHIND the service's tip: when the sync manager looks for a sync peer it strikes
	// such a node off its candidates (a write to the peer's shared sync state) while GET /network/peer iterates
	lastBlock := int32(1000)
	if seq%3 == 1 {
		lastBlock = 0
	}
	v := wire.NewMsgVersion(wire.NewNetAddress(nodeAddr, wire.SFNodeNetwork), wire.NewNetAddress(me, 0), 0xc15000000000+seq, lastBlock)
	v.Services = wire.SFNodeNetwork
	v.ProtocolVersion = int32(pver)
	_ = v.AddUserAgent(ua, "1.0")
	_ = nodeSide.SetWriteDeadline(time.Now().Add(2 * time.Second))
	if err := wire.WriteMessage(nodeSide, v, pver, btcnet); err != nil {
		return err
	}
	gotVer, gotAck := false, false
	deadline := time.After(2 * time.Second)
	for !(gotVer && gotAck) {
		select {
		case m, ok := <-recv:
			if !ok {
				if ua != "verif-c15" {
					return nil // turned away, as expected
				}
				return fmt.Errorf("closed during handshake")
			}
			switch m.(type) {
			case *wire.MsgVersion:
				gotVer = true
			case *wire.MsgVerAck:
				gotAck = true
			}
		case <-deadline:
			if ua != "verif-c15" {
				return nil
			}
			return fmt.Errorf("handshake timeout")
		}
	}
	if err := wire.WriteMessage(nodeSide, wire.NewMsgVerAck(), pver, btcnet); err != nil {
		return err
	}
	// every other session also asks for headers: the peer's input handler then consults the sync manager
	// (IsCurrent) from its own goroutine while other peers come and go
	if seq%2 == 0 {
		gh := wire.NewMsgGetHeaders()
		gh.ProtocolVersion = pver
		_ = gh.AddBlockLocatorHash(chaincfg.MainNetParams.GenesisHash)
		_ = nodeSide.SetWriteDeadline(time.Now().Add(2 * time.Second))
		_ = wire.WriteMessage(nodeSide, gh, pver, btcnet)
	}
	time.Sleep(linger)
	return nil
}

// c15Node is a scripted node that stays connected: handshake done, messages can be sent, closed on demand.
type c15Node struct {
	conn   *c15Conn
	btcnet wire.BitcoinNet
}

func (n *c15Node) send(m wire.Message) error {
	_ = n.conn.SetWriteDeadline(time.Now().Add(2 * time.Second))
	return wire.WriteMessage(n.conn, m, 70015, n.btcnet)
}

func c15Open(srv *p2p.VerifC06Server, btcnet wire.BitcoinNet, id int, seq uint64, lastBlock int32) (*c15Node, error) {
	a, b := net.Pipe()
	nodeAddr := &net.TCPAddr{IP: net.IPv4(10, 16, byte(id>>8), byte(id)), Port: 8333}
	me := &net.TCPAddr{IP: net.IPv4(10, 15, 255, 254), Port: 8333}
	svcSide := &c15Conn{Conn: a, local: me, remote: nodeAddr}
	nodeSide := &c15Conn{Conn: b, local: nodeAddr, remote: me}
	const pver = uint32(70015)
	recv := make(chan wire.Message, 64)
	go func() {
		defer close(recv)
		for {
			m, _, err := wire.ReadMessage(nodeSide, pver, btcnet)
			if err != nil {
				var me *wire.MessageError
				if errors.As(err, &me) {
					continue
				}
				return
			}
			select {
			case recv <- m:
			default:
			}
		}
	}()
	srv.Accept(svcSide)
	v := wire.NewMsgVersion(wire.NewNetAddress(nodeAddr, wire.SFNodeNetwork), wire.NewNetAddress(me, 0), 0xc16000000000+seq, lastBlock)
	v.Services = wire.SFNodeNetwork
	v.ProtocolVersion = int32(pver)
	_ = v.AddUserAgent("verif-c15", "1.0")
	n := &c15Node{conn: nodeSide, btcnet: btcnet}
	if err := n.send(v); err != nil {
		return nil, err
	}
	gotVer, gotAck := false, false
	deadline := time.After(2 * time.Second)
	for !(gotVer && gotAck) {
		select {
		case m, ok := <-recv:
			if !ok {
				return nil, fmt.Errorf("closed during handshake")
			}
			switch m.(type) {
			case *wire.MsgVersion:
				gotVer = true
			case *wire.MsgVerAck:
				gotAck = true
			}
		case <-deadline:
			return nil, fmt.Errorf("handshake timeout")
		}
	}
	if err := n.send(wire.NewMsgVerAck()); err != nil {
		return nil, err
	}
	return n, nil
}

// c15ChurnSequences: peer churn in a fixed ORDER (the free-running loop below never gets there: all its nodes report
// the same height).  Each sequence ends with a header delivered by a peer that is connected while the manager has
// NO sync peer (the sync peer left and the remaining peers were behind the tip when they connected / no peer was
// ever a candidate): the header must be stored and the process must live.  A step marker is printed before every
// step, so that a crash of the process shows where it happened.
func c15ChurnSequences(c *Ctx, s *Stack, srv *p2p.VerifC06Server, btcnet wire.BitcoinNet, tip *domains.BlockHeader) (*domains.BlockHeader, error) {
	seq := uint64(1000)
	open := func(id int, last int32) (*c15Node, error) {
		seq++
		n, err := c15Open(srv, btcnet, id, seq, last)
		srv.DrainServerQueues()
		time.Sleep(30 * time.Millisecond)
		return n, err
	}
	deliver := func(n *c15Node, what string, viaInv bool) error {
		next := domains.BlockHeaderSource{Version: 1, PrevBlock: tip.Hash, MerkleRoot: merkleBytes(4300 + int(seq)), Timestamp: time.Now(), Bits: bitsW2, Nonce: uint32(seq)}
		mh := wire.NewMsgHeaders()
		bh := wire.BlockHeader(next)
		_ = mh.AddBlockHeader(&bh)
		if viaInv {
			// announce first, as nodes do for a new block; then answer whatever follows with the header
			inv := wire.NewMsgInv()
			hh := chainhash.Hash(service.DefaultBlockHasher().BlockHash(&next))
			_ = inv.AddInvVect(wire.NewInvVect(wire.InvTypeBlock, &hh))
			if err := n.send(inv); err != nil {
				return fmt.Errorf("%s: inv: %w", what, err)
			}
			time.Sleep(30 * time.Millisecond)
		}
		if err := n.send(mh); err != nil {
			return fmt.Errorf("%s: headers: %w", what, err)
		}
		for w := 0; w < 200; w++ {
			t := s.Services.Headers.GetTip()
			if t != nil && t.PreviousBlock == tip.Hash {
				tip = t
				return nil
			}
			time.Sleep(10 * time.Millisecond)
		}
		return fmt.Errorf("%s: header delivered by a connected peer was not stored within 2 s", what)
	}
	for round, viaInv := range []bool{false, true, false} {
		fmt.Printf("C15peers churn sequence %d step 1: node S (ahead of us) connects and becomes the sync peer\n", round)
		sp, err := open(201+round*10, tip.Height+50)
		if err != nil {
			return tip, fmt.Errorf("sequence %d: S: %w", round, err)
		}
		fmt.Printf("C15peers churn sequence %d step 2: node L (behind our tip) connects: not a sync candidate\n", round)
		lp, err := open(202+round*10, 0)
		if err != nil {
			return tip, fmt.Errorf("sequence %d: L: %w", round, err)
		}
		if round == 2 {
			fmt.Printf("C15peers churn sequence %d step 2b: a second lagging node connects and leaves\n", round)
			if x, err := open(203+round*10, 0); err == nil {
				x.conn.Close()
				srv.DrainServerQueues()
			}
		}
		fmt.Printf("C15peers churn sequence %d step 3: S disconnects: no candidate is left, the manager has no sync peer\n", round)
		sp.conn.Close()
		srv.DrainServerQueues()
		time.Sleep(80 * time.Millisecond)
		srv.DrainServerQueues()
		fmt.Printf("C15peers churn sequence %d step 4: L delivers a new header (announced first: %v)\n", round, viaInv)
		if err := deliver(lp, fmt.Sprintf("sequence %d", round), viaInv); err != nil {
			return tip, err
		}
		fmt.Printf("C15peers churn sequence %d step 5: L disconnects\n", round)
		lp.conn.Close()
		srv.DrainServerQueues()
		time.Sleep(30 * time.Millisecond)
	}
	return tip, nil
}

func runC15Peers(c *Ctx) error {
	s, err := NewStack(StackOpts{Dir: c.TmpDir("c15peers")})
	if err != nil {
		return err
	}
	defer s.Close()
	lg := zerolog.Nop()
	prm := chaincfg.MainNetParams
	// a "current" service (its tip is recent and not below the last checkpoint): only then do getheaders requests of
	// peers reach the part of the sync manager that looks at the sync peer.  One checkpoint = genesis; one header
	// stamped now on top of it.
	cps := []chaincfg.Checkpoint{{Height: 0, Hash: prm.GenesisHash}}
	config.Checkpoints = cps
	if config.TimeSource == nil {
		config.TimeSource = config.NewMedianTime(&lg)
	}
	fresh := domains.BlockHeaderSource{Version: 1, PrevBlock: *prm.GenesisHash, MerkleRoot: merkleBytes(4242), Timestamp: time.Now(), Bits: bitsW2, Nonce: 1}
	freshHdr, err := s.Services.Chains.Add(fresh)
	if err != nil || freshHdr == nil {
		return fmt.Errorf("c15peers: storing a current tip: %w", err)
	}
	// the shared map, wired as in cmd/main.go: NetworkService and SyncManager get the same map value
	peers := map[*peerpkg.Peer]*peerpkg.SyncState{}
	svc := *s.Services
	svc.Headers = service.NewHeaderService(s.Repo, nil, &lg)
	svc.Network = service.NewNetworkService(peers)
	srv, err := p2p.VerifC06NewServerWithPeers(&prm, &svc, cps, false, peers)
	if err != nil {
		return err
	}
	var engine *gin.Engine
	hsrv := httpserver.NewHTTPServer(s.Cfg.HTTP, &lg)
	hsrv.ApplyConfiguration(endpoints.SetupRoutes(&svc, s.Cfg.HTTP))
	hsrv.ApplyConfiguration(func(e *gin.Engine) { engine = e })
	s.Engine = engine
	sm := srv.SM()
	sm.Start()
	defer sm.Stop()

	churnObs := "stored"
	if _, err := c15ChurnSequences(c, s, srv, prm.Net, freshHdr); err != nil {
		churnObs = "FAILED " + err.Error()
		fmt.Printf("C15peers churn sequence failed: %v\n", err)
	}
	c.Case("c15peers churn sequences: sync peer leaves, lagging peer remains and delivers a header", churnObs)
	if churnObs != "stored" {
		return fmt.Errorf("c15peers: %s", churnObs)
	}
	dur := time.Duration(c.Pick(2000, 6000)) * time.Millisecond
	stop := time.Now().Add(dur)
	var wg sync.WaitGroup
	var sessions, sessionErrs, requests, fivexx uint64
	var seq uint64
	nNodes, nReaders := 6, 4
	for i := 0; i < nNodes; i++ {
		wg.Add(1)
		go func(id int) {
			defer wg.Done()
			for time.Now().Before(stop) {
				if err := c15Session(srv, prm.Net, id, atomic.AddUint64(&seq, 1), time.Duration(1+id)*time.Millisecond); err != nil {
					atomic.AddUint64(&sessionErrs, 1)
				}
				atomic.AddUint64(&sessions, 1)
				srv.DrainServerQueues()
			}
		}(i + 1)
	}
	for i := 0; i < nReaders; i++ {
		wg.Add(1)
		go func() {
			defer wg.Done()
			for time.Now().Before(stop) {
				code, _ := s.Do("GET", "/api/v1/network/peer", "", nil)
				atomic.AddUint64(&requests, 1)
				if code >= 500 {
					atomic.AddUint64(&fivexx, 1)
				}
				code, _ = s.Do("GET", "/api/v1/network/peer/count", "", nil)
				if code >= 500 {
					atomic.AddUint64(&fivexx, 1)
				}
			}
		}()
	}
	// watchdog: a deadlock (a lock left held, a goroutine waiting for ever) must end as a failure of this run, not as
	// a hang of the harness
	fin := make(chan struct{})
	go func() { wg.Wait(); close(fin) }()
	select {
	case <-fin:
	case <-time.After(dur + 15*time.Second):
		return fmt.Errorf("c15peers: HANG - sessions or GET /network/peer requests still blocked %s after the end of the run (sessions=%d requests=%d)", 15*time.Second, atomic.LoadUint64(&sessions), atomic.LoadUint64(&requests))
	}
	time.Sleep(100 * time.Millisecond)
	obs := "no-5xx"
	if fivexx > 0 {
		obs = fmt.Sprintf("5xx=%d", fivexx)
	}
	c.Case("c15peers free-running peer churn vs GET /api/v1/network/peer", obs)
	c.Meta("c15peers", fmt.Sprintf("sessions=%d session_errors=%d requests=%d 5xx=%d duration=%s", sessions, sessionErrs, requests, fivexx, dur))
	fmt.Printf("C15peers: sessions=%d session_errors=%d requests=%d 5xx=%d\n", sessions, sessionErrs, requests, fivexx)
	return nil
}
