//go:build verif

package main

// C07 runner: forbidden headers and checkpoint-contradicting headers at every position of a batch, against both
// real engines through the C06 rig (c06_rig.go).  Families:
//   forb     a peer whose chain contains a forbidden header at position j (every j), every batch alignment (caps),
//            assorted checkpoint lists (0..n), with / without an honest second peer, from genesis or a prefix store
//   desc     children of a forbidden header delivered by a peer that never sends the forbidden header itself
//   cpbad    a header that contradicts the checkpoint at its height, at every position of a batch
//   cpok     honest linear chains under 0..n checkpoints (also one at the tip): the cursor advances, the last request is unbounded
//   forb-twice  the SAME forbidden hash reaches the service again: from a second / third peer (as the first header of a reply, or
//            at every position of an unsolicited batch), both engines (the experimental engine over successive connections)
//   cp-overshoot  a headers message that runs 1..k headers PAST the expected checkpoint (a conformant reply never does), then
//            the rest of the sender's chain, which contradicts the NEXT checkpoint (or honestly matches it)
//   exp-interleaved  2-3 experimental-engine peers connected AT THE SAME TIME (own checkpoint tracker each, shared store), batches
//            interleaved by the script: peer A passes checkpoint k, then peer B delivers a header contradicting k (stale, or with
//            0..2 children, reorg-winning or not), or a forbidden one, or is an honest lagging peer (also announcing a new block)
//   cp-restart  the initial store already reaches ABOVE the last (or an inner) checkpoint - the state after a restart; a peer then
//            delivers a side branch that forks off below a checkpoint (light or heavy, as a reply or pushed), both engines
//   takeover  past the last checkpoint / without checkpoints / checkpoints disabled: the sync peer sends a forbidden or a
//            checkpoint-contradicting header (last or inner checkpoint: the tip is left exactly on a checkpoint height) and is
//            dropped; an honest peer takes over and must be synced from (last clause of C07); experimental engine: the honest
//            peer's session starts after the drop
//   desc-long  more orphan descendants of a forbidden header (pseudo heights 1..k, relayed by a second peer) than the honest chain
//            is high, then an honest peer of a height between the tip and k
//   forb-orphan  the forbidden header arrives while its parent is unknown: a batch with a gap in front of it, a batch that starts
//            beyond the tip with it, a foreign-branch push; followed by its children; both engines
//   random   seeded mixtures of the above ingredients

import (
	"fmt"
	"math/rand"
)

func init() { register("C07", runC07) }

type c07gen struct {
	c    *Ctx
	s    *Stack
	seen map[string]bool
}

func (g *c07gen) do(sc *Scenario, tag string) error {
	key := sc.Line()
	if g.seen[key] {
		return nil
	}
	g.seen[key] = true
	obs, hints, err := RunScenario(g.s, sc)
	if err != nil {
		return fmt.Errorf("scenario %s: %w", sc.Line(), err)
	}
	sc.Hints = hints
	g.c.Case(sc.Line(), obs)
	g.c.Count("family:" + tag)
	g.c.Count("engine:" + sc.Eng)
	g.c.Count(fmt.Sprintf("checkpoints:%d", len(sc.Cps)))
	g.c.Count(fmt.Sprintf("peers:%d", len(sc.Nodes)))
	if len(sc.U.Forbidden) > 0 {
		g.c.Count("has:forbidden")
	}
	return nil
}

// checkpoint lists for a chain whose header at height h has id idAt(h), heights 1..n
func cpLists(n int, idAt func(int) int, r *rand.Rand) [][]cpSpec {
	out := [][]cpSpec{nil}
	if n >= 1 {
		out = append(out, []cpSpec{{1, idAt(1)}}, []cpSpec{{n, idAt(n)}})
	}
	if n >= 3 {
		out = append(out, []cpSpec{{2, idAt(2)}, {n, idAt(n)}}, []cpSpec{{1, idAt(1)}, {2, idAt(2)}, {3, idAt(3)}})
	}
	if n >= 2 {
		var l []cpSpec
		for h := 1; h <= n; h++ {
			if r.Intn(2) == 0 {
				l = append(l, cpSpec{h, idAt(h)})
			}
		}
		out = append(out, l)
	}
	return out
}

func runC07(c *Ctx) error {
	s, err := NewStack(StackOpts{Dir: c.TmpDir("c07")})
	if err != nil {
		return err
	}
	defer s.Close()
	g := &c07gen{c: c, s: s, seen: map[string]bool{}}
	if c.Only != "" {
		sc, err := ParseScenario(c.Only)
		if err != nil {
			return err
		}
		return g.do(sc, "only")
	}
	for _, l := range corpusLines(c, "C07") {
		sc, err := ParseScenario(l)
		if err != nil {
			return fmt.Errorf("corpus line %q: %w", l, err)
		}
		if err := g.do(sc, "corpus"); err != nil {
			return err
		}
	}
	engines := []string{"d", "x"}

	// ---- forb: forbidden header at every position j of the bad branch, every batch alignment ----
	maxBad := c.Pick(4, 6)
	for _, eng := range engines {
		for a := 0; a <= 2; a++ {
			for k := 1; k <= maxBad; k++ {
				for j := 1; j <= k; j++ {
					u, pre, good, bad := forkUniverse(a, k+2, k, tsOld)
					u.Forbidden = []int{bad[j-1]}
					caps := []int{1, 2, j, a + j, 2000}
					for ci, cp := range caps {
						if cp < 1 {
							continue
						}
						// checkpoint lists along the bad peer's own chain (consistent with it up to the forbidden header) or none
						idAt := func(h int) int {
							if h <= a {
								return pre[h-1]
							}
							return bad[h-a-1]
						}
						var cps []cpSpec
						switch (ci + j + k) % 4 {
						case 1:
							cps = []cpSpec{{a + j, idAt(a + j)}} // the forbidden header is itself a checkpoint
						case 2:
							if a+j > 1 {
								cps = []cpSpec{{a + j - 1, idAt(a + j - 1)}}
							}
						case 3:
							cps = []cpSpec{{a + k + 1, 999}} // beyond the chain
						}
						initStore := [][]int{nil}
						if a > 0 {
							initStore = append(initStore, pre)
						}
						for _, ini := range initStore {
							// single misbehaving peer
							sc := &Scenario{Eng: eng, Cps: cps, U: u, Init: ini,
								Nodes: []*nodeSpec{{P: 1, Cap: cp, Chain: catInts(pre, bad)}}, Cmds: []string{"C1", "R40"}}
							if err := g.do(sc, "forb"); err != nil {
								return err
							}
						}
						if eng == "d" && ci%2 == 0 {
							// with an honest peer: connected before / after / in between
							for v, cmds := range [][]string{{"C1", "C2", "R60"}, {"C2", "C1", "R60"}, {"C1", "R40", "C2", "R60"}} {
								var hc []cpSpec
								if v == 1 {
									hc = []cpSpec{{a + 1, good[0]}}
								}
								sc := &Scenario{Eng: eng, Cps: hc, U: u,
									Nodes: []*nodeSpec{{P: 1, Cap: cp, Chain: catInts(pre, bad)}, {P: 2, Cap: 2000, Chain: catInts(pre, good)}}, Cmds: cmds}
								if err := g.do(sc, "forb+honest"); err != nil {
									return err
								}
							}
							// the misbehaving peer is not the sync peer: it pushes its branch unsolicited
							sc := &Scenario{Eng: eng, U: u,
								Nodes: []*nodeSpec{{P: 1, Cap: cp, Chain: pre, Reserve: bad}, {P: 2, Cap: 2000, Chain: catInts(pre, good)}},
								Cmds:  []string{"C2", "R60", "C1", fmt.Sprintf("A1.%d.h", k), "R60"}}
							if err := g.do(sc, "forb-unsolicited"); err != nil {
								return err
							}
						}
					}
				}
			}
		}
	}

	// ---- desc: children of a forbidden header, the forbidden header itself is never delivered ----
	for _, eng := range engines {
		for a := 0; a <= 2; a++ {
			for k := 2; k <= 4; k++ {
				u, pre, good, bad := forkUniverse(a, 2, k, tsOld)
				u.Forbidden = []int{bad[0]}
				sc := &Scenario{Eng: eng, U: u, Nodes: []*nodeSpec{{P: 1, Cap: 2000, Chain: catInts(pre, good), Reserve: bad[1:]}},
					Cmds: []string{"C1", "R40", fmt.Sprintf("A1.%d.h", k-1), "R40"}}
				if err := g.do(sc, "desc"); err != nil {
					return err
				}
				if eng == "d" {
					sc := &Scenario{Eng: eng, U: u, Init: pre,
						Nodes: []*nodeSpec{{P: 1, Cap: 2000, Chain: catInts(pre, good)}, {P: 2, Cap: 2000, Chain: pre, Reserve: bad[1:]}},
						Cmds:  []string{"C1", "R40", "C2", fmt.Sprintf("A2.%d.h", k-1), "R40", "A2.5.h", "R10"}}
					if err := g.do(sc, "desc"); err != nil {
						return err
					}
				}
			}
		}
	}

	// ---- cpbad: a header contradicting the checkpoint at its height, every position, every batch alignment ----
	for _, eng := range engines {
		for a := 0; a <= 2; a++ {
			for k := 1; k <= maxBad; k++ {
				for j := 1; j <= k; j++ {
					u, pre, good, bad := forkUniverse(a, k+2, k, tsOld)
					for ci, cp := range []int{1, 2, j, 2000} {
						cps := []cpSpec{{a + j, good[j-1]}}
						if a > 0 && ci%2 == 1 {
							cps = append([]cpSpec{{a, pre[a-1]}}, cps...)
						}
						if ci >= 2 {
							cps = append(cps, cpSpec{a + k + 2, good[k+1]})
						}
						sc := &Scenario{Eng: eng, Cps: cps, U: u,
							Nodes: []*nodeSpec{{P: 1, Cap: cp, Chain: catInts(pre, bad)}}, Cmds: []string{"C1", "R40"}}
						if err := g.do(sc, "cpbad"); err != nil {
							return err
						}
						if eng == "d" && ci != 1 {
							for _, cmds := range [][]string{{"C1", "C2", "R80"}, {"C1", "R40", "C2", "R80"}} {
								sc := &Scenario{Eng: eng, Cps: cps, U: u,
									Nodes: []*nodeSpec{{P: 1, Cap: cp, Chain: catInts(pre, bad)}, {P: 2, Cap: 2000, Chain: catInts(pre, good)}}, Cmds: cmds}
								if err := g.do(sc, "cpbad+honest"); err != nil {
									return err
								}
							}
						}
					}
				}
			}
		}
	}

	// ---- cpok: honest linear chains under 0..n checkpoints ----
	for _, eng := range engines {
		for n := 1; n <= c.Pick(6, 9); n++ {
			u := &History{Subs: linearSubs(2, genesisID, n, bitsW2, tsOld)}
			for _, cps := range cpLists(n, func(h int) int { return h + 1 }, c.Rng) {
				for _, cp := range []int{1, 2, 3, 2000} {
					for _, k0 := range []int{0, n / 2} {
						sc := &Scenario{Eng: eng, Cps: cps, U: u, Init: seqInts(2, k0),
							Nodes: []*nodeSpec{{P: 1, Cap: cp, Chain: seqInts(2, n)}}, Cmds: []string{"C1", "R60"}}
						if err := g.do(sc, "cpok"); err != nil {
							return err
						}
					}
				}
			}
		}
	}

	// ---- forb-twice: the same forbidden hash is delivered again by other connections ----
	for _, eng := range engines {
		for a := 0; a <= 1; a++ {
			for k := 2; k <= c.Pick(3, 5); k++ {
				for j := 1; j <= k; j++ {
					u, pre, _, bad := forkUniverse(a, 1, k, tsOld)
					u.Forbidden = []int{bad[j-1]}
					full := catInts(pre, bad)
					for _, cp1 := range []int{2000, 1} {
						// P1 delivers [.., F, D..]; P2 (same chain) is asked from the tip and answers [F, D..];
						// P3 never asked, pushes the whole branch: F at position j of its batch
						n1 := &nodeSpec{P: 1, Cap: cp1, Chain: full}
						n2 := &nodeSpec{P: 2, Cap: 2000, Chain: full}
						n3 := &nodeSpec{P: 3, Cap: 2000, Chain: pre, Reserve: bad}
						push := fmt.Sprintf("A3.%d.h", k)
						var scripts [][]string
						if eng == "d" {
							scripts = [][]string{{"C1", "R40", "C2", "R40"}, {"C1", "C2", "R60"}, {"C1", "R40", "C3", push, "R40"},
								{"C1", "R40", "C2", "R40", "C3", push, "R40"}, {"C3", push, "R40", "C1", "R40", "C2", "R40"}}
						} else {
							scripts = [][]string{{"C1", "R40", "C2", "R40"}, {"C1", "R40", "C3", push, "R40"}, {"C1", "R40", "C2", "R40", "C3", push, "R40"}}
						}
						for _, cmds := range scripts {
							sc := &Scenario{Eng: eng, U: u, Nodes: []*nodeSpec{n1, n2, n3}, Cmds: cmds}
							if err := g.do(sc, "forb-twice"); err != nil {
								return err
							}
						}
					}
				}
			}
		}
	}

	// ---- cp-overshoot: a headers message runs past the expected checkpoint ----
	for _, eng := range engines {
		for h1 := 1; h1 <= 3; h1++ {
			for over := 1; over <= c.Pick(2, 3); over++ {
				for gap := 1; gap <= 2; gap++ {
					h2 := h1 + over + gap // the next checkpoint's height, beyond the overshoot
					n := h2 + 2
					// good chain ids 100..; the sender follows it up to h2-1 and then its own branch 200..
					u := &History{}
					u.Subs = append(u.Subs, linearSubs(100, genesisID, n, bitsW2, tsOld)...)
					u.Subs = append(u.Subs, linearSubs(200, 100+h2-2, 3, bitsW2, tsOld)...)
					good := seqInts(100, n)
					cps := []cpSpec{{h1, good[h1-1]}, {h2, good[h2-1]}}
					for _, contradict := range []bool{true, false} {
						var tail []int
						if contradict {
							tail = catInts(good[h1+over:h2-1], seqInts(200, 3))
						} else {
							tail = good[h1+over:]
						}
						first := good[h1-1 : h1+over] // the checkpoint header and `over` more
						node := &nodeSpec{P: 1, Cap: 2000, Chain: good[:h1-1], Reserve: catInts(first, tail)}
						cmds := []string{"C1", "R20", fmt.Sprintf("A1.%d.h", len(first)), "R20", fmt.Sprintf("A1.%d.h", len(tail)), "R20"}
						sc := &Scenario{Eng: eng, Cps: cps, U: u, Nodes: []*nodeSpec{node}, Cmds: cmds}
						if err := g.do(sc, "cp-overshoot"); err != nil {
							return err
						}
						if eng == "d" {
							// a second, conformant peer with the good chain takes over afterwards
							n2 := &nodeSpec{P: 2, Cap: 2000, Chain: good}
							sc := &Scenario{Eng: eng, Cps: cps, U: u, Nodes: []*nodeSpec{node, n2}, Cmds: append(append([]string{}, cmds...), "C2", "R60")}
							if err := g.do(sc, "cp-overshoot"); err != nil {
								return err
							}
						}
					}
				}
			}
		}
	}

	// ---- exp-interleaved: simultaneously connected experimental peers, interleaved deliveries ----
	for a := 0; a <= 2; a++ { // prefix length = position of the contradicting header in B's batch
		k := a + 1 // checkpoint height
		for children := 0; children <= 2; children++ {
			for _, heavy := range []bool{false, true} {
				for _, aAhead := range []int{0, 2} { // how far A runs beyond the checkpoint before B delivers
					gl := 4
					u := &History{}
					prev := genesisID
					if a > 0 {
						u.Subs = append(u.Subs, linearSubs(2, genesisID, a, bitsW2, tsOld)...)
						prev = a + 1
					}
					u.Subs = append(u.Subs, linearSubs(100, prev, gl+1, bitsW2, tsOld)...)
					bits := bitsW2
					if heavy {
						bits = bitsW8
					}
					u.Subs = append(u.Subs, linearSubs(200, prev, 1+children, bits, tsOld)...)
					pre, good, bad := seqInts(2, a), seqInts(100, gl), seqInts(200, 1+children)
					cpsV := [][]cpSpec{{{k, good[0]}}, {{k, good[0]}, {k + 2, good[2]}}}
					for ci, cps := range cpsV {
						nA := &nodeSpec{P: 1, Cap: 2000, Chain: catInts(pre, good), Reserve: []int{100 + gl}}
						nB := &nodeSpec{P: 2, Cap: 2000, Chain: catInts(pre, bad)}
						nC := &nodeSpec{P: 3, Cap: 2000, Chain: catInts(pre, good), Reserve: []int{100 + gl}}
						lead := []string{"C1", "C2", "D1"}
						for d := 0; d < aAhead; d++ {
							lead = append(lead, "D1")
						}
						// B after A passed the checkpoint
						sc := &Scenario{Eng: "x", Cps: cps, U: u, Nodes: []*nodeSpec{nA, nB}, Cmds: append(append([]string{}, lead...), "D2", "R20")}
						if err := g.do(sc, "exp-interleaved"); err != nil {
							return err
						}
						// control: B first (the contradicting header arrives before anybody delivered the matching one)
						sc = &Scenario{Eng: "x", Cps: cps, U: u, Nodes: []*nodeSpec{nA, nB}, Cmds: []string{"C1", "C2", "D2", "D1", "R20"}}
						if err := g.do(sc, "exp-interleaved"); err != nil {
							return err
						}
						if ci == 0 {
							// the contradicting header alone first (stale), its children in a later message
							nB2 := &nodeSpec{P: 2, Cap: 2000, Chain: catInts(pre, bad[:1]), Reserve: bad[1:]}
							cm := append(append([]string{}, lead...), "D2", "R10")
							if children > 0 {
								cm = append(cm, fmt.Sprintf("A2.%d.h", children), "R10")
							}
							sc = &Scenario{Eng: "x", Cps: cps, U: u, Nodes: []*nodeSpec{nA, nB2}, Cmds: cm}
							if err := g.do(sc, "exp-interleaved"); err != nil {
								return err
							}
							// three peers: honest A, fork B, honest lagging C (C also announces a new block at the end)
							sc = &Scenario{Eng: "x", Cps: cps, U: u, Nodes: []*nodeSpec{nA, nB, nC},
								Cmds: append(append([]string{"C1", "C2", "C3"}, lead[2:]...), "D3", "D2", "R20", "A3.1.h", "R10", "A1.1.h", "R10")}
							if err := g.do(sc, "exp-interleaved"); err != nil {
								return err
							}
							// forbidden instead of contradicting: the first header of B's branch is on the forbidden list
							uf := &History{Subs: u.Subs, Forbidden: []int{bad[0]}}
							sc = &Scenario{Eng: "x", Cps: cps, U: uf, Nodes: []*nodeSpec{nA, nB}, Cmds: append(append([]string{}, lead...), "D2", "R20")}
							if err := g.do(sc, "exp-interleaved"); err != nil {
								return err
							}
						}
					}
				}
			}
		}
	}
	// honest peers only: a second honest peer after the first passed the checkpoint; caps so that the two alternate
	for _, caps := range [][2]int{{2000, 2000}, {1, 2000}, {2, 1}, {1, 1}} {
		u := &History{Subs: linearSubs(2, genesisID, 6, bitsW2, tsOld)}
		for _, cps := range [][]cpSpec{{{2, 3}}, {{2, 3}, {4, 5}}, nil} {
			n1 := &nodeSpec{P: 1, Cap: caps[0], Chain: seqInts(2, 5), Reserve: []int{7}}
			n2 := &nodeSpec{P: 2, Cap: caps[1], Chain: seqInts(2, 5), Reserve: []int{7}}
			for _, cmds := range [][]string{{"C1", "C2", "D1", "D2", "D1", "D2", "R30", "A2.1.h", "R10", "A1.1.h", "R10"},
				{"C1", "C2", "R30", "A2.1.h", "R10"}, {"C1", "D1", "C2", "D2", "D1", "R30", "A1.1.h", "A2.1.h", "R10"}} {
				sc := &Scenario{Eng: "x", Cps: cps, U: u, Nodes: []*nodeSpec{n1, n2}, Cmds: cmds}
				if err := g.do(sc, "exp-interleaved-honest"); err != nil {
					return err
				}
			}
		}
	}

	// ---- cp-restart: the store starts above the last / an inner checkpoint; a fork across a checkpoint height arrives ----
	for _, eng := range engines {
		gl := 7
		for _, heavy := range []bool{false, true} {
			for _, flen := range []int{1, 2, 5} { // fork length (from height 2 on)
				u := &History{}
				u.Subs = append(u.Subs, linearSubs(100, genesisID, gl, bitsW2, tsOld)...)
				bits := bitsW2
				if heavy {
					bits = bitsW8
				}
				u.Subs = append(u.Subs, linearSubs(200, 100, flen, bits, tsOld)...) // forks off after height 1
				good := seqInts(100, gl)
				fork := catInts(good[:1], seqInts(200, flen))
				for _, cps := range [][]cpSpec{{{2, good[1]}}, {{2, good[1]}, {6, good[5]}}, {{1, good[0]}, {3, good[2]}}} {
					for _, k0 := range []int{3, 4} { // initial store: good[:k0]
						nF := &nodeSpec{P: 1, Cap: 2000, Chain: fork}
						nFp := &nodeSpec{P: 1, Cap: 2000, Chain: good[:1], Reserve: seqInts(200, flen)}
						nH := &nodeSpec{P: 2, Cap: 2000, Chain: good}
						// the fork peer alone (as reply if it is asked at all), and pushing its branch unsolicited
						sc := &Scenario{Eng: eng, Cps: cps, U: u, Init: good[:k0], Nodes: []*nodeSpec{nF}, Cmds: []string{"C1", "R30"}}
						if err := g.do(sc, "cp-restart"); err != nil {
							return err
						}
						sc = &Scenario{Eng: eng, Cps: cps, U: u, Init: good[:k0], Nodes: []*nodeSpec{nFp}, Cmds: []string{"C1", "R30", fmt.Sprintf("A1.%d.h", flen), "R30"}}
						if err := g.do(sc, "cp-restart"); err != nil {
							return err
						}
						// with an honest peer, before and after
						for _, cmds := range [][]string{{"C2", "R30", "C1", fmt.Sprintf("A1.%d.h", flen), "R30"}, {"C1", fmt.Sprintf("A1.%d.h", flen), "R30", "C2", "R30"}} {
							sc = &Scenario{Eng: eng, Cps: cps, U: u, Init: good[:k0], Nodes: []*nodeSpec{nFp, nH}, Cmds: cmds}
							if err := g.do(sc, "cp-restart"); err != nil {
								return err
							}
						}
					}
				}
			}
		}
	}

	// ---- takeover: no checkpoint ahead when the sync peer is dropped; an honest peer must be synced from afterwards ----
	for _, a := range []int{1, 3} {
		for _, k := range []int{1, 3} {
			u, pre, good, bad := forkUniverse(a, k+3, k, tsOld)
			type tv struct {
				dis  bool
				cps  []cpSpec
				forb []int
				tag  string
			}
			variants := []tv{
				{false, nil, []int{bad[k-1]}, "no checkpoints, forbidden"},
				{true, []cpSpec{{1, 999}}, []int{bad[0]}, "checkpoints disabled, forbidden"},
				{false, []cpSpec{{1, pre[0]}}, []int{bad[k-1]}, "past the last checkpoint, forbidden"},
				{false, []cpSpec{{a, pre[a-1]}, {a + 1, good[0]}}, nil, "contradicts the last checkpoint"},
				// the contradicting header becomes the tip AT the height of a checkpoint that is not the last one: whoever is asked
				// next starts with the tip exactly on a checkpoint height
				{false, []cpSpec{{a + 1, good[0]}, {a + 3, good[2]}}, nil, "contradicts an inner checkpoint"},
				{false, []cpSpec{{a + 1, good[0]}, {a + 2, good[1]}, {a + k + 3, good[k+2]}}, nil, "contradicts an inner checkpoint, the next one adjacent"},
			}
			for _, v := range variants {
				uu := &History{Subs: u.Subs, Forbidden: v.forb}
				n1 := &nodeSpec{P: 1, Cap: 2000, Chain: catInts(pre, bad)}
				n2 := &nodeSpec{P: 2, Cap: 2000, Chain: catInts(pre, good)}
				n3 := &nodeSpec{P: 3, Cap: 1, Chain: catInts(pre, good)}
				for _, cmds := range [][]string{{"C1", "C2", "R60"}, {"C1", "R40", "C2", "R60"}, {"C1", "C3", "R90"}} {
					nodes := []*nodeSpec{n1, n2}
					if cmds[1] == "C3" {
						nodes = []*nodeSpec{n1, n3}
					}
					sc := &Scenario{Eng: "d", Dis: v.dis, Cps: v.cps, U: uu, Nodes: nodes, Cmds: cmds}
					if err := g.do(sc, "takeover"); err != nil {
						return err
					}
				}
				// experimental engine: every connection is its own session; the honest peer's session starts after the drop
				// (the tracker of the new session is created from the tip the contained header left behind)
				if !v.dis {
					n4 := &nodeSpec{P: 3, Cap: 2, Chain: catInts(pre, good)}
					for _, cmds := range [][]string{{"C1", "R40", "C2", "R60"}, {"C1", "R40", "C3", "R90"}, {"C1", "D1", "C2", "R60"}} {
						nodes := []*nodeSpec{n1, n2}
						if cmds[2] == "C3" {
							nodes = []*nodeSpec{n1, n4}
						}
						sc := &Scenario{Eng: "x", Cps: v.cps, U: uu, Nodes: nodes, Cmds: cmds}
						if err := g.do(sc, "takeover-exp"); err != nil {
							return err
						}
					}
				}
			}
		}
	}

	// ---- desc-long: a second peer relays MORE descendants of a forbidden header (stored as orphans with pseudo heights 1..k) than
	//      the honest chain is high; the sender of the forbidden header itself is banned; an honest peer whose height lies between
	//      the tip and k must still be synced from (last clause of C07) ----
	for _, a := range []int{1, 3} {
		for _, yx := range [][2]int{{2, 6}, {5, 13}} {
			y, x := yx[0], yx[1]
			u, pre, good, bad := forkUniverse(a, y, x, tsOld)
			u.Forbidden = []int{bad[0]}
			n1 := &nodeSpec{P: 1, Cap: 2000, Chain: catInts(pre, bad[:1])}
			n2 := &nodeSpec{P: 2, Cap: 2000, Chain: catInts(pre, bad[1:])} // the descendants without the forbidden header
			n3 := &nodeSpec{P: 3, Cap: 2000, Chain: catInts(pre, good)}
			for _, cmds := range [][]string{
				{"C1", "R40", "C2", "R40", "X2", "R10", "C3", "R60"},
				{"C2", "R40", "X2", "R10", "C1", "R40", "C3", "R60"},
				{"C1", "R40", "C2", "R40", "C3", "X2", "R60"},
				{"C1", "R40", "C2", "R40", "S2", "C3", "R20", "T0", "T1", "R60"},
			} {
				for _, cps := range [][]cpSpec{nil, {{a, pre[a-1]}}} {
					sc := &Scenario{Eng: "d", Cps: cps, U: u, Nodes: []*nodeSpec{n1, n2, n3}, Cmds: cmds}
					if err := g.do(sc, "desc-long"); err != nil {
						return err
					}
				}
			}
		}
	}

	// ---- forb-orphan: the forbidden header's parent is unknown when it arrives ----
	for _, eng := range engines {
		for a := 0; a <= 1; a++ {
			for k := 2; k <= 4; k++ {
				for j := 2; j <= k; j++ { // the forbidden header is bad[j-1]; its parent bad[j-2] is never delivered
					u, pre, good, bad := forkUniverse(a, 3, k, tsOld)
					u.Forbidden = []int{bad[j-1]}
					gap := catInts(pre, bad[:j-2], bad[j-1:]) // the chain as the peer lists it: bad[j-2] left out
					beyond := bad[j-1:]                        // a batch that starts with the forbidden header itself
					for _, cp := range []int{2000, 1} {
						sc := &Scenario{Eng: eng, U: u, Nodes: []*nodeSpec{{P: 1, Cap: cp, Chain: gap}}, Cmds: []string{"C1", "R40"}}
						if err := g.do(sc, "forb-orphan"); err != nil {
							return err
						}
					}
					sc := &Scenario{Eng: eng, U: u, Init: pre, Nodes: []*nodeSpec{{P: 1, Cap: 2000, Chain: beyond}}, Cmds: []string{"C1", "R40"}}
					if err := g.do(sc, "forb-orphan"); err != nil {
						return err
					}
					// pushed by a peer that is not asked (default engine: behind an honest sync peer), checkpoint ahead or not
					for _, cps := range [][]cpSpec{nil, {{a + 2, good[1]}}} {
						nodes := []*nodeSpec{{P: 1, Cap: 2000, Chain: pre, Reserve: beyond}}
						cmds := []string{"C1", "R20", fmt.Sprintf("A1.%d.h", len(beyond)), "R20"}
						if eng == "d" {
							nodes = []*nodeSpec{{P: 2, Cap: 2000, Chain: catInts(pre, good)}, {P: 1, Cap: 2000, Chain: pre, Reserve: beyond}}
							cmds = []string{"C2", "R40", "C1", fmt.Sprintf("A1.%d.h", len(beyond)), "R20"}
						}
						sc := &Scenario{Eng: eng, Cps: cps, U: u, Nodes: nodes, Cmds: cmds}
						if err := g.do(sc, "forb-orphan"); err != nil {
							return err
						}
					}
				}
			}
		}
	}

	// ---- random mixtures ----
	nr := c.Pick(300, 4000)
	for i := 0; i < nr; i++ {
		r := c.Rng
		eng := engines[r.Intn(2)]
		a, k := r.Intn(4), 1+r.Intn(6)
		gl := k + r.Intn(3)
		u, pre, good, bad := forkUniverse(a, gl, k, tsOld)
		var cps []cpSpec
		if a > 0 && r.Intn(2) == 0 {
			h := 1 + r.Intn(a)
			cps = append(cps, cpSpec{h, pre[h-1]})
		}
		switch r.Intn(4) {
		case 0:
			h := 1 + r.Intn(gl)
			cps = append(cps, cpSpec{a + h, good[h-1]})
		case 1:
			h := 1 + r.Intn(k)
			cps = append(cps, cpSpec{a + h, bad[h-1]})
		case 2:
			h := 1 + r.Intn(gl)
			cps = append(cps, cpSpec{a + h, good[h-1]})
			if h < gl {
				cps = append(cps, cpSpec{a + gl, good[gl-1]})
			}
		}
		if r.Intn(2) == 0 {
			u.Forbidden = append(u.Forbidden, bad[r.Intn(k)])
		}
		if r.Intn(5) == 0 {
			u.Forbidden = append(u.Forbidden, good[r.Intn(gl)])
		}
		var ini []int
		if a > 0 && r.Intn(2) == 0 {
			ini = pre[:1+r.Intn(a)]
		}
		caps := []int{1, 2, 3, 2000}
		n1 := &nodeSpec{P: 1, Cap: caps[r.Intn(4)], Chain: catInts(pre, bad)}
		n2 := &nodeSpec{P: 2, Cap: caps[r.Intn(4)], Chain: catInts(pre, good)}
		var sc *Scenario
		if eng == "x" {
			n := n1
			if r.Intn(3) == 0 {
				n = &nodeSpec{P: 1, Cap: n2.Cap, Chain: n2.Chain}
			}
			sc = &Scenario{Eng: eng, Cps: cps, U: u, Init: ini, Nodes: []*nodeSpec{n}, Cmds: []string{"C1", "R60"}}
		} else {
			scripts := [][]string{{"C1", "C2", "R90"}, {"C2", "C1", "R90"}, {"C1", "R50", "C2", "R90"}, {"C1", "D1", "C2", "D1", "R90"}, {"C1", "R90"}}
			sc = &Scenario{Eng: eng, Cps: cps, U: u, Init: ini, Nodes: []*nodeSpec{n1, n2}, Cmds: scripts[r.Intn(len(scripts))]}
		}
		if err := g.do(sc, "random"); err != nil {
			return err
		}
	}
	return nil
}
