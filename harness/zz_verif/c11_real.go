//go:build verif

package main

import (
	"fmt"

	"github.com/bitcoin-sv/block-headers-service/notification"
)

func c11AddRealChannel(e *c11Env, nt *notification.Notifier, r *c11Rec) error {
	return fmt.Errorf("channel kind %s not available", r.spec.Kind)
}

func c11Thorough(e *c11Env, do func(*c11Case, string) error) error { return nil }
