//go:build verif

package main

// C11, thorough tier: the production channels end to end.
//   kind N = like H, but the webhook is registered WITHOUT authorisation (empty token header and token) and the target
//            insists that no Authorization header arrives.  Several H / N channels of one case are several
//            webhooks of the ONE webhooks service, which is registered on the Notifier once.
//   kind H = s.Services.Webhooks (production WebhooksService over the SQL webhook repository and the production
//            HTTP client) with one webhook registered through CreateWebhook, pointing at an httptest server
//            that records the POSTed bodies (ok -> 200, err -> 500, slow -> holds the request on the gate);
//   kind C = production wsChan publishing into the real centrifuge node of transports/websocket (NewServer,
//            SetupEntrypoint, Start) with a real centrifuge-go JSON client subscribed to "headers"; what the
//            CLIENT receives is recorded (ok, or slow = the publish call is held on the gate).

import (
	"fmt"
	"io"
	"net/http"
	"net/http/httptest"
	"strings"
	"sync"
	"time"

	"github.com/bitcoin-sv/block-headers-service/notification"
	"github.com/bitcoin-sv/block-headers-service/transports/websocket"
	"github.com/centrifugal/centrifuge"
	cgo "github.com/centrifugal/centrifuge-go"
	"github.com/gin-gonic/gin"
)

type c11Real struct {
	mu      sync.Mutex
	hookSrv *httptest.Server
	hooks   map[string]*c11Rec // request path -> recorder
	seq     int

	ws     websocket.Server
	wsSrv  *httptest.Server
	client *cgo.Client
	curC   *c11Rec
}

var c11real = &c11Real{hooks: map[string]*c11Rec{}}

func (x *c11Real) recOf(path string) *c11Rec {
	x.mu.Lock()
	defer x.mu.Unlock()
	return x.hooks[path]
}

func (x *c11Real) ensureHooks() {
	if x.hookSrv != nil {
		return
	}
	x.hookSrv = httptest.NewServer(http.HandlerFunc(func(w http.ResponseWriter, req *http.Request) {
		body, _ := io.ReadAll(req.Body)
		r := x.recOf(req.URL.Path)
		if r == nil {
			w.WriteHeader(http.StatusNotFound)
			return
		}
		r.hold()
		s := c11CanonJSON(r.mat, body)
		if req.Method != http.MethodPost {
			s = "WRONG-METHOD-" + req.Method + "-" + s
		}
		if !strings.HasPrefix(req.Header.Get("Content-Type"), "application/json") {
			s = "WRONG-CONTENT-TYPE-" + s
		}
		wantAuth := "Bearer c11token"
		if r.spec.Kind == "N" {
			wantAuth = ""
		}
		if req.Header.Get("Authorization") != wantAuth {
			s = "WRONG-AUTH-" + s
		}
		r.record(s)
		if r.spec.Beh == "err" {
			// an ordinary error page: a non-200 answer WITH a body (a client that does not drain / close it leaks
			// the connection)
			w.WriteHeader(http.StatusInternalServerError)
			_, _ = w.Write([]byte("<html><body><h1>500 Internal Server Error</h1><p>" + strings.Repeat("the target is unwell. ", 12) + "</p></body></html>"))
			return
		}
		w.WriteHeader(http.StatusOK)
		if r.spec.Beh == "late" {
			// a target that answers 200 at once and streams its body afterwards is a healthy target
			if f, ok := w.(http.Flusher); ok {
				f.Flush()
			}
			time.Sleep(25 * time.Millisecond)
			_, _ = w.Write([]byte("accepted, processed later"))
		}
	}))
}

func (x *c11Real) ensureWS(e *c11Env) error {
	if x.ws != nil {
		return nil
	}
	ws, err := websocket.NewServer(e.s.Log, e.s.Services, false)
	if err != nil {
		return err
	}
	eng := gin.New()
	ws.SetupEntrypoint(eng)
	if err := ws.Start(); err != nil {
		return err
	}
	x.ws = ws
	x.wsSrv = httptest.NewServer(eng)
	url := "ws" + strings.TrimPrefix(x.wsSrv.URL, "http") + "/connection/websocket"
	cl := cgo.NewJsonClient(url, cgo.Config{})
	if err := cl.Connect(); err != nil {
		return err
	}
	sub, err := cl.NewSubscription("headers", cgo.SubscriptionConfig{})
	if err != nil {
		return err
	}
	subscribed := make(chan struct{})
	var once sync.Once
	sub.OnSubscribed(func(cgo.SubscribedEvent) { once.Do(func() { close(subscribed) }) })
	sub.OnPublication(func(ev cgo.PublicationEvent) {
		x.mu.Lock()
		r := x.curC
		x.mu.Unlock()
		if r != nil {
			r.record(c11CanonJSON(r.mat, ev.Data))
		}
	})
	if err := sub.Subscribe(); err != nil {
		return err
	}
	select {
	case <-subscribed:
	case <-time.After(5 * time.Second):
		return fmt.Errorf("centrifuge client: subscription to 'headers' timed out")
	}
	x.client = cl
	return nil
}

// publisher handed to the production wsChan: the real node, optionally held on the gate first
type c11NodePub struct {
	r    *c11Rec
	node websocket.Publisher
}

func (p c11NodePub) Publish(channel string, data []byte, opts ...centrifuge.PublishOption) (centrifuge.PublishResult, error) {
	p.r.hold()
	return p.node.Publish(channel, data, opts...)
}

func c11AddRealChannel(e *c11Env, nt *notification.Notifier, r *c11Rec) error {
	x := c11real
	switch r.spec.Kind {
	case "H", "N":
		x.ensureHooks()
		x.mu.Lock()
		x.seq++
		path := fmt.Sprintf("/hook%d", x.seq)
		x.hooks[path] = r
		x.mu.Unlock()
		url := x.hookSrv.URL + path
		oldTries := e.s.Cfg.Webhook.MaxTries
		if r.spec.Beh == "late" {
			// the production limit matters here: deliveries wrongly counted as failures deactivate the webhook
			e.s.Cfg.Webhook.MaxTries = 3
		}
		var err error
		if r.spec.Kind == "N" {
			// what POST /webhook does for a body without requiredAuth
			_, err = e.s.Services.Webhooks.CreateWebhook("", "", "", url)
		} else {
			_, err = e.s.Services.Webhooks.CreateWebhook("Bearer", "", "c11token", url)
		}
		if err != nil {
			return fmt.Errorf("CreateWebhook: %w", err)
		}
		r.closer = func() {
			_ = e.s.Services.Webhooks.DeleteWebhook(url)
			e.s.Cfg.Webhook.MaxTries = oldTries
			x.mu.Lock()
			delete(x.hooks, path)
			x.mu.Unlock()
		}
	case "C":
		if err := x.ensureWS(e); err != nil {
			return err
		}
		x.mu.Lock()
		x.curC = r
		x.mu.Unlock()
		r.closer = func() {
			x.mu.Lock()
			x.curC = nil
			x.mu.Unlock()
		}
	}
	c11Attach(e, nt, r)
	return nil
}

// c11Attach registers the channel of a recorder on a Notifier the way cmd/main.go does at start-up; used when a
// case begins and again after every restart (the Notifier and the services are per process, the webhook is in
// the database).
func c11Attach(e *c11Env, nt *notification.Notifier, r *c11Rec) {
	switch r.spec.Kind {
	case "R":
		nt.AddChannel(c11Raw{r})
	case "W":
		nt.AddChannel(notification.NewWebsocketChannel(e.s.Log, c11Pub{r}, e.s.Cfg.Websocket))
	case "H", "N":
		// the webhooks service is ONE channel, whatever the number of webhooks
		if r.firstHook {
			nt.AddChannel(e.s.Services.Webhooks)
		}
	case "C":
		nt.AddChannel(notification.NewWebsocketChannel(e.s.Log, c11NodePub{r, c11real.ws.Publisher()}, e.s.Cfg.Websocket))
	}
}

func c11Thorough(e *c11Env, do func(*c11Case, string) error) error {
	c := e.c
	// long runs (a p2p headers message carries up to 2000 headers): a hanging / held channel registered before a
	// healthy one; every Add must return, every header must get its event on the healthy channel
	for i, spec := range []struct {
		n     int
		chans []c11Spec
	}{
		{1100, []c11Spec{{"R", "hang"}, {"W", "ok"}}},
		{1100, []c11Spec{{"W", "slow"}, {"R", "ok"}}},
		{5000, []c11Spec{{"R", "hang"}, {"R", "ok"}}},
	} {
		hl := fmt.Sprintf("g=1,486604799,1,1,1231006505,2083236893;f=;L2,1,%d,545259519", spec.n)
		k, err := c11Parse(fmt.Sprintf("c=%s/n=%d|%s", c11ChanStr(spec.chans), 7000+i, hl))
		if err != nil {
			return err
		}
		if err := do(k, "thorough-long-run"); err != nil {
			return err
		}
	}
	// restart with the real centrifuge node + client as the second channel
	for i, l := range []string{
		"c=H:ok,C:ok/n=9101|g=1,486604799,1,1,1231006505,2083236893;f=;X;L2,1,8,545259519",
		"c=H:ok,C:ok,R:ok/n=9102|g=1,486604799,1,1,1231006505,2083236893;f=;L2,1,5,545259519;X;L7,6,5,545259519;X;L12,11,3,541065215",
	} {
		k, err := c11Parse(l)
		if err != nil {
			return fmt.Errorf("restart case %d: %w", i, err)
		}
		if err := do(k, "thorough-restart"); err != nil {
			return err
		}
	}
	n := 160
	for i := 0; i < n; i++ {
		o := GenOpts{N: 2 + c.Rng.Intn(14), PUnknown: 0.08, PLate: 0.1, PDup: 0.12, PForbidden: 0.2, Deep: i%2 == 0, Positive: true, ShareMerkle: i%3 == 1}
		h := GenHistory(c.Rng, o)
		faults := map[int]c11Fault{}
		if i%3 != 0 {
			h, faults = c11AddFaults(c.Rng, h, 0.15)
			// no COMMIT-level faults next to the production webhook service: its delivery goroutines commit
			// their own bookkeeping concurrently and would swallow the armed fault (the commit hook cannot tell
			// whose COMMIT it sees); the repository-level fault is exact
			for i, f := range faults {
				if f.Mode == 'c' {
					faults[i] = c11Fault{Mode: 'b', K: f.K}
				}
			}
		}
		// at most one H (it IS the webhooks service) and one C (there is one "headers" channel)
		var chans []c11Spec
		hb := []string{"ok", "ok", "err", "slow"}[c.Rng.Intn(4)]
		cb := []string{"ok", "ok", "slow"}[c.Rng.Intn(3)]
		switch i % 3 {
		case 0:
			chans = []c11Spec{{"H", hb}, {"C", cb}} // the production registration order of cmd/main.go
		case 1:
			chans = []c11Spec{{"H", hb}}
		default:
			chans = []c11Spec{{"C", cb}}
		}
		extra := c11GenChans(c.Rng, []string{"R", "W"})
		if len(extra) > 2 {
			extra = extra[:2]
		}
		if c.Rng.Intn(2) == 0 {
			chans = append(chans, extra...)
		} else {
			chans = append(extra, chans...)
		}
		k := &c11Case{Chans: chans, N: c.Rng.Intn(1000000), H: h, Faults: faults}
		if err := do(k, "thorough-real"); err != nil {
			return err
		}
	}
	return nil
}

// c11RealClose shuts the test servers and the websocket client down (end of the run).
func c11RealClose() {
	x := c11real
	if x.client != nil {
		x.client.Close()
	}
	if x.wsSrv != nil {
		x.wsSrv.Close()
	}
	if x.hookSrv != nil {
		x.hookSrv.Close()
	}
}
