//go:build verif

package main

// C17: export then import reproduces the longest chain; bad files are refused.
//
// A case is a ';'-separated operation list (replayable with --only; derived data is recomputed):
//
//   c17;<source ops>;<target ops>;D <derived>
//
// source ops (build a store through the real stack, genesis is always there):
//   a  <ver> <merkle> <ts> <bits> <nonce>      Chains.Add of a header on top of the current longest tip
//   d  <ver> <merkle> <ts> <bits> <nonce>      same, but inserted directly (CreateHeader + AddHeaderToDatabase)
//   z  <seed>                                   the following run of d headers reaches the table in a shuffled order
//                                               (rowid order differs from height order: the ORDER BY of the export matters)
//   f  <back> <ver> <merkle> <ts> <bits> <nonce>  Chains.Add of a sibling of the longest-chain block <back> below the tip
//                                               (skipped when it would have more cumulated work than the tip)
//   e  <ver> ...                                Chains.Add of a child of the last header added by f/e (may reorganise)
//   o  <ver> ...                                Chains.Add of an orphan (unknown parent);  oc: child of the last orphan
//   tz <ingest zone> <export zone> <import zone>   the store is written, exported and imported by three CHILD processes of the
//                                               harness started with TZ=<zone> (Go's time.Local and the C library of SQLite take
//                                               the zone at process start); the model has no zone: nothing may depend on it.
//                                               A zone without a file under /usr/share/zoneinfo makes the case SKIPPED (reported).
//   xe f|s <k> <seed>                           before the export of this store, in the SAME temporary directory: an earlier
//                                               ExportHeaders of another store of <k> (seeded) headers whose last step fails
//                                               (f: the target directory does not exist) or succeeds (s).  The export of a
//                                               store is a function of the store only; earlier exports must not show.
// target ops, executed in order after database.ExportHeaders of the source:
//   kset r c v | kdelcol r c | kaddcol r v | kallcols n | kdelrow r | kduprow r | kaddrow v,v,.. | ktrunc n |
//   knohdr | kempty | knofile | kgarbage | kfix          edit the CSV records (r = data row, 0-based; ~ = empty, ^ = space)
//   kraw r c <kind>     edit the TEXT of the csv line of data row r after it was written (things special to a csv reader):
//                       hash qlead qmid qtrail qpair quoted qq comma qcomma cr qlf bom tblank lblank ttab nul  (field c)
//                       emptyline blankline commas crlf hashline                                              (whole line)
//   c <opt,opt>         p2p options of the configuration the target is started with: dc = disable_checkpoints, ex = experimental
//                       (the import and its validation do not depend on them)
//   p <height> g|b      newest checkpoint at <height> with the exported chain's hash (g) or another hash (b); default: tip, good
//   tg | tc             the target database already holds genesis / a copy of the source store (default: empty)
//   i | iu              a start (database.Init) on the target database with prepared_db = true | false
//
// derived (emitted by the harness, everything the model needs):
//   b=<batch size from the code> G=<genesis row> P=<ck height>,<hash id> S=<source table, rowid order> T=<target table before the first start>
//   H=<finite map of the real header hasher: ver,previd,merkle,ts,bits,nonce>id>
//   F=<file of start 1>@<file of start 2>..   the records of the prepared file of each start as encoding/csv in its DEFAULT
//     configuration reads the bytes on disk (the reference reading: the importer's reader must not be configured to see anything
//     else); a reader error is the one-field record !csv-error (the import stops there like on any malformed row).
//     * = the exported file unchanged, ! = no readable file, d<n>/<i>:<record>/.. = n records, those differ from the export,
//     f/<record>/.. = all records; fields %XX-escaped, joined by ',', records by '/'
// rows: hashid,previd,height,version,merkle,ts,bits,nonce,work,cum,state(L|S|O|R) joined by '/'
//
// observable:  X=<exported records>|I=<ok|err>:<target table after the start>|I=...

import (
	"bytes"
	"compress/gzip"
	"crypto/sha256"
	"encoding/csv"
	"encoding/json"
	"fmt"
	"io"
	"math/big"
	"math/rand"
	"os"
	"os/exec"
	"path/filepath"
	"sort"
	"strconv"
	"strings"
	"time"

	"github.com/bitcoin-sv/block-headers-service/config"
	"github.com/bitcoin-sv/block-headers-service/database"
	"github.com/bitcoin-sv/block-headers-service/domains"
	"github.com/bitcoin-sv/block-headers-service/internal/chaincfg"
	"github.com/bitcoin-sv/block-headers-service/internal/chaincfg/chainhash"
	"github.com/bitcoin-sv/block-headers-service/service"
	"github.com/jmoiron/sqlx"
	"github.com/rs/zerolog"
)

func init() { register("C17", runC17) }

type c17Src struct {
	key   string
	rows  []HeaderRow // full table, rowid order
	good  [][]string  // exported records (header line first); nil when the export failed
	xobs  string      // the X= observable
	db    string      // path of the source database file
	zones []string    // tz operation: ingest, export, import zone (nil: everything in this process)
}

type c17H struct {
	c     *Ctx
	root  string
	cwd   string
	src   *c17Src
	nsrc  int
	ntgt  int
	leaks int // refused in-process starts / exports (their database handles are never closed by the code)
	fastT bool
}

func c17Root(c *Ctx) string {
	// SQLite commits are fsync-bound; a memory file system keeps the quick tier quick.  Only the
	// location of the temporary files changes, nothing about the code under test.
	if st, err := os.Stat("/dev/shm"); err == nil && st.IsDir() {
		d := filepath.Join("/dev/shm", fmt.Sprintf("verif-c17-%d", os.Getpid()))
		if os.MkdirAll(d, 0o755) == nil {
			return d
		}
	}
	return c.TmpDir("c17")
}

func runC17(c *Ctx) error {
	for i, a := range c.Args {
		if a == "--c17child" && i+1 < len(c.Args) {
			return c17Child(c, c.Args[i+1])
		}
	}
	h := &c17H{c: c}
	h.root = c17Root(c)
	defer os.RemoveAll(h.root)
	h.cwd, _ = os.Getwd()
	// ExportHeaders and the import use fixed / second-granular file names under os.TempDir():
	// give this process its own.
	tmp := filepath.Join(h.root, "tmp")
	_ = os.MkdirAll(tmp, 0o755)
	os.Setenv("TMPDIR", tmp)
	c.Meta("batch_size_from_code", strconv.Itoa(database.VerifSQLiteBatchSize))

	if c.Only != "" {
		return h.runCase(c17Ops(c.Only), "only")
	}
	vd := os.Getenv("VERIF_DIR")
	if vd == "" {
		vd = "/verif"
	}
	files, _ := filepath.Glob(filepath.Join(vd, "corpus", "C17", "*.txt"))
	sort.Strings(files)
	for _, f := range files {
		b, err := os.ReadFile(f)
		if err != nil {
			return err
		}
		for _, l := range strings.Split(string(b), "\n") {
			l = strings.TrimSpace(l)
			if l == "" || strings.HasPrefix(l, "#") {
				continue
			}
			if err := h.runCase(c17Ops(l), "corpus"); err != nil {
				return err
			}
		}
	}
	return h.generate()
}

// c17Ops splits an input line into its operations, dropping the head and the derived part.
func c17Ops(line string) []string {
	var ops []string
	for _, t := range strings.Split(line, ";") {
		t = strings.TrimSpace(t)
		if t == "" || t == "c17" || strings.HasPrefix(t, "D ") || t == "D" {
			continue
		}
		ops = append(ops, t)
	}
	return ops
}

func c17IsSrcOp(op string) bool {
	w := strings.Fields(op)
	switch w[0] {
	case "a", "d", "f", "e", "o", "oc", "z", "xe", "tz":
		return true
	}
	return false
}

type c17F struct {
	ver    int32
	merkle chainhash.Hash
	ts     int64
	bits   uint32
	nonce  uint32
}

func c17ParseF(w []string) (c17F, bool) {
	var f c17F
	if len(w) != 5 {
		return f, false
	}
	v, e1 := strconv.ParseInt(w[0], 10, 32)
	m, e2 := chainhash.NewHashFromStr(w[1])
	t, e3 := strconv.ParseInt(w[2], 10, 64)
	b, e4 := strconv.ParseUint(w[3], 10, 32)
	n, e5 := strconv.ParseUint(w[4], 10, 32)
	if e1 != nil || e2 != nil || e3 != nil || e4 != nil || e5 != nil {
		return f, false
	}
	return c17F{int32(v), *m, t, uint32(b), uint32(n)}, true
}

func (f c17F) src(prev chainhash.Hash) domains.BlockHeaderSource {
	return domains.BlockHeaderSource{Version: f.ver, PrevBlock: prev, MerkleRoot: f.merkle,
		Timestamp: time.Unix(f.ts, 0), Bits: f.bits, Nonce: f.nonce}
}

func (f c17F) String() string {
	return fmt.Sprintf("%d %s %d %d %d", f.ver, f.merkle.String(), f.ts, f.bits, f.nonce)
}

func c17Guard(f func() error) (err error) {
	defer func() {
		if r := recover(); r != nil {
			err = fmt.Errorf("PANIC: %v", r)
		}
	}()
	return f()
}

var errC17ZoneMissing = fmt.Errorf("zone file missing")

func c17ZoneOK(z string) bool {
	if z == "UTC" {
		return true
	}
	if strings.Contains(z, "..") {
		return false
	}
	st, err := os.Stat(filepath.Join("/usr/share/zoneinfo", z))
	return err == nil && !st.IsDir()
}

// c17ChildSpec is what a child process of the harness is asked to do (one phase under its own TZ).
type c17ChildSpec struct {
	Phase    string   // ingest | export | import
	Ops      []string // ingest: the source operations
	Dir      string   // ingest / import: directory of the database file
	Gz       string   // export: target file
	Rel      string   // import: prepared file path relative to the working directory
	Prepared bool
	CkH      int32
	CkHash   string
	DC, EX   bool
	Out      string // result file: "ok" | "err ..." | "panic ..."
}

func (h *c17H) runChild(zone string, spec c17ChildSpec) (string, error) {
	spec.Out = filepath.Join(h.root, "child-result.txt")
	_ = os.Remove(spec.Out)
	sf := filepath.Join(h.root, "child-spec.json")
	b, _ := json.Marshal(spec)
	if err := os.WriteFile(sf, b, 0o644); err != nil {
		return "", err
	}
	cout := filepath.Join(h.root, "child-out")
	cmd := exec.Command(os.Args[0], "C17", cout, "--c17child", sf)
	cmd.Dir = h.cwd
	cmd.Env = append(os.Environ(), "TZ="+zone)
	if out, err := cmd.CombinedOutput(); err != nil {
		return "", fmt.Errorf("child %s under TZ=%s: %v: %s", spec.Phase, zone, err, string(out))
	}
	res, err := os.ReadFile(spec.Out)
	if err != nil {
		return "", err
	}
	h.c.Count("child-process:" + spec.Phase)
	return string(res), nil
}

// c17Child is the harness running as a child process: one phase, result into spec.Out.
func c17Child(c *Ctx, specFile string) error {
	b, err := os.ReadFile(specFile)
	if err != nil {
		return err
	}
	var spec c17ChildSpec
	if err := json.Unmarshal(b, &spec); err != nil {
		return err
	}
	h := &c17H{c: c, root: filepath.Dir(specFile)}
	h.cwd, _ = os.Getwd()
	res := "ok"
	err = c17Guard(func() error {
		switch spec.Phase {
		case "ingest":
			return h.buildStore(spec.Dir, spec.Ops)
		case "export":
			lg := zerolog.Nop()
			return database.ExportHeaders(c17ExportCfg(filepath.Join(spec.Dir, "bhs.db"), spec.Gz), &lg)
		case "import":
			st, e := c17Start(spec.Dir, spec.Prepared, spec.Rel, spec.CkH, spec.CkHash, spec.DC, spec.EX)
			if st != nil {
				st.Close()
			}
			return e
		}
		return fmt.Errorf("unknown phase %q", spec.Phase)
	})
	if err != nil {
		res = "err " + err.Error()
		if strings.HasPrefix(err.Error(), "PANIC") {
			res = "panic " + err.Error()
		}
	}
	return os.WriteFile(spec.Out, []byte(res), 0o644)
}

func c17ExportCfg(dbPath, gz string) *config.AppConfig {
	cfg := config.GetDefaultAppConfig()
	cfg.Db.Engine = config.DBSQLite
	cfg.Db.SchemaPath = filepath.Join(repoRoot(), "database", "migrations")
	cfg.Db.SQLite.FilePath = dbPath
	cfg.Db.PreparedDbFilePath = gz
	cfg.Logging.Level = "disabled"
	return cfg
}

// c17Start is one database.Init on the target with the given newest checkpoint and p2p options.
func c17Start(tdir string, prepared bool, rel string, ckH int32, ckHash string, dc, ex bool) (*Stack, error) {
	ck, herr := chainhash.NewHashFromStr(ckHash)
	if herr != nil {
		return nil, herr
	}
	decoy := chainhash.Hash(sha256.Sum256([]byte("c17-decoy")))
	config.Checkpoints = []chaincfg.Checkpoint{{Height: 0, Hash: &decoy}, {Height: ckH, Hash: ck}}
	return NewStack(StackOpts{Dir: tdir, PreparedDb: prepared, PreparedPath: rel, Mutate: func(cfg *config.AppConfig) {
		if cfg.P2P != nil {
			cfg.P2P.DisableCheckpoints = dc
			cfg.P2P.Experimental = ex
		}
	}})
}

// buildSource builds (or reuses) the source store for the given source ops and exports it.
func (h *c17H) buildSource(ops []string) (*c17Src, error) {
	key := strings.Join(ops, ";")
	if h.src != nil && h.src.key == key {
		return h.src, nil
	}
	h.nsrc++
	dir := filepath.Join(h.root, "src")
	_ = os.RemoveAll(dir)
	// every source starts with an empty temporary directory (cases are self-contained); what the
	// exports of THIS source leave there is part of the case (xe operations)
	if ents, err := os.ReadDir(os.TempDir()); err == nil && strings.HasPrefix(os.TempDir(), h.root) {
		for _, e := range ents {
			_ = os.RemoveAll(filepath.Join(os.TempDir(), e.Name()))
		}
	}
	var zones []string
	var earlier []c17Earlier
	for _, op := range ops {
		w := strings.Fields(op)
		if w[0] == "tz" && len(w) == 4 {
			zones = w[1:4]
		}
		if w[0] == "xe" && len(w) == 4 {
			k, _ := strconv.Atoi(w[2])
			seed, _ := strconv.ParseInt(w[3], 10, 64)
			earlier = append(earlier, c17Earlier{fail: w[1] == "f", k: k, seed: seed})
		}
	}
	for _, z := range zones {
		if !c17ZoneOK(z) {
			return nil, errC17ZoneMissing
		}
	}
	if zones == nil {
		if err := h.buildStore(dir, ops); err != nil {
			return nil, err
		}
	} else {
		res, err := h.runChild(zones[0], c17ChildSpec{Phase: "ingest", Ops: ops, Dir: dir})
		if err != nil {
			return nil, err
		}
		if res != "ok" {
			return nil, fmt.Errorf("ingest child: %s", res)
		}
	}
	dbPath := filepath.Join(dir, "bhs.db")
	rows := c17DumpFile(dbPath)
	for _, e := range earlier {
		if err := h.earlierExport(e); err != nil {
			return nil, err
		}
	}
	src := &c17Src{key: key, rows: rows, db: dbPath, zones: zones}
	gz := filepath.Join(h.root, "export.csv.gz")
	_ = os.Remove(gz)
	var err error
	if zones == nil {
		lg := zerolog.Nop()
		err = c17Guard(func() error { return database.ExportHeaders(c17ExportCfg(dbPath, gz), &lg) })
	} else {
		var res string
		res, err = h.runChild(zones[1], c17ChildSpec{Phase: "export", Dir: dir, Gz: gz})
		if err == nil && res != "ok" {
			err = fmt.Errorf("%s", strings.ToUpper(res[:1])+res[1:])
			if strings.HasPrefix(res, "panic") {
				err = fmt.Errorf("PANIC %s", res)
			}
		} else if err != nil {
			return nil, err
		}
	}
	if err != nil {
		src.xobs = "X=ERR"
		if strings.HasPrefix(err.Error(), "PANIC") {
			src.xobs = "X=PANIC"
		}
	} else {
		recs, rerr := c17ReadGz(gz)
		if rerr != nil {
			src.xobs = "X=UNREADABLE"
		} else {
			src.good = recs
			src.xobs = "X=" + c17Recs(recs)
		}
	}
	h.src = src
	return src, nil
}

// buildStore creates the database under dir and applies the source operations (in this process, under its zone).
func (h *c17H) buildStore(dir string, ops []string) error {
	s, err := NewStack(StackOpts{Dir: dir})
	if err != nil {
		return err
	}
	hasher := service.DefaultBlockHasher()
	longestTip := func() (*domains.BlockHeader, error) {
		var ht int32
		if err := s.DB.Get(&ht, "SELECT max(height) FROM headers WHERE header_state = 'LONGEST_CHAIN'"); err != nil {
			return nil, err
		}
		return s.Repo.Headers.GetHeaderByHeight(ht)
	}
	add := func(bs domains.BlockHeaderSource) *domains.BlockHeader {
		var res *domains.BlockHeader
		err := c17Guard(func() error {
			r, e := s.Services.Chains.Add(bs)
			res = r
			return e
		})
		if err != nil {
			h.c.Count("src:add-refused")
			return nil
		}
		return res
	}
	var lastFork, lastOrphan, direct *domains.BlockHeader
	var pending []domains.BlockHeader
	shuffle := int64(0)
	flush := func() error {
		if shuffle != 0 {
			rand.New(rand.NewSource(shuffle)).Shuffle(len(pending), func(i, j int) { pending[i], pending[j] = pending[j], pending[i] })
		}
		for _, nh := range pending {
			if err := s.Repo.Headers.AddHeaderToDatabase(nh); err != nil {
				return err
			}
		}
		pending = nil
		shuffle = 0
		return nil
	}
	for _, op := range ops {
		w := strings.Fields(op)
		kind := w[0]
		args := w[1:]
		if kind != "d" {
			if err := flush(); err != nil {
				s.Close()
				return err
			}
		}
		if kind == "xe" || kind == "tz" {
			continue
		}
		if kind == "z" {
			if len(args) == 1 {
				shuffle, _ = strconv.ParseInt(args[0], 10, 64)
			}
			continue
		}
		back := 0
		if kind == "f" {
			if len(args) < 1 {
				continue
			}
			back, _ = strconv.Atoi(args[0])
			args = args[1:]
		}
		f, ok := c17ParseF(args)
		if !ok {
			continue
		}
		if kind != "d" {
			direct = nil
		}
		switch kind {
		case "a":
			tip, err := longestTip()
			if err != nil {
				s.Close()
				return err
			}
			add(f.src(tip.Hash))
		case "d":
			if direct == nil {
				tip, err := longestTip()
				if err != nil {
					s.Close()
					return err
				}
				direct = tip
			}
			bs := f.src(direct.Hash)
			hash := hasher.BlockHash(&bs)
			nh := domains.CreateHeader(&hash, &bs, direct)
			pending = append(pending, nh)
			direct = &nh
		case "f":
			tip, err := longestTip()
			if err != nil {
				s.Close()
				return err
			}
			ph := tip.Height - int32(back) - 1
			if back < 0 || ph < 0 {
				h.c.Count("src:fork-skipped")
				continue
			}
			parent, err := s.Repo.Headers.GetHeaderByHeight(ph)
			if err != nil || parent == nil {
				h.c.Count("src:fork-skipped")
				continue
			}
			cum := new(big.Int).Add(parent.CumulatedWork, domains.CalculateWork(f.bits).BigInt())
			if cum.Cmp(tip.CumulatedWork) > 0 {
				// a sibling with more work than the tip is another property's known defect
				h.c.Count("src:fork-skipped")
				continue
			}
			if r := add(f.src(parent.Hash)); r != nil {
				lastFork = r
			}
		case "e":
			if lastFork == nil {
				continue
			}
			if r := add(f.src(lastFork.Hash)); r != nil {
				lastFork = r
			}
		case "o":
			unknown := chainhash.Hash(sha256.Sum256(append([]byte("c17-orphan-parent"), f.merkle[:]...)))
			if r := add(f.src(unknown)); r != nil {
				lastOrphan = r
			}
		case "oc":
			if lastOrphan == nil {
				continue
			}
			if r := add(f.src(lastOrphan.Hash)); r != nil {
				lastOrphan = r
			}
		}
	}
	if err := flush(); err != nil {
		s.Close()
		return err
	}
	s.Close()
	return nil
}

type c17Earlier struct {
	fail bool
	k    int
	seed int64
}

// earlierExport builds another store of e.k seeded headers and runs ExportHeaders on it in the same
// temporary directory; with e.fail the target directory does not exist, so the export fails at its
// last step (after the temporary CSV was written).
func (h *c17H) earlierExport(e c17Earlier) error {
	dir := filepath.Join(h.root, "aux")
	_ = os.RemoveAll(dir)
	s, err := NewStack(StackOpts{Dir: dir})
	if err != nil {
		return err
	}
	rng := rand.New(rand.NewSource(e.seed))
	hasher := service.DefaultBlockHasher()
	var ht int32
	if err := s.DB.Get(&ht, "SELECT max(height) FROM headers WHERE header_state = 'LONGEST_CHAIN'"); err != nil {
		s.Close()
		return err
	}
	tip, err := s.Repo.Headers.GetHeaderByHeight(ht)
	if err != nil {
		s.Close()
		return err
	}
	for i := 0; i < e.k && i < 5000; i++ {
		var m chainhash.Hash
		rng.Read(m[:])
		bs := domains.BlockHeaderSource{Version: int32(rng.Uint32()), PrevBlock: tip.Hash, MerkleRoot: m,
			Timestamp: time.Unix(int64(rng.Uint32()), 0), Bits: 0x1d00ffff, Nonce: rng.Uint32()}
		hash := hasher.BlockHash(&bs)
		nh := domains.CreateHeader(&hash, &bs, tip)
		if err := s.Repo.Headers.AddHeaderToDatabase(nh); err != nil {
			s.Close()
			return err
		}
		tip = &nh
	}
	cfg := *s.Cfg
	dbc := *s.Cfg.Db
	cfg.Db = &dbc
	s.Close()
	cfg.Db.PreparedDbFilePath = filepath.Join(h.root, "aux-export.csv.gz")
	if e.fail {
		cfg.Db.PreparedDbFilePath = filepath.Join(h.root, "no-such-directory", "aux-export.csv.gz")
	}
	lg := zerolog.Nop()
	err = c17Guard(func() error { return database.ExportHeaders(&cfg, &lg) })
	switch {
	case e.fail && err != nil:
		h.c.Count("earlier-export:failed-at-last-step")
	case e.fail:
		h.c.Count("earlier-export:expected-failure-did-not-happen")
	case err != nil:
		h.c.Count("earlier-export:unexpected-error")
	default:
		h.c.Count("earlier-export:ok")
	}
	return nil
}

func c17ReadGz(path string) ([][]string, error) {
	f, err := os.Open(path)
	if err != nil {
		return nil, err
	}
	defer f.Close()
	zr, err := gzip.NewReader(f)
	if err != nil {
		return nil, err
	}
	b, err := io.ReadAll(zr)
	if err != nil {
		return nil, err
	}
	r := csv.NewReader(bytes.NewReader(b))
	r.FieldsPerRecord = -1
	return r.ReadAll()
}

func c17WriteGz(path string, recs [][]string) error {
	var buf bytes.Buffer
	w := csv.NewWriter(&buf)
	for _, r := range recs {
		if err := w.Write(r); err != nil {
			return err
		}
	}
	w.Flush()
	f, err := os.Create(path)
	if err != nil {
		return err
	}
	zw := gzip.NewWriter(f)
	if _, err := zw.Write(buf.Bytes()); err != nil {
		return err
	}
	if err := zw.Close(); err != nil {
		return err
	}
	return f.Close()
}

func c17Enc(s string) string { return strings.ReplaceAll(s, " ", "^") }
func c17Dec(s string) string {
	if s == "~" {
		return ""
	}
	return strings.ReplaceAll(s, "^", " ")
}

func c17Recs(recs [][]string) string {
	var sb strings.Builder
	for i, r := range recs {
		if i > 0 {
			sb.WriteByte('/')
		}
		for j, f := range r {
			if j > 0 {
				sb.WriteByte(',')
			}
			sb.WriteString(c17Enc(f))
		}
	}
	return sb.String()
}

type c17Ids struct {
	m map[string]int
}

func (x *c17Ids) id(hash string) int {
	if hash == (chainhash.Hash{}).String() {
		return 0
	}
	if v, ok := x.m[hash]; ok {
		return v
	}
	v := len(x.m) + 1
	x.m[hash] = v
	return v
}

func c17State(s string) string {
	switch s {
	case "LONGEST_CHAIN":
		return "L"
	case "STALE":
		return "S"
	case "ORPHAN":
		return "O"
	case "REJECTED":
		return "R"
	}
	return "?" + s
}

func (x *c17Ids) rows(rows []HeaderRow) string {
	if len(rows) == 0 {
		return "-"
	}
	var sb strings.Builder
	for i, r := range rows {
		if i > 0 {
			sb.WriteByte('/')
		}
		ts := r.TS
		if ts == "" {
			ts = "null"
		}
		fmt.Fprintf(&sb, "%d,%d,%d,%d,%s,%s,%s,%d,%s,%s,%s", x.id(r.Hash), x.id(r.Prev), r.Height, r.Version, r.Merkle,
			ts, r.Bits, r.Nonce, r.Work, r.Cum, c17State(r.State))
	}
	return sb.String()
}

// hashmap collects the finite part of the real header hasher the model may need.
type c17HashMap struct {
	ids   *c17Ids
	seen  map[string]bool
	ents  []string
	hashr service.BlockHasher
}

func (hm *c17HashMap) add(ver int32, prev chainhash.Hash, merkle chainhash.Hash, ts int64, bits, nonce uint32) chainhash.Hash {
	bs := domains.BlockHeaderSource{Version: ver, PrevBlock: prev, MerkleRoot: merkle, Timestamp: time.Unix(ts, 0), Bits: bits, Nonce: nonce}
	bh := hm.hashr.BlockHash(&bs)
	hash := bh.ChainHash()
	key := fmt.Sprintf("%d,%d,%s,%d,%d,%d", ver, hm.ids.id(prev.String()), merkle.String(), ts, bits, nonce)
	if !hm.seen[key] {
		hm.seen[key] = true
		hm.ents = append(hm.ents, fmt.Sprintf("%s>%d", key, hm.ids.id(hash.String())))
	}
	return hash
}

func (hm *c17HashMap) addRows(rows []HeaderRow) {
	for _, r := range rows {
		prev, e1 := chainhash.NewHashFromStr(r.Prev)
		mk, e2 := chainhash.NewHashFromStr(r.Merkle)
		ts, e3 := strconv.ParseInt(r.TS, 10, 64)
		bits, e4 := strconv.ParseUint(r.Bits, 10, 32)
		if e1 != nil || e2 != nil || e3 != nil || e4 != nil || r.Version < -1<<31 || r.Version >= 1<<31 || r.Nonce < 0 || r.Nonce >= 1<<32 {
			continue
		}
		hm.add(int32(r.Version), *prev, *mk, ts, uint32(bits), uint32(r.Nonce))
	}
}

func c17Big(s string, lo, hi *big.Int) (*big.Int, bool) {
	v, ok := new(big.Int).SetString(s, 10)
	if !ok || v.Cmp(lo) < 0 || v.Cmp(hi) > 0 {
		return nil, false
	}
	return v, true
}

// addFile walks the records the way an import would chain them (lenient parsing: more entries than
// needed do no harm, a missing one shows up as a model/implementation mismatch).
func (hm *c17HashMap) addFile(recs [][]string) {
	if len(recs) == 0 {
		return
	}
	prev := chainhash.Hash{}
	i32lo, i32hi := big.NewInt(-1<<31), big.NewInt(1<<31-1)
	zero, u32hi := big.NewInt(0), big.NewInt(1<<32-1)
	i64lo, i64hi := big.NewInt(-1<<63), new(big.Int).SetUint64(1<<63-1)
	for _, r := range recs[1:] {
		if len(r) != 5 {
			return
		}
		v, ok1 := c17Big(r[0], i32lo, i32hi)
		m, e2 := chainhash.NewHashFromStr(r[1])
		n, ok3 := c17Big(r[2], zero, u32hi)
		b, ok4 := c17Big(r[3], zero, u32hi)
		t, ok5 := c17Big(r[4], i64lo, i64hi)
		if !ok1 || e2 != nil || !ok3 || !ok4 || !ok5 {
			return
		}
		prev = hm.add(int32(v.Int64()), prev, *m, t.Int64(), uint32(b.Uint64()), uint32(n.Uint64()))
	}
}

func c17Longest(rows []HeaderRow) []HeaderRow {
	var l []HeaderRow
	for _, r := range rows {
		if r.State == "LONGEST_CHAIN" {
			l = append(l, r)
		}
	}
	sort.SliceStable(l, func(i, j int) bool { return l[i].Height < l[j].Height })
	return l
}

func c17DumpFile(path string) []HeaderRow {
	if _, err := os.Stat(path); err != nil {
		return nil
	}
	db, err := sqlx.Open("sqlite3", "file:"+path)
	if err != nil {
		return nil
	}
	defer db.Close()
	st := &Stack{DB: db}
	rows, err := st.DumpHeaders()
	if err != nil {
		return nil
	}
	return rows
}

func c17Copy(from, to string) error {
	b, err := os.ReadFile(from)
	if err != nil {
		return err
	}
	return os.WriteFile(to, b, 0o644)
}

func c17FlipHash(h string) string {
	b := []byte(h)
	last := b[len(b)-1]
	if last == '0' {
		b[len(b)-1] = '1'
	} else {
		b[len(b)-1] = '0'
	}
	return string(b)
}

type c17Raw struct {
	row, col int
	kind     string
}

func c17EncField(f string) string {
	if f == "" {
		return ""
	}
	if strings.ContainsAny(f, "\",\r\n") || f[0] == ' ' || f[0] == '\t' || f == `\.` {
		return `"` + strings.ReplaceAll(f, `"`, `""`) + `"`
	}
	return f
}

// c17Text serialises the records and then applies the raw edits to the text.
func c17Text(recs [][]string, raws []c17Raw) []byte {
	lines := make([][]string, len(recs)) // encoded fields per line
	for i, r := range recs {
		for _, f := range r {
			lines[i] = append(lines[i], c17EncField(f))
		}
	}
	text := make([]string, len(recs))
	after := map[int][]string{}
	whole := map[int]string{}
	suffix := map[int]string{}
	for _, e := range raws {
		i := e.row + 1
		if i < 1 || i >= len(lines) {
			continue
		}
		switch e.kind {
		case "emptyline":
			after[i] = append(after[i], "")
			continue
		case "hashline":
			after[i] = append(after[i], "# exported by the operator")
			continue
		case "blankline":
			after[i] = append(after[i], "   ")
			continue
		case "commas":
			whole[i] = ",,,,"
			continue
		case "crlf":
			suffix[i] = "\r"
			continue
		}
		if e.col < 0 || e.col >= len(lines[i]) {
			continue
		}
		f := lines[i][e.col]
		h, t := f, ""
		if len(f) > 0 {
			h, t = f[:1], f[1:]
		}
		switch e.kind {
		case "hash":
			f = "#" + f
		case "qlead":
			f = `"` + f
		case "qmid":
			f = h + `"` + t
		case "qtrail":
			f = f + `"`
		case "qpair":
			f = `""`
		case "quoted":
			f = `"` + f + `"`
		case "qq":
			f = `"` + h + `""` + t + `"`
		case "comma":
			f = h + "," + t
		case "qcomma":
			f = `"` + h + "," + t + `"`
		case "cr":
			f = h + "\r" + t
		case "qlf":
			f = `"` + h + "\n" + t + `"`
		case "bom":
			f = "\xef\xbb\xbf" + f
		case "tblank":
			f = f + " "
		case "lblank":
			f = " " + f
		case "ttab":
			f = f + "\t"
		case "nul":
			f = h + "\x00" + t
		}
		lines[i][e.col] = f
	}
	var sb strings.Builder
	for i := range lines {
		text[i] = strings.Join(lines[i], ",")
		if w, ok := whole[i]; ok {
			text[i] = w
		}
		sb.WriteString(text[i] + suffix[i] + "\n")
		for _, a := range after[i] {
			sb.WriteString(a + "\n")
		}
	}
	return []byte(sb.String())
}

// c17RefRead is the reference reading of a csv text: encoding/csv as csv.NewReader configures it, any number of
// fields per record (the field count is the model's business); a reader error ends the list with !csv-error.
func c17RefRead(text []byte) [][]string {
	r := csv.NewReader(bytes.NewReader(text))
	r.FieldsPerRecord = -1
	var out [][]string
	for {
		rec, err := r.Read()
		if err == io.EOF {
			return out
		}
		if err != nil {
			return append(out, []string{"!csv-error"})
		}
		out = append(out, rec)
	}
}

func c17Pct(f string) string {
	var sb strings.Builder
	for i := 0; i < len(f); i++ {
		ch := f[i]
		if ch >= 'a' && ch <= 'z' || ch >= 'A' && ch <= 'Z' || ch >= '0' && ch <= '9' || ch == '.' || ch == '_' || ch == '+' || ch == '-' {
			sb.WriteByte(ch)
		} else {
			fmt.Fprintf(&sb, "%%%02X", ch)
		}
	}
	return sb.String()
}

func c17PctRec(r []string) string {
	p := make([]string, len(r))
	for i, f := range r {
		p[i] = c17Pct(f)
	}
	return strings.Join(p, ",")
}

// c17FileSpec encodes the reference records relative to the exported file.
func c17FileSpec(ref, good [][]string) string {
	same := func(a, b []string) bool {
		if len(a) != len(b) {
			return false
		}
		for i := range a {
			if a[i] != b[i] {
				return false
			}
		}
		return true
	}
	if good != nil && len(ref) == len(good) {
		var diffs []string
		for i := range ref {
			if !same(ref[i], good[i]) {
				diffs = append(diffs, fmt.Sprintf("%d:%s", i, c17PctRec(ref[i])))
			}
		}
		if len(diffs) == 0 {
			return "*"
		}
		if len(diffs) <= 16 {
			return fmt.Sprintf("d%d/%s", len(ref), strings.Join(diffs, "/"))
		}
	}
	parts := []string{"f"}
	for _, r := range ref {
		parts = append(parts, c17PctRec(r))
	}
	return strings.Join(parts, "/")
}

func c17WriteGzBytes(path string, text []byte) error {
	f, err := os.Create(path)
	if err != nil {
		return err
	}
	zw := gzip.NewWriter(f)
	if _, err := zw.Write(text); err != nil {
		return err
	}
	if err := zw.Close(); err != nil {
		return err
	}
	return f.Close()
}

// runCase executes one operation list and records the case.
func (h *c17H) runCase(ops []string, class string) error {
	var srcOps, tgtOps []string
	for _, op := range ops {
		if len(strings.Fields(op)) == 0 {
			continue
		}
		if c17IsSrcOp(op) {
			srcOps = append(srcOps, op)
		} else {
			tgtOps = append(tgtOps, op)
		}
	}
	src, err := h.buildSource(srcOps)
	if err == errC17ZoneMissing {
		// never reported as OK: no case is recorded, the omission is counted and named in the evidence
		h.c.Count("SKIPPED:zone-file-missing")
		h.c.Meta("skipped_zone_case", strings.Join(srcOps[:1], ";"))
		return nil
	}
	if err != nil {
		return err
	}
	ids := &c17Ids{m: map[string]int{}}
	hm := &c17HashMap{ids: ids, seen: map[string]bool{}, hashr: service.DefaultBlockHasher()}
	sRows := ids.rows(src.rows)
	hm.addRows(src.rows)
	longest := c17Longest(src.rows)
	var genesis []HeaderRow
	if len(src.rows) > 0 {
		genesis = src.rows[:1]
	}

	// target phase
	h.ntgt++
	tdir := filepath.Join(h.root, "tgt")
	_ = os.RemoveAll(tdir)
	_ = os.MkdirAll(tdir, 0o755)
	gz := filepath.Join(tdir, "headers.csv.gz")
	rel, rerr := filepath.Rel(h.cwd, gz)
	if rerr != nil {
		return rerr
	}
	var file [][]string
	clone := func(r [][]string) [][]string {
		o := make([][]string, len(r))
		for i := range r {
			o[i] = append([]string(nil), r[i]...)
		}
		return o
	}
	file = clone(src.good)
	fileState := "ok" // ok | nofile | garbage
	if src.good == nil {
		fileState = "nofile"
	}
	// default checkpoint: the exported tip, good
	ckH := int32(len(longest) - 1)
	ckHash := chainhash.Hash{}.String()
	if len(longest) > 0 {
		ckHash = longest[len(longest)-1].Hash
	}
	tInit := "-"
	started := false
	var raws []c17Raw
	var fspecs []string
	optDC, optEX := false, false
	var obs []string
	obs = append(obs, src.xobs)
	var outOps []string
	outOps = append(outOps, srcOps...)
	for _, op := range tgtOps {
		w := strings.Fields(op)
		arg := func(i int) string {
			if i < len(w) {
				return w[i]
			}
			return ""
		}
		num := func(i int) int {
			v, err := strconv.Atoi(arg(i))
			if err != nil {
				return -1
			}
			return v
		}
		keep := true
		switch w[0] {
		case "kset":
			r, cc := num(1)+1, num(2)
			if r >= 1 && r < len(file) && cc >= 0 && cc < len(file[r]) {
				file[r][cc] = c17Dec(arg(3))
			}
		case "kdelcol":
			r, cc := num(1)+1, num(2)
			if r >= 1 && r < len(file) && cc >= 0 && cc < len(file[r]) && len(file[r]) > 1 {
				file[r] = append(file[r][:cc:cc], file[r][cc+1:]...)
			}
		case "kaddcol":
			r := num(1) + 1
			if r >= 1 && r < len(file) {
				file[r] = append(file[r], c17Dec(arg(2)))
			}
		case "kallcols":
			n := num(1)
			if n >= 1 {
				for i := range file {
					for len(file[i]) < n {
						file[i] = append(file[i], "0")
					}
					file[i] = file[i][:n]
				}
			}
		case "kdelrow":
			r := num(1) + 1
			if r >= 1 && r < len(file) {
				file = append(file[:r:r], file[r+1:]...)
			}
		case "kduprow":
			r := num(1) + 1
			if r >= 1 && r < len(file) {
				cp := append([]string(nil), file[r]...)
				nf := append([][]string{}, file[:r+1]...)
				nf = append(nf, cp)
				file = append(nf, file[r+1:]...)
			}
		case "kaddrow":
			var rec []string
			for _, v := range strings.Split(arg(1), ",") {
				rec = append(rec, c17Dec(v))
			}
			if len(file) > 0 {
				file = append(file, rec)
			}
		case "ktrunc":
			n := num(1)
			if n >= 0 && n+1 < len(file) {
				file = file[:n+1]
			}
		case "knohdr":
			if len(file) > 0 {
				file = file[1:]
			}
		case "kempty":
			file = [][]string{}
		case "knofile":
			fileState = "nofile"
		case "kgarbage":
			fileState = "garbage"
		case "kfix":
			if src.good != nil {
				file = clone(src.good)
				fileState = "ok"
				raws = nil
			}
		case "kraw":
			raws = append(raws, c17Raw{row: num(1), col: num(2), kind: arg(3)})
		case "c":
			if started {
				keep = false
				break
			}
			for _, o := range strings.Split(arg(1), ",") {
				switch o {
				case "dc":
					optDC = true
				case "ex":
					optEX = true
				}
			}
		case "p":
			hgt := num(1)
			if hgt < 0 || started {
				keep = false
				break
			}
			ckH = int32(hgt)
			base := ""
			if hgt < len(longest) {
				base = longest[hgt].Hash
			} else {
				sum := sha256.Sum256([]byte(fmt.Sprintf("c17-absent-%d", hgt)))
				base = chainhash.Hash(sum).String()
			}
			if arg(2) == "b" {
				base = c17FlipHash(base)
			}
			ckHash = base
		case "tg", "tc":
			if started || tInit != "-" {
				keep = false
				break
			}
			dbp := filepath.Join(tdir, "bhs.db")
			if w[0] == "tc" {
				if err := c17Copy(src.db, dbp); err != nil {
					return err
				}
			} else {
				s, err := NewStack(StackOpts{Dir: tdir})
				if err != nil {
					return err
				}
				s.Close()
			}
			tInit = ids.rows(c17DumpFile(dbp))
		case "i", "iu":
			started = true
			prepared := w[0] == "i"
			_ = os.Remove(gz)
			switch fileState {
			case "ok":
				text := c17Text(file, raws)
				if err := c17WriteGzBytes(gz, text); err != nil {
					return err
				}
				ref := c17RefRead(text)
				hm.addFile(ref)
				fspecs = append(fspecs, c17FileSpec(ref, src.good))
			case "garbage":
				_ = os.WriteFile(gz, []byte("this is not a gzip stream\n1,2,3,4,5\n"), 0o644)
				fspecs = append(fspecs, "!")
			default:
				fspecs = append(fspecs, "!")
			}
			var st *Stack
			var err error
			if src.zones == nil {
				err = c17Guard(func() error {
					s, e := c17Start(tdir, prepared, rel, ckH, ckHash, optDC, optEX)
					st = s
					return e
				})
			} else {
				var cres string
				cres, err = h.runChild(src.zones[2], c17ChildSpec{Phase: "import", Dir: tdir, Prepared: prepared, Rel: rel,
					CkH: ckH, CkHash: ckHash, DC: optDC, EX: optEX})
				if err != nil {
					return err
				}
				if strings.HasPrefix(cres, "panic") {
					err = fmt.Errorf("PANIC %s", cres)
				} else if cres != "ok" {
					err = fmt.Errorf("%s", cres)
				}
			}
			res := "ok"
			if err != nil {
				if src.zones == nil {
					h.leaks++
				}
				res = "err"
				if strings.HasPrefix(err.Error(), "PANIC") {
					res = "panic"
				}
			}
			if st != nil {
				st.Close()
			}
			obs = append(obs, "I="+res+":"+ids.rows(c17DumpFile(filepath.Join(tdir, "bhs.db"))))
		default:
			keep = false
		}
		if keep {
			outOps = append(outOps, op)
		}
	}
	gRow := ids.rows(genesis)
	fl := "-"
	if len(fspecs) > 0 {
		fl = strings.Join(fspecs, "@")
	}
	derived := fmt.Sprintf("D b=%d G=%s P=%d,%d S=%s T=%s F=%s H=%s", database.VerifSQLiteBatchSize, gRow, ckH, ids.id(ckHash), sRows, tInit, fl,
		strings.Join(hm.ents, "/"))
	if len(hm.ents) == 0 {
		derived += "-"
	}
	input := "c17;" + strings.Join(outOps, ";") + ";" + derived
	h.c.Case(input, strings.Join(obs, "|"))
	h.c.Count("case:" + class)
	return nil
}
