//go:build verif

package main

// C16 - "No request crashes the API or earns a 5xx; client errors are structured 4xx".
//
// The runner builds two real stacks (auth disabled / enabled) on identical stores with a fork, stale
// branches and orphans, concretises abstract request classes into HTTP requests (c16_gen.go), classifies
// every concrete request back into its class (c16_classify.go - trusted glue), performs it in-process
// through gin's Engine.ServeHTTP and projects the response.
//
// Stores: five shapes (c16Shapes), the whole grammar on each, served in parallel; the concrete request starts with
// "@<shape>" for every shape but base.  Requests with numbers >= 10^6 or more than 64 KiB are served by a child
// process (`harness c16child <dir> <shape>`) under RLIMIT_AS; a dead child = observable "CRASH server-died".
//
// case input :  <auth> <route> k=v ... | st=<rows> ## <concrete request>
//     the part before " ## " is what the model runs on; the part after it is the concrete request
//     (quoted, reversible) used for replay: `harness C16 <out> --only '<input>'`.
//     "errcode <Code>" : one error value answered through bhserrors.ErrorResponse (ties the model's status table).
// observable :  <status> [<doc>,<doc>..] eff=<none|tok|wh|hdr joined by +>
//     doc = err:<code> (JSON object with string code and message) | str (bare JSON string) | val (any other
//     JSON value) | garbage (bytes that are not JSON)

import (
	"bufio"
	"encoding/json"
	"fmt"
	"io"
	"math/big"
	"net/http"
	"net/http/httptest"
	"net/url"
	"os"
	"os/exec"
	"regexp"
	"sort"
	"strconv"
	"strings"
	"sync"
	"syscall"
	"time"

	"github.com/bitcoin-sv/block-headers-service/bhserrors"
	"github.com/bitcoin-sv/block-headers-service/config"
	"github.com/bitcoin-sv/block-headers-service/domains"
	"github.com/bitcoin-sv/block-headers-service/internal/chaincfg/chainhash"
	"github.com/bitcoin-sv/block-headers-service/metrics"
	"github.com/bitcoin-sv/block-headers-service/service"
	"github.com/bitcoin-sv/block-headers-service/transports/http/endpoints"
	httpserver "github.com/bitcoin-sv/block-headers-service/transports/http/server"
	"github.com/gin-gonic/gin"
)

func init() {
	register("C16", runC16)
	register("c16child", runC16Child)
}

const (
	c16UserToken   = "c16usertoken0001c16usertoken0001"
	c16ActiveURL   = "http://c16.example/active"
	c16InactiveURL = "http://c16.example/inactive"
)

// c16Piece is a literal repeated N times (N=1 for plain text) - keeps absurd lengths short in the case line.
type c16Piece struct {
	S string
	N int
}

// c16Req is one concrete HTTP request.
type c16Req struct {
	Store  string // store shape the request is sent to ("" = base)
	Method string
	AuthOn bool   // which stack: auth enabled or disabled
	Auth   string // Authorization header ("" = absent)
	CT     string // Content-Type header ("" = absent)
	Path   string // URL.Path as seen by gin (already unescaped)
	Query  string // URL.RawQuery
	Body   []c16Piece
}

func (r *c16Req) body() string {
	var sb strings.Builder
	for _, p := range r.Body {
		for i := 0; i < p.N; i++ {
			sb.WriteString(p.S)
		}
	}
	return sb.String()
}

func c16Lit(s string) []c16Piece {
	if s == "" {
		return nil
	}
	return []c16Piece{{s, 1}}
}

// encode renders the request reversibly on one line without tabs/newlines.
func (r *c16Req) encode() string {
	on := "0"
	if r.AuthOn {
		on = "1"
	}
	q := strconv.QuoteToASCII
	parts := []string{q(r.Method), q(on), q(r.Auth), q(r.CT), q(r.Path), q(r.Query)}
	bs := []string{}
	for _, p := range r.Body {
		if p.N == 1 {
			bs = append(bs, q(p.S))
		} else {
			bs = append(bs, fmt.Sprintf("%s*%d", q(p.S), p.N))
		}
	}
	if len(bs) == 0 {
		bs = []string{`""`}
	}
	pre := ""
	if r.Store != "" && r.Store != "base" {
		pre = "@" + r.Store + " "
	}
	return pre + strings.Join(parts, " ") + " " + strings.Join(bs, "+")
}

func c16Decode(s string) (*c16Req, error) {
	s = strings.TrimSpace(s)
	store := "base"
	if strings.HasPrefix(s, "@") {
		i := strings.Index(s, " ")
		if i < 0 {
			return nil, fmt.Errorf("bad store tag in %q", s)
		}
		store, s = s[1:i], s[i+1:]
	}
	next := func() (string, error) {
		s = strings.TrimLeft(s, " ")
		p, err := strconv.QuotedPrefix(s)
		if err != nil {
			return "", fmt.Errorf("bad quoted field at %q: %v", s, err)
		}
		s = s[len(p):]
		return strconv.Unquote(p)
	}
	f := make([]string, 6)
	for i := range f {
		v, err := next()
		if err != nil {
			return nil, err
		}
		f[i] = v
	}
	r := &c16Req{Store: store, Method: f[0], AuthOn: f[1] == "1", Auth: f[2], CT: f[3], Path: f[4], Query: f[5]}
	for {
		v, err := next()
		if err != nil {
			return nil, err
		}
		n := 1
		if strings.HasPrefix(s, "*") {
			j := 1
			for j < len(s) && s[j] >= '0' && s[j] <= '9' {
				j++
			}
			n, _ = strconv.Atoi(s[1:j])
			s = s[j:]
		}
		if v != "" {
			r.Body = append(r.Body, c16Piece{v, n})
		}
		if strings.HasPrefix(s, "+") {
			s = s[1:]
			continue
		}
		break
	}
	return r, nil
}

// c16Fix is the fixture: two stacks with identical stores.
type c16Fix struct {
	shape   string
	repairs int // rows the tree under test could not add / labelled differently (written directly instead)
	off, on *Stack
	rows    []HeaderRow
	hidx    map[string]int // header hash -> row index
	midx    map[string]int // merkle root -> row index (first row having it)
	env     string         // "st=<idx>:<parent idx or ->:<height>:<L|S|O>,..."
	wedged  map[bool]bool  // per stack (auth on?): it stopped answering within the deadline once
	admin   string
}

func c16MerkleOf(i int) chainhash.Hash {
	var h chainhash.Hash
	for j := range h {
		h[j] = byte(0x10 + i*7 + j*3)
	}
	return h
}

func c16UnknownParent(i int) chainhash.Hash {
	var h chainhash.Hash
	for j := range h {
		h[j] = byte(0xa0 + i*5 + j)
	}
	return h
}

// c16Shape is one store shape: for every added header its parent (row index; negative = unknown parent number)
// and its bits.  Row 0 is genesis.
type c16Shape struct {
	name    string
	parents []int
	heavy   map[int]bool // rows (1-based position in parents + 0) mined with much more work than the others
	states  string       // intended state of every row incl. genesis: L longest, S stale, O orphan
	what    string
}

const (
	c16LightBits = 0x207fffff // work 2
	c16HeavyBits = 0x1f7fffff // work ~2^9
)

func c16Shapes() []c16Shape {
	return []c16Shape{
		{name: "base", parents: []int{0, 1, 2, 3, 4 /*a1..a5*/, 2, 6 /*s3,s4*/, 0 /*t1*/, -1, 9 /*o1,o2*/, -2, 11 /*p1,p2*/, 4 /*e5*/}, states: "LLLLLLSSSOOOOS",
			what: "longest chain of 5, stale branch of 2 forking at height 2, stale sibling of block 1, equal-work stale sibling of the tip, two orphan chains of 2"},
		{name: "tallstale", parents: []int{0, 1, 2 /*m1..m3 heavy*/, 0, 4, 5, 6, 7, 8 /*s1..s6 light*/}, heavy: map[int]bool{1: true, 2: true, 3: true}, states: "LLLLSSSSSS",
			what: "longest chain of 3 heavy headers, a light stale branch of 6 from genesis: stale headers ABOVE the tip in height, below it in work"},
		{name: "tallorphan", parents: []int{0, 1 /*m1,m2*/, -1, 3, 4, 5, 6 /*o1..o5*/}, states: "LLLOOOOO",
			what: "longest chain of 2, an orphan chain (unknown parent) of 5: orphans above the tip in height"},
		{name: "both", parents: []int{0, 1, 2 /*m1..m3 heavy*/, 0, 4, 5, 6, 7 /*s1..s5 light*/, -1, 9, 10, 11, 12, 13, 14 /*o1..o7*/, -2 /*p1*/, 3 /*m4 heavy*/},
			heavy: map[int]bool{1: true, 2: true, 3: true, 17: true}, states: "LLLLSSSSSOOOOOOOOL",
			what: "longest chain of 4 heavy headers, light stale branch of 5, orphan chain of 7, a single orphan"},
		{name: "genesis", parents: []int{}, states: "L", what: "nothing beyond genesis"},
	}
}

// c16SplitStore: "<shape>" or "<shape>+m" (the same store served by an engine wired as cmd/main.go does with
// metrics.enabled=true and http.profiling_endpoints_enabled=true).
func c16SplitStore(tag string) (shape string, metricsOn bool) {
	if strings.HasSuffix(tag, "+m") {
		return strings.TrimSuffix(tag, "+m"), true
	}
	return tag, false
}

func c16ShapeByName(n string) (c16Shape, bool) {
	n, _ = c16SplitStore(n)
	if n == "" {
		n = "base"
	}
	for _, sh := range c16Shapes() {
		if sh.name == n {
			return sh, true
		}
	}
	return c16Shape{}, false
}

// c16Build adds the headers of a shape to a stack (deterministic: the same hashes in every process).
func c16Build(s *Stack, sh c16Shape) (repairs int, err error) {
	rows, err := s.DumpHeaders()
	if err != nil {
		return repairs, err
	}
	if len(rows) != 1 {
		return repairs, fmt.Errorf("expected a fresh store with genesis only, got %d rows", len(rows))
	}
	hashes := []chainhash.Hash{}
	gh, err := chainhash.NewHashFromStr(rows[0].Hash)
	if err != nil {
		return repairs, err
	}
	hashes = append(hashes, *gh)
	for i, p := range sh.parents {
		var prev chainhash.Hash
		if p >= 0 {
			prev = hashes[p]
		} else {
			prev = c16UnknownParent(-p)
		}
		bits := uint32(c16LightBits)
		if sh.heavy[i+1] {
			bits = c16HeavyBits
		}
		src := domains.BlockHeaderSource{Version: 1, PrevBlock: prev, MerkleRoot: c16MerkleOf(i + 1),
			Timestamp: time.Unix(int64(1700000000+600*i), 0), Bits: bits, Nonce: uint32(1000 + i)}
		var h *domains.BlockHeader
		var aerr error
		func() {
			defer func() {
				if r := recover(); r != nil {
					aerr = fmt.Errorf("panic in Chains.Add: %v", r)
				}
			}()
			h, aerr = s.Services.Chains.Add(src)
		}()
		if aerr != nil || h == nil {
			// The store shape is a PRECONDITION of this check, not its subject (Add belongs to C01): when the tree under
			// test cannot add the header, the row is written through the repository with the intended state.
			repairs++
			hash := service.DefaultBlockHasher().BlockHash(&src)
			if ex, _ := s.Repo.Headers.GetHeaderByHash(chainhash.Hash(hash).String()); ex == nil {
				ph, _ := s.Repo.Headers.GetHeaderByHash(prev.String())
				if ph == nil {
					ph = domains.NewOrphanPreviousBlockHeader()
				}
				bh := domains.CreateHeader(&hash, &src, ph)
				if err := s.Repo.Headers.AddHeaderToDatabase(bh); err != nil {
					return repairs, fmt.Errorf("building the store %s: header %d: Add: %v; direct insert: %v", sh.name, i+1, aerr, err)
				}
			}
			hashes = append(hashes, chainhash.Hash(hash))
			continue
		}
		hashes = append(hashes, h.Hash)
	}
	// the intended states (forced when the tree under test labelled a row differently)
	names := map[byte]string{'L': "LONGEST_CHAIN", 'S': "STALE", 'O': "ORPHAN"}
	rows, err = s.DumpHeaders()
	if err != nil {
		return repairs, err
	}
	if len(rows) != len(sh.states) {
		return repairs, fmt.Errorf("building the store %s: %d rows, expected %d", sh.name, len(rows), len(sh.states))
	}
	for i, r := range rows {
		if r.Hash != hashes[i].String() {
			return repairs, fmt.Errorf("building the store %s: row %d is not the header added %d-th", sh.name, i, i)
		}
		if want := names[sh.states[i]]; r.State != want {
			repairs++
			if _, err := s.DB.Exec(`UPDATE headers SET header_state = ? WHERE hash = ?`, want, r.Hash); err != nil {
				return repairs, err
			}
		}
	}
	// baseline tokens / webhooks, then backup copies used to restore after state-changing requests
	stmts := []string{
		`INSERT INTO tokens(token, created_at) VALUES('` + c16UserToken + `', '2024-01-01 00:00:00')`,
		`INSERT INTO webhooks(url, token_header, token, created_at, last_emit_status, last_emit_timestamp, errors_count, is_active) VALUES('` + c16ActiveURL + `', 'Authorization', 'Bearer x', '2024-01-01 00:00:00', '', '1970-01-01 00:00:00', 0, 1)`,
		`INSERT INTO webhooks(url, token_header, token, created_at, last_emit_status, last_emit_timestamp, errors_count, is_active) VALUES('` + c16InactiveURL + `', 'Authorization', 'Bearer y', '2024-01-01 00:00:00', '500 x', '2024-01-02 00:00:00', 10, 0)`,
		`CREATE TABLE c16_tokens_base AS SELECT * FROM tokens`,
		`CREATE TABLE c16_webhooks_base AS SELECT * FROM webhooks`,
	}
	for _, q := range stmts {
		if _, err := s.DB.Exec(q); err != nil {
			return repairs, fmt.Errorf("%s: %w", q, err)
		}
	}
	return repairs, nil
}

func (s *Stack) c16Restore(table string) {
	_, _ = s.DB.Exec(`DELETE FROM ` + table)
	_, _ = s.DB.Exec(`INSERT INTO ` + table + ` SELECT * FROM c16_` + table + `_base`)
}

// c16MetricsEngine replaces the stack's engine by one wired in the order of cmd/main.go: logging + recovery,
// metrics.Register (request metrics middleware, NoRoute marker, /metrics), then the routes (with the pprof group).
// metrics.EnableMetrics() is process-global and cannot be undone: only ever called in a child process.
func c16MetricsEngine(s *Stack) {
	server := httpserver.NewHTTPServer(s.Cfg.HTTP, s.Log)
	server.ApplyConfiguration(metrics.Register)
	server.ApplyConfiguration(endpoints.SetupRoutes(s.Services, s.Cfg.HTTP))
	server.ApplyConfiguration(func(e *gin.Engine) { s.Engine = e })
}

func c16NewFix(c *Ctx, sh c16Shape, metricsOn bool) (*c16Fix, error) {
	gin.DefaultErrorWriter = io.Discard
	f := &c16Fix{shape: sh.name, hidx: map[string]int{}, midx: map[string]int{}, admin: config.DefaultAppToken, wedged: map[bool]bool{}}
	var err error
	if metricsOn {
		if _, on := metrics.Get(); !on {
			metrics.EnableMetrics()
		}
	}
	if f.off, err = NewStack(StackOpts{Dir: c.TmpDir("c16off-" + sh.name), UseAuth: false, Profiling: metricsOn}); err != nil {
		return nil, err
	}
	if f.on, err = NewStack(StackOpts{Dir: c.TmpDir("c16on-" + sh.name), UseAuth: true, Profiling: metricsOn}); err != nil {
		return nil, err
	}
	if metricsOn {
		c16MetricsEngine(f.off)
		c16MetricsEngine(f.on)
		if _, on := metrics.Get(); !on {
			return nil, fmt.Errorf("metrics did not switch on")
		}
	}
	for _, s := range []*Stack{f.off, f.on} {
		n, err := c16Build(s, sh)
		if err != nil {
			return nil, err
		}
		f.repairs += n
	}
	rows, err := f.off.DumpHeaders()
	if err != nil {
		return nil, err
	}
	rows2, err := f.on.DumpHeaders()
	if err != nil {
		return nil, err
	}
	if fmt.Sprint(rows) != fmt.Sprint(rows2) {
		return nil, fmt.Errorf("the two stores differ")
	}
	f.rows = rows
	for i, r := range rows {
		if _, dup := f.hidx[r.Hash]; dup {
			return nil, fmt.Errorf("duplicate hash in the store")
		}
		f.hidx[r.Hash] = i
		if _, dup := f.midx[r.Merkle]; !dup {
			f.midx[r.Merkle] = i
		}
	}
	parts := []string{}
	for i, r := range rows {
		p := "-"
		if j, ok := f.hidx[r.Prev]; ok {
			p = strconv.Itoa(j)
		}
		st := map[string]string{"LONGEST_CHAIN": "L", "STALE": "S", "ORPHAN": "O"}[r.State]
		if st == "" {
			return nil, fmt.Errorf("unexpected header state %q", r.State)
		}
		parts = append(parts, fmt.Sprintf("%d:%s:%d:%s", i, p, r.Height, st))
	}
	f.env = "st=" + strings.Join(parts, ",")
	return f, nil
}

// close is bounded: a store that stopped answering must not wedge the end of the run
func (f *c16Fix) close() {
	if f.wedged[false] || f.wedged[true] {
		return // goroutines are still blocked inside this store: leave it to the end of the process
	}
	c16Within(3*time.Second, func() {
		f.off.Close()
		f.on.Close()
	})
}

func c16Digests(s *Stack) [3]string {
	return [3]string{s.TableDigest("headers"), s.TableDigest("tokens"), s.TableDigest("webhooks")}
}

// c16DescribeDoc names the shape of one JSON value of a response body.
func c16DescribeDoc(v interface{}) string {
	switch x := v.(type) {
	case map[string]interface{}:
		code, ok1 := x["code"].(string)
		_, ok2 := x["message"].(string)
		if ok1 && ok2 {
			ok := code != ""
			for _, ch := range code {
				if !(ch >= 'a' && ch <= 'z' || ch >= 'A' && ch <= 'Z' || ch >= '0' && ch <= '9' || ch == '-' || ch == '_') {
					ok = false
				}
			}
			if ok {
				return "err:" + code
			}
			return "err:?"
		}
		return "val"
	case string:
		return "str"
	default:
		return "val"
	}
}

// c16BodyDocs parses a response body as a sequence of JSON values.
func c16BodyDocs(body string) []string {
	docs := []string{}
	dec := json.NewDecoder(strings.NewReader(body))
	for {
		var v interface{}
		err := dec.Decode(&v)
		if err == io.EOF {
			break
		}
		if err != nil {
			docs = append(docs, "garbage")
			break
		}
		docs = append(docs, c16DescribeDoc(v))
		if len(docs) > 8 {
			break
		}
	}
	return docs
}

// c16Deadline bounds every phase of one request (digest of the tables, ServeHTTP, digest + restore): a request may
// legitimately wait for SQLite's 5 s busy timeout, nothing may wait longer.
func c16Deadline() time.Duration {
	if v, err := strconv.ParseFloat(os.Getenv("VERIF_C16_DEADLINE_S"), 64); err == nil && v > 0 {
		return time.Duration(v * float64(time.Second))
	}
	return 7 * time.Second
}

// c16SizeAllowance: huge lists legitimately cost one or two SQL statements per element - 1 s per 100 kB of request.
func c16SizeAllowance(r *c16Req) time.Duration {
	n := len(r.Path) + len(r.Query)
	for _, p := range r.Body {
		n += len(p.S) * p.N
	}
	return time.Duration(n/100000) * time.Second
}

// c16Within runs fn in a goroutine and reports whether it finished within the deadline; an abandoned goroutine
// stays blocked (on database/sql, typically) and is left behind - nothing later waits for it.
func c16Within(d time.Duration, fn func()) bool {
	done := make(chan struct{})
	go func() {
		defer close(done)
		defer func() {
			// an abandoned goroutine may wake up when the run is over and the stacks are gone: never let it take the
			// process down (panics of ServeHTTP itself are recovered, and reported, inside fn)
			if p := recover(); p != nil {
				fmt.Fprintf(os.Stderr, "c16: recovered in a background phase: %v\n", p)
			}
		}()
		fn()
	}()
	t := time.NewTimer(d)
	defer t.Stop()
	select {
	case <-done:
		return true
	case <-t.C:
		return false
	}
}

// do performs the request in-process and projects the observable.
//   NO-ANSWER ...                       the tables could not be read before the request, or ServeHTTP did not return
//   <status> [docs] eff=unreadable      answered, but afterwards the tables cannot be read any more
func (f *c16Fix) do(r *c16Req) (obs string, status int, raw string) {
	s := f.off
	if r.AuthOn {
		s = f.on
	}
	dl := c16Deadline()
	if f.wedged[r.AuthOn] {
		dl = dl / 4 // the stack already stopped answering once: do not spend the full wait again
	}
	serveDl := dl + c16SizeAllowance(r)
	var d0, d1 [3]string
	if !c16Within(dl, func() { d0 = c16Digests(s) }) {
		f.wedged[r.AuthOn] = true
		return "NO-ANSWER the tables cannot be read before the request: the store stopped answering after an earlier request on this stack", 0, ""
	}
	req := &http.Request{Method: r.Method, URL: &url.URL{Path: r.Path, RawQuery: r.Query}, Proto: "HTTP/1.1",
		ProtoMajor: 1, ProtoMinor: 1, Header: http.Header{}, Host: "c16.test", RemoteAddr: "192.0.2.1:1234", RequestURI: r.Path}
	if r.Query != "" {
		req.RequestURI += "?" + r.Query
	}
	b := r.body()
	req.Body = io.NopCloser(strings.NewReader(b))
	req.ContentLength = int64(len(b))
	if r.Auth != "" {
		req.Header.Set("Authorization", r.Auth)
	}
	if r.CT != "" {
		req.Header.Set("Content-Type", r.CT)
	}
	w := httptest.NewRecorder()
	panicked := ""
	if !c16Within(serveDl, func() {
		defer func() {
			if p := recover(); p != nil {
				panicked = fmt.Sprint(p)
			}
		}()
		s.Engine.ServeHTTP(w, req)
	}) {
		f.wedged[r.AuthOn] = true
		return fmt.Sprintf("NO-ANSWER ServeHTTP did not return within %.0f s", serveDl.Seconds()), 0, ""
	}
	eff := []string{}
	var late []string // written by the goroutine only; read only when it finished in time
	if c16Within(dl, func() {
		e := []string{}
		d1 = c16Digests(s)
		if d0[0] != d1[0] {
			e = append(e, "hdr")
		}
		if d0[1] != d1[1] {
			e = append(e, "tok")
			s.c16Restore("tokens")
		}
		if d0[2] != d1[2] {
			e = append(e, "wh")
			s.c16Restore("webhooks")
		}
		late = e
	}) {
		eff = late
	} else {
		f.wedged[r.AuthOn] = true
		eff = []string{"unreadable"}
	}
	if len(eff) == 0 {
		eff = []string{"none"}
	}
	if panicked != "" {
		return "PANIC-ESCAPED eff=" + strings.Join(eff, "+"), 0, panicked
	}
	raw = w.Body.String()
	return fmt.Sprintf("%d [%s] eff=%s", w.Code, strings.Join(c16BodyDocs(raw), ","), strings.Join(eff, "+")), w.Code, raw
}

// c16Stuck: the observable says that the stack stopped answering.
func c16Stuck(obs string) bool {
	return strings.HasPrefix(obs, "NO-ANSWER") || strings.HasSuffix(obs, "eff=unreadable")
}

// the routes of the API group this runner knows; a route registered in the engine that is missing here makes
// the run fail (so that new routes are not silently skipped)
var c16RouteNames = map[string]string{
	"GET /api/v1/chain/header/:hash":                        "hdr",
	"GET /api/v1/chain/header/byHeight":                     "byheight",
	"GET /api/v1/chain/header/:hash/:ancestorHash/ancestor": "anc",
	"POST /api/v1/chain/header/commonAncestor":              "common",
	"GET /api/v1/chain/header/state/:hash":                  "state",
	"GET /api/v1/chain/tip":                                 "tip",
	"GET /api/v1/chain/tip/longest":                         "tiplongest",
	"GET /api/v1/network/peer":                              "peers",
	"GET /api/v1/network/peer/count":                        "peercount",
	"POST /api/v1/chain/merkleroot/verify":                  "verify",
	"GET /api/v1/chain/merkleroot":                          "mroots",
	"POST /api/v1/webhook":                                  "whpost",
	"GET /api/v1/webhook":                                   "whget",
	"DELETE /api/v1/webhook":                                "whdel",
	"GET /api/v1/access":                                    "accget",
	"POST /api/v1/access":                                   "accpost",
	"DELETE /api/v1/access/:token":                          "accdel",
}

// the error values the model's status_of table mirrors (bhserrors/definitions.go); a removed one breaks the build
var c16ErrTable = []bhserrors.BHSError{
	bhserrors.ErrBindBody, bhserrors.ErrMissingAuthHeader, bhserrors.ErrInvalidAuthHeader, bhserrors.ErrInvalidAccessToken,
	bhserrors.ErrUnauthorized, bhserrors.ErrAdminTokenNotFound, bhserrors.ErrMerklerootNotFound, bhserrors.ErrMerklerootNotInLongestChain,
	bhserrors.ErrInvalidBatchSize, bhserrors.ErrGetChainTipHeight, bhserrors.ErrVerifyMerklerootsBadBody, bhserrors.ErrTokenNotFound,
	bhserrors.ErrAncestorHashHigher, bhserrors.ErrAncestorNotFound, bhserrors.ErrHeadersNotPartOfTheSameChain, bhserrors.ErrHeaderWithGivenHashes,
	bhserrors.ErrHeaderNotFound, bhserrors.ErrHeadersForGivenRangeNotFound, bhserrors.ErrURLBodyRequired, bhserrors.ErrURLParamRequired,
	bhserrors.ErrWebhookNotFound, bhserrors.ErrRefreshWebhook,
}

// c16ErrCase answers one error through bhserrors.ErrorResponse on a gin test context:
// input "errcode <Code>" ("errcode error-unknown" = an error that is not an ExtendedError), observable as for requests.
func c16ErrCase(c *Ctx, code string) {
	var e error = fmt.Errorf("some internal error")
	for _, x := range c16ErrTable {
		if x.GetCode() == code {
			e = x.Wrap(fmt.Errorf("cause"))
		}
	}
	w := httptest.NewRecorder()
	gc, _ := gin.CreateTestContext(w)
	gc.Request = httptest.NewRequest("GET", "/", nil)
	bhserrors.ErrorResponse(gc, e, nil)
	c.Case("errcode "+code, fmt.Sprintf("%d [%s] eff=none", w.Code, strings.Join(c16BodyDocs(w.Body.String()), ",")))
	c.Count("route:errcode")
}

// ---------------------------------------------------------------------------------------------------
// dangerous requests (absurd numbers, huge bodies) are served by a CHILD process of this binary under an address
// space limit, so that an allocation driven by the client's number can kill the child but never the harness.

const c16ChildMemDefault = 4 << 30

var c16BigNumber = big.NewInt(1000000)

// c16Dangerous: some numeric class value is >= 10^6 in magnitude (8 MB if the server allocates that many words),
// or the request carries more than 64 KiB.
func c16Dangerous(class string, r *c16Req) bool {
	for _, w := range strings.Fields(class) {
		if j := strings.Index(w, "=n:"); j >= 0 {
			if z, ok := new(big.Int).SetString(w[j+3:], 10); ok && new(big.Int).Abs(z).Cmp(c16BigNumber) >= 0 {
				return true
			}
		}
	}
	n := len(r.Path) + len(r.Query)
	for _, p := range r.Body {
		n += len(p.S) * p.N
	}
	return n > 64<<10
}

// runC16Child: `harness c16child <dir> <shape>` - builds the store, then answers one encoded request per stdin line
// with one observable line on stdout.
func runC16Child(c *Ctx) error {
	lim := uint64(c16ChildMemDefault)
	if v, err := strconv.ParseUint(os.Getenv("VERIF_C16_CHILD_MEM"), 10, 64); err == nil && v > 0 {
		lim = v
	}
	_ = syscall.Setrlimit(syscall.RLIMIT_AS, &syscall.Rlimit{Cur: lim, Max: lim})
	name := "base"
	if len(c.Args) > 0 {
		name = c.Args[0]
	}
	sh, ok := c16ShapeByName(name)
	if !ok {
		return fmt.Errorf("unknown store shape %q", name)
	}
	f, err := c16NewFix(c, sh, len(c.Args) > 1 && c.Args[1] == "metrics")
	if err != nil {
		return err
	}
	defer f.close()
	out := bufio.NewWriter(os.Stdout)
	fmt.Fprintln(out, "READY")
	out.Flush()
	sc := bufio.NewScanner(os.Stdin)
	sc.Buffer(make([]byte, 1<<20), 1<<28)
	for sc.Scan() {
		r, err := c16Decode(sc.Text())
		if err != nil {
			fmt.Fprintln(out, "CHILD-BAD-REQUEST")
		} else {
			obs, _, _ := f.do(r)
			fmt.Fprintln(out, obs)
		}
		out.Flush()
	}
	return nil
}

// c16Child is the parent's handle on one child process.
type c16Child struct {
	metrics bool
	shape   string
	dir     string
	cmd     *exec.Cmd
	in      io.WriteCloser
	lines   chan string
	starts  int
	crashes int
	pid     int
}

// a child that was killed or died cannot remove its own scratch databases (tmpfs = memory): the parent does
func (ch *c16Child) sweep() {
	if ch.pid > 0 {
		_ = os.RemoveAll(fmt.Sprintf("/dev/shm/verif-%d", ch.pid))
	}
}

func (ch *c16Child) start() error {
	exe, err := os.Executable()
	if err != nil {
		return err
	}
	ch.starts++
	args := []string{"c16child", fmt.Sprintf("%s-%d", ch.dir, ch.starts), ch.shape}
	if ch.metrics {
		args = append(args, "metrics")
	}
	cmd := exec.Command(exe, args...)
	cmd.Env = os.Environ()
	in, err := cmd.StdinPipe()
	if err != nil {
		return err
	}
	outp, err := cmd.StdoutPipe()
	if err != nil {
		return err
	}
	cmd.Stderr = nil
	if err := cmd.Start(); err != nil {
		return err
	}
	ch.pid = cmd.Process.Pid
	lines := make(chan string, 4)
	go func() {
		sc := bufio.NewScanner(outp)
		sc.Buffer(make([]byte, 1<<16), 1<<22)
		for sc.Scan() {
			lines <- sc.Text()
		}
		close(lines)
	}()
	ch.cmd, ch.in, ch.lines = cmd, in, lines
	select {
	case l, ok := <-lines:
		if !ok || l != "READY" {
			ch.kill()
			return fmt.Errorf("child for store %s did not come up (%q)", ch.shape, l)
		}
	case <-time.After(120 * time.Second):
		ch.kill()
		return fmt.Errorf("child for store %s did not come up in time", ch.shape)
	}
	return nil
}

func (ch *c16Child) kill() {
	if ch.cmd != nil {
		_ = ch.in.Close()
		_ = ch.cmd.Process.Kill()
		_ = ch.cmd.Wait()
		ch.cmd = nil
		ch.sweep()
	}
}

// exec serves one request in the child; a child that dies (or hangs) is the observable CRASH for this request.
func (ch *c16Child) exec(r *c16Req) (string, error) {
	if ch.cmd == nil {
		if err := ch.start(); err != nil {
			return "", err
		}
	}
	if _, err := io.WriteString(ch.in, r.encode()+"\n"); err != nil {
		ch.kill()
		ch.crashes++
		return "CRASH server-died (pipe closed before the request)", nil
	}
	wait := 3*c16Deadline() + c16SizeAllowance(r) + 15*time.Second
	select {
	case l, ok := <-ch.lines:
		if ok {
			if c16Stuck(l) {
				// the child's stack stopped answering: report, then replace the child
				ch.kill()
				ch.crashes++
			}
			return l, nil
		}
		st := "?"
		_ = ch.in.Close()
		if err := ch.cmd.Wait(); err != nil {
			st = strings.ReplaceAll(err.Error(), "\n", " ")
		}
		ch.cmd = nil
		ch.sweep()
		ch.crashes++
		return "CRASH server-died (" + st + ")", nil
	case <-time.After(wait):
		ch.kill()
		ch.crashes++
		return fmt.Sprintf("NO-ANSWER the child process serving the request did not answer within %.0f s (killed)", wait.Seconds()), nil
	}
}

// ---------------------------------------------------------------------------------------------------

type c16Job struct {
	r      *c16Req
	origin string
	want   string
}

type c16Out struct {
	input, obs, route, origin, class string
	skip                            string
	danger                          bool
}

// c16RunStore serves the jobs of one store in order (dangerous ones through the child) and returns what to emit.
// With metricsOn every request goes to a child whose engines have metrics (and profiling) enabled; f is then only used
// for classification (read-only) and the case line.
func c16RunStore(c *Ctx, f *c16Fix, jobs []c16Job, childDir string, metricsOn bool) ([]c16Out, error) {
	outs := make([]c16Out, 0, len(jobs))
	ch := &c16Child{shape: f.shape, dir: childDir, metrics: metricsOn}
	tag := f.shape
	if metricsOn {
		tag += "+m"
	}
	defer ch.kill()
	var tChild, tLocal, tClass time.Duration
	defer func() {
		fmt.Fprintf(os.Stderr, "c16: store %s: classify %.1fs, in-process %.1fs, child %.1fs (%d child starts)\n", tag, tClass.Seconds(), tLocal.Seconds(), tChild.Seconds(), ch.starts)
	}()
	stuck := 0
	for _, j := range jobs {
		if stuck >= 3 {
			// three requests without an answer are failures enough; every further one would only wait again
			outs = append(outs, c16Out{skip: "not-sent-after-3-requests-without-answer"})
			continue
		}
		j.r.Store = tag
		tc := time.Now()
		cl, route, skip := f.classify(j.r)
		tClass += time.Since(tc)
		if skip != "" {
			outs = append(outs, c16Out{skip: skip})
			continue
		}
		if metricsOn {
			cl += " cfg=metrics" // informational: the model's answer does not depend on it
		}
		if j.want != "" && !strings.HasPrefix(cl, j.want) {
			// sanity of the glue: the classifier must map a generated request back to the class it was generated for
			return nil, fmt.Errorf("classifier disagrees with the generator: wanted prefix %q got %q for %s", j.want, cl, j.r.encode())
		}
		var obs string
		danger := metricsOn || c16Dangerous(cl, j.r)
		tq := time.Now()
		if danger {
			if ch.crashes >= 8 {
				outs = append(outs, c16Out{skip: "dangerous-request-after-8-crashes"})
				continue
			}
			var err error
			if obs, err = ch.exec(j.r); err != nil {
				return nil, err
			}
		} else {
			obs, _, _ = f.do(j.r)
		}
		if danger {
			tChild += time.Since(tq)
		} else {
			tLocal += time.Since(tq)
		}
		if c16Stuck(obs) {
			stuck++
		}
		if route == "unrouted" {
			// gin's own answers for unroutable paths are outside the model: only "no 5xx, nothing changed" is observed
			st, _ := strconv.Atoi(strings.SplitN(obs, " ", 2)[0])
			if (st == 301 || st == 307 || st == 308 || st == 404 || st == 405) && strings.HasSuffix(obs, "eff=none") {
				obs = "gin-3xx-4xx eff=none"
			}
		}
		outs = append(outs, c16Out{input: cl + " | " + f.env + " ## " + j.r.encode(), obs: obs, route: route, origin: j.origin, class: c16HistKey(cl), danger: danger})
	}
	return outs, nil
}

var c16ReLoosen = regexp.MustCompile(`k[0-9].*$`)

func runC16(c *Ctx) error {
	gin.SetMode(gin.ReleaseMode)
	// safety net for the harness itself: an allocation gone wild ends this process, never the machine
	plim := uint64(16 << 30)
	if v, err := strconv.ParseUint(os.Getenv("VERIF_C16_PARENT_MEM"), 10, 64); err == nil {
		plim = v
	}
	if plim > 0 {
		_ = syscall.Setrlimit(syscall.RLIMIT_AS, &syscall.Rlimit{Cur: plim, Max: plim})
	}
	if strings.HasPrefix(c.Only, "errcode ") {
		c16ErrCase(c, strings.TrimPrefix(c.Only, "errcode "))
		return nil
	}
	covered := map[string]int{}
	emitAll := func(outs []c16Out) {
		for _, o := range outs {
			if o.skip != "" {
				c.Count("skipped:" + o.skip)
				continue
			}
			c.Case(o.input, o.obs)
			covered[o.route]++
			c.Count("route:" + o.route)
			c.Count("origin:" + o.origin)
			c.Count("class:" + o.class)
			if o.danger {
				c.Count("served-by:child-process")
			}
		}
	}
	checkRoutes := func(f *c16Fix) error {
		// every API route of the engine must be known
		for _, s := range []*Stack{f.off, f.on} {
			for _, ri := range s.Engine.Routes() {
				if !strings.HasPrefix(ri.Path, "/api/v1") {
					continue
				}
				if _, ok := c16RouteNames[ri.Method+" "+ri.Path]; !ok {
					return fmt.Errorf("route %s %s is registered in the engine but unknown to the C16 classifier - extend c16RouteNames, the classifier and the model", ri.Method, ri.Path)
				}
			}
		}
		return nil
	}
	if c.Only != "" {
		i := strings.Index(c.Only, " ## ")
		if i < 0 {
			return fmt.Errorf("--only: no concrete request in the input line")
		}
		r, err := c16Decode(c.Only[i+4:])
		if err != nil {
			return err
		}
		sh, ok := c16ShapeByName(r.Store)
		if !ok {
			return fmt.Errorf("--only: unknown store shape %q", r.Store)
		}
		_, mOn := c16SplitStore(r.Store)
		f, err := c16NewFix(c, sh, false)
		if err != nil {
			return err
		}
		defer f.close()
		outs, err := c16RunStore(c, f, []c16Job{{r: r, origin: "replay"}}, c.TmpDir("c16child-"+sh.name), mOn)
		if err != nil {
			return err
		}
		emitAll(outs)
		return nil
	}
	// the error table of the model against bhserrors (also the codes no request of this run reaches)
	c16ErrCase(c, "error-unknown")
	for _, x := range c16ErrTable {
		c16ErrCase(c, x.GetCode())
	}
	// fixtures and job lists are made sequentially (all random choices in a fixed order), the stores are then
	// served in parallel and their cases emitted in the fixed order of the shapes
	tStart := time.Now()
	shapes := c16Shapes()
	fixes := make([]*c16Fix, len(shapes))
	jobs := make([][]c16Job, len(shapes))
	corpus := map[string][]c16Job{}
	for _, line := range c16Corpus() {
		i := strings.Index(line, " ## ")
		if i < 0 {
			continue
		}
		r, err := c16Decode(line[i+4:])
		if err != nil {
			return fmt.Errorf("corpus line %q: %v", line, err)
		}
		if _, ok := c16ShapeByName(r.Store); !ok {
			return fmt.Errorf("corpus line %q: unknown store shape", line)
		}
		corpus[r.Store] = append(corpus[r.Store], c16Job{r: r, origin: "corpus"})  // key: "<shape>" or "<shape>+m"
	}
	{
		var wg sync.WaitGroup
		ferrs := make([]error, len(shapes))
		for si := range shapes {
			wg.Add(1)
			go func(si int) {
				defer wg.Done()
				fixes[si], ferrs[si] = c16NewFix(c, shapes[si], false)
			}(si)
		}
		wg.Wait()
		for si := range shapes {
			if ferrs[si] != nil {
				return ferrs[si]
			}
			defer fixes[si].close()
		}
	}
	for si, sh := range shapes {
		f := fixes[si]
		if err := checkRoutes(f); err != nil {
			return err
		}
		jobs[si] = append(jobs[si], corpus[sh.name]...)
		g := &c16Gen{f: f, c: c}
		for _, gr := range g.structured() {
			want := gr.want
			if sh.name != "base" {
				want = c16ReLoosen.ReplaceAllString(want, "") // fixed row numbers of the generator only fit the base store
			}
			jobs[si] = append(jobs[si], c16Job{r: gr.r, origin: "structured", want: want})
		}
		nm := c.Pick(1200, 20000)
		if sh.name != "base" {
			nm = c.Pick(300, 4000)
		}
		for _, r := range g.mutated(nm) {
			jobs[si] = append(jobs[si], c16Job{r: r, origin: "mutated"})
		}
	}
	// the metrics + profiling configuration: the whole grammar of the store once more (own copies of the requests),
	// on the base store in the quick tier, on every store in the thorough tier
	type worker struct {
		si      int
		metrics bool
		jobs    []c16Job
	}
	workers := []worker{}
	for si := range shapes {
		workers = append(workers, worker{si: si, jobs: jobs[si]})
	}
	for si, sh := range shapes {
		if sh.name == "base" || c.Thorough() {
			mj := append([]c16Job{}, corpus[sh.name+"+m"]...)
			for _, j := range jobs[si] {
				if j.origin == "corpus" {
					continue
				}
				r := *j.r
				mj = append(mj, c16Job{r: &r, origin: j.origin, want: j.want})
			}
			workers = append(workers, worker{si: si, metrics: true, jobs: mj})
		}
	}
	results := make([][]c16Out, len(workers))
	errs := make([]error, len(workers))
	took := make([]time.Duration, len(workers))
	tGen := time.Since(tStart)
	var wg sync.WaitGroup
	for wi := range workers {
		wg.Add(1)
		go func(wi int) {
			defer wg.Done()
			w := workers[wi]
			t0 := time.Now()
			dir := c.Out + "/tmp/c16child-" + shapes[w.si].name
			if w.metrics {
				dir += "-m"
			}
			results[wi], errs[wi] = c16RunStore(c, fixes[w.si], w.jobs, dir, w.metrics)
			took[wi] = time.Since(t0)
		}(wi)
	}
	wg.Wait()
	for wi, w := range workers {
		if errs[wi] != nil {
			return errs[wi]
		}
		emitAll(results[wi])
		if w.metrics {
			c.Count("config:metrics+profiling-enabled-stores")
			fmt.Fprintf(os.Stderr, "c16: store %s+m: %d jobs served in %.1fs\n", shapes[w.si].name, len(w.jobs), took[wi].Seconds())
		}
	}
	for si := range shapes {
		c.Meta("store:"+shapes[si].name, fmt.Sprintf("%s; %s; rows written directly because Chains.Add of the tree under test failed or labelled them differently: %d", shapes[si].what, fixes[si].env, fixes[si].repairs))
		fmt.Fprintf(os.Stderr, "c16: store %s: %d jobs served in %.1fs (fixtures+generation %.1fs)\n", shapes[si].name, len(jobs[si]), took[si].Seconds(), tGen.Seconds())
	}
	names := []string{}
	for _, n := range c16RouteNames {
		if covered[n] == 0 {
			names = append(names, n)
		}
	}
	sort.Strings(names)
	if len(names) > 0 {
		return fmt.Errorf("routes without any case: %v", names)
	}
	c.Meta("routes_covered", fmt.Sprintf("%d of %d API routes of engine.Routes(), on each of %d store shapes", len(c16RouteNames), len(c16RouteNames), len(shapes)))
	return nil
}

// c16HistKey shortens a class line for the histogram: "<auth> <route> <param classes without values>".
func c16HistKey(cl string) string {
	w := strings.Fields(cl)
	for i := range w {
		if j := strings.Index(w[i], "="); j >= 0 {
			v := w[i][j+1:]
			switch {
			case strings.HasPrefix(v, "k") && len(v) > 1 && v[1] >= '0' && v[1] <= '9':
				v = "known"
			case strings.HasPrefix(v, "n:"):
				v = "num"
			case strings.HasPrefix(v, "list:"):
				v = "list"
			}
			w[i] = w[i][:j+1] + v
		}
	}
	return strings.Join(w, " ")
}

func c16Corpus() []string {
	dir := "/verif/corpus/C16"
	if v := getenv("VERIF_DIR"); v != "" {
		dir = v + "/corpus/C16"
	}
	return c16ReadLines(dir)
}
