//go:build verif

package main

import (
	"encoding/json"
	"fmt"
	"net/url"
	"os"
	"path/filepath"
	"sort"
	"strings"
	"sync"
	"sync/atomic"
	"time"

	"github.com/bitcoin-sv/block-headers-service/config"
)

func init() { register("C10", runC10) }

// C10: issued tokens authenticate from creation until revocation, and never after.
//
// input : operations separated by ';'
//
//	C:<cred>:<name>   POST   /api/v1/access           with "Bearer <cred>"; binds <name> to the value returned
//	R:<cred>:<name>   DELETE /api/v1/access/<value>   with "Bearer <cred>"
//	H:<name>          authenticate over HTTP: GET /api/v1/access and GET /api/v1/chain/tip/longest
//	W:<name>          authenticate on the websocket connect handshake (real centrifuge-go client in the
//	                  thorough tier and for a share of quick cases - prefix "Wr" forces the real client -
//	                  otherwise the token check the connect handler performs, Services.Tokens.GetToken)
//	OVL:<held>:<probe> while an authenticate (GET /api/v1/access) of <held> is held inside the token repository (its lookup
//	                  has returned), <probe> is authenticated on GET /api/v1/access, on an admin route (DELETE
//	                  /api/v1/access/<never issued value>) and on the websocket connect check; then <held> is released.
//	                  result "ovl:<role of held>:<role of probe>,<ok|401>,<ok|no>": every answer depends on its own token only.
//	SLW:<first>:<second> every SQL statement is made to wait (the whole connection pool is held for a moment, i.e. the
//	                  delay is BELOW the repository layer); <first> is authenticated (GET /api/v1/access) and, once its
//	                  statement waits, <second> on GET /api/v1/access, on the admin route and on the websocket check,
//	                  each from its own goroutine; then the pool is released.  result "slw:..." shaped like "ovl:...".
//	A<src>=<value>    (only as the first element) the admin token the case is configured with, percent-encoded;
//	                  <src> = e: through the environment (BHS_HTTP_AUTH_TOKEN), f: through a config file (-C), in both
//	                  cases the real SetDefaults + LoadFlags + Load run in a child process and the stack gets the value
//	                  they yield; d (or nothing): written into the AppConfig directly.  Credentials named "adm" always
//	                  present the CONFIGURED literal.
//	X                 restart: close the database, reopen the same SQLite file, rebuild services + engine
//	Cf:<cred>:<name>  like C, but the COMMIT of the INSERT fails (SQLite commit hook turns it into a ROLLBACK)
//	Rf:<cred>:<name>  like R, but the COMMIT of the DELETE fails
//	Cl:<cred>:<name>  like C, but ANOTHER connection holds the database's write lock (BEGIN IMMEDIATE on a second *sql.DB on
//	Rl:<cred>:<name>  the same file) until the call has returned: the write cannot be done, the answer must say so
//	                  (c:fail / r:fail after the service's busy timeout, about 5 s) and nothing may have changed
//	Cw:<cred>:<name>:<probe>  like C / R, and <probe> is authenticated (GET /api/v1/access + the websocket token check) from
//	Rw:<cred>:<name>:<probe>  INSIDE the write transaction (SQLite commit hook: statement done, COMMIT pending).  result
//	                  "<c|r>:..+<role>,<ok|no>" ("+-" when no write transaction was committed or <probe> is the revoked
//	                  value itself): the answer is the one <probe> gets alone
//	CC<k>:<name>      k concurrent creates (spin-gated): all values pairwise distinct and new, each authenticates, revoking one
//	                  leaves the others valid; <name> is bound to the last one.  Checks the model's ASSUMPTION of distinctness.
//	XF:<name>         restart; the first token lookup of the new process (an authenticate of <name>) meets an unavailable
//	                  tokens table; result "xf:<A|N>" (fail closed); later lookups work again (the vector)
//	XA:<value>        reconfiguration: restart on the same database with another admin token (percent-encoded); "adm" is the
//	                  new one from here on, "oadm" the previous one - which is nothing any more
//	AGE:<name>:<d>    the row of the token gets created_at = now - 2h | 25h | 400d, or now + f1h | f5m: age is no criterion
//	FRR<n>:<name>     n fresh tokens: each is created and then authenticated and revoked concurrently (no hold), after both
//	                  calls returned it must be refused - now (inside the op), in the vector entry raced* after every
//	                  later op, after restarts.  result "frr:ok"; <name> is bound to the last of them
//	RACE:<name>       (after a restart, so that nothing about the value is remembered in memory)
//	                  an authenticate (GET /api/v1/access) of the value is started in a goroutine and held right after
//	                  the token repository's lookup returned (decorated repository.Tokens); DELETE /api/v1/access/<value>
//	                  with the admin token runs to completion; the authenticate is released and its answer recorded.
//	                  Every later authenticate of the value (the vector that follows, later ops) must be refused.
//
// <name>/<cred>: "adm" is the configured admin token; any other name is the latest value bound to
// it by a successful C op, or (unbound) a fixed never-issued value derived from the name; "<name>^" and
// "<name>-" are near misses of the value of <name> (case of the first letter flipped / last character cut).
//
// obs   : per operation "<result>/<validity vector>" joined by ' ' where result is
//
//	c:ok | c:401 | c:fail | r:ok | r:401 | r:fail | h:A|U|N | w:ok|no | x | race:A|U|N
//	(c:fail / r:fail = any answer other than 200 / 401, i.e. the storage error was reported)
//
// and the vector lists, for every name mentioned anywhere in the case (sorted) and for adm, the role
// the current value of the name authenticates with on GET /api/v1/access: A(dmin) U(ser) N(one).
// Token distinctness (pairwise, and from the admin token) and shape (32 alphanumerics) are asserted on
// every create; a breach replaces the result by c:DUP / c:SHAPE.
type c10State struct {
	c     *Ctx
	fs    *FullStack
	bind  map[string]string
	names []string
	seen  map[string]bool // every token value ever returned in this process
	admin string
	real  bool

	failCommit int32 // != 0: every COMMIT on the hooked connections is refused
	hookMu     sync.Mutex
	inCommit   func()     // when set: run once from inside the next COMMIT (the write transaction is still open)
	slow       int        // operations / cases that ran into a deadline so far in this run
	pause      *tokPauser // scheduling point in the decorated token repository (c10_engine.go)
	adminCfg   string     // configured admin token of this case ("" = the default of the configuration)
	oldAdmin   string     // the admin token before the last XA
	hasFRR     bool
	raced      []string // FRR: every fresh token that was raced (authenticate vs revoke) in this case
	adminSrc   string   // how it is configured: "e" environment, "f" file, "d" directly
}

func c10Unknown(name string) string {
	v := "unknown" + name + "0000000000000000000000000000000000"
	return v[:32]
}

func (st *c10State) resolve(name string) string {
	// derived probe values: "<name>^" = the value of <name> with the case of its first letter flipped,
	// "<name>-" = the value of <name> without its last character (never issued, never the admin token)
	if len(name) > 1 && strings.HasSuffix(name, "^") {
		b := []byte(st.resolve(name[:len(name)-1]))
		for i, ch := range b {
			if ch >= 'a' && ch <= 'z' {
				b[i] = ch - 32
				return string(b)
			}
			if ch >= 'A' && ch <= 'Z' {
				b[i] = ch + 32
				return string(b)
			}
		}
		return string(b) + "x"
	}
	if len(name) > 1 && strings.HasSuffix(name, "-") {
		v := st.resolve(name[:len(name)-1])
		if len(v) <= 1 {
			return v + "x"
		}
		return v[:len(v)-1]
	}
	if name == "adm" {
		return st.admin
	}
	if name == "oadm" { // the admin token that was configured before the last XA (reconfiguration)
		if st.oldAdmin != "" {
			return st.oldAdmin
		}
		return c10Unknown("oadm")
	}
	if name == "emp" { // the empty bearer value: "Authorization: Bearer " / a websocket connect without token
		return ""
	}
	if name == "non" { // no Authorization header at all (HTTP); on the websocket the same as emp
		return c10NoHeader
	}
	if v, ok := st.bind[name]; ok {
		return v
	}
	return c10Unknown(name)
}

const c10NoHeader = "\x00no-authorization-header"

func c10WsToken(tok string) string {
	if tok == c10NoHeader {
		return ""
	}
	return tok
}

func (st *c10State) do(method, path, tok string) (code int, body string) {
	defer func() {
		if r := recover(); r != nil {
			code, body = -1, fmt.Sprintf("PANIC %v", r)
		}
	}()
	if tok == c10NoHeader {
		return st.fs.Do(method, path, "", nil)
	}
	return st.fs.Do(method, path, "", map[string]string{"Authorization": "Bearer " + tok})
}

// role the value authenticates with on GET /api/v1/access
func (st *c10State) role(tok string) string {
	code, body := st.do("GET", "/api/v1/access", tok)
	switch code {
	case 200:
		var t struct {
			Token   string `json:"token"`
			IsAdmin bool   `json:"isAdmin"`
		}
		if err := json.Unmarshal([]byte(body), &t); err != nil || t.Token != tok {
			return "BADBODY" // GET /access must echo the token the request was authenticated with
		}
		if t.IsAdmin {
			return "A"
		}
		return "U"
	case 401:
		return "N"
	case -1:
		return "PANIC"
	}
	return fmt.Sprintf("E%d", code)
}

func (st *c10State) vector() string {
	var sb strings.Builder
	for _, n := range st.names {
		sb.WriteString(n + "=" + st.role(st.resolve(n)) + ",")
	}
	if st.hasFRR {
		// every token whose revocation has been answered must be refused, however the race went
		stale := 0
		for _, t := range st.raced {
			if st.role(t) != "N" {
				stale++
			}
		}
		if stale == 0 {
			sb.WriteString("raced*=N,")
		} else {
			sb.WriteString(fmt.Sprintf("raced*=U%d,", stale))
		}
	}
	sb.WriteString("adm=" + st.role(st.admin))
	return sb.String()
}

func isAlnum32(s string) bool {
	if len(s) != 32 {
		return false
	}
	for _, ch := range s {
		if !(ch >= 'a' && ch <= 'z' || ch >= 'A' && ch <= 'Z' || ch >= '0' && ch <= '9') {
			return false
		}
	}
	return true
}

func (st *c10State) open(dir string) error {
	var mutate func(*config.AppConfig)
	if st.adminCfg != "" {
		eff, ok := effectiveAdminToken(st.c.Out, st.adminCfg, st.adminSrc)
		if !ok {
			return fmt.Errorf("CONFIG-LOAD-FAILED %s", eff)
		}
		mutate = func(cf *config.AppConfig) { cf.HTTP.AuthToken = eff }
	}
	s, err := NewStack(StackOpts{Dir: dir, UseAuth: true, Mutate: mutate})
	if err != nil {
		return err
	}
	if st.pause == nil {
		st.pause = &tokPauser{}
	}
	// scheduling point in the token repository; the token service (and below, the engine and the websocket
	// server that hold it) is rebuilt around the decorated repository exactly as service.NewServices builds it
	st.pause.install(s)
	if err := s.HookCommits(2, func() int {
		st.hookMu.Lock()
		f := st.inCommit
		st.inCommit = nil
		st.hookMu.Unlock()
		if f != nil {
			f()
		}
		return int(atomic.LoadInt32(&st.failCommit))
	}); err != nil {
		s.Close()
		return err
	}
	fs, err := NewFullStack(s, FullOpts{Websocket: true, Listen: st.real})
	if err != nil {
		s.Close()
		return err
	}
	st.fs = fs
	st.admin = s.Cfg.HTTP.AuthToken
	if st.adminCfg != "" {
		st.admin = st.adminCfg // what the operator configured is what is presented
	}
	return nil
}

func (st *c10State) op(o string, dir string) string {
	p := strings.Split(o, ":")
	switch {
	case (p[0] == "Cw" || p[0] == "Rw") && len(p) == 4:
		// authenticate <probe> from INSIDE the write transaction of the create / revoke (SQLite commit hook: the INSERT /
		// DELETE is done, the COMMIT not yet): a write in progress must not change what another token gets
		probe := st.resolve(p[3])
		done := make(chan string, 1)
		started := false
		if !(p[0] == "Rw" && probe == st.resolve(p[2])) { // the revoked token itself may be answered either way
			st.hookMu.Lock()
			st.inCommit = func() {
				started = true
				go func() {
					r := st.role(probe)
					w := "ok"
					if _, err := st.fs.Services.Tokens.GetToken(c10WsToken(probe)); err != nil {
						w = "no"
					}
					done <- r + "," + w
				}()
				// the write transaction stays open while the probe's lookup arrives (a reader that has to wait for
				// the writer waits - busy handler - and is answered once the COMMIT is through)
				time.Sleep(30 * time.Millisecond)
			}
			st.hookMu.Unlock()
		}
		r := st.op(string(p[0][0])+":"+p[1]+":"+p[2], dir)
		st.hookMu.Lock()
		st.inCommit = nil
		st.hookMu.Unlock()
		inner := "-"
		if started {
			select {
			case inner = <-done:
			case <-time.After(2 * waitDeadline):
				inner = "TIMEOUT"
			}
		}
		return r + "+" + inner
	case (p[0] == "C" || p[0] == "Cf" || p[0] == "Cl") && len(p) == 3:
		if p[0] == "Cf" {
			atomic.StoreInt32(&st.failCommit, 1)
		}
		unlock := func() {}
		if p[0] == "Cl" {
			var err error
			if unlock, err = holdWriteLock(st.fs.DBPath); err != nil {
				return "c:HARNESS-ERROR(lock)"
			}
		}
		code, body := st.do("POST", "/api/v1/access", st.resolve(p[1]))
		unlock()
		atomic.StoreInt32(&st.failCommit, 0)
		if code == 401 {
			return "c:401"
		}
		if code != 200 {
			if p[0] != "C" && code >= 400 && code < 600 {
				return "c:fail"
			}
			return fmt.Sprintf("c:E%d", code)
		}
		var t struct {
			Token   string `json:"token"`
			IsAdmin bool   `json:"isAdmin"`
		}
		if err := json.Unmarshal([]byte(body), &t); err != nil {
			return "c:BADBODY"
		}
		if !isAlnum32(t.Token) || t.IsAdmin {
			return "c:SHAPE"
		}
		if st.seen[t.Token] || t.Token == st.admin || strings.HasPrefix(t.Token, "unknown") {
			return "c:DUP"
		}
		st.seen[t.Token] = true
		st.bind[p[2]] = t.Token
		return "c:ok"
	case (p[0] == "R" || p[0] == "Rf" || p[0] == "Rl") && len(p) == 3:
		if p[0] == "Rf" {
			atomic.StoreInt32(&st.failCommit, 1)
		}
		unlock := func() {}
		if p[0] == "Rl" {
			var err error
			if unlock, err = holdWriteLock(st.fs.DBPath); err != nil {
				return "r:HARNESS-ERROR(lock)"
			}
		}
		code, _ := st.do("DELETE", "/api/v1/access/"+url.PathEscape(st.resolve(p[2])), st.resolve(p[1]))
		unlock()
		atomic.StoreInt32(&st.failCommit, 0)
		switch {
		case code == 200:
			return "r:ok"
		case code == 401:
			return "r:401"
		case p[0] != "R" && code >= 400 && code < 600:
			return "r:fail"
		}
		return fmt.Sprintf("r:E%d", code)
	case p[0] == "RACE" && len(p) == 2:
		tok := st.resolve(p[1])
		// cold start: the services are rebuilt first (a restart, identity on the table), so that the in-flight
		// authenticate really performs its lookup (nothing the process may have remembered about the value
		// - the validity vector authenticates every value after every op - can answer instead)
		st.fs.Shutdown()
		if err := st.open(dir); err != nil {
			return "x:ERR " + strings.ReplaceAll(err.Error(), "\t", " ")
		}
		reached, release := st.pause.arm(tok)
		done := make(chan string, 1)
		go func() { done <- st.role(tok) }()
		inflight := ""
		select {
		case <-reached: // held after its lookup returned
		case inflight = <-done: // answered without a lookup (admin token) - nothing to hold
			st.pause.disarm()
		case <-time.After(waitDeadline):
			inflight = "TIMEOUT"
		}
		code, _ := st.do("DELETE", "/api/v1/access/"+url.PathEscape(tok), st.admin)
		st.pause.disarm()
		close(release)
		if inflight == "" {
			select {
			case inflight = <-done:
			case <-time.After(waitDeadline):
				inflight = "TIMEOUT"
			}
		}
		if code != 200 {
			return fmt.Sprintf("race:%s+r%d", inflight, code)
		}
		return "race:" + inflight
	case p[0] == "H" && len(p) == 2:
		tok := st.resolve(p[1])
		r := st.role(tok)
		code, _ := st.do("GET", "/api/v1/chain/tip/longest", tok)
		want := 200
		if r == "N" {
			want = 401
		}
		if code != want {
			return fmt.Sprintf("h:INCONSISTENT(access=%s,tip=%d)", r, code)
		}
		return "h:" + r
	case (p[0] == "W" || p[0] == "Wr") && len(p) == 2:
		tok := st.resolve(p[1])
		// the check the connect handler performs (websocket_server.go setupNode/OnConnecting)
		direct := "ok"
		func() {
			defer func() {
				if r := recover(); r != nil {
					direct = "PANIC"
				}
			}()
			if _, err := st.fs.Services.Tokens.GetToken(c10WsToken(tok)); err != nil {
				direct = "no"
			}
		}()
		if !st.real {
			return "w:" + direct
		}
		r := st.fs.WsConnect(c10WsToken(tok))
		if r == "no:3500" {
			r = "no"
		}
		if r != direct {
			return fmt.Sprintf("w:INCONSISTENT(client=%s,check=%s)", r, direct)
		}
		return "w:" + r
	case p[0] == "SLW" && len(p) == 3:
		// overlap BELOW the repository: every SQL statement waits (the connection pool is held) while <first> and,
		// once that one waits, <second> (ordinary route, admin route, websocket check, each in its own goroutine)
		// are authenticated; then the pool is released and the answers are collected
		first, second := st.resolve(p[1]), st.resolve(p[2])
		release, waiters, err := holdPool(st.fs.Stack, 2)
		if err != nil {
			return "slw:HARNESS-ERROR"
		}
		expect := int64(0)
		if first != st.admin {
			expect++
		}
		fdone := make(chan string, 1)
		go func() { fdone <- st.role(first) }()
		if first != st.admin {
			waitFor(waitDeadline, func() bool { return waiters() >= 1 })
		} else {
			time.Sleep(2 * time.Millisecond)
		}
		r1, r2, r3, r4 := make(chan string, 1), make(chan string, 1), make(chan string, 1), make(chan string, 1)
		go func() { r1 <- st.role(second) }()
		go func() {
			code, _ := st.do("DELETE", "/api/v1/access/"+c10Unknown("ovl"), second)
			switch code {
			case 200:
				r2 <- "ok"
			case 401:
				r2 <- "401"
			default:
				r2 <- fmt.Sprintf("E%d", code)
			}
		}()
		go func() {
			defer func() {
				if r := recover(); r != nil {
					r3 <- "PANIC"
				}
			}()
			if _, err := st.fs.Services.Tokens.GetToken(c10WsToken(second)); err != nil {
				r3 <- "no"
			} else {
				r3 <- "ok"
			}
		}()
		go func() {
			if !st.real {
				r4 <- ""
				return
			}
			rc := st.fs.WsConnect(c10WsToken(second))
			if rc == "no:3500" {
				rc = "no"
			}
			r4 <- rc
		}()
		if second != st.admin {
			expect += 3
			if st.real {
				expect++
			}
		}
		// all of them are waiting for the database now (under a fault that merges lookups fewer statements wait:
		// give up after 80 ms)
		waitFor(80*time.Millisecond, func() bool { return waiters() >= expect })
		release()
		get := func(ch chan string) string {
			select {
			case r := <-ch:
				return r
			case <-time.After(waitDeadline):
				return "TIMEOUT"
			}
		}
		a, b, c2, d, e := get(fdone), get(r1), get(r2), get(r3), get(r4)
		if e != "" && e != d {
			d = "INCONSISTENT(client=" + e + ",check=" + d + ")"
		}
		return "slw:" + a + ":" + b + "," + c2 + "," + d
	case p[0] == "OVL" && len(p) == 3:
		held, probe := st.resolve(p[1]), st.resolve(p[2])
		reached, release := st.pause.arm(held)
		hdone := make(chan string, 1)
		go func() { hdone <- st.role(held) }()
		heldRes := ""
		select {
		case <-reached: // the authenticate of <held> is now inside the repository, its lookup has returned
		case heldRes = <-hdone: // answered without a lookup (admin token)
			st.pause.disarm()
		case <-time.After(waitDeadline):
			heldRes = "TIMEOUT"
		}
		// meanwhile authenticate <probe>: ordinary route, an admin route (DELETE of a never issued value: no
		// effect on the table even when admitted), the websocket connect check
		pdone := make(chan string, 1)
		go func() {
			r1 := st.role(probe)
			code, _ := st.do("DELETE", "/api/v1/access/"+c10Unknown("ovl"), probe)
			r2 := fmt.Sprintf("E%d", code)
			if code == 200 {
				r2 = "ok"
			} else if code == 401 {
				r2 = "401"
			}
			r3 := "ok"
			func() {
				defer func() {
					if r := recover(); r != nil {
						r3 = "PANIC"
					}
				}()
				if _, err := st.fs.Services.Tokens.GetToken(c10WsToken(probe)); err != nil {
					r3 = "no"
				}
			}()
			if st.real {
				if rc := st.fs.WsConnect(c10WsToken(probe)); rc == "no:3500" {
					if r3 != "no" {
						r3 = "INCONSISTENT(client=no,check=" + r3 + ")"
					}
				} else if rc != r3 {
					r3 = "INCONSISTENT(client=" + rc + ",check=" + r3 + ")"
				}
			}
			pdone <- r1 + "," + r2 + "," + r3
		}()
		probeRes := ""
		select {
		case probeRes = <-pdone:
		case <-time.After(300 * time.Millisecond): // the probe waits for the held lookup: let that one finish
		}
		st.pause.disarm()
		close(release)
		if probeRes == "" {
			select {
			case probeRes = <-pdone:
			case <-time.After(waitDeadline):
				probeRes = "TIMEOUT"
			}
		}
		if heldRes == "" {
			select {
			case heldRes = <-hdone:
			case <-time.After(waitDeadline):
				heldRes = "TIMEOUT"
			}
		}
		return "ovl:" + heldRes + ":" + probeRes
	case (strings.HasPrefix(p[0], "CC") || strings.HasPrefix(p[0], "CS")) && len(p) == 2:
		// CS<k>: the same through TokenService.GenerateToken, the call the endpoint makes (tighter overlap)
		direct := strings.HasPrefix(p[0], "CS")
		// k creates issued CONCURRENTLY (spin-gated): the model ASSUMES that issued tokens are pairwise distinct - this op
		// checks the assumption on the implementation: all k values distinct (and new), each authenticates, revoking
		// one leaves the others valid.  The last value is bound to <name>.
		k := 0
		fmt.Sscanf(p[0][2:], "%d", &k)
		if k < 2 || k > 64 {
			return "BAD-OP"
		}
		gate := make(chan struct{})
		type cr struct {
			code int
			tok  string
		}
		out := make(chan cr, k)
		for i := 0; i < k; i++ {
			go func() {
				<-gate
				if direct {
					defer func() {
						if r := recover(); r != nil {
							out <- cr{-1, ""}
						}
					}()
					t, err := st.fs.Services.Tokens.GenerateToken()
					if err != nil || t == nil {
						out <- cr{500, ""}
						return
					}
					out <- cr{200, t.Token}
					return
				}
				code, body := st.do("POST", "/api/v1/access", st.admin)
				var t struct {
					Token string `json:"token"`
				}
				_ = json.Unmarshal([]byte(body), &t)
				out <- cr{code, t.Token}
			}()
		}
		time.Sleep(time.Millisecond)
		close(gate)
		var toks []string
		dup := 0
		for i := 0; i < k; i++ {
			select {
			case r := <-out:
				if r.code != 200 || !isAlnum32(r.tok) {
					return fmt.Sprintf("cc:CREATE-E%d", r.code)
				}
				if st.seen[r.tok] || r.tok == st.admin {
					dup++
				}
				st.seen[r.tok] = true
				toks = append(toks, r.tok)
			case <-time.After(2 * waitDeadline):
				return "cc:TIMEOUT"
			}
		}
		if dup > 0 {
			return fmt.Sprintf("cc:DUP(%d-of-%d)", dup, k)
		}
		for _, t := range toks {
			if st.role(t) != "U" {
				return "cc:ISSUED-TOKEN-REFUSED"
			}
		}
		if code, _ := st.do("DELETE", "/api/v1/access/"+toks[0], st.admin); code != 200 {
			return fmt.Sprintf("cc:REVOKE-E%d", code)
		}
		if st.role(toks[0]) != "N" {
			return "cc:REVOKED-TOKEN-ACCEPTED"
		}
		for _, t := range toks[1:] {
			if st.role(t) != "U" {
				return "cc:OTHERS-AFFECTED"
			}
		}
		st.bind[p[1]] = toks[k-1]
		return "cc:ok"
	case p[0] == "XF" && len(p) == 2:
		// restart, and the FIRST token lookup of the new process meets a failing store (the tokens table is unavailable
		// for that one request); afterwards the store works again: the first lookup fails closed (only the admin token
		// gets through) and everything later is answered from the table as usual
		st.fs.Shutdown()
		if err := st.open(dir); err != nil {
			return "x:ERR " + strings.ReplaceAll(err.Error(), "\t", " ")
		}
		if _, err := st.fs.DB.Exec(`ALTER TABLE tokens RENAME TO tokens_unavailable`); err != nil {
			return "xf:HARNESS-ERROR"
		}
		r := st.role(st.resolve(p[1]))
		if _, err := st.fs.DB.Exec(`ALTER TABLE tokens_unavailable RENAME TO tokens`); err != nil {
			return "xf:HARNESS-ERROR"
		}
		return "xf:" + r
	case p[0] == "XA" && len(p) == 2:
		// the operator changes http.auth_token and restarts the service on the same database
		old := st.admin
		st.adminCfg, st.adminSrc = pctDecode(p[1]), "d"
		st.fs.Shutdown()
		if err := st.open(dir); err != nil {
			return "x:ERR " + strings.ReplaceAll(err.Error(), "\t", " ")
		}
		st.oldAdmin = old
		return "xa"
	case p[0] == "AGE" && len(p) == 3:
		// the token grows old (or its clock was ahead): created_at is moved; validity does not depend on age
		var d time.Duration
		switch p[2] {
		case "2h":
			d = -2 * time.Hour
		case "25h":
			d = -25 * time.Hour
		case "400d":
			d = -400 * 24 * time.Hour
		case "f1h":
			d = time.Hour
		case "f5m":
			d = 5 * time.Minute
		default:
			return "BAD-OP"
		}
		if _, err := st.fs.DB.Exec(`UPDATE tokens SET created_at = ? WHERE token = ?`, time.Now().Add(d), st.resolve(p[1])); err != nil {
			return "age:HARNESS-ERROR"
		}
		return "age"
	case strings.HasPrefix(p[0], "FRR") && len(p) == 2:
		// n FRESH tokens (never used to authenticate): each is created, then authenticated and revoked CONCURRENTLY
		// (no hold: whatever interleaving of the storage calls occurs); once both calls have returned the token
		// must be refused.  The last one is bound to <name>.
		n := 0
		fmt.Sscanf(p[0][3:], "%d", &n)
		if n < 1 || n > 200 {
			return "BAD-OP"
		}
		stale := 0
		for i := 0; i < n; i++ {
			code, body := st.do("POST", "/api/v1/access", st.admin)
			var t struct {
				Token string `json:"token"`
			}
			if code != 200 || json.Unmarshal([]byte(body), &t) != nil || !isAlnum32(t.Token) || st.seen[t.Token] {
				return fmt.Sprintf("frr:CREATE-E%d", code)
			}
			st.seen[t.Token] = true
			auth, rev := make(chan string, 1), make(chan int, 1)
			go func() { auth <- st.role(t.Token) }()
			go func() {
				if i%3 == 1 {
					time.Sleep(time.Duration(50+i*7%400) * time.Microsecond)
				}
				c, _ := st.do("DELETE", "/api/v1/access/"+t.Token, st.admin)
				rev <- c
			}()
			a, rc := "", 0
			for k := 0; k < 2; k++ {
				select {
				case a = <-auth:
				case rc = <-rev:
				case <-time.After(2 * waitDeadline):
					return "frr:TIMEOUT"
				}
			}
			if rc != 200 {
				return fmt.Sprintf("frr:REVOKE-E%d", rc)
			}
			if a != "U" && a != "N" {
				return "frr:INFLIGHT-" + a
			}
			st.raced = append(st.raced, t.Token)
			st.bind[p[1]] = t.Token
			if st.role(t.Token) != "N" {
				stale++
			}
		}
		if stale > 0 {
			return fmt.Sprintf("frr:STALE(%d-of-%d)", stale, n)
		}
		return "frr:ok"
	case o == "X":
		st.fs.Shutdown()
		if err := st.open(dir); err != nil {
			return "x:ERR " + strings.ReplaceAll(err.Error(), "\t", " ")
		}
		return "x"
	}
	return "BAD-OP"
}

// "A=", "Ae=", "Af=", "Ad=": the configuration head of a case
func c10IsHead(o string) bool {
	return strings.HasPrefix(o, "A=") || (len(o) >= 3 && o[0] == 'A' && o[2] == '=' && strings.ContainsRune("efd", rune(o[1])))
}

func c10Names(ops []string) []string {
	set := map[string]bool{}
	for _, o := range ops {
		p := strings.Split(o, ":")
		if p[0] == "XA" {
			continue
		}
		if p[0] == "AGE" && len(p) == 3 {
			p = p[:2]
		}
		for _, n := range p[1:] {
			if n != "adm" && n != "" {
				set[n] = true
			}
		}
	}
	var out []string
	for n := range set {
		out = append(out, n)
	}
	sort.Strings(out)
	return out
}

func (st *c10State) runCase(input string, idx int) (string, error) {
	ops := strings.Split(input, ";")
	// optional head "A=<value>": the admin token this case is configured with (no space, ';' or ':')
	st.adminCfg, st.adminSrc = "", ""
	if len(ops) > 0 && c10IsHead(ops[0]) {
		i := strings.Index(ops[0], "=")
		st.adminSrc, st.adminCfg = ops[0][1:i], pctDecode(ops[0][i+1:])
		ops = ops[1:]
	}
	st.bind = map[string]string{}
	st.oldAdmin, st.raced, st.hasFRR = "", nil, strings.Contains(input, "FRR")
	st.names = c10Names(ops)
	st.real = st.c.Thorough() || st.c.Only != "" || idx%8 == 0 || strings.Contains(input, "Wr:")
	dir := st.c.TmpDir(fmt.Sprintf("c10-%d", idx))
	if err := st.open(dir); err != nil {
		if strings.HasPrefix(err.Error(), "CONFIG-LOAD-FAILED") {
			// the service's own configuration loading refused / mangled the configured value: an observable
			return strings.ReplaceAll(err.Error(), " ", "_"), nil
		}
		return "", err
	}
	defer func() {
		if st.fs != nil {
			st.fs.Shutdown()
		}
		_ = os.RemoveAll(dir)
	}()
	var res []string
	started := time.Now()
	for _, o := range ops {
		if o == "" {
			continue
		}
		// every operation runs under a deadline: an implementation that makes the harness wait shows up as an
		// observable (OP-TIMEOUT / +HOLD-TIMEOUT / CASE-TIMEOUT), never as a hang
		if time.Since(started) > 25*time.Second {
			res = append(res, "CASE-TIMEOUT")
			st.slow++
			break
		}
		opdone := make(chan string, 1)
		go func(o string) {
			defer func() {
				if r := recover(); r != nil {
					opdone <- fmt.Sprintf("PANIC(%v)", r)
				}
			}()
			r := st.op(o, dir)
			if !strings.HasPrefix(r, "x:ERR") {
				r += "/" + st.vector()
			}
			opdone <- r
		}(o)
		var r string
		select {
		case r = <-opdone:
		case <-time.After(20 * time.Second):
			r = "OP-TIMEOUT"
		}
		if n := st.pause.takeTimeouts(); n > 0 {
			r = strings.Replace(r, "/", "+HOLD-TIMEOUT/", 1)
			st.slow++
		}
		res = append(res, strings.ReplaceAll(r, " ", "_"))
		if r == "OP-TIMEOUT" || strings.HasPrefix(r, "x:ERR") {
			st.slow++
			st.fs = nil // the stack may still be in use by the abandoned operation: leave it behind
			break
		}
	}
	return strings.Join(res, " "), nil
}

// ---- generator ----

func c10Gen(c *Ctx, maxLen int) string {
	pool := []string{"a", "b", "c", "d", "e", "f"}
	n := 1 + c.Rng.Intn(maxLen)
	var created, revoked []string
	unbound := append([]string{}, pool...)
	pick := func(l []string) string { return l[c.Rng.Intn(len(l))] }
	anyName := func() string {
		// existing / revoked / unknown / admin
		r := c.Rng.Intn(100)
		switch {
		case r < 50 && len(created) > 0:
			return pick(created)
		case r < 70 && len(revoked) > 0:
			return pick(revoked)
		case r < 80:
			return "adm"
		case r < 84:
			return pick([]string{"u1", "u2"})
		case r < 86:
			return pick([]string{"emp", "non"})
		case r < 90:
			base := "adm"
			if len(created) > 0 && c.Rng.Intn(3) > 0 {
				base = pick(created)
			}
			return base + pick([]string{"^", "-"})
		case len(unbound) > 0:
			return pick(unbound) // a name that is created later (or never)
		}
		return "u1"
	}
	// a value that can be named in DELETE /access/<value> (the empty value and "no header" cannot)
	target := func() string {
		for {
			if n := anyName(); n != "emp" && n != "non" {
				return n
			}
		}
	}
	cred := func() string {
		if c.Rng.Intn(100) < 80 {
			return "adm"
		}
		return anyName()
	}
	var ops []string
	for i := 0; i < n; i++ {
		r := c.Rng.Intn(100)
		switch {
		case r < 18 && len(unbound) > 0:
			k := c.Rng.Intn(len(unbound))
			nm := unbound[k]
			cr := cred()
			ops = append(ops, "C:"+cr+":"+nm)
			if cr == "adm" {
				unbound = append(unbound[:k], unbound[k+1:]...)
				created = append(created, nm)
			}
		case r < 22 && c.Rng.Intn(6) == 0 && len(created) > 0:
			ops = append(ops, "AGE:"+pick(created)+":"+pick([]string{"2h", "25h", "400d", "f1h", "f5m"}))
		case r < 22 && c.Rng.Intn(4) == 0 && len(created) > 0:
			if c.Rng.Intn(2) == 0 {
				ops = append(ops, "Rw:adm:"+target()+":"+anyName())
			} else {
				ops = append(ops, "Cw:adm:g:"+anyName())
			}
		case r < 22 && c.Rng.Intn(2) == 0:
			ops = append(ops, pick([]string{"OVL:", "SLW:", "SLW:"})+anyName()+":"+anyName())
		case r < 22:
			nm := "g"
			if len(unbound) > 0 {
				nm = pick(unbound)
			}
			ops = append(ops, "Cf:"+cred()+":"+nm)
		case r < 27:
			ops = append(ops, "Rf:"+cred()+":"+target())
		case r < 33:
			nm := target()
			ops = append(ops, "RACE:"+nm)
			for k, x := range created {
				if x == nm {
					created = append(created[:k], created[k+1:]...)
					revoked = append(revoked, nm)
					break
				}
			}
		case r < 50:
			nm := target()
			cr := cred()
			ops = append(ops, "R:"+cr+":"+nm)
			if cr == "adm" {
				for k, x := range created {
					if x == nm {
						created = append(created[:k], created[k+1:]...)
						revoked = append(revoked, nm)
						break
					}
				}
			}
		case r < 72:
			ops = append(ops, "H:"+anyName())
		case r < 89:
			ops = append(ops, "W:"+anyName())
		default:
			ops = append(ops, "X")
		}
	}
	return strings.Join(ops, ";")
}

func runC10(c *Ctx) error {
	st := &c10State{c: c, seen: map[string]bool{}, admin: config.DefaultAppToken}
	idx := 0
	var emit func(input, class, obs string, real bool)
	one := func(input, class string) error {
		idx++
		if st.slow >= 3 && c.Only == "" {
			// the implementation keeps running into the harness's deadlines: the failing inputs are on file,
			// more of them would only take time
			c.Count("case:skipped-after-repeated-timeouts")
			return nil
		}
		fmt.Fprintf(os.Stderr, "c10: case %d in flight: %s\n", idx, input)
		obs, err := st.runCase(input, idx)
		if err != nil {
			return err
		}
		emit(input, class, obs, st.real)
		return nil
	}
	emit = func(input, class, obs string, real bool) {
		c.Case(input, obs)
		flushCases(c)
		c.Count("case:" + class)
		if real {
			c.Count("ws:real-client")
		} else {
			c.Count("ws:token-check-only")
		}
		for _, o := range strings.Split(input, ";") {
			if c10IsHead(o) {
				v := pctDecode(o[strings.Index(o, "=")+1:])
				c.Count(fmt.Sprintf("admin-token:len%03d", len(v)))
				if strings.Contains(v, "$") {
					c.Count("admin-token:with-dollar")
				}
				c.Count("admin-token:source-" + o[1:strings.Index(o, "=")])
				continue
			}
			k := strings.SplitN(o, ":", 2)[0]
			c.Count("op:" + k)
		}
		if !c10IsHead(strings.SplitN(input, ";", 2)[0]) {
			c.Count("admin-token:default")
		}
		c.Count(fmt.Sprintf("len:%02d-%02d", (len(strings.Split(input, ";"))-1)/10*10+1, (len(strings.Split(input, ";"))-1)/10*10+10))
	}
	if c.Only != "" {
		if err := one(c.Only, "only"); err != nil {
			return err
		}
		c.Meta("tokens_generated", fmt.Sprint(len(st.seen)))
		return nil
	}
	// "another writer holds the write lock" costs the service's busy timeout (about 5 s) per operation: these cases
	// run concurrently with everything else, each on a stack (and harness state) of its own
	lockCases := []string{
		"C:adm:a;H:a;Rl:adm:a;H:a;W:a;X;H:a;R:adm:a;H:a",
		"Cl:adm:a;H:a;X;H:a;C:adm:b;H:b;W:b",
		"C:adm:a;Cl:a:b;Rl:a:a;Rl:non:a;Rl:adm:u1;H:a;H:b",
	}
	if c.Thorough() {
		lockCases = append(lockCases,
			"C:adm:a;C:adm:b;Rl:adm:a;Rl:adm:b;H:a;H:b;X;H:a;H:b",
			"Cl:adm:a;Cl:adm:b;H:a;H:b;C:adm:a;H:a",
			"Ad=Z;C:adm:a;Rl:adm:a;H:a",
			"Ae="+pctEncode("tok$1")+";C:adm:a;Rl:adm:a;Cl:adm:b;H:a;H:b;X;H:a",
			"C:adm:a;RACE:a;Cl:adm:a;H:a;Rl:adm:adm;H:adm",
			"C:adm:a;Rl:adm:a;R:adm:a;H:a;Cl:adm:a;C:adm:a;H:a",
			"C:adm:a;OVL:a:u1;Rl:adm:a;SLW:a:u1;H:a",
			"C:adm:a;Rf:adm:a;Rl:adm:a;H:a;X;H:a")
	}
	type lockRes struct {
		input, obs string
		real       bool
		err        error
	}
	lockOut := make([]lockRes, len(lockCases))
	var lockWG sync.WaitGroup
	lockSem := make(chan struct{}, 4)
	for i, in := range lockCases {
		lockWG.Add(1)
		go func(i int, in string) {
			defer lockWG.Done()
			lockSem <- struct{}{}
			defer func() { <-lockSem }()
			ls := &c10State{c: c, seen: map[string]bool{}, admin: config.DefaultAppToken}
			obs, err := ls.runCase(in, 900000+i)
			lockOut[i] = lockRes{in, obs, ls.real, err}
		}(i, in)
	}
	joinLock := func() error {
		lockWG.Wait()
		for _, r := range lockOut {
			if r.err != nil {
				return r.err
			}
			emit(r.input, "write-lock-held", r.obs, r.real)
		}
		return nil
	}
	files, _ := filepath.Glob(filepath.Join(c10VerifDir(), "corpus", "C10", "*.txt"))
	sort.Strings(files)
	for _, f := range files {
		b, err := os.ReadFile(f)
		if err != nil {
			return err
		}
		for _, l := range strings.Split(string(b), "\n") {
			l = strings.TrimSpace(l)
			if l == "" || strings.HasPrefix(l, "#") {
				continue
			}
			if err := one(l, "corpus"); err != nil {
				return err
			}
		}
	}
	for i, n := 0, c.Pick(150, 2500); i < n; i++ {
		if err := one(c10Gen(c, 40), "random"); err != nil {
			return err
		}
	}
	// the admin token is configuration: the same histories with admin tokens shorter / as long as / longer than
	// the issued tokens and with non-alphanumeric characters (the model is parametric in the admin token)
	prewarmAdminTokens(c.Out)
	for _, adm := range adminTokenVariants() {
		for hi, h := range []string{
			"H:adm;W:adm;C:adm:a;H:a;W:a;X;H:adm;H:a;R:adm:a;H:a;R:adm:adm;H:adm;W:adm;H:adm^;H:adm-;W:adm^",
			"C:adm:a;OVL:a:adm;OVL:adm:a;OVL:u1:adm;SLW:a:adm;SLW:adm:a;SLW:u1:a;RACE:a;H:adm;Cf:adm:b;Rf:adm:a;Wr:adm;Wr:adm-",
		} {
			src := []string{"e", "f"}[hi%2]
			if err := one("A"+src+"="+pctEncode(adm)+";"+h, "admin-variant-fixed"); err != nil {
				return err
			}
		}
		for i, n := 0, c.Pick(3, 40); i < n; i++ {
			src := []string{"f", "e", "d"}[i%3]
			if err := one("A"+src+"="+pctEncode(adm)+";"+c10Gen(c, 25), "admin-variant-random"); err != nil {
				return err
			}
		}
	}
	if err := joinLock(); err != nil {
		return err
	}
	c.Meta("tokens_generated", fmt.Sprint(len(st.seen)))
	c.Meta("tokens_pairwise_distinct", "asserted on every create (c:DUP otherwise)")
	return nil
}
