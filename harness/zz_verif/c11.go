//go:build verif

package main

// C11: exactly one ADD event per stored header on every notification channel.
//
// case input (one line):
//
//	c=<kind>:<beh>,<kind>:<beh>,.../n=<schedule seed>|<C01 history line with optional 8th sub field>
//
// kinds: R = recording notification.Channel, W = production wsChan (notification.NewWebsocketChannel) over a
// recording WebsocketPublisher, H = production WebhooksService + production HTTP client against an httptest
// server (thorough), C = production wsChan over a real centrifuge node with a real centrifuge-go client
// subscribed to "headers" (thorough).  beh: ok | err | slow (blocks on a gate that the harness opens only
// after the whole history has been ingested).
// c<k>: the COMMIT of the k-th write call fails (SQLite commit hook below the SQL layer: the statement ran, the
// transaction is rolled back, the process goes on).
// 8th field of a submission = injected store failure for that Add: b<k> the k-th write call (UpdateState /
// AddHeaderToDatabase, 0-based) fails without happening, a<k> it happens and then reports an error.
// A token L<first id>,<prev>,<count>,<bits> stands for a run of <count> headers ingested back to back: ids
// first..first+count-1, each on top of the previous one (the first on <prev>), version 1, merkle id+100000,
// timestamp 1600000000+i, nonce i  (long runs: a hanging / held channel must not stop ingestion at any queue size).
// A token X is a RESTART of the process on the same database file (Stack.Reopen: new services, new Notifier, the
// channels registered again as cmd/main.go does; webhooks are NOT registered again - they are rows of the database).
// beh additionally: hang (held on a gate that is NEVER opened before the final snapshot), late (webhook target
// flushes its 200 status first and writes the body later; the harness paces ingestion by the deliveries).
// n only steers the schedule the MODEL is run with (the implementation's schedule is the Go runtime's).
//
// observable:
//
//	<step>;<step>...|<final rows>|pre=<ch0 events>/<ch1 events>...|fin=<...>|ing=<ok|ADD-BLOCKED@i>
//
// step = outcome, for a stored header followed by "=<row as read back from the table right after Add>";
// events of one channel: sorted canonical strings joined by ','.
// row / event syntax: id:prev:height:cumhex:state:version:merkle:nonce:ts   (events prefixed by the operation)

import (
	"encoding/json"
	"errors"
	"fmt"
	"math/big"
	"math/rand"
	"runtime"
	"sort"
	"strconv"
	"strings"
	"sync"
	"sync/atomic"
	"time"

	"github.com/bitcoin-sv/block-headers-service/domains"
	"github.com/bitcoin-sv/block-headers-service/internal/chaincfg/chainhash"
	"github.com/bitcoin-sv/block-headers-service/notification"
	"github.com/bitcoin-sv/block-headers-service/repository"
	"github.com/centrifugal/centrifuge"
)

func init() { register("C11", runC11) }

// ---------------------------------------------------------------------------------------------
// fault-injecting decorator around repository.Headers
// ---------------------------------------------------------------------------------------------

var errC11Injected = errors.New("injected storage fault")

type c11Faulty struct {
	repository.Headers
	mode       byte  // 0 = none, 'b' = fail before, 'a' = fail after, 'c' = the COMMIT of that write fails (SQLite commit hook)
	failCommit int32 // 1 while the next COMMIT on a hooked connection has to fail
	commitHits int
	k          int
	n          int // write calls seen in the current Add
	hits       int
}

func (f *c11Faulty) arm(mode byte, k int) { f.mode, f.k, f.n = mode, k, 0 }

func (f *c11Faulty) write(do func() error) error {
	i := f.n
	f.n++
	if f.mode == 'b' && i == f.k {
		f.hits++
		return errC11Injected
	}
	if f.mode == 'c' && i == f.k {
		// below the repository: the statement runs, its COMMIT is turned into a ROLLBACK once (an UpdateState of
		// no hashes opens no transaction: nothing fails then)
		atomic.StoreInt32(&f.failCommit, 1)
		err := do()
		atomic.StoreInt32(&f.failCommit, 0)
		return err
	}
	err := do()
	if f.mode == 'a' && i == f.k && err == nil {
		f.hits++
		return errC11Injected
	}
	return err
}

// commitHook is registered on every pooled SQLite connection.
func (f *c11Faulty) commitHook() int {
	if atomic.CompareAndSwapInt32(&f.failCommit, 1, 0) {
		f.commitHits++
		return 1
	}
	return 0
}

func (f *c11Faulty) AddHeaderToDatabase(h domains.BlockHeader) error {
	return f.write(func() error { return f.Headers.AddHeaderToDatabase(h) })
}

func (f *c11Faulty) UpdateState(hs []chainhash.Hash, st domains.HeaderState) error {
	return f.write(func() error { return f.Headers.UpdateState(hs, st) })
}

// ---------------------------------------------------------------------------------------------
// recording channels
// ---------------------------------------------------------------------------------------------

type c11Spec struct {
	Kind string // R | W | H | C
	Beh  string // ok | err | slow | hang | late
}

type c11Rec struct {
	spec      c11Spec
	mat       *Mat
	gate      chan struct{}
	hang      chan struct{} // opened only when the case is over (cleanup); what arrives then is discarded
	parked    *int32
	mu        sync.Mutex
	got       []string
	dead      bool
	firstHook bool // the first webhook of the case: registers the webhooks service on the Notifier
	closer    func()
}

func (r *c11Rec) hold() {
	switch r.spec.Beh {
	case "slow":
		atomic.AddInt32(r.parked, 1)
		<-r.gate
		atomic.AddInt32(r.parked, -1)
	case "hang":
		atomic.AddInt32(r.parked, 1)
		<-r.hang
		atomic.AddInt32(r.parked, -1)
	}
}

func (r *c11Rec) record(s string) {
	r.mu.Lock()
	if !r.dead {
		r.got = append(r.got, s)
	}
	r.mu.Unlock()
}

func (r *c11Rec) kill() {
	r.mu.Lock()
	r.dead = true
	r.mu.Unlock()
}

func (r *c11Rec) snapshot() string {
	r.mu.Lock()
	cp := append([]string(nil), r.got...)
	r.mu.Unlock()
	sort.Strings(cp)
	return strings.Join(cp, ",")
}

func (r *c11Rec) count() int {
	r.mu.Lock()
	defer r.mu.Unlock()
	return len(r.got)
}

func c11Canon(m *Mat, op, hash, prev string, height int32, cum *big.Int, state string, ver int32, merkle string, nonce uint32, ts time.Time) string {
	mid := -1
	if mh, err := chainhash.NewHashFromStr(merkle); err == nil {
		if v, ok := m.MerkID[*mh]; ok {
			mid = v
		}
	}
	cs := "nil"
	if cum != nil {
		cs = cum.Text(16)
	}
	return fmt.Sprintf("%s:%d:%d:%d:%s:%s:%d:%d:%d:%d", op, m.ID(hash), m.ID(prev), height, cs, stLetter(state), ver, mid, nonce, ts.Unix())
}

func c11CanonStruct(m *Mat, ev notification.Event) string {
	he, ok := ev.(*domains.HeaderEvent)
	if !ok || he == nil || he.Header == nil {
		return fmt.Sprintf("BAD-EVENT-%T", ev)
	}
	d := he.Header
	return c11Canon(m, string(he.Operation), d.Hash, d.PreviousBlock, d.Height, d.CumulatedWork, string(d.State), d.Version, d.MerkleRoot, d.Nonce, d.Timestamp)
}

type c11JSONEvent struct {
	Operation string `json:"operation"`
	Header    *struct {
		Height        int32     `json:"height"`
		Hash          string    `json:"hash"`
		Version       int32     `json:"version"`
		MerkleRoot    string    `json:"merkleRoot"`
		Timestamp     time.Time `json:"creationTimestamp"`
		Nonce         uint32    `json:"nonce"`
		State         string    `json:"state"`
		CumulatedWork *big.Int  `json:"work"`
		PreviousBlock string    `json:"prevBlockHash"`
	} `json:"header"`
}

func c11CanonJSON(m *Mat, data []byte) string {
	var e c11JSONEvent
	dec := json.NewDecoder(strings.NewReader(string(data)))
	dec.DisallowUnknownFields()
	if err := dec.Decode(&e); err != nil || e.Header == nil {
		return "BAD-JSON"
	}
	d := e.Header
	return c11Canon(m, e.Operation, d.Hash, d.PreviousBlock, d.Height, d.CumulatedWork, d.State, d.Version, d.MerkleRoot, d.Nonce, d.Timestamp)
}

// kind R: a notification.Channel that records what it is handed
type c11Raw struct{ r *c11Rec }

func (c c11Raw) Notify(ev notification.Event) {
	c.r.hold()
	// an "err" channel fails internally after having been handed the event; Channel.Notify has no
	// error result, so for the Notifier this is indistinguishable from ok
	c.r.record(c11CanonStruct(c.r.mat, ev))
}

// kind W: recording WebsocketPublisher under the production wsChan
type c11Pub struct{ r *c11Rec }

func (p c11Pub) Publish(channel string, data []byte, opts ...centrifuge.PublishOption) (centrifuge.PublishResult, error) {
	p.r.hold()
	s := c11CanonJSON(p.r.mat, data)
	if channel != "headers" {
		s = "WRONG-CHANNEL-" + channel + "-" + s
	}
	p.r.record(s)
	if p.r.spec.Beh == "err" {
		return centrifuge.PublishResult{}, errors.New("publish failed")
	}
	return centrifuge.PublishResult{}, nil
}

// ---------------------------------------------------------------------------------------------
// case parsing
// ---------------------------------------------------------------------------------------------

type c11Fault struct {
	Mode byte
	K    int
}

type c11Case struct {
	Chans    []c11Spec
	N        int
	H        *History
	Faults   map[int]c11Fault // by submission index
	Hist     string           // the history part as written (kept when it contains L or X tokens)
	Restarts map[int]int      // submission index -> number of restarts right before it
}

// c11Expand replaces L tokens by the submissions they stand for.
func c11Expand(tok string) ([]string, error) {
	p := strings.Split(tok[1:], ",")
	if len(p) != 4 {
		return nil, fmt.Errorf("bad run token %q", tok)
	}
	var n [4]int64
	for i := range p {
		v, err := strconv.ParseInt(p[i], 10, 64)
		if err != nil {
			return nil, err
		}
		n[i] = v
	}
	first, prev, count, bits := n[0], n[1], n[2], n[3]
	if count < 0 || count > 100000 {
		return nil, fmt.Errorf("bad run length in %q", tok)
	}
	out := make([]string, 0, count)
	for i := int64(0); i < count; i++ {
		id := first + i
		pr := id - 1
		if i == 0 {
			pr = prev
		}
		out = append(out, fmt.Sprintf("%d,%d,%d,1,%d,%d,%d", id, pr, bits, id+100000, 1600000000+i, i))
	}
	return out, nil
}

func c11Parse(line string) (*c11Case, error) {
	bar := strings.Index(line, "|")
	if bar < 0 {
		return nil, fmt.Errorf("no '|' in %q", line)
	}
	head, hist := line[:bar], line[bar+1:]
	k := &c11Case{Faults: map[int]c11Fault{}, Restarts: map[int]int{}}
	for _, part := range strings.Split(head, "/") {
		switch {
		case strings.HasPrefix(part, "c="):
			for _, x := range strings.Split(part[2:], ",") {
				if x == "" {
					continue
				}
				kb := strings.Split(x, ":")
				if len(kb) != 2 {
					return nil, fmt.Errorf("bad channel %q", x)
				}
				k.Chans = append(k.Chans, c11Spec{Kind: kb[0], Beh: kb[1]})
			}
		case strings.HasPrefix(part, "n="):
			v, err := strconv.Atoi(part[2:])
			if err != nil {
				return nil, err
			}
			k.N = v
		default:
			return nil, fmt.Errorf("bad head part %q", part)
		}
	}
	var toks []string
	idx := 0
	for _, tok := range strings.Split(hist, ";") {
		tok = strings.TrimSpace(tok)
		if tok == "" {
			continue
		}
		if strings.HasPrefix(tok, "g=") || strings.HasPrefix(tok, "f=") {
			toks = append(toks, tok)
			continue
		}
		if tok == "X" {
			k.Restarts[idx]++
			k.Hist = hist
			continue
		}
		if strings.HasPrefix(tok, "L") {
			ex, err := c11Expand(tok)
			if err != nil {
				return nil, err
			}
			toks = append(toks, ex...)
			idx += len(ex)
			k.Hist = hist
			continue
		}
		p := strings.Split(tok, ",")
		if len(p) == 8 {
			fs := p[7]
			if len(fs) < 2 || (fs[0] != 'a' && fs[0] != 'b' && fs[0] != 'c') {
				return nil, fmt.Errorf("bad fault %q", fs)
			}
			v, err := strconv.Atoi(fs[1:])
			if err != nil {
				return nil, err
			}
			k.Faults[idx] = c11Fault{Mode: fs[0], K: v}
			tok = strings.Join(p[:7], ",")
		}
		toks = append(toks, tok)
		idx++
	}
	h, err := ParseHistory(strings.Join(toks, ";"))
	if err != nil {
		return nil, err
	}
	k.H = h
	return k, nil
}

func c11ChanStr(chans []c11Spec) string {
	var cs []string
	for _, c := range chans {
		cs = append(cs, c.Kind+":"+c.Beh)
	}
	return strings.Join(cs, ",")
}

func (k *c11Case) Line() string {
	var cs []string
	for _, c := range k.Chans {
		cs = append(cs, c.Kind+":"+c.Beh)
	}
	if k.Hist != "" {
		return fmt.Sprintf("c=%s/n=%d|%s", strings.Join(cs, ","), k.N, k.Hist)
	}
	base := k.H.Line()
	toks := strings.Split(base, ";")
	// toks[0] = g=, toks[1] = f=, then the subs
	for i := range k.H.Subs {
		if f, ok := k.Faults[i]; ok {
			toks[2+i] += fmt.Sprintf(",%c%d", f.Mode, f.K)
		}
	}
	return fmt.Sprintf("c=%s/n=%d|%s", strings.Join(cs, ","), k.N, strings.Join(toks, ";"))
}

// ---------------------------------------------------------------------------------------------
// running one case on the real stack
// ---------------------------------------------------------------------------------------------

type c11Env struct {
	c         *Ctx
	s         *Stack
	faulty    *c11Faulty
	qTimeout  int
	base      int
	watchdog  time.Duration
	baseBumps int
	ncase     int
	restarts  int
	wantMiss  int
	loose     bool // goroutine counting abandoned for the rest of the run
	held      int  // deliveries parked at the gate when ingestion had finished, over all cases
}

func (e *c11Env) rowAt(m *Mat, hash string) string {
	var (
		prev, merkle, state, cum string
		height, ver, nonce       int64
		ts                       *string
	)
	err := e.s.DB.QueryRow(`SELECT previous_block, height, cumulated_work, header_state, version, merkleroot, nonce, CAST(strftime('%s', timestamp) AS TEXT) FROM headers WHERE hash = ?`, hash).
		Scan(&prev, &height, &cum, &state, &ver, &merkle, &nonce, &ts)
	if err != nil {
		return "NOROW"
	}
	mid := -1
	if mh, err := chainhash.NewHashFromStr(merkle); err == nil {
		if v, ok := m.MerkID[*mh]; ok {
			mid = v
		}
	}
	t := "null"
	if ts != nil {
		t = *ts
	}
	return fmt.Sprintf("%d:%d:%d:%s:%s:%d:%d:%d:%s", m.ID(hash), m.ID(prev), height, hexOfDec(cum), stLetter(state), ver, mid, nonce, t)
}

// baseline returns the number of goroutines that exist when no case is running: the smallest count seen so far;
// a new case starts only when the count is back there (a leftover goroutine of the previous case would
// otherwise hide one in-flight delivery of this case).
func (e *c11Env) baseline() int {
	if e.loose {
		return runtime.NumGoroutine()
	}
	if e.base == 0 {
		time.Sleep(20 * time.Millisecond)
		e.base = runtime.NumGoroutine()
	}
	deadline := time.Now().Add(500 * time.Millisecond)
	for {
		n := runtime.NumGoroutine()
		if n < e.base {
			e.base = n
		}
		if n <= e.base {
			return e.base
		}
		if time.Now().After(deadline) {
			e.base = n // something permanent was started in between
			e.baseBumps++
			e.c.Meta("c11_bump_at", fmt.Sprintf("case %d base %d now %d", e.ncase, e.base, n))
			e.degrade()
			return e.base
		}
		runtime.Gosched()
	}
}

// degrade: goroutine counting stops being usable when the implementation keeps goroutines of its own alive
// (e.g. one delivery goroutine per channel).  After two such incidents the rest of the run waits for the
// implementation's own number of successes per channel plus a short grace period instead - every wait bounded.
func (e *c11Env) degrade() {
	if e.qTimeout+e.baseBumps >= 2 && !e.loose {
		e.loose = true
		e.c.Meta("c11_loose_quiescence", "goroutine counting abandoned (the implementation keeps goroutines alive); waiting by delivery counts + grace period")
	}
}

// quiesce waits until every goroutine started since the baseline has finished or is parked at the gate.
func (e *c11Env) quiesce(baseline int, parked *int32, extra func() bool) bool {
	deadline := time.Now().Add(2 * time.Second)
	for i := 0; ; i++ {
		if runtime.NumGoroutine()-int(atomic.LoadInt32(parked)) <= baseline && (extra == nil || extra()) {
			return true
		}
		if time.Now().After(deadline) {
			e.qTimeout++
			e.degrade()
			return false
		}
		if i < 200 {
			runtime.Gosched()
		} else {
			time.Sleep(100 * time.Microsecond)
		}
	}
}

func c11Held(beh string) bool { return beh == "slow" || beh == "hang" }

func (e *c11Env) run(k *c11Case) (string, error) {
	e.ncase++
	m, err := Materialize(k.H)
	if err != nil {
		return "", err
	}
	if err := e.s.ResetHeaders(); err != nil {
		return "", err
	}
	// a fresh REAL Notifier with this case's channels, wired into a fresh chain service
	nt := notification.NewNotifier()
	gate := make(chan struct{})
	hang := make(chan struct{})
	var parked int32
	recs := make([]*c11Rec, 0, len(k.Chans))
	noisy, haveHook := false, false
	var paced *c11Rec
	for _, sp := range k.Chans {
		r := &c11Rec{spec: sp, mat: m, gate: gate, hang: hang, parked: &parked}
		switch sp.Kind {
		case "R", "W":
			c11Attach(e, nt, r)
		case "H", "N", "C":
			noisy = true
			if sp.Kind != "C" && !haveHook {
				haveHook = true
				r.firstHook = true
			}
			if err := c11AddRealChannel(e, nt, r); err != nil {
				return "", err
			}
		default:
			return "", fmt.Errorf("unknown channel kind %q", sp.Kind)
		}
		if sp.Beh == "late" {
			paced = r
		}
		recs = append(recs, r)
	}
	gateOpen, hangOpen := false, false
	openGate := func() {
		if !gateOpen {
			gateOpen = true
			close(gate)
		}
	}
	defer func() {
		// the case is over: whatever a hanging channel still receives is not part of the observation
		for _, r := range recs {
			if r.spec.Beh == "hang" {
				r.kill()
			}
		}
		openGate()
		if !hangOpen {
			hangOpen = true
			close(hang)
		}
		for _, r := range recs {
			if r.closer != nil {
				r.closer()
			}
		}
		// let the released goroutines go away before the next case takes its baseline (bounded)
		deadline := time.Now().Add(2 * time.Second)
		for atomic.LoadInt32(&parked) > 0 && time.Now().Before(deadline) {
			time.Sleep(200 * time.Microsecond)
		}
	}()
	e.s.Services.Notifier = nt
	e.s.SetForbidden(m.ForbiddenHashes())
	e.faulty.arm(0, 0)

	baseline := runtime.NumGoroutine()
	if !noisy {
		baseline = e.baseline()
	}
	steps := make([]string, len(k.H.Subs))
	var restartErr error
	// restart = what a process exit + start does: deliveries in flight are given (bounded) time to finish first,
	// then the database is closed and re-opened, services and Notifier are new, channels are registered again
	restart := func(stored int) error {
		deadline := time.Now().Add(2 * time.Second)
		for time.Now().Before(deadline) {
			ok := true
			for _, r := range recs {
				if !c11Held(r.spec.Beh) && r.count() < stored {
					ok = false
				}
			}
			if ok {
				break
			}
			time.Sleep(time.Millisecond)
		}
		time.Sleep(50 * time.Millisecond) // the webhook service still writes its bookkeeping after the POST
		ns, err := e.s.Reopen()
		if err != nil {
			return fmt.Errorf("restart: %w", err)
		}
		e.s = ns
		if err := e.s.HookCommits(4, e.faulty.commitHook); err != nil {
			return err
		}
		nt2 := notification.NewNotifier()
		for _, r := range recs {
			c11Attach(e, nt2, r)
		}
		e.s.Services.Notifier = nt2
		e.s.SetForbidden(m.ForbiddenHashes())
		e.restarts++
		return nil
	}
	var progress int64 // number of Adds that have returned
	done := make(chan struct{})
	go func() {
		defer close(done)
		stored := 0
		for i := range k.H.Subs {
			for n := k.Restarts[i]; n > 0; n-- {
				if err := restart(stored); err != nil {
					restartErr = err
					return
				}
			}
			if f, ok := k.Faults[i]; ok {
				e.faulty.arm(f.Mode, f.K)
			} else {
				e.faulty.arm(0, 0)
			}
			o := AddOutcome(e.s, m.Src[i])
			if strings.HasPrefix(o, "S") {
				o += "=" + e.rowAt(m, m.Hash[k.H.Subs[i].ID].String())
				stored++
			}
			steps[i] = o
			atomic.StoreInt64(&progress, int64(i+1))
			if paced != nil {
				// one delivery at a time on the paced channel (bounded wait), so that what one delivery does
				// to the channel's own state is visible to the next
				deadline := time.Now().Add(time.Second)
				for paced.count() < stored && time.Now().Before(deadline) {
					time.Sleep(time.Millisecond)
				}
				time.Sleep(40 * time.Millisecond)
			}
		}
		e.faulty.arm(0, 0)
	}()
	// watchdog per Add: an Add that does not return within e.watchdog is an observable, not a hang
	ing := "ok"
	abandoned := false
	last, lastAt := int64(0), time.Now()
	tick := time.NewTicker(5 * time.Millisecond)
wait:
	for {
		select {
		case <-done:
			break wait
		case <-tick.C:
			p := atomic.LoadInt64(&progress)
			if p != last {
				last, lastAt = p, time.Now()
			} else if time.Since(lastAt) > e.watchdog {
				ing = fmt.Sprintf("ADD-BLOCKED@%d", p)
				// release everything so that the blocked Add can return; bounded wait for the rest
				openGate()
				hangOpen = true
				close(hang)
				select {
				case <-done:
				case <-time.After(10 * time.Second):
					abandoned = true
				}
				break wait
			}
		}
	}
	tick.Stop()
	if restartErr != nil {
		return "", restartErr
	}
	if abandoned {
		// the ingestion goroutine is lost inside the implementation: report what is known and stop the run
		n := int(atomic.LoadInt64(&progress))
		return fmt.Sprintf("%s|ABANDONED|pre=|fin=|ing=%s", strings.Join(steps[:n], ";"), ing), errC11Stop
	}
	nStored := 0
	for _, st := range steps {
		if strings.HasPrefix(st, "S") {
			nStored++
		}
	}
	// all deliveries that can happen while the gate is closed
	settle := func(final bool) {
		want := func() bool {
			for _, r := range recs {
				if r.spec.Beh == "hang" && !hangOpen {
					continue
				}
				if (final || r.spec.Beh != "slow") && r.count() < nStored {
					return false
				}
			}
			return true
		}
		if noisy || e.loose {
			// real network clients / implementation-owned goroutines: goroutine counting is meaningless; wait
			// for the expected deliveries (bounded), then leave time for unexpected ones
			lim, grace := 5*time.Second, 60*time.Millisecond
			if !noisy {
				lim, grace = 300*time.Millisecond, 15*time.Millisecond
			}
			deadline := time.Now().Add(lim)
			for !want() && time.Now().Before(deadline) {
				time.Sleep(time.Millisecond)
			}
			time.Sleep(grace)
			return
		}
		defer func() {
			// belt and braces: the implementation's own number of successes tells how many deliveries to expect
			// (skipped once it has expired 20 times in this run: then deliveries are really missing and every
			// further wait would only make a failing run slow)
			if e.wantMiss >= 20 {
				return
			}
			deadline := time.Now().Add(150 * time.Millisecond)
			for !want() {
				if !time.Now().Before(deadline) {
					e.wantMiss++
					break
				}
				time.Sleep(200 * time.Microsecond)
			}
		}()
		if final {
			// the gate is open: only deliveries of hanging channels may stay parked
			nh := 0
			for _, r := range recs {
				if r.spec.Beh == "hang" && !hangOpen {
					nh++
				}
			}
			if nh == 0 {
				e.quiesce(baseline, &parked, func() bool { return atomic.LoadInt32(&parked) == 0 })
			} else {
				e.quiesce(baseline, &parked, func() bool { return int(atomic.LoadInt32(&parked)) <= nh*nStored })
			}
		} else {
			e.quiesce(baseline, &parked, nil)
		}
	}
	settle(false)
	e.held += int(atomic.LoadInt32(&parked))
	snap := func() string {
		parts := make([]string, len(recs))
		for i, r := range recs {
			parts[i] = r.snapshot()
		}
		return strings.Join(parts, "/")
	}
	pre := snap()
	openGate()
	settle(true)
	fin := snap()
	_, _, rows, err := StatesAndTip(e.s, m)
	if err != nil {
		return "", err
	}
	return fmt.Sprintf("%s|%s|pre=%s|fin=%s|ing=%s", strings.Join(steps, ";"), RowsString(rows, m), pre, fin, ing), nil
}

// ---------------------------------------------------------------------------------------------
// generators
// ---------------------------------------------------------------------------------------------

func c11GenChans(r *rand.Rand, kinds []string) []c11Spec {
	n := r.Intn(5)
	if r.Intn(10) > 0 && n == 0 {
		n = 1 + r.Intn(4)
	}
	behs := []string{"ok", "ok", "err", "slow"}
	out := make([]c11Spec, n)
	for i := range out {
		out[i] = c11Spec{Kind: kinds[r.Intn(len(kinds))], Beh: behs[r.Intn(len(behs))]}
	}
	return out
}

// c11AddFaults sprinkles storage failures over a history; a failed submission is often retried later.
func c11AddFaults(r *rand.Rand, h *History, p float64) (*History, map[int]c11Fault) {
	out := &History{Forbidden: h.Forbidden}
	faults := map[int]c11Fault{}
	var retry []Sub
	for _, s := range h.Subs {
		out.Subs = append(out.Subs, s)
		if r.Float64() < p {
			mode := byte('b')
			switch r.Intn(8) {
			case 0, 1:
				mode = 'a'
			case 2, 3, 4:
				mode = 'c'
			}
			kk := 0
			switch x := r.Intn(10); {
			case x < 5:
				kk = 0
			case x < 7:
				kk = 1
			case x < 9:
				kk = 2
			default:
				kk = 3
			}
			faults[len(out.Subs)-1] = c11Fault{Mode: mode, K: kk}
			if r.Intn(3) > 0 {
				retry = append(retry, s)
			}
		}
		if len(retry) > 0 && r.Intn(2) == 0 {
			out.Subs = append(out.Subs, retry[0])
			retry = retry[1:]
		}
	}
	out.Subs = append(out.Subs, retry...)
	return out, faults
}

func c11Class(k *c11Case, obs string) []string {
	var cl []string
	if len(k.Faults) > 0 {
		cl = append(cl, "with-faults")
	} else {
		cl = append(cl, "no-faults")
	}
	cl = append(cl, fmt.Sprintf("channels:%d", len(k.Chans)))
	seen := map[string]bool{}
	for _, c := range k.Chans {
		if !seen[c.Beh] {
			seen[c.Beh] = true
			cl = append(cl, "beh:"+c.Beh)
		}
		if !seen["k"+c.Kind] {
			seen["k"+c.Kind] = true
			cl = append(cl, "kind:"+c.Kind)
		}
	}
	steps := strings.Split(strings.SplitN(obs, "|", 2)[0], ";")
	o := map[string]bool{}
	for _, s := range steps {
		if s == "" {
			continue
		}
		key := s
		if i := strings.Index(s, "="); i >= 0 {
			key = s[:i]
		}
		o[key] = true
	}
	for key := range o {
		cl = append(cl, "outcome:"+key)
	}
	return cl
}

var errC11Stop = errors.New("stop: ingestion blocked by a held channel")

func runC11(c *Ctx) error {
	err := runC11x(c)
	if errors.Is(err, errC11Stop) {
		c.Meta("c11_stopped_early", "ingestion was blocked by a held channel; generation stopped after the first witness")
		return nil
	}
	return err
}

func runC11x(c *Ctx) error {
	faulty := &c11Faulty{}
	s, err := NewStack(StackOpts{Dir: c.TmpDir("c11"), MaxTries: 1 << 30, WrapHeaders: func(h repository.Headers) repository.Headers {
		faulty.Headers = h
		return faulty
	}})
	if err != nil {
		return err
	}
	if err := s.HookCommits(4, faulty.commitHook); err != nil {
		return err
	}
	// an Add that has not returned after this long is reported as ADD-BLOCKED@i (one Add takes well under a millisecond)
	env := &c11Env{c: c, s: s, faulty: faulty, watchdog: 5 * time.Second}
	if c.Only != "" {
		env.watchdog = 2 * time.Second // replay / shrinking of one case
	}
	defer func() { env.s.Close() }() // restarts replace the stack
	seen := map[string]bool{}
	do := func(k *c11Case, tag string) error {
		line := k.Line()
		if seen[line] {
			return nil
		}
		seen[line] = true
		obs, err := env.run(k)
		if err != nil && !(errors.Is(err, errC11Stop) && obs != "") {
			return fmt.Errorf("case %s: %w", line, err)
		}
		c.Case(line, obs)
		c.Count("gen:" + tag)
		for _, cl := range HistoryClass(k.H) {
			c.Count("class:" + cl)
		}
		for _, cl := range c11Class(k, obs) {
			c.Count(cl)
		}
		c.Count(fmt.Sprintf("len:%02d", (len(k.H.Subs)+4)/5*5))
		if !strings.HasSuffix(obs, "ing=ok") {
			// every further case with a held channel would wait for the watchdog again: one witness is enough
			return errC11Stop
		}
		return nil
	}
	finish := func() {
		c.Meta("c11_fault_hits", strconv.Itoa(faulty.hits))
		c.Meta("c11_commit_fault_hits", strconv.Itoa(faulty.commitHits))
		c.Meta("c11_deliveries_held_while_ingestion_completed", strconv.Itoa(env.held))
		c.Meta("c11_quiesce_timeouts", strconv.Itoa(env.qTimeout))
		c.Meta("c11_baseline_bumps", strconv.Itoa(env.baseBumps))
		c.Meta("c11_restarts", strconv.Itoa(env.restarts))
	}
	defer finish()
	defer c11RealClose()
	if c.Only != "" {
		k, err := c11Parse(c.Only)
		if err != nil {
			return err
		}
		return do(k, "only")
	}
	for _, l := range corpusLines(c, "C11") {
		k, err := c11Parse(l)
		if err != nil {
			return fmt.Errorf("corpus line %q: %w", l, err)
		}
		if err := do(k, "corpus"); err != nil {
			return err
		}
	}
	std := []c11Spec{{"R", "ok"}, {"W", "err"}, {"R", "slow"}, {"W", "ok"}}
	// bounded-exhaustive: all trees x work classes x arrival orders, fixed channel mix
	var eerr error
	ExhaustiveHistories(c.Pick(2, 3), []uint32{bitsW2, bitsW4}, func(h *History) {
		if eerr != nil {
			return
		}
		eerr = do(&c11Case{Chans: std, N: len(seen), H: h, Faults: map[int]c11Fault{}}, "exhaustive")
		if eerr != nil {
			return
		}
		// every single fault position / kind, followed by a retry of the failed submission and a duplicate
		for i := range h.Subs {
			for _, f := range []c11Fault{{'b', 0}, {'a', 0}, {'b', 1}, {'b', 2}, {'a', 2}, {'c', 0}, {'c', 1}, {'c', 2}} {
				h2 := &History{Forbidden: h.Forbidden}
				h2.Subs = append(h2.Subs, h.Subs...)
				h2.Subs = append(h2.Subs, h.Subs[i], h.Subs[i])
				eerr = do(&c11Case{Chans: std, N: len(seen), H: h2, Faults: map[int]c11Fault{i: f}}, "exhaustive-fault")
				if eerr != nil {
					return
				}
			}
		}
	})
	if eerr != nil {
		return eerr
	}
	n := c.Pick(500, 5000)
	for i := 0; i < n; i++ {
		o := GenOpts{N: 2 + c.Rng.Intn(c.Pick(22, 40)), PUnknown: 0.08, PLate: 0.1, PDup: 0.12, PForbidden: 0.2,
			ZeroWork: i%5 == 0, Deep: i%2 == 0, Extreme: i%7 == 0, Positive: i%5 != 0, ShareMerkle: i%3 == 1}
		h := GenHistory(c.Rng, o)
		faults := map[int]c11Fault{}
		if i%3 != 0 {
			h, faults = c11AddFaults(c.Rng, h, 0.15)
		}
		k := &c11Case{Chans: c11GenChans(c.Rng, []string{"R", "W"}), N: c.Rng.Intn(1000000), H: h, Faults: faults}
		if err := do(k, "random"); err != nil {
			return err
		}
	}
	if c.Thorough() {
		if err := c11Thorough(env, do); err != nil {
			return err
		}
	}
	// last (real HTTP connections disturb goroutine counting): the PRODUCTION webhook service and HTTP client against
	// a target that flushes its 200 status first and writes the body later, webhook.max_tries = 3, 12 headers one
	// after the other: the ADD events must keep arriving
	k, err := c11Parse("c=H:late,R:ok/n=9001|g=1,486604799,1,1,1231006505,2083236893;f=;L2,1,12,545259519")
	if err != nil {
		return err
	}
	if err := do(k, "late-webhook-body"); err != nil {
		return err
	}
	// a webhook registered in an earlier run of the process keeps receiving events after a restart on the same
	// database file: registered, restart, headers  /  registered, headers, restart, more headers (a fork included)
	for _, l := range []string{
		"c=H:ok,W:ok/n=9002|g=1,486604799,1,1,1231006505,2083236893;f=;X;L2,1,6,545259519",
		"c=W:ok,H:ok,R:ok/n=9003|g=1,486604799,1,1,1231006505,2083236893;f=;L2,1,4,545259519;X;L6,5,4,545259519;20,3,541065215,1,120,1600000100,9",
		// sync bursts: 40 headers back to back, every delivery goroutine reads and writes the webhooks table while the
		// next headers are being inserted (storage errors on those reads / writes must not cost an event)
		"c=H:ok,W:ok,R:ok/n=9004|g=1,486604799,1,1,1231006505,2083236893;f=;L2,1,40,545259519",
		"c=H:ok,R:ok/n=9005|g=1,486604799,1,1,1231006505,2083236893;f=;L2,1,40,545259519",
		"c=W:ok,H:ok/n=9006|g=1,486604799,1,1,1231006505,2083236893;f=;L2,1,25,545259519;X;L27,26,25,545259519",
		// a target that answers 500 with an error page, more often than a connection pool per host is likely to be
		// deep: the webhook stays registered (max_tries is huge here) and must be called for every stored header
		"c=H:err,W:ok/n=9010|g=1,486604799,1,1,1231006505,2083236893;f=;L2,1,10,545259519",
		// a webhook registered WITHOUT authorisation: alone, before / after a token-protected one, across a restart
		"c=N:ok,W:ok/n=9007|g=1,486604799,1,1,1231006505,2083236893;f=;L2,1,4,545259519",
		"c=N:ok,H:ok,W:ok/n=9008|g=1,486604799,1,1,1231006505,2083236893;f=;L2,1,4,545259519",
		"c=H:ok,N:ok,R:ok/n=9009|g=1,486604799,1,1,1231006505,2083236893;f=;L2,1,3,545259519;X;L5,4,3,545259519",
	} {
		k, err := c11Parse(l)
		if err != nil {
			return err
		}
		if err := do(k, "webhook-after-restart"); err != nil {
			return err
		}
	}
	return nil
}
