//go:build verif

package main

// Shared by C10 and C09 (C09 includes the "c10" prefix through harness_include):
// the gin engine wired exactly as cmd/main.go wires it - metrics.Register, then
// endpoints.SetupRoutes, then the websocket entrypoint of websocket.NewServer - on top of the
// real stack of common_fixture.go (SQLite file + SQL repositories + service.NewServices).

import (
	"context"
	stdsql "database/sql"
	"fmt"
	"net/http/httptest"
	"os"
	"os/exec"
	"path/filepath"
	"strings"
	"sync"
	"time"

	"github.com/bitcoin-sv/block-headers-service/cli"
	"github.com/bitcoin-sv/block-headers-service/config"
	"github.com/bitcoin-sv/block-headers-service/domains"
	"github.com/bitcoin-sv/block-headers-service/logging"
	"github.com/bitcoin-sv/block-headers-service/metrics"
	"github.com/bitcoin-sv/block-headers-service/repository"
	"github.com/bitcoin-sv/block-headers-service/service"
	"github.com/bitcoin-sv/block-headers-service/transports/http/endpoints"
	httpserver "github.com/bitcoin-sv/block-headers-service/transports/http/server"
	"github.com/bitcoin-sv/block-headers-service/transports/websocket"
	centrifuge "github.com/centrifugal/centrifuge-go"
	"github.com/gin-gonic/gin"
)

// FullStack = Stack + the engine of cmd/main.go (+ optionally a listening test server and a
// running websocket node).
type FullStack struct {
	*Stack
	WS      websocket.Server
	Srv     *httptest.Server
	started bool
}

// FullOpts selects what is wired on top of the Stack.
type FullOpts struct {
	Websocket bool // register /connection/websocket (websocket.NewServer(...).SetupEntrypoint)
	Listen    bool // start the websocket node and a listening httptest server (real clients)
}

// NewFullStack rebuilds s.Engine the way cmd/main.go builds it (the engine that NewStack made
// is dropped): metrics.Register (a no-op unless metrics.EnableMetrics() was called before),
// endpoints.SetupRoutes, ws.SetupEntrypoint.
func NewFullStack(s *Stack, o FullOpts) (*FullStack, error) {
	fs := &FullStack{Stack: s}
	server := httpserver.NewHTTPServer(s.Cfg.HTTP, s.Log)
	server.ApplyConfiguration(metrics.Register)
	server.ApplyConfiguration(endpoints.SetupRoutes(s.Services, s.Cfg.HTTP))
	if o.Websocket || o.Listen {
		ws, err := websocket.NewServer(s.Log, s.Services, s.Cfg.HTTP.UseAuth)
		if err != nil {
			return nil, fmt.Errorf("websocket.NewServer: %w", err)
		}
		fs.WS = ws
		server.ApplyConfiguration(ws.SetupEntrypoint)
	}
	server.ApplyConfiguration(func(e *gin.Engine) { s.Engine = e })
	if o.Listen {
		if err := fs.WS.Start(); err != nil {
			return nil, err
		}
		fs.started = true
		fs.Srv = httptest.NewServer(s.Engine)
	}
	return fs, nil
}

// Shutdown stops the listener and the websocket node and closes the database.
func (fs *FullStack) Shutdown() {
	if fs.Srv != nil {
		fs.Srv.CloseClientConnections()
		fs.Srv.Close()
		fs.Srv = nil
	}
	if fs.started {
		_ = fs.WS.Shutdown()
		fs.started = false
	}
	fs.Stack.Close()
}

// WsConnect performs the centrifuge connect handshake with a real centrifuge-go client against
// the listening server.  Returns "ok" (connected), "no:<code>" (server disconnect, e.g. 3500
// invalid token) or "err:..." / "timeout".
func (fs *FullStack) WsConnect(token string) (res string) {
	defer func() {
		if r := recover(); r != nil {
			res = fmt.Sprintf("PANIC:%v", r)
		}
	}()
	if fs.Srv == nil {
		return "err:not-listening"
	}
	url := "ws" + strings.TrimPrefix(fs.Srv.URL, "http") + "/connection/websocket"
	cl := centrifuge.NewJsonClient(url, centrifuge.Config{Token: token})
	defer cl.Close()
	ch := make(chan string, 8)
	cl.OnConnected(func(e centrifuge.ConnectedEvent) { ch <- "ok" })
	cl.OnDisconnected(func(e centrifuge.DisconnectedEvent) { ch <- fmt.Sprintf("no:%d", e.Code) })
	cl.OnError(func(e centrifuge.ErrorEvent) { ch <- "err:" + strings.ReplaceAll(e.Error.Error(), "\t", " ") })
	if err := cl.Connect(); err != nil {
		return "err:" + err.Error()
	}
	select {
	case r := <-ch:
		return r
	case <-time.After(waitDeadline):
		return "timeout"
	}
}

func c10VerifDir() string {
	if d := os.Getenv("VERIF_DIR"); d != "" {
		return d
	}
	return "/verif"
}

// tokPauser is a scheduling point in the token repository: the next lookup of the armed value is held right
// after the underlying lookup returned, until released.  Used by C10 (RACE, OVL) and C09 (overlap cases).
type tokPauser struct {
	mu       sync.Mutex
	pauseTok string
	armed    bool
	reached  chan struct{}
	release  chan struct{}
	timeouts int // lookups that were held and never released within holdDeadline (reported as HOLD-TIMEOUT)
}

// every wait of the harness has a deadline and ends as an observable, never as a hang
const (
	holdDeadline = 2 * time.Second // a held lookup lets itself go after this long
	waitDeadline = 3 * time.Second // waiting for an answer of the implementation
)

// takeTimeouts returns and resets the number of held lookups that timed out.
func (p *tokPauser) takeTimeouts() int {
	p.mu.Lock()
	defer p.mu.Unlock()
	n := p.timeouts
	p.timeouts = 0
	return n
}

// flushCases writes the case files out (a killed run still shows everything up to the case in flight).
func flushCases(c *Ctx) {
	_ = c.cases.Flush()
	_ = c.impl.Flush()
}

// arm: the next lookup of tok is held.  reached is closed when it is; close(release) lets it go on.
func (p *tokPauser) arm(tok string) (reached, release chan struct{}) {
	p.mu.Lock()
	defer p.mu.Unlock()
	p.pauseTok, p.armed, p.reached, p.release = tok, true, make(chan struct{}), make(chan struct{})
	return p.reached, p.release
}

func (p *tokPauser) disarm() {
	p.mu.Lock()
	p.armed = false
	p.mu.Unlock()
}

// install decorates s.Repo.Tokens and rebuilds the token service around the decorated repository exactly as
// service.NewServices builds it (the engine / websocket server must be built AFTER this: NewFullStack).
func (p *tokPauser) install(s *Stack) {
	s.Repo.Tokens = &pausingTokRepo{inner: s.Repo.Tokens, p: p}
	s.Services.Tokens = service.NewTokenService(s.Repo, s.Cfg.HTTP.AuthToken)
}

type pausingTokRepo struct {
	inner repository.Tokens
	p     *tokPauser
}

func (r *pausingTokRepo) AddTokenToDatabase(t *domains.Token) error {
	return r.inner.AddTokenToDatabase(t)
}
func (r *pausingTokRepo) DeleteToken(t string) error { return r.inner.DeleteToken(t) }
func (r *pausingTokRepo) GetTokenByValue(tok string) (*domains.Token, error) {
	t, err := r.inner.GetTokenByValue(tok)
	r.p.mu.Lock()
	var rel chan struct{}
	if r.p.armed && r.p.pauseTok == tok {
		r.p.armed = false
		rel = r.p.release
		close(r.p.reached)
	}
	r.p.mu.Unlock()
	if rel != nil {
		select {
		case <-rel:
		case <-time.After(holdDeadline):
			r.p.mu.Lock()
			r.p.timeouts++
			r.p.mu.Unlock()
		}
	}
	return t, err
}

// adminTokenVariants: admin-token configurations beside the default one - lengths around the length of issued
// tokens (32) and far from it, and characters other than alphanumerics that the header grammar allows
// (no space); in case lines the value is percent-encoded (pctEncode), so it may contain '$' ';' ':' etc.
func adminTokenVariants() []string {
	rpt := func(pat string, n int) string {
		var sb strings.Builder
		for sb.Len() < n {
			sb.WriteString(pat)
		}
		return sb.String()[:n]
	}
	return []string{
		"Z",
		rpt("aB3dE6gH9", 31),
		rpt("Qw3rTy7u1", 32),
		rpt("zX9cV8bN7", 33),
		rpt("0123456789abcdef", 40),
		"123e4567-e89b-12d3-a456-426614174000",
		rpt("fedcba9876543210", 64),
		rpt("LongAdminToken0", 100),
		"Adm-1n_t0k.en~x!y*z(w)+v,u=s@q",
		// literal '$' (and ';' ':'): a configured secret is a literal, whatever it looks like
		"Adm$in4Token-9fK2", "$HOME", "${PATH}x", "a$$b", "tok$1", "semi;colon:and$dollar",
	}
}

// holdPool makes every SQL statement of the service slow for a moment, BELOW the repository layer: it takes all
// n connections of the pool (the pool is capped at n), so that each statement waits inside database/sql until
// release() is called.  waiters() = number of statements that started waiting since the hold began.
func holdPool(s *Stack, n int) (release func(), waiters func() int64, err error) {
	s.DB.SetMaxOpenConns(n)
	s.DB.SetMaxIdleConns(n)
	ctx := context.Background()
	var conns []*stdsql.Conn
	for i := 0; i < n; i++ {
		c, err := s.DB.Conn(ctx)
		if err != nil {
			for _, c := range conns {
				_ = c.Close()
			}
			return nil, nil, err
		}
		conns = append(conns, c)
	}
	base := s.DB.Stats().WaitCount
	return func() {
			for _, c := range conns {
				_ = c.Close()
			}
		}, func() int64 {
			return s.DB.Stats().WaitCount - base
		}, nil
}

// waitFor polls cond (every 200 us) for at most d.
func waitFor(d time.Duration, cond func() bool) bool {
	end := time.Now().Add(d)
	for time.Now().Before(end) {
		if cond() {
			return true
		}
		time.Sleep(200 * time.Microsecond)
	}
	return cond()
}

// ---- the admin token as the SERVICE obtains it ----
//
// The admin-token dimension does not inject the value into the AppConfig struct: the configured literal is written
// to a config file or to BHS_HTTP_AUTH_TOKEN and the real config.SetDefaults + cli.LoadFlags + config.Load run in a
// child process (`harness c10cfgchild <dir> [-C file]`, viper/pflag state is process-global); the stack is built
// with the value THAT yields, while the model (and every credential presented) keeps the configured literal.

func init() { register("c10cfgchild", runC10CfgChild) }

func runC10CfgChild(c *Ctx) error {
	os.Args = append([]string{os.Args[0]}, os.Args[3:]...) // what the service's main() would see
	res := "ERR unknown"
	func() {
		defer func() {
			if r := recover(); r != nil {
				res = "ERR panic " + strings.ReplaceAll(fmt.Sprint(r), "\n", " ")
			}
		}()
		log := logging.GetDefaultLogger()
		if err := config.SetDefaults("development", log); err != nil {
			res = "ERR SetDefaults " + err.Error()
			return
		}
		cfg := config.GetDefaultAppConfig()
		if err := cli.LoadFlags(cfg); err != nil {
			res = "ERR LoadFlags " + err.Error()
			return
		}
		got, _, err := config.Load(cfg)
		if err != nil {
			res = "ERR Load " + err.Error()
			return
		}
		if got.HTTP == nil {
			res = "ERR no http section"
			return
		}
		res = "OK " + got.HTTP.AuthToken
	}()
	return os.WriteFile(filepath.Join(c.Out, "auth_token.txt"), []byte(res), 0o644)
}

var effTokCache = map[string]string{}
var effTokMu sync.Mutex

// effectiveAdminToken: the value the service ends up with when `configured` is set through source
// "e" (environment BHS_HTTP_AUTH_TOKEN) or "f" (http.auth_token of a YAML file given with -C); "d" = the value
// itself (direct injection).  An error text (not a Go error) comes back as ok=false.
func effectiveAdminToken(tmp, configured, source string) (eff string, ok bool) {
	if source == "d" || source == "" {
		return configured, true
	}
	key := source + "\x00" + configured
	effTokMu.Lock()
	if v, hit := effTokCache[key]; hit {
		effTokMu.Unlock()
		return strings.TrimPrefix(v, "OK "), strings.HasPrefix(v, "OK ")
	}
	effTokMu.Unlock()
	dir, err := os.MkdirTemp(tmp, "cfgchild")
	if err != nil {
		return "harness: " + err.Error(), false
	}
	defer os.RemoveAll(dir)
	exe, err := os.Executable()
	if err != nil {
		return "harness: " + err.Error(), false
	}
	args := []string{"c10cfgchild", dir}
	var env []string
	for _, kv := range os.Environ() {
		if !strings.HasPrefix(strings.ToUpper(kv), "BHS_") {
			env = append(env, kv)
		}
	}
	switch source {
	case "e":
		env = append(env, "BHS_HTTP_AUTH_TOKEN="+configured)
	case "f":
		f := filepath.Join(dir, "service.yaml")
		yaml := "http:\n  auth_token: '" + strings.ReplaceAll(configured, "'", "''") + "'\n"
		if err := os.WriteFile(f, []byte(yaml), 0o644); err != nil {
			return "harness: " + err.Error(), false
		}
		args = append(args, "-C", f)
	}
	cmd := exec.Command(exe, args...)
	cmd.Dir = dir // no ./config.yaml there
	cmd.Env = env
	res := ""
	if out, err := cmd.CombinedOutput(); err != nil {
		res = "ERR child " + err.Error() + " " + string(out)
	} else if b, err := os.ReadFile(filepath.Join(dir, "auth_token.txt")); err != nil {
		res = "ERR child wrote nothing"
	} else {
		res = string(b)
	}
	res = strings.NewReplacer("\n", " ", "\t", " ").Replace(res)
	if len(res) > 300 {
		res = res[:300]
	}
	effTokMu.Lock()
	effTokCache[key] = res
	effTokMu.Unlock()
	return strings.TrimPrefix(res, "OK "), strings.HasPrefix(res, "OK ")
}

// pctEncode / pctDecode: how token values are written in case lines (everything but [A-Za-z0-9._~-] as %XX).
func pctEncode(s string) string {
	var sb strings.Builder
	for i := 0; i < len(s); i++ {
		ch := s[i]
		if ch >= 'a' && ch <= 'z' || ch >= 'A' && ch <= 'Z' || ch >= '0' && ch <= '9' || ch == '.' || ch == '_' || ch == '~' || ch == '-' {
			sb.WriteByte(ch)
		} else {
			fmt.Fprintf(&sb, "%%%02X", ch)
		}
	}
	return sb.String()
}

func pctDecode(s string) string {
	var sb strings.Builder
	for i := 0; i < len(s); i++ {
		if s[i] == '%' && i+2 < len(s) {
			var v int
			if _, err := fmt.Sscanf(s[i+1:i+3], "%02X", &v); err == nil {
				sb.WriteByte(byte(v))
				i += 2
				continue
			}
		}
		sb.WriteByte(s[i])
	}
	return sb.String()
}

// prewarmAdminTokens resolves every (variant, source) pair in parallel child processes (the results are cached).
func prewarmAdminTokens(tmp string) {
	var wg sync.WaitGroup
	sem := make(chan struct{}, 8)
	for _, v := range adminTokenVariants() {
		for _, src := range []string{"e", "f"} {
			wg.Add(1)
			go func(v, src string) {
				defer wg.Done()
				sem <- struct{}{}
				defer func() { <-sem }()
				effectiveAdminToken(tmp, v, src)
			}(v, src)
		}
	}
	wg.Wait()
}

// holdWriteLock takes the database's WRITE LOCK on a connection of its own (a second *sql.DB on the same file,
// BEGIN IMMEDIATE): "another writer is busy" - e.g. the headers synchronisation in a long transaction.  Readers go
// on, every write of the service waits for its busy timeout.  release() rolls the transaction back; a safety release
// happens after 12 s.
func holdWriteLock(dbPath string) (release func(), err error) {
	db, err := stdsql.Open("sqlite3", "file:"+dbPath+"?_busy_timeout=2000")
	if err != nil {
		return nil, err
	}
	ctx := context.Background()
	conn, err := db.Conn(ctx)
	if err != nil {
		_ = db.Close()
		return nil, err
	}
	if _, err := conn.ExecContext(ctx, "BEGIN IMMEDIATE"); err != nil {
		_ = conn.Close()
		_ = db.Close()
		return nil, err
	}
	var once sync.Once
	release = func() {
		once.Do(func() {
			_, _ = conn.ExecContext(ctx, "ROLLBACK")
			_ = conn.Close()
			_ = db.Close()
		})
	}
	go func() {
		time.Sleep(12 * time.Second)
		release()
	}()
	return release, nil
}
