//go:build verif

package main

import (
	"bytes"
	"encoding/json"
	"fmt"
	"runtime"
	"strconv"
	"strings"
	"sync"
	"time"

	"github.com/bitcoin-sv/block-headers-service/domains"
	"github.com/bitcoin-sv/block-headers-service/internal/chaincfg/chainhash"
	"github.com/bitcoin-sv/block-headers-service/notification"
	"github.com/bitcoin-sv/block-headers-service/repository"
)

func init() { register("C15", runC15) }

// c15Loc: the reader of the next scheduled scenario builds BLOCK LOCATORS (Headers.LatestHeaderLocator: one tip read,
// then one by-height read per entry - each a scheduled repository operation, so a reorganisation can be placed
// between any two of them) instead of asking for the tip.
var c15Loc bool

// c15TipAPI: the reader of the next scheduled scenario asks GET /api/v1/chain/tip/longest (served synchronously on
// the reader's goroutine, so every repository call the handler makes is a scheduled operation) and records the hash
// AND the state the answer carries: what the API calls the tip of the longest chain must be labelled LONGEST_CHAIN.
var c15TipAPI bool

// evCounter is a notification channel that counts ADD events per header hash.
type evCounter struct {
	mu sync.Mutex
	n  map[string]int
}

func (e *evCounter) Notify(ev notification.Event) {
	if he, ok := ev.(*domains.HeaderEvent); ok && he.Header != nil && he.Operation == domains.EventHeaderAdded {
		e.mu.Lock()
		e.n[he.Header.Hash]++
		e.mu.Unlock()
	}
}
func (e *evCounter) reset() { e.mu.Lock(); e.n = map[string]int{}; e.mu.Unlock() }
func (e *evCounter) total() int {
	e.mu.Lock()
	defer e.mu.Unlock()
	t := 0
	for _, v := range e.n {
		t += v
	}
	return t
}
func (e *evCounter) get(h string) int { e.mu.Lock(); defer e.mu.Unlock(); return e.n[h] }

// ---------------------------------------------------------------------------------------------
// A scheduler at the repository.Headers boundary.  Goroutines registered with the scheduler block at
// every repository call until the harness grants the step; the granted operation runs to completion
// before the next grant, so repository operations are the atomic steps of the interleaving.
// A goroutine that does not arrive at the repository (blocked on a lock inside the service) is skipped
// after a short wait: the harness records the order that really happened.
// ---------------------------------------------------------------------------------------------

func goid() int64 {
	b := make([]byte, 64)
	b = b[:runtime.Stack(b, false)]
	b = bytes.TrimPrefix(b, []byte("goroutine "))
	i := bytes.IndexByte(b, ' ')
	n, _ := strconv.ParseInt(string(b[:i]), 10, 64)
	return n
}

type schedReq struct {
	tid  int
	op   string
	done chan struct{}
}

type sched struct {
	mu      sync.Mutex
	tids    map[int64]int
	req     chan *schedReq
	grant   map[int]chan struct{}
	opdone  chan int
	fin     chan int
	enabled bool
}

func newSched() *sched {
	return &sched{tids: map[int64]int{}, req: make(chan *schedReq, 16), grant: map[int]chan struct{}{}, opdone: make(chan int, 16), fin: make(chan int, 16)}
}

func (s *sched) register(tid int) {
	s.mu.Lock()
	s.tids[goid()] = tid
	if _, ok := s.grant[tid]; !ok {
		s.grant[tid] = make(chan struct{})
	}
	s.mu.Unlock()
}

// enter is called by the decorator before a repository operation; leave after it.
func (s *sched) enter(op string) (int, bool) {
	s.mu.Lock()
	tid, ok := s.tids[goid()]
	en := s.enabled
	var g chan struct{}
	if ok {
		g = s.grant[tid]
	}
	s.mu.Unlock()
	if !ok || !en {
		return 0, false
	}
	s.req <- &schedReq{tid: tid, op: op}
	<-g
	return tid, true
}

func (s *sched) leave(tid int) { s.opdone <- tid }

type schedRepo struct {
	repository.Headers
	s *sched
}

func (r *schedRepo) wrap(op string, f func()) {
	tid, ok := r.s.enter(op)
	f()
	if ok {
		r.s.leave(tid)
	}
}

func (r *schedRepo) AddHeaderToDatabase(h domains.BlockHeader) (err error) {
	r.wrap("W", func() { err = r.Headers.AddHeaderToDatabase(h) })
	return
}
func (r *schedRepo) UpdateState(hs []chainhash.Hash, st domains.HeaderState) (err error) {
	r.wrap("W", func() { err = r.Headers.UpdateState(hs, st) })
	return
}
func (r *schedRepo) GetHeaderByHash(hash string) (h *domains.BlockHeader, err error) {
	r.wrap("R", func() { h, err = r.Headers.GetHeaderByHash(hash) })
	return
}
func (r *schedRepo) GetHeaderByHeight(height int32) (h *domains.BlockHeader, err error) {
	r.wrap("R", func() { h, err = r.Headers.GetHeaderByHeight(height) })
	return
}
func (r *schedRepo) GetTip() (h *domains.BlockHeader, err error) {
	r.wrap("T", func() { h, err = r.Headers.GetTip() })
	return
}
func (r *schedRepo) GetStaleChainHeadersBackFrom(hash string) (h []*domains.BlockHeader, err error) {
	r.wrap("R", func() { h, err = r.Headers.GetStaleChainHeadersBackFrom(hash) })
	return
}
func (r *schedRepo) GetLongestChainHeadersFromHeight(height int32) (h []*domains.BlockHeader, err error) {
	r.wrap("R", func() { h, err = r.Headers.GetLongestChainHeadersFromHeight(height) })
	return
}

// run drives the registered goroutines: prefs is the list of preferred thread ids, cycled.
// returns the trace of granted operations "<tid><op>" in order.
func (s *sched) run(nthreads int, prefs []int) []string {
	pending := map[int]*schedReq{}
	finished := 0
	trace := []string{}
	pi := 0
	drain := func(wait time.Duration) {
		t := time.NewTimer(wait)
		defer t.Stop()
		for {
			select {
			case r := <-s.req:
				pending[r.tid] = r
			case <-s.fin:
				finished++
			case <-t.C:
				return
			}
		}
	}
	for finished < nthreads {
		want := -1
		if len(prefs) > 0 {
			want = prefs[pi%len(prefs)]
		}
		// wait (bounded) for the preferred thread to arrive
		for i := 0; i < 20 && pending[want] == nil && finished < nthreads; i++ {
			drain(300 * time.Microsecond)
			if len(pending) > 0 && i >= 2 {
				break
			}
		}
		if finished >= nthreads && len(pending) == 0 {
			break
		}
		var r *schedReq
		if p, ok := pending[want]; ok {
			r = p
		} else {
			for tid := 0; tid < 16; tid++ {
				if p, ok := pending[tid]; ok {
					r = p
					break
				}
			}
		}
		if r == nil {
			drain(2 * time.Millisecond)
			continue
		}
		pi++
		delete(pending, r.tid)
		trace = append(trace, fmt.Sprintf("%d%s", r.tid, r.op))
		s.mu.Lock()
		g := s.grant[r.tid]
		s.mu.Unlock()
		g <- struct{}{}
		<-s.opdone
	}
	return trace
}

// C15 case input:  <setup history line>;x=t<tid>:<sub>  (one per concurrently submitted header; tid 1..3)
//
//	               ;x=readers:<n>;x=prefs:<tid.tid...>;x=trace:<granted ops, '.'-separated>
//	tid 0 is the reader (calls Headers.GetTip()).  The trace is what really happened and is part of the input:
//	the model replays it.
//
// obs: <outcome per submitter tid>|<tips seen by the reader, in order>|<final rows>
func runC15(c *Ctx) error {
	sc := newSched()
	s, err := NewStack(StackOpts{Dir: c.TmpDir("c15"), WrapHeaders: func(h repository.Headers) repository.Headers {
		return &schedRepo{Headers: h, s: sc}
	}})
	if err != nil {
		return err
	}
	defer s.Close()
	evc := &evCounter{n: map[string]int{}}
	s.Services.Notifier.AddChannel(evc)
	do := func(setup *History, conc []Sub, nreads int, prefs []int, caIDs []int, tag string) error {
		all := &History{Forbidden: setup.Forbidden, Subs: append(append([]Sub{}, setup.Subs...), conc...)}
		m, err := Materialize(all)
		if err != nil {
			return err
		}
		sc.mu.Lock()
		sc.enabled = false
		sc.tids = map[int64]int{}
		sc.mu.Unlock()
		if err := s.ResetHeaders(); err != nil {
			return err
		}
		s.SetForbidden(m.ForbiddenHashes())
		for i := range setup.Subs {
			AddOutcome(s, m.Src[i])
		}
		sc.mu.Lock()
		sc.enabled = true
		sc.mu.Unlock()
		time.Sleep(2 * time.Millisecond) // let the setup's notification goroutines finish
		evc.reset()
		outs := make([]string, len(conc))
		tips := []int{}
		cas := []string{}
		views := []string{}
		locs := []string{}
		var wg sync.WaitGroup
		nthreads := len(conc)
		for i := range conc {
			wg.Add(1)
			go func(i int) {
				defer wg.Done()
				sc.register(i + 1)
				outs[i] = AddOutcome(s, m.Src[len(setup.Subs)+i])
				sc.fin <- i + 1
			}(i)
		}
		if nreads > 0 {
			nthreads++
			wg.Add(1)
			go func() {
				defer wg.Done()
				sc.register(0)
				for j := 0; j < nreads; j++ {
					if c15TipAPI {
						code, body := s.Do("GET", "/api/v1/chain/tip/longest", "", nil)
						var t struct {
							Header struct {
								Hash string `json:"hash"`
							} `json:"header"`
							State string `json:"state"`
						}
						switch {
						case code != 200 || json.Unmarshal([]byte(body), &t) != nil || t.Header.Hash == "":
							tips = append(tips, -2)
							locs = append(locs, fmt.Sprintf("E%d", code))
						case t.State != "LONGEST_CHAIN":
							tips = append(tips, m.ID(t.Header.Hash))
							locs = append(locs, "tip-labelled-"+t.State)
						default:
							tips = append(tips, m.ID(t.Header.Hash))
							locs = append(locs, "ok")
						}
						continue
					}
					if c15Loc {
						res, first := func() (r string, first int) {
							defer func() {
								if rec := recover(); rec != nil {
									r, first = "PANIC", -3
								}
							}()
							l := s.Services.Headers.LatestHeaderLocator()
							if len(l) == 0 {
								return "empty", -2
							}
							for _, hp := range l {
								if hp == nil || m.ID(hp.String()) < 0 {
									return "unknown-hash", m.ID(l[0].String())
								}
							}
							return "ok", m.ID(l[0].String())
						}()
						tips = append(tips, first)
						locs = append(locs, res)
						continue
					}
					t := s.Services.Headers.GetTip()
					if t == nil {
						tips = append(tips, -2)
					} else {
						tips = append(tips, m.ID(t.Hash.String()))
					}
					// the reader's view of the chain at this moment: every row a by-height range query returns as
					// LONGEST_CHAIN (one SQL statement = one snapshot).  "Every tip a reader observes is a longest-chain
					// header of a structurally VALID chain": the view must have exactly one header per height, linked.
					if rows, err := s.Repo.Headers.GetHeaderByHeightRange(0, 1000000); err == nil {
						var vs []string
						for _, r := range rows {
							if r.State == domains.LongestChain {
								vs = append(vs, fmt.Sprintf("%d.%d.%d", r.Height, m.ID(r.Hash.String()), m.ID(r.PreviousBlock.String())))
							}
						}
						views = append(views, strings.Join(vs, ","))
					} else {
						views = append(views, "E")
					}
					if len(caIDs) > 0 {
						// a common-ancestor request for headers of the SETUP (stored before the race, connected):
						// its answer follows parent links only, so it is the same before, during and after any
						// reorganisation the concurrent submissions cause
						hs := make([]string, len(caIDs))
						for x, id := range caIDs {
							hv := m.Hash[id]
							hs[x] = hv.String()
						}
						a, err := s.Services.Headers.GetCommonAncestor(hs)
						switch {
						case err != nil:
							cas = append(cas, "E")
						case a == nil:
							cas = append(cas, "nil")
						default:
							cas = append(cas, strconv.Itoa(m.ID(a.Hash.String())))
						}
					}
				}
				sc.fin <- 0
			}()
		}
		trace := sc.run(nthreads, prefs)
		wg.Wait()
		sc.mu.Lock()
		sc.enabled = false
		sc.mu.Unlock()
		rows, err := s.DumpHeaders()
		if err != nil {
			return err
		}
		// ADD events per concurrently submitted header (deliveries run in their own goroutines: wait briefly)
		stored := 0
		for _, o := range outs {
			if strings.HasPrefix(o, "S") {
				stored++
			}
		}
		for w := 0; w < 50 && evc.total() < stored; w++ {
			time.Sleep(time.Millisecond)
		}
		time.Sleep(time.Millisecond)
		evs := []string{}
		seenID := map[int]bool{}
		for _, cs := range conc {
			if seenID[cs.ID] {
				continue
			}
			seenID[cs.ID] = true
			hv := m.Hash[cs.ID]
			evs = append(evs, fmt.Sprintf("%d=%d", cs.ID, evc.get(hv.String())))
		}
		h := &History{Forbidden: setup.Forbidden, Subs: setup.Subs}
		for i, cs := range conc {
			h.X = append(h.X, fmt.Sprintf("t%d:%s", i+1, cs.String()))
		}
		ps := make([]string, len(prefs))
		for i, p := range prefs {
			ps[i] = strconv.Itoa(p)
		}
		h.X = append(h.X, fmt.Sprintf("readers:%d", nreads), "prefs:"+strings.Join(ps, "."), "trace:"+strings.Join(trace, "."))
		if len(views) > 0 {
			// realised observations of the reader (part of the case like the trace; judged by the oracle only)
			h.X = append(h.X, "views:"+strings.Join(views, "/"))
		}
		if c15Loc {
			// realised results of the reader's locator builds (judged by the oracle: each must be "ok")
			h.X = append(h.X, "locs:"+strings.Join(locs, "/"))
		}
		if c15TipAPI {
			h.X = append(h.X, "apitips:"+strings.Join(locs, "/"))
		}
		if len(caIDs) > 0 {
			cs := make([]string, len(caIDs))
			for i, id := range caIDs {
				cs[i] = strconv.Itoa(id)
			}
			h.X = append(h.X, "ca:"+strings.Join(cs, "."))
		}
		ts := make([]string, len(tips))
		for i, t := range tips {
			ts[i] = strconv.Itoa(t)
		}
		c.Case(h.Line(), strings.Join(outs, ",")+"|"+strings.Join(ts, ",")+"|"+RowsString(rows, m)+"|"+strings.Join(evs, ",")+"|"+strings.Join(cas, ","))
		if len(caIDs) > 0 {
			c.Count("reader:common-ancestor")
		}
		c.Count("gen:" + tag)
		c.Count(fmt.Sprintf("submitters:%d", len(conc)))
		inter := false
		lastW := -1
		for _, op := range trace {
			if strings.HasSuffix(op, "W") {
				lastW = int(op[0] - '0')
			} else if lastW >= 0 && int(op[0]-'0') != lastW && int(op[0]-'0') != 0 {
				inter = true
			}
		}
		if inter {
			c.Count("trace:another-submitter-ran-between-writes-and-reads")
		}
		return nil
	}
	parseConc := func(h *History) ([]Sub, int, []int, []int, error) {
		var conc []Sub
		nreads := 0
		var prefs, caIDs []int
		for _, x := range h.X {
			switch {
			case strings.HasPrefix(x, "t") && strings.Contains(x, ":") && !strings.HasPrefix(x, "trace:"):
				p := strings.SplitN(x, ":", 2)
				hh, err := ParseHistory(p[1])
				if err != nil || len(hh.Subs) != 1 {
					return nil, 0, nil, nil, fmt.Errorf("bad concurrent sub %q", x)
				}
				conc = append(conc, hh.Subs[0])
			case strings.HasPrefix(x, "readers:"):
				fmt.Sscanf(x, "readers:%d", &nreads)
			case strings.HasPrefix(x, "prefs:"):
				for _, t := range strings.Split(x[6:], ".") {
					if v, err := strconv.Atoi(t); err == nil {
						prefs = append(prefs, v)
					}
				}
			case strings.HasPrefix(x, "locs:"):
				c15Loc = true
			case strings.HasPrefix(x, "apitips:"):
				c15TipAPI = true
			case strings.HasPrefix(x, "ca:"):
				for _, t := range strings.Split(x[3:], ".") {
					if v, err := strconv.Atoi(t); err == nil {
						caIDs = append(caIDs, v)
					}
				}
			}
		}
		return conc, nreads, prefs, caIDs, nil
	}
	if c.Only != "" {
		h, err := ParseHistory(c.Only)
		if err != nil {
			return err
		}
		for _, x := range h.X {
			if x == "exp" {
				// scenarios through two real experimental peers (c15_exp.go)
				return runC15Exp(c)
			}
			if x == "free" {
				// a replay of a free-running case runs a new race on a history of the same length
				if len(h.Subs) > 0 && h.Subs[len(h.Subs)-1].ID >= 20000 || len(h.Subs) > 1 && h.Subs[len(h.Subs)-2].ID >= 20000 {
					return runC15FreeW(c, 3, 24)
				}
				return runC15Free(c, 3, len(h.Subs)*7/8)
			}
		}
		conc, nreads, prefs, caIDs, err := parseConc(h)
		if err != nil {
			return err
		}
		return do(&History{Forbidden: h.Forbidden, Subs: h.Subs}, conc, nreads, prefs, caIDs, "only")
	}
	for _, l := range corpusLines(c, "C15") {
		h, err := ParseHistory(l)
		if err != nil {
			return err
		}
		conc, nreads, prefs, caIDs, err := parseConc(h)
		if err != nil {
			return err
		}
		if err := do(&History{Forbidden: h.Forbidden, Subs: h.Subs}, conc, nreads, prefs, caIDs, "corpus"); err != nil {
			return err
		}
	}
	// systematic: small setups x 2 concurrent submitters x all short preference patterns
	mk := func(id, prev int, bits uint32) Sub {
		return Sub{ID: id, Prev: prev, Bits: bits, Ver: 1, Merkle: id + 100, TS: uint32(1600000000 + id), Nonce: uint32(id)}
	}
	setups := []*History{
		{},
		{Subs: []Sub{mk(2, 1, bitsW2)}},
		{Subs: []Sub{mk(2, 1, bitsW2), mk(3, 1, bitsW2)}},
		{Subs: []Sub{mk(2, 1, bitsW2), mk(3, 2, bitsW2), mk(4, 1, bitsW2)}},
	}
	pats := [][]int{{1}, {2}, {1, 2}, {2, 1}, {1, 1, 2}, {1, 2, 2}, {1, 1, 2, 2}, {2, 2, 1}, {1, 1, 1, 2}, {1, 2, 1, 1, 2}, {0, 1, 2}, {1, 0, 2, 0}}
	for _, st := range setups {
		parents := []int{genesisID}
		for _, sb := range st.Subs {
			parents = append(parents, sb.ID)
		}
		for _, pa := range parents {
			for _, pb := range parents {
				for _, wb := range []uint32{bitsW2, bitsW4} {
					for pi, pat := range pats {
						if !c.Thorough() && (pi+pa+pb)%3 != int(c.Seed%3+3)%3 {
							continue
						}
						conc := []Sub{mk(10, pa, bitsW2), mk(11, pb, wb)}
						if err := do(st, conc, 3, pat, nil, "systematic"); err != nil {
							return err
						}
						if pa == pb && wb == bitsW2 {
							// the SAME header submitted by two peers at once: stored once, answered duplicate once, one event
							same := []Sub{mk(10, pa, bitsW2), mk(10, pa, bitsW2)}
							if err := do(st, same, 2, pat, nil, "same-header"); err != nil {
								return err
							}
						}
					}
				}
			}
		}
	}
	// a reorganisation placed between the repository reads of ONE common-ancestor request: the reader gets k storage
	// operations, then the submitter runs to completion (the new header switches the longest chain to the other
	// branch), then the reader continues
	{
		st := &History{Subs: []Sub{mk(2, 1, bitsW2), mk(3, 2, bitsW2), mk(4, 1, bitsW2), mk(5, 3, bitsW2)}}
		for _, ca := range [][]int{{3}, {5}, {3, 5}, {5, 3}, {2}} {
			for k := 1; k <= 6; k++ {
				pat := []int{}
				for j := 0; j < k; j++ {
					pat = append(pat, 0)
				}
				for j := 0; j < 10; j++ {
					pat = append(pat, 1)
				}
				pat = append(pat, 0, 0, 0, 0, 0, 0, 0, 0)
				// header 11 on the 4-branch with work 8: 2+8 > 6 -> the 2-3-5 branch becomes stale
				if err := do(st, []Sub{mk(11, 4, bitsW8)}, 2, pat, ca, "ca-race"); err != nil {
					return err
				}
			}
		}
	}
	// a reorganisation placed between the repository reads of ONE locator build: the reader reads the tip, the
	// submitter gets j operations (for every j: before the demotion, between demotion and promotion, between
	// promotion and insert, after), then the reader finishes its locator, then everybody runs on
	{
		st := &History{Subs: []Sub{mk(2, 1, bitsW2), mk(3, 2, bitsW2), mk(4, 1, bitsW2), mk(5, 3, bitsW2), mk(6, 5, bitsW2)}}
		c15Loc = true
		for k := 1; k <= 3; k++ {
			for j := 0; j <= 12; j++ {
				pat := []int{}
				for x := 0; x < k; x++ {
					pat = append(pat, 0)
				}
				for x := 0; x < j; x++ {
					pat = append(pat, 1)
				}
				pat = append(pat, 0, 0, 0, 0, 0, 0, 0, 0, 1, 1, 1, 1, 1, 1, 1, 1, 1, 1, 1, 1)
				// header 11 on the 4-branch with work 8 (2+8 > 8): the 2-3-5-6 branch becomes stale, the tip drops from height 4 to 2
				if err := do(st, []Sub{mk(11, 4, bitsW8)}, 2, pat, nil, "locator-race"); err != nil {
					c15Loc = false
					return err
				}
			}
		}
		c15Loc = false
		// the same placements with the reader asking the API for the tip of the longest chain
		c15TipAPI = true
		for k := 1; k <= 2; k++ {
			for j := 0; j <= 12; j++ {
				pat := []int{}
				for x := 0; x < k; x++ {
					pat = append(pat, 0)
				}
				for x := 0; x < j; x++ {
					pat = append(pat, 1)
				}
				pat = append(pat, 0, 0, 0, 0, 0, 0, 0, 0, 1, 1, 1, 1, 1, 1, 1, 1, 1, 1, 1, 1)
				if err := do(st, []Sub{mk(11, 4, bitsW8)}, 2, pat, nil, "api-tip-race"); err != nil {
					c15TipAPI = false
					return err
				}
			}
		}
		c15TipAPI = false
	}
	// random: 2-3 submitters on random stores, random preference lists
	for i, n := 0, c.Pick(150, 2500); i < n; i++ {
		st := GenHistory(c.Rng, GenOpts{N: c.Rng.Intn(7), PUnknown: 0.05, Positive: true, Deep: true})
		ids := []int{genesisID}
		for _, sb := range st.Subs {
			ids = append(ids, sb.ID)
		}
		k := 2 + c.Rng.Intn(2)
		conc := []Sub{}
		for j := 0; j < k; j++ {
			bits := bitsW2
			if c.Rng.Intn(3) == 0 {
				bits = bitsW4
			}
			conc = append(conc, mk(100+j, ids[c.Rng.Intn(len(ids))], bits))
		}
		if c.Rng.Intn(5) == 0 {
			conc[len(conc)-1] = conc[0] // the same header from two submitters
		}
		prefs := make([]int, 2+c.Rng.Intn(10))
		for j := range prefs {
			prefs[j] = c.Rng.Intn(k + 1)
		}
		// every other scenario: the reader also asks for the common ancestor of 1-2 connected setup headers
		var caPick []int
		if i%2 == 0 {
			conn := map[int]bool{genesisID: true}
			var cids []int
			for _, sb := range st.Subs {
				if conn[sb.Prev] && !conn[sb.ID] {
					conn[sb.ID] = true
					cids = append(cids, sb.ID)
				}
			}
			if len(cids) > 0 {
				caPick = append(caPick, cids[c.Rng.Intn(len(cids))])
				if c.Rng.Intn(2) == 0 {
					caPick = append(caPick, cids[c.Rng.Intn(len(cids))])
				}
				if len(prefs) < 6 {
					prefs = append(prefs, 0, c.Rng.Intn(k+1), 0, c.Rng.Intn(k+1))
				}
			}
		}
		if err := do(st, conc, c.Rng.Intn(5), prefs, caPick, "random"); err != nil {
			return err
		}
	}
	// the same kind of scenario delivered through two real EXPERIMENTAL peer objects (whatever NewPeer does to obtain
	// its chain service is part of what runs), see c15_exp.go
	if err := runC15Exp(c); err != nil {
		return err
	}
	// free-running readers (linearizability against the model), authentication on, see c15_free.go
	if err := runC15Free(c, c.Pick(2, 10), c.Pick(140, 400)); err != nil {
		return err
	}
	return runC15FreeW(c, c.Pick(2, 8), c.Pick(36, 60))
}
