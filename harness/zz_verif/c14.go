//go:build verif

package main

// C14 - wire codec: decode(encode(m)) = m; hostile bytes are rejected without harm.
//
// Case inputs (one line; the OCaml driver runs the extracted model on exactly the same line):
//   L <pver> <ebs> <cmd>            obs: <MaxPayloadLength(pver) of the command's type> <maxMessagePayload()>
//   P <pver> <ebs> <msg>            payload level: BsvEncode, then Bsvdecode of those bytes on a fresh message
//                                   obs: <bytes|E:class>|<msg' rem=<n>|E:class|->
//   F <pver> <ebs> <net> <msg>      framed: WriteMessageWithEncodingN, then ReadMessageWithEncodingN
//                                   obs: <frame|E:class>|<msg' pos=<n>|E:class|->
//   D <pver> <ebs> <cmd> <hex>      hostile payload: Bsvdecode of arbitrary bytes on makeEmptyMessage(cmd)
//                                   obs: OK <msg> rem=<n> re=<same|bytes|E:class> big=<b> | E:class big=<b> | OPAQUE big=<b>
//   S <pver> <ebs> <net> <hex>;<hex>;..  several frames on ONE reader (the chunks are concatenated), ReadMessage
//                                   called until the reader is empty; obs: <verdict>@<reader position>;... with
//                                   verdict = OK <msg> | OK opaque:<cmd> | E:class
//   R <pver> <ebs> <net> <hex>      hostile stream: ReadMessageWithEncodingN on arbitrary bytes
//                                   obs: OK <msg> pos=<n> re=<same|bytes|E:class> big=<b> | E:class pos=<n> big=<b>
// ebs = the excessive block size given to wire.SetLimits (cmd/main.go uses config.ExcessiveBlockSize).
// bytes are printed as x<hex> up to 1 KiB, above as m<len>:<md5> (the driver applies the same rule).
// big = the decode allocated more than 32 MiB + 4 x the declared payload limit of the message type.
// Every call into the implementation runs under recover and a deadline: PANIC / HANG are observables.

import (
	"bytes"
	"crypto/md5"
	"encoding/binary"
	"encoding/hex"
	"errors"
	"fmt"
	"io"
	"os"
	"path/filepath"
	"runtime/metrics"
	"sort"
	"strconv"
	"strings"
	"sync"
	"time"

	"github.com/bitcoin-sv/block-headers-service/config"
	"github.com/bitcoin-sv/block-headers-service/internal/chaincfg/chainhash"
	"github.com/bitcoin-sv/block-headers-service/internal/wire"
)

func init() { register("C14", runC14) }

const (
	c14BigBase  = 32 << 20 // T
	c14BandHalf = 2 << 20  // measurements this close to the threshold are not emitted (resolution guard)
	c14Deadline = 20 * time.Second
)

func c14ErrClass(err error) string {
	if err == io.EOF {
		return "E:eof"
	}
	if err == io.ErrUnexpectedEOF {
		return "E:ueof"
	}
	var me *wire.MessageError
	if errors.As(err, &me) {
		d := me.Description
		switch {
		case me.Func == "ReadVarInt":
			return "E:noncanon"
		case me.Func == "ReadVarString":
			return "E:strtoolong"
		case me.Func == "ReadVarBytes":
			return "E:bytestoolong"
		case me.Func == "MsgVersion":
			return "E:ualong"
		case strings.Contains(d, "size too large for message"):
			return "E:toolarge"
		case strings.HasPrefix(d, "too many"):
			return "E:toomany"
		case strings.HasPrefix(d, "block headers may not contain"):
			return "E:hastx"
		case strings.Contains(d, "invalid for protocol version"):
			return "E:pverlow"
		case me.Func == "ReadMessage" || me.Func == "WriteMessage":
			switch {
			case strings.Contains(d, "for messages of type"), strings.HasPrefix(d, "payload exceeds max length"):
				return "E:typemax"
			case strings.HasPrefix(d, "message payload is too large"):
				return "E:oversize"
			case strings.HasPrefix(d, "message from other network"):
				return "E:wrongnet"
			case strings.HasPrefix(d, "invalid command"):
				return "E:badcmd"
			case strings.HasPrefix(d, "unhandled command"):
				return "E:unknowncmd"
			case strings.HasPrefix(d, "payload checksum failed"):
				return "E:checksum"
			}
		}
		return "E:other-" + strings.ReplaceAll(me.Func, " ", "_")
	}
	return "E:other"
}

// classes produced by ReadMessage itself (never by a payload decoder)
var c14FrameLevel = map[string]bool{"E:oversize": true, "E:wrongnet": true, "E:badcmd": true, "E:unknowncmd": true,
	"E:typemax": true, "E:checksum": true}

func c14Bytes(b []byte) string {
	if len(b) <= 1024 {
		return "x" + hex.EncodeToString(b)
	}
	return fmt.Sprintf("m%d:%x", len(b), md5.Sum(b))
}

var c14Sample = []metrics.Sample{{Name: "/gc/heap/allocs:bytes"}}

func c14HeapAllocs() uint64 {
	metrics.Read(c14Sample)
	return c14Sample[0].Value.Uint64()
}

// c14Guard runs f under recover and a deadline; returns the bytes allocated meanwhile.
func c14Guard(f func()) (delta uint64, status string) {
	done := make(chan string, 1)
	before := c14HeapAllocs()
	go func() {
		defer func() {
			if r := recover(); r != nil {
				done <- "PANIC"
				return
			}
			done <- ""
		}()
		f()
	}()
	t := time.NewTimer(c14Deadline)
	defer t.Stop()
	select {
	case s := <-done:
		return c14HeapAllocs() - before, s
	case <-t.C:
		return c14HeapAllocs() - before, "HANG"
	}
}

type c14run struct {
	c       *Ctx
	dropped int
}

// bigFlag: ok=false when the measurement is too close to the threshold to be classified
func c14Big(delta uint64, limit uint64) (flag string, ok bool) {
	thr := uint64(c14BigBase) + 4*limit
	if delta+c14BandHalf > thr && delta < thr+c14BandHalf {
		return "", false
	}
	if delta > thr {
		return "1", true
	}
	return "0", true
}

func (r *c14run) emit(input, obs, class string) {
	r.c.Case(input, obs)
	r.c.Count(class)
	if input[0] == 'D' || input[0] == 'R' {
		// a hostile case may kill the process (fatal out-of-memory cannot be recovered):
		// keep cases.txt and impl.txt in step, whole lines only
		r.c.cases.Flush()
		r.c.impl.Flush()
	}
}

// inflight records the hostile input being executed, for the post-mortem of a fatal crash
func (r *c14run) inflight(input string) {
	if len(input) > 4096 {
		input = input[:4096]
	}
	_ = os.WriteFile(filepath.Join(r.c.Out, "c14_inflight.txt"), []byte(input+"\n"), 0o644)
}

func c14Atou32(s string) (uint32, error) {
	v, err := strconv.ParseUint(s, 10, 32)
	return uint32(v), err
}

// The <ebs> field of a case is one excessive block size or a sequence a,b,...: the limits are configured the way
// a process does it - starting from the package's initial state (re-established by two SetLimits calls with the
// package default 3200000000, after which every limit-related variable has its initial value) SetLimits is called
// once per element.  A single value is therefore the service's own configuration: fresh process, one call.
// The limit that must be in force afterwards is the declared function of the LAST value only.
const c14DefaultEBS = 3200000000

func c14ParseLimits(s string) ([]uint32, error) {
	var seq []uint32
	for _, p := range strings.Split(s, ",") {
		v, err := c14Atou32(p)
		if err != nil {
			return nil, err
		}
		seq = append(seq, v)
	}
	return seq, nil
}

func c14Configure(seq []uint32) uint32 {
	wire.SetLimits(c14DefaultEBS)
	wire.SetLimits(c14DefaultEBS)
	for _, e := range seq {
		wire.SetLimits(e)
	}
	return seq[len(seq)-1]
}

// c14DeclaredLimit: maxMessagePayload as declared for an excessive block size (uint32 arithmetic of the source)
func c14DeclaredLimit(e uint32) uint32 { return ((e / 1000000) * 1024 * 1024) * 2 }

// c14CapLimit: no type's declared payload limit exceeds the declared overall limit of the configuration
func c14CapLimit(limit uint64, e uint32) uint64 {
	if d := uint64(c14DeclaredLimit(e)); limit > d && limit > 10240 {
		if d < 10240 {
			return 10240
		}
		return d
	}
	return limit
}

// runCase executes one case input line against the implementation.
func (r *c14run) runCase(input, class string) error {
	f := strings.Split(input, " ")
	bad := fmt.Errorf("malformed C14 case %q", input)
	if len(f) < 4 {
		return bad
	}
	pver, e1 := c14Atou32(f[1])
	seq, e2 := c14ParseLimits(f[2])
	if e1 != nil || e2 != nil {
		return bad
	}
	ebs := c14Configure(seq)
	enc := wire.BaseEncoding
	switch f[0] {
	case "L":
		// the MaxPayloadLength table and maxMessagePayload()
		if len(f) != 4 {
			return bad
		}
		m0, err := wire.VerifMakeEmptyMessage(f[3])
		if err != nil {
			return bad
		}
		var obs string
		_, st := c14Guard(func() { obs = fmt.Sprintf("%d %d", m0.MaxPayloadLength(pver), wire.VerifMaxMessagePayload()) })
		if st != "" {
			obs = st
		}
		r.emit(input, obs, class)
	case "P":
		if len(f) != 4 {
			return bad
		}
		msg, err := c14Parse(f[3])
		if err != nil {
			return err
		}
		var obs string
		_, st := c14Guard(func() {
			var buf bytes.Buffer
			if err := msg.BsvEncode(&buf, pver, enc); err != nil {
				obs = c14ErrClass(err) + "|-"
				return
			}
			payload := buf.Bytes()
			m2, err := wire.VerifMakeEmptyMessage(msg.Command())
			if err != nil {
				obs = c14Bytes(payload) + "|E:nomsg"
				return
			}
			rb := bytes.NewBuffer(append([]byte(nil), payload...))
			if err := m2.Bsvdecode(rb, pver, enc); err != nil {
				obs = c14Bytes(payload) + "|" + c14ErrClass(err)
				return
			}
			obs = fmt.Sprintf("%s|%s rem=%d", c14Bytes(payload), c14Summarize(m2), rb.Len())
		})
		if st != "" {
			obs = st
		}
		r.emit(input, obs, class)
	case "F":
		if len(f) != 5 {
			return bad
		}
		net, e3 := c14Atou32(f[3])
		if e3 != nil {
			return bad
		}
		msg, err := c14Parse(f[4])
		if err != nil {
			return err
		}
		var obs string
		_, st := c14Guard(func() {
			var buf bytes.Buffer
			if _, err := wire.WriteMessageWithEncodingN(&buf, msg, pver, wire.BitcoinNet(net), enc); err != nil {
				obs = c14ErrClass(err) + "|-"
				return
			}
			frame := buf.Bytes()
			rd := bytes.NewReader(frame)
			_, m2, _, err := wire.ReadMessageWithEncodingN(rd, pver, wire.BitcoinNet(net), enc)
			if err != nil {
				obs = c14Bytes(frame) + "|" + c14ErrClass(err)
				return
			}
			obs = fmt.Sprintf("%s|%s pos=%d", c14Bytes(frame), c14Summarize(m2), len(frame)-rd.Len())
		})
		if st != "" {
			obs = st
		}
		r.emit(input, obs, class)
	case "C":
		// one framed round trip repeated by several goroutines at once (the codec keeps process-wide state: the
		// binary free list); used by --only replays of a concurrent case, see concurrent()
		if len(f) != 5 {
			return bad
		}
		net, e3 := c14Atou32(f[3])
		if e3 != nil {
			return bad
		}
		msg, err := c14Parse(f[4])
		if err != nil {
			return err
		}
		want := c14FrameTrip(msg, pver, net)
		obs := want
		var mu sync.Mutex
		var wg sync.WaitGroup
		for gi := 0; gi < 16; gi++ {
			wg.Add(1)
			go func() {
				defer wg.Done()
				for it := 0; it < 4000; it++ {
					if o := c14FrameTrip(msg, pver, net); o != want {
						mu.Lock()
						obs = o
						mu.Unlock()
						return
					}
				}
			}()
		}
		wg.Wait()
		r.emit(input, obs, class)
	case "D":
		if len(f) != 5 {
			return bad
		}
		cmd := f[3]
		payload, err := hex.DecodeString(f[4])
		if err != nil {
			return bad
		}
		m0, err := wire.VerifMakeEmptyMessage(cmd)
		if err != nil {
			return fmt.Errorf("D case with a command outside the table: %q", cmd)
		}
		r.inflight(input)
		limit := uint64(m0.MaxPayloadLength(pver))
		if cmd == "reject" || cmd == "cfcheckpt" {
			limit = c14CapLimit(limit, ebs) // their type limit IS the overall limit: use the declared one
		}
		var obs string
		delta, st := c14Guard(func() {
			rb := bytes.NewBuffer(append([]byte(nil), payload...))
			err := m0.Bsvdecode(rb, pver, enc)
			if c14Opaque[cmd] {
				obs = "OPAQUE"
				return
			}
			if err != nil {
				obs = c14ErrClass(err)
				return
			}
			used := payload[:len(payload)-rb.Len()]
			obs = fmt.Sprintf("OK %s rem=%d", c14Summarize(m0), rb.Len())
			var wb bytes.Buffer
			if err := m0.BsvEncode(&wb, pver, enc); err != nil {
				obs += " re=" + c14ErrClass(err)
			} else if bytes.Equal(wb.Bytes(), used) {
				obs += " re=same"
			} else {
				obs += " re=" + c14Bytes(wb.Bytes())
			}
		})
		if st != "" {
			obs = st
		}
		big, ok := c14Big(delta, limit)
		if !ok {
			r.dropped++
			return nil
		}
		r.emit(input, obs+" big="+big, class)
	case "R":
		if len(f) != 5 {
			return bad
		}
		net, e3 := c14Atou32(f[3])
		stream, err := hex.DecodeString(f[4])
		if e3 != nil || err != nil {
			return bad
		}
		r.inflight(input)
		// the declared limit of the frame's type (10 KiB discard chunk when no type is known)
		limit, hcmd, hlen := uint64(0), "", uint32(0)
		if len(stream) >= 24 {
			limit = 10240
			hcmd = string(bytes.TrimRight(stream[4:16], "\x00"))
			hlen = binary.LittleEndian.Uint32(stream[16:20])
			if m0, err := wire.VerifMakeEmptyMessage(hcmd); err == nil {
				if l := uint64(m0.MaxPayloadLength(pver)); l > limit {
					limit = l
				}
				if hcmd == "reject" || hcmd == "cfcheckpt" {
					limit = c14CapLimit(limit, ebs)
				}
			}
		}
		var obs string
		delta, st := c14Guard(func() {
			rd := bytes.NewReader(stream)
			n, m2, _, err := wire.ReadMessageWithEncodingN(rd, pver, wire.BitcoinNet(net), enc)
			pos := len(stream) - rd.Len()
			if c14Opaque[hcmd] && (err == nil || (n == 24+int(hlen) && !c14FrameLevel[c14ErrClass(err)])) {
				obs = fmt.Sprintf("OK opaque:%s pos=%d", hcmd, pos)
				return
			}
			if err != nil {
				obs = fmt.Sprintf("%s pos=%d", c14ErrClass(err), pos)
				return
			}
			obs = fmt.Sprintf("OK %s pos=%d", c14Summarize(m2), pos)
			var wb bytes.Buffer
			if _, err := wire.WriteMessageWithEncodingN(&wb, m2, pver, wire.BitcoinNet(net), enc); err != nil {
				obs += " re=" + c14ErrClass(err)
			} else if bytes.Equal(wb.Bytes(), stream[:pos]) {
				obs += " re=same"
			} else {
				obs += " re=" + c14Bytes(wb.Bytes())
			}
		})
		if st != "" {
			obs = st
		}
		big, ok := c14Big(delta, limit)
		if !ok {
			r.dropped++
			return nil
		}
		r.emit(input, obs+" big="+big, class)
	case "S":
		// several frames on ONE reader: ReadMessage is called until the reader is empty (at most 16 calls)
		if len(f) != 5 {
			return bad
		}
		net, e3 := c14Atou32(f[3])
		stream, err := hex.DecodeString(strings.ReplaceAll(f[4], ";", ""))
		if e3 != nil || err != nil {
			return bad
		}
		r.inflight(input)
		var res []string
		_, st := c14Guard(func() {
			rd := bytes.NewReader(stream)
			for calls := 0; calls < 16 && rd.Len() > 0; calls++ {
				v := c14ReadOne(rd, stream[len(stream)-rd.Len():], pver, net)
				res = append(res, fmt.Sprintf("%s@%d", v, len(stream)-rd.Len()))
			}
		})
		obs := strings.Join(res, ";")
		if st != "" {
			obs = st
		}
		r.emit(input, obs, class)
	case "T":
		// T <pver> <ebs> <net> <k> <part>;<part>;..   the stream of an S case (a part is hex or @<kind>:<n> = a
		// mainnet frame of that list kind with n elements, built deterministically) is decoded twice by repeated
		// ReadMessage: from an in-memory reader and through a reader that hands out at most k bytes per Read call
		// (as a TCP connection does).  obs: "same", or the first call whose verdict / reader position differs.
		if len(f) != 6 {
			return bad
		}
		net, e3 := c14Atou32(f[3])
		k, e4 := strconv.Atoi(f[4])
		if e3 != nil || e4 != nil || k < 1 {
			return bad
		}
		var stream []byte
		for _, part := range strings.Split(f[5], ";") {
			if strings.HasPrefix(part, "@") {
				fr, err := c14BigFrame(part[1:], net)
				if err != nil {
					return bad
				}
				stream = append(stream, fr...)
				continue
			}
			b, err := hex.DecodeString(part)
			if err != nil {
				return bad
			}
			stream = append(stream, b...)
		}
		r.inflight(input)
		decode := func(chunk int) (res []string) {
			rd := bytes.NewReader(stream)
			var src io.Reader = rd
			if chunk > 0 {
				src = &c14ChunkReader{r: rd, k: chunk}
			}
			for calls := 0; calls < 16 && rd.Len() > 0; calls++ {
				v := c14ReadOne(src, stream[len(stream)-rd.Len():], pver, net)
				if len(v) > 160 {
					v = fmt.Sprintf("%s..(%d chars, md5 %x)", v[:60], len(v), md5.Sum([]byte(v)))
				}
				res = append(res, fmt.Sprintf("%s@%d", v, len(stream)-rd.Len()))
			}
			return res
		}
		obs := "same"
		_, st := c14Guard(func() {
			mem, chunked := decode(0), decode(k)
			for i := 0; i < len(mem) || i < len(chunked); i++ {
				a, b := "-", "-"
				if i < len(mem) {
					a = mem[i]
				}
				if i < len(chunked) {
					b = chunked[i]
				}
				if a != b {
					obs = fmt.Sprintf("differs call=%d memory=%s chunked=%s", i+1, strings.ReplaceAll(a, " ", "_"), strings.ReplaceAll(b, " ", "_"))
					return
				}
			}
		})
		if st != "" {
			obs = st
		}
		r.emit(input, obs, class)
	default:
		return bad
	}
	return nil
}

// c14ChunkReader hands out at most k bytes per Read call (short reads, as a network connection gives them)
type c14ChunkReader struct {
	r *bytes.Reader
	k int
}

func (c *c14ChunkReader) Read(p []byte) (int, error) {
	if len(p) > c.k {
		p = p[:c.k]
	}
	return c.r.Read(p)
}

// c14BigFrame builds the frame "<kind>:<n>": a valid frame of the list kind with n elements whose bytes are a
// fixed function of the element index (any bytes are a valid inventory vector / address; a header entry needs
// its trailing zero transaction count)
func c14BigFrame(spec string, net uint32) ([]byte, error) {
	i := strings.IndexByte(spec, ':')
	if i < 0 {
		return nil, fmt.Errorf("big frame %q", spec)
	}
	kind := spec[:i]
	n, err := strconv.Atoi(spec[i+1:])
	if err != nil || n < 0 || n > 60000 {
		return nil, fmt.Errorf("big frame %q", spec)
	}
	size := map[string]int{"inv": 36, "getdata": 36, "notfound": 36, "headers": 81, "addr": 30}[kind]
	if size == 0 {
		return nil, fmt.Errorf("big frame %q", spec)
	}
	p := c14Varint(uint64(n))
	for e := 0; e < n; e++ {
		for j := 0; j < size; j++ {
			b := byte(e*7 + j*13 + e>>8)
			if kind == "headers" && j == 80 {
				b = 0
			}
			p = append(p, b)
		}
	}
	return c14Frame(net, []byte(kind), p), nil
}

// c14ReadOne: one ReadMessage on rd, whose unread bytes are rest; the verdict without position:
// "OK <msg>" | "OK opaque:<cmd>" | "E:class"
func c14ReadOne(rd io.Reader, rest []byte, pver, net uint32) string {
	hcmd, hlen := "", uint32(0)
	if len(rest) >= 24 {
		hcmd = string(bytes.TrimRight(rest[4:16], "\x00"))
		hlen = binary.LittleEndian.Uint32(rest[16:20])
	}
	n, m2, _, err := wire.ReadMessageWithEncodingN(rd, pver, wire.BitcoinNet(net), wire.BaseEncoding)
	if c14Opaque[hcmd] && (err == nil || (n == 24+int(hlen) && !c14FrameLevel[c14ErrClass(err)])) {
		return "OK opaque:" + hcmd
	}
	if err != nil {
		return c14ErrClass(err)
	}
	return "OK " + c14Summarize(m2)
}

// c14FrameTrip: WriteMessage + ReadMessage of one message, the observable of an "F" case (no allocation guard,
// no limit change: safe to call from several goroutines)
func c14FrameTrip(msg wire.Message, pver, net uint32) (obs string) {
	defer func() {
		if rec := recover(); rec != nil {
			obs = "PANIC"
		}
	}()
	var buf bytes.Buffer
	if _, err := wire.WriteMessageWithEncodingN(&buf, msg, pver, wire.BitcoinNet(net), wire.BaseEncoding); err != nil {
		return c14ErrClass(err) + "|-"
	}
	frame := buf.Bytes()
	rd := bytes.NewReader(frame)
	_, m2, _, err := wire.ReadMessageWithEncodingN(rd, pver, wire.BitcoinNet(net), wire.BaseEncoding)
	if err != nil {
		return c14Bytes(frame) + "|" + c14ErrClass(err)
	}
	return fmt.Sprintf("%s|%s pos=%d", c14Bytes(frame), c14Summarize(m2), len(frame)-rd.Len())
}

// concurrent: the peers of a running service encode and decode at the same time, each on its own connection.
// 16 goroutines run framed round trips of their OWN messages simultaneously; every goroutine's observables must be
// what the same round trip gives alone (= what the model says).  Each message is reported as a "C" case with the
// observable seen in the concurrent run.
func (r *c14run) concurrent(g *c14gen, prod uint32) {
	type job struct {
		input    string
		msg      wire.Message
		pver, nt uint32
		obs      string
	}
	const workers = 16
	per := r.c.Pick(12, 60)
	rounds := r.c.Pick(1500, 6000)
	kinds := []string{"version", "headers", "getheaders", "inv", "addr", "ping", "pong", "reject", "feefilter", "verack"}
	jobs := make([][]*job, workers)
	c14Configure([]uint32{prod})
	for w := 0; w < workers; w++ {
		for i := 0; i < per; i++ {
			pver := g.pver()
			m := g.msg(kinds[(w+i)%len(kinds)], pver, false, false)
			nt := c14Nets[(w+i)%len(c14Nets)]
			in := fmt.Sprintf("C %d %d %d %s", pver, prod, nt, c14Summarize(m))
			// the message the case line denotes is the parsed one (as for F cases)
			pm, err := c14Parse(c14Summarize(m))
			if err != nil {
				continue
			}
			jobs[w] = append(jobs[w], &job{input: in, msg: pm, pver: pver, nt: nt})
		}
	}
	var wg sync.WaitGroup
	for w := 0; w < workers; w++ {
		wg.Add(1)
		go func(mine []*job) {
			defer wg.Done()
			for it := 0; it < rounds; it++ {
				j := mine[it%len(mine)]
				o := c14FrameTrip(j.msg, j.pver, j.nt)
				if j.obs == "" {
					j.obs = o
				} else if o != j.obs && !strings.HasPrefix(j.obs, "!") {
					j.obs = "!" + o // a repetition of the same round trip gave a different answer
				}
			}
		}(jobs[w])
	}
	wg.Wait()
	for w := 0; w < workers; w++ {
		for _, j := range jobs[w] {
			if j.obs == "" {
				continue
			}
			r.emit(j.input, strings.TrimPrefix(j.obs, "!"), "C:concurrent")
		}
	}
}

func c14Class(input string) string {
	f := strings.SplitN(input, " ", 5)
	switch f[0] {
	case "P", "F", "C":
		s := f[len(f)-1]
		if i := strings.IndexByte(s, ':'); i > 0 {
			return f[0] + ":" + s[:i]
		}
	case "D":
		return "D:" + f[3]
	case "L":
		return "L:" + f[3]
	}
	return f[0]
}

func runC14(c *Ctx) error {
	// internal/wire reports some discarded errors with fmt.Println
	if dn, err := os.OpenFile(os.DevNull, os.O_WRONLY, 0); err == nil {
		os.Stdout = dn
	}
	r := &c14run{c: c}
	defer func() {
		wire.SetLimits(config.ExcessiveBlockSize)
	}()
	if c.Only != "" {
		return r.runCase(c.Only, "only")
	}
	// 1. corpus
	dir := filepath.Join(os.Getenv("VERIF_DIR"), "corpus", "C14")
	if os.Getenv("VERIF_DIR") == "" {
		dir = "/verif/corpus/C14"
	}
	files, _ := filepath.Glob(filepath.Join(dir, "*.txt"))
	sort.Strings(files)
	for _, fn := range files {
		data, err := os.ReadFile(fn)
		if err != nil {
			return err
		}
		for _, line := range strings.Split(string(data), "\n") {
			line = strings.TrimSpace(line)
			if line == "" || strings.HasPrefix(line, "#") {
				continue
			}
			if err := r.runCase(line, "corpus"); err != nil {
				return fmt.Errorf("%s: %w", fn, err)
			}
		}
	}
	g := &c14gen{r: c.Rng, forceCount: -1}
	prod := uint32(config.ExcessiveBlockSize)
	ebsFor := func() uint32 {
		switch k := c.Rng.Intn(20); {
		case k < 15:
			return prod
		case k < 17:
			return 32000000
		case k < 18:
			return 3200000000 // the package default: the uint32 product wraps
		case k < 19:
			return 1000000
		}
		return 2000000
	}
	run := func(input string) error { return r.runCase(input, c14Class(input)) }

	// 1b. the per-type limit table: every command x every boundary protocol version x limits
	for _, cmd := range c14AllCmds {
		for _, pv := range c14Pvers {
			for _, e := range []uint32{prod, 3200000000, 32000000, 1000000, 999999, 0, 4294967295} {
				if err := run(fmt.Sprintf("L %d %d %s", pv, e, cmd)); err != nil {
					return err
				}
			}
		}
	}
	// 1c. the overall limit after SEQUENCES of SetLimits calls (a single value = fresh process + one call, the
	// service's own configuration): the limit in force must be the declared function of the last value only
	lvals := []uint32{c14DefaultEBS, prod, 32000000, 1000000, 0}
	var seqs []string
	for _, a := range lvals {
		for _, b := range lvals {
			seqs = append(seqs, fmt.Sprintf("%d,%d", a, b))
		}
	}
	seqs = append(seqs, fmt.Sprintf("%d,%d,%d", 32000000, prod, prod), fmt.Sprintf("%d,%d,%d", prod, 1000000, 32000000))
	for _, sq := range seqs {
		for _, cmd := range []string{"reject", "cfcheckpt", "version", "block", "ping"} {
			if err := run(fmt.Sprintf("L 70013 %s %s", sq, cmd)); err != nil {
				return err
			}
		}
	}
	// 1d. hostile headers and string counts after such sequences: announced sizes between the limit of the
	// previous configuration and the limit of the current one (both orders) - only the header / the count is
	// sent, never the announced bytes.  Above the current limit: refused on the header, nothing allocated.
	type cfg struct {
		seq  string
		prev uint32
		cur  uint32
	}
	cfgs := []cfg{{fmt.Sprint(prod), c14DefaultEBS, prod}, {fmt.Sprint(32000000), c14DefaultEBS, 32000000}}
	for _, a := range lvals {
		for _, b := range lvals {
			cfgs = append(cfgs, cfg{fmt.Sprintf("%d,%d", a, b), a, b})
		}
	}
	for _, cf := range cfgs {
		lp, lc := uint64(c14DeclaredLimit(cf.prev)), uint64(c14DeclaredLimit(cf.cur))
		lo, hi := lp, lc
		if lo > hi {
			lo, hi = hi, lo
		}
		sizes := []uint64{lc + 1, lc, lo + 1, (lo + hi) / 2, hi, hi + 1, 2 << 30, 0xffffffff}
		seen := map[uint64]bool{}
		for _, sz := range sizes {
			if sz > 0xffffffff || seen[sz] || (sz <= lc && sz > 20<<20) {
				continue // (an announced size within the current limit is legitimately allocated: keep those small)
			}
			seen[sz] = true
			for _, cmd := range []string{"reject", "cfcheckpt", "ping"} {
				fr := c14Frame(uint32(wire.MainNet), []byte(cmd), g.bytesN(g.r.Intn(6)))
				binary.LittleEndian.PutUint32(fr[16:20], uint32(sz))
				if err := run(fmt.Sprintf("R 70013 %s %d %s", cf.seq, uint32(wire.MainNet), hex.EncodeToString(fr))); err != nil {
					return err
				}
			}
			cnt := c14Varint(sz)
			p1 := append(append([]byte(nil), cnt...), g.bytesN(g.r.Intn(6))...)
			p2 := append(append([]byte{2, 't', 'x', 0x10}, cnt...), g.bytesN(g.r.Intn(6))...)
			for _, p := range [][]byte{p1, p2} {
				if err := run(fmt.Sprintf("D 70013 %s reject %s", cf.seq, hex.EncodeToString(p))); err != nil {
					return err
				}
				fr := c14Frame(uint32(wire.MainNet), []byte("reject"), p)
				if err := run(fmt.Sprintf("R 70013 %s %d %s", cf.seq, uint32(wire.MainNet), hex.EncodeToString(fr))); err != nil {
					return err
				}
			}
		}
	}
	// 2. payload-level round trips: every modelled kind x protocol versions x field values
	nP := c.Pick(700, 12000)
	for _, kind := range c14Modelled {
		for i := 0; i < nP; i++ {
			pver := g.pver()
			if i < len(c14Pvers) {
				pver = c14Pvers[i]
			}
			allowBad := i%5 == 4
			big := i%40 == 7
			m := g.msg(kind, pver, allowBad, big)
			if err := run(fmt.Sprintf("P %d %d %s", pver, ebsFor(), c14Summarize(m))); err != nil {
				return err
			}
		}
	}
	// 2b. every list kind with exactly limit-1, limit and limit+1 elements
	limits := map[string]int{"addr": wire.MaxAddrPerMsg, "getblocks": wire.MaxBlockLocatorsPerMsg, "getheaders": wire.MaxBlockLocatorsPerMsg,
		"headers": wire.MaxBlockHeadersPerMsg, "inv": wire.MaxInvPerMsg, "getdata": wire.MaxInvPerMsg, "notfound": wire.MaxInvPerMsg}
	for _, kind := range []string{"addr", "getblocks", "getheaders", "headers", "inv", "getdata", "notfound"} {
		for _, d := range []int{-1, 0, 1} {
			g.forceCount = limits[kind] + d
			m := g.msg(kind, 70013, false, false)
			g.forceCount = -1
			if err := run(fmt.Sprintf("P %d %d %s", 70013, prod, c14Summarize(m))); err != nil {
				return err
			}
			framed := kind == "addr" || kind == "getheaders" || kind == "getblocks" ||
				(c.Thorough() && (kind == "headers" || (kind == "inv" && d == 0)))
			if framed {
				if err := run(fmt.Sprintf("F %d %d %d %s", 70013, prod, uint32(wire.MainNet), c14Summarize(m))); err != nil {
					return err
				}
			}
		}
	}
	// 2c. the same at every version-gated boundary (the per-type limit and the element size of addr depend
	// on the protocol version): payload level for the small list kinds, framed for addr - a limit table that
	// is too small makes WriteMessage refuse / ReadMessage reject a well-formed message
	boundary := []uint32{wire.MultipleAddressVersion, wire.NetAddressTimeVersion - 1, wire.NetAddressTimeVersion,
		wire.NetAddressTimeVersion + 1, wire.BIP0031Version, wire.BIP0031Version + 1, wire.BIP0035Version,
		wire.BIP0037Version, wire.RejectVersion, wire.SendHeadersVersion}
	for _, pv := range boundary {
		for _, kind := range []string{"addr", "getblocks", "getheaders", "headers"} {
			for _, d := range []int{-1, 0, 1} {
				if kind == "headers" && d != 0 {
					continue
				}
				g.forceCount = limits[kind] + d
				m := g.msg(kind, pv, false, false)
				g.forceCount = -1
				if err := run(fmt.Sprintf("P %d %d %s", pv, prod, c14Summarize(m))); err != nil {
					return err
				}
			}
		}
		// addr: 1000 addresses, and the counts around (1000*26+9)/30 that only fit when the limit counts the timestamp
		counts := []int{wire.MaxAddrPerMsg}
		if pv == wire.NetAddressTimeVersion || c.Thorough() {
			counts = append(counts, 866, 867)
		}
		for _, n := range counts {
			g.forceCount = n
			m := g.msg("addr", pv, false, false)
			g.forceCount = -1
			if err := run(fmt.Sprintf("F %d %d %d %s", pv, prod, uint32(wire.MainNet), c14Summarize(m))); err != nil {
				return err
			}
		}
	}
	// 3. framed round trips (the model hashes: keep most payloads small)
	nF := c.Pick(100, 1200)
	for _, kind := range c14Modelled {
		for i := 0; i < nF; i++ {
			pver := g.pver()
			if i < len(c14Pvers) && i%2 == 0 {
				pver = c14Pvers[i]
			}
			m := g.msg(kind, pver, i%6 == 5, c.Thorough() && i%100 == 50)
			net := c14Nets[c.Rng.Intn(len(c14Nets))]
			if c.Rng.Intn(10) == 0 {
				net = c.Rng.Uint32()
			}
			if err := run(fmt.Sprintf("F %d %d %d %s", pver, ebsFor(), net, c14Summarize(m))); err != nil {
				return err
			}
		}
	}
	// 3b. the same round trips from 16 goroutines at once
	r.concurrent(g, prod)
	// 4. hostile payloads and streams
	if err := r.hostile(g, run); err != nil {
		return err
	}
	// 5. multi-frame streams on one reader
	if err := r.streams(g, run); err != nil {
		return err
	}
	_ = os.Remove(filepath.Join(c.Out, "c14_inflight.txt"))
	c.Meta("alloc_measurements_too_close_to_threshold_not_emitted", strconv.Itoa(r.dropped))
	c.Meta("alloc_threshold", "32 MiB + 4 x MaxPayloadLength(type, pver); measured with runtime/metrics /gc/heap/allocs:bytes around each decode")
	return nil
}

var _ = chainhash.HashSize
