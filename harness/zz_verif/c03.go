//go:build verif

package main

import (
	"encoding/hex"
	"encoding/json"
	"fmt"
	"math/big"
	"strings"
	"time"
	_ "time/tzdata" // the zone family below must not depend on the host's zoneinfo

	"github.com/bitcoin-sv/block-headers-service/domains"
	"github.com/bitcoin-sv/block-headers-service/internal/chaincfg/chainhash"
	"github.com/bitcoin-sv/block-headers-service/service"
)

func init() { register("C03", runC03) }

// C03 cases
//  (a) "hdr <ver> <prev hex, internal byte order> <merkle hex> <ts> <bits> <nonce>"  obs: the hash the service's
//      hasher computes, as it prints it (Hash.String()).
//  (b) a history line (extreme field values): obs = per step the full rows WITH payload from the raw table,
//      then the same rows read through the repository, through HTTP, and from the raw table after a restart.
//      row = id:prev:height:work:cum:st:bits:ver:merkle:ts:nonce

func rowsFull(rows []HeaderRow, m *Mat) string {
	parts := make([]string, 0, len(rows))
	for _, r := range rows {
		mh, _ := chainhash.NewHashFromStr(r.Merkle)
		mid := -1
		if mh != nil {
			if v, ok := m.MerkID[*mh]; ok {
				mid = v
			}
		}
		parts = append(parts, fmt.Sprintf("%d:%d:%d:%s:%s:%s:%s:%d:%d:%s:%d", m.ID(r.Hash), m.ID(r.Prev), r.Height, hexOfDec(r.Work), hexOfDec(r.Cum), stLetter(r.State), r.Bits, r.Version, mid, r.TS, r.Nonce))
	}
	return strings.Join(parts, ",")
}

func merkID(m *Mat, h chainhash.Hash) int {
	if v, ok := m.MerkID[h]; ok {
		return v
	}
	return -1
}

func rowsViaRepo(s *Stack, m *Mat, rows []HeaderRow) string {
	parts := []string{}
	for _, r := range rows {
		h, err := s.Services.Headers.GetHeaderByHash(r.Hash)
		if err != nil || h == nil {
			parts = append(parts, "ERR")
			continue
		}
		parts = append(parts, fmt.Sprintf("%d:%d:%d:%s:%s:%s:%d:%d:%d:%d:%d", m.ID(h.Hash.String()), m.ID(h.PreviousBlock.String()), h.Height, h.Chainwork.Text(16), h.CumulatedWork.Text(16), stLetter(string(h.State)), h.Bits, h.Version, merkID(m, h.MerkleRoot), h.Timestamp.Unix(), h.Nonce))
	}
	return strings.Join(parts, ",")
}

func rowsViaHTTP(s *Stack, m *Mat, rows []HeaderRow) string {
	parts := []string{}
	for _, r := range rows {
		code, body := s.Do("GET", "/api/v1/chain/header/state/"+r.Hash, "", nil)
		code2, body2 := s.Do("GET", "/api/v1/chain/header/"+r.Hash, "", nil)
		var st struct {
			Header struct {
				Hash, PrevBlockHash, MerkleRoot, Work string
				Version                               int64
				CreationTimestamp, DifficultyTarget   int64
				Nonce                                 int64
			}
			State     string
			ChainWork string
			Height    int64
		}
		var hd struct {
			Hash, PrevBlockHash, MerkleRoot, Work string
			Version                               int64
			CreationTimestamp, DifficultyTarget   int64
			Nonce                                 int64
		}
		if code != 200 || code2 != 200 || json.Unmarshal([]byte(body), &st) != nil || json.Unmarshal([]byte(body2), &hd) != nil {
			parts = append(parts, fmt.Sprintf("ERR%d/%d", code, code2))
			continue
		}
		if hd != st.Header {
			parts = append(parts, "HTTP-INCONSISTENT")
			continue
		}
		mh, _ := chainhash.NewHashFromStr(st.Header.MerkleRoot)
		mid := -1
		if mh != nil {
			mid = merkID(m, *mh)
		}
		w, _ := new(big.Int).SetString(st.Header.Work, 10)
		cw, _ := new(big.Int).SetString(st.ChainWork, 10)
		if w == nil || cw == nil {
			parts = append(parts, "ERRWORK")
			continue
		}
		parts = append(parts, fmt.Sprintf("%d:%d:%d:%s:%s:%s:%d:%d:%d:%d:%d", m.ID(st.Header.Hash), m.ID(st.Header.PrevBlockHash), st.Height, w.Text(16), cw.Text(16), stLetter(st.State), st.Header.DifficultyTarget, st.Header.Version, mid, st.Header.CreationTimestamp, st.Header.Nonce))
	}
	return strings.Join(parts, ",")
}

func runC03(c *Ctx) error {
	s, err := NewStack(StackOpts{Dir: c.TmpDir("c03")})
	if err != nil {
		return err
	}
	defer func() { s.Close() }()
	hasher := service.DefaultBlockHasher()
	seenH := map[string]bool{}
	hdrCase := func(src domains.BlockHeaderSource, class string) {
		line := fmt.Sprintf("hdr %d %s %s %d %d %d", src.Version, hex.EncodeToString(src.PrevBlock[:]), hex.EncodeToString(src.MerkleRoot[:]), src.Timestamp.Unix(), src.Bits, src.Nonce)
		if seenH[line] {
			return
		}
		seenH[line] = true
		bh := hasher.BlockHash(&src)
		c.Case(line, bh.String())
		c.Count("hdr:" + class)
	}
	doHist := func(h *History, tag string) error {
		// x=zone:<process zone>:<zone of the restart>  (the model has no zone: a header time is an instant)
		var beforeReopen func()
		for _, x := range h.X {
			if p := strings.Split(x, ":"); len(p) == 3 && p[0] == "zone" {
				loc, err := time.LoadLocation(p[1])
				if err != nil {
					return err
				}
				rloc, err := time.LoadLocation(p[2])
				if err != nil {
					return err
				}
				saved := time.Local
				time.Local = loc
				beforeReopen = func() { time.Local = rloc }
				defer func() { time.Local = saved }()
			}
		}
		m, err := Materialize(h)
		if err != nil {
			return err
		}
		if err := s.ResetHeaders(); err != nil {
			return err
		}
		s.SetForbidden(m.ForbiddenHashes())
		steps := []string{}
		var last []HeaderRow
		for i := range h.Subs {
			o := AddOutcome(s, m.Src[i])
			rows, err := s.DumpHeaders()
			if err != nil {
				return err
			}
			last = rows
			steps = append(steps, o+"/"+rowsFull(rows, m))
		}
		if last == nil {
			last, _ = s.DumpHeaders()
		}
		repo := rowsViaRepo(s, m, last)
		web := rowsViaHTTP(s, m, last)
		// restart: close and re-open the same database file (database.Init runs again)
		if beforeReopen != nil {
			beforeReopen()
		}
		ns, err := s.Reopen()
		if err != nil {
			return fmt.Errorf("reopen: %w", err)
		}
		s = ns
		after, err := s.DumpHeaders()
		if err != nil {
			return err
		}
		obs := strings.Join(steps, ";") + "|repo=" + repo + "|http=" + web + "|restart=" + rowsFull(after, m)
		c.Case(h.Line(), obs)
		c.Count("hist:" + tag)
		for i := range h.Subs {
			if i < 3 {
				hdrCase(m.Src[i], "from-history")
			}
		}
		return nil
	}
	if c.Only != "" {
		if strings.HasPrefix(c.Only, "hdr ") {
			var ver int32
			var ph, mh string
			var ts int64
			var bits, nonce uint32
			if _, err := fmt.Sscanf(c.Only, "hdr %d %s %s %d %d %d", &ver, &ph, &mh, &ts, &bits, &nonce); err != nil {
				return err
			}
			var src domains.BlockHeaderSource
			pb, _ := hex.DecodeString(ph)
			mb, _ := hex.DecodeString(mh)
			copy(src.PrevBlock[:], pb)
			copy(src.MerkleRoot[:], mb)
			src.Version, src.Timestamp, src.Bits, src.Nonce = ver, time.Unix(ts, 0), bits, nonce
			hdrCase(src, "only")
			return nil
		}
		h, err := ParseHistory(c.Only)
		if err != nil {
			return err
		}
		return doHist(h, "only")
	}
	for _, l := range corpusLines(c, "C03") {
		h, err := ParseHistory(l)
		if err != nil {
			return err
		}
		if err := doHist(h, "corpus"); err != nil {
			return err
		}
	}
	// more than 100 orphans: nothing stored disappears, late children of early orphans still find their parent
	if err := doHist(OrphanFloodHistory(105), "orphan-flood"); err != nil {
		return err
	}
	// histories with extreme field values (all int32 versions incl. negative, max uint32 bits/nonce, timestamps 0 and 2^32-1)
	for i, n := 0, c.Pick(150, 1500); i < n; i++ {
		o := GenOpts{N: 2 + c.Rng.Intn(14), PUnknown: 0.1, PLate: 0.1, PDup: 0.1, PForbidden: 0.1, ZeroWork: true, Deep: i%2 == 0, Extreme: i%3 != 1, Lattice: i%3 == 1, ShareMerkle: i%4 == 2}
		if err := doHist(GenHistory(c.Rng, o), "random-extreme"); err != nil {
			return err
		}
	}
	// the service's time zone: a header time is an instant (32-bit seconds), not a wall-clock reading.  The process
	// zone (time.Local) is set to zones with daylight saving time, the header times step in half hours through the
	// night the clocks go back (one hour of wall-clock readings happens twice) and forward (one hour does not exist),
	// and the restart happens under ANOTHER zone.  Same case lines as ever: the model has no zone.
	{
		type zc struct {
			zone, restartZone string
			base              uint32
		}
		zcs := []zc{
			{"Europe/Warsaw", "Europe/Warsaw", 1635634800},      // 2021-10-30 23:00Z .. clocks back at 01:00Z
			{"Europe/Warsaw", "America/New_York", 1616886000},   // 2021-03-27 23:00Z .. clocks forward at 01:00Z
			{"America/New_York", "Asia/Kolkata", 1636257600},    // 2021-11-07 04:00Z .. clocks back at 06:00Z
			{"Australia/Lord_Howe", "UTC", 1617454800},          // half-hour shift, back at 2021-04-03 15:00Z
			{"Asia/Kolkata", "Pacific/Kiritimati", 1635634800},  // no DST, +05:30 -> +14:00
			{"UTC", "Europe/Warsaw", 1635634800},
		}
		for _, z := range zcs {
			h := &History{X: []string{"zone:" + z.zone + ":" + z.restartZone}}
			prev := genesisID
			for i := 0; i < 14; i++ {
				id := i + 2
				h.Subs = append(h.Subs, Sub{ID: id, Prev: prev, Bits: bitsW2, Ver: 1, Merkle: id + 100, TS: z.base + uint32(i)*1800, Nonce: uint32(id)})
				prev = id
			}
			if err := doHist(h, "zone:"+z.zone+">"+z.restartZone); err != nil {
				return err
			}
		}
	}
	// raw header hashing over the full field ranges
	ext32 := []uint32{0, 1, 0x7fffffff, 0x80000000, 0xffffffff, 0x00ff00ff, 0x1d00ffff}
	for _, v := range []int32{0, 1, -1, 2147483647, -2147483648, 536870912} {
		for _, ts := range []uint32{0, 1, 0x7fffffff, 0x80000000, 0xffffffff} {
			var src domains.BlockHeaderSource
			src.Version, src.Timestamp = v, time.Unix(int64(ts), 0)
			src.Bits, src.Nonce = ext32[c.Rng.Intn(len(ext32))], ext32[c.Rng.Intn(len(ext32))]
			src.MerkleRoot = merkleBytes(c.Rng.Intn(50) + 2)
			src.PrevBlock = merkleBytes(c.Rng.Intn(50) + 2)
			hdrCase(src, "boundary")
		}
	}
	for i, n := 0, c.Pick(600, 6000); i < n; i++ {
		var src domains.BlockHeaderSource
		src.Version = int32(c.Rng.Uint32())
		src.Timestamp = time.Unix(int64(c.Rng.Uint32()), 0)
		src.Bits, src.Nonce = c.Rng.Uint32(), c.Rng.Uint32()
		c.Rng.Read(src.PrevBlock[:])
		c.Rng.Read(src.MerkleRoot[:])
		switch i % 5 {
		case 0:
			for j := 0; j < 8; j++ {
				src.PrevBlock[31-j] = 0
			}
		case 1:
			src.PrevBlock = chainhash.Hash{}
		}
		hdrCase(src, "random")
	}
	return nil
}
