//go:build verif

package main

import (
	"bytes"
	"encoding/json"
	"errors"
	"fmt"
	"io"
	"net/http"
	"net/http/httptest"
	"net/url"
	"os"
	"path/filepath"
	"sort"
	"strconv"
	"strings"
	"sync"
	"sync/atomic"
	"time"
)

func init() { register("C12", runC12) }

// C12: webhooks deactivate at max_tries consecutive failures, reset on success.
//
// input  (one line, ';' separated, the head is the configuration):
//
//	"mt=<max_tries> mode=<s|p> [up=<0..5>];<op>;<op>;..."
//	  up: url profile = which four concrete url STRINGS the ids 0..3 stand for (c12URLs): 0 plain /u<i>; 1 trailing
//	      slashes (/hook, /hook/, /hook//, /hook/x/); 2 leading/trailing blanks; 3 upper-case scheme/host, explicit port,
//	      fragment; 4 query string, fragment, percent-encoded characters; 5 600-character paths differing in the last
//	      character / a trailing slash.  Every operation addresses a webhook by exactly the string of its id; different
//	      strings are different webhooks; the POST must go to exactly the registered url (scripted client: the url
//	      argument verbatim; production client: Host + request-URI on the wire).
//	  mode s: scripted notification.WebhookTargetClient injected into the real WebhooksService
//	  mode p: the PRODUCTION client (transports/http/client) posting to an httptest server
//	ops:  R<u>:<b|B|c|n>:<h>:<t>   POST /api/v1/webhook  url u (0..3), auth kind bearer ("bearer")/bearer ("BeArEr")/
//	                                custom header name <h>/none, token value <t>:
//	                                h: 0..2 = X-H<h>, 3 = Authorization, 4 = authorization, 5 = AUTHORIZATION (a custom
//	                                header may well be the Authorization header with another scheme; 4, 5 only with the
//	                                scripted client - the wire does not carry the letter case of a header name)
//	                                t: 0..3 = tok<t>, 4 = "Basic dXNlcjpwYXNz", 5 = "ApiKey k-1", 6 = "Bearer xyz",
//	                                7 = "" (custom header only).  The target must receive exactly the header of the
//	                                registration with exactly its value (bearer: Authorization: Bearer <token>; custom:
//	                                the value verbatim whatever the header is called) and no other credential header.
//	      D<u>                      DELETE /api/v1/webhook?url=
//	      N<o0><o1><o2><o3>         WebhooksService.Notify(event) with the outcome of the call to url i:
//	                                k=200 c=201 n=404 s=503 t=transport error b=unreadable body (status 200)
//	                                0..6 = status 200, A..G = status 503, the body BREAKS (read error / connection closed)
//	                                after 0, 1, 254, 255, 256, 1000, 4096 bytes of a longer announced body: any read error
//	                                is a failed delivery whatever was read before.  Non-200 replies carry a body of 302 bytes.
//	      X<0..3>                   a request the endpoint must reject (4xx) without touching anything: POST without url,
//	                                POST with an unparsable body, GET without url, DELETE without url
//	      Z                         restart (Stack.Reopen: close the SQLite file, rebuild repositories + services)
//	      Z<m>                      restart with webhook.max_tries = m (1..9): the limit in force from then on, for the
//	                                webhooks registered before as well as after it; plain Z keeps the limit
//
// EVERY wait has a deadline and ends as an observable, never as a hang: an op (with its GETs) that does not finish
//
//	within c12OpDeadline is reported as "NOTIFY-BLOCKED|<POSTs so far>|<GETs>" / "OP-TIMEOUT <op>||<GETs>" and the rest of
//	the case is "SKIPPED||"; so is the rest after two ops slower than c12SlowOp ("SKIPPED slow||").  After
//	c12MaxCutCases such cases the run stops generating (they are failures already).  Cases are flushed as they are written.
//
// observable: for every op  "<response>|<POSTs, sorted>|<GET u0>,<GET u1>,<GET u2>,<GET u3>", joined by " ; ",
//
//	followed by " ; DB " + the raw webhooks table in rowid order.
//	view of a webhook:  e<errorsCount>a<0|1>s<lastEmitStatus>t<lastEmitTimestamp>  or "404"
//	  lastEmitStatus canonical: "-" (empty), "<code>:<body>", TE (transport error), BE (body read error)
//	  lastEmitTimestamp canonical: 0 = never (Go zero time or the column default 1970-01-01), otherwise the 1-based
//	  index of the op during which the instant fell
//	POST:  u<i>/<method>/<content type>/<body ok?>/<other headers name=value&...>   ("_" = empty string, ' ' -> '+')
const c12NU = 4

type c12Post struct {
	raw    string // what was addressed when it is none of the four urls
	u      int
	method string
	ctype  string
	bodyOK bool
	hdrs   []string
}

func c12Esc(s string) string {
	if s == "" {
		return "_"
	}
	return strings.NewReplacer(" ", "+", ";", "%3B", "|", "%7C", ",", "%2C", "\t", "%09", "\n", "%0A").Replace(s)
}

func (p c12Post) String() string {
	b := "bad"
	if p.bodyOK {
		b = "ok"
	}
	ct := p.ctype
	if ct == "application/json" {
		ct = "json"
	}
	if p.u < 0 {
		return fmt.Sprintf("u?%s/%s/%s/%s/%s", strings.ReplaceAll(c12Esc(p.raw), "/", "%2F"), c12Esc(p.method), c12Esc(ct), b, strings.Join(p.hdrs, "&"))
	}
	return fmt.Sprintf("u%d/%s/%s/%s/%s", p.u, c12Esc(p.method), c12Esc(ct), b, strings.Join(p.hdrs, "&"))
}

// c12World: what is shared between the stack incarnations of one case.
type c12World struct {
	mu       sync.Mutex
	mode     string
	urls     [c12NU]string // the exact url string of id i
	wire     [c12NU]string // mode p: lower-case Host + " " + request-URI a POST to urls[i] must arrive with
	outcomes [c12NU]byte
	event    any
	eventJS  []byte
	posts    []c12Post
	srv      *httptest.Server
}

func (w *c12World) urlOf(i int) string { return w.urls[i] }

// c12URLs: the four url strings of a profile.  base = "http://host[:port]" (no trailing slash).
func c12URLs(up int, mode string, base string) (u [c12NU]string, ok bool) {
	hp := strings.TrimPrefix(base, "http://")
	port := ""
	if i := strings.LastIndexByte(hp, ':'); i >= 0 {
		port = hp[i:]
	}
	switch up {
	case 0:
		for i := range u {
			u[i] = fmt.Sprintf("%s/u%d", base, i)
		}
	case 1:
		u = [c12NU]string{base + "/hook", base + "/hook/", base + "/hook//", base + "/hook/x/"}
	case 2:
		if mode == "s" {
			u = [c12NU]string{base + "/sp", base + "/sp ", " " + base + "/sp", " " + base + "/sp/ "}
		} else { // a url with a leading blank cannot be parsed by net/http: only deliverable shapes for the real client
			u = [c12NU]string{base + "/sp", base + "/sp ", base + "/sp  ", base + "/sp /"}
		}
	case 3:
		if mode == "s" {
			u = [c12NU]string{"http://hook.test/c", "HTTP://hook.test/c", "http://HOOK.TEST:80/c", "http://hook.test/c#f"}
		} else {
			u = [c12NU]string{"http://" + hp + "/c", "HTTP://" + hp + "/C", "http://LOCALHOST" + port + "/c", "http://localhost" + port + "/c/"}
		}
	case 4:
		u = [c12NU]string{base + "/q?x=1&y=2#frag", base + "/q?x=1", base + "/q%3Fx=1%26y=2", base + "/q%2Fa%20b+c"}
	case 5:
		l := strings.Repeat("a", 600)
		u = [c12NU]string{base + "/" + l, base + "/" + l + "/", base + "/" + l[:599] + "b", base + "/l"}
	case 6: // probe only (never generated): a url the production client cannot parse, beside the same url without the blank
		u = [c12NU]string{" " + base + "/sp", base + "/sp", base + "/sp/x", base + "/sp/y"}
	default:
		return u, false
	}
	return u, true
}

// c12Wire: Host and request-URI a POST to url must carry (RFC 3986/7230: no fragment, blanks percent-encoded; computed
// without net/url on purpose).
func c12Wire(u string) string {
	i := strings.Index(u, "://")
	rest := u[i+3:]
	host, uri := rest, "/"
	if j := strings.IndexByte(rest, '/'); j >= 0 {
		host, uri = rest[:j], rest[j:]
	}
	if k := strings.IndexByte(uri, '#'); k >= 0 {
		uri = uri[:k]
	}
	return strings.ToLower(host) + " " + strings.ReplaceAll(uri, " ", "%20")
}
func (w *c12World) idOf(u string) int {
	for i := 0; i < c12NU; i++ {
		if u == w.urlOf(i) {
			return i
		}
	}
	return -1
}

const (
	c12OpDeadline  = 6500 * time.Millisecond // > SQLite's 5 s busy timeout: a write that fails "database is locked" still completes
	c12SlowOp      = 3 * time.Second
	c12AuxDeadline = 3 * time.Second
	c12MaxCutCases = 3
)

// the body of every non-200 reply: 302 bytes (canonical name "no")
var c12NoBody = "no" + strings.Repeat(".", 300)

var c12BreakPos = []int{0, 1, 254, 255, 256, 1000, 4096}

// c12Break: outcome characters 0..6 (status 200) and A..G (status 503): the body breaks after pos bytes.
func c12Break(o byte) (code int, pos int, ok bool) {
	switch {
	case o >= '0' && o <= '6':
		return 200, c12BreakPos[o-'0'], true
	case o >= 'A' && o <= 'G':
		return 503, c12BreakPos[o-'A'], true
	}
	return 0, 0, false
}

// c12ErrReader yields n bytes and then fails.
type c12ErrReader struct{ n int }

func (r *c12ErrReader) Read(p []byte) (int, error) {
	if r.n <= 0 {
		return 0, errors.New("scripted body error")
	}
	k := len(p)
	if k > r.n {
		k = r.n
	}
	for i := 0; i < k; i++ {
		p[i] = 'x'
	}
	r.n -= k
	return k, nil
}
func (r *c12ErrReader) Close() error { return nil }

// Call implements notification.WebhookTargetClient (scripted client).
func (w *c12World) Call(headers map[string]string, method string, u string, body any) (*http.Response, error) {
	w.mu.Lock()
	defer w.mu.Unlock()
	id := w.idOf(u)
	p := c12Post{u: id, method: method, raw: u}
	var hs []string
	for k, v := range headers {
		if k == "Content-Type" {
			p.ctype = v
			continue
		}
		hs = append(hs, c12Esc(k)+"="+c12Esc(v))
	}
	sort.Strings(hs)
	p.hdrs = hs
	bj, err := json.Marshal(body)
	p.bodyOK = err == nil && bytes.Equal(bj, w.eventJS)
	w.posts = append(w.posts, p)
	o := byte('k')
	if id >= 0 {
		o = w.outcomes[id]
	}
	mk := func(code int, b string) *http.Response {
		return &http.Response{StatusCode: code, Status: strconv.Itoa(code), Body: io.NopCloser(strings.NewReader(b)), Header: http.Header{}}
	}
	switch o {
	case 'k':
		return mk(200, "ok"), nil
	case 'c':
		return mk(201, c12NoBody), nil
	case 'n':
		return mk(404, c12NoBody), nil
	case 's':
		return mk(503, c12NoBody), nil
	case 't':
		return nil, errors.New("scripted transport error")
	case 'b':
		return &http.Response{StatusCode: 200, Status: "200", Body: &c12ErrReader{n: 2}, Header: http.Header{}}, nil
	}
	if code, pos, ok := c12Break(o); ok {
		return &http.Response{StatusCode: code, Status: strconv.Itoa(code), Body: &c12ErrReader{n: pos}, Header: http.Header{}}, nil
	}
	return nil, errors.New("scripted transport error")
}

var c12StdHeaders = map[string]bool{"Content-Type": true, "User-Agent": true, "Accept-Encoding": true, "Content-Length": true, "Host": true}

// ServeHTTP: the httptest server of mode p; records what really arrives on the wire.
func (w *c12World) ServeHTTP(rw http.ResponseWriter, r *http.Request) {
	body, _ := io.ReadAll(r.Body)
	w.mu.Lock()
	id := -1
	arrived := strings.ToLower(r.Host) + " " + r.RequestURI
	for i := 0; i < c12NU; i++ {
		if arrived == w.wire[i] {
			id = i
		}
	}
	p := c12Post{u: id, raw: arrived, method: r.Method, ctype: r.Header.Get("Content-Type"), bodyOK: bytes.Equal(body, w.eventJS)}
	var hs []string
	for k, vs := range r.Header {
		if c12StdHeaders[k] {
			continue
		}
		for _, v := range vs {
			hs = append(hs, c12Esc(k)+"="+c12Esc(v))
		}
	}
	sort.Strings(hs)
	p.hdrs = hs
	w.posts = append(w.posts, p)
	o := byte('k')
	if id >= 0 {
		o = w.outcomes[id]
	}
	w.mu.Unlock()
	kill := func(pre string) {
		hj, ok := rw.(http.Hijacker)
		if !ok {
			return
		}
		conn, buf, err := hj.Hijack()
		if err != nil {
			return
		}
		if pre != "" {
			_, _ = buf.WriteString(pre)
			_ = buf.Flush()
		}
		_ = conn.Close()
	}
	switch o {
	case 'k':
		rw.WriteHeader(200)
		_, _ = rw.Write([]byte("ok"))
	case 'c':
		rw.WriteHeader(201)
		_, _ = rw.Write([]byte(c12NoBody))
	case 'n':
		rw.WriteHeader(404)
		_, _ = rw.Write([]byte(c12NoBody))
	case 's':
		rw.WriteHeader(503)
		_, _ = rw.Write([]byte(c12NoBody))
	case 't':
		kill("")
	case 'b':
		kill("HTTP/1.1 200 OK\r\nContent-Type: text/plain\r\nContent-Length: 100\r\n\r\nxx")
	default:
		if code, pos, ok := c12Break(o); ok {
			kill(fmt.Sprintf("HTTP/1.1 %d X\r\nContent-Type: text/plain\r\nContent-Length: %d\r\n\r\n%s", code, pos+500, strings.Repeat("x", pos)))
		}
	}
}

type c12Win struct {
	idx      int
	from, to time.Time
}

type c12Run struct {
	w    *c12World
	s    *Stack
	wins []c12Win
}

func (r *c12Run) ts(t time.Time) string {
	if t.IsZero() || t.Unix() == 0 {
		return "0"
	}
	for _, w := range r.wins {
		if !t.Before(w.from) && !t.After(w.to) {
			return strconv.Itoa(w.idx)
		}
	}
	return "?" + c12Esc(t.UTC().Format(time.RFC3339Nano))
}

func c12Status(s string) string {
	switch {
	case s == "":
		return "-"
	case s == "scripted transport error" || strings.HasPrefix(s, "Post \""):
		return "TE"
	case s == "scripted body error" || s == "unexpected EOF" || (strings.HasPrefix(s, "read tcp ") && strings.Contains(s, "connection reset")):
		return "BE"
	}
	if i := strings.IndexByte(s, ' '); i > 0 {
		if _, err := strconv.Atoi(s[:i]); err == nil {
			if s[i+1:] == c12NoBody {
				return s[:i] + ":no"
			}
			return s[:i] + ":" + c12Esc(s[i+1:])
		}
	}
	return "?" + c12Esc(s)
}

type c12JSON struct {
	URL               *string    `json:"url"`
	LastEmitStatus    *string    `json:"lastEmitStatus"`
	LastEmitTimestamp *time.Time `json:"lastEmitTimestamp"`
	ErrorsCount       *int       `json:"errorsCount"`
	Active            *bool      `json:"active"`
	Code              *string    `json:"code"`
}

func b01(b bool) string {
	if b {
		return "1"
	}
	return "0"
}

// view projects a webhook endpoint response (GET / POST).
func (r *c12Run) view(code int, body string, wantURL string) string {
	var j c12JSON
	if err := json.Unmarshal([]byte(body), &j); err != nil {
		return fmt.Sprintf("%d:unparsable", code)
	}
	if code != 200 {
		c := "?"
		if j.Code != nil {
			c = *j.Code
		}
		return fmt.Sprintf("%d:%s", code, c12Esc(c))
	}
	if j.URL == nil || j.LastEmitStatus == nil || j.LastEmitTimestamp == nil || j.ErrorsCount == nil || j.Active == nil {
		return "200:incomplete"
	}
	if *j.URL != wantURL {
		return "200:wrong-url"
	}
	return fmt.Sprintf("e%da%ss%st%s", *j.ErrorsCount, b01(*j.Active), c12Status(*j.LastEmitStatus), r.ts(*j.LastEmitTimestamp))
}

func (r *c12Run) gets() string {
	var out []string
	for i := 0; i < c12NU; i++ {
		u := r.w.urlOf(i)
		code, body := r.s.Do("GET", "/api/v1/webhook?url="+url.QueryEscape(u), "", nil)
		if code == 404 {
			out = append(out, "404")
		} else {
			out = append(out, r.view(code, body, u))
		}
	}
	return strings.Join(out, ",")
}

func (r *c12Run) dumpDB() string {
	rows, err := r.s.DB.Query(`SELECT url, token_header, token, last_emit_status, last_emit_timestamp, errors_count, is_active FROM webhooks ORDER BY rowid`)
	if err != nil {
		return "ERR:" + c12Esc(err.Error())
	}
	defer rows.Close()
	var out []string
	for rows.Next() {
		var u, h, tk, st string
		var ts time.Time
		var e int
		var a bool
		if err := rows.Scan(&u, &h, &tk, &st, &ts, &e, &a); err != nil {
			return "ERR:" + c12Esc(err.Error())
		}
		out = append(out, fmt.Sprintf("u%d/%s=%s/e%da%ss%st%s", r.w.idOf(u), c12Esc(h), c12Esc(tk), e, b01(a), c12Status(st), r.ts(ts)))
	}
	return strings.Join(out, ",")
}

func c12ParseHead(h string) (mt int, mode string, up int, err error) {
	mode = "s"
	for _, f := range strings.Fields(h) {
		switch {
		case strings.HasPrefix(f, "mt="):
			mt, err = strconv.Atoi(f[3:])
			if err != nil {
				return
			}
		case strings.HasPrefix(f, "mode="):
			mode = f[5:]
		case strings.HasPrefix(f, "up="):
			up, err = strconv.Atoi(f[3:])
			if err != nil {
				return
			}
		default:
			err = fmt.Errorf("bad head %q", h)
			return
		}
	}
	if mt < 1 || up < 0 || up > 6 || (mode != "s" && mode != "p") {
		err = fmt.Errorf("bad head %q", h)
	}
	return
}

// c12Exec runs one case against the real stack and returns the observable.
func c12Exec(c *Ctx, input string, seq int) (obs string) {
	toks := strings.Split(input, ";")
	mt, mode, up, err := c12ParseHead(toks[0])
	if err != nil {
		return "BAD-INPUT"
	}
	w := &c12World{mode: mode}
	base := "http://hook.test"
	if mode == "p" {
		w.srv = httptest.NewServer(w)
		base = w.srv.URL
	}
	w.urls, _ = c12URLs(up, mode, base)
	for i := range w.urls {
		w.wire[i] = c12Wire(w.urls[i])
	}
	// the SQLite file lives on tmpfs when there is one (every UPDATE is a committed transaction)
	dir := ""
	if st, err := os.Stat("/dev/shm"); err == nil && st.IsDir() {
		if d, err := os.MkdirTemp("/dev/shm", "verif-c12-"); err == nil {
			dir = d
			defer os.RemoveAll(d)
		}
	}
	if dir == "" {
		dir = c.TmpDir(fmt.Sprintf("c12-%d", seq))
	}
	opts := StackOpts{Dir: dir, MaxTries: mt}
	if mode == "s" {
		opts.WebhookClnt = w
	}
	var s *Stack
	if v, ok := c12Guard(2*c12OpDeadline, func() any {
		st, err := NewStack(opts)
		if err != nil {
			return err
		}
		return st
	}, func(v any) {
		if st, ok := v.(*Stack); ok {
			st.Close()
		}
	}); !ok {
		return "STACK-BLOCKED"
	} else if e, isErr := v.(error); isErr {
		return "STACK-ERROR " + c12Esc(e.Error())
	} else if p, isPanic := v.(c12Panic); isPanic {
		return "STACK-PANIC " + c12Esc(string(p))
	} else {
		s = v.(*Stack)
	}
	r := &c12Run{w: w, s: s}
	defer func() {
		if st := r.s; st != nil {
			c12Guard(c12AuxDeadline, func() any { st.Close(); return nil }, nil)
		}
		if w.srv != nil {
			srv := w.srv
			c12Guard(c12AuxDeadline, func() any { srv.CloseClientConnections(); srv.Close(); return nil }, nil)
		}
		_ = os.RemoveAll(filepath.Join(c.Out, "tmp", fmt.Sprintf("c12-%d", seq)))
	}()
	// getsGuarded: the GETs of every url by a fresh goroutine with its own deadline (used when the op itself is stuck)
	getsGuarded := func() string {
		snap := &c12Run{w: w, s: r.s, wins: append([]c12Win(nil), r.wins...)}
		if v, ok := c12Guard(c12AuxDeadline, func() any { return snap.gets() }, nil); ok {
			if g, isStr := v.(string); isStr {
				return g
			}
			return "GETS-PANIC"
		}
		return "GETS-BLOCKED"
	}
	var steps []string
	prevA, prevE := [c12NU]int{-1, -1, -1, -1}, [c12NU]int{}
	slow, cut := 0, ""
	mt0 := mt
	for i, op := range toks[1:] {
		idx := i + 1
		if len(op) == 2 && op[0] == 'Z' && op[1] >= '1' && op[1] <= '9' && cut == "" {
			switch m := int(op[1] - '0'); {
			case m < mt:
				c.Count("event:restart-lowers-max_tries")
			case m > mt:
				c.Count("event:restart-raises-max_tries")
			}
			mt = int(op[1] - '0')
		}
		if cut != "" {
			steps = append(steps, cut+"||")
			continue
		}
		if r.s == nil {
			steps = append(steps, "DEAD||")
			continue
		}
		// the op works on a private snapshot of the run state; the state is adopted only when the op came back in time
		snap := &c12Run{w: w, s: r.s, wins: append([]c12Win(nil), r.wins...)}
		origS := r.s
		t0 := time.Now()
		v, ok := c12Guard(c12OpDeadline, func() any { return c12Step(snap, op, idx) }, func(any) {
			if snap.s != nil && snap.s != origS { // a restart that came back after it was given up
				snap.s.Close()
			}
		})
		var st string
		switch {
		case !ok && strings.HasPrefix(op, "N"):
			w.mu.Lock()
			var ps []string
			for _, p := range w.posts {
				ps = append(ps, p.String())
			}
			w.mu.Unlock()
			sort.Strings(ps)
			r.wins = append(r.wins, c12Win{idx: idx, from: t0, to: time.Now()})
			st = "NOTIFY-BLOCKED|" + strings.Join(ps, ",") + "|" + getsGuarded()
			cut = "SKIPPED"
		case !ok:
			st = "OP-TIMEOUT " + c12Esc(op) + "||" + getsGuarded()
			cut = "SKIPPED"
		default:
			if pv, isPanic := v.(c12Panic); isPanic {
				st = "PANIC " + c12Esc(string(pv)) + "||"
			} else {
				st = v.(string)
			}
			r.s, r.wins = snap.s, snap.wins
			if time.Since(t0) > c12SlowOp {
				if slow++; slow >= 2 {
					cut = "SKIPPED slow"
				}
			}
		}
		steps = append(steps, st)
		// input-distribution histogram: which transitions the sequence really exercised
		if parts := strings.Split(st, "|"); len(parts) == 3 {
			for j, g := range strings.Split(parts[2], ",") {
				if j >= c12NU {
					break
				}
				var e, a int
				if _, err := fmt.Sscanf(g, "e%da%d", &e, &a); err != nil {
					prevA[j], prevE[j] = -1, 0
					continue
				}
				isN := strings.HasPrefix(op, "N")
				switch {
				case isN && prevA[j] == 1 && a == 0:
					if mt != mt0 {
						c.Count(fmt.Sprintf("event:deactivated after the limit changed %d->%d at-count=%d", mt0, mt, e))
					} else {
						c.Count(fmt.Sprintf("event:deactivated mt=%d at-count=%d", mt, e))
					}
				case isN && prevA[j] == 1 && a == 1 && prevE[j] > 0 && e == 0:
					c.Count("event:reset-by-200")
				case isN && prevA[j] == 1 && a == 1 && e > prevE[j]:
					c.Count(fmt.Sprintf("event:failure-below-max count=%d", e))
				case !isN && prevA[j] == 0 && a == 1:
					c.Count("event:reactivated-by-re-register")
				}
				prevA[j], prevE[j] = a, e
			}
		}
	}
	db := "DEAD"
	if r.s != nil {
		snap := &c12Run{w: w, s: r.s, wins: append([]c12Win(nil), r.wins...)}
		if v, ok := c12Guard(c12AuxDeadline, func() any { return snap.dumpDB() }, nil); !ok {
			db = "BLOCKED"
		} else if d, isStr := v.(string); isStr {
			db = d
		} else {
			db = "PANIC"
		}
	}
	if cut != "" {
		c12CutCases++
	}
	steps = append(steps, "DB "+db)
	return strings.Join(steps, " ; ")
}

// c12CutCases counts the cases of this run that were cut short by a blocked or slow op.
var c12CutCases int

type c12Panic string

// c12Guard runs f with a deadline.  When f does not come back in time the caller goes on (ok = false) and the goroutine
// is left behind; if it ever returns, late (when given) disposes of what it produced.  A panic in f is returned as c12Panic.
func c12Guard(d time.Duration, f func() any, late func(any)) (v any, ok bool) {
	ch := make(chan any, 1)
	var abandoned atomic.Bool
	go func() {
		var out any
		defer func() {
			if p := recover(); p != nil {
				out = c12Panic(fmt.Sprint(p))
			}
			ch <- out
			if abandoned.Load() && late != nil {
				late(out)
			}
		}()
		out = f()
	}()
	t := time.NewTimer(d)
	defer t.Stop()
	select {
	case v = <-ch:
		return v, true
	case <-t.C:
		abandoned.Store(true)
		return nil, false
	}
}

// c12HdrName / c12TokVal: the header name and token value the ids of a registration stand for.
func c12HdrName(h string, mode string) (string, bool) {
	switch h {
	case "0", "1", "2":
		return "X-H" + h, true
	case "3":
		return "Authorization", true
	case "4":
		return "authorization", mode == "s"
	case "5":
		return "AUTHORIZATION", mode == "s"
	}
	return "", false
}

func c12TokVal(t string) (string, bool) {
	switch t {
	case "0", "1", "2", "3":
		return "tok" + t, true
	case "4":
		return "Basic dXNlcjpwYXNz", true
	case "5":
		return "ApiKey k-1", true
	case "6":
		return "Bearer xyz", true
	case "7":
		return "", true
	}
	return "", false
}

// c12Step performs one op (and the GETs after it) on the snapshot r; a restart replaces r.s, an event appends to r.wins.
func c12Step(r *c12Run, op string, idx int) (res string) {
	w := r.w
	resp, posts := "-", ""
	switch {
	case strings.HasPrefix(op, "R"):
		f := strings.Split(op[1:], ":")
		if len(f) != 4 {
			return "BAD-OP||"
		}
		u, e1 := strconv.Atoi(f[0])
		if e1 != nil || u < 0 || u >= c12NU {
			return "BAD-OP||"
		}
		req := map[string]any{"url": w.urlOf(u)}
		hn, okH := c12HdrName(f[2], w.mode)
		tv, okT := c12TokVal(f[3])
		if !okH || !okT || (f[1] != "c" && f[3] == "7") {
			return "BAD-OP||"
		}
		switch f[1] {
		case "b":
			req["requiredAuth"] = map[string]string{"type": "bearer", "token": tv}
		case "B":
			req["requiredAuth"] = map[string]string{"type": "BeArEr", "token": tv, "header": hn}
		case "c":
			req["requiredAuth"] = map[string]string{"type": "custom_header", "token": tv, "header": hn}
		case "n":
		default:
			return "BAD-OP||"
		}
		bj, _ := json.Marshal(req)
		code, body := r.s.Do("POST", "/api/v1/webhook", string(bj), nil)
		if code == 200 {
			resp = "200:" + r.view(code, body, w.urlOf(u))
		} else {
			resp = r.view(code, body, "")
		}
	case strings.HasPrefix(op, "D"):
		u, e1 := strconv.Atoi(op[1:])
		if e1 != nil || u < 0 || u >= c12NU {
			return "BAD-OP||"
		}
		code, body := r.s.Do("DELETE", "/api/v1/webhook?url="+url.QueryEscape(w.urlOf(u)), "", nil)
		if code == 200 {
			resp = "200"
		} else {
			resp = r.view(code, body, "")
		}
	case strings.HasPrefix(op, "N"):
		if len(op) != 1+c12NU {
			return "BAD-OP||"
		}
		w.mu.Lock()
		copy(w.outcomes[:], op[1:])
		w.event = map[string]any{"operation": "ADD", "seq": idx}
		w.eventJS, _ = json.Marshal(w.event)
		w.posts = nil
		ev := w.event
		w.mu.Unlock()
		win := c12Win{idx: idx, from: time.Now()}
		r.s.Services.Webhooks.Notify(ev)
		win.to = time.Now()
		r.wins = append(r.wins, win)
		w.mu.Lock()
		var ps []string
		for _, p := range w.posts {
			ps = append(ps, p.String())
		}
		w.mu.Unlock()
		sort.Strings(ps) // the order of the calls is not part of the property
		posts = strings.Join(ps, ",")
	case len(op) == 2 && op[0] == 'X':
		var code int
		switch op[1] {
		case '0': // no url in the body
			code, _ = r.s.Do("POST", "/api/v1/webhook", `{"requiredAuth":{"type":"bearer","token":"tok9"}}`, nil)
		case '1': // unparsable body
			code, _ = r.s.Do("POST", "/api/v1/webhook", `{"url": "`+w.urlOf(0), nil)
		case '2': // query without url
			code, _ = r.s.Do("GET", "/api/v1/webhook", "", nil)
		case '3': // delete without url
			code, _ = r.s.Do("DELETE", "/api/v1/webhook", "", nil)
		default:
			return "BAD-OP||"
		}
		if code >= 400 && code < 500 {
			resp = "rej"
		} else {
			resp = fmt.Sprintf("%d:unexpected", code)
		}
	case op == "Z":
		s2, err := r.s.Reopen()
		if err != nil {
			r.s = nil
			return "REOPEN-ERROR||"
		}
		r.s = s2
	case len(op) == 2 && op[0] == 'Z' && op[1] >= '1' && op[1] <= '9':
		// a restart with another webhook.max_tries: same database file, same options except the limit
		o := r.s.Opts
		o.MaxTries = int(op[1] - '0')
		r.s.Close()
		s2, err := NewStack(o)
		if err != nil {
			r.s = nil
			return "REOPEN-ERROR||"
		}
		r.s = s2
	default:
		return "BAD-OP||"
	}
	return resp + "|" + posts + "|" + r.gets()
}

func c12GenOps(c *Ctx, n int, mt int, prodClient bool) []string {
	rng := c.Rng
	var ops []string
	outs := "kkkkkcnsstttb"
	breaks := "0123456ABCDEFG"
	// a "profile" biases the outcomes so that long failure streaks (reaching max_tries 4,5) do occur
	failBias := rng.Intn(3) // 0: mostly ok, 1: mixed, 2: mostly failing
	for len(ops) < n {
		x := rng.Intn(100)
		switch {
		case x < 22:
			k := "bBcn"[rng.Intn(4)]
			if rng.Intn(3) == 0 {
				k = 'n'
			}
			h, t := rng.Intn(3), rng.Intn(4)
			if rng.Intn(3) == 0 { // the Authorization header as a custom header, other schemes, an empty value
				h = 3 + rng.Intn(3)
				if prodClient && h > 3 {
					h = 3
				}
			}
			if rng.Intn(3) == 0 {
				t = 4 + rng.Intn(4)
				if k != 'c' && t == 7 {
					t = 6
				}
			}
			ops = append(ops, fmt.Sprintf("R%d:%c:%d:%d", rng.Intn(c12NU), k, h, t))
		case x < 30:
			ops = append(ops, fmt.Sprintf("D%d", rng.Intn(c12NU)))
		case x < 36:
			if rng.Intn(2) == 0 {
				ops = append(ops, fmt.Sprintf("Z%d", 1+rng.Intn(6)))
			} else {
				ops = append(ops, "Z")
			}
		case x < 39:
			ops = append(ops, fmt.Sprintf("X%d", rng.Intn(4)))
		default:
			b := []byte("N")
			for i := 0; i < c12NU; i++ {
				var o byte
				switch failBias {
				case 0:
					o = outs[rng.Intn(len(outs))]
					if rng.Intn(2) == 0 {
						o = 'k'
					}
				case 1:
					o = outs[rng.Intn(len(outs))]
				default:
					o = outs[5+rng.Intn(len(outs)-5)]
					if rng.Intn(6) == 0 {
						o = 'k'
					}
				}
				if o != 'k' && rng.Intn(5) == 0 {
					o = breaks[rng.Intn(len(breaks))]
				}
				b = append(b, o)
			}
			ops = append(ops, string(b))
		}
	}
	_ = mt
	return ops
}

func runC12(c *Ctx) error {
	seq := 0
	seen := map[string]bool{}
	do := func(input, class string) {
		if seen[input] {
			return
		}
		seen[input] = true
		seq++
		if c12CutCases >= c12MaxCutCases && class != "only" {
			c.Count("not-run:after-" + strconv.Itoa(c12MaxCutCases) + "-blocked-cases")
			return
		}
		obs := c12Exec(c, input, seq)
		c.Case(input, obs)
		_ = c.cases.Flush()
		_ = c.impl.Flush()
		c.Count(class)
		toks := strings.Split(input, ";")
		c.Count("head:" + strings.ReplaceAll(toks[0], " ", ","))
		for _, op := range toks[1:] {
			if op != "" {
				c.Count("op:" + op[:1])
			}
		}
	}
	if c.Only != "" {
		do(c.Only, "only")
		return nil
	}
	// corpus first
	files, _ := filepath.Glob(filepath.Join(os.Getenv("VERIF_DIR"), "corpus", "C12", "*.txt"))
	if os.Getenv("VERIF_DIR") == "" {
		files, _ = filepath.Glob("/verif/corpus/C12/*.txt")
	}
	sort.Strings(files)
	for _, f := range files {
		b, err := os.ReadFile(f)
		if err != nil {
			continue
		}
		for _, l := range strings.Split(string(b), "\n") {
			l = strings.TrimSpace(l)
			if l == "" || strings.HasPrefix(l, "#") {
				continue
			}
			do(l, "corpus")
		}
	}
	// systematic: every max_tries 1..5 x every failing outcome kind: exactly mt failures, a success in the middle, re-register
	for mt := 1; mt <= 5; mt++ {
		for _, mode := range []string{"s", "p"} {
			for _, o := range "cnstb" {
				for _, k := range "bcn" {
					ops := []string{fmt.Sprintf("mt=%d mode=%s", mt, mode), fmt.Sprintf("R0:%c:1:2", k), "R1:b:0:1"}
					fail := fmt.Sprintf("N%ckkk", o)
					for i := 0; i < mt-1; i++ {
						ops = append(ops, fail)
					}
					ops = append(ops, "Nkkkk")
					for i := 0; i < mt; i++ {
						ops = append(ops, fail)
					}
					ops = append(ops, "Z", fail, fmt.Sprintf("R0:%c:1:3", k), "R0:c:2:0", fail, "D0", fail, "Z")
					do(strings.Join(ops, ";"), "systematic")
				}
			}
		}
	}
	// systematic: the body breaks after 0,1,254,255,256,1000,4096 bytes, status 200 and 503, both clients: every one is a
	// failed delivery: count 1, reset by a 200, then two in a row deactivate (max_tries 2)
	for _, mode := range []string{"p", "s"} {
		for _, x := range "0123456ABCDEFG" {
			do(fmt.Sprintf("mt=2 mode=%s;R0:b:0:1;R1:c:1:2;N%ckkk;Nkkkk;N%c%ckk;N%ckkk;Nkkkk;Z", mode, x, x, x, x), "systematic-bodybreak")
		}
	}
	// systematic: many non-200 replies WITH a body to one host (all urls of a case live on one host), then 200s and more events
	for _, mode := range []string{"p", "s"} {
		do(fmt.Sprintf("mt=5 mode=%s;R0:b:0:1;R1:c:1:2;R2:n:0:0;R3:b:0:3;Nssss;Nnncc;Nkkkk;Nscns;Nkkkk;Nkkkk;Z;Nnnnn;Nkkkk", mode), "systematic-non200-bodies")
		do(fmt.Sprintf("mt=5 mode=%s;R0:b:0:1;Nskkk;Nnkkk;Nckkk;Nskkk;Nkkkk;Nkkkk;Nskkk;Nkkkk", mode), "systematic-non200-bodies")
	}
	// systematic: what the target RECEIVES for every registration shape: bearer / BeArEr with plain and scheme-like tokens,
	// custom headers X-H<n> and Authorization (in three letter cases with the scripted client) with raw, Basic, ApiKey,
	// Bearer-prefixed and empty values, no authorisation; side by side, after a restart, after re-registration
	for _, mode := range []string{"s", "p"} {
		hs := []int{0, 3, 4, 5}
		if mode == "p" {
			hs = []int{0, 3}
		}
		for _, h := range hs {
			for t := 0; t <= 7; t++ {
				do(fmt.Sprintf("mt=2 mode=%s;R0:c:%d:%d;R1:b:0:%d;R2:n:0:0;R3:B:%d:%d;Nkkkk;Z;Nskkk;Nskkk;R0:c:3:1;R0:b:0:2;Nkkkk", mode, h, t, t%7, h, (t+3)%7), "systematic-auth-shapes")
			}
		}
	}
	// systematic: a restart CHANGES webhook.max_tries, in both directions, with failing streaks that straddle it and
	// webhooks registered before (u0, u1) and after (u2) it; the limit in force after the restart is the only one that counts
	rot := 0
	for _, mode := range []string{"s", "p"} {
		{
			for _, ch := range [][2]int{{6, 3}, {5, 2}, {4, 1}, {2, 5}, {1, 4}, {3, 6}, {3, 3}} {
				from, to := ch[0], ch[1]
				for before := 0; before < from && before <= 4; before++ {
					o := "stb3n5"[rot%6] // the kind of failure rotates over the cases
					rot++
					f := func(pat string) string { return "N" + strings.ReplaceAll(pat, "f", string(o)) }
					ops := []string{fmt.Sprintf("mt=%d mode=%s", from, mode), "R0:b:0:1", "R1:c:1:2"}
					for i := 0; i < before; i++ {
						ops = append(ops, f("fkkk"))
					}
					ops = append(ops, fmt.Sprintf("Z%d", to), "R2:n:0:0")
					for i := 0; i < to+1; i++ {
						ops = append(ops, f("fkfk"))
					}
					ops = append(ops, "R0:b:0:1", f("ffkk"), "Z", f("ffkk"), f("ffkk"))
					do(strings.Join(ops, ";"), "systematic-limit-change")
				}
			}
		}
	}
	// systematic: every url profile x both clients: the four urls side by side (they are four different webhooks),
	// events, delete / query / re-register by exactly the string that was registered
	for up := 1; up <= 5; up++ {
		for _, mode := range []string{"s", "p"} {
			for _, mt := range []int{1, 3} {
				for _, first := range []string{"R0:b:0:1;R1:c:1:2;R2:n:0:0;R3:b:0:3", "R1:c:1:2", "R3:n:0:0;R2:b:0:1"} {
					do(fmt.Sprintf("mt=%d mode=%s up=%d;%s;Nkkkk;Nskts;D1;Nkkkk;R1:b:0:1;R1:b:0:2;Nsskk;Z;D0;D0;Nkkkk;R2:c:1:1;D3;Nssss;Z", mt, mode, up, first), "systematic-url")
				}
			}
		}
	}
	n := c.Pick(500, 6000)
	for i := 0; i < n; i++ {
		mt := 1 + c.Rng.Intn(5)
		mode := "s"
		if c.Rng.Intn(4) == 0 {
			mode = "p"
		}
		upTok := ""
		if up := c.Rng.Intn(6); up > 0 {
			upTok = fmt.Sprintf(" up=%d", up)
		}
		l := 4 + c.Rng.Intn(c.Pick(22, 40))
		ops := c12GenOps(c, l, mt, mode == "p")
		ops = append(ops, "Z")
		do(fmt.Sprintf("mt=%d mode=%s%s;", mt, mode, upTok)+strings.Join(ops, ";"), "random:"+mode)
	}
	return nil
}
