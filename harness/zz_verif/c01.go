//go:build verif

package main

import (
	"bufio"
	"fmt"
	"os"
	"path/filepath"
	"strings"
)

func init() { register("C01", runC01) }

// RunHistory executes a history on a stack whose headers table holds only genesis and returns the
// C01 observable:  <step>;<step>;...|<rows>   step = <outcome>/<tip id>/<state letters in rowid order>
func RunHistory(s *Stack, h *History) (string, error) {
	m, err := Materialize(h)
	if err != nil {
		return "", err
	}
	if err := s.ResetHeaders(); err != nil {
		return "", err
	}
	s.SetForbidden(m.ForbiddenHashes())
	steps := make([]string, 0, len(h.Subs))
	var last []HeaderRow
	sparse := false
	for _, x := range h.X {
		if x == "sparse" {
			sparse = true
		}
	}
	for i := range h.Subs {
		o := AddOutcome(s, m.Src[i])
		if sparse && !SparseSampled(i, len(h.Subs)) {
			// long histories ("x=sparse" in the case line): labels and tip are recorded for the sampled steps only
			// (every 97th and the last three); the outcome of every step and the final table are always recorded
			steps = append(steps, o+"/-/-")
			continue
		}
		states, tip, rows, err := StatesAndTip(s, m)
		if err != nil {
			return "", err
		}
		last = rows
		steps = append(steps, fmt.Sprintf("%s/%d/%s", o, tip, states))
	}
	if last == nil {
		_, _, last, err = StatesAndTip(s, m)
		if err != nil {
			return "", err
		}
	}
	return strings.Join(steps, ";") + "|" + RowsString(last, m), nil
}

// SparseSampled: the steps of an "x=sparse" history at which labels and tip are recorded (same rule in vchain.ml).
func SparseSampled(i, n int) bool { return i >= n-3 || (i+1)%97 == 0 }

func corpusLines(c *Ctx, prop string) []string {
	dir := os.Getenv("VERIF_DIR")
	if dir == "" {
		dir = "/verif"
	}
	var out []string
	files, _ := filepath.Glob(filepath.Join(dir, "corpus", prop, "*.txt"))
	for _, f := range files {
		fh, err := os.Open(f)
		if err != nil {
			continue
		}
		sc := bufio.NewScanner(fh)
		sc.Buffer(make([]byte, 1<<20), 1<<24)
		for sc.Scan() {
			l := strings.TrimSpace(sc.Text())
			if l != "" && !strings.HasPrefix(l, "#") {
				out = append(out, l)
			}
		}
		fh.Close()
	}
	return out
}

func runC01(c *Ctx) error {
	s, err := NewStack(StackOpts{Dir: c.TmpDir("c01")})
	if err != nil {
		return err
	}
	defer s.Close()
	seen := map[string]bool{}
	do := func(h *History, tag string) error {
		line := h.Line()
		if seen[line] {
			return nil
		}
		seen[line] = true
		obs, err := RunHistory(s, h)
		if err != nil {
			return fmt.Errorf("history %s: %w", line, err)
		}
		c.Case(line, obs)
		c.Count("gen:" + tag)
		for _, cl := range HistoryClass(h) {
			c.Count("class:" + cl)
		}
		c.Count(fmt.Sprintf("len:%02d", (len(h.Subs)+4)/5*5))
		return nil
	}
	if c.Only != "" {
		h, err := ParseHistory(c.Only)
		if err != nil {
			return err
		}
		return do(h, "only")
	}
	for _, l := range corpusLines(c, "C01") {
		h, err := ParseHistory(l)
		if err != nil {
			return fmt.Errorf("corpus line %q: %w", l, err)
		}
		if err := do(h, "corpus"); err != nil {
			return err
		}
	}
	// bounded-exhaustive: all trees x work classes {2,4,0} x arrival orders
	var eerr error
	ExhaustiveHistories(c.Pick(3, 4), []uint32{bitsW2, bitsW4, bitsNeg}, func(h *History) {
		if eerr == nil {
			eerr = do(h, "exhaustive")
		}
	})
	if eerr != nil {
		return eerr
	}
	// reorganisations of more than 500 / 1000 headers in one submission
	for _, h := range LongReorgHistories(c.Thorough()) {
		if err := do(h, "long-reorg"); err != nil {
			return err
		}
	}
	// random: ties common, deep reorganisations, reorg-back, orphan chains whose parent arrives later
	n := c.Pick(600, 6000)
	for i := 0; i < n; i++ {
		o := GenOpts{N: 2 + c.Rng.Intn(c.Pick(24, 40)), PUnknown: 0.08, PLate: 0.1, PDup: 0.1, PForbidden: 0.15, ZeroWork: i%4 == 0, Deep: i%2 == 0, Lattice: i%5 == 2, ShareMerkle: i%7 == 3}
		if err := do(GenHistory(c.Rng, o), "random"); err != nil {
			return err
		}
	}
	return nil
}
