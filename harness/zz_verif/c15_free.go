//go:build verif

package main

// C15 "free" cases: FREE-RUNNING goroutines (no scheduler).  One writer ingests a history through Chains.Add (tip
// extensions and stale siblings only: each Add is one storage transaction, so the store a reader can see is the
// store after SOME prefix of the history).  R readers use the HTTP API at the same time, with authentication ON and
// each request carrying another issued token (first use of a token and cached use overlap).  Every read is
// recorded with the number of submissions completed before it began (kb) and started before it ended (ka); the
// oracle (driver) demands that its answer is the model's answer on the store after k submissions for some
// kb <= k <= ka (linearizable reads), and that the final table is the sequential one.
//
// case line: history ; x=free ; x=reads:<kind>.<kb>.<ka>.<answer>/...      (the realised reads are part of the
//            case: the run is not deterministic; a replay runs a new race on the same history)
// obs      : <final rows>|<answer>/<answer>/...|ev=ok   (or ev=<id>:<number of ADD events>,... for the stored headers that did
//            not get exactly one ADD event)
//   kind t : GET chain/tip/longest                      answer = id of the reported tip, or E<status>
//   kind v : POST chain/merkleroot/verify with the roots of the main-chain blocks at heights h(kb), h(kb)+1,
//            h(kb)+2 (h(k) = main-chain height after k submissions)  answer = verdict letters, or E<status>
//   kind h : GET chain/header/byHeight?height=h(kb)&count=3         answer = ids of the returned headers '+'-joined
//   kind H<height>c<count> : the same with explicit arguments (read storm on the final store)
//   kind M<height>c<batch> : GET chain/merkleroot?batchSize=<batch>&lastEvaluatedKey=<root of the main-chain block at
//            <height>> (no key for height 0)   answer = P<merkle id>:<height>+...k<merkle id of the page's last key or ->

import (
	"encoding/json"
	"fmt"
	"runtime"
	"sort"
	"strconv"
	"strings"
	"sync"
	"sync/atomic"
	"time"

	"github.com/bitcoin-sv/block-headers-service/internal/chaincfg/chainhash"
)

type c15Read struct {
	kind   string
	kb, ka int
	ans    string
}

type c15Page struct {
	Content []struct {
		MerkleRoot  string `json:"merkleRoot"`
		BlockHeight int64  `json:"blockHeight"`
	} `json:"content"`
	Page struct {
		LastEvaluatedKey string `json:"lastEvaluatedKey"`
	} `json:"page"`
}

// merkle id of a root as the API prints it ("?" for a root no submitted header carries)
func c15MerkTok(m *Mat, root string) string {
	h, err := chainhash.NewHashFromStr(root)
	if err != nil || h == nil {
		return "?"
	}
	if v, ok := m.MerkID[*h]; ok {
		return strconv.Itoa(v)
	}
	return "?"
}

func c15FreeHistory(n int) *History {
	h := &History{X: []string{"free"}}
	mk := func(id, prev int, bits uint32) Sub {
		return Sub{ID: id, Prev: prev, Bits: bits, Ver: 1, Merkle: id + 100, TS: uint32(1600000000 + id), Nonce: uint32(id)}
	}
	tip, parent := genesisID, 0
	for i := 0; i < n; i++ {
		id := i + 2
		h.Subs = append(h.Subs, mk(id, tip, bitsW2))
		parent, tip = tip, id
		if i%7 == 3 {
			// a sibling of the tip with the same work: stored STALE (first seen wins), one INSERT, no reorganisation
			h.Subs = append(h.Subs, mk(10000+i, parent, bitsW2))
		}
	}
	return h
}

func runC15Free(c *Ctx, runs, n int) error {
	for run := 0; run < runs; run++ {
		s, err := NewStack(StackOpts{Dir: c.TmpDir(fmt.Sprintf("c15free-%d", run)), UseAuth: true})
		if err != nil {
			return err
		}
		h := c15FreeHistory(n + 10*run)
		m, err := Materialize(h)
		if err != nil {
			s.Close()
			return err
		}
		s.SetForbidden(m.ForbiddenHashes())
		evc := &evCounter{n: map[string]int{}}
		s.Services.Notifier.AddChannel(evc)
		const readers = 3
		// tokens: issued through the service before the race; every request uses the next one
		var toks []string
		for i := 0; i < readers*40; i++ {
			t, err := s.Services.Tokens.GenerateToken()
			if err != nil || t == nil {
				s.Close()
				return fmt.Errorf("c15free: GenerateToken: %v", err)
			}
			toks = append(toks, t.Token)
		}
		// main-chain height after k submissions, and the main-chain sub at each height
		mainH := make([]int, len(h.Subs)+1)
		mainAt := map[int]Sub{}
		for i, sub := range h.Subs {
			mainH[i+1] = mainH[i]
			if sub.ID < 10000 {
				mainH[i+1]++
				mainAt[mainH[i+1]] = sub
			}
		}
		var started, completed int64
		var wg sync.WaitGroup
		wg.Add(1)
		go func() {
			defer wg.Done()
			for i := range h.Subs {
				atomic.StoreInt64(&started, int64(i+1))
				AddOutcome(s, m.Src[i])
				atomic.StoreInt64(&completed, int64(i+1))
			}
		}()
		reads := make([][]c15Read, readers)
		var rg sync.WaitGroup
		for r := 0; r < readers; r++ {
			rg.Add(1)
			go func(r int) {
				defer rg.Done()
				defer func() {
					if rec := recover(); rec != nil {
						reads[r] = append(reads[r], c15Read{"t", 0, 0, "PANIC"})
					}
				}()
				for i := 0; ; i++ {
					kb := int(atomic.LoadInt64(&completed))
					if kb >= len(h.Subs) {
						return
					}
					hdr := map[string]string{"Authorization": "Bearer " + toks[(r*40+i)%len(toks)]}
					kind := []string{"t", "v", "h"}[(i+r)%3]
					var ans string
					switch kind {
					case "t":
						code, body := s.Do("GET", "/api/v1/chain/tip/longest", "", hdr)
						ans = fmt.Sprintf("E%d", code)
						var t struct {
							Header struct {
								Hash string `json:"hash"`
							} `json:"header"`
						}
						if code == 200 && json.Unmarshal([]byte(body), &t) == nil && t.Header.Hash != "" {
							ans = strconv.Itoa(m.ID(t.Header.Hash))
						}
					case "v":
						type it struct {
							MerkleRoot  string `json:"merkleRoot"`
							BlockHeight int64  `json:"blockHeight"`
						}
						var items []it
						for d := 0; d < 3; d++ {
							if sub, ok := mainAt[mainH[kb]+d]; ok {
								items = append(items, it{merkleBytes(sub.Merkle).String(), int64(mainH[kb] + d)})
							}
						}
						if len(items) == 0 {
							continue
						}
						js, _ := json.Marshal(items)
						code, body := s.Do("POST", "/api/v1/chain/merkleroot/verify", string(js), hdr)
						ans = fmt.Sprintf("E%d", code)
						var resp struct {
							Confirmations []struct {
								Confirmation string `json:"confirmation"`
							} `json:"confirmations"`
						}
						if code == 200 && json.Unmarshal([]byte(body), &resp) == nil {
							ans = ""
							for _, cf := range resp.Confirmations {
								switch cf.Confirmation {
								case "CONFIRMED":
									ans += "C"
								case "UNABLE_TO_VERIFY":
									ans += "U"
								case "INVALID":
									ans += "I"
								default:
									ans += "?"
								}
							}
						}
					case "h":
						code, body := s.Do("GET", fmt.Sprintf("/api/v1/chain/header/byHeight?height=%d&count=3", mainH[kb]), "", hdr)
						ans = fmt.Sprintf("E%d", code)
						var hs []struct {
							Hash string `json:"hash"`
						}
						if code == 200 && json.Unmarshal([]byte(body), &hs) == nil {
							nums := []int{}
							for _, x := range hs {
								nums = append(nums, m.ID(x.Hash))
							}
							sort.Ints(nums)
							ids := []string{}
							for _, x := range nums {
								ids = append(ids, strconv.Itoa(x))
							}
							ans = "L" + strings.Join(ids, "+")
						}
					}
					ka := int(atomic.LoadInt64(&started))
					if len(reads[r]) < 400 {
						reads[r] = append(reads[r], c15Read{kind, kb, ka, ans})
					}
				}
			}(r)
		}
		wg.Wait()
		rg.Wait()
		// read storm on the now quiet store: 4 x NumCPU goroutines issue list requests with DIFFERENT arguments at the same
		// time (response buffers, pools and caches shared between requests must not leak one answer into another).
		// Each answer must be the model's answer on the final store (kb = ka = number of submissions).
		{
			nsub := len(h.Subs)
			top := mainH[nsub]
			ng := 4 * runtime.NumCPU() // more goroutines than processors: requests get descheduled mid-way
			if ng < 16 {
				ng = 16
			}
			storm := make([][]c15Read, ng)
			var sg sync.WaitGroup
			for g := 0; g < ng; g++ {
				sg.Add(1)
				go func(g int) {
					defer sg.Done()
					defer func() {
						if rec := recover(); rec != nil {
							storm[g] = append(storm[g], c15Read{"t", nsub, nsub, "PANIC"})
						}
					}()
					for i := 0; i < c.Pick(40, 200); i++ {
						if i%8 == 0 {
							runtime.Gosched()
						}
						hgt := (g*17 + i*5) % (top + 1)
						cnt := 1 + (g+i)%9
						hdr := map[string]string{"Authorization": "Bearer " + toks[(g*7+i)%len(toks)]}
						if i%2 == 1 {
							// a page of the merkle-root listing (row buffers of one page must not be shared with another request's)
							target := fmt.Sprintf("/api/v1/chain/merkleroot?batchSize=%d", cnt)
							if hgt > 0 {
								target += "&lastEvaluatedKey=" + merkleBytes(mainAt[hgt].Merkle).String()
							}
							code, body := s.Do("GET", target, "", hdr)
							ans := fmt.Sprintf("E%d", code)
							var pg c15Page
							if code == 200 && json.Unmarshal([]byte(body), &pg) == nil {
								parts := []string{}
								for _, e := range pg.Content {
									parts = append(parts, fmt.Sprintf("%s:%d", c15MerkTok(m, e.MerkleRoot), e.BlockHeight))
								}
								lk := "-"
								if pg.Page.LastEvaluatedKey != "" {
									lk = c15MerkTok(m, pg.Page.LastEvaluatedKey)
								}
								ans = "P" + strings.Join(parts, "+") + "k" + lk
							}
							storm[g] = append(storm[g], c15Read{fmt.Sprintf("M%dc%d", hgt, cnt), nsub, nsub, ans})
							continue
						}
						code, body := s.Do("GET", fmt.Sprintf("/api/v1/chain/header/byHeight?height=%d&count=%d", hgt, cnt), "", hdr)
						ans := fmt.Sprintf("E%d", code)
						var hs []struct {
							Hash string `json:"hash"`
						}
						if code == 200 && json.Unmarshal([]byte(body), &hs) == nil {
							nums := []int{}
							for _, x := range hs {
								nums = append(nums, m.ID(x.Hash))
							}
							sort.Ints(nums)
							ids := []string{}
							for _, x := range nums {
								ids = append(ids, strconv.Itoa(x))
							}
							ans = "L" + strings.Join(ids, "+")
						}
						storm[g] = append(storm[g], c15Read{fmt.Sprintf("H%dc%d", hgt, cnt), nsub, nsub, ans})
					}
				}(g)
			}
			sg.Wait()
			for g := range storm {
				reads = append(reads, storm[g])
			}
		}
		rows, err := s.DumpHeaders()
		// one ADD event per stored header, also when headers are stored back to back (deliveries run in their own
		// goroutines: wait briefly for them)
		for w := 0; w < 200 && evc.total() < len(rows)-1; w++ {
			time.Sleep(time.Millisecond)
		}
		time.Sleep(2 * time.Millisecond)
		evBad := []string{}
		for _, row := range rows {
			if row.Height == 0 {
				continue
			}
			if n := evc.get(row.Hash); n != 1 {
				evBad = append(evBad, fmt.Sprintf("%d:%d", m.ID(row.Hash), n))
			}
		}
		evs := "ev=ok"
		if len(evBad) > 0 {
			if len(evBad) > 12 {
				evBad = append(evBad[:12], "...")
			}
			evs = "ev=" + strings.Join(evBad, ",")
		}
		s.Close()
		if err != nil {
			return err
		}
		var toksIn, answers []string
		nk := map[string]int{}
		for r := range reads {
			for _, rd := range reads[r] {
				toksIn = append(toksIn, fmt.Sprintf("%s.%d.%d.%s", rd.kind, rd.kb, rd.ka, rd.ans))
				answers = append(answers, rd.ans)
				nk[rd.kind]++
			}
		}
		hh := &History{Subs: h.Subs, X: []string{"free", "reads:" + strings.Join(toksIn, "/")}}
		c.Case(hh.Line(), RowsString(rows, m)+"|"+strings.Join(answers, "/")+"|"+evs)
		c.Count("free-run")
		c.Meta(fmt.Sprintf("c15free_run_%d", run), fmt.Sprintf("submissions=%d reads=%d (tip %d, verify %d, byHeight %d)", len(h.Subs), len(answers), nk["t"], nk["v"], nk["h"]))
	}
	return nil
}
