//go:build verif

package main

// Generators of C16: concretisation of every abstract request class into several concrete requests, and
// mutation of valid requests (truncation, type swaps, huge numbers, absurd lengths, odd unicode).

import (
	"fmt"
	"net/url"
	"regexp"
	"strings"
)

type c16Gen struct {
	f *c16Fix
	c *Ctx
}

type c16GenReq struct {
	r    *c16Req
	want string // expected prefix of the class line ("" = no expectation)
}

const c16API = "/api/v1"

func (g *c16Gen) get(path, query string) *c16Req {
	return &c16Req{Method: "GET", Path: c16API + path, Query: query}
}
func (g *c16Gen) post(path, body string) *c16Req {
	return &c16Req{Method: "POST", Path: c16API + path, CT: "application/json", Body: c16Lit(body)}
}

func (g *c16Gen) unknownHashes() []string {
	return []string{
		strings.Repeat("0", 64), strings.Repeat("f", 64),
		"00000000000000000000000000000000000000000000000000000000deadbeef",
		"123456789abcdef0123456789abcdef0123456789abcdef0123456789abcdef0",
	}
}

func (g *c16Gen) malformedHashes() []string {
	k := g.f.rows[3%len(g.f.rows)].Hash
	return []string{
		"x", "0", "abc", k[:63], k + "0", strings.ToUpper(k), " " + k, k + " ", "0x" + k[2:],
		strings.Repeat("z", 64), "null", "undefined", "-1", "' OR '1'='1", `";DROP TABLE headers;--`,
		"%", "%00", "a\x00b", "\x00", "häsh", "\u202e" + k[:10], "\U0001F600", "\xff\xfe", "..", ".",
		strings.Repeat("a", 5000), strings.Repeat("é", 300), "{}", "[]", "a b", "a?b", "a#b", "a&b=c", "*",
	}
}

// hostileStrings: what percent-escapes in a path, query or header can decode to - bytes that are not valid UTF-8
// (%ff, %c3%28, truncated and overlong sequences, lone surrogates), control characters, U+FFFE/U+FFFF.
// (No '/' and never empty: they are used as single path segments too.)
func (g *c16Gen) hostileStrings() []string {
	if g.f.shape != "base" && !g.c.Thorough() {
		// quick tier: the full list on the base store (with and without metrics), the essentials on the others
		return []string{"\xff", "\xc3\x28", "\x00", "\x0a", "\xc0\xaf", "\xed\xa0\x80", "\xf0\x28\x8c\xbc", "%ff"}
	}
	return []string{"\xff", "\xfe\xff", "\xc3\x28", "\xc3", "\xe2\x82", "\xf0\x28\x8c\xbc", "\xf0\x90\x80", "\xc0\xaf", "\xc0\x80", "\xe0\x80\xaf",
		"\xed\xa0\x80", "\xed\xbf\xbf", "\xf4\x90\x80\x80", "\xf8\x88\x80\x80\x80", "\x80", "\xbf", "a\xffb", "\x00", "\x0a", "\x0d\x0a", "a\nb", "\x1b[31m", "\x7f",
		"\xef\xbf\xbe", "\xef\xbf\xbf", "\xef\xbb\xbf", "\u202e", "%ff", "%c3%28", "%00", "%"}
}

func c16Q(kv ...string) string {
	parts := []string{}
	for i := 0; i+1 < len(kv); i += 2 {
		parts = append(parts, kv[i]+"="+url.QueryEscape(kv[i+1]))
	}
	return strings.Join(parts, "&")
}

func (g *c16Gen) intStrings() (nums []string, junk []string) {
	nums = []string{"0", "1", "2", "3", "5", "6", "100", "-1", "-5", "+3", "007", "-0", "2147483647", "2147483648", "-2147483648",
		"-2147483649", "4294967296", "9223372036854775807", "9223372036854775808", "-9223372036854775808", "-9223372036854775809",
		"35184372088832", "35184372088833", "9007199254740992", "4611686018427387904", "1000000000000", "1000000000000000",
		"18446744073709551616", "99999999999999999999999999999999", "-99999999999999999999999999999999", "0000000000000000000000001"}
	junk = []string{"abc", "1.5", "1e3", "0x10", " 5", "5 ", "1_000", "٣", "５", "--5", "+-5", "+", "-", "NaN", "Infinity",
		"null", "true", "[]", "{}", "1,2", "5;", "\x00", "5\x00", strings.Repeat("9", 5000) + "x", "\U0001F600"}
	return
}

func (g *c16Gen) structured() []c16GenReq {
	f := g.f
	out := []c16GenReq{}
	add := func(r *c16Req, want string) { out = append(out, c16GenReq{r, want}) }
	nrows := len(f.rows)
	known := func(i int) string { return f.rows[i%nrows].Hash }

	// ---- header by hash / state
	for _, rt := range []struct{ path, name string }{{"/chain/header/", "hdr"}, {"/chain/header/state/", "state"}} {
		for i := 0; i < nrows; i++ {
			add(g.get(rt.path+known(i), ""), fmt.Sprintf("off %s h=k%d", rt.name, i))
		}
		for _, h := range g.unknownHashes() {
			add(g.get(rt.path+h, ""), "off "+rt.name+" h=unk")
		}
		for _, h := range g.malformedHashes() {
			add(g.get(rt.path+h, ""), "off "+rt.name+" h=mal")
		}
		for _, h := range g.hostileStrings() {
			add(g.get(rt.path+h, ""), "off "+rt.name+" h=mal")
			add(g.get(rt.path+known(2)[:20]+h+known(2)[20:], ""), "off "+rt.name+" h=mal")
		}
	}
	// ---- by height
	nums, junk := g.intStrings()
	counts := []struct{ present bool; v string }{{false, ""}, {true, ""}, {true, "1"}, {true, "3"}, {true, "0"}, {true, "-2"}, {true, "9223372036854775807"},
		{true, "99999999999999999999"}, {true, "abc"}, {true, "2147483648"}, {true, "4294967296"}, {true, "35184372088833"}, {true, "1000000000000"}}
	hq := func(h string, hp bool, ci int) string {
		kv := []string{}
		if hp {
			kv = append(kv, "height", h)
		}
		if counts[ci].present {
			kv = append(kv, "count", counts[ci].v)
		}
		return c16Q(kv...)
	}
	for i, h := range nums {
		for ci := range counts {
			if ci < 3 || (i+ci)%3 == 0 {
				add(g.get("/chain/header/byHeight", hq(h, true, ci)), "off byheight height=n:")
			}
		}
	}
	absurd := []string{"2147483648", "4294967296", "35184372088832", "35184372088833", "9007199254740992", "4611686018427387904",
		"9223372036854775807", "1000000000000", "1000000000000000", "-4294967296", "-9223372036854775808"}
	for _, h := range absurd {
		for _, n := range absurd {
			add(g.get("/chain/header/byHeight", c16Q("height", h, "count", n)), "off byheight height=n:")
		}
		add(g.get("/chain/header/byHeight", c16Q("height", "1", "count", h)), "off byheight height=n:1 count=n:")
		add(g.get("/chain/header/byHeight", c16Q("height", "0", "count", h)), "off byheight height=n:0 count=n:")
	}
	for i, h := range junk {
		for ci := range counts {
			if ci < 2 || (i+ci)%4 == 0 {
				add(g.get("/chain/header/byHeight", hq(h, true, ci)), "off byheight height=junk")
			}
		}
	}
	for ci := range counts {
		add(g.get("/chain/header/byHeight", hq("", false, ci)), "off byheight height=missing")
		add(g.get("/chain/header/byHeight", hq("", true, ci)), "off byheight height=empty")
	}
	for _, o := range g.hostileStrings() {
		add(g.get("/chain/header/byHeight", c16Q("height", o)), "")
		add(g.get("/chain/header/byHeight", c16Q("height", "1", "count", o)), "off byheight height=n:1")
		add(g.get("/chain/header/byHeight", "height="+o), "")           // raw, not escaped
		add(g.get("/chain/header/byHeight", "height=1&"+o+"="+o), "") // hostile key
		add(g.get("/chain/merkleroot", c16Q("batchSize", o)), "")
		add(g.get("/chain/merkleroot", c16Q("lastEvaluatedKey", o)), "")
		add(g.get("/chain/merkleroot", "lastEvaluatedKey="+o), "")
		add(g.get("/webhook", c16Q("url", o)), "")
		add(&c16Req{Method: "DELETE", Path: c16API + "/webhook", Query: c16Q("url", o)}, "")
		add(&c16Req{Method: "DELETE", Path: c16API + "/access/" + o}, "off accdel tok=other")
		add(&c16Req{Method: "DELETE", Path: c16API + "/access/" + c16UserToken + o}, "off accdel tok=other")
		// headers
		add(&c16Req{Method: "GET", Path: c16API + "/chain/tip", AuthOn: true, Auth: "Bearer " + o}, "")
		add(&c16Req{Method: "GET", Path: c16API + "/chain/tip", AuthOn: true, Auth: o}, "")
		add(&c16Req{Method: "POST", Path: c16API + "/webhook", CT: o, Body: c16Lit(`{"url":"http://c16.example/new"}`)}, "")
		add(&c16Req{Method: "POST", Path: c16API + "/webhook", CT: "application/json; charset=" + o, Body: c16Lit(`{"url":"http://c16.example/new"}`)}, "off whpost body=ok:new")
		// inside JSON strings (raw bytes; JSON escapes of lone surrogates are covered elsewhere)
		add(g.post("/chain/header/commonAncestor", `["`+known(2)+o+`"]`), "")
		add(g.post("/webhook", `{"url":"http://c16.example/`+o+`"}`), "")
	}
	add(g.get("/chain/header/byHeight", "height=1&height=abc"), "off byheight height=n:1")
	add(g.get("/chain/header/byHeight", "height=abc&height=1"), "off byheight height=junk")
	add(g.get("/chain/header/byHeight", "Height=1"), "off byheight height=missing")
	add(g.get("/chain/header/byHeight", "height=%zz"), "off byheight height=missing")
	add(g.get("/chain/header/byHeight", "height"), "off byheight height=empty")
	add(g.get("/chain/header/byHeight", "height=1;count=2"), "")
	add(g.get("/chain/header/byHeight", "count=2&&height=%31"), "off byheight height=n:1")
	// ---- ancestors
	for i := 0; i < nrows; i++ {
		for j := 0; j < nrows; j++ {
			add(g.get("/chain/header/"+known(i)+"/"+known(j)+"/ancestor", ""), fmt.Sprintf("off anc h=k%d a=k%d", i, j))
		}
	}
	others := append(append([]string{}, g.unknownHashes()[:2]...), g.malformedHashes()[:12]...)
	for n, o := range others {
		k := known(n % nrows)
		add(g.get("/chain/header/"+k+"/"+o+"/ancestor", ""), "off anc h=k")
		add(g.get("/chain/header/"+o+"/"+k+"/ancestor", ""), "off anc h=")
		add(g.get("/chain/header/"+o+"/"+others[(n+3)%len(others)]+"/ancestor", ""), "off anc h=")
	}
	for n, o := range g.hostileStrings() {
		add(g.get("/chain/header/"+known(n)+"/"+o+"/ancestor", ""), "off anc h=k")
		add(g.get("/chain/header/"+o+"/"+known(n)+"/ancestor", ""), "off anc h=mal a=k")
		add(g.get("/chain/header/"+o+"/"+o+"/ancestor", ""), "off anc h=mal a=mal")
	}
	add(g.get("/chain/header//x/ancestor", ""), "off anc h=mal a=mal") // an empty segment in the middle does match a parameter
	add(g.get("/chain/header/"+known(2)+"//ancestor", ""), "off anc h=k2 a=mal")
	add(g.get("/chain/header//"+known(2)+"/ancestor", ""), "off anc h=mal a=k2")
	// ---- long paths COMBINED with query strings (and without), long queries with short paths: what middleware that
	// formats or truncates "path?query" sees.  Lengths are TOTAL path lengths around 2048 and at 4096 / 8192 / 65536.
	{
		pad := func(prefix string, total int) string { // a path of exactly `total` bytes ending in one long segment
			if total <= len(prefix) {
				return prefix + "a"
			}
			return prefix + strings.Repeat("a", total-len(prefix))
		}
		full := f.shape == "base" || g.c.Thorough()
		lens := []int{2049}
		if full {
			lens = []int{}
			for n := 2040; n <= 2060; n++ {
				lens = append(lens, n)
			}
			lens = append(lens, 4096, 8192, 65536)
		}
		queries := []string{"x=1", ""}
		if full {
			queries = []string{"x=1", "", "x", "=", "height=1&count=2", "q=" + strings.Repeat("b", 3000)}
		}
		for _, n := range lens {
			for qi, q := range queries {
				if qi > 1 && n != 2049 && n != 8192 {
					continue
				}
				add(g.get(pad("/chain/header/", n-len(c16API)), q), "off hdr h=mal")
				if full && (n%4 == 1 || n > 2060) {
					add(g.get(pad("/chain/header/state/", n-len(c16API)), q), "off state h=mal")
					add(g.get(pad("/chain/header/", n-len(c16API)-len("/x/ancestor"))+"/x/ancestor", q), "off anc h=mal a=mal")
					add(g.get(pad("/chain/header/"+known(1)+"/", n-len(c16API)-len("/ancestor"))+"/ancestor", q), "off anc h=k")
					add(g.get(pad("/chain/header/"+known(1), n-len(c16API)), q), "off hdr h=mal") // a known hash with a long tail
					add(&c16Req{Method: "DELETE", Path: pad(c16API+"/access/", n), Query: q}, "off accdel tok=other")
					add(&c16Req{Method: "GET", Path: pad(c16API+"/nosuch/", n), Query: q}, "off unrouted")
					add(&c16Req{Method: "GET", Path: pad("/", n), Query: q}, "off unrouted")
					add(&c16Req{Method: "POST", Path: pad(c16API+"/webhook/", n), Query: q, CT: "application/json", Body: c16Lit("{}")}, "off unrouted")
				}
			}
			// short paths, query of that total length
			if full && (n%4 == 1 || n > 2060) {
				add(g.get("/chain/tip", "x="+strings.Repeat("b", n)), "off tip")
				add(g.get("/chain/header/byHeight", "height=1&pad="+strings.Repeat("b", n-len(c16API+"/chain/header/byHeight")-len("height=1&pad="))), "off byheight height=n:1")
				add(g.get("/chain/merkleroot", "batchSize=2&pad="+strings.Repeat("b", n)), "off mroots batch=n:2")
				add(g.get("/chain/header/"+known(1), strings.Repeat("b", n)), "off hdr h=k")
				add(g.get("/nosuch", strings.Repeat("b", n)), "off unrouted")
			}
		}
	}
	// ---- common ancestor
	js := func(ss ...string) string {
		q := []string{}
		for _, s := range ss {
			q = append(q, fmt.Sprintf("%q", s))
		}
		return "[" + strings.Join(q, ",") + "]"
	}
	for i := 0; i < nrows; i++ {
		add(g.post("/chain/header/commonAncestor", js(known(i))), fmt.Sprintf("off common body=list:k%d", i))
		for j := 0; j < nrows; j++ {
			if (i+j)%2 == 0 || i == 0 || j == 0 {
				add(g.post("/chain/header/commonAncestor", js(known(i), known(j))), "off common body=list:k")
			}
		}
	}
	for n := 0; n < g.c.Pick(150, 1500); n++ {
		k := 3 + g.c.Rng.Intn(3)
		ss := []string{}
		for x := 0; x < k; x++ {
			ss = append(ss, known(g.c.Rng.Intn(nrows)))
		}
		add(g.post("/chain/header/commonAncestor", js(ss...)), "off common body=list:k")
	}
	for n, o := range others {
		add(g.post("/chain/header/commonAncestor", js(o)), "off common body=list:")
		add(g.post("/chain/header/commonAncestor", js(known(1+n%5), o)), "off common body=list:k")
		add(g.post("/chain/header/commonAncestor", js(o, known(1+n%5))), "off common body=list:")
	}
	k5, k7 := known(5), known(7)
	for _, b := range []struct{ body, want string }{
		{"[]", "off common body=list:-"}, {" [ ] ", "off common body=list:-"}, {"[]garbage", "off common body=list:-"},
		{"null", "off common body=null"}, {"", "off common body=bad:empty"}, {"   ", "off common body=bad:empty"},
		{"{}", "off common body=bad:type"}, {`{"hashes":["` + k5 + `"]}`, "off common body=bad:type"}, {`"` + k5 + `"`, "off common body=bad:type"},
		{"5", "off common body=bad:type"}, {"true", "off common body=bad:type"}, {"[1,2]", "off common body=bad:type"},
		{`["` + k5 + `",5]`, "off common body=bad:type"}, {`[["` + k5 + `"]]`, "off common body=bad:type"}, {`[{}]`, "off common body=bad:type"},
		{`[null]`, "off common body=list:mal"}, {`["` + k5 + `",null]`, "off common body=list:k5,mal"}, {`[""]`, "off common body=list:mal"},
		{`["` + k5 + `"`, "off common body=bad:syntax"}, {`["` + k5, "off common body=bad:syntax"}, {`[`, "off common body=bad:syntax"},
		{`["` + k5 + `",]`, "off common body=bad:syntax"}, {"hello", "off common body=bad:syntax"}, {"<xml/>", "off common body=bad:syntax"},
		{"\x00\x01\x02", "off common body=bad:syntax"}, {"\xef\xbb\xbf[]", "off common body=bad:syntax"}, {`['` + k5 + `']`, "off common body=bad:syntax"},
		{`["\ud800"]`, "off common body=list:mal"}, {`["` + k5 + `\u0000"]`, "off common body=list:mal"}, {`["` + strings.ToUpper(k5) + `"]`, "off common body=list:mal"},
		{`["` + k5 + `"] ["` + k7 + `"]`, "off common body=list:k5"},
	} {
		add(g.post("/chain/header/commonAncestor", b.body), b.want)
	}
	// absurd lengths
	add(&c16Req{Method: "POST", Path: c16API + "/chain/header/commonAncestor", CT: "application/json",
		Body: []c16Piece{{"[", 1}, {`"` + k5 + `",`, g.c.Pick(400, 5000)}, {`"` + k5 + `"]`, 1}}}, "off common body=list:k5*")
	add(&c16Req{Method: "POST", Path: c16API + "/chain/header/commonAncestor", CT: "application/json",
		Body: []c16Piece{{"[", 1}, {`"` + k5 + `",`, 300}, {`"` + k7 + `"]`, 1}}}, "off common body=list:k5*300,k7")
	add(&c16Req{Method: "POST", Path: c16API + "/chain/header/commonAncestor", CT: "application/json",
		Body: []c16Piece{{`["`, 1}, {"ab", 200000}, {`"]`, 1}}}, "off common body=list:mal")
	add(&c16Req{Method: "POST", Path: c16API + "/chain/header/commonAncestor", CT: "application/json",
		Body: []c16Piece{{"[", 100000}}}, "off common body=bad:syntax")
	add(&c16Req{Method: "POST", Path: c16API + "/chain/header/commonAncestor", CT: "application/json",
		Body: []c16Piece{{"[", 1}, {`"x",`, 20000}, {`"x"]`, 1}}}, "off common body=list:mal*")
	// ---- merkle roots page
	lastVals := []struct{ present bool; v, want string }{{false, "", "none"}, {true, "", "none"}, {true, strings.Repeat("ab", 32), "unk"}, {true, "keyNotExisting", "unk"},
		{true, "'", "unk"}, {true, "a\x00", "unk"}, {true, strings.Repeat("7", 10000), "unk"}}
	for i := 0; i < nrows; i++ {
		lastVals = append(lastVals, struct{ present bool; v, want string }{true, f.rows[i].Merkle, fmt.Sprintf("k%d", i)})
	}
	mq := func(b string, bp bool, li int) string {
		kv := []string{}
		if bp {
			kv = append(kv, "batchSize", b)
		}
		if lastVals[li].present {
			kv = append(kv, "lastEvaluatedKey", lastVals[li].v)
		}
		return c16Q(kv...)
	}
	for li := range lastVals {
		add(g.get("/chain/merkleroot", mq("", false, li)), "off mroots batch=missing last="+lastVals[li].want)
		add(g.get("/chain/merkleroot", mq("", true, li)), "off mroots batch=empty last="+lastVals[li].want)
		add(g.get("/chain/merkleroot", mq("2", true, li)), "off mroots batch=n:2 last="+lastVals[li].want)
	}
	for i, b := range nums {
		for li := range lastVals {
			if li < 2 || (i+li)%5 == 0 {
				add(g.get("/chain/merkleroot", mq(b, true, li)), "off mroots batch=n:")
			}
		}
	}
	for _, b := range absurd {
		for li := range lastVals {
			if li < 4 || li >= len(lastVals)-3 {
				add(g.get("/chain/merkleroot", mq(b, true, li)), "off mroots batch=n:")
			}
		}
	}
	for i, b := range junk {
		for li := range lastVals {
			if li < 1 || (i+li)%7 == 0 {
				add(g.get("/chain/merkleroot", mq(b, true, li)), "off mroots batch=junk")
			}
		}
	}
	// ---- verify
	m1, m6 := f.rows[1%nrows].Merkle, f.rows[6%nrows].Merkle
	item := func(m string, h string) string { return `{"merkleRoot":"` + m + `","blockHeight":` + h + `}` }
	for _, b := range []struct{ body, want string }{
		{"[" + item(m1, "1") + "]", "list:1"}, {"[" + item(m1, "1") + "," + item(m6, "3") + "]", "list:2"}, {"[" + item(m1, "0") + "]", "list:1"},
		{"[" + item(m1, "2147483647") + "]", "list:1"}, {"[" + item(m1, "-2147483648") + "]", "list:1"}, {"[" + item(m1, "-1") + "]", "list:1"},
		{"[" + item(m1, "-0") + "]", "list:1"}, {"[" + item("", "1") + "]", "list:1"}, {"[" + item("zz", "100") + "]", "list:1"},
		{"[" + item(strings.Repeat("ab", 5000), "1") + "]", "list:1"}, {"[" + item("\u202e\U0001F600", "1") + "]", "list:1"},
		{"[{}]", "list:1"}, {"[null]", "list:1"}, {`[{"merkleRoot":null,"blockHeight":null}]`, "list:1"}, {`[{"MERKLEROOT":"x","BLOCKHEIGHT":3}]`, "list:1"},
		{`[{"other":[1,2,{"a":null}]}]`, "list:1"}, {"[" + item(m1, "1") + "] trailing", "list:1"},
		{"[]", "list:0"}, {"null", "null"}, {"", "bad:empty"}, {"\n\t ", "bad:empty"},
		{"[" + item(m1, "2147483648") + "]", "bad:range"}, {"[" + item(m1, "-2147483649") + "]", "bad:range"}, {"[" + item(m1, "99999999999999999999999") + "]", "bad:range"},
		{"[" + item(m1, "1.5") + "]", "bad:range"}, {"[" + item(m1, "1e2") + "]", "bad:range"}, {"[" + item(m1, "1.0") + "]", "bad:range"},
		{"[" + item(m1, `"1"`) + "]", "bad:type"}, {"[" + item(m1, "true") + "]", "bad:type"}, {"[" + item(m1, "[1]") + "]", "bad:type"},
		{`[{"merkleRoot":5,"blockHeight":1}]`, "bad:type"}, {`[{"merkleRoot":["a"],"blockHeight":1}]`, "bad:type"}, {`[{"merkleRoot":{},"blockHeight":1}]`, "bad:type"},
		{"{}", "bad:type"}, {item(m1, "1"), "bad:type"}, {`"str"`, "bad:type"}, {"5", "bad:type"}, {"false", "bad:type"}, {"[1]", "bad:type"}, {`["a"]`, "bad:type"}, {"[[]]", "bad:type"},
		{"[" + item(m1, "1"), "bad:syntax"}, {`[{"merkleRoot":"` + m1, "bad:syntax"}, {"[{", "bad:syntax"}, {"hello", "bad:syntax"}, {"[" + item(m1, "1") + ",]", "bad:syntax"},
		{"[" + item(m1, "01") + "]", "bad:syntax"}, {"[" + item(m1, "+1") + "]", "bad:syntax"}, {"[" + item(m1, "NaN") + "]", "bad:syntax"}, {"\xff\xfe[]", "bad:syntax"},
	} {
		add(g.post("/chain/merkleroot/verify", b.body), "off verify body="+b.want)
	}
	add(&c16Req{Method: "POST", Path: c16API + "/chain/merkleroot/verify", CT: "application/json",
		Body: []c16Piece{{"[", 1}, {item(m1, "1") + ",", g.c.Pick(3000, 50000)}, {item(m6, "3") + "]", 1}}}, "off verify body=list:")
	add(&c16Req{Method: "POST", Path: c16API + "/chain/merkleroot/verify", CT: "application/json",
		Body: []c16Piece{{"[", 1}, {"{", 50000}}}, "off verify body=bad:syntax")
	for _, n := range absurd {
		add(g.post("/chain/merkleroot/verify", "["+item(m1, n)+"]"), "off verify body=bad:range")
	}
	add(&c16Req{Method: "POST", Path: c16API + "/chain/merkleroot/verify", CT: "application/json",
		Body: []c16Piece{{"[", 1}, {"null,", g.c.Pick(8000, 200000)}, {"null]", 1}}}, "off verify body=list:")
	add(&c16Req{Method: "POST", Path: c16API + "/chain/merkleroot/verify", CT: "application/json",
		Body: []c16Piece{{`[{"merkleRoot":"`, 1}, {"ab", g.c.Pick(1000000, 8000000)}, {`","blockHeight":1,"pad":[`, 1}, {"0,", g.c.Pick(100000, 1000000)}, {"0]}]", 1}}}, "off verify body=list:1")
	add(&c16Req{Method: "POST", Path: c16API + "/chain/header/commonAncestor", CT: "application/json",
		Body: []c16Piece{{"[", 1}, {`"x",`, g.c.Pick(100000, 2000000)}, {`"x"]`, 1}}}, "off common body=list:mal*")
	add(&c16Req{Method: "POST", Path: c16API + "/webhook", CT: "application/json",
		Body: []c16Piece{{`{"url":"http://c16.example/new","extra":[`, 1}, {"0,", g.c.Pick(100000, 2000000)}, {`0]}`, 1}}}, "off whpost body=ok:new")
	// ---- client-supplied LISTS at the sizes where they stop fitting into bound SQL variables / IN lists
	// (SQLite: 32766 variables, PostgreSQL: 65535; 999 = the old SQLite default).  Exact element counts.
	// quick: one size above 32766 for verify (store genesis) and commonAncestor (store tallorphan) - the two stores
	// that finish first; thorough: every boundary on the base store, in the memory-limited child like all big bodies.
	{
		listBody := func(el string, n int) []c16Piece {
			return []c16Piece{{"[", 1}, {el + ",", n - 1}, {el + "]", 1}}
		}
		var vSizes, cSizes, oSizes []int
		all := []int{999, 1000, 32766, 32767, 32768, 65535, 65536}
		switch {
		case g.c.Thorough() && f.shape == "base":
			vSizes, cSizes, oSizes = all, all, all
		case !g.c.Thorough() && f.shape == "genesis":
			vSizes, oSizes = []int{32767}, []int{32767}
		case !g.c.Thorough() && f.shape == "tallorphan":
			cSizes = []int{32767}
		}
		deep := known(nrows - 1) // the last row: a header that is not genesis wherever the store has more than genesis
		for _, n := range vSizes {
			add(&c16Req{Method: "POST", Path: c16API + "/chain/merkleroot/verify", CT: "application/json", Body: listBody(item(m1, "1"), n)},
				fmt.Sprintf("off verify body=list:%d", n))
		}
		for _, n := range cSizes {
			add(&c16Req{Method: "POST", Path: c16API + "/chain/header/commonAncestor", CT: "application/json", Body: listBody(`"`+deep+`"`, n)},
				fmt.Sprintf("off common body=list:k%d*%d", nrows-1, n))
			add(&c16Req{Method: "POST", Path: c16API + "/chain/header/commonAncestor", CT: "application/json", Body: listBody(`"`+g.unknownHashes()[2]+`"`, n)},
				fmt.Sprintf("off common body=list:unk*%d", n))
		}
		for _, n := range oSizes {
			// bodies of the routes that bind no list: an array where an object / nothing is expected, and a huge ignored member
			add(&c16Req{Method: "POST", Path: c16API + "/webhook", CT: "application/json", Body: listBody(`"http://c16.example/new"`, n)}, "off whpost body=bad:type")
			add(&c16Req{Method: "POST", Path: c16API + "/webhook", CT: "application/json",
				Body: append(append([]c16Piece{{`{"url":"http://c16.example/new","requiredAuth":{"type":"bearer","token":"t"},"urls":`, 1}}, listBody(`"http://c16.example/x"`, n)...), c16Piece{"}", 1})}, "off whpost body=ok:new")
			add(&c16Req{Method: "POST", Path: c16API + "/access", CT: "application/json", Body: listBody(`"`+c16UserToken+`"`, n)}, "off accpost")
		}
	}
	for i := 0; i < nrows; i++ {
		add(g.post("/chain/merkleroot/verify", "["+item(f.rows[i].Merkle, fmt.Sprint(f.rows[i].Height))+"]"), "off verify body=list:1")
	}
	// ---- webhooks
	wj := func(u string) string { return fmt.Sprintf(`{"url":%q,"requiredAuth":{"type":"bearer","token":"t","header":""}}`, u) }
	newURL := "http://c16.example/new"
	for _, b := range []struct{ body, want string }{
		{wj(newURL), "ok:new"}, {wj(c16ActiveURL), "ok:act"}, {wj(c16InactiveURL), "ok:inact"}, {wj(""), "ok:empty"},
		{fmt.Sprintf(`{"url":%q}`, newURL), "ok:new"}, {fmt.Sprintf(`{"URL":%q}`, newURL), "ok:new"}, {`{}`, "ok:empty"}, {`null`, "ok:empty"}, {`{"url":null}`, "ok:empty"},
		{fmt.Sprintf(`{"url":%q,"requiredAuth":null}`, newURL), "ok:new"}, {fmt.Sprintf(`{"url":%q,"requiredAuth":{}}`, newURL), "ok:new"},
		{fmt.Sprintf(`{"url":%q,"requiredAuth":{"type":null,"x":1}}`, newURL), "ok:new"}, {fmt.Sprintf(`{"url":%q,"extra":[1,2,3]}`, newURL), "ok:new"},
		{fmt.Sprintf(`{"url":%q} trailing`, newURL), "ok:new"},
		{fmt.Sprintf(`{"url":%q}`, "not a url at all \u202e\U0001F600"), "ok:new"}, {fmt.Sprintf(`{"url":%q}`, strings.Repeat("http://x/", 3000)), "ok:new"},
		{fmt.Sprintf(`{"url":%q}`, " "+c16ActiveURL), "ok:new"}, {fmt.Sprintf(`{"url":%q}`, strings.ToUpper(c16ActiveURL)), "ok:new"},
		{fmt.Sprintf(`{"url":%q,"requiredAuth":"bearer"}`, newURL), "partial:new"}, {fmt.Sprintf(`{"requiredAuth":5,"url":%q}`, newURL), "partial:new"},
		{fmt.Sprintf(`{"url":%q,"requiredAuth":{"type":5}}`, newURL), "partial:new"}, {fmt.Sprintf(`{"url":%q,"requiredAuth":{"token":["x"]}}`, c16ActiveURL), "partial:act"},
		{fmt.Sprintf(`{"url":%q,"requiredAuth":[]}`, c16InactiveURL), "partial:inact"}, {fmt.Sprintf(`{"url":%q,"requiredAuth":true}`, newURL), "partial:new"},
		{`{"url":5}`, "bad:type"}, {`{"url":["http://x"]}`, "bad:type"}, {`{"url":{"a":1}}`, "bad:type"}, {`{"url":true}`, "bad:type"}, {`{"requiredAuth":5}`, "bad:type"},
		{`[]`, "bad:type"}, {`[` + wj(newURL) + `]`, "bad:type"}, {`"` + newURL + `"`, "bad:type"}, {`5`, "bad:type"}, {`true`, "bad:type"},
		{``, "bad:empty"}, {`  `, "bad:empty"}, {`{"url":"` + newURL, "bad:syntax"}, {`{"url":`, "bad:syntax"}, {`{`, "bad:syntax"}, {`not json`, "bad:syntax"},
		{`url=` + newURL, "bad:syntax"}, {`<Request><URL>x</URL></Request>`, "bad:syntax"}, {`{'url':'x'}`, "bad:syntax"}, {`{"url":"x",}`, "bad:syntax"}, {"\x00", "bad:syntax"},
	} {
		add(g.post("/webhook", b.body), "off whpost body="+b.want)
	}
	add(&c16Req{Method: "POST", Path: c16API + "/webhook", CT: "application/json", Body: []c16Piece{{`{"url":"`, 1}, {"a", 300000}}}, "off whpost body=bad:syntax")
	add(&c16Req{Method: "POST", Path: c16API + "/webhook", CT: "application/json", Body: []c16Piece{{`{"url":"`, 1}, {"a", 300000}, {`"}`, 1}}}, "off whpost body=ok:new")
	for _, ct := range []string{"application/json; charset=utf-8", "application/json;x", "application/json garbage"} {
		add(&c16Req{Method: "POST", Path: c16API + "/webhook", CT: ct, Body: c16Lit(wj(newURL))}, "off whpost body=ok:new")
		add(&c16Req{Method: "POST", Path: c16API + "/webhook", CT: ct, Body: c16Lit("nope")}, "off whpost body=bad:syntax")
	}
	for _, ct := range []string{"", "text/plain", "application/x-www-form-urlencoded", "application/octet-stream", "APPLICATION/JSON", "application/jsonx"} {
		want := "off whpost body=ok:empty"
		add(&c16Req{Method: "POST", Path: c16API + "/webhook", CT: ct, Body: c16Lit(wj(newURL))}, want)
		add(&c16Req{Method: "POST", Path: c16API + "/webhook", CT: ct}, want)
		add(&c16Req{Method: "POST", Path: c16API + "/webhook", CT: ct, Query: c16Q("URL", newURL)}, "off whpost body=ok:new")
		add(&c16Req{Method: "POST", Path: c16API + "/webhook", CT: ct, Query: c16Q("URL", c16ActiveURL, "Type", "bearer")}, "off whpost body=ok:act")
		add(&c16Req{Method: "POST", Path: c16API + "/webhook", CT: ct, Query: c16Q("url", newURL)}, want)
	}
	add(&c16Req{Method: "POST", Path: c16API + "/webhook", CT: "application/x-www-form-urlencoded", Body: c16Lit(c16Q("URL", newURL))}, "off whpost body=ok:new")
	add(&c16Req{Method: "POST", Path: c16API + "/webhook", CT: "application/x-www-form-urlencoded", Body: c16Lit("URL=%zz")}, "off whpost body=bad:form")
	add(&c16Req{Method: "POST", Path: c16API + "/webhook", CT: "é/é", Body: c16Lit(wj(newURL))}, "off whpost body=bad:form")
	add(&c16Req{Method: "POST", Path: c16API + "/webhook", CT: "application/x-protobuf", Body: c16Lit(wj(newURL))}, "off whpost body=bad:proto")
	for _, m := range []string{"GET", "DELETE"} {
		rn := map[string]string{"GET": "whget", "DELETE": "whdel"}[m]
		for _, u := range []struct{ q, want string }{
			{"", "none"}, {"url=", "none"}, {"url", "none"}, {"URL=" + newURL, "none"}, {c16Q("url", newURL), "new"}, {c16Q("url", c16ActiveURL), "act"},
			{c16Q("url", c16InactiveURL), "inact"}, {c16Q("url", c16ActiveURL+"/"), "new"}, {c16Q("url", "'"), "new"}, {c16Q("url", "\x00"), "new"},
			{c16Q("url", strings.Repeat("x", 100000)), "new"}, {"url=&url=" + url.QueryEscape(c16ActiveURL), "none"}, {"url=%zz", "none"},
			{c16Q("url", "\u202e\U0001F600"), "new"},
		} {
			add(&c16Req{Method: m, Path: c16API + "/webhook", Query: u.q}, "off "+rn+" url="+u.want)
		}
	}
	// ---- access, tips, network
	add(g.get("/access", ""), "off accget")
	add(&c16Req{Method: "POST", Path: c16API + "/access"}, "off accpost")
	add(&c16Req{Method: "POST", Path: c16API + "/access", CT: "application/json", Body: c16Lit(`{"isAdmin":true}`)}, "off accpost")
	add(&c16Req{Method: "DELETE", Path: c16API + "/access/" + c16UserToken}, "off accdel tok=known")
	for _, t := range append([]string{f.admin, "nosuchtoken", strings.ToUpper(c16UserToken)}, g.malformedHashes()[:20]...) {
		add(&c16Req{Method: "DELETE", Path: c16API + "/access/" + t}, "off accdel tok=other")
	}
	for _, p := range []string{"/chain/tip", "/chain/tip/longest", "/network/peer", "/network/peer/count"} {
		add(g.get(p, ""), "off ")
		add(g.get(p, "x=1&height=abc"), "off ")
	}
	// ---- every structured class once more with auth enabled: each header class on one representative request per route,
	// plus the whole structured set with the admin token / the user token on a stride
	reps := map[string]*c16Req{}
	for _, gr := range out {
		if len(gr.r.Body) > 1 {
			continue // the absurd-length bodies are no representatives
		}
		_, route, skip := f.classify(gr.r)
		if skip == "" && route != "unrouted" {
			if _, ok := reps[route]; !ok {
				reps[route] = gr.r
			}
		}
	}
	authHdrs := []struct{ h, cls string }{
		{"", "none"}, {"Bearer", "badfmt"}, {"bearer " + f.admin, "badfmt"}, {"Bearer  " + f.admin, "badfmt"}, {"Bearer " + f.admin + " x", "badfmt"},
		{"Basic dXNlcjpwYXNz", "badfmt"}, {f.admin, "badfmt"}, {"Bearer\t" + f.admin, "badfmt"}, {"é", "badfmt"},
		{"Bearer nosuchtoken", "unk"}, {"Bearer " + strings.ToUpper(f.admin), "unk"}, {"Bearer '", "unk"}, {"Bearer " + strings.Repeat("t", 100000), "unk"}, {"Bearer ", "unk"},
		{"Bearer " + c16UserToken, "user"}, {"Bearer " + f.admin, "admin"},
	}
	base := len(out)
	strideWant := func(pref string, i int) string { // unroutable requests stay unroutable whatever the header
		if out[i].want == "off unrouted" {
			return "off unrouted"
		}
		return pref
	}
	routes := []string{}
	for rn := range reps {
		routes = append(routes, rn)
	}
	sortStrings(routes)
	for _, rn := range routes {
		for _, ah := range authHdrs {
			r := *reps[rn]
			r.AuthOn, r.Auth = true, ah.h
			add(&r, ah.cls+" "+rn)
		}
	}
	for i := 0; i < base; i++ {
		if i%4 == 0 {
			r := *out[i].r
			r.AuthOn, r.Auth = true, "Bearer "+f.admin
			add(&r, strideWant("admin ", i))
		}
		if i%9 == 0 {
			r := *out[i].r
			r.AuthOn, r.Auth = true, "Bearer "+c16UserToken
			add(&r, strideWant("user ", i))
		}
		if i%50 == 0 && !out[i].r.AuthOn {
			r := *out[i].r
			r.Auth = "Bearer nosuchtoken" // auth disabled: the header is ignored
			add(&r, strideWant("off ", i))
		}
	}
	// ---- unroutable requests (gin's own answers; outside the model, observed only for "no 5xx, nothing changed")
	for _, u := range []struct{ m, p string }{
		{"GET", "/"}, {"GET", "/api"}, {"GET", "/api/v1"}, {"GET", "/api/v1/"}, {"GET", "/api/v1/nosuch"}, {"GET", "/api/v2/chain/tip"},
		{"GET", "/api/v1/chain/tip/"}, {"POST", "/api/v1/webhook/"}, {"GET", "/api/v1/chain/header/"},
		{"PUT", "/api/v1/webhook"}, {"PATCH", "/api/v1/access"}, {"HEAD", "/api/v1/chain/tip"}, {"OPTIONS", "/api/v1/chain/tip"}, {"POST", "/api/v1/chain/tip"},
		{"DELETE", "/api/v1/chain/header/" + known(1)}, {"GET", "/api/v1/chain/header/" + known(1) + "/" + known(0) + "/ancestors"},
		{"GET", "/api/v1/chain/header/a/b/c/d"}, {"DELETE", "/api/v1/access"}, {"DELETE", "/api/v1/access/a/b"}, {"GET", "/API/V1/chain/tip"},
		{"get", "/api/v1/chain/tip"}, {"", "/api/v1/chain/tip"}, {"GET", ""}, {"GET", "api/v1/chain/tip"}, {"GET", "/api/v1/chain/merkleroot/verify"},
		{"POST", "/api/v1/chain/merkleroot"}, {"GET", "/api/v1/../status"}, {"GET", "/api/v1/chain/header/state/"}, {"TRACE", "/api/v1/access"},
	} {
		add(&c16Req{Method: u.m, Path: u.p}, "off unrouted")
		add(&c16Req{Method: u.m, Path: u.p, AuthOn: true}, "off unrouted")
	}
	for _, o := range g.hostileStrings() {
		for _, pth := range []string{"/" + o, "/api/" + o, "/api/v1/" + o, "/api/v1/nosuch/" + o, "/api/v1/chain/tip/" + o, "/api/v1/chain/tip/longest/" + o,
			"/api/v1/" + o + "/header/" + known(1), "/api/v1/network/peer/count/" + o, "/api/v1/chain/" + o} {
			add(&c16Req{Method: "GET", Path: pth}, "off unrouted")
		}
		add(&c16Req{Method: "POST", Path: "/api/v1/webhook/" + o, CT: "application/json", Body: c16Lit("{}")}, "off unrouted")
		add(&c16Req{Method: "DELETE", Path: "/api/v1/access/x/" + o}, "off unrouted")
	}
	return out
}

func sortStrings(s []string) {
	for i := 1; i < len(s); i++ {
		for j := i; j > 0 && s[j] < s[j-1]; j-- {
			s[j], s[j-1] = s[j-1], s[j]
		}
	}
}

var (
	c16ReJSONString = regexp.MustCompile(`"(?:[^"\\]|\\.)*"`)
	c16ReJSONNumber = regexp.MustCompile(`-?[0-9]+`)
)

// mutated derives n requests from valid ones: truncation, type swaps, huge numbers, absurd lengths, odd unicode,
// byte flips - on bodies, path segments and query values.
func (g *c16Gen) mutated(n int) []*c16Req {
	f := g.f
	rng := g.c.Rng
	k := func(i int) string { return f.rows[i%len(f.rows)].Hash }
	m := func(i int) string { return f.rows[i%len(f.rows)].Merkle }
	seeds := func() *c16Req {
		i, j := rng.Intn(len(f.rows)), rng.Intn(len(f.rows))
		switch rng.Intn(12) {
		case 0:
			return g.get("/chain/header/"+k(i), "")
		case 1:
			return g.get("/chain/header/state/"+k(i), "")
		case 2:
			return g.get("/chain/header/byHeight", fmt.Sprintf("height=%d&count=%d", rng.Intn(7), 1+rng.Intn(4)))
		case 3:
			return g.get("/chain/header/"+k(i)+"/"+k(j)+"/ancestor", "")
		case 4, 5:
			return g.post("/chain/header/commonAncestor", fmt.Sprintf(`["%s","%s"]`, k(i), k(j)))
		case 6:
			return g.get("/chain/merkleroot", fmt.Sprintf("batchSize=%d&lastEvaluatedKey=%s", 1+rng.Intn(5), m(i)))
		case 7, 8:
			return g.post("/chain/merkleroot/verify", fmt.Sprintf(`[{"merkleRoot":"%s","blockHeight":%d},{"merkleRoot":"%s","blockHeight":%d}]`, m(i), f.rows[i].Height, m(j), rng.Intn(9)))
		case 9, 10:
			return g.post("/webhook", fmt.Sprintf(`{"url":"http://c16.example/m%d","requiredAuth":{"type":"bearer","token":"tok%d","header":"X-H"}}`, rng.Intn(3), rng.Intn(100)))
		default:
			return &c16Req{Method: []string{"GET", "DELETE"}[rng.Intn(2)], Path: c16API + "/webhook", Query: "url=" + url.QueryEscape([]string{c16ActiveURL, c16InactiveURL, "http://c16.example/other"}[rng.Intn(3)])}
		}
	}
	odd := []string{"\u202e", "\U0001F600", "\u0000", "\ufeff", "\xff", "\xc3\x28", "é", " ", "\\", `"`, "'", "%", "\x7f", "٣",
		"\n", "\xed\xa0\x80", "\xc0\xaf", "\xf0\x28\x8c\xbc", "\xef\xbf\xbe", "\x80"}
	repl := []string{"123", "null", "{}", "[]", "true", "-1", "1.5", `""`, `{"a":1}`, `[1]`, "99999999999999999999", "1e400"}
	bigs := []string{"2147483648", "-2147483649", "4294967296", "9223372036854775808", "-9223372036854775809", "123456789012345678901234567890", "1e3", "0.5", "-0", "00", "1" + strings.Repeat("0", 400)}
	mutBody := func(b string) string {
		if b == "" {
			return b
		}
		switch rng.Intn(9) {
		case 0: // truncation
			return b[:rng.Intn(len(b))]
		case 1: // a string becomes something else
			loc := c16ReJSONString.FindAllStringIndex(b, -1)
			if len(loc) > 0 {
				l := loc[rng.Intn(len(loc))]
				return b[:l[0]] + repl[rng.Intn(len(repl))] + b[l[1]:]
			}
		case 2: // a number becomes huge / fractional / a string
			loc := c16ReJSONNumber.FindAllStringIndex(b, -1)
			if len(loc) > 0 {
				l := loc[rng.Intn(len(loc))]
				v := bigs[rng.Intn(len(bigs))]
				if rng.Intn(4) == 0 {
					v = `"` + v + `"`
				}
				return b[:l[0]] + v + b[l[1]:]
			}
		case 3: // odd unicode inside a string
			loc := c16ReJSONString.FindAllStringIndex(b, -1)
			if len(loc) > 0 {
				l := loc[rng.Intn(len(loc))]
				p := l[0] + 1 + rng.Intn(l[1]-l[0]-1)
				return b[:p] + odd[rng.Intn(len(odd))] + b[p:]
			}
		case 4: // byte flip
			p := rng.Intn(len(b))
			return b[:p] + string([]byte{b[p] ^ byte(1<<uint(rng.Intn(8)))}) + b[p+1:]
		case 5: // wrapped
			return []string{"[" + b + "]", `{"x":` + b + `}`, `"` + strings.ReplaceAll(b, `"`, `\"`) + `"`, b + b, b + "," + b}[rng.Intn(5)]
		case 6: // a delimiter dropped or doubled
			off := rng.Intn(len(b))
			p := strings.IndexAny(b[off:], `{}[],:"`)
			if p >= 0 {
				p += off
				return b[:p] + b[p+1:]
			}
		case 7: // emptied containers
			return []string{"[]", "{}", "null", "[null]", "[[]]", "[{}]", ""}[rng.Intn(7)]
		}
		return b + odd[rng.Intn(len(odd))]
	}
	mutSeg := func(s string) string {
		if s == "" {
			return odd[rng.Intn(len(odd))]
		}
		switch rng.Intn(7) {
		case 0:
			if len(s) > 1 {
				return s[:1+rng.Intn(len(s)-1)]
			}
		case 1:
			return s + string("0123456789abcdefXYZ"[rng.Intn(19)])
		case 2:
			return strings.ToUpper(s)
		case 3:
			p := rng.Intn(len(s))
			return s[:p] + odd[rng.Intn(len(odd))] + s[p:]
		case 4:
			p := rng.Intn(len(s))
			return s[:p] + string("0123456789abcdef"[rng.Intn(16)]) + s[p+1:]
		case 5:
			return strings.Repeat(s, 1+rng.Intn(40))
		}
		return bigs[rng.Intn(len(bigs))]
	}
	out := []*c16Req{}
	for len(out) < n {
		r := seeds()
		nm := 1 + rng.Intn(2)
		for x := 0; x < nm; x++ {
			switch {
			case len(r.Body) > 0 && rng.Intn(4) != 0:
				r.Body = c16Lit(mutBody(r.body()))
			case r.Query != "" && rng.Intn(3) != 0:
				vals, _ := url.ParseQuery(r.Query)
				keys := []string{}
				for kk := range vals {
					keys = append(keys, kk)
				}
				sortStrings(keys)
				kk := keys[rng.Intn(len(keys))]
				switch rng.Intn(5) {
				case 0:
					vals.Del(kk)
				case 1:
					vals[kk] = []string{bigs[rng.Intn(len(bigs))]}
				case 2:
					vals[kk] = []string{mutSeg(vals[kk][0])}
				case 3:
					vals[strings.ToUpper(kk)] = vals[kk]
					vals.Del(kk)
				default:
					vals[kk] = []string{"", vals[kk][0]}
				}
				r.Query = vals.Encode()
			default:
				seg := strings.Split(r.Path, "/")
				// only the parameter segments (hash-like) are mutated, never the literal route words
				cand := []int{}
				for i, s := range seg {
					if len(s) >= 32 {
						cand = append(cand, i)
					}
				}
				if len(cand) > 0 {
					i := cand[rng.Intn(len(cand))]
					s := mutSeg(seg[i])
					s = strings.ReplaceAll(s, "/", "_")
					if s != "" {
						seg[i] = s
					}
					r.Path = strings.Join(seg, "/")
				} else if len(r.Body) > 0 {
					r.Body = c16Lit(mutBody(r.body()))
				}
			}
		}
		if rng.Intn(6) == 0 {
			r.AuthOn = true
			r.Auth = []string{"Bearer " + f.admin, "Bearer " + c16UserToken, "Bearer " + f.admin, "", "Bearer zzz"}[rng.Intn(5)]
		}
		out = append(out, r)
	}
	return out
}
