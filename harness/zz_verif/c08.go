//go:build verif

package main

// C08: merkle-root listing pages cover the longest chain exactly once, in order.
//
// A case is a ';'-separated operation list (replayable with --only, shrinkable by dropping operations):
//
//   g=<genesis>;f=<forbidden ids>;[ho=<ids in ascending order of their hash text>;][zw=1;]<op>;<op>;...
//   (zw=1: the history contains zero-work headers - the history-level oracle is not applied, model = implementation only)
//
//   op = <id>,<prev>,<bits>,<ver>,<merkle>,<ts>,<nonce>   Chains.Add of that header (common_chain.go syntax)
//      | p=<batch>:<key>    one GET /api/v1/chain/merkleroot?batchSize=<batch>&lastEvaluatedKey=<key>
//      | w=<batch>          a full walk: start with the empty key, pass every page's lastEvaluatedKey on until it
//                           comes back empty or an error is answered (at most rows+3 pages)
//      | c=<batch>          the next page of the interleaved walk (cursor = last key returned by the previous c=;
//                           starts empty; unchanged by an error)
//      | z=                 reset the cursor of the interleaved walk
//      | d=S                damage: UPDATE headers SET header_state = 'STALE' (no longest row left; outside the
//                           property's quantifier, model = implementation only)
//   batch = <integer> (sent in decimal) | abs (parameter absent) | j<k> (k-th junk string)
//   key   = - (parameter absent) | e (present, empty) | r<merkle id> | u<merkle id> (upper case) | x<k> (junk table of C02, k>0)
//
// ho= is emitted (recomputed on every run, the value in a replayed line is ignored) only when two stored headers
// share a merkle root: then the un-ORDERed single-row lookup depends on the index order (state, hash text).
//
// observable: one block per query operation, joined by '|'; pages of a walk joined by '+':
//   200/<root>:<height>,.../<last key token or ->/<totalElements>/<size>      or      <status>/<error code>

import (
	"encoding/json"
	"fmt"
	"math/rand"
	"net/url"
	"sort"
	"strconv"
	"strings"

	"github.com/bitcoin-sv/block-headers-service/internal/chaincfg/chainhash"
)

func init() { register("C08", runC08) }

var c08JunkBatch = []string{"", "abc", "1.5", " 3", "3 ", "0x10", "99999999999999999999", "１", "-", "1e2"}

type c08Page struct {
	Content []struct {
		MerkleRoot  string `json:"merkleRoot"`
		BlockHeight int64  `json:"blockHeight"`
	} `json:"content"`
	Page struct {
		TotalElements    int64  `json:"totalElements"`
		Size             int64  `json:"size"`
		LastEvaluatedKey string `json:"lastEvaluatedKey"`
	} `json:"page"`
}

func c08RootTok(m *Mat, txt string) string {
	if hh, err := chainhash.NewHashFromStr(txt); err == nil && hh.String() == txt {
		if id, ok := m.MerkID[*hh]; ok {
			return fmt.Sprintf("r%d", id)
		}
	}
	return "?"
}

// c08Get performs one listing request; returns the observable block and the raw last key ("" on errors).
func c08Get(s *Stack, m *Mat, batchTok, keyTxt string, keyPresent bool) (obs string, lastKey string, ok bool) {
	defer func() {
		if r := recover(); r != nil {
			obs, lastKey, ok = "PANIC", "", false
		}
	}()
	q := url.Values{}
	switch {
	case batchTok == "abs":
	case strings.HasPrefix(batchTok, "j"):
		k, err := strconv.Atoi(batchTok[1:])
		if err != nil || k < 0 || k >= len(c08JunkBatch) {
			return "BADCASE batch " + batchTok, "", false
		}
		q.Set("batchSize", c08JunkBatch[k])
	default:
		// any decimal integer, also beyond int64 (strconv.Atoi then fails with a range error)
		if !c08IsDecimal(batchTok) {
			return "BADCASE batch " + batchTok, "", false
		}
		q.Set("batchSize", batchTok)
	}
	if keyPresent {
		q.Set("lastEvaluatedKey", keyTxt)
	}
	target := "/api/v1/chain/merkleroot"
	if enc := q.Encode(); enc != "" {
		target += "?" + enc
	}
	code, resp := s.Do("GET", target, "", nil)
	if code != 200 {
		return fmt.Sprintf("%d/%s", code, errCodeOf(resp)), "", false
	}
	var pg c08Page
	if err := json.Unmarshal([]byte(resp), &pg); err != nil {
		return fmt.Sprintf("%d/unparsable", code), "", false
	}
	parts := make([]string, len(pg.Content))
	for i, e := range pg.Content {
		parts[i] = fmt.Sprintf("%s:%d", c08RootTok(m, e.MerkleRoot), e.BlockHeight)
	}
	lk := "-"
	if pg.Page.LastEvaluatedKey != "" {
		lk = c08RootTok(m, pg.Page.LastEvaluatedKey)
	}
	return fmt.Sprintf("200/%s/%s/%d/%d", strings.Join(parts, ","), lk, pg.Page.TotalElements, pg.Page.Size), pg.Page.LastEvaluatedKey, true
}

func c08IsDecimal(t string) bool {
	if strings.HasPrefix(t, "-") {
		t = t[1:]
	}
	if t == "" {
		return false
	}
	for _, ch := range t {
		if ch < '0' || ch > '9' {
			return false
		}
	}
	return true
}

// batch sizes around and beyond int32 / int64 (2^31-1-h for small h, 2^32-1, 2^31, 2^31+1, 2^32, 2^63-1, and 2^63 which
// strconv.Atoi rejects)
var c08HugeBatches = []string{"2147483647", "2147483646", "2147483645", "2147483644", "2147483643", "4294967295", "9223372036854775807",
	"2147483648", "2147483649", "4294967296", "9223372036854775806", "9223372036854775808"}

func c08KeyText(tok string) (txt string, present bool, err error) {
	switch tok {
	case "-":
		return "", false, nil
	case "e":
		return "", true, nil
	}
	if tok == "x0" {
		return "", false, fmt.Errorf("x0 is the empty key, use e")
	}
	txt, err = c02RootText(tok)
	return txt, true, err
}

type c08Runner struct {
	c *Ctx
	s *Stack
}

// hashOrder lists the ids of the stored headers in ascending order of their hash text.
func c08HashOrder(m *Mat, h *History) string {
	type kv struct {
		id int
		hx string
	}
	seen := map[int]bool{genesisID: true}
	l := []kv{{genesisID, m.Hash[genesisID].String()}}
	for _, sb := range h.Subs {
		if !seen[sb.ID] {
			seen[sb.ID] = true
			l = append(l, kv{sb.ID, m.Hash[sb.ID].String()})
		}
	}
	sort.Slice(l, func(i, j int) bool { return l[i].hx < l[j].hx })
	parts := make([]string, len(l))
	for i, e := range l {
		parts[i] = strconv.Itoa(e.id)
	}
	return strings.Join(parts, ",")
}

func c08HasDupRoots(h *History) bool {
	seen := map[int]int{1: genesisID}
	for _, sb := range h.Subs {
		if id, ok := seen[sb.Merkle]; ok && id != sb.ID {
			return true
		}
		seen[sb.Merkle] = sb.ID
	}
	return false
}

// run executes the operations as given.
func (r *c08Runner) run(head map[string]string, ops []merkOp, tag string) error {
	c, s := r.c, r.s
	h, err := merkHistory(head, ops)
	if err != nil {
		return err
	}
	m, err := Materialize(h)
	if err != nil {
		return err
	}
	if err := s.ResetHeaders(); err != nil {
		return err
	}
	s.SetForbidden(m.ForbiddenHashes())
	var sb strings.Builder
	sb.WriteString(merkHeadLine(h))
	dup := c08HasDupRoots(h)
	if dup {
		sb.WriteString(";ho=" + c08HashOrder(m, h))
	}
	if head["zw"] != "" {
		sb.WriteString(";zw=1")
	}
	var obs []string
	cursor := ""
	si := 0
	nrows := 1
	for _, o := range ops {
		if o.Sub != nil {
			out := AddOutcome(s, m.Src[si])
			if strings.HasPrefix(out, "S") {
				nrows++
			}
			si++
			sb.WriteByte(';')
			sb.WriteString(o.Sub.String())
			continue
		}
		fmt.Fprintf(&sb, ";%s=%s", o.Tag, o.Arg)
		switch o.Tag {
		case "p":
			i := strings.Index(o.Arg, ":")
			if i < 0 {
				return fmt.Errorf("bad p= operation %q", o.Arg)
			}
			txt, present, err := c08KeyText(o.Arg[i+1:])
			if err != nil {
				return err
			}
			ob, _, _ := c08Get(s, m, o.Arg[:i], txt, present)
			obs = append(obs, ob)
			c.Count("op:page")
		case "w":
			var pages []string
			key := ""
			for k := 0; k < nrows+3; k++ {
				ob, lk, ok := c08Get(s, m, o.Arg, key, key != "")
				pages = append(pages, ob)
				if !ok || lk == "" {
					break
				}
				key = lk
			}
			obs = append(obs, strings.Join(pages, "+"))
			c.Count("op:walk")
			c.Count(fmt.Sprintf("walk-pages:%02d", len(pages)))
		case "c":
			ob, lk, ok := c08Get(s, m, o.Arg, cursor, cursor != "")
			obs = append(obs, ob)
			if ok {
				cursor = lk
			}
			c.Count("op:continue")
		case "z":
			cursor = ""
		case "d":
			if err := merkDamage(s); err != nil {
				return err
			}
			c.Count("op:damage")
		default:
			return fmt.Errorf("unknown operation %s=", o.Tag)
		}
	}
	c.Case(sb.String(), strings.Join(obs, "|"))
	c.Count("gen:" + tag)
	if dup {
		c.Count("roots:shared")
	} else {
		c.Count("roots:distinct")
	}
	for _, cl := range HistoryClass(h) {
		c.Count("class:" + cl)
	}
	return nil
}

func subOps(subs []Sub) []merkOp {
	ops := make([]merkOp, len(subs))
	for i := range subs {
		sb := subs[i]
		ops[i] = merkOp{Sub: &sb}
	}
	return ops
}

func headOf(h *History) map[string]string {
	fs := make([]string, len(h.Forbidden))
	for i, f := range h.Forbidden {
		fs[i] = strconv.Itoa(f)
	}
	return map[string]string{"f": strings.Join(fs, ",")}
}

func qop(tag, arg string) merkOp { return merkOp{Tag: tag, Arg: arg} }

// c08KeyToks: every stored root, upper-case variants, unknown roots, junk.
func c08KeyToks(r *rand.Rand, h *History, all bool) []string {
	toks := []string{"-", "e", "r1", "r9001", "u1", "x1", "x3", "x4", "x5", "x6", "x7", "x8"}
	seen := map[int]bool{}
	for _, sb := range h.Subs {
		if !seen[sb.Merkle] {
			seen[sb.Merkle] = true
			toks = append(toks, fmt.Sprintf("r%d", sb.Merkle))
			if r.Intn(6) == 0 {
				toks = append(toks, fmt.Sprintf("u%d", sb.Merkle))
			}
		}
	}
	if all {
		return toks
	}
	r.Shuffle(len(toks), func(i, j int) { toks[i], toks[j] = toks[j], toks[i] })
	if len(toks) > 8 {
		toks = toks[:8]
	}
	return toks
}

var c08Batches = []string{"abs", "0", "1", "2", "3", "-1", "-2147483648", "100000", "2000", "j0", "j1", "j2", "j3", "j4", "j5", "j6", "j7", "j8", "j9"}

// forkEverywhere: a main chain of n blocks with a stale sibling at every height (arriving after the main block of
// that height, equal work), a few orphans, optionally a stale grandchild.
func c08ForkEverywhere(r *rand.Rand, n int) *History {
	h := &History{}
	prev := genesisID
	for i := 0; i < n; i++ {
		id := 2 + i
		h.Subs = append(h.Subs, Sub{ID: id, Prev: prev, Bits: bitsW2, Ver: 1, Merkle: 100 + id, TS: uint32(1600000000 + i), Nonce: uint32(i)})
		sid := 200 + i
		h.Subs = append(h.Subs, Sub{ID: sid, Prev: prev, Bits: bitsW2, Ver: 1, Merkle: 100 + sid, TS: uint32(1600001000 + i), Nonce: uint32(i)})
		if r.Intn(4) == 0 {
			oid := 400 + i
			h.Subs = append(h.Subs, Sub{ID: oid, Prev: 1000 + i, Bits: bitsW2, Ver: 1, Merkle: 100 + oid, TS: uint32(1600002000 + i), Nonce: uint32(i)})
		}
		prev = id
	}
	return h
}

// c08WorkUnits: cumulative-work bookkeeping of the long-reorganisation histories (only to place the queries).
func c08WorkUnits(bits uint32) uint64 {
	switch bits {
	case bitsW2:
		return 2
	case bitsW4:
		return 4
	case bitsW8:
		return 8
	case bitsMain:
		return 4295032833
	}
	return 0
}

// c08ReorgPoints: indices of the submissions that switch the longest chain to another branch (first seen wins ties).
func c08ReorgPoints(h *History) []int {
	cum := map[int]uint64{genesisID: c08WorkUnits(bitsMain)}
	tip := genesisID
	var pts []int
	for i, sb := range h.Subs {
		p, ok := cum[sb.Prev]
		if !ok {
			continue
		}
		if _, dup := cum[sb.ID]; dup {
			continue
		}
		cum[sb.ID] = p + c08WorkUnits(sb.Bits)
		if sb.Prev == tip {
			tip = sb.ID
		} else if cum[sb.ID] > cum[tip] {
			tip = sb.ID
			pts = append(pts, i)
		}
	}
	return pts
}

// c08LongOps: the history with, after every reorganisation and at the end, walks of several page sizes across the
// reorganised region and single pages keyed by the root of every header stored at a boundary height (displaced
// blocks: 409, newly longest blocks: 200).
func c08LongOps(h *History) []merkOp {
	ht, maxH := merkHeights(h)
	set := merkBoundaryHeights(maxH)
	var block []merkOp
	for _, b := range []string{"1", "7", "250", "499", "500", "501", "abs"} {
		block = append(block, qop("w", b))
	}
	seen := map[int]bool{}
	for _, sb := range h.Subs {
		if x, ok := ht[sb.ID]; ok && set[x] && !seen[sb.ID] {
			seen[sb.ID] = true
			block = append(block, qop("p", fmt.Sprintf("3:r%d", sb.Merkle)))
			if x%3 == 0 {
				block = append(block, qop("p", fmt.Sprintf("600:r%d", sb.Merkle)))
			}
		}
	}
	pts := map[int]bool{}
	for _, i := range c08ReorgPoints(h) {
		pts[i] = true
	}
	var ops []merkOp
	for i := range h.Subs {
		sb := h.Subs[i]
		ops = append(ops, merkOp{Sub: &sb})
		if pts[i] {
			ops = append(ops, block...)
		}
	}
	return append(ops, block...)
}

// c08Big: a longest chain of n blocks above genesis (more than the default page size 2000), a stale sibling every
// 500 heights and one orphan; walked with page sizes around 2000, the chain length and far above it.
func c08Big(n int, thorough bool) (*History, []merkOp) {
	h := &History{}
	prev := genesisID
	for i := 0; i < n; i++ {
		id := 2 + i
		h.Subs = append(h.Subs, Sub{ID: id, Prev: prev, Bits: bitsW2, Ver: 1, Merkle: 100 + id, TS: uint32(1600000000 + i), Nonce: uint32(i)})
		if (i+1)%500 == 0 {
			sid := 100000 + i
			h.Subs = append(h.Subs, Sub{ID: sid, Prev: prev, Bits: bitsW2, Ver: 1, Merkle: 100 + sid, TS: uint32(1700000000 + i), Nonce: uint32(i)})
		}
		prev = id
	}
	h.Subs = append(h.Subs, Sub{ID: 200000, Prev: 299999, Bits: bitsW2, Ver: 1, Merkle: 200100, TS: 1800000000, Nonce: 1})
	ops := subOps(h.Subs)
	blocks := n + 1
	sizes := []int{1999, 2000, 2001, blocks, blocks + 2, 100000}
	if thorough {
		sizes = append(sizes, 7, 500, 1000, 2002, blocks - 1, blocks + 1, 4000)
	}
	for _, b := range sizes {
		ops = append(ops, qop("w", strconv.Itoa(b)))
	}
	ops = append(ops, qop("w", "abs"))
	// single pages with a key and a size above the number of blocks left / above 2000
	for _, k := range []int{2, n - 2001, n} {
		if k >= 2 {
			ops = append(ops, qop("p", fmt.Sprintf("2001:r%d", 100+k)), qop("p", fmt.Sprintf("100000:r%d", 100+k)))
		}
	}
	ops = append(ops, qop("p", fmt.Sprintf("2001:r%d", 100+100000+499)), qop("p", "2001:r200100"), qop("p", "2147483647:-"))
	return h, ops
}

// c08OrphanRedelivered: longest chain G-A1..Aa; B2 arrives before its parent (orphan); B1 (sibling of A1, too light to
// win alone) arrives; B2 is delivered again (with B1 it would outweigh the A chain - but it is a duplicate).
func c08OrphanRedelivered(r *rand.Rand) []merkOp {
	a := 2 + r.Intn(3)
	var subs []Sub
	k := 0
	mk := func(id, prev int, bits uint32) Sub {
		k++
		return Sub{ID: id, Prev: prev, Bits: bits, Ver: 1, Merkle: 100 + id, TS: uint32(1600000000 + k), Nonce: uint32(k)}
	}
	prev := genesisID
	for i := 0; i < a; i++ {
		subs = append(subs, mk(2+i, prev, bitsW2))
		prev = 2 + i
	}
	b1 := mk(20, genesisID, bitsW2)
	b2 := mk(21, 20, bitsMain) // far heavier than the whole A chain
	b := strconv.Itoa(1 + r.Intn(2))
	var ops []merkOp
	for i := range subs {
		sb := subs[i]
		ops = append(ops, merkOp{Sub: &sb})
	}
	ops = append(ops, qop("c", b), merkOp{Sub: &b2}, qop("c", b), merkOp{Sub: &b1}, qop("c", b))
	b2again := b2
	ops = append(ops, merkOp{Sub: &b2again}, qop("c", b), qop("c", b), qop("c", b), qop("w", b), qop("w", "2"),
		qop("p", "2:r120"), qop("p", "2:r121"), qop("p", "2:r102"), qop("p", fmt.Sprintf("2:r%d", 101+a)))
	return ops
}

func runC08(c *Ctx) error {
	s, err := NewStack(StackOpts{Dir: c.TmpDir("c08")})
	if err != nil {
		return err
	}
	defer s.Close()
	r := &c08Runner{c: c, s: s}
	if c.Only != "" {
		head, ops, err := merkParse(c.Only, "")
		if err != nil {
			return err
		}
		return r.run(head, ops, "only")
	}
	for _, l := range corpusLines(c, "C08") {
		head, ops, err := merkParse(l, "")
		if err != nil {
			return fmt.Errorf("corpus line %q: %w", l, err)
		}
		if err := r.run(head, ops, "corpus"); err != nil {
			return fmt.Errorf("corpus line %q: %w", l, err)
		}
	}
	rng := c.Rng
	// static store, then: walks for every batch size 0..len+2, every stored root (and unknown strings) as start key
	static := func(h *History, tag string, allKeys bool, tipHint int) error {
		ops := subOps(h.Subs)
		n := len(h.Subs) + 1
		// walks whose first page is small (key at height k-1) and whose next page asks for a huge batch with that key
		firsts := []int{1, 2, 3}
		if tipHint >= 1 {
			firsts = append(firsts, tipHint, tipHint+1)
		} else {
			firsts = append(firsts, 1+rng.Intn(n))
		}
		for _, k := range firsts {
			nb := 1
			if allKeys {
				nb = 3
			}
			for j := 0; j < nb; j++ {
				ops = append(ops, qop("z", ""), qop("c", strconv.Itoa(k)), qop("c", c08HugeBatches[rng.Intn(len(c08HugeBatches))]), qop("c", "1"))
			}
		}
		ops = append(ops, qop("z", ""))
		maxb := n + 2
		if !allKeys && maxb > 6 {
			maxb = 6
		}
		for b := 0; b <= maxb; b++ {
			ops = append(ops, qop("w", strconv.Itoa(b)))
		}
		if rng.Intn(3) == 0 {
			ops = append(ops, qop("w", "abs"))
		}
		for _, k := range c08KeyToks(rng, h, allKeys) {
			nb := 2
			if allKeys {
				nb = 3
			}
			for j := 0; j < nb; j++ {
				var b string
				switch rng.Intn(4) {
				case 0:
					b = c08Batches[rng.Intn(len(c08Batches))]
				default:
					b = strconv.Itoa(rng.Intn(n + 3))
				}
				ops = append(ops, qop("p", b+":"+k))
			}
			// every key x huge batch sizes
			nh := 1
			if allKeys {
				nh = 2
			}
			for j := 0; j < nh; j++ {
				ops = append(ops, qop("p", c08HugeBatches[rng.Intn(len(c08HugeBatches))]+":"+k))
			}
		}
		if rng.Intn(25) == 0 {
			ops = append(ops, qop("d", "S"), qop("w", "2"), qop("p", "2:-"), qop("p", "2:r1"), qop("p", "0:-"))
		}
		hd := headOf(h)
		if tag == "zero-work" {
			hd["zw"] = "1"
		}
		return r.run(hd, ops, tag)
	}
	// interleaved: pages of one walk between submissions (appends and reorganisations)
	interleaved := func(h *History, tag string) error {
		var ops []merkOp
		b := strconv.Itoa(1 + rng.Intn(4))
		start := rng.Intn(len(h.Subs)/2 + 1)
		for i, sb := range h.Subs {
			x := sb
			ops = append(ops, merkOp{Sub: &x})
			if i >= start && rng.Intn(3) != 0 {
				ops = append(ops, qop("c", b))
			}
		}
		for k := 0; k < len(h.Subs)+3; k++ {
			ops = append(ops, qop("c", b))
		}
		ops = append(ops, qop("w", b))
		return r.run(headOf(h), ops, tag)
	}
	var eerr error
	cnt := 0
	stride := c.Pick(4, 1)
	ExhaustiveHistories(3, []uint32{bitsW2, bitsW4}, func(h *History) {
		cnt++
		if eerr == nil && cnt%stride == 0 {
			eerr = static(h, "exhaustive-3", true, -1)
		}
	})
	if eerr != nil {
		return eerr
	}
	for n := 1; n <= c.Pick(8, 14); n++ {
		if err := static(c08ForkEverywhere(rng, n), "fork-at-every-height", true, n); err != nil {
			return err
		}
	}
	// an orphan delivered again after its parent arrived on a competing branch that it would make the heavier one
	// (a duplicate: nothing may change), between the pages of a walk
	for i := 0; i < c.Pick(6, 40); i++ {
		if err := r.run(map[string]string{"f": ""}, c08OrphanRedelivered(rng), "orphan-redelivered"); err != nil {
			return err
		}
	}
	// more longest-chain blocks than the default page size
	{
		h, ops := c08Big(c.Pick(2104, 4207), c.Thorough())
		if err := r.run(headOf(h), ops, "chain-longer-than-2000"); err != nil {
			return err
		}
	}
	// reorganisations switching more than 500 headers in one submission (batching thresholds of the storage layer);
	// quick: the 503-header displacement only (the extracted tip query is quadratic in the store size)
	for i, h := range LongReorgHistories(c.Thorough()) {
		if !c.Thorough() && i > 0 {
			break
		}
		if err := r.run(headOf(h), c08LongOps(h), "long-reorganisation"); err != nil {
			return err
		}
	}
	for i := 0; i < c.Pick(50, 400); i++ {
		h := GenHistory(rng, GenOpts{N: 2 + rng.Intn(c.Pick(14, 26)), PUnknown: 0.06, PLate: 0.08, PDup: 0.05, ZeroWork: true, Deep: i%2 == 0})
		if err := static(h, "zero-work", i%3 == 0, -1); err != nil {
			return err
		}
	}
	nr := c.Pick(250, 1500)
	for i := 0; i < nr; i++ {
		o := GenOpts{N: 2 + rng.Intn(c.Pick(16, 30)), PUnknown: 0.08, PLate: 0.1, PDup: 0.05, PForbidden: 0.1, Positive: true, Deep: i%3 != 0}
		h := GenHistory(rng, o)
		if err := static(h, "random", i%4 == 0, -1); err != nil {
			return err
		}
	}
	for i := 0; i < c.Pick(300, 1500); i++ {
		var h *History
		tag := "interleaved-random"
		if i%3 == 0 {
			// append-only longest chain: a linear chain, stale siblings and orphans thrown in
			h = c08ForkEverywhere(rng, 3+rng.Intn(10))
			tag = "interleaved-appends"
		} else {
			h = GenHistory(rng, GenOpts{N: 4 + rng.Intn(c.Pick(16, 30)), PUnknown: 0.06, PLate: 0.05, Positive: true, Deep: true})
		}
		if err := interleaved(h, tag); err != nil {
			return err
		}
	}
	// shared roots (outside the property's quantifier; model = implementation is still required)
	for i := 0; i < c.Pick(150, 800); i++ {
		if i%3 == 0 {
			// planted: a linear chain in which the tip (or another block) repeats the root of a lower longest block,
			// or a stale sibling repeats the root of a longest block
			n := 3 + rng.Intn(8)
			h := c08ForkEverywhere(rng, n)
			a, b := rng.Intn(n), rng.Intn(n)
			for j := range h.Subs {
				switch i % 9 {
				case 0: // tip repeats a lower root
					if h.Subs[j].ID == 2+n-1 {
						h.Subs[j].Merkle = 102 + a%(n-1)
					}
				case 3: // two longest blocks share a root
					if h.Subs[j].ID == 2+b {
						h.Subs[j].Merkle = 102 + a
					}
				default: // a stale sibling repeats a longest root
					if h.Subs[j].ID == 200+b {
						h.Subs[j].Merkle = 102 + a
					}
				}
			}
			if err := static(h, "shared-roots-planted", true, n); err != nil {
				return err
			}
			continue
		}
		h := GenHistory(rng, GenOpts{N: 3 + rng.Intn(12), PUnknown: 0.1, PLate: 0.1, Positive: true, Deep: i%2 == 0})
		def := map[int]int{}
		for j := range h.Subs {
			if v, ok := def[h.Subs[j].ID]; ok {
				h.Subs[j].Merkle = v // a duplicate submission stays identical
				continue
			}
			if rng.Intn(3) == 0 {
				if rng.Intn(4) == 0 {
					h.Subs[j].Merkle = 1
				} else {
					h.Subs[j].Merkle = h.Subs[rng.Intn(len(h.Subs))].ID + 100
				}
			}
			def[h.Subs[j].ID] = h.Subs[j].Merkle
		}
		// a later duplicate of an id whose first occurrence was rewritten
		for j := range h.Subs {
			h.Subs[j].Merkle = def[h.Subs[j].ID]
		}
		if err := static(h, "shared-roots", true, -1); err != nil {
			return err
		}
	}
	return nil
}
