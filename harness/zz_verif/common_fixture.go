//go:build verif

package main

import (
	"context"
	stdsql "database/sql"
	"fmt"
	"io"
	"net/http"
	"net/http/httptest"
	"os"
	"path/filepath"
	"strings"

	"github.com/bitcoin-sv/block-headers-service/config"
	"github.com/bitcoin-sv/block-headers-service/database"
	sqlrepository "github.com/bitcoin-sv/block-headers-service/database/repository"
	"github.com/bitcoin-sv/block-headers-service/database/sql"
	"github.com/bitcoin-sv/block-headers-service/internal/chaincfg"
	"github.com/bitcoin-sv/block-headers-service/notification"
	"github.com/bitcoin-sv/block-headers-service/repository"
	"github.com/bitcoin-sv/block-headers-service/service"
	"github.com/bitcoin-sv/block-headers-service/transports/http/endpoints"
	httpserver "github.com/bitcoin-sv/block-headers-service/transports/http/server"
	"github.com/gin-gonic/gin"
	"github.com/jmoiron/sqlx"
	sqlite3 "github.com/mattn/go-sqlite3"
	"github.com/rs/zerolog"
)

// StackOpts configures the real stack the harness runs cases against:
// SQLite file + database.Init on the working tree's migrations + SQL repositories +
// service.NewServices + the gin engine with endpoints.SetupRoutes.
type StackOpts struct {
	Dir          string // directory for the SQLite file (created); required
	UseAuth      bool
	AdminToken   string // default config.DefaultAppToken
	Excess       int    // merkleroot.max_block_height_excess, default 6
	MaxTries     int    // webhook.max_tries, default 10
	Profiling    bool
	Params       *chaincfg.Params                          // when set, the Chains service is rebuilt with these params
	WrapHeaders  func(repository.Headers) repository.Headers // decorator for fault / crash / scheduling points
	WebhookClnt  notification.WebhookTargetClient            // scripted webhook target client (nil = production client)
	PreparedDb   bool
	PreparedPath string
	Mutate       func(*config.AppConfig)
	DebugLog     bool // a real logger at the service's DEFAULT level (debug) writing to io.Discard instead of zerolog.Nop():
	// code that only runs "when debug logging is on" (request / body logging middleware ...) is then part of what runs
}

// Stack is one running instance.
type Stack struct {
	Opts     StackOpts
	DBPath   string
	Cfg      *config.AppConfig
	DB       *sqlx.DB
	HDb      *sql.HeadersDb
	Repo     *repository.Repositories
	Services *service.Services
	Engine   *gin.Engine
	Log      *zerolog.Logger
}

func repoRoot() string {
	if r := os.Getenv("VERIF_REPO"); r != "" {
		return r
	}
	return "/repo"
}

// NewStack opens (or re-opens, when the file exists) the database under o.Dir and wires everything.
func NewStack(o StackOpts) (*Stack, error) {
	if err := os.MkdirAll(o.Dir, 0o755); err != nil {
		return nil, err
	}
	gin.SetMode(gin.ReleaseMode)
	lg := zerolog.Nop()
	if o.DebugLog {
		lg = zerolog.New(io.Discard).Level(zerolog.DebugLevel)
	}
	cfg := config.GetDefaultAppConfig()
	cfg.Db.Engine = config.DBSQLite
	cfg.Db.SchemaPath = filepath.Join(repoRoot(), "database", "migrations")
	cfg.Db.SQLite.FilePath = filepath.Join(o.Dir, "bhs.db")
	cfg.Db.PreparedDb = o.PreparedDb
	cfg.Db.PreparedDbFilePath = o.PreparedPath
	cfg.HTTP.UseAuth = o.UseAuth
	if o.AdminToken != "" {
		cfg.HTTP.AuthToken = o.AdminToken
	}
	cfg.HTTP.ProfilingEndpointsEnabled = o.Profiling
	cfg.MerkleRoot.MaxBlockHeightExcess = 6
	if o.Excess != 0 {
		cfg.MerkleRoot.MaxBlockHeightExcess = o.Excess
	}
	if o.MaxTries != 0 {
		cfg.Webhook.MaxTries = o.MaxTries
	}
	cfg.Logging.Level = "disabled"
	if o.Mutate != nil {
		o.Mutate(cfg)
	}
	db, err := database.Init(cfg, &lg)
	if err != nil {
		return nil, fmt.Errorf("database.Init: %w", err)
	}
	s := &Stack{Opts: o, DBPath: cfg.Db.SQLite.FilePath, Cfg: cfg, DB: db, Log: &lg}
	s.HDb = sql.NewHeadersDb(db, &lg)
	var hr repository.Headers = sqlrepository.NewHeadersRepository(s.HDb)
	if o.WrapHeaders != nil {
		hr = o.WrapHeaders(hr)
	}
	s.Repo = &repository.Repositories{
		Headers:  hr,
		Tokens:   sqlrepository.NewTokensRepository(s.HDb),
		Webhooks: sqlrepository.NewWebhooksRepository(s.HDb),
	}
	s.Services = service.NewServices(service.Dept{
		Repositories: s.Repo,
		Peers:        nil,
		AdminToken:   cfg.HTTP.AuthToken,
		Logger:       &lg,
		Config:       cfg,
	})
	if o.Params != nil {
		s.Services.Chains = service.NewChainsService(s.Repo, o.Params, &lg, service.DefaultBlockHasher(), s.Services.Notifier)
	}
	if o.WebhookClnt != nil {
		s.Services.Webhooks = notification.NewWebhooksService(s.Repo.Webhooks, o.WebhookClnt, &lg, cfg.Webhook)
	}
	server := httpserver.NewHTTPServer(cfg.HTTP, &lg)
	server.ApplyConfiguration(endpoints.SetupRoutes(s.Services, cfg.HTTP))
	server.ApplyConfiguration(func(e *gin.Engine) { s.Engine = e })
	return s, nil
}

// Close closes the database handle (a "process exit" for the store).
func (s *Stack) Close() {
	if s.DB != nil {
		_ = s.DB.Close()
		s.DB = nil
	}
}

// Reopen closes and re-opens the same database file with the same options (a restart).
func (s *Stack) Reopen() (*Stack, error) {
	s.Close()
	return NewStack(s.Opts)
}

// ReopenAbandoned opens the same database file again WITHOUT closing the old handle first: a killed process closes
// nothing (no final checkpoint, no clean-up of journal / side files); the old handle is returned so that the caller
// can close it at the end of the run.
func (s *Stack) ReopenAbandoned() (*Stack, *sqlx.DB, error) {
	old := s.DB
	s.DB = nil
	ns, err := NewStack(s.Opts)
	return ns, old, err
}

// Do performs one HTTP request against the engine in-process.
func (s *Stack) Do(method, target, body string, hdr map[string]string) (int, string) {
	var rd io.Reader
	if body != "" || method == http.MethodPost || method == http.MethodPut {
		rd = strings.NewReader(body)
	}
	req := httptest.NewRequest(method, target, rd)
	for k, v := range hdr {
		req.Header.Set(k, v)
	}
	if body != "" && req.Header.Get("Content-Type") == "" {
		req.Header.Set("Content-Type", "application/json")
	}
	w := httptest.NewRecorder()
	s.Engine.ServeHTTP(w, req)
	return w.Code, w.Body.String()
}

// HeaderRow is a raw row of the headers table.
type HeaderRow struct {
	Hash, Prev, Merkle, State, Work, Cum, Bits string
	Height, Version, Nonce                      int64
	TS                                          string
}

// DumpHeaders returns the raw headers table in rowid (= insertion) order.
func (s *Stack) DumpHeaders() ([]HeaderRow, error) {
	rows, err := s.DB.Query(`SELECT hash, height, version, merkleroot, nonce, bits, chainwork, previous_block, CAST(strftime('%s', timestamp) AS TEXT), header_state, cumulated_work FROM headers ORDER BY rowid`)
	if err != nil {
		return nil, err
	}
	defer rows.Close()
	var out []HeaderRow
	for rows.Next() {
		var r HeaderRow
		var ts *string
		if err := rows.Scan(&r.Hash, &r.Height, &r.Version, &r.Merkle, &r.Nonce, &r.Bits, &r.Work, &r.Prev, &ts, &r.State, &r.Cum); err != nil {
			return nil, err
		}
		if ts != nil {
			r.TS = *ts
		}
		out = append(out, r)
	}
	return out, rows.Err()
}

// ResetHeaders deletes every header except genesis (height 0) - a cheap way to start a new history
// on the same database file.
func (s *Stack) ResetHeaders() error {
	_, err := s.DB.Exec(`DELETE FROM headers WHERE height <> 0 OR previous_block <> '0000000000000000000000000000000000000000000000000000000000000000'`)
	if err != nil {
		return err
	}
	_, err = s.DB.Exec(`UPDATE headers SET header_state = 'LONGEST_CHAIN' WHERE height = 0`)
	return err
}

// TableDigest returns a cheap digest of a table's full content (used for "state unchanged" checks).
func (s *Stack) TableDigest(table string) string {
	rows, err := s.DB.Query("SELECT * FROM " + table + " ORDER BY rowid")
	if err != nil {
		return "ERR:" + err.Error()
	}
	defer rows.Close()
	cols, _ := rows.Columns()
	var sb strings.Builder
	for rows.Next() {
		vals := make([]interface{}, len(cols))
		ptrs := make([]interface{}, len(cols))
		for i := range vals {
			ptrs[i] = &vals[i]
		}
		_ = rows.Scan(ptrs...)
		for _, v := range vals {
			switch x := v.(type) {
			case []byte:
				sb.WriteString(string(x))
			default:
				fmt.Fprintf(&sb, "%v", x)
			}
			sb.WriteByte('|')
		}
		sb.WriteByte('\n')
	}
	return fmt.Sprintf("%d:%x", sb.Len(), fnv64(sb.String()))
}

func fnv64(s string) uint64 {
	h := uint64(14695981039346656037)
	for i := 0; i < len(s); i++ {
		h ^= uint64(s[i])
		h *= 1099511628211
	}
	return h
}

// HookCommits registers cb as SQLite commit hook on n pooled connections (and caps the pool at n, so that every
// connection the service can get is hooked).  A non-zero return of cb turns that COMMIT into a ROLLBACK: this is
// how the harness "kills the process" at a transaction boundary below the repository layer.
func (s *Stack) HookCommits(n int, cb func() int) error {
	s.DB.SetMaxOpenConns(n)
	s.DB.SetMaxIdleConns(n)
	ctx := context.Background()
	var conns []*stdsql.Conn
	defer func() {
		for _, c := range conns {
			_ = c.Close()
		}
	}()
	for i := 0; i < n; i++ {
		c, err := s.DB.Conn(ctx)
		if err != nil {
			return err
		}
		conns = append(conns, c)
		if err := c.Raw(func(dc interface{}) error {
			sc, ok := dc.(*sqlite3.SQLiteConn)
			if !ok {
				return fmt.Errorf("not a sqlite connection: %T", dc)
			}
			sc.RegisterCommitHook(cb)
			return nil
		}); err != nil {
			return err
		}
	}
	return nil
}
