//go:build verif

package main

// C15, experimental p2p engine: two real experimental Peer objects ingest headers at the same time.
//
// The experimental server starts one goroutine per connection (Peer.readMsgHandler); each of them calls
// handleHeadersMsg -> p.chainService.Add.  It is the only place of the service where several goroutines submit
// headers, and what serialises them is the lock inside the chain service VALUE the peer holds.  runC15's scheduler
// cases drive one shared Chains value directly; here the submitting call is the peer's own handleHeadersMsg on
// whatever chain service NewPeer stored in the peer:
//
//   - one Stack whose headers repository is wrapped by the scheduler decorator of c15.go (schedRepo)
//   - a real experimental server value (add-only hook p2pexp.VerifC06NewServer) with the Stack's real Chains service;
//     its REAL connectPeer (NewPeer, Connect = version/verack handshake, StartHeadersSync) is run on two in-memory
//     connections whose far ends are scripted nodes (handshake, then silent)
//   - the peers' header service (tip height, locators for getheaders) reads through the UNWRAPPED repository, so that
//     the only scheduled repository operations of a registered goroutine are those of Chains.Add and the trace has
//     exactly the shape the C15 model replays
//   - goroutine tid 1 / tid 2: sc.register(tid), then peer.VerifC15HandleHeaders(headers message with ONE header)
//     (add-only hook: the real handleHeadersMsg on the calling goroutine), then sc.fin <- tid
//   - sc.run(2, prefs) grants the repository operations following the preference pattern
//
// Case line and observable are those of runC15's `do`, with the extra tag x=exp:
//   <setup history>;x=t1:<sub>;x=t2:<sub>;x=readers:0;x=prefs:..;x=trace:..;x=exp      outs|tips|rows|evs|
// The outcome of Add is not visible through the peer (handleHeadersMsg returns nothing): outs is "?" per submitter
// ("P" when the call panicked); tips and the common-ancestor column are empty (no reader).

import (
	"fmt"
	"strconv"
	"strings"
	"sync"
	"time"

	"github.com/bitcoin-sv/block-headers-service/config"
	sqlrepository "github.com/bitcoin-sv/block-headers-service/database/repository"
	"github.com/bitcoin-sv/block-headers-service/internal/chaincfg"
	p2pexp "github.com/bitcoin-sv/block-headers-service/internal/transports/p2p"
	exppeer "github.com/bitcoin-sv/block-headers-service/internal/transports/p2p/peer"
	"github.com/bitcoin-sv/block-headers-service/internal/wire"
	"github.com/bitcoin-sv/block-headers-service/repository"
	"github.com/bitcoin-sv/block-headers-service/service"
	"github.com/rs/zerolog"
)

// standalone: build/bin/C15/harness C15exp <outdir>
func init() { register("C15exp", runC15Exp) }

// c15ExpConnect runs the server's real connectPeer on a fresh in-memory connection; the far end performs the
// handshake of a full node (the service speaks first) and then only reads.
func c15ExpConnect(srv *p2pexp.VerifC06Server, m *Mat, btcnet wire.BitcoinNet, p int) (*exppeer.Peer, *rigNode, error) {
	svcSide, nodeSide := connPair(p)
	n := &rigNode{spec: &nodeSpec{P: p}, m: m, net: btcnet, conn: nodeSide, autoPong: true}
	n.used, n.open = true, true
	n.startReader()
	type res struct {
		p   *exppeer.Peer
		err error
	}
	ch := make(chan res, 1)
	go func() {
		pr, err := srv.Connect(svcSide)
		ch <- res{pr, err}
	}()
	for {
		msg, ok, tmo := n.next()
		if !ok || tmo {
			return nil, n, fmt.Errorf("experimental handshake: no version from the service")
		}
		if _, isV := msg.(*wire.MsgVersion); isV {
			break
		}
	}
	if err := n.write(n.versionMsg()); err != nil {
		return nil, n, err
	}
	if err := n.write(wire.NewMsgVerAck()); err != nil {
		return nil, n, err
	}
	select {
	case x := <-ch:
		if x.err != nil {
			return nil, n, fmt.Errorf("connectPeer: %v", x.err)
		}
		// StartHeadersSync has queued its first getheaders: wait until the node has it, so that nothing of the
		// session start is still in flight when the scheduled part begins
		for {
			msg, ok, tmo := n.next()
			if !ok || tmo {
				return nil, n, fmt.Errorf("experimental peer: no getheaders after the handshake")
			}
			if _, isG := msg.(*wire.MsgGetHeaders); isG {
				break
			}
		}
		return x.p, n, nil
	case <-time.After(rigTimeout):
		return nil, n, fmt.Errorf("connectPeer timed out")
	}
}

func c15ExpDisconnect(pr *exppeer.Peer, n *rigNode) {
	if pr != nil {
		// (a peer that disconnected itself must not be disconnected twice: close of a closed channel)
		done := make(chan struct{})
		go func() {
			defer func() { _ = recover(); close(done) }()
			pr.Disconnect()
		}()
		select {
		case <-done:
		case <-time.After(rigTimeout):
		}
	}
	if n != nil && n.conn != nil {
		_ = n.conn.Close()
	}
}

func runC15Exp(c *Ctx) error {
	sc := newSched()
	s, err := NewStack(StackOpts{Dir: c.TmpDir("c15exp"), WrapHeaders: func(h repository.Headers) repository.Headers {
		return &schedRepo{Headers: h, s: sc}
	}})
	if err != nil {
		return err
	}
	defer s.Close()
	evc := &evCounter{n: map[string]int{}}
	s.Services.Notifier.AddChannel(evc)
	lg := zerolog.Nop()
	// header service of the peers: same database, repository without the scheduling decorator
	rawRepo := &repository.Repositories{Headers: sqlrepository.NewHeadersRepository(s.HDb), Tokens: s.Repo.Tokens, Webhooks: s.Repo.Webhooks}
	rawHs := service.NewHeaderService(rawRepo, nil, &lg)
	pcfg := config.GetDefaultAppConfig().P2P
	pcfg.UserAgentName, pcfg.UserAgentVersion = "verif", "0.0.1"

	do := func(setup *History, conc []Sub, prefs []int, tag string) error {
		if len(conc) != 2 {
			return fmt.Errorf("C15 exp: exactly two submitters, got %d", len(conc))
		}
		all := &History{Forbidden: setup.Forbidden, Subs: append(append([]Sub{}, setup.Subs...), conc...)}
		m, err := Materialize(all)
		if err != nil {
			return err
		}
		sc.mu.Lock()
		sc.enabled = false
		sc.tids = map[int64]int{}
		sc.mu.Unlock()
		if err := s.ResetHeaders(); err != nil {
			return err
		}
		s.SetForbidden(m.ForbiddenHashes())
		for i := range setup.Subs {
			AddOutcome(s, m.Src[i])
		}
		// the server and its two peers, created the way the experimental server creates them
		prm := chaincfg.MainNetParams
		prm.HeadersToIgnore = m.ForbiddenHashes()
		prm.Checkpoints = nil
		srv := p2pexp.VerifC06NewServer(pcfg, &prm, rawHs, s.Services.Chains)
		peers := make([]*exppeer.Peer, 2)
		nodes := make([]*rigNode, 2)
		defer func() {
			for i := range peers {
				c15ExpDisconnect(peers[i], nodes[i])
			}
		}()
		for i := range peers {
			peers[i], nodes[i], err = c15ExpConnect(srv, m, prm.Net, i+1)
			if err != nil {
				return err
			}
		}
		sc.mu.Lock()
		sc.enabled = true
		sc.mu.Unlock()
		time.Sleep(2 * time.Millisecond) // let the setup's notification goroutines finish
		evc.reset()
		outs := make([]string, len(conc))
		var wg sync.WaitGroup
		for i := range conc {
			wg.Add(1)
			go func(i int) {
				defer wg.Done()
				defer func() { sc.fin <- i + 1 }()
				defer func() {
					if r := recover(); r != nil {
						outs[i] = "P"
					}
				}()
				sc.register(i + 1)
				outs[i] = "?"
				msg := wire.NewMsgHeaders()
				bh := wire.BlockHeader(m.Src[len(setup.Subs)+i])
				_ = msg.AddBlockHeader(&bh)
				peers[i].VerifC15HandleHeaders(msg)
			}(i)
		}
		trace := sc.run(len(conc), prefs)
		wg.Wait()
		sc.mu.Lock()
		sc.enabled = false
		sc.mu.Unlock()
		// ADD events: one per stored header (deliveries run in their own goroutines: wait briefly)
		stored := 0
		seenID := map[int]bool{}
		for _, cs := range conc {
			if seenID[cs.ID] {
				continue
			}
			seenID[cs.ID] = true
			hv := m.Hash[cs.ID]
			if h, err := rawRepo.Headers.GetHeaderByHash(hv.String()); err == nil && h != nil {
				stored++
			}
		}
		for w := 0; w < 50 && evc.total() < stored; w++ {
			time.Sleep(time.Millisecond)
		}
		time.Sleep(time.Millisecond)
		rows, err := s.DumpHeaders()
		if err != nil {
			return err
		}
		evs := []string{}
		seenID = map[int]bool{}
		for _, cs := range conc {
			if seenID[cs.ID] {
				continue
			}
			seenID[cs.ID] = true
			hv := m.Hash[cs.ID]
			evs = append(evs, fmt.Sprintf("%d=%d", cs.ID, evc.get(hv.String())))
		}
		h := &History{Forbidden: setup.Forbidden, Subs: setup.Subs}
		for i, cs := range conc {
			h.X = append(h.X, fmt.Sprintf("t%d:%s", i+1, cs.String()))
		}
		ps := make([]string, len(prefs))
		for i, p := range prefs {
			ps[i] = strconv.Itoa(p)
		}
		h.X = append(h.X, "readers:0", "prefs:"+strings.Join(ps, "."), "trace:"+strings.Join(trace, "."), "exp")
		c.Case(h.Line(), strings.Join(outs, ",")+"||"+RowsString(rows, m)+"|"+strings.Join(evs, ",")+"|")
		c.Count("gen:exp-" + tag)
		c.Count("submitters:exp-peers")
		return nil
	}

	if c.Only != "" {
		// replay of one case line tagged x=exp
		h, err := ParseHistory(c.Only)
		if err != nil {
			return err
		}
		isExp := false
		var conc []Sub
		var prefs []int
		for _, x := range h.X {
			switch {
			case x == "exp":
				isExp = true
			case strings.HasPrefix(x, "t") && strings.Contains(x, ":") && !strings.HasPrefix(x, "trace:"):
				p := strings.SplitN(x, ":", 2)
				hh, err := ParseHistory(p[1])
				if err != nil || len(hh.Subs) != 1 {
					return fmt.Errorf("bad concurrent sub %q", x)
				}
				conc = append(conc, hh.Subs[0])
			case strings.HasPrefix(x, "prefs:"):
				for _, t := range strings.Split(x[6:], ".") {
					if v, err := strconv.Atoi(t); err == nil {
						prefs = append(prefs, v)
					}
				}
			}
		}
		if !isExp {
			return nil
		}
		return do(&History{Forbidden: h.Forbidden, Subs: h.Subs}, conc, prefs, "only")
	}

	mk := func(id, prev int, bits uint32) Sub {
		return Sub{ID: id, Prev: prev, Bits: bits, Ver: 1, Merkle: id + 100, TS: uint32(1600000000 + id), Nonce: uint32(id)}
	}
	pats := [][]int{{1, 2}, {2, 1}, {1, 1, 2}, {1, 2, 2}, {1, 1, 2, 2}, {2, 2, 1}, {1, 1, 1, 2}, {1, 2, 1, 1, 2}, {1}, {2}}
	type shape struct {
		tag   string
		setup *History
		conc  []Sub
		npat  int
	}
	one := &History{Subs: []Sub{mk(2, 1, bitsW2)}}
	two := &History{Subs: []Sub{mk(2, 1, bitsW2), mk(3, 2, bitsW2)}}
	fork := &History{Subs: []Sub{mk(2, 1, bitsW2), mk(3, 2, bitsW2), mk(4, 1, bitsW2)}}
	shapes := []shape{
		// two peers announce competing blocks on top of the tip at the same moment
		{"competing-children-of-tip", one, []Sub{mk(10, 2, bitsW2), mk(11, 2, bitsW2)}, 8},
		{"competing-children-of-tip", &History{}, []Sub{mk(10, 1, bitsW2), mk(11, 1, bitsW4)}, 4},
		// two peers announce the same block
		{"same-header", one, []Sub{mk(10, 2, bitsW2), mk(10, 2, bitsW2)}, 6},
		// one peer extends the tip while the other delivers a heavier sibling of the tip (a reorganisation)
		{"tip-extension-vs-heavier-sibling", one, []Sub{mk(10, 2, bitsW2), mk(11, 1, bitsW4)}, 8},
		{"tip-extension-vs-heavier-sibling", two, []Sub{mk(10, 3, bitsW2), mk(11, 2, bitsW8)}, 4},
		// one peer extends the tip while the other extends a stale branch so that it overtakes
		{"tip-extension-vs-stale-branch-overtaking", fork, []Sub{mk(10, 3, bitsW2), mk(11, 4, bitsW4)}, 4},
	}
	for _, sh := range shapes {
		for pi := 0; pi < sh.npat && pi < len(pats); pi++ {
			if err := do(sh.setup, sh.conc, pats[pi], sh.tag); err != nil {
				return err
			}
		}
	}
	return nil
}
