//go:build verif

package main

// C15 "free-w" cases: the header writer is not the only writer of the database.  One goroutine ingests a history
// made of REORGANISATIONS (two branches that overtake each other again and again: every overtaking header runs
// demote / promote / insert transactions) while other goroutines write to the OTHER tables of the same database
// through the service's own code (tokens issued and revoked, webhooks registered and removed - what POST /access,
// DELETE /access, POST /webhook and the webhook delivery bookkeeping do).  No reads are compared (a reorganisation
// is several transactions); the final table must be the sequential one, every submission must have been accepted,
// and every stored header must have had exactly one ADD event.
//
// case line: history ; x=free ; x=reads:          obs: <final rows>||ev=ok   (a submission that was not accepted
//            shows as rows that differ from the sequential ingestion)

import (
	"fmt"
	"strings"
	"sync"
	"sync/atomic"
	"time"
)

func c15ReorgHistory(rounds int) *History {
	h := &History{X: []string{"free"}}
	mk := func(id, prev int) Sub {
		return Sub{ID: id, Prev: prev, Bits: bitsW2, Ver: 1, Merkle: id + 100, TS: uint32(1600000000 + id), Nonce: uint32(id)}
	}
	tipA, tipB := genesisID, genesisID
	nextA, nextB := 2, 20002
	lenA, lenB := 0, 0
	for r := 0; r < rounds; r++ {
		// the shorter branch grows until it is one header longer than the other: its last header reorganises
		if lenA <= lenB {
			for lenA <= lenB {
				h.Subs = append(h.Subs, mk(nextA, tipA))
				tipA, nextA, lenA = nextA, nextA+1, lenA+1
			}
		} else {
			for lenB <= lenA {
				h.Subs = append(h.Subs, mk(nextB, tipB))
				tipB, nextB, lenB = nextB, nextB+1, lenB+1
			}
		}
	}
	return h
}

func runC15FreeW(c *Ctx, runs, rounds int) error {
	for run := 0; run < runs; run++ {
		s, err := NewStack(StackOpts{Dir: c.TmpDir(fmt.Sprintf("c15freew-%d", run)), UseAuth: true})
		if err != nil {
			return err
		}
		h := c15ReorgHistory(rounds + 3*run)
		m, err := Materialize(h)
		if err != nil {
			s.Close()
			return err
		}
		s.SetForbidden(m.ForbiddenHashes())
		evc := &evCounter{n: map[string]int{}}
		s.Services.Notifier.AddChannel(evc)
		var stop int32
		var otherWrites, otherErrs int64
		var og sync.WaitGroup
		var pause [3]time.Duration
		for g := 0; g < 3; g++ {
			og.Add(1)
			go func(g int) {
				defer og.Done()
				defer func() { _ = recover() }()
				for i := 0; atomic.LoadInt32(&stop) == 0; i++ {
					// the other writers must not STARVE the header writer (SQLite's busy handler polls, it does not queue:
					// writers that re-take the lock within microseconds can keep a waiting connection out for its whole
					// 5 s timeout on a loaded machine - an artefact of this rig, not of the service): after every write
					// each of them stays away three times as long as the write took, so the lock is free most of the time
					if i > 0 {
						time.Sleep(pause[g])
					}
					t0 := time.Now()
					if g < 2 {
						t, err := s.Services.Tokens.GenerateToken()
						if err != nil || t == nil {
							atomic.AddInt64(&otherErrs, 1)
							continue
						}
						atomic.AddInt64(&otherWrites, 1)
						if err := s.Services.Tokens.DeleteToken(t.Token); err != nil {
							atomic.AddInt64(&otherErrs, 1)
						} else {
							atomic.AddInt64(&otherWrites, 1)
						}
					} else if s.Services.Webhooks != nil {
						url := fmt.Sprintf("http://127.0.0.1:9/hook-%d-%d", run, i%5)
						if _, err := s.Services.Webhooks.CreateWebhook("BEARER", "Authorization", "t", url); err != nil {
							atomic.AddInt64(&otherErrs, 1)
						} else {
							atomic.AddInt64(&otherWrites, 1)
						}
						if err := s.Services.Webhooks.DeleteWebhook(url); err != nil {
							atomic.AddInt64(&otherErrs, 1)
						} else {
							atomic.AddInt64(&otherWrites, 1)
						}
					} else {
						return
					}
					if d := 3 * time.Since(t0); d > 200*time.Microsecond {
						pause[g] = d
					} else {
						pause[g] = 200 * time.Microsecond
					}
					if pause[g] > 50*time.Millisecond {
						pause[g] = 50 * time.Millisecond
					}
				}
			}(g)
		}
		outs := make([]string, len(h.Subs))
		done := make(chan struct{})
		go func() {
			defer close(done)
			for i := range h.Subs {
				outs[i] = AddOutcome(s, m.Src[i])
			}
		}()
		hung := false
		select {
		case <-done:
		case <-time.After(120 * time.Second):
			hung = true
		}
		atomic.StoreInt32(&stop, 1)
		if hung {
			c.Case((&History{Subs: h.Subs, X: []string{"free", "reads:"}}).Line(), "HANG writer-did-not-finish||ev=ok")
			return nil // the stack is not closed: its writer is still inside the service
		}
		og.Wait()
		rows, err := s.DumpHeaders()
		for w := 0; w < 200 && evc.total() < len(rows)-1; w++ {
			time.Sleep(time.Millisecond)
		}
		time.Sleep(2 * time.Millisecond)
		evBad := []string{}
		for _, row := range rows {
			if row.Height == 0 {
				continue
			}
			if n := evc.get(row.Hash); n != 1 {
				evBad = append(evBad, fmt.Sprintf("%d:%d", m.ID(row.Hash), n))
			}
		}
		evs := "ev=ok"
		if len(evBad) > 0 {
			if len(evBad) > 12 {
				evBad = append(evBad[:12], "...")
			}
			evs = "ev=" + strings.Join(evBad, ",")
		}
		s.Close()
		if err != nil {
			return err
		}
		nrej := 0
		for _, o := range outs {
			if strings.HasPrefix(o, "E") || o == "P" {
				nrej++
			}
		}
		c.Case((&History{Subs: h.Subs, X: []string{"free", "reads:"}}).Line(), RowsString(rows, m)+"||"+evs)
		c.Count("free-other-writers")
		c.Meta(fmt.Sprintf("c15freew_run_%d", run), fmt.Sprintf("submissions=%d (failed: %d) concurrent writes to tokens/webhooks=%d (failed: %d)", len(h.Subs), nrej, atomic.LoadInt64(&otherWrites), atomic.LoadInt64(&otherErrs)))
	}
	return nil
}
