//go:build verif

package main

// The C06/C07 rig: scripted protocol-conformant nodes speaking internal/wire over in-memory duplex
// connections against
//   - the default engine: a real p2p server value + real p2psync.SyncManager + real serverPeer/peer.Peer
//     objects (accepted through the real inboundPeerConnected); the harness is the manager's event loop
//     (in-package hook VerifC06Pull / VerifC06Handle), so the order of handled events is the script's;
//   - the experimental engine: a real p2pexp server value whose real connectPeer (NewPeer, Connect,
//     StartHeadersSync) runs on the connection; its read loop handles the node's messages in the order
//     the node writes them, a ping/pong round trip fences each one.
// The same script language is interpreted by the extracted Coq model (SyncSys.y_cmd / z_cmd); observables
// are compared command by command.

import (
	"errors"
	"fmt"
	"net"
	"sort"
	"strconv"
	"strings"
	"sync"
	"time"

	"github.com/bitcoin-sv/block-headers-service/config"
	"github.com/bitcoin-sv/block-headers-service/internal/chaincfg"
	"github.com/bitcoin-sv/block-headers-service/internal/chaincfg/chainhash"
	p2pexp "github.com/bitcoin-sv/block-headers-service/internal/transports/p2p"
	exppeer "github.com/bitcoin-sv/block-headers-service/internal/transports/p2p/peer"
	"github.com/bitcoin-sv/block-headers-service/internal/wire"
	"github.com/bitcoin-sv/block-headers-service/service"
	"github.com/bitcoin-sv/block-headers-service/transports/p2p"
	"github.com/bitcoin-sv/block-headers-service/transports/p2p/p2psync"
	peerpkg "github.com/bitcoin-sv/block-headers-service/transports/p2p/peer"
	"github.com/rs/zerolog"
)

// ---------------------------------------------------------------------------------------------
// scenario lines: ";"-separated self-describing tokens (so that the shrinker can drop any of them)
//   eng=d|x   dis=0|1   cps=<h>:<id>,..   init=<id>.<id>..   n=<p>:<cap>:<chain ids>:<reserve ids>
//   ch=<hint>.<hint>..   g=.. f=.. <sub>   (the header universe, common_chain syntax)
//   commands: C<p> D<p> Q<p> X<p> S<p> A<p>.<k>.<i|h> T<0|1> G<p> R<fuel>
//             K<p>.<stage>  the node drops during the handshake: stage 0 before its version message, 1 after its version and
//                           before its verack (a completed handshake followed by a drop is C<p>;X<p>)
// ---------------------------------------------------------------------------------------------

const rigNow = 1800000000 // the model's wall clock; generated timestamps stay far away from it on both sides

type cpSpec struct{ H, ID int }

type nodeSpec struct {
	P, Cap         int
	Chain, Reserve []int
}

// Scenario is one parsed case input.
type Scenario struct {
	Eng   string
	Dis   bool
	Cps   []cpSpec
	Init  []int
	Nodes []*nodeSpec
	U     *History
	Cmds  []string
	Hints []int
}

func dotInts(s string) ([]int, error) {
	var out []int
	for _, x := range strings.Split(s, ".") {
		if x == "" {
			continue
		}
		v, err := strconv.Atoi(x)
		if err != nil {
			return nil, err
		}
		out = append(out, v)
	}
	return out, nil
}

func intsDot(l []int) string {
	p := make([]string, len(l))
	for i, v := range l {
		p[i] = strconv.Itoa(v)
	}
	return strings.Join(p, ".")
}

// ParseScenario parses a case input line.
func ParseScenario(line string) (*Scenario, error) {
	sc := &Scenario{Eng: "d"}
	var hist []string
	for _, tok := range strings.Split(line, ";") {
		tok = strings.TrimSpace(tok)
		switch {
		case tok == "":
		case strings.HasPrefix(tok, "eng="):
			sc.Eng = tok[4:]
		case strings.HasPrefix(tok, "dis="):
			sc.Dis = tok[4:] == "1"
		case strings.HasPrefix(tok, "cps="):
			for _, c := range strings.Split(tok[4:], ",") {
				if c == "" {
					continue
				}
				hp := strings.Split(c, ":")
				if len(hp) != 2 {
					return nil, fmt.Errorf("bad checkpoint %q", c)
				}
				h, e1 := strconv.Atoi(hp[0])
				id, e2 := strconv.Atoi(hp[1])
				if e1 != nil || e2 != nil {
					return nil, fmt.Errorf("bad checkpoint %q", c)
				}
				sc.Cps = append(sc.Cps, cpSpec{h, id})
			}
		case strings.HasPrefix(tok, "init="):
			l, err := dotInts(tok[5:])
			if err != nil {
				return nil, err
			}
			sc.Init = l
		case strings.HasPrefix(tok, "ch="):
			l, err := dotInts(tok[3:])
			if err != nil {
				return nil, err
			}
			sc.Hints = l
		case strings.HasPrefix(tok, "n="):
			f := strings.Split(tok[2:], ":")
			if len(f) != 4 {
				return nil, fmt.Errorf("bad node %q", tok)
			}
			p, e1 := strconv.Atoi(f[0])
			cp, e2 := strconv.Atoi(f[1])
			ch, e3 := dotInts(f[2])
			rs, e4 := dotInts(f[3])
			if e1 != nil || e2 != nil || e3 != nil || e4 != nil {
				return nil, fmt.Errorf("bad node %q", tok)
			}
			sc.Nodes = append(sc.Nodes, &nodeSpec{P: p, Cap: cp, Chain: ch, Reserve: rs})
		case strings.HasPrefix(tok, "g=") || strings.HasPrefix(tok, "f=") || strings.Count(tok, ",") == 6:
			hist = append(hist, tok)
		case tok[0] >= 'A' && tok[0] <= 'Z':
			sc.Cmds = append(sc.Cmds, tok)
		default:
			return nil, fmt.Errorf("bad token %q", tok)
		}
	}
	h, err := ParseHistory(strings.Join(hist, ";"))
	if err != nil {
		return nil, err
	}
	sc.U = h
	return sc, nil
}

// Line renders the scenario (with the given hints) as a case input line.
func (sc *Scenario) Line() string {
	var sb strings.Builder
	fmt.Fprintf(&sb, "eng=%s;dis=%d;cps=", sc.Eng, b2i(sc.Dis))
	for i, c := range sc.Cps {
		if i > 0 {
			sb.WriteByte(',')
		}
		fmt.Fprintf(&sb, "%d:%d", c.H, c.ID)
	}
	fmt.Fprintf(&sb, ";init=%s", intsDot(sc.Init))
	for _, n := range sc.Nodes {
		fmt.Fprintf(&sb, ";n=%d:%d:%s:%s", n.P, n.Cap, intsDot(n.Chain), intsDot(n.Reserve))
	}
	fmt.Fprintf(&sb, ";ch=%s;", intsDot(sc.Hints))
	sb.WriteString(sc.U.Line())
	for _, c := range sc.Cmds {
		sb.WriteByte(';')
		sb.WriteString(c)
	}
	return sb.String()
}

func b2i(b bool) int {
	if b {
		return 1
	}
	return 0
}

// ---------------------------------------------------------------------------------------------
// in-memory duplex connection with TCP-looking addresses
// ---------------------------------------------------------------------------------------------

type memConn struct {
	net.Conn
	local, remote net.Addr
}

func (c *memConn) LocalAddr() net.Addr  { return c.local }
func (c *memConn) RemoteAddr() net.Addr { return c.remote }

func nodeAddr(p int) *net.TCPAddr {
	return &net.TCPAddr{IP: net.IPv4(10, 6, byte(p>>8), byte(p)), Port: 18333}
}

func connPair(p int) (svc, node net.Conn) {
	a, b := net.Pipe()
	me := &net.TCPAddr{IP: net.IPv4(10, 6, 255, 254), Port: 8333}
	return &memConn{Conn: a, local: me, remote: nodeAddr(p)}, &memConn{Conn: b, local: nodeAddr(p), remote: me}
}

// ---------------------------------------------------------------------------------------------
// a scripted protocol-conformant node
// ---------------------------------------------------------------------------------------------

const rigPver = uint32(70015)
const rigTimeout = 5 * time.Second

type rigNode struct {
	spec                *nodeSpec
	m                   *Mat
	net                 wire.BitcoinNet
	chain, reserve      []int
	open, used, stalled bool
	out                 []wire.Message
	conn                net.Conn
	recv                chan wire.Message
	wmu                 sync.Mutex
	nonce               uint64
	autoPong            bool
}

func (n *rigNode) header(id int) (*wire.BlockHeader, error) {
	i, ok := n.m.def[id]
	if !ok {
		return nil, fmt.Errorf("header id %d is not defined in the universe", id)
	}
	bh := wire.BlockHeader(n.m.Src[i])
	return &bh, nil
}

func (n *rigNode) write(msg wire.Message) error {
	n.wmu.Lock()
	defer n.wmu.Unlock()
	_ = n.conn.SetWriteDeadline(time.Now().Add(rigTimeout))
	return wire.WriteMessage(n.conn, msg, rigPver, n.net)
}

func (n *rigNode) startReader() {
	n.recv = make(chan wire.Message, 4096)
	conn, ch := n.conn, n.recv
	go func() {
		defer close(ch)
		for {
			msg, _, err := wire.ReadMessage(conn, rigPver, n.net)
			if err != nil {
				var me *wire.MessageError
				if errors.As(err, &me) {
					continue // unknown command: the payload has been discarded
				}
				return
			}
			if pg, ok := msg.(*wire.MsgPing); ok && n.autoPong {
				go func(nonce uint64) { _ = n.write(wire.NewMsgPong(nonce)) }(pg.Nonce)
			}
			ch <- msg
		}
	}()
}

// next waits for the next received message; ok=false on close or timeout.
func (n *rigNode) next() (wire.Message, bool, bool) {
	select {
	case m, ok := <-n.recv:
		return m, ok, false
	case <-time.After(rigTimeout):
		return nil, false, true
	}
}

// reply: the next headers of the node's chain after the first locator hash it knows (from the first
// header when it knows none), at most cap, up to and including stop.
func (n *rigNode) reply(loc []*chainhash.Hash, stop chainhash.Hash) (*wire.MsgHeaders, error) {
	idx := map[chainhash.Hash]int{n.m.Hash[genesisID]: 0}
	for i, id := range n.chain {
		if _, dup := idx[n.m.Hash[id]]; !dup {
			idx[n.m.Hash[id]] = i + 1
		}
	}
	start := 0
	for _, h := range loc {
		if k, ok := idx[*h]; ok {
			start = k
			break
		}
	}
	msg := wire.NewMsgHeaders()
	for i := start; i < len(n.chain) && len(msg.Headers) < n.spec.Cap; i++ {
		bh, err := n.header(n.chain[i])
		if err != nil {
			return nil, err
		}
		msg.Headers = append(msg.Headers, bh)
		if n.m.Hash[n.chain[i]] == stop {
			break
		}
	}
	return msg, nil
}

func (n *rigNode) onGetHeaders(g *wire.MsgGetHeaders) error {
	if !n.open || n.stalled {
		return nil
	}
	r, err := n.reply(g.BlockLocatorHashes, g.HashStop)
	if err != nil {
		return err
	}
	n.out = append(n.out, r)
	return nil
}

func (n *rigNode) announce(k int, byInv bool) error {
	if k > len(n.reserve) {
		k = len(n.reserve)
	}
	fresh := n.reserve[:k]
	n.reserve = n.reserve[k:]
	n.chain = append(n.chain, fresh...)
	if len(fresh) == 0 || !n.open || n.stalled {
		return nil
	}
	if byInv {
		inv := wire.NewMsgInv()
		for _, id := range fresh {
			h := n.m.Hash[id]
			_ = inv.AddInvVect(wire.NewInvVect(wire.InvTypeBlock, &h))
		}
		n.out = append(n.out, inv)
		return nil
	}
	msg := wire.NewMsgHeaders()
	for _, id := range fresh {
		bh, err := n.header(id)
		if err != nil {
			return err
		}
		msg.Headers = append(msg.Headers, bh)
	}
	n.out = append(n.out, msg)
	return nil
}

func (n *rigNode) closed() {
	n.open = false
	n.out = nil
}

func (n *rigNode) versionMsg() *wire.MsgVersion {
	me := wire.NewNetAddress(nodeAddr(n.spec.P), wire.SFNodeNetwork)
	you := wire.NewNetAddress(&net.TCPAddr{IP: net.IPv4(10, 6, 255, 254), Port: 8333}, 0)
	n.nonce++
	v := wire.NewMsgVersion(me, you, uint64(0xc06c0600000000)+uint64(n.spec.P)<<20+n.nonce+uint64(time.Now().UnixNano()&0xfffff)<<40, int32(len(n.chain)))
	v.Services = wire.SFNodeNetwork
	v.ProtocolVersion = int32(rigPver)
	_ = v.AddUserAgent("verif-node", "1.0")
	return v
}

// ---------------------------------------------------------------------------------------------
// the observable syntax shared with the OCaml driver
// ---------------------------------------------------------------------------------------------

func (r *rigBase) idOfHash(h chainhash.Hash) int {
	if id, ok := r.m.IDOf[h]; ok {
		return id
	}
	return -1
}

func (r *rigBase) ghString(p int, g *wire.MsgGetHeaders) string {
	ids := make([]string, len(g.BlockLocatorHashes))
	for i, h := range g.BlockLocatorHashes {
		ids[i] = strconv.Itoa(r.idOfHash(*h))
	}
	return fmt.Sprintf("G%d(%s>%d)", p, strings.Join(ids, "."), r.idOfHash(g.HashStop))
}

// msgLabel renders a node message as H<p>.<n>[ids] / I<p>.<n>[ids].
func (r *rigBase) msgLabel(p int, msg wire.Message) string {
	switch mm := msg.(type) {
	case *wire.MsgHeaders:
		ids := make([]string, len(mm.Headers))
		for i, h := range mm.Headers {
			ids[i] = strconv.Itoa(r.idOfHash(h.BlockHash()))
		}
		return fmt.Sprintf("H%d.%d[%s]", p, len(mm.Headers), strings.Join(ids, "."))
	case *wire.MsgInv:
		ids := make([]string, len(mm.InvList))
		for i, v := range mm.InvList {
			ids[i] = strconv.Itoa(r.idOfHash(v.Hash))
		}
		return fmt.Sprintf("I%d.%d[%s]", p, len(mm.InvList), strings.Join(ids, "."))
	}
	return "?" + msg.Command()
}

func effOrder(s string) int {
	switch {
	case strings.HasPrefix(s, "B"):
		return 0
	case strings.HasPrefix(s, "X"):
		return 1
	case strings.HasPrefix(s, "G"):
		return 2
	case strings.HasPrefix(s, "SH"):
		return 3
	case strings.HasPrefix(s, "SV"):
		return 4
	case strings.HasPrefix(s, "P"):
		return 5
	}
	return 6
}

func canonEffs(effs []string) string {
	sort.SliceStable(effs, func(i, j int) bool {
		if effOrder(effs[i]) != effOrder(effs[j]) {
			return effOrder(effs[i]) < effOrder(effs[j])
		}
		return false
	})
	return strings.Join(effs, "+")
}

type rigBase struct {
	sc    *Scenario
	m     *Mat
	stack *Stack
	nodes map[int]*rigNode
	order []int
	prm   *chaincfg.Params
	cps   []chaincfg.Checkpoint
	hs    *service.HeaderService
	svc   *service.Services
}

func (r *rigBase) tipID() int {
	t, err := r.stack.Repo.Headers.GetTip()
	if err != nil || t == nil {
		return -2
	}
	return r.m.ID(t.Hash.String())
}

func (r *rigBase) finalString() (string, error) {
	_, tip, rows, err := StatesAndTip(r.stack, r.m)
	if err != nil {
		return "", err
	}
	// every forbidden hash through the public API
	var http []string
	for _, f := range r.sc.U.Forbidden {
		hv, ok := r.m.Hash[f]
		if !ok {
			hv = fakeHash(f)
		}
		code, _ := r.stack.Do("GET", "/api/v1/chain/header/"+hv.String(), "", nil)
		http = append(http, fmt.Sprintf("%d:%d", f, code))
	}
	return fmt.Sprintf("tip=%d|rows=%s|http=%s", tip, RowsString(rows, r.m), strings.Join(http, ",")), nil
}

// newRigBase resets the store, installs the chain parameters (checkpoints, forbidden hashes) and pre-loads
// the initial headers through Chains.Add.
func newRigBase(stack *Stack, sc *Scenario) (*rigBase, error) {
	m, err := Materialize(sc.U)
	if err != nil {
		return nil, err
	}
	r := &rigBase{sc: sc, m: m, stack: stack, nodes: map[int]*rigNode{}}
	if err := stack.ResetHeaders(); err != nil {
		return nil, err
	}
	prm := chaincfg.MainNetParams
	prm.HeadersToIgnore = m.ForbiddenHashes()
	for _, c := range sc.Cps {
		hv, ok := m.Hash[c.ID]
		if !ok {
			hv = fakeHash(c.ID)
			m.Hash[c.ID] = hv
			m.IDOf[hv] = c.ID
		}
		hc := hv
		r.cps = append(r.cps, chaincfg.Checkpoint{Height: int32(c.H), Hash: &hc})
	}
	prm.Checkpoints = r.cps
	r.prm = &prm
	lg := zerolog.Nop()
	config.Checkpoints = r.cps
	if config.TimeSource == nil {
		config.TimeSource = config.NewMedianTime(&lg)
	}
	r.hs = service.NewHeaderService(stack.Repo, nil, &lg)
	svc := *stack.Services
	svc.Headers = r.hs
	svc.Chains = service.NewChainsService(stack.Repo, r.prm, &lg, service.DefaultBlockHasher(), stack.Services.Notifier)
	r.svc = &svc
	for _, id := range sc.Init {
		i, ok := m.def[id]
		if !ok {
			return nil, fmt.Errorf("init id %d is not defined", id)
		}
		if _, err := svc.Chains.Add(m.Src[i]); err != nil {
			return nil, fmt.Errorf("pre-loading header %d: %v", id, err)
		}
	}
	for _, ns := range sc.Nodes {
		for _, id := range append(append([]int{}, ns.Chain...), ns.Reserve...) {
			if _, ok := m.def[id]; !ok {
				return nil, fmt.Errorf("node %d: header id %d is not defined", ns.P, id)
			}
		}
		if _, dup := r.nodes[ns.P]; dup {
			return nil, fmt.Errorf("node %d declared twice", ns.P)
		}
		r.nodes[ns.P] = &rigNode{spec: ns, m: m, net: prm.Net, chain: append([]int{}, ns.Chain...), reserve: append([]int{}, ns.Reserve...)}
		r.order = append(r.order, ns.P)
	}
	return r, nil
}

func parseCmd(c string) (op byte, a, b int, kind string, err error) {
	op = c[0]
	parts := strings.Split(c[1:], ".")
	if len(parts) >= 1 && parts[0] != "" {
		a, err = strconv.Atoi(parts[0])
		if err != nil {
			return
		}
	}
	if len(parts) >= 2 {
		b, err = strconv.Atoi(parts[1])
		if err != nil {
			return
		}
	}
	if len(parts) >= 3 {
		kind = parts[2]
	}
	return
}

// ---------------------------------------------------------------------------------------------
// default engine
// ---------------------------------------------------------------------------------------------

type dRig struct {
	*rigBase
	srv         *p2p.VerifC06Server
	sm          *p2psync.SyncManager
	peers       map[int]*peerpkg.Peer
	byPeer      map[*peerpkg.Peer]int
	pendingDone []int
	doneMsg     map[int]interface{}
	hints       []int
	bans        map[string]bool
	fenceNonce  uint64
}

func (r *dRig) stateString() string {
	hfm, nh, _, sp, _ := r.sm.VerifC06State()
	s := 0
	if sp != nil {
		s = r.byPeer[sp]
	}
	return fmt.Sprintf("~%d.%d.%d.%d", b2i(hfm), nh, s, r.tipID())
}

// pullFor pulls manager messages until one of the wanted kind for the wanted peer arrives.
func (r *dRig) pullFor(kind string, p int) (interface{}, error) {
	deadline := time.Now().Add(rigTimeout)
	for time.Now().Before(deadline) {
		m, ok := r.sm.VerifC06Pull(rigTimeout)
		if !ok {
			break
		}
		k, pr, _ := p2psync.VerifC06Describe(m)
		if k == "iscurrent" || k == "getsync" {
			r.sm.VerifC06Handle(m)
			continue
		}
		if k == "new" && kind == "new" {
			// the peer object is learnt here
			if pr.Addr() == nodeAddr(p).String() {
				return m, nil
			}
			return nil, fmt.Errorf("new-peer message for %s while waiting for node %d", pr.Addr(), p)
		}
		if id, known := r.byPeer[pr]; known && k == "done" && !(kind == "done" && id == p) {
			// a done event that the script has not asked for yet
			r.doneMsg[id] = m
			continue
		}
		if id, known := r.byPeer[pr]; known && k == kind && id == p {
			return m, nil
		}
		return nil, fmt.Errorf("unexpected manager message %s while waiting for %s of node %d", k, kind, p)
	}
	return nil, fmt.Errorf("timeout waiting for %s of node %d", kind, p)
}

// fence makes sure everything the service queued for node p has been written and read, and returns it.
func (r *dRig) fence(p int) ([]wire.Message, error) {
	n := r.nodes[p]
	pr := r.peers[p]
	r.fenceNonce++
	nonce := 0xfe0000000000 + r.fenceNonce
	done := make(chan struct{}, 1)
	pr.QueueMessage(wire.NewMsgPing(nonce), done)
	select {
	case <-done:
	case <-time.After(rigTimeout):
		return nil, fmt.Errorf("fence: write to node %d timed out", p)
	}
	var got []wire.Message
	for {
		m, ok, tmo := n.next()
		if tmo {
			return got, fmt.Errorf("fence: node %d did not see the ping", p)
		}
		if !ok {
			return got, nil // closed
		}
		if pg, isPing := m.(*wire.MsgPing); isPing {
			if pg.Nonce == nonce {
				return got, nil
			}
			continue
		}
		got = append(got, m)
	}
}

func (r *dRig) drainClosed(p int) []wire.Message {
	n := r.nodes[p]
	var got []wire.Message
	for {
		m, ok, tmo := n.next()
		if !ok || tmo {
			return got
		}
		if _, isPing := m.(*wire.MsgPing); !isPing {
			got = append(got, m)
		}
	}
}

// after runs after every engine step: collects what the service sent, disconnects, bans.
func (r *dRig) after(label string, panicked string) (string, error) {
	var effs []string
	if panicked != "" {
		effs = append(effs, "P")
	}
	for _, host := range r.srv.Bans() {
		if !r.bans[host] {
			r.bans[host] = true
			for _, p := range r.order {
				if nodeAddr(p).IP.String() == host {
					effs = append(effs, fmt.Sprintf("B%d", p))
				}
			}
		}
	}
	for _, p := range r.order {
		n := r.nodes[p]
		pr, ok := r.peers[p]
		if !ok || !n.open {
			continue
		}
		var msgs []wire.Message
		if pr.Connected() {
			var err error
			msgs, err = r.fence(p)
			if err != nil {
				return "", err
			}
		}
		if !pr.Connected() {
			msgs = append(msgs, r.drainClosed(p)...)
		}
		for _, m := range msgs {
			switch g := m.(type) {
			case *wire.MsgGetHeaders:
				effs = append(effs, r.ghString(p, g))
				if err := n.onGetHeaders(g); err != nil {
					return "", err
				}
			case *wire.MsgVerAck, *wire.MsgVersion, *wire.MsgPong:
			default:
				effs = append(effs, "?"+m.Command())
			}
		}
		if !pr.Connected() {
			effs = append(effs, fmt.Sprintf("X%d", p))
			n.closed()
			_ = n.conn.Close()
			if _, have := r.doneMsg[p]; !have {
				dm, err := r.pullFor("done", p)
				if err != nil {
					return "", err
				}
				r.doneMsg[p] = dm
			}
			r.pendingDone = append(r.pendingDone, p)
		}
	}
	_, _, _, sp, _ := r.sm.VerifC06State()
	h := 0
	if sp != nil {
		h = r.byPeer[sp]
	}
	r.hints = append(r.hints, h)
	return label + ":" + canonEffs(effs) + r.stateString(), nil
}

func (r *dRig) connect(p int) (string, error) {
	n, ok := r.nodes[p]
	if !ok || n.used {
		return "", nil
	}
	svcSide, nodeSide := connPair(p)
	n.conn = nodeSide
	n.used, n.open, n.out = true, true, nil
	n.autoPong = true
	n.startReader()
	r.srv.Accept(svcSide)
	if err := n.write(n.versionMsg()); err != nil {
		return "", fmt.Errorf("node %d: writing version: %v", p, err)
	}
	gotVer, gotAck := false, false
	for !(gotVer && gotAck) {
		m, ok, tmo := n.next()
		if !ok || tmo {
			return "", fmt.Errorf("node %d: handshake failed", p)
		}
		switch m.(type) {
		case *wire.MsgVersion:
			gotVer = true
		case *wire.MsgVerAck:
			gotAck = true
		}
	}
	if err := n.write(wire.NewMsgVerAck()); err != nil {
		return "", fmt.Errorf("node %d: writing verack: %v", p, err)
	}
	m, err := r.pullFor("new", p)
	if err != nil {
		return "", err
	}
	_, pr, _ := p2psync.VerifC06Describe(m)
	r.peers[p] = pr
	r.byPeer[pr] = p
	pan := r.sm.VerifC06Handle(m)
	return r.after(fmt.Sprintf("N%d", p), pan)
}

// connectDrop: the node connects (real inboundPeerConnected -> serverPeer, peerDoneHandler goroutine) and drops the connection
// during the handshake.  Stage 0: before sending its version - nothing reaches the sync manager.  Stage 1: after its version
// (serverPeer.OnVersion has queued NewPeer) and before its verack: the handshake fails, the peer object disconnects, the real
// peerDoneHandler decides whether the sync manager is told (DonePeer); the queued new-peer message is handled afterwards, the
// done event - if one was sent - waits in the pending list for the script like any other.
func (r *dRig) connectDrop(p, stage int) (string, error) {
	n, ok := r.nodes[p]
	if !ok || n.used {
		return "", nil
	}
	svcSide, nodeSide := connPair(p)
	n.conn = nodeSide
	n.used, n.open, n.out = true, false, nil
	n.autoPong = false
	n.startReader()
	r.srv.Accept(svcSide)
	if stage == 0 {
		_ = n.conn.Close()
		time.Sleep(2 * time.Millisecond)
		return "", nil
	}
	if err := n.write(n.versionMsg()); err != nil {
		return "", fmt.Errorf("node %d: writing version: %v", p, err)
	}
	m, err := r.pullFor("new", p)
	if err != nil {
		return "", err
	}
	_, pr, _ := p2psync.VerifC06Describe(m)
	r.peers[p] = pr
	r.byPeer[pr] = p
	_ = n.conn.Close()
	dl := time.Now().Add(rigTimeout)
	for pr.Connected() && time.Now().Before(dl) {
		time.Sleep(200 * time.Microsecond)
	}
	if pr.Connected() {
		return "", fmt.Errorf("peer of node %d did not notice the close during the handshake", p)
	}
	// the done event, if the server reports this peer at all
	deadline := time.Now().Add(400 * time.Millisecond)
	for time.Now().Before(deadline) {
		dm, got := r.sm.VerifC06Pull(time.Until(deadline))
		if !got {
			break
		}
		k, dp, _ := p2psync.VerifC06Describe(dm)
		if k == "iscurrent" || k == "getsync" {
			r.sm.VerifC06Handle(dm)
			continue
		}
		if id, known := r.byPeer[dp]; known && k == "done" {
			r.doneMsg[id] = dm
			if id == p {
				r.pendingDone = append(r.pendingDone, p)
				break
			}
			continue
		}
		return "", fmt.Errorf("unexpected manager message %s during the handshake drop of node %d", k, p)
	}
	pan := r.sm.VerifC06Handle(m)
	return r.after(fmt.Sprintf("N%d", p), pan)
}

func (r *dRig) deliver(p int) (string, error) {
	n, ok := r.nodes[p]
	if !ok || !n.open || len(n.out) == 0 {
		return "", nil
	}
	msg := n.out[0]
	n.out = n.out[1:]
	if err := n.write(msg); err != nil {
		return "", fmt.Errorf("node %d: write: %v", p, err)
	}
	kind, label := "headers", r.msgLabel(p, msg)
	if _, isInv := msg.(*wire.MsgInv); isInv {
		kind = "inv"
	}
	m, err := r.pullFor(kind, p)
	if err != nil {
		return "", err
	}
	pan := r.sm.VerifC06Handle(m)
	return r.after(label, pan)
}

func (r *dRig) done(p int) (string, error) {
	idx := -1
	for i, q := range r.pendingDone {
		if q == p {
			idx = i
		}
	}
	if idx < 0 {
		return "", nil
	}
	r.pendingDone = append(r.pendingDone[:idx], r.pendingDone[idx+1:]...)
	m := r.doneMsg[p]
	pan := r.sm.VerifC06Handle(m)
	return r.after(fmt.Sprintf("Q%d", p), pan)
}

func (r *dRig) nodeClose(p int) error {
	n, ok := r.nodes[p]
	if !ok || !n.open {
		return nil
	}
	_ = n.conn.Close()
	n.closed()
	pr := r.peers[p]
	dl := time.Now().Add(rigTimeout)
	for pr.Connected() && time.Now().Before(dl) {
		time.Sleep(200 * time.Microsecond)
	}
	if pr.Connected() {
		return fmt.Errorf("peer of node %d did not notice the close", p)
	}
	dm, err := r.pullFor("done", p)
	if err != nil {
		return err
	}
	r.doneMsg[p] = dm
	r.pendingDone = append(r.pendingDone, p)
	return nil
}

func (r *dRig) nextReady() (isDone bool, p int, ok bool) {
	for _, q := range r.order {
		n := r.nodes[q]
		if n.open && len(n.out) > 0 {
			return false, q, true
		}
	}
	if len(r.pendingDone) > 0 {
		return true, r.pendingDone[0], true
	}
	return false, 0, false
}

func (r *dRig) cmd(c string) (string, error) {
	op, a, b, kind, err := parseCmd(c)
	if err != nil {
		return "", err
	}
	switch op {
	case 'C':
		return r.connect(a)
	case 'K':
		return r.connectDrop(a, b)
	case 'D':
		return r.deliver(a)
	case 'Q':
		return r.done(a)
	case 'X':
		return "", r.nodeClose(a)
	case 'S':
		if n, ok := r.nodes[a]; ok {
			n.stalled = true
		}
		return "", nil
	case 'A':
		if n, ok := r.nodes[a]; ok {
			return "", n.announce(b, kind == "i")
		}
		return "", nil
	case 'T':
		pan := r.sm.VerifC06Tick(a == 1)
		return r.after(fmt.Sprintf("T%d", a), pan)
	case 'G':
		return "", nil
	case 'R':
		var parts []string
		for f := 0; f < a; f++ {
			isDone, p, ok := r.nextReady()
			if !ok {
				break
			}
			var s string
			if isDone {
				s, err = r.done(p)
			} else {
				s, err = r.deliver(p)
			}
			if err != nil {
				return "", err
			}
			parts = append(parts, s)
		}
		return strings.Join(parts, ","), nil
	}
	return "", fmt.Errorf("unknown command %q", c)
}

func (r *dRig) shutdown() {
	for _, p := range r.order {
		n := r.nodes[p]
		if n.conn != nil {
			_ = n.conn.Close()
		}
		if pr, ok := r.peers[p]; ok {
			pr.Disconnect()
		}
	}
	r.srv.DrainServerQueues()
}

// runDefault runs a scenario against the default engine; returns the observable and the observed hints.
func runDefault(stack *Stack, sc *Scenario) (string, []int, error) {
	base, err := newRigBase(stack, sc)
	if err != nil {
		return "", nil, err
	}
	srv, err := p2p.VerifC06NewServer(base.prm, base.svc, base.cps, sc.Dis)
	if err != nil {
		return "", nil, err
	}
	r := &dRig{rigBase: base, srv: srv, sm: srv.SM(), peers: map[int]*peerpkg.Peer{}, byPeer: map[*peerpkg.Peer]int{},
		doneMsg: map[int]interface{}{}, bans: map[string]bool{}}
	defer r.shutdown()
	steps := make([]string, 0, len(sc.Cmds)+1)
	steps = append(steps, "init"+r.stateString())
	for _, c := range sc.Cmds {
		s, err := r.cmd(c)
		if err != nil {
			return "", nil, fmt.Errorf("command %s: %v", c, err)
		}
		steps = append(steps, s)
	}
	fin, err := r.finalString()
	if err != nil {
		return "", nil, err
	}
	return strings.Join(steps, ";") + "|" + fin, r.hints, nil
}

// ---------------------------------------------------------------------------------------------
// experimental engine (one peer)
// ---------------------------------------------------------------------------------------------

type xRig struct {
	*rigBase
	srv   *p2pexp.VerifC06Server
	peer  *exppeer.Peer // the peer object of the node the current command is about
	p     int
	peers map[int]*exppeer.Peer
	nonce uint64
}

// sel makes node a the subject of the following operations (every connection has its own real Peer object; the
// objects share nothing but the store).
func (r *xRig) sel(a int) bool {
	if _, ok := r.nodes[a]; !ok {
		return false
	}
	r.p = a
	r.peer = r.peers[a]
	return true
}

func (r *xRig) stateString() string {
	if r.peer == nil {
		return "~-"
	}
	h, i, shm, sc, lh := r.peer.VerifC06State()
	return fmt.Sprintf("~%d.%d.%d.%d.%d.%d", h, i, b2i(shm), b2i(sc), lh, r.tipID())
}

// fence: ping / pong round trip; returns what the service sent before the pong and whether the connection is still up.
func (r *xRig) fence() ([]wire.Message, bool, error) {
	n := r.nodes[r.p]
	r.nonce++
	nonce := 0xfe1100000000 + r.nonce
	if err := n.write(wire.NewMsgPing(nonce)); err != nil {
		// the service has closed the connection
		var got []wire.Message
		for {
			m, ok, tmo := n.next()
			if !ok || tmo {
				return got, false, nil
			}
			got = append(got, m)
		}
	}
	var got []wire.Message
	for {
		m, ok, tmo := n.next()
		if tmo {
			return got, true, fmt.Errorf("no pong from the service")
		}
		if !ok {
			return got, false, nil
		}
		if pg, isPong := m.(*wire.MsgPong); isPong {
			if pg.Nonce == nonce {
				return got, true, nil
			}
			continue
		}
		got = append(got, m)
	}
}

func (r *xRig) after(label string) (string, error) {
	n := r.nodes[r.p]
	msgs, up, err := r.fence()
	if err != nil {
		return "", err
	}
	var effs []string
	for _, m := range msgs {
		switch g := m.(type) {
		case *wire.MsgGetHeaders:
			effs = append(effs, r.ghString(r.p, g))
			if up {
				if err := n.onGetHeaders(g); err != nil {
					return "", err
				}
			}
		case *wire.MsgSendHeaders:
			effs = append(effs, fmt.Sprintf("SH%d", r.p))
		case *wire.MsgHeaders:
			effs = append(effs, fmt.Sprintf("SV%d", r.p))
		case *wire.MsgVerAck, *wire.MsgVersion, *wire.MsgPing:
		default:
			effs = append(effs, "?"+m.Command())
		}
	}
	if !up && n.open {
		effs = append(effs, fmt.Sprintf("X%d", r.p))
		n.closed()
		_ = n.conn.Close()
	}
	return label + ":" + canonEffs(effs) + r.stateString(), nil
}

func (r *xRig) connect() (string, error) {
	n := r.nodes[r.p]
	if n.used {
		return "", nil
	}
	svcSide, nodeSide := connPair(r.p)
	n.conn = nodeSide
	n.used, n.open, n.out = true, true, nil
	n.startReader()
	type res struct {
		p   *exppeer.Peer
		err error
	}
	ch := make(chan res, 1)
	go func() {
		p, err := r.srv.Connect(svcSide)
		ch <- res{p, err}
	}()
	// the service speaks first (outbound): wait for its version, answer with version + verack
	gotVer := false
	for !gotVer {
		m, ok, tmo := n.next()
		if !ok || tmo {
			return "", fmt.Errorf("experimental handshake: no version from the service")
		}
		if _, isV := m.(*wire.MsgVersion); isV {
			gotVer = true
		}
	}
	if err := n.write(n.versionMsg()); err != nil {
		return "", err
	}
	if err := n.write(wire.NewMsgVerAck()); err != nil {
		return "", err
	}
	select {
	case x := <-ch:
		if x.err != nil {
			return "", fmt.Errorf("connectPeer: %v", x.err)
		}
		r.peer = x.p
		r.peers[r.p] = x.p
	case <-time.After(rigTimeout):
		return "", fmt.Errorf("connectPeer timed out")
	}
	return r.after("N" + strconv.Itoa(r.p))
}

func (r *xRig) deliver() (string, error) {
	n := r.nodes[r.p]
	if !n.open || len(n.out) == 0 {
		return "", nil
	}
	msg := n.out[0]
	n.out = n.out[1:]
	label := r.msgLabel(r.p, msg)
	if err := n.write(msg); err != nil {
		return "", fmt.Errorf("node write: %v", err)
	}
	return r.after(label)
}

func (r *xRig) cmd(c string) (string, error) {
	op, a, b, kind, err := parseCmd(c)
	if err != nil {
		return "", err
	}
	if op != 'R' && op != 'T' && op != 'Q' {
		if !r.sel(a) {
			return "", nil
		}
	}
	n := r.nodes[r.p]
	switch op {
	case 'C':
		return r.connect()
	case 'D':
		return r.deliver()
	case 'Q', 'T', 'K':
		return "", nil
	case 'X':
		if n.open {
			_ = n.conn.Close()
			n.closed()
		}
		return "", nil
	case 'S':
		n.stalled = true
		return "", nil
	case 'A':
		return "", n.announce(b, kind == "i")
	case 'G':
		if !n.open {
			return "", nil
		}
		g := wire.NewMsgGetHeaders()
		gh := r.m.Hash[genesisID]
		_ = g.AddBlockLocatorHash(&gh)
		if err := n.write(g); err != nil {
			return "", err
		}
		return r.after("GH" + strconv.Itoa(r.p))
	case 'R':
		// the first node (in declaration order) with a message to deliver, until none is left
		var parts []string
		for f := 0; f < a; f++ {
			found := false
			for _, q := range r.order {
				if nq := r.nodes[q]; nq.open && len(nq.out) > 0 {
					r.sel(q)
					found = true
					break
				}
			}
			if !found {
				break
			}
			s, err := r.deliver()
			if err != nil {
				return "", err
			}
			parts = append(parts, s)
		}
		return strings.Join(parts, ","), nil
	}
	return "", fmt.Errorf("unknown command %q", c)
}

// runExp runs a scenario against the experimental engine (exactly one node).
func runExp(stack *Stack, sc *Scenario) (string, []int, error) {
	base, err := newRigBase(stack, sc)
	if err != nil {
		return "", nil, err
	}
	if len(base.order) < 1 {
		return "", nil, fmt.Errorf("no node declared")
	}
	cfg := config.GetDefaultAppConfig().P2P
	cfg.UserAgentName, cfg.UserAgentVersion = "verif", "0.0.1"
	r := &xRig{rigBase: base, p: base.order[0], peers: map[int]*exppeer.Peer{}}
	r.srv = p2pexp.VerifC06NewServer(cfg, base.prm, base.hs, base.svc.Chains)
	defer func() {
		for _, q := range r.order {
			n := r.nodes[q]
			pr := r.peers[q]
			// the read loop of the experimental peer spins on read errors until the peer is told to quit, and a peer
			// that disconnected from inside its own read loop must not be disconnected twice (close of closed channel)
			if pr != nil && n.open {
				done := make(chan struct{})
				go func() {
					defer func() { _ = recover(); close(done) }()
					pr.Disconnect()
				}()
				select {
				case <-done:
				case <-time.After(rigTimeout):
				}
			}
			if n.conn != nil {
				_ = n.conn.Close()
			}
		}
	}()
	steps := []string{"init" + r.stateString()}
	for _, c := range sc.Cmds {
		s, err := r.cmd(c)
		if err != nil {
			return "", nil, fmt.Errorf("command %s: %v", c, err)
		}
		steps = append(steps, s)
	}
	fin, err := r.finalString()
	if err != nil {
		return "", nil, err
	}
	return strings.Join(steps, ";") + "|" + fin, nil, nil
}

// RunScenario dispatches on the engine; a panic anywhere in the implementation is an observable.
func RunScenario(stack *Stack, sc *Scenario) (obs string, hints []int, err error) {
	defer func() {
		if rec := recover(); rec != nil {
			obs, hints, err = fmt.Sprintf("PANIC %v", rec), nil, nil
		}
	}()
	if sc.Eng == "x" {
		return runExp(stack, sc)
	}
	return runDefault(stack, sc)
}
