//go:build verif

package main

// C18 "na" cases: the outbound address selection alone.  The REAL p2putil.NewAddressFunc is given a scripted address
// source (the sequence of candidates the address manager would draw, or nil for "no address") and a scripted
// OutboundGroupCount; its answer is compared with the extracted model AddrSearch.new_address on the same sequence.
//
// case:   na u=<g>,<g>,...;<draw>;<draw>;...
//   u=    the network groups an outbound peer is connected to
//   draw  g<g>.<p><r>  the candidate 45.(10+g).1.<1..4 by p,r> : p = d default port / n another port;
//                      r = f never attempted / r attempted a minute ago          |  nil  the source is empty
//         (equal draws are the SAME address: the address manager draws with repetition)
// obs:    <position of the draw returned>:<draw>   |   none        (position = number of draws before it)

import (
	"fmt"
	"net"
	"strconv"
	"strings"
	"time"

	"github.com/bitcoin-sv/block-headers-service/config"
	"github.com/bitcoin-sv/block-headers-service/internal/wire"
	"github.com/bitcoin-sv/block-headers-service/transports/p2p/addrmgr"
	"github.com/bitcoin-sv/block-headers-service/transports/p2p/p2putil"
)

func c18RunNa(head []string, draws []string) (obs string) {
	defer func() {
		if r := recover(); r != nil {
			obs = fmt.Sprintf("PANIC %v", r)
		}
	}()
	used := map[string]bool{}
	for _, w := range head[1:] {
		if strings.HasPrefix(w, "u=") && len(w) > 2 {
			for _, g := range strings.Split(w[2:], ",") {
				n, err := strconv.Atoi(g)
				if err != nil {
					return "BAD-INPUT"
				}
				used[addrmgr.GroupKey(wire.NewNetAddressIPPort(net.IPv4(45, byte(10+n), 1, 1), 8333, 0))] = true
			}
		}
	}
	defPort, err := strconv.Atoi(config.ActiveNetParams.DefaultPort)
	if err != nil {
		return "BAD-CONFIG default port"
	}
	type cand struct {
		tok string
		ka  *addrmgr.KnownAddress
		key string
	}
	var seq []cand
	for _, d := range draws {
		if d == "nil" {
			seq = append(seq, cand{tok: d})
			continue
		}
		f := strings.Split(d, ".")
		if len(f) != 2 || len(f[0]) < 2 || f[0][0] != 'g' || len(f[1]) != 2 {
			return "BAD-INPUT"
		}
		g, err := strconv.Atoi(f[0][1:])
		if err != nil || g < 0 || g > 200 {
			return "BAD-INPUT"
		}
		port := defPort
		if f[1][0] == 'n' {
			port = defPort + 222
		}
		var last time.Time
		if f[1][1] == 'r' {
			last = time.Now().Add(-time.Minute)
		}
		host := 1
		if f[1][0] == 'n' {
			host += 2
		}
		if f[1][1] == 'r' {
			host++
		}
		na := wire.NewNetAddressIPPort(net.IPv4(45, byte(10+g), 1, byte(host)), uint16(port), 0)
		seq = append(seq, cand{tok: d, ka: addrmgr.VerifC18KnownAddress(na, last), key: addrmgr.NetAddressKey(na)})
	}
	calls := 0
	get := func() *addrmgr.KnownAddress {
		calls++
		if calls > len(seq) {
			return nil
		}
		return seq[calls-1].ka
	}
	fn := p2putil.NewAddressFunc(get, func(key string) int {
		if used[key] {
			return 1
		}
		return 0
	}, func(string) ([]net.IP, error) { return nil, fmt.Errorf("no lookups in this rig") })
	addr, err := fn()
	if err != nil || addr == nil {
		return "none"
	}
	pos := calls - 1
	if pos < 0 || pos >= len(seq) || seq[pos].ka == nil || seq[pos].key != addr.String() {
		return fmt.Sprintf("RETURNED-ADDRESS-IS-NOT-THE-LAST-DRAW %s after %d draws", addr, calls)
	}
	return fmt.Sprintf("%d:%s", pos, seq[pos].tok)
}

// c18NaCases: systematic books and seeded random ones
func c18NaCases(c *Ctx, emit func(line, tag string)) {
	rep := func(tok string, n int) []string {
		out := make([]string, n)
		for i := range out {
			out[i] = tok
		}
		return out
	}
	line := func(used string, draws []string) string {
		return "na u=" + used + ";" + strings.Join(draws, ";")
	}
	// one kind of address only, books of every interesting length (the filters relax after 30 / 50 draws; 100 draws at most)
	for _, tok := range []string{"g1.df", "g1.dr", "g1.nf", "g1.nr"} {
		for _, n := range []int{0, 1, 29, 30, 31, 49, 50, 51, 99, 100, 101, 150} {
			emit(line("", rep(tok, n)), "uniform")
			emit(line("1", rep(tok, n)), "uniform-group-used")
			emit(line("2", rep(tok, n)), "uniform-other-group-used")
		}
	}
	// one candidate that would pass at position p among candidates of a connected group
	for _, tok := range []string{"g1.df", "g1.dr", "g1.nf", "g1.nr"} {
		for _, p := range []int{0, 1, 28, 29, 30, 31, 48, 49, 50, 51, 98, 99, 100, 101, 120} {
			d := rep("g2.df", 130)
			d[p] = tok
			emit(line("2", d), "single-at-position")
			// ... and the source runs dry just before / just after it
			d2 := append([]string{}, d...)
			if p > 0 {
				d2[p-1] = "nil"
				emit(line("2", d2), "source-empty-before")
			}
			d3 := append([]string{}, d...)
			if p+1 < len(d3) {
				d3[p+1] = "nil"
				emit(line("2", d3[:p+2]), "source-empty-after")
			}
		}
	}
	// the SAME address offered again after it was turned down (the address manager draws with repetition): it must
	// be judged anew at its new position
	for _, tok := range []string{"g1.dr", "g1.nf", "g1.nr"} {
		for _, first := range []int{0, 10, 29} {
			for _, again := range []int{30, 49, 50, 75, 99} {
				d := rep("g2.df", 100)
				d[first], d[again] = tok, tok
				emit(line("2", d), "offered-again")
			}
		}
	}
	toks := []string{"g1.df", "g1.dr", "g1.nf", "g1.nr", "g2.df", "g2.nf", "g3.dr", "g3.nr", "g4.nf"}
	for i, n := 0, c.Pick(300, 3000); i < n; i++ {
		ln := c.Rng.Intn(130)
		var d []string
		// mostly candidates that are turned down early, so that the search gets far
		bias := c.Rng.Intn(3)
		for j := 0; j < ln; j++ {
			switch {
			case c.Rng.Intn(60) == 0:
				d = append(d, "nil")
			case bias == 0:
				d = append(d, toks[c.Rng.Intn(len(toks))])
			case bias == 1:
				d = append(d, []string{"g1.nf", "g1.nr", "g2.nr", "g3.dr"}[c.Rng.Intn(4)])
			default:
				d = append(d, []string{"g2.df", "g2.nf", "g1.nr", "g1.nf"}[c.Rng.Intn(4)])
			}
		}
		used := []string{"", "2", "1,2", "3", "1,2,3,4"}[c.Rng.Intn(5)]
		if bias == 2 && used == "" {
			used = "2"
		}
		emit(line(used, d), "random")
	}
}
