//go:build verif

package main

// C14: textual form of wire messages shared with the OCaml driver (the "summary"), parser and
// generator.  The summary is both the case input of the round-trip cases and the projected
// observable of every successful decode.
//
//   version:<pv>,<svc>,<ts>,<you>,<me>,<nonce>,<ua hex>,<lastblock>,<disableRelay 0|1>
//   netaddr  = <ts>~<svc>~<ip hex>~<port>
//   addr:<na>/<na>/...
//   getblocks:<pv>,<stop hex>,<hash>/<hash>/...      getheaders: the same
//   headers:<bh>/<bh>/...    bh = <ver>~<prev hex>~<merkle hex>~<ts>~<bits>~<nonce>
//   inv:<type>~<hash>/...    getdata, notfound: the same
//   ping:<nonce>  pong:<nonce>  feefilter:<fee>  reject:<cmd hex>,<code>,<reason hex>,<hash hex>
//   verack:  getaddr:  mempool:  sendheaders:   protoconf:<fields>,<maxrecv>
//   filteradd:<data hex>   filterclear:   filterload:<filter hex>,<hashfuncs>,<tweak>,<flags>
//   opaque:<command>    (payload decoder outside the model)

import (
	"encoding/hex"
	"fmt"
	"math"
	"math/rand"
	"net"
	"strconv"
	"strings"
	"time"

	"github.com/bitcoin-sv/block-headers-service/internal/chaincfg/chainhash"
	"github.com/bitcoin-sv/block-headers-service/internal/wire"
)

var c14Modelled = []string{"version", "verack", "getaddr", "addr", "getblocks", "getheaders", "headers", "inv",
	"getdata", "notfound", "ping", "pong", "reject", "sendheaders", "feefilter", "mempool", "protoconf",
	"filteradd", "filterclear", "filterload"}

var c14Opaque = map[string]bool{"block": true, "tx": true, "merkleblock": true, "getcfilters": true, "getcfheaders": true, "getcfcheckpt": true, "cfilter": true,
	"cfheaders": true, "cfcheckpt": true}

var c14AllCmds = []string{"version", "verack", "getaddr", "addr", "getblocks", "inv", "getdata", "notfound", "block", "tx",
	"getheaders", "headers", "ping", "pong", "mempool", "filteradd", "filterclear", "filterload", "merkleblock", "reject",
	"sendheaders", "feefilter", "getcfilters", "getcfheaders", "getcfcheckpt", "cfilter", "cfheaders", "cfcheckpt",
	"protoconf", "authch"}

func c14SumNA(na *wire.NetAddress) string {
	return fmt.Sprintf("%d~%d~%s~%d", na.Timestamp.Unix(), uint64(na.Services), hex.EncodeToString(na.IP), na.Port)
}

func c14SumInv(l []*wire.InvVect) string {
	p := make([]string, len(l))
	for i, iv := range l {
		p[i] = fmt.Sprintf("%d~%s", uint32(iv.Type), hex.EncodeToString(iv.Hash[:]))
	}
	return strings.Join(p, "/")
}

func c14SumLoc(pv uint32, locs []*chainhash.Hash, stop *chainhash.Hash) string {
	p := make([]string, len(locs))
	for i, h := range locs {
		p[i] = hex.EncodeToString(h[:])
	}
	return fmt.Sprintf("%d,%s,%s", pv, hex.EncodeToString(stop[:]), strings.Join(p, "/"))
}

func c14Summarize(m wire.Message) string {
	switch t := m.(type) {
	case *wire.MsgVersion:
		dr := 0
		if t.DisableRelayTx {
			dr = 1
		}
		return fmt.Sprintf("version:%d,%d,%d,%s,%s,%d,%s,%d,%d", t.ProtocolVersion, uint64(t.Services), t.Timestamp.Unix(),
			c14SumNA(&t.AddrYou), c14SumNA(&t.AddrMe), t.Nonce, hex.EncodeToString([]byte(t.UserAgent)), t.LastBlock, dr)
	case *wire.MsgVerAck:
		return "verack:"
	case *wire.MsgGetAddr:
		return "getaddr:"
	case *wire.MsgAddr:
		p := make([]string, len(t.AddrList))
		for i, na := range t.AddrList {
			p[i] = c14SumNA(na)
		}
		return "addr:" + strings.Join(p, "/")
	case *wire.MsgGetBlocks:
		return "getblocks:" + c14SumLoc(t.ProtocolVersion, t.BlockLocatorHashes, &t.HashStop)
	case *wire.MsgGetHeaders:
		return "getheaders:" + c14SumLoc(t.ProtocolVersion, t.BlockLocatorHashes, &t.HashStop)
	case *wire.MsgHeaders:
		p := make([]string, len(t.Headers))
		for i, h := range t.Headers {
			p[i] = fmt.Sprintf("%d~%s~%s~%d~%d~%d", h.Version, hex.EncodeToString(h.PrevBlock[:]),
				hex.EncodeToString(h.MerkleRoot[:]), h.Timestamp.Unix(), h.Bits, h.Nonce)
		}
		return "headers:" + strings.Join(p, "/")
	case *wire.MsgInv:
		return "inv:" + c14SumInv(t.InvList)
	case *wire.MsgGetData:
		return "getdata:" + c14SumInv(t.InvList)
	case *wire.MsgNotFound:
		return "notfound:" + c14SumInv(t.InvList)
	case *wire.MsgPing:
		return fmt.Sprintf("ping:%d", t.Nonce)
	case *wire.MsgPong:
		return fmt.Sprintf("pong:%d", t.Nonce)
	case *wire.MsgReject:
		return fmt.Sprintf("reject:%s,%d,%s,%s", hex.EncodeToString([]byte(t.Cmd)), uint8(t.Code),
			hex.EncodeToString([]byte(t.Reason)), hex.EncodeToString(t.Hash[:]))
	case *wire.MsgSendHeaders:
		return "sendheaders:"
	case *wire.MsgFeeFilter:
		return fmt.Sprintf("feefilter:%d", t.MinFee)
	case *wire.MsgMemPool:
		return "mempool:"
	case *wire.MsgProtoconf:
		return fmt.Sprintf("protoconf:%d,%d", t.NumberOfFields, t.MaxRecvPayloadLength)
	case *wire.MsgFilterAdd:
		return "filteradd:" + hex.EncodeToString(t.Data)
	case *wire.MsgFilterClear:
		return "filterclear:"
	case *wire.MsgFilterLoad:
		return fmt.Sprintf("filterload:%s,%d,%d,%d", hex.EncodeToString(t.Filter), t.HashFuncs, t.Tweak, uint8(t.Flags))
	}
	return "opaque:" + m.Command()
}

// ---- parser ----

type c14p struct{ err error }

func (p *c14p) fail(f string, a ...interface{}) {
	if p.err == nil {
		p.err = fmt.Errorf(f, a...)
	}
}
func (p *c14p) i64(s string) int64 {
	v, err := strconv.ParseInt(s, 10, 64)
	if err != nil {
		p.fail("bad int %q", s)
	}
	return v
}
func (p *c14p) u64(s string) uint64 {
	v, err := strconv.ParseUint(s, 10, 64)
	if err != nil {
		p.fail("bad uint %q", s)
	}
	return v
}
func (p *c14p) hx(s string) []byte {
	b, err := hex.DecodeString(s)
	if err != nil {
		p.fail("bad hex %q", s)
	}
	return b
}
func (p *c14p) hash(s string) chainhash.Hash {
	var h chainhash.Hash
	b := p.hx(s)
	if len(b) != 32 {
		p.fail("hash of %d bytes", len(b))
		return h
	}
	copy(h[:], b)
	return h
}
func (p *c14p) na(s string) wire.NetAddress {
	f := strings.Split(s, "~")
	if len(f) != 4 {
		p.fail("netaddr %q", s)
		return wire.NetAddress{}
	}
	var ip net.IP
	if f[2] != "" {
		ip = net.IP(p.hx(f[2]))
	}
	return wire.NetAddress{Timestamp: time.Unix(p.i64(f[0]), 0), Services: wire.ServiceFlag(p.u64(f[1])), IP: ip, Port: uint16(p.u64(f[3]))}
}
func c14Split(s, sep string) []string {
	if s == "" {
		return nil
	}
	return strings.Split(s, sep)
}
func (p *c14p) inv(s string) []*wire.InvVect {
	var l []*wire.InvVect
	for _, e := range c14Split(s, "/") {
		f := strings.Split(e, "~")
		if len(f) != 2 {
			p.fail("invvect %q", e)
			return nil
		}
		l = append(l, &wire.InvVect{Type: wire.InvType(p.u64(f[0])), Hash: p.hash(f[1])})
	}
	return l
}
func (p *c14p) loc(s string) (uint32, []*chainhash.Hash, chainhash.Hash) {
	f := strings.Split(s, ",")
	if len(f) != 3 {
		p.fail("locator %q", s)
		return 0, nil, chainhash.Hash{}
	}
	var l []*chainhash.Hash
	for _, e := range c14Split(f[2], "/") {
		h := p.hash(e)
		l = append(l, &h)
	}
	return uint32(p.u64(f[0])), l, p.hash(f[1])
}

func c14Parse(s string) (wire.Message, error) {
	i := strings.IndexByte(s, ':')
	if i < 0 {
		return nil, fmt.Errorf("no kind in %q", s)
	}
	kind, body := s[:i], s[i+1:]
	p := &c14p{}
	var m wire.Message
	switch kind {
	case "version":
		f := strings.Split(body, ",")
		if len(f) != 9 {
			return nil, fmt.Errorf("version fields %d", len(f))
		}
		m = &wire.MsgVersion{ProtocolVersion: int32(p.i64(f[0])), Services: wire.ServiceFlag(p.u64(f[1])),
			Timestamp: time.Unix(p.i64(f[2]), 0), AddrYou: p.na(f[3]), AddrMe: p.na(f[4]), Nonce: p.u64(f[5]),
			UserAgent: string(p.hx(f[6])), LastBlock: int32(p.i64(f[7])), DisableRelayTx: f[8] == "1"}
	case "verack":
		m = &wire.MsgVerAck{}
	case "getaddr":
		m = &wire.MsgGetAddr{}
	case "addr":
		a := &wire.MsgAddr{}
		for _, e := range c14Split(body, "/") {
			na := p.na(e)
			a.AddrList = append(a.AddrList, &na)
		}
		m = a
	case "getblocks":
		pv, l, st := p.loc(body)
		m = &wire.MsgGetBlocks{ProtocolVersion: pv, BlockLocatorHashes: l, HashStop: st}
	case "getheaders":
		pv, l, st := p.loc(body)
		m = &wire.MsgGetHeaders{ProtocolVersion: pv, BlockLocatorHashes: l, HashStop: st}
	case "headers":
		h := &wire.MsgHeaders{}
		for _, e := range c14Split(body, "/") {
			f := strings.Split(e, "~")
			if len(f) != 6 {
				return nil, fmt.Errorf("header %q", e)
			}
			h.Headers = append(h.Headers, &wire.BlockHeader{Version: int32(p.i64(f[0])), PrevBlock: p.hash(f[1]),
				MerkleRoot: p.hash(f[2]), Timestamp: time.Unix(p.i64(f[3]), 0), Bits: uint32(p.u64(f[4])), Nonce: uint32(p.u64(f[5]))})
		}
		m = h
	case "inv":
		m = &wire.MsgInv{InvList: p.inv(body)}
	case "getdata":
		m = &wire.MsgGetData{InvList: p.inv(body)}
	case "notfound":
		m = &wire.MsgNotFound{InvList: p.inv(body)}
	case "ping":
		m = &wire.MsgPing{Nonce: p.u64(body)}
	case "pong":
		m = &wire.MsgPong{Nonce: p.u64(body)}
	case "reject":
		f := strings.Split(body, ",")
		if len(f) != 4 {
			return nil, fmt.Errorf("reject fields %d", len(f))
		}
		m = &wire.MsgReject{Cmd: string(p.hx(f[0])), Code: wire.RejectCode(p.u64(f[1])), Reason: string(p.hx(f[2])), Hash: p.hash(f[3])}
	case "sendheaders":
		m = &wire.MsgSendHeaders{}
	case "feefilter":
		m = &wire.MsgFeeFilter{MinFee: p.i64(body)}
	case "mempool":
		m = &wire.MsgMemPool{}
	case "protoconf":
		f := strings.Split(body, ",")
		if len(f) != 2 {
			return nil, fmt.Errorf("protoconf fields %d", len(f))
		}
		m = &wire.MsgProtoconf{NumberOfFields: p.u64(f[0]), MaxRecvPayloadLength: uint32(p.u64(f[1]))}
	case "filteradd":
		m = &wire.MsgFilterAdd{Data: p.hx(body)}
	case "filterclear":
		m = &wire.MsgFilterClear{}
	case "filterload":
		f := strings.Split(body, ",")
		if len(f) != 4 {
			return nil, fmt.Errorf("filterload fields %d", len(f))
		}
		m = &wire.MsgFilterLoad{Filter: p.hx(f[0]), HashFuncs: uint32(p.u64(f[1])), Tweak: uint32(p.u64(f[2])),
			Flags: wire.BloomUpdateType(p.u64(f[3]))}
	default:
		return nil, fmt.Errorf("unknown kind %q", kind)
	}
	return m, p.err
}

// ---- generator ----

type c14gen struct {
	r          *rand.Rand
	forceCount int // >= 0: every list gets exactly this many elements
}

func (g *c14gen) pick64(vals ...uint64) uint64 {
	if g.r.Intn(3) == 0 {
		return g.r.Uint64() >> uint(g.r.Intn(64))
	}
	return vals[g.r.Intn(len(vals))]
}
func (g *c14gen) u64() uint64 {
	return g.pick64(0, 1, 0xfc, 0xfd, 0xffff, 0x10000, 0xffffffff, 0x100000000, math.MaxInt64, 1<<63, math.MaxUint64)
}
func (g *c14gen) u32() uint32 {
	return uint32(g.pick64(0, 1, 0xff, 0x100, 0xffff, 0x10000, 0x7fffffff, 0x80000000, 0xffffffff, 0x1d00ffff))
}
func (g *c14gen) i32() int32 {
	return int32(uint32(g.pick64(0, 1, 0xffffffff, 0x80000000, 0x7fffffff, 70013, 70015, 209, 0x20000000)))
}
func (g *c14gen) i64() int64 {
	return int64(g.pick64(0, 1, math.MaxUint64, 1<<63, math.MaxInt64, 1231006505, 0xffffffff, 0x100000000))
}

// unix seconds that travel as uint32; rarely a value outside the field (not well-formed)
func (g *c14gen) ts32(allowBad bool) int64 {
	if allowBad && g.r.Intn(12) == 0 {
		return []int64{-1, 1 << 32, -62135596800, math.MaxInt64, 1<<32 + 5}[g.r.Intn(5)]
	}
	return int64(uint32(g.pick64(0, 1, 0xffffffff, 1231006505, 0x7fffffff, 0x80000000)))
}
func (g *c14gen) bytesN(n int) []byte {
	b := make([]byte, n)
	g.r.Read(b)
	return b
}
func (g *c14gen) hash() chainhash.Hash {
	var h chainhash.Hash
	switch g.r.Intn(6) {
	case 0:
	case 1:
		for i := range h {
			h[i] = 0xff
		}
	default:
		g.r.Read(h[:])
	}
	return h
}
func (g *c14gen) ip(allowBad bool) net.IP {
	switch k := g.r.Intn(10); {
	case k == 0:
		return net.IP(append([]byte{0, 0, 0, 0, 0, 0, 0, 0, 0, 0, 0xff, 0xff}, g.bytesN(4)...))
	case k == 1:
		return net.IP(make([]byte, 16))
	case k == 2 || k == 4:
		// Go's 4-byte form of an IPv4 address (net.IP.To4 / net.ParseIP(...).To4()): a legitimate in-memory form,
		// written to the wire as the 16-byte IPv4-mapped address
		return net.IP(g.bytesN(4))
	case k == 3 && allowBad:
		if g.r.Intn(2) == 0 {
			return nil
		}
		return net.IP(g.bytesN(1 + g.r.Intn(20)))
	}
	return net.IP(g.bytesN(16))
}

// ts: whether the timestamp of this address is carried by the message kind
func (g *c14gen) na(carriesTS bool, allowBad bool) wire.NetAddress {
	t := int64(-62135596800) // Go's zero time
	if carriesTS {
		t = g.ts32(allowBad)
	} else if allowBad && g.r.Intn(10) == 0 {
		t = g.ts32(false)
	}
	return wire.NetAddress{Timestamp: time.Unix(t, 0), Services: wire.ServiceFlag(g.u64()), IP: g.ip(allowBad), Port: uint16(g.u32())}
}

// count for a list with per-message limit max; big: allow counts near the limit
func (g *c14gen) count(max int, big bool) int {
	if g.forceCount >= 0 {
		return g.forceCount
	}
	k := g.r.Intn(100)
	switch {
	case k < 10:
		return 0
	case k < 25:
		return 1
	case k < 35:
		return 2
	case big && k < 37:
		return max
	case big && k < 38:
		return max + 1
	case big && k < 39:
		return max - 1
	case big && k < 42:
		return 0xfc + g.r.Intn(3) // varint width boundary
	case k < 90:
		return 3 + g.r.Intn(12)
	}
	m := max
	if m > 300 {
		m = 300
	}
	return g.r.Intn(m + 1)
}

func (g *c14gen) ua(allowBad bool) string {
	ls := []int{0, 1, 15, 16, 0xfc, 0xfd, 255, 256}
	if allowBad {
		ls = append(ls, 257, 300)
	}
	n := ls[g.r.Intn(len(ls))]
	if g.r.Intn(3) == 0 {
		n = g.r.Intn(60)
	}
	if g.r.Intn(4) == 0 {
		return (wire.DefaultUserAgent + strings.Repeat("x", n))[:n]
	}
	return string(g.bytesN(n))
}

// msg builds a message of the given kind; allowBad lets some fields leave the well-formed range
// (the model must still agree with the code on the bytes and on the refusals).
func (g *c14gen) msg(kind string, pver uint32, allowBad bool, big bool) wire.Message {
	switch kind {
	case "version":
		dr := g.r.Intn(2) == 0
		if pver < wire.BIP0037Version && !(allowBad && g.r.Intn(6) == 0) {
			dr = false
		}
		return &wire.MsgVersion{ProtocolVersion: g.i32(), Services: wire.ServiceFlag(g.u64()), Timestamp: time.Unix(g.i64(), 0),
			AddrYou: g.na(false, allowBad), AddrMe: g.na(false, allowBad), Nonce: g.u64(), UserAgent: g.ua(allowBad),
			LastBlock: g.i32(), DisableRelayTx: dr}
	case "verack":
		return &wire.MsgVerAck{}
	case "getaddr":
		return &wire.MsgGetAddr{}
	case "addr":
		n := g.count(wire.MaxAddrPerMsg, big)
		if pver < wire.MultipleAddressVersion && !(allowBad && g.r.Intn(4) == 0) {
			n = g.r.Intn(2)
		}
		a := &wire.MsgAddr{}
		for i := 0; i < n; i++ {
			na := g.na(pver >= wire.NetAddressTimeVersion, allowBad && n < 50)
			a.AddrList = append(a.AddrList, &na)
		}
		return a
	case "getblocks", "getheaders":
		n := g.count(wire.MaxBlockLocatorsPerMsg, big)
		var l []*chainhash.Hash
		for i := 0; i < n; i++ {
			h := g.hash()
			l = append(l, &h)
		}
		if kind == "getblocks" {
			return &wire.MsgGetBlocks{ProtocolVersion: g.u32(), BlockLocatorHashes: l, HashStop: g.hash()}
		}
		return &wire.MsgGetHeaders{ProtocolVersion: g.u32(), BlockLocatorHashes: l, HashStop: g.hash()}
	case "headers":
		n := g.count(wire.MaxBlockHeadersPerMsg, big)
		h := &wire.MsgHeaders{}
		for i := 0; i < n; i++ {
			h.Headers = append(h.Headers, &wire.BlockHeader{Version: g.i32(), PrevBlock: g.hash(), MerkleRoot: g.hash(),
				Timestamp: time.Unix(g.ts32(allowBad && n < 50), 0), Bits: g.u32(), Nonce: g.u32()})
		}
		return h
	case "inv", "getdata", "notfound":
		n := g.count(wire.MaxInvPerMsg, big)
		var l []*wire.InvVect
		for i := 0; i < n; i++ {
			l = append(l, &wire.InvVect{Type: wire.InvType(g.u32() >> uint(g.r.Intn(3)*15)), Hash: g.hash()})
		}
		switch kind {
		case "inv":
			return &wire.MsgInv{InvList: l}
		case "getdata":
			return &wire.MsgGetData{InvList: l}
		}
		return &wire.MsgNotFound{InvList: l}
	case "ping":
		n := g.u64()
		if pver <= wire.BIP0031Version && !(allowBad && g.r.Intn(4) == 0) {
			n = 0
		}
		return &wire.MsgPing{Nonce: n}
	case "pong":
		return &wire.MsgPong{Nonce: g.u64()}
	case "reject":
		cmds := []string{"block", "tx", "version", "", "headers", "blockx", "bloc", "txx", string(g.bytesN(g.r.Intn(14)))}
		cmd := cmds[g.r.Intn(len(cmds))]
		m := &wire.MsgReject{Cmd: cmd, Code: wire.RejectCode(g.u32()), Reason: string(g.bytesN([]int{0, 1, 20, 0xfc, 0xfd, 300}[g.r.Intn(6)]))}
		if big && g.r.Intn(40) == 0 {
			m.Reason = strings.Repeat("r", 0x10000+g.r.Intn(3))
		}
		if cmd == "block" || cmd == "tx" || (allowBad && g.r.Intn(8) == 0) {
			m.Hash = g.hash()
		}
		return m
	case "sendheaders":
		return &wire.MsgSendHeaders{}
	case "feefilter":
		return &wire.MsgFeeFilter{MinFee: g.i64()}
	case "mempool":
		return &wire.MsgMemPool{}
	case "protoconf":
		return &wire.MsgProtoconf{NumberOfFields: g.u64(), MaxRecvPayloadLength: g.u32()}
	case "filteradd":
		ls := []int{0, 1, 32, 0xfc, 0xfd, wire.MaxFilterAddDataSize - 1, wire.MaxFilterAddDataSize}
		if allowBad {
			ls = append(ls, wire.MaxFilterAddDataSize+1, 600)
		}
		return &wire.MsgFilterAdd{Data: g.bytesN(ls[g.r.Intn(len(ls))])}
	case "filterclear":
		return &wire.MsgFilterClear{}
	case "filterload":
		ls := []int{0, 1, 32, 0xfc, 0xfd, 1000}
		if big {
			ls = append(ls, wire.MaxFilterLoadFilterSize-1, wire.MaxFilterLoadFilterSize)
			if allowBad {
				ls = append(ls, wire.MaxFilterLoadFilterSize+1)
			}
		}
		hf := uint32(g.r.Intn(wire.MaxFilterLoadHashFuncs + 1))
		switch g.r.Intn(8) {
		case 0:
			hf = wire.MaxFilterLoadHashFuncs
		case 1:
			if allowBad {
				hf = []uint32{wire.MaxFilterLoadHashFuncs + 1, 0xffffffff}[g.r.Intn(2)]
			}
		}
		return &wire.MsgFilterLoad{Filter: g.bytesN(ls[g.r.Intn(len(ls))]), HashFuncs: hf, Tweak: g.u32(),
			Flags: wire.BloomUpdateType(g.u32())}
	}
	panic("c14gen: kind " + kind)
}

var c14Pvers = []uint32{0, 1, 106, 208, 209, 210, 31401, 31402, 31403, 59999, 60000, 60001, 60002, 60003, 70000, 70001,
	70002, 70003, 70011, 70012, 70013, 70014, 70015, 0x7fffffff, 0xffffffff}

// pver: mostly what the service negotiates (209..70013), the rest for the version-gated branches
func (g *c14gen) pver() uint32 {
	switch k := g.r.Intn(10); {
	case k < 4:
		return 70013
	case k < 5:
		return []uint32{70012, 70002, 70001, 60002, 60001, 31402, 209}[g.r.Intn(7)]
	case k < 9:
		return c14Pvers[g.r.Intn(len(c14Pvers))]
	}
	return g.r.Uint32() >> uint(g.r.Intn(20))
}

var c14Nets = []uint32{uint32(wire.MainNet), uint32(wire.TestNet), uint32(wire.TestNet3), uint32(wire.SimNet)}
