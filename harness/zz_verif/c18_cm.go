//go:build verif

package main

import (
	"errors"
	"fmt"
	"net"
	"sort"
	"strconv"
	"strings"
	"sync"
	"time"

	"github.com/bitcoin-sv/block-headers-service/transports/p2p/connmgr"
	"github.com/rs/zerolog"
)

// Connection-manager cases: the real connmgr.New(...).Start() with scripted callbacks.
//
// head:   cm t=<TargetOutbound> mf=<connmgr.maxFailedAttempts> [nb=1: no BanAddress callback configured,
//         failures of requests that have an address then go to the GLOBAL failure counter]
// events: G<a>  the oldest blocked GetNewAddress call returns address <a>
//         E     the oldest blocked GetNewAddress call returns an error
//         K<a>  the oldest blocked Dial(<a>) call succeeds
//         F<a>  the oldest blocked Dial(<a>) call fails
//         D<k>  Disconnect(id) of the (k mod open)-th oldest open connection
//         R<k>  Remove(id) of the (k mod open)-th oldest open connection (closed, never replaced)
//         Z     Disconnect(id) once more for the most recently disconnected / removed id
//         BE<n> burst: up to n blocked GetNewAddress calls return an error at once
//         BF    burst: every blocked Dial call fails at once
//         BG<a> burst: every blocked GetNewAddress call returns an address at once (a, a+1, ... mod 251)
//               bursts make the manager handle several results back to back: a retry timer armed for one
//               result is still pending when the next result is handled
//         C     (target 1 only) Disconnect(id) of the one request that is in flight - a cancel; with
//               target 1 requests exist one at a time and the id of the live one is the number of
//               GetNewAddress calls so far.  A canceled request ends silently at its next step.
// Every callback of a connection request blocks until the script releases it, so between two
// script events the manager is quiescent: each of its requests sits in GetNewAddress or in Dial.
// After an event the harness waits (bounded) for the reaction the protocol owes (a Dial call, an
// OnConnection call, a new GetNewAddress call).
//
// observable: "<tag>:o<open connections>/w<blocked GetNewAddress calls>/d<addr:blocked dials,..>
// /n<Dial calls so far>/b<BanAddress calls so far>" per event, preceded by the state after Start
// ("s:") and followed by the state after a final settling period ("e:").  tag: the event letter
// when it applied, "-" when nothing was there to apply it to, "!" when the owed reaction did not
// arrive in time.

type c18Addr string

func (a c18Addr) Network() string { return "tcp" }
func (a c18Addr) String() string  { return string(a) }

type c18CmConn struct {
	f      *c18CmFix
	id     uint64
	addr   string
	closed bool
}

func (c *c18CmConn) Read(b []byte) (int, error)         { return 0, errors.New("not readable") }
func (c *c18CmConn) Write(b []byte) (int, error)        { return len(b), nil }
func (c *c18CmConn) LocalAddr() net.Addr                { return c18Addr("local") }
func (c *c18CmConn) RemoteAddr() net.Addr               { return c18Addr(c.addr) }
func (c *c18CmConn) SetDeadline(t time.Time) error      { return nil }
func (c *c18CmConn) SetReadDeadline(t time.Time) error  { return nil }
func (c *c18CmConn) SetWriteDeadline(t time.Time) error { return nil }
func (c *c18CmConn) Close() error {
	c.f.mu.Lock()
	if !c.closed {
		c.closed = true
		c.f.closes++
	}
	c.f.mu.Unlock()
	return nil
}

type c18GetReply struct {
	addr string
	err  error
}
type c18DialWait struct {
	addr  string
	reply chan bool
}

type c18CmFix struct {
	mu        sync.Mutex
	cm        *connmgr.ConnManager
	quit      chan struct{}
	getWait   []chan c18GetReply
	dialWait  []*c18DialWait
	getCalls  int
	dialCalls int
	onConn    int
	bans      int
	closes    int
	conns     []*c18CmConn // in order of OnConnection
	pendConn  map[string][]*c18CmConn
	lastDisc  uint64
	hasDisc   bool
}

func c18AddrName(a int) string { return fmt.Sprintf("10.0.0.%d:8333", a) }

func c18NewCmFix(target int, noBan bool) (*c18CmFix, error) {
	f := &c18CmFix{quit: make(chan struct{}), pendConn: map[string][]*c18CmConn{}}
	lg := zerolog.Nop()
	cfg := &connmgr.Config{
		TargetOutbound: uint32(target),
		RetryDuration:  2 * time.Millisecond,
		Logger:         &lg,
		GetNewAddress: func() (net.Addr, error) {
			ch := make(chan c18GetReply, 1)
			f.mu.Lock()
			f.getCalls++
			f.getWait = append(f.getWait, ch)
			f.mu.Unlock()
			select {
			case r := <-ch:
				if r.err != nil {
					return nil, r.err
				}
				return c18Addr(r.addr), nil
			case <-f.quit:
				return nil, errors.New("fixture closed")
			}
		},
		Dial: func(a net.Addr) (net.Conn, error) {
			w := &c18DialWait{addr: a.String(), reply: make(chan bool, 1)}
			f.mu.Lock()
			f.dialCalls++
			f.dialWait = append(f.dialWait, w)
			f.mu.Unlock()
			select {
			case ok := <-w.reply:
				if !ok {
					return nil, errors.New("connection refused")
				}
				return &c18CmConn{f: f, addr: w.addr}, nil
			case <-f.quit:
				return nil, errors.New("fixture closed")
			}
		},
		OnConnection: func(r *connmgr.ConnReq, conn net.Conn, _ *zerolog.Logger) {
			cc, _ := conn.(*c18CmConn)
			f.mu.Lock()
			if cc != nil {
				cc.id = r.ID()
				f.conns = append(f.conns, cc)
			}
			f.onConn++
			f.mu.Unlock()
		},
		BanAddress: func(string) {
			f.mu.Lock()
			f.bans++
			f.mu.Unlock()
		},
	}
	if noBan {
		cfg.BanAddress = nil
	}
	cm, err := connmgr.New(cfg)
	if err != nil {
		return nil, err
	}
	f.cm = cm
	return f, nil
}

// wait polls pred (under the lock) until it holds or the bound expires.
func (f *c18CmFix) wait(pred func() bool, bound time.Duration) bool {
	// a healthy manager always reacts within microseconds; once a few reactions have gone missing
	// (broken implementation) do not spend the full bound on every further step
	if c18CmTimeouts >= 5 {
		bound = 150 * time.Millisecond
	}
	ok := f.wait1(pred, bound)
	if !ok {
		c18CmTimeouts++
	}
	return ok
}

var c18CmTimeouts int

func (f *c18CmFix) wait1(pred func() bool, bound time.Duration) bool {
	deadline := time.Now().Add(bound)
	for i := 0; ; i++ {
		f.mu.Lock()
		ok := pred()
		f.mu.Unlock()
		if ok {
			return true
		}
		if time.Now().After(deadline) {
			return false
		}
		if i < 200 {
			time.Sleep(20 * time.Microsecond)
		} else {
			time.Sleep(500 * time.Microsecond)
		}
	}
}

func (f *c18CmFix) digest() string {
	f.mu.Lock()
	defer f.mu.Unlock()
	open := 0
	for _, c := range f.conns {
		if !c.closed {
			open++
		}
	}
	d := map[int]int{}
	for _, w := range f.dialWait {
		var a int
		fmt.Sscanf(w.addr, "10.0.0.%d:8333", &a)
		d[a]++
	}
	var ks []int
	for k := range d {
		ks = append(ks, k)
	}
	sort.Ints(ks)
	ws := make([]string, len(ks))
	for i, k := range ks {
		ws[i] = fmt.Sprintf("%d:%d", k, d[k])
	}
	return fmt.Sprintf("o%d/w%d/d%s/n%d/b%d", open, len(f.getWait), strings.Join(ws, ","), f.dialCalls, f.bans)
}

// bound for an owed reaction; replays / shrinking (--only) use a shorter one: a single small case on an
// otherwise idle harness reacts within microseconds, and a broken tree would otherwise cost seconds per step
var c18CmBound = 3 * time.Second

func c18RunCm(head []string, evs []string) (obs string) {
	target := c18Head(head, "t", 0)
	if c18Head(head, "mf", -1) != connmgr.VerifC18MaxFailedAttempts {
		return fmt.Sprintf("LIMITS mf=%d", connmgr.VerifC18MaxFailedAttempts)
	}
	if target < 1 || target > 64 {
		return "BAD-INPUT"
	}
	f, err := c18NewCmFix(target, c18Head(head, "nb", 0) == 1)
	if err != nil {
		return "ERR " + err.Error()
	}
	defer func() {
		if r := recover(); r != nil {
			obs = fmt.Sprintf("PANIC %v", r)
		}
		f.cm.Stop()
		close(f.quit)
		f.cm.Wait()
	}()
	f.cm.Start()
	var out []string
	tag := "s"
	if !f.wait(func() bool { return len(f.getWait) >= target }, c18CmBound) {
		tag = "!"
	}
	out = append(out, tag+":"+f.digest())

	popGet := func() chan c18GetReply {
		f.mu.Lock()
		defer f.mu.Unlock()
		if len(f.getWait) == 0 {
			return nil
		}
		ch := f.getWait[0]
		f.getWait = f.getWait[1:]
		return ch
	}
	popDial := func(addr string) *c18DialWait {
		f.mu.Lock()
		defer f.mu.Unlock()
		for i, w := range f.dialWait {
			if w.addr == addr {
				f.dialWait = append(f.dialWait[:i:i], f.dialWait[i+1:]...)
				return w
			}
		}
		return nil
	}
	snap := func() (g, d, o, b, c int) {
		f.mu.Lock()
		defer f.mu.Unlock()
		return f.getCalls, f.dialCalls, f.onConn, f.bans, f.closes
	}
	canceledLive := false // the one live request (target 1) was canceled by the script
	for _, e := range evs {
		tag := "?"
		g0, d0, o0, _, c0 := snap()
		okw := true
		switch {
		case strings.HasPrefix(e, "BE") || e == "BF" || strings.HasPrefix(e, "BG"):
			arg := 0
			if e != "BF" {
				v, err := strconv.Atoi(e[2:])
				if err != nil || v < 0 || v > 250 {
					break
				}
				arg = v
			}
			var gets []chan c18GetReply
			var dials []*c18DialWait
			f.mu.Lock()
			if e == "BF" {
				dials, f.dialWait = f.dialWait, nil
			} else {
				k := len(f.getWait)
				if e[1] == 'E' && arg < k {
					k = arg
				}
				gets = append(gets, f.getWait[:k]...)
				f.getWait = append([]chan c18GetReply{}, f.getWait[k:]...)
			}
			f.mu.Unlock()
			k := len(gets) + len(dials)
			if k == 0 {
				tag = "-"
				break
			}
			for i, ch := range gets {
				if e[1] == 'E' {
					ch <- c18GetReply{err: errors.New("no valid connect address")}
				} else {
					ch <- c18GetReply{addr: c18AddrName((arg + i) % 251)}
				}
			}
			for _, w := range dials {
				w.reply <- false
			}
			want := k
			if canceledLive { // target 1: the one request released is the canceled one
				canceledLive = false
				want = 0
				time.Sleep(2 * time.Millisecond)
			}
			if e[1] == 'G' {
				okw = f.wait(func() bool { return f.dialCalls >= d0+want }, c18CmBound)
			} else {
				okw = f.wait(func() bool { return f.getCalls >= g0+want }, c18CmBound)
			}
			tag = "B"
		case e == "C":
			f.mu.Lock()
			inflight := len(f.getWait) + len(f.dialWait)
			id := uint64(f.getCalls)
			f.mu.Unlock()
			if target != 1 || inflight != 1 {
				tag = "-"
				break
			}
			f.cm.Disconnect(id)
			// barrier: once the handler has taken a second message it has finished the first
			f.cm.Disconnect(1 << 62)
			canceledLive = true
			tag = "C"
		case len(e) >= 2 && e[0] == 'G':
			a, err := strconv.Atoi(e[1:])
			if err != nil || a < 0 || a > 250 {
				break
			}
			ch := popGet()
			if ch == nil {
				tag = "-"
				break
			}
			ch <- c18GetReply{addr: c18AddrName(a)}
			if canceledLive {
				canceledLive = false // Connect sees ConnCanceled and returns without dialling
				time.Sleep(2 * time.Millisecond)
			} else {
				okw = f.wait(func() bool { return f.dialCalls > d0 }, c18CmBound)
			}
			tag = "G"
		case e == "E":
			ch := popGet()
			if ch == nil {
				tag = "-"
				break
			}
			ch <- c18GetReply{err: errors.New("no valid connect address")}
			if canceledLive {
				canceledLive = false // handleFailed for a canceled request is ignored
				time.Sleep(2 * time.Millisecond)
			} else {
				okw = f.wait(func() bool { return f.getCalls > g0 }, c18CmBound)
			}
			tag = "E"
		case len(e) >= 2 && (e[0] == 'K' || e[0] == 'F'):
			a, err := strconv.Atoi(e[1:])
			if err != nil || a < 0 || a > 250 {
				break
			}
			w := popDial(c18AddrName(a))
			if w == nil {
				tag = "-"
				break
			}
			if e[0] == 'K' {
				w.reply <- true
				if canceledLive {
					canceledLive = false // the connection of a canceled request is closed, not reported
					okw = f.wait(func() bool { return f.closes > c0 }, c18CmBound)
				} else {
					okw = f.wait(func() bool { return f.onConn > o0 }, c18CmBound)
				}
				tag = "K"
			} else {
				w.reply <- false
				if canceledLive {
					canceledLive = false
					time.Sleep(2 * time.Millisecond)
				} else {
					okw = f.wait(func() bool { return f.getCalls > g0 }, c18CmBound)
				}
				tag = "F"
			}
		case len(e) >= 2 && (e[0] == 'D' || e[0] == 'R'):
			k, err := strconv.Atoi(e[1:])
			if err != nil || k < 0 {
				break
			}
			f.mu.Lock()
			var open []*c18CmConn
			for _, c := range f.conns {
				if !c.closed {
					open = append(open, c)
				}
			}
			f.mu.Unlock()
			if len(open) == 0 {
				tag = "-"
				break
			}
			c := open[k%len(open)]
			f.lastDisc, f.hasDisc = c.id, true
			if e[0] == 'R' {
				f.cm.Remove(c.id)
				okw = f.wait(func() bool { return f.closes > c0 }, c18CmBound)
				f.cm.Disconnect(1 << 62) // barrier: the handler has finished the Remove
				tag = "R"
				break
			}
			f.cm.Disconnect(c.id)
			okw = f.wait(func() bool { return f.closes > c0 && f.getCalls > g0 }, c18CmBound)
			tag = "D"
		case e == "Z":
			if !f.hasDisc {
				tag = "-"
				break
			}
			f.cm.Disconnect(f.lastDisc)
			tag = "Z"
		}
		if !okw {
			tag = "!"
		}
		out = append(out, tag+":"+f.digest())
	}
	// final settling period: anything the manager still does on its own shows up here
	time.Sleep(12 * time.Millisecond)
	out = append(out, "e:"+f.digest())
	return strings.Join(out, " ")
}

// ---------------------------------------------------------------------------------------------

func c18GenCm(c *Ctx) error {
	mf := connmgr.VerifC18MaxFailedAttempts
	seen := map[string]bool{}
	emit := func(target int, evs []string, class string) {
		head := fmt.Sprintf("cm t=%d mf=%d", target, mf)
		in := head + ";" + strings.Join(evs, ";")
		if seen[in] {
			return
		}
		seen[in] = true
		c.Case(in, c18RunCm(strings.Fields(head), evs))
		c.Count("cm:" + class)
	}
	// plain fill: every slot gets an address and connects
	for t := 1; t <= 8; t++ {
		var evs []string
		for i := 0; i < t; i++ {
			evs = append(evs, fmt.Sprintf("G%d", i%4))
		}
		for i := 0; i < t; i++ {
			evs = append(evs, fmt.Sprintf("K%d", i%4))
		}
		emit(t, evs, "fill")
	}
	// seeded scripts.  pFail: probability that a dial is refused; addresses 0..na-1
	script := func(n, na int, pFail, pDisc, pAddrErr float64) []string {
		var evs []string
		dialing := []int{}
		for len(evs) < n {
			r := c.Rng.Float64()
			switch {
			case r < pDisc:
				if c.Rng.Intn(6) == 0 {
					evs = append(evs, "Z")
				} else {
					evs = append(evs, fmt.Sprintf("D%d", c.Rng.Intn(8)))
				}
			case r < pDisc+pAddrErr:
				evs = append(evs, "E")
			case len(dialing) > 0 && c.Rng.Intn(2) == 0:
				i := c.Rng.Intn(len(dialing))
				a := dialing[i]
				dialing = append(dialing[:i], dialing[i+1:]...)
				if c.Rng.Float64() < pFail {
					evs = append(evs, fmt.Sprintf("F%d", a))
				} else {
					evs = append(evs, fmt.Sprintf("K%d", a))
				}
			default:
				a := c.Rng.Intn(na)
				dialing = append(dialing, a)
				evs = append(evs, fmt.Sprintf("G%d", a))
			}
		}
		return evs
	}
	for i, n := 0, c.Pick(150, 3000); i < n; i++ {
		t := 1 + c.Rng.Intn(8)
		emit(t, script(10+c.Rng.Intn(60), 2+c.Rng.Intn(4), 0.3, 0.15, 0.05), "churn")
	}
	// failure-heavy scripts: one address refuses most of the time, so its failure count gets to the
	// ban threshold; and address-source failures beyond the threshold (retry timer path)
	for i, n := 0, c.Pick(40, 800); i < n; i++ {
		t := 1 + c.Rng.Intn(8)
		var evs []string
		bad := c.Rng.Intn(3)
		rounds := mf - 3 + c.Rng.Intn(8)
		for k := 0; k < rounds; k++ {
			evs = append(evs, fmt.Sprintf("G%d", bad), fmt.Sprintf("F%d", bad))
			if c.Rng.Intn(10) == 0 {
				evs = append(evs, script(1+c.Rng.Intn(4), 4, 0.2, 0.2, 0.0)...)
			}
		}
		evs = append(evs, script(5+c.Rng.Intn(20), 4, 0.1, 0.1, 0.0)...)
		emit(t, evs, "refusals")
	}
	// outages: target >= 2, at least maxFailedAttempts consecutive failures handled back to back
	// (bursts), then recovery in which every dial succeeds; at the end all requests are connected.
	// kinds: address-source errors (global counter, retry-timer path); refusals rotated over many
	// distinct addresses (per-address accounting when BanAddress is configured, global counter with
	// nb=1); mixed; and outage / partial recovery / outage / recovery.
	outage := func(t, infl, fails, kind int, base *int) []string {
		// infl = requests in flight (target minus established connections): the failures per burst
		var evs []string
		for n := 0; n < fails; {
			k := kind
			if kind == 2 {
				k = c.Rng.Intn(2)
			}
			if k == 0 {
				m := 1 + c.Rng.Intn(infl)
				evs = append(evs, fmt.Sprintf("BE%d", m))
				n += m
				if c.Rng.Intn(3) == 0 {
					evs = append(evs, "E")
					n++
				}
			} else {
				evs = append(evs, fmt.Sprintf("BG%d", *base%251), "BF")
				*base += infl
				n += infl
			}
		}
		return evs
	}
	recoverAll := func(t int, base *int) []string {
		// every waiting request gets a fresh address and its dial succeeds
		evs := []string{fmt.Sprintf("BG%d", *base%251)}
		for i := 0; i < t; i++ {
			evs = append(evs, fmt.Sprintf("K%d", (*base+i)%251))
		}
		*base += t
		return evs
	}
	for i, n := 0, c.Pick(72, 1400); i < n; i++ {
		t := 2 + c.Rng.Intn(7)
		kind := i % 3
		nb := 0
		if kind != 0 && c.Rng.Intn(3) != 0 {
			nb = 1
		}
		base := c.Rng.Intn(200)
		var evs []string
		// some slots may be connected before the outage
		pre := c.Rng.Intn(t - 1) // at least two requests stay in flight
		for j := 0; j < pre; j++ {
			evs = append(evs, fmt.Sprintf("G%d", (base+j)%251), fmt.Sprintf("K%d", (base+j)%251))
		}
		base += pre
		evs = append(evs, outage(t, t-pre, mf+c.Rng.Intn(36), kind, &base)...)
		class := []string{"outage-address-errors", "outage-refusals", "outage-mixed"}[kind]
		if i%4 == 3 {
			// partial recovery (a success resets the global counter), second outage
			evs = append(evs, fmt.Sprintf("G%d", base%251), fmt.Sprintf("K%d", base%251))
			base++
			if t-pre-1 >= 1 {
				evs = append(evs, outage(t, t-pre-1, mf+c.Rng.Intn(36), kind, &base)...)
			}
			class = "outage-twice"
		}
		evs = append(evs, recoverAll(t, &base)...)
		head := fmt.Sprintf("cm t=%d mf=%d", t, mf)
		if nb == 1 {
			head += " nb=1"
		}
		in := head + ";" + strings.Join(evs, ";")
		if !seen[in] {
			seen[in] = true
			c.Case(in, c18RunCm(strings.Fields(head), evs))
			c.Count("cm:" + class)
		}
	}
	// Remove (retry = false; no caller in the server, public API): the connection is closed for good
	for i, n := 0, c.Pick(40, 800); i < n; i++ {
		t := 1 + c.Rng.Intn(8)
		evs := script(8+c.Rng.Intn(30), 2+c.Rng.Intn(3), 0.2, 0.1, 0.05)
		for k, m := 0, 1+c.Rng.Intn(3); k < m; k++ {
			j := c.Rng.Intn(len(evs) + 1)
			evs = append(evs[:j:j], append([]string{fmt.Sprintf("R%d", c.Rng.Intn(8))}, evs[j:]...)...)
		}
		emit(t, evs, "remove")
	}
	// cancel: Disconnect of the request in flight (target 1), while it waits for an address or dials
	for i, n := 0, c.Pick(60, 1200); i < n; i++ {
		evs := script(c.Rng.Intn(12), 3, 0.3, 0.2, 0.1)
		if c.Rng.Intn(2) == 0 {
			evs = append(evs, fmt.Sprintf("G%d", c.Rng.Intn(3)))
		}
		evs = append(evs, "C")
		if c.Rng.Intn(4) == 0 {
			evs = append(evs, "C")
		}
		evs = append(evs, script(2+c.Rng.Intn(6), 3, 0.4, 0.1, 0.2)...)
		emit(1, evs, "cancel")
	}
	for i, n := 0, c.Pick(20, 400); i < n; i++ {
		t := 1 + c.Rng.Intn(8)
		var evs []string
		for k, m := 0, mf-2+c.Rng.Intn(10); k < m; k++ {
			evs = append(evs, "E")
		}
		evs = append(evs, script(5+c.Rng.Intn(20), 3, 0.2, 0.1, 0.2)...)
		emit(t, evs, "address-errors")
	}
	return nil
}
