//go:build verif

package main

// C06 runner: scripted protocol-conformant nodes against both real sync engines through the rig (c06_rig.go).
// Families (see checks/C06.json "rule"):
//   linear     one honest peer, chain C, store = genesis | prefix of C, checkpoints {off, none, one, several, last at tip},
//              reply caps 1..2000, both engines
//   longcap    chains longer than 2000 headers with caps around 2000 (several replies of full size)
//   announce   after the initial sync the chain grows and is announced by inv or by headers, by the sync peer or another peer
//   fault      two peers; the sync peer disconnects or stalls at every message index of a short script (aged ticker for stalls)
//   lagging    the first peer's chain is a strict prefix of the second's
//   fork       competing branches: stale fork present in the store, store tip on a losing branch, peers on different branches
//   handshake  a peer drops during the handshake (before its version / after its version before its verack / right after the
//              verack), an honest peer connected before or after must be synced from
//   inv-race   several peers announce the SAME new block by inv; the first announcer is not the sync peer and drops or stalls
//              between receiving the getheaders and answering it; the sync peer's announcement must still be followed
//   random     seeded mixtures

import (
	"fmt"
	"strings"
)

func init() { register("C06", runC06) }

type c06gen struct {
	c    *Ctx
	s    *Stack
	seen map[string]bool
}

func (g *c06gen) do(sc *Scenario, tag string) error {
	sc.Hints = nil
	key := sc.Line()
	if g.seen[key] {
		return nil
	}
	g.seen[key] = true
	obs, hints, err := RunScenario(g.s, sc)
	if err != nil {
		return fmt.Errorf("scenario %s: %w", sc.Line(), err)
	}
	sc.Hints = hints
	g.c.Case(sc.Line(), obs)
	g.c.Count("family:" + tag)
	g.c.Count("engine:" + sc.Eng)
	g.c.Count(fmt.Sprintf("checkpoints:%s", cpClass(sc)))
	g.c.Count(fmt.Sprintf("peers:%d", len(sc.Nodes)))
	if len(sc.Init) == 0 {
		g.c.Count("store:genesis")
	} else {
		g.c.Count("store:preloaded")
	}
	for _, cmd := range sc.Cmds {
		if strings.HasPrefix(cmd, "A") {
			if strings.HasSuffix(cmd, ".i") {
				g.c.Count("announce:inv")
			} else {
				g.c.Count("announce:headers")
			}
		}
		if strings.HasPrefix(cmd, "X") {
			g.c.Count("fault:disconnect")
		}
		if strings.HasPrefix(cmd, "S") {
			g.c.Count("fault:stall")
		}
	}
	return nil
}

func cpClass(sc *Scenario) string {
	if sc.Dis {
		return "disabled"
	}
	switch len(sc.Cps) {
	case 0:
		return "none"
	case 1:
		return "one"
	}
	return "several"
}

// checkpoint variants for a linear chain 2..n+1 (header at height h has id h+1)
func linearCps(n int) [][]cpSpec {
	out := [][]cpSpec{}
	if n >= 1 {
		out = append(out, []cpSpec{{n, n + 1}}) // one, at the tip
	}
	if n >= 2 {
		out = append(out, []cpSpec{{1, 2}})                        // one, early
		out = append(out, []cpSpec{{(n + 1) / 2, (n+1)/2 + 1}, {n, n + 1}}) // several, last at tip
	}
	if n >= 4 {
		out = append(out, []cpSpec{{1, 2}, {2, 3}, {n - 1, n}}) // several, adjacent ones, last below the tip
	}
	return out
}

func runC06(c *Ctx) error {
	s, err := NewStack(StackOpts{Dir: c.TmpDir("c06")})
	if err != nil {
		return err
	}
	defer s.Close()
	g := &c06gen{c: c, s: s, seen: map[string]bool{}}
	if c.Only != "" {
		sc, err := ParseScenario(c.Only)
		if err != nil {
			return err
		}
		return g.do(sc, "only")
	}
	for _, l := range corpusLines(c, "C06") {
		sc, err := ParseScenario(l)
		if err != nil {
			return fmt.Errorf("corpus line %q: %w", l, err)
		}
		if err := g.do(sc, "corpus"); err != nil {
			return err
		}
	}
	engines := []string{"d", "x"}

	// ---- linear catch-up ----
	for _, eng := range engines {
		for _, n := range []int{1, 2, 3, 5, 8, 13} {
			u := &History{Subs: linearSubs(2, genesisID, n, bitsW2, tsOld)}
			variants := append([][]cpSpec{nil}, linearCps(n)...)
			for vi, cps := range variants {
				for _, cp := range []int{1, 2, 3, 5, 2000} {
					if cp > n+1 && cp != 2000 {
						continue
					}
					for _, k0 := range []int{0, n / 2, n} {
						if k0 > 0 && k0 == n/2 && n < 2 {
							continue
						}
						sc := &Scenario{Eng: eng, Cps: cps, U: u, Init: seqInts(2, k0),
							Nodes: []*nodeSpec{{P: 1, Cap: cp, Chain: seqInts(2, n)}}, Cmds: []string{"C1", "R80"}}
						if err := g.do(sc, "linear"); err != nil {
							return err
						}
					}
				}
				// checkpoints disabled (default engine: the flag; the experimental engine has no such switch)
				if eng == "d" && vi <= 1 {
					for _, cp := range []int{1, 2000} {
						sc := &Scenario{Eng: eng, Dis: true, Cps: cps, U: u,
							Nodes: []*nodeSpec{{P: 1, Cap: cp, Chain: seqInts(2, n)}}, Cmds: []string{"C1", "R80"}}
						if err := g.do(sc, "linear-checkpoints-disabled"); err != nil {
							return err
						}
					}
				}
			}
		}
	}

	// ---- caps around the protocol limit on chains that need several full replies ----
	longs := []struct{ n, cp int }{{2100, 2000}, {700, 300}}
	if c.Thorough() {
		longs = append(longs, []struct{ n, cp int }{{4100, 2000}, {2000, 2000}, {2001, 2000}, {2100, 1999}, {400, 1}}...)
	}
	for _, eng := range engines {
		for li, lg := range longs {
			u := &History{Subs: linearSubs(2, genesisID, lg.n, bitsW2, tsOld)}
			var cps []cpSpec
			if li%2 == 0 {
				cps = []cpSpec{{lg.n / 3, lg.n/3 + 1}, {lg.n - 50, lg.n - 49}}
			}
			sc := &Scenario{Eng: eng, Cps: cps, U: u, Nodes: []*nodeSpec{{P: 1, Cap: lg.cp, Chain: seqInts(2, lg.n)}}, Cmds: []string{"C1", "R3000"}}
			if err := g.do(sc, "longcap"); err != nil {
				return err
			}
		}
	}

	// ---- announcements after the initial sync ----
	for _, eng := range engines {
		for _, n := range []int{2, 4} {
			for _, extra := range []int{1, 3} {
				for _, ts := range []uint32{tsNew, tsOld} {
					u := &History{Subs: linearSubs(2, genesisID, n+extra+1, bitsW2, ts)}
					// (the default engine's IsCurrent indexes the last configured checkpoint: the list is never empty in production)
					for _, cps := range [][]cpSpec{{{n, n + 1}}, {{1, 2}}, {{1, 2}, {n, n + 1}}} {
						for _, kind := range []string{"i", "h"} {
							// one peer
							sc := &Scenario{Eng: eng, Cps: cps, U: u,
								Nodes: []*nodeSpec{{P: 1, Cap: 2000, Chain: seqInts(2, n), Reserve: seqInts(n+2, extra+1)}},
								Cmds:  []string{"C1", "R40", fmt.Sprintf("A1.%d.%s", extra, kind), "R40", "A1.1." + kind, "R40"}}
							if err := g.do(sc, "announce-one-peer"); err != nil {
								return err
							}
							if eng == "d" {
								// two peers with the same chain; the non-sync peer / both announce
								for _, who := range [][]int{{2}, {1, 2}, {2, 1}} {
									cmds := []string{"C1", "C2", "R60"}
									for _, w := range who {
										cmds = append(cmds, fmt.Sprintf("A%d.%d.%s", w, extra, kind))
									}
									cmds = append(cmds, "R60")
									sc := &Scenario{Eng: eng, Cps: cps, U: u,
										Nodes: []*nodeSpec{{P: 1, Cap: 2000, Chain: seqInts(2, n), Reserve: seqInts(n+2, extra+1)},
											{P: 2, Cap: 2000, Chain: seqInts(2, n), Reserve: seqInts(n+2, extra+1)}},
										Cmds: cmds}
									if err := g.do(sc, "announce-two-peers"); err != nil {
										return err
									}
								}
							}
						}
					}
				}
			}
		}
	}

	// ---- the sync peer disconnects / stalls at every message index of a short script ----
	{
		n := 6
		u := &History{Subs: linearSubs(2, genesisID, n, bitsW2, tsOld)}
		for _, cps := range [][]cpSpec{nil, {{3, 4}}, {{2, 3}, {6, 7}}} {
			for _, cp := range []int{1, 2, 2000} {
				steps := n/cp + 2
				if steps > 8 {
					steps = 8
				}
				for i := 0; i <= steps; i++ {
					for _, fault := range []string{"X1", "S1"} {
						for _, second := range []string{"before", "after"} {
							cmds := []string{"C1"}
							if second == "before" {
								cmds = append(cmds, "C2")
							}
							for d := 0; d < i; d++ {
								cmds = append(cmds, "D1")
							}
							cmds = append(cmds, fault)
							if second == "after" {
								cmds = append(cmds, "C2")
							}
							if fault == "S1" {
								cmds = append(cmds, "R20", "T0", "T1")
							}
							cmds = append(cmds, "R80")
							sc := &Scenario{Eng: "d", Cps: cps, U: u,
								Nodes: []*nodeSpec{{P: 1, Cap: cp, Chain: seqInts(2, n)}, {P: 2, Cap: 2000, Chain: seqInts(2, n)}}, Cmds: cmds}
							if err := g.do(sc, "fault"); err != nil {
								return err
							}
						}
					}
				}
			}
		}
		// experimental engine: the single peer goes away / stalls mid-sync (nothing can be expected but safety)
		for i := 0; i <= 3; i++ {
			for _, fault := range []string{"X1", "S1"} {
				cmds := []string{"C1"}
				for d := 0; d < i; d++ {
					cmds = append(cmds, "D1")
				}
				cmds = append(cmds, fault, "R20")
				sc := &Scenario{Eng: "x", Cps: []cpSpec{{3, 4}}, U: u, Nodes: []*nodeSpec{{P: 1, Cap: 2, Chain: seqInts(2, n)}}, Cmds: cmds}
				if err := g.do(sc, "fault"); err != nil {
					return err
				}
			}
		}
	}

	// ---- a lagging peer is connected first ----
	for _, ts := range []uint32{tsNew, tsOld} {
		for _, lag := range []int{1, 3} {
			n := 6
			u := &History{Subs: linearSubs(2, genesisID, n+2, bitsW2, ts)}
			for _, tail := range [][]string{{}, {"T1", "R20"}, {"A2.1.i", "R40"}, {"A2.1.h", "R40"}, {"X1", "R40"}} {
				cmds := append([]string{"C1", "R40", "C2", "R40"}, tail...)
				sc := &Scenario{Eng: "d", U: u, Cps: []cpSpec{{1, 2}},
					Nodes: []*nodeSpec{{P: 1, Cap: 2000, Chain: seqInts(2, n-lag)}, {P: 2, Cap: 2000, Chain: seqInts(2, n), Reserve: seqInts(n+2, 2)}}, Cmds: cmds}
				if err := g.do(sc, "lagging"); err != nil {
					return err
				}
			}
		}
	}

	// ---- forks ----
	for _, eng := range engines {
		for a := 0; a <= 2; a++ {
			for _, lens := range [][2]int{{1, 2}, {2, 3}, {3, 5}, {2, 2}, {3, 2}} {
				x, y := lens[0], lens[1] // losing / stored branch length, honest branch length
				u, pre, good, bad := forkUniverse(a, y, x, tsOld)
				for _, cp := range []int{1, 2, 2000} {
					for _, cps := range [][]cpSpec{nil, {{a + y, good[y-1]}}} {
						if len(cps) > 0 && a+y <= a+x {
							continue // the checkpoint would be below the stored tip
						}
						// the store's tip is on the losing branch; the honest peer has the other one
						sc := &Scenario{Eng: eng, Cps: cps, U: u, Init: catInts(pre, bad),
							Nodes: []*nodeSpec{{P: 1, Cap: cp, Chain: catInts(pre, good)}}, Cmds: []string{"C1", "R60"}}
						if err := g.do(sc, "fork-store-on-other-branch"); err != nil {
							return err
						}
					}
					// a stale fork is present, the longest chain is a prefix of the honest chain
					if y > x {
						sc := &Scenario{Eng: eng, U: u, Init: catInts(pre, good[:x+1], bad),
							Nodes: []*nodeSpec{{P: 1, Cap: cp, Chain: catInts(pre, good)}}, Cmds: []string{"C1", "R60"}}
						if err := g.do(sc, "fork-stale-present"); err != nil {
							return err
						}
					}
				}
				if eng == "d" && a >= 1 {
					// peers on different branches; the one with less work first; the other announces (the tip is recent)
					un, pren, goodn, badn := forkUniverse(a, y+1, x, tsNew)
					for _, kind := range []string{"i", "h"} {
						sc := &Scenario{Eng: eng, U: un, Cps: []cpSpec{{1, pren[0]}},
							Nodes: []*nodeSpec{{P: 1, Cap: 2000, Chain: catInts(pren, badn)}, {P: 2, Cap: 2000, Chain: catInts(pren, goodn[:y]), Reserve: goodn[y:]}},
							Cmds:  []string{"C1", "R40", "C2", "R40", "A2.1." + kind, "R60"}}
						if err := g.do(sc, "fork-two-peers"); err != nil {
							return err
						}
					}
				}
			}
		}
	}

	// ---- the store's tip is a short branch of heavy headers; the honest branch is longer but lighter per header: the reply
	//      up to the next checkpoint contains no longest-chain header (receivedCheckpoint with finalHash == nil) ----
	for _, eng := range engines {
		for _, cp := range []int{1, 2000} {
			u := &History{}
			u.Subs = append(u.Subs, linearSubs(100, genesisID, 6, bitsW2, tsOld)...)
			u.Subs = append(u.Subs, linearSubs(200, genesisID, 1, bitsW8, tsOld)...)
			for _, cps := range [][]cpSpec{{{2, 101}}, {{2, 101}, {6, 105}}, nil} {
				sc := &Scenario{Eng: eng, Cps: cps, U: u, Init: []int{200},
					Nodes: []*nodeSpec{{P: 1, Cap: cp, Chain: seqInts(100, 6)}}, Cmds: []string{"C1", "R60"}}
				if err := g.do(sc, "fork-heavy-short-branch"); err != nil {
					return err
				}
			}
		}
	}

	// ---- replies that BEGIN with stored headers and continue with new ones ----
	// (a) the store holds the first s blocks of the honest branch as a stale fork (they lost the tie against the stored tip's branch,
	//     the honest peer built on them): the reply starts right after the common prefix, i.e. with those s stored headers;
	// (b) the store's longest chain leaves the honest chain more than 10 blocks below its tip: the fork point lies between the sparse
	//     locator entries, the first hash the peer knows is below it and the reply begins with common headers.
	// The peer's cap is always larger than the number of re-delivered headers (a reply made only of stored headers ends the conversation
	// in both engines - with the protocol's 2000 that needs a stored fork / locator gap of 2000 headers; see the assumptions).
	for _, eng := range engines {
		for a := 0; a <= 2; a++ {
			for _, lens := range [][2]int{{1, 2}, {2, 3}, {2, 4}, {3, 5}} {
				if a == 1 && !c.Thorough() {
					continue
				}
				x, y := lens[0], lens[1]
				u, pre, good, bad := forkUniverse(a, y, x, tsOld)
				for s := 1; s <= x && s < y; s++ {
					for _, cp := range []int{s + 1, s + 2, 2000} {
						variants := []struct {
							cps []cpSpec
							dis bool
						}{{nil, false}, {[]cpSpec{{a + y, good[y-1]}}, false}}
						if eng == "d" {
							variants = append(variants, struct {
								cps []cpSpec
								dis bool
							}{[]cpSpec{{a + y, good[y-1]}}, true})
						}
						for _, v := range variants {
							sc := &Scenario{Eng: eng, Cps: v.cps, Dis: v.dis, U: u, Init: catInts(pre, bad, good[:s]),
								Nodes: []*nodeSpec{{P: 1, Cap: cp, Chain: catInts(pre, good)}}, Cmds: []string{"C1", "R60"}}
							if err := g.do(sc, "fork-stale-branch-extended"); err != nil {
								return err
							}
						}
					}
				}
			}
		}
		for _, sh := range [][3]int{{8, 13, 15}, {6, 11, 12}, {9, 14, 20}, {5, 12, 13}} {
			a, x, y := sh[0], sh[1], sh[2] // common prefix, stored branch, honest branch
			u, pre, good, bad := forkUniverse(a, y, x, tsOld)
			for _, cp := range []int{a + 1, 40, 2000} {
				variants := []struct {
					cps []cpSpec
					dis bool
				}{{nil, false}, {[]cpSpec{{2, pre[1]}}, false}, {[]cpSpec{{2, pre[1]}, {a + y, good[y-1]}}, false}}
				if eng == "d" {
					variants = append(variants, struct {
						cps []cpSpec
						dis bool
					}{[]cpSpec{{2, pre[1]}}, true})
				}
				for _, v := range variants {
					sc := &Scenario{Eng: eng, Cps: v.cps, Dis: v.dis, U: u, Init: catInts(pre, bad),
						Nodes: []*nodeSpec{{P: 1, Cap: cp, Chain: catInts(pre, good)}}, Cmds: []string{"C1", "R80"}}
					if err := g.do(sc, "fork-deeper-than-dense-locator"); err != nil {
						return err
					}
				}
			}
		}
	}

	// ---- a peer drops during the handshake; an honest peer must be synced from ----
	{
		n := 4
		u := &History{Subs: linearSubs(2, genesisID, n, bitsW2, tsOld)}
		cpsV := [][]cpSpec{{{1, 2}}, {{2, 3}, {4, 5}}}
		scripts := [][]string{{"K1.0", "C2", "R40"}, {"K1.1", "C2", "R40"}, {"K1.1", "Q1", "C2", "R40"}, {"C2", "K1.1", "R40"},
			{"C1", "X1", "C2", "R40"}, {"K1.1", "C2", "D2", "R40", "T1", "R40"}}
		if c.Thorough() {
			scripts = append(scripts, []string{"K1.1", "K3.1", "C2", "R60"}, []string{"K3.0", "K1.1", "C2", "Q1", "R60"},
				[]string{"C2", "D2", "K1.1", "X2", "C3", "R60"}, []string{"K1.1", "C2", "T0", "R40"}, []string{"K1.1", "C2", "C3", "R60"})
		}
		for _, cps := range cpsV {
			for _, cmds := range scripts {
				for _, cp := range []int{2000, 1} {
					if cp == 1 && !c.Thorough() {
						continue
					}
					sc := &Scenario{Eng: "d", Cps: cps, U: u,
						Nodes: []*nodeSpec{{P: 1, Cap: 2000, Chain: seqInts(2, n)}, {P: 2, Cap: cp, Chain: seqInts(2, n)}, {P: 3, Cap: 2000, Chain: seqInts(2, n)}}, Cmds: cmds}
					if err := g.do(sc, "handshake"); err != nil {
						return err
					}
				}
			}
		}
	}

	// ---- the same block announced by inv by several peers; the first one asked never answers ----
	{
		n := 4
		u := &History{Subs: linearSubs(2, genesisID, n+2, bitsW2, tsNew)}
		type cfgV struct {
			dis bool
			cps []cpSpec
		}
		cfgs := []cfgV{{false, []cpSpec{{1, 2}}}, {false, []cpSpec{{2, 3}, {4, 5}}}, {true, []cpSpec{{1, 2}}}}
		for ci, cv := range cfgs {
			full := func(p int) *nodeSpec { return &nodeSpec{P: p, Cap: 2000, Chain: seqInts(2, n), Reserve: seqInts(n+2, 2)} }
			// peer 2 connected after the sync peer 1
			base := []string{"C1", "C2", "R40"}
			variants := [][]string{
				{"A2.1.i", "D2", "X2", "A1.1.i", "R40"},                 // asked, then drops
				{"A2.1.i", "S2", "D2", "A1.1.i", "R40"},                 // asked, never answers
				{"A2.1.i", "A1.1.i", "D2", "X2", "R40"},                 // both announcements queued, the non-sync peer's handled first
				{"A2.1.i", "D2", "X2", "R10", "A1.1.i", "R40", "A1.1.i", "R40"}, // done event handled in between; a later block too
				{"A2.1.i", "S2", "D2", "T0", "A1.1.i", "R40"},
			}
			if ci > 0 && !c.Thorough() {
				variants = variants[:2]
			}
			for _, v := range variants {
				sc := &Scenario{Eng: "d", Dis: cv.dis, Cps: cv.cps, U: u, Nodes: []*nodeSpec{full(1), full(2)}, Cmds: append(append([]string{}, base...), v...)}
				if err := g.do(sc, "inv-race"); err != nil {
					return err
				}
			}
			// three peers: both non-sync peers are asked in turn and go away, the sync peer announces last
			sc := &Scenario{Eng: "d", Dis: cv.dis, Cps: cv.cps, U: u, Nodes: []*nodeSpec{full(1), full(2), full(3)},
				Cmds: []string{"C1", "C2", "C3", "R40", "A2.1.i", "D2", "X2", "A3.1.i", "S3", "D3", "A1.1.i", "R40"}}
			if err := g.do(sc, "inv-race"); err != nil {
				return err
			}
			// the first announcer was connected BEFORE the sync peer (it lagged behind the store then, so it was no candidate)
			lag := &nodeSpec{P: 2, Cap: 2000, Chain: seqInts(2, 1), Reserve: seqInts(3, n)}
			for _, v := range [][]string{{"D2", "X2"}, {"S2", "D2"}} {
				cmds := append([]string{"C2", "C1", "R40", fmt.Sprintf("A2.%d.i", n)}, v...)
				cmds = append(cmds, "A1.1.i", "R40")
				sc := &Scenario{Eng: "d", Dis: cv.dis, Cps: cv.cps, U: u, Init: seqInts(2, 2), Nodes: []*nodeSpec{full(1), lag}, Cmds: cmds}
				if err := g.do(sc, "inv-race"); err != nil {
					return err
				}
			}
		}
	}

	// ---- a lagging sync peer, an honest peer with more announces by inv and is asked: it must be followed up until exhausted ----
	{
		n := 7
		u := &History{Subs: linearSubs(2, genesisID, n+2, bitsW2, tsNew)}
		uu := &History{Subs: linearSubs(2, genesisID, n+4, bitsW2, tsNew)}
		for _, lag := range []int{2, 4} {
			for _, cp := range []int{1, 2} {
				for _, cps := range [][]cpSpec{{{1, 2}}, {{1, 2}, {n - lag, n - lag + 1}}} {
					l := &nodeSpec{P: 1, Cap: 2000, Chain: seqInts(2, n-lag)}
					h := &nodeSpec{P: 2, Cap: cp, Chain: seqInts(2, n), Reserve: seqInts(n+2, 2)}
					for _, cmds := range [][]string{{"C1", "R40", "C2", "R40", "A2.1.i", "R80"}, {"C1", "C2", "R40", "A2.2.i", "R80"}} {
						sc := &Scenario{Eng: "d", Cps: cps, U: u, Nodes: []*nodeSpec{l, h}, Cmds: cmds}
						if err := g.do(sc, "lagging-followup"); err != nil {
							return err
						}
					}
					// 2..4 consecutive announcements of the non-sync peer, each after the previous one was fetched (a run to
					// quiescence in between); one scenario per prefix, so the convergence oracle is applied after each of them
					hh := &nodeSpec{P: 2, Cap: cp, Chain: seqInts(2, n), Reserve: seqInts(n+2, 4)}
					for _, kind := range []string{"i", "h"} {
						if kind == "h" && (lag != 2 || len(cps) != 1) && !c.Thorough() {
							continue
						}
						cmds := []string{"C1", "R40", "C2", "R40"}
						for r := 1; r <= 4; r++ {
							cmds = append(cmds, "A2.1."+kind, "R80")
							if r >= 2 {
								sc := &Scenario{Eng: "d", Cps: cps, U: uu, Nodes: []*nodeSpec{l, hh}, Cmds: append([]string{}, cmds...)}
								if err := g.do(sc, "lagging-followup"); err != nil {
									return err
								}
							}
						}
					}
				}
			}
		}
	}

	// ---- a connected peer whose version-time height has been overtaken by the tip (startSync took its SyncCandidate flag when a
	//      sync peer was (re)selected) is afterwards the ONLY one that announces new blocks: its announcements must be followed ----
	{
		n := 5
		u := &History{Subs: linearSubs(2, genesisID, n+8, bitsW2, tsNew)}
		for _, cps := range [][]cpSpec{{{1, 2}}, {{1, 2}, {n, n + 1}}} {
			for _, cp := range []int{2000, 2} {
				for _, kind := range []string{"i", "h"} {
					if kind == "h" && cp != 2000 {
						continue
					}
					// (a) both peers at height n; the sync peer announces e blocks (the other one's reported height falls behind the
					//     tip), then goes away (closes / stalls until the stall rule drops it): re-selection finds no candidate;
					//     the remaining peer catches up, gets m more blocks and announces them (at once / one by one)
					for _, e := range []int{1, 3} {
						for _, loss := range [][]string{{"X1", "R40"}, {"S1", "R20", "T0", "T1", "R40"}} {
							for _, m := range []int{1, 3} {
								if !c.Thorough() && ((e == 3 && m == 3) || (cp == 2 && len(loss) > 2 && m == 3)) {
									continue
								}
								first := &nodeSpec{P: 1, Cap: 2000, Chain: seqInts(2, n), Reserve: seqInts(n+2, e)}
								second := &nodeSpec{P: 2, Cap: cp, Chain: seqInts(2, n), Reserve: seqInts(n+2, e+m+1)}
								cmds := []string{"C1", "R40", "C2", "R20", fmt.Sprintf("A1.%d.%s", e, kind), "R40"}
								cmds = append(cmds, loss...)
								cmds = append(cmds, fmt.Sprintf("A2.%d.%s", e+m, kind), "R80")
								sc := &Scenario{Eng: "d", Cps: cps, U: u, Nodes: []*nodeSpec{first, second}, Cmds: append([]string{}, cmds...)}
								if err := g.do(sc, "demoted-announcer"); err != nil {
									return err
								}
								// ... and one more block afterwards
								sc = &Scenario{Eng: "d", Cps: cps, U: u, Nodes: []*nodeSpec{first, second}, Cmds: append(append([]string{}, cmds...), "A2.1."+kind, "R80")}
								if err := g.do(sc, "demoted-announcer"); err != nil {
									return err
								}
							}
						}
					}
					// (b) the peer connects while it is behind the store and no sync peer is set (demoted at once), catches up and
					//     announces beyond the tip
					for _, k := range []int{2, 4} {
						for _, j := range []int{1, k - 1} {
							for _, m := range []int{1, 3} {
								late := &nodeSpec{P: 2, Cap: cp, Chain: seqInts(2, j), Reserve: seqInts(j+2, k-j+m+1)}
								cmds := []string{"C2", "R20", fmt.Sprintf("A2.%d.%s", k-j+m, kind), "R80"}
								sc := &Scenario{Eng: "d", Cps: []cpSpec{{1, 2}}, U: u, Init: seqInts(2, k), Nodes: []*nodeSpec{late}, Cmds: cmds}
								if err := g.do(sc, "demoted-announcer"); err != nil {
									return err
								}
								sc = &Scenario{Eng: "d", Cps: []cpSpec{{1, 2}}, U: u, Init: seqInts(2, k), Nodes: []*nodeSpec{late}, Cmds: append(append([]string{}, cmds...), "A2.1."+kind, "R80")}
								if err := g.do(sc, "demoted-announcer"); err != nil {
									return err
								}
							}
						}
					}
				}
			}
		}
	}

	// ---- random mixtures ----
	nr := c.Pick(250, 2500)
	for i := 0; i < nr; i++ {
		r := c.Rng
		eng := engines[r.Intn(3)%2]
		n := 1 + r.Intn(10)
		ts := tsOld
		if r.Intn(2) == 0 {
			ts = tsNew
		}
		u := &History{Subs: linearSubs(2, genesisID, n+3, bitsW2, ts)}
		var cps []cpSpec
		for h := 1; h <= n; h++ {
			if r.Intn(4) == 0 {
				cps = append(cps, cpSpec{h, h + 1})
			}
		}
		if len(cps) == 0 && eng == "d" {
			cps = []cpSpec{{1, 2}}
		}
		caps := []int{1, 2, 3, 7, 2000}
		k0 := r.Intn(n + 1)
		if eng == "x" {
			kind := "h"
			cmds := []string{"C1", "R60", fmt.Sprintf("A1.%d.%s", 1+r.Intn(3), kind), "R40"}
			sc := &Scenario{Eng: eng, Cps: cps, U: u, Init: seqInts(2, k0),
				Nodes: []*nodeSpec{{P: 1, Cap: caps[r.Intn(5)], Chain: seqInts(2, n), Reserve: seqInts(n+2, 3)}}, Cmds: cmds}
			if err := g.do(sc, "random"); err != nil {
				return err
			}
			continue
		}
		n1 := &nodeSpec{P: 1, Cap: caps[r.Intn(5)], Chain: seqInts(2, n-r.Intn(2)*r.Intn(n)), Reserve: nil}
		n2 := &nodeSpec{P: 2, Cap: caps[r.Intn(5)], Chain: seqInts(2, n), Reserve: seqInts(n+2, 3)}
		n3 := &nodeSpec{P: 3, Cap: 2000, Chain: seqInts(2, n), Reserve: seqInts(n+2, 3)}
		nodes := []*nodeSpec{n1, n2}
		cmds := []string{"C1"}
		pool := []string{"D1", "D1", "D2", "C2", "R5", "T0"}
		if r.Intn(3) == 0 {
			nodes = append(nodes, n3)
			pool = append(pool, "C3", "D3")
		}
		for j := 0; j < 2+r.Intn(6); j++ {
			cmds = append(cmds, pool[r.Intn(len(pool))])
		}
		switch r.Intn(4) {
		case 0:
			cmds = append(cmds, "X1")
		case 1:
			cmds = append(cmds, "S1", "R20", "T1")
		}
		cmds = append(cmds, "C2", "R80")
		if r.Intn(2) == 0 {
			kind := []string{"i", "h"}[r.Intn(2)]
			cmds = append(cmds, fmt.Sprintf("A2.%d.%s", 1+r.Intn(3), kind), "R60")
		}
		sc := &Scenario{Eng: eng, Cps: cps, U: u, Init: seqInts(2, k0), Nodes: nodes, Cmds: cmds}
		if err := g.do(sc, "random"); err != nil {
			return err
		}
	}
	return nil
}
