//go:build verif

package main

// Classification of a concrete HTTP request back into the abstract request class of coq/theories/Http.v.
// TRUSTED GLUE: kept explicit and free of any call into the service.  Whatever it does not understand is
// either "unrouted" (gin's own answer, outside the model) or skipped and counted.

import (
	"bufio"
	"bytes"
	"encoding/json"
	"fmt"
	"io"
	"math/big"
	"net/http"
	"net/url"
	"os"
	"regexp"
	"strings"
)

func getenv(k string) string { return os.Getenv(k) }

func c16ReadLines(dir string) []string {
	out := []string{}
	ents, err := os.ReadDir(dir)
	if err != nil {
		return out
	}
	for _, e := range ents {
		if !strings.HasSuffix(e.Name(), ".txt") {
			continue
		}
		fh, err := os.Open(dir + "/" + e.Name())
		if err != nil {
			continue
		}
		sc := bufio.NewScanner(fh)
		sc.Buffer(make([]byte, 1<<20), 1<<26)
		for sc.Scan() {
			l := strings.TrimSpace(sc.Text())
			if l == "" || strings.HasPrefix(l, "#") {
				continue
			}
			if i := strings.Index(l, "\t"); i >= 0 { // "id \t input" lines are accepted too
				l = l[i+1:]
			}
			out = append(out, l)
		}
		fh.Close()
	}
	return out
}

var (
	c16ReHex64 = regexp.MustCompile(`^[0-9a-f]{64}$`)
	c16ReInt   = regexp.MustCompile(`^[+-]?[0-9]+$`)
)

// href: k<i> = hash of row i of the store, unk = well-formed but unknown, mal = anything else.
func (f *c16Fix) href(x string) string {
	if i, ok := f.hidx[x]; ok {
		return fmt.Sprintf("k%d", i)
	}
	if c16ReHex64.MatchString(x) {
		return "unk"
	}
	return "mal"
}

// iparam: class of a query parameter that the handler converts with strconv.Atoi.
func c16IParam(vals url.Values, key string) string {
	v, ok := vals[key]
	if !ok || len(v) == 0 {
		return "missing"
	}
	s := v[0] // gin's GetQuery returns the first value
	if s == "" {
		return "empty"
	}
	if c16ReInt.MatchString(s) {
		n, _ := new(big.Int).SetString(s, 10)
		return "n:" + n.String()
	}
	return "junk"
}

func (f *c16Fix) uref(u string) string {
	switch u {
	case "":
		return "empty"
	case c16ActiveURL:
		return "act"
	case c16InactiveURL:
		return "inact"
	}
	return "new"
}

// first JSON value of a body, decoded generically (numbers kept as literals); kind = "" when decoded.
func c16FirstJSON(body string) (v interface{}, kind string) {
	dec := json.NewDecoder(strings.NewReader(body))
	dec.UseNumber()
	if err := dec.Decode(&v); err != nil {
		if err == io.EOF {
			return nil, "empty"
		}
		return nil, "syntax"
	}
	return v, ""
}

func c16Compress(elems []string) string {
	if len(elems) == 0 {
		return "-"
	}
	out := []string{}
	for i := 0; i < len(elems); {
		j := i
		for j < len(elems) && elems[j] == elems[i] {
			j++
		}
		if j-i > 1 {
			out = append(out, fmt.Sprintf("%s*%d", elems[i], j-i))
		} else {
			out = append(out, elems[i])
		}
		i = j
	}
	return strings.Join(out, ",")
}

// body of POST commonAncestor: a JSON array of strings (null elements decode to "").
func (f *c16Fix) strsBody(body string) string {
	v, kind := c16FirstJSON(body)
	if kind != "" {
		return "bad:" + kind
	}
	if v == nil {
		return "null"
	}
	arr, ok := v.([]interface{})
	if !ok {
		return "bad:type"
	}
	elems := []string{}
	for _, e := range arr {
		switch x := e.(type) {
		case string:
			elems = append(elems, f.href(x))
		case nil:
			elems = append(elems, f.href(""))
		default:
			return "bad:type"
		}
	}
	return "list:" + c16Compress(elems)
}

func c16IsInt32Literal(n json.Number) bool {
	s := string(n)
	if !regexp.MustCompile(`^-?[0-9]+$`).MatchString(s) {
		return false
	}
	z, _ := new(big.Int).SetString(s, 10)
	return z.Cmp(big.NewInt(-2147483648)) >= 0 && z.Cmp(big.NewInt(2147483647)) <= 0
}

// c16ObjectPairs returns the members of the first JSON value when it is an object, in order, duplicates kept.
func c16ObjectPairs(raw string) (keys []string, vals []interface{}, ok bool) {
	dec := json.NewDecoder(strings.NewReader(raw))
	dec.UseNumber()
	t, err := dec.Token()
	if err != nil || t != json.Delim('{') {
		return nil, nil, false
	}
	for dec.More() {
		kt, err := dec.Token()
		if err != nil {
			return nil, nil, false
		}
		k, isStr := kt.(string)
		if !isStr {
			return nil, nil, false
		}
		var v interface{}
		if err := dec.Decode(&v); err != nil {
			return nil, nil, false
		}
		keys = append(keys, k)
		vals = append(vals, v)
	}
	return keys, vals, true
}

// body of POST verify: a JSON array of {merkleRoot string, blockHeight int32} (keys match case-insensitively,
// null leaves a field at its zero value, unknown keys are ignored).
func (f *c16Fix) verifyBody(body string) string {
	v, kind := c16FirstJSON(body)
	if kind != "" {
		return "bad:" + kind
	}
	if v == nil {
		return "null"
	}
	arr, ok := v.([]interface{})
	if !ok {
		return "bad:type"
	}
	for _, e := range arr {
		if e == nil {
			continue
		}
		if _, isObj := e.(map[string]interface{}); !isObj {
			return "bad:type"
		}
		raw, _ := json.Marshal(e) // re-encoded member; json.Number literals are preserved
		keys, vals, ok := c16ObjectPairs(string(raw))
		if !ok {
			return "bad:type"
		}
		for i, k := range keys {
			switch {
			case strings.EqualFold(k, "merkleRoot"):
				if _, isStr := vals[i].(string); !isStr && vals[i] != nil {
					return "bad:type"
				}
			case strings.EqualFold(k, "blockHeight"):
				if vals[i] == nil {
					continue
				}
				n, isNum := vals[i].(json.Number)
				if !isNum {
					return "bad:type"
				}
				if !c16IsInt32Literal(n) {
					return "bad:range"
				}
			}
		}
	}
	return fmt.Sprintf("list:%d", len(arr))
}

func c16FilterFlags(content string) string {
	for i, ch := range content {
		if ch == ' ' || ch == ';' {
			return content[:i]
		}
	}
	return content
}

// whBody: what gin's c.Bind leaves in webhook.Request: (URL, bind error?) reduced to a class.
//   ok:<uref>       bound without error
//   partial:<uref>  bind error, but the URL field had been set (JSON type error elsewhere in the document)
//   bad:<kind>      bind error, URL empty
func (f *c16Fix) whBody(r *c16Req) (cls string, skip string) {
	ct := c16FilterFlags(r.CT)
	switch ct {
	case "application/json":
		body := r.body()
		v, kind := c16FirstJSON(body)
		if kind != "" {
			return "bad:" + kind, ""
		}
		if v == nil {
			return "ok:empty", "" // JSON null binds nothing, no error
		}
		if _, isObj := v.(map[string]interface{}); !isObj {
			return "bad:type", ""
		}
		keys, vals, ok := c16ObjectPairs(body)
		if !ok {
			return "", "webhook-body-unparsed"
		}
		u, bad := "", false
		strOrNull := func(x interface{}) bool { _, s := x.(string); return s || x == nil }
		for i, k := range keys {
			switch {
			case strings.EqualFold(k, "url"):
				if s, isStr := vals[i].(string); isStr {
					u = s
				} else if vals[i] != nil {
					bad = true
				}
			case strings.EqualFold(k, "requiredAuth"):
				if vals[i] == nil {
					continue
				}
				if _, isObj := vals[i].(map[string]interface{}); !isObj {
					bad = true
					continue
				}
				raw, _ := json.Marshal(vals[i])
				ks, vs, _ := c16ObjectPairs(string(raw))
				for j, k2 := range ks {
					if (strings.EqualFold(k2, "type") || strings.EqualFold(k2, "token") || strings.EqualFold(k2, "header")) && !strOrNull(vs[j]) {
						bad = true
					}
				}
			}
		}
		if !bad {
			return "ok:" + f.uref(u), ""
		}
		if u == "" {
			return "bad:type", ""
		}
		return "partial:" + f.uref(u), ""
	case "application/x-protobuf":
		return "bad:proto", ""
	case "application/xml", "text/xml", "application/x-msgpack", "application/msgpack", "application/x-yaml", "application/yaml",
		"application/toml", "multipart/form-data":
		return "", "webhook-content-type-not-modelled"
	}
	// every other content type (and none): gin's form binding - fields are looked up by FIELD NAME in query + urlencoded body
	req := &http.Request{Method: r.Method, URL: &url.URL{Path: r.Path, RawQuery: r.Query}, Header: http.Header{},
		Body: io.NopCloser(bytes.NewReader([]byte(r.body())))}
	if r.CT != "" {
		req.Header.Set("Content-Type", r.CT)
	}
	if err := req.ParseForm(); err != nil {
		return "bad:form", ""
	}
	if _, has := req.Form["RequiredAuth"]; has {
		return "", "webhook-form-requiredauth"
	}
	u := ""
	if v := req.Form["URL"]; len(v) > 0 {
		u = v[0]
	}
	return "ok:" + f.uref(u), ""
}

func (f *c16Fix) authClass(r *c16Req) string {
	if !r.AuthOn {
		return "off"
	}
	if r.Auth == "" {
		return "none"
	}
	parts := strings.Split(r.Auth, " ")
	if len(parts) != 2 || parts[0] != "Bearer" {
		return "badfmt"
	}
	switch parts[1] {
	case f.admin:
		return "admin"
	case c16UserToken:
		return "user"
	}
	return "unk"
}

// classify returns the class line "<auth> <route> k=v ...", the route name, and a non-empty skip reason when the
// request is neither modelled nor plainly unroutable.
func (f *c16Fix) classify(r *c16Req) (class, route, skip string) {
	a := f.authClass(r)
	const pre = "/api/v1/"
	unrouted := func() (string, string, string) { return "off unrouted", "unrouted", "" }
	if !strings.HasPrefix(r.Path, pre) {
		if strings.HasPrefix(r.Path, "/swagger") || r.Path == "/status" || strings.HasPrefix(r.Path, "/metrics") || strings.HasPrefix(r.Path, "/pprof") {
			return "", "", "outside-api-group"
		}
		return unrouted()
	}
	seg := strings.Split(r.Path[len(pre):], "/")
	if seg[len(seg)-1] == "" {
		return unrouted() // trailing slash / empty last parameter: gin answers 404 or a redirect (an empty segment in the middle does match a parameter)
	}
	q, _ := url.ParseQuery(r.Query) // like gin: pairs that do not parse are dropped
	is := func(lits ...string) bool {
		if len(lits) != len(seg) {
			return false
		}
		for i, l := range lits {
			if l != "*" && l != seg[i] {
				return false
			}
		}
		return true
	}
	reserved := func(x string) bool { return x == "state" || x == "byHeight" || x == "commonAncestor" }
	line := func(route string, kv ...string) (string, string, string) {
		return strings.TrimSpace(a + " " + route + " " + strings.Join(kv, " ")), route, ""
	}
	switch r.Method {
	case "GET":
		switch {
		case is("chain", "header", "byHeight"):
			return line("byheight", "height="+c16IParam(q, "height"), "count="+c16IParam(q, "count"))
		case is("chain", "header", "state", "*"):
			return line("state", "h="+f.href(seg[3]))
		case is("chain", "header", "*"):
			if reserved(seg[2]) {
				return "", "", "reserved-word-as-hash"
			}
			return line("hdr", "h="+f.href(seg[2]))
		case is("chain", "header", "*", "*", "ancestor"):
			if reserved(seg[2]) {
				return "", "", "reserved-word-as-hash"
			}
			return line("anc", "h="+f.href(seg[2]), "a="+f.href(seg[3]))
		case is("chain", "tip"):
			return line("tip")
		case is("chain", "tip", "longest"):
			return line("tiplongest")
		case is("network", "peer"):
			return line("peers")
		case is("network", "peer", "count"):
			return line("peercount")
		case is("chain", "merkleroot"):
			last := "none"
			if v := q.Get("lastEvaluatedKey"); v != "" {
				if i, ok := f.midx[v]; ok {
					last = fmt.Sprintf("k%d", i)
				} else {
					last = "unk"
				}
			}
			return line("mroots", "batch="+c16IParam(q, "batchSize"), "last="+last)
		case is("webhook"):
			u := f.uref(q.Get("url"))
			if u == "empty" {
				u = "none"
			}
			return line("whget", "url="+u)
		case is("access"):
			return line("accget")
		}
	case "POST":
		switch {
		case is("chain", "header", "commonAncestor"):
			return line("common", "body="+f.strsBody(r.body()))
		case is("chain", "merkleroot", "verify"):
			return line("verify", "body="+f.verifyBody(r.body()))
		case is("webhook"):
			b, sk := f.whBody(r)
			if sk != "" {
				return "", "", sk
			}
			return line("whpost", "body="+b)
		case is("access"):
			return line("accpost")
		}
	case "DELETE":
		switch {
		case is("webhook"):
			u := f.uref(q.Get("url"))
			if u == "empty" {
				u = "none"
			}
			return line("whdel", "url="+u)
		case is("access", "*"):
			t := "other"
			if seg[1] == c16UserToken {
				t = "known"
			}
			return line("accdel", "tok="+t)
		}
	}
	return unrouted()
}
