//go:build verif

package main

import (
	"bufio"
	"fmt"
	"os"
	"path/filepath"
	"sort"
	"strings"
	"time"

	"github.com/bitcoin-sv/block-headers-service/config"
	"github.com/bitcoin-sv/block-headers-service/transports/p2p"
	"github.com/bitcoin-sv/block-headers-service/transports/p2p/connmgr"
)

func init() { register("C18", runC18) }

// C18: peer admission bookkeeping (transports/p2p/server.go) and the outbound connection
// manager (transports/p2p/connmgr).  Two families of cases, told apart by the head token:
//
//	adm mp=<MaxPeers> ip=<MaxPeersPerIP> D=<ban duration, units>;<event>;<event>;...
//	cm t=<target> mf=<maxFailedAttempts>;<event>;<event>;...
//	wr t=<target> mf=<maxFailedAttempts>;<event>;...   (real server wired to the real connmgr)
//	wa t=<target> mf=<maxFailedAttempts>;<book>;<event>;...   (the same with the real address source)
//
// see c18_adm.go / c18_cm.go for the event syntax and the observables.
func runC18(c *Ctx) error {
	if c.Only != "" {
		c18CmBound = 600 * time.Millisecond
		defer c18StackClose()
		return c18One(c, c.Only, "replay")
	}
	// fixed corpus first
	dir := filepath.Join(os.Getenv("VERIF_DIR"), "corpus", "C18")
	if os.Getenv("VERIF_DIR") == "" {
		dir = "/verif/corpus/C18"
	}
	files, _ := filepath.Glob(filepath.Join(dir, "*.txt"))
	sort.Strings(files)
	for _, f := range files {
		fh, err := os.Open(f)
		if err != nil {
			continue
		}
		sc := bufio.NewScanner(fh)
		sc.Buffer(make([]byte, 1<<20), 1<<24)
		for sc.Scan() {
			l := strings.TrimSpace(sc.Text())
			if l == "" || strings.HasPrefix(l, "#") {
				continue
			}
			// corpus lines name the compiled-in limits as "*"
			mp, ip := p2p.VerifC18Limits()
			l = strings.Replace(l, "mp=*", fmt.Sprintf("mp=%d", mp), 1)
			l = strings.Replace(l, "ip=*", fmt.Sprintf("ip=%d", ip), 1)
			l = strings.Replace(l, "mf=*", fmt.Sprintf("mf=%d", connmgr.VerifC18MaxFailedAttempts), 1)
			if err := c18One(c, l, "corpus"); err != nil {
				fh.Close()
				return err
			}
		}
		fh.Close()
	}
	if err := c18GenAdm(c); err != nil {
		return err
	}
	if err := c18GenCm(c); err != nil {
		return err
	}
	{
		var aerr error
		c18AbCases(c, func(ops []string, tag string) {
			if aerr == nil {
				aerr = c18One(c, "ab;"+strings.Join(ops, ";"), tag)
			}
		})
		if aerr != nil {
			return aerr
		}
	}
	{
		var nerr error
		c18NaCases(c, func(line, tag string) {
			if nerr == nil {
				nerr = c18One(c, line, tag)
			}
		})
		if nerr != nil {
			return nerr
		}
	}
	st, err := c18Stack(c)
	if err != nil {
		return err
	}
	defer c18StackClose()
	if err := c18GenWr(c, st); err != nil {
		return err
	}
	return c18GenWa(c, st)
}

// the real service stack (SQLite + services) the wired cases' sync manager works on; opened once
var c18St *Stack

func c18Stack(c *Ctx) (*Stack, error) {
	if c18St != nil {
		return c18St, nil
	}
	// what config.Load does before the services are built (HeaderService.IsCurrent indexes the list)
	config.Checkpoints = config.ActiveNetParams.Checkpoints
	st, err := NewStack(StackOpts{Dir: c.TmpDir("c18w")})
	if err != nil {
		return nil, err
	}
	c18St = st
	return st, nil
}

func c18StackClose() {
	if c18St != nil {
		c18St.Close()
		c18St = nil
	}
}

func c18One(c *Ctx, input, class string) error {
	toks := strings.Split(input, ";")
	head := strings.Fields(toks[0])
	if len(head) == 0 {
		c.Case(input, "BAD-INPUT")
		return nil
	}
	switch head[0] {
	case "adm":
		obs := c18RunAdm(head, toks[1:])
		c.Case(input, obs)
		c.Count("adm:" + class)
	case "cm":
		obs := c18RunCm(head, toks[1:])
		c.Case(input, obs)
		c.Count("cm:" + class)
	case "ab":
		line, obs := c18RunAb(toks[1:])
		c.Case(line, obs)
		c.Count("ab:" + class)
	case "na":
		var draws []string
		for _, d := range toks[1:] {
			if d != "" {
				draws = append(draws, d)
			}
		}
		c.Case(input, c18RunNa(head, draws))
		c.Count("na:" + class)
	case "wr", "wa":
		st, err := c18Stack(c)
		if err != nil {
			return err
		}
		var obs string
		if head[0] == "wr" {
			obs = c18RunWr(head, toks[1:], st)
		} else if c.Only == "" && c18WaNeedsChild(toks[1:]) {
			obs = c18RunWaChild(c, input)
		} else {
			obs = c18RunWa(head, toks[1:], st)
		}
		c.Case(input, obs)
		c.Count(head[0] + ":" + class)
	default:
		c.Case(input, "BAD-INPUT")
	}
	return nil
}

func c18Head(head []string, key string, def int) int {
	for _, w := range head[1:] {
		if strings.HasPrefix(w, key+"=") {
			var v int
			if _, err := fmt.Sscanf(w[len(key)+1:], "%d", &v); err == nil {
				return v
			}
		}
	}
	return def
}
