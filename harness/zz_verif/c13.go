//go:build verif

package main

// C13: block locators and getheaders answers describe the longest chain correctly.
//
// A case = a store description + one query, executed over the real stack (SQLite + database/sql +
// database/repository + service.Headers):
//
//   <store>;|st                      obs: <tip id>/<state letters in rowid order>      (sanity: same store on both sides)
//   <store>;|loc                     obs: the ids of Headers.LatestHeaderLocator(), comma separated
//   <store>;|q=<id>,<id>,../<stop>   obs: <G> same | <G> L=<L>
//        G = Headers.LocateHeadersGetHeaders(locator, stop):  H:<ids>  |  E:stoplow | E:nolocators (code before 744966c) | E:other | PANIC
//        L = Headers.LocateHeaders(locator, stop): H:<ids>; "same" when it returns exactly G's headers (nothing on error)
//
//   <store>;|r=<q1>+<q2>+..         "answers stay stable": the requests q_k = <ids>/<stop> are issued one after the
//        other through BOTH entry points; the values returned for each (the []*wire.BlockHeader / []wire.BlockHeader
//        exactly as returned, not copies) are kept and projected only AFTER the last request has been answered.
//        obs: <answer 1> + <answer 2> + ..   each as for q=, with " changed" appended when the late projection of a
//        retained answer differs from its projection right at return (the model's answers are values: never).
//
// <store> = a C01 history line (see common_chain.go); the token `linear=<n>` stands for the canonical linear
// chain of n headers (ids 2..n+1, header k has prev k-1... see c13Linear) so that a 2100-header store does not
// need a 2100-submission line.  The store is built by submitting every header to Chains.Add.
// The network of a store is the one whose genesis header is described by the g= token (bits, timestamp, nonce):
// mainnet, testnet3 or regtest; the stack of that store is configured like cmd/main.go does
// (cfg.P2P.ChainNetType -> database.Init inserts cfg.P2P.GetNetParams() genesis, service.NewServices).
// Runs of consecutive ids a,a+1,..,b (at least 3) are printed a-b in id lists.
// In a locator `<id>*<n>` stands for the n ids id, id+1, .., id+n-1 (used for locators of tens of thousands of
// unknown hashes, beyond the bind-variable limit of SQLite).
// Ids in queries: 0 = zero hash, 1 = genesis, ids defined by no submission = unknown hashes.

import (
	"fmt"
	"sort"
	"strconv"
	"strings"
	"time"

	"github.com/bitcoin-sv/block-headers-service/config"
	"github.com/bitcoin-sv/block-headers-service/domains"
	"github.com/bitcoin-sv/block-headers-service/internal/chaincfg"
	"github.com/bitcoin-sv/block-headers-service/internal/chaincfg/chainhash"
	"github.com/bitcoin-sv/block-headers-service/service"
	"github.com/bitcoin-sv/block-headers-service/internal/wire"
)

func init() {
	register("C13", runC13)
	registerDump("Params", func() (string, error) {
		return fmt.Sprintf("From Coq Require Import ZArith.\nOpen Scope Z_scope.\n(* wire.MaxCFHeadersPerMsg: the cap locateHeadersGetHeaders applies *)\nDefinition max_headers_per_msg : Z := %d.\n(* wire.MaxBlockLocatorsPerMsg: the most locator hashes a getheaders message can carry *)\nDefinition max_block_locators_per_msg : Z := %d.\n", wire.MaxCFHeadersPerMsg, wire.MaxBlockLocatorsPerMsg), nil
	})
}

// c13Linear is the canonical linear chain `linear=<n>`.
func c13Linear(n int) []Sub {
	out := make([]Sub, 0, n)
	for k := 0; k < n; k++ {
		out = append(out, Sub{ID: k + 2, Prev: k + 1, Bits: bitsW2, Ver: 1, Merkle: k + 102, TS: uint32(1600000000 + k), Nonce: uint32(k)})
	}
	return out
}

// c13Net is one configurable network.
type c13Net struct {
	name   string
	typ    config.NetworkType
	params *chaincfg.Params
}

var c13Nets = []c13Net{
	{"mainnet", config.MainNet, &chaincfg.MainNetParams},
	{"testnet", config.TestNet, &chaincfg.TestNet3Params},
	{"regtest", config.RegTestNet, &chaincfg.RegressionNetParams},
}

// c13Head is the "g=...;f=" prefix of a store line on the given network.
func c13Head(n c13Net) string {
	gh := n.params.GenesisBlock.Header
	return fmt.Sprintf("g=%d,%d,%d,%d,%d,%d;f=", genesisID, gh.Bits, 1, 1, gh.Timestamp.Unix(), gh.Nonce)
}

// c13ParseStore parses the store part of a case line; the network is recognised from the g= token.
func c13ParseStore(line string) (*History, c13Net, error) {
	h := &History{}
	net := c13Nets[0]
	for _, tok := range strings.Split(line, ";") {
		tok = strings.TrimSpace(tok)
		if tok == "" {
			continue
		}
		if strings.HasPrefix(tok, "g=") {
			found := false
			for _, n := range c13Nets {
				if strings.HasPrefix(c13Head(n), tok+";") {
					net, found = n, true
				}
			}
			if !found {
				return nil, net, fmt.Errorf("genesis token %q is not the genesis of a known network", tok)
			}
			continue
		}
		if strings.HasPrefix(tok, "linear=") {
			n, err := strconv.Atoi(tok[7:])
			if err != nil || n < 0 || n > 100000 {
				return nil, net, fmt.Errorf("bad token %q", tok)
			}
			h.Subs = append(h.Subs, c13Linear(n)...)
			continue
		}
		p, err := ParseHistory(tok)
		if err != nil {
			return nil, net, err
		}
		h.Forbidden = append(h.Forbidden, p.Forbidden...)
		h.Subs = append(h.Subs, p.Subs...)
	}
	return h, net, nil
}

// c13Materialize is Materialize (common_chain.go) with the genesis hash of the store's network.
func c13Materialize(h *History, genesis chainhash.Hash) (*Mat, error) {
	m := &Mat{H: h, Hash: map[int]chainhash.Hash{}, IDOf: map[chainhash.Hash]int{}, MerkID: map[chainhash.Hash]int{}, def: map[int]int{}}
	for i, s := range h.Subs {
		if _, ok := m.def[s.ID]; !ok {
			m.def[s.ID] = i
		}
	}
	m.Hash[0] = chainhash.Hash{}
	m.Hash[genesisID] = genesis
	hasher := service.DefaultBlockHasher()
	srcOf := func(s Sub, prev chainhash.Hash) domains.BlockHeaderSource {
		return domains.BlockHeaderSource{Version: s.Ver, PrevBlock: prev, MerkleRoot: merkleBytes(s.Merkle),
			Timestamp: time.Unix(int64(s.TS), 0), Bits: s.Bits, Nonce: s.Nonce}
	}
	var hashOf func(id int, depth int) (chainhash.Hash, error)
	hashOf = func(id int, depth int) (chainhash.Hash, error) {
		if v, ok := m.Hash[id]; ok {
			return v, nil
		}
		if depth > len(h.Subs)+2 {
			return chainhash.Hash{}, fmt.Errorf("cyclic parent links at id %d", id)
		}
		i, ok := m.def[id]
		if !ok {
			v := fakeHash(id)
			m.Hash[id] = v
			return v, nil
		}
		s := h.Subs[i]
		ph, err := hashOf(s.Prev, depth+1)
		if err != nil {
			return ph, err
		}
		src := srcOf(s, ph)
		v := chainhash.Hash(hasher.BlockHash(&src))
		m.Hash[id] = v
		return v, nil
	}
	for _, s := range h.Subs {
		if _, err := hashOf(s.ID, 0); err != nil {
			return nil, err
		}
		ph, err := hashOf(s.Prev, 0)
		if err != nil {
			return nil, err
		}
		if d := h.Subs[m.def[s.ID]]; d != s {
			return nil, fmt.Errorf("id %d defined twice with different fields", s.ID)
		}
		m.Src = append(m.Src, srcOf(s, ph))
	}
	for id, hv := range m.Hash {
		if old, ok := m.IDOf[hv]; ok && old != id {
			return nil, fmt.Errorf("hash collision between ids %d and %d (SHA-256d injectivity assumption violated)", old, id)
		}
		m.IDOf[hv] = id
	}
	return m, nil
}

// c13Store is a built store plus what the query generators need to know about it.
type c13Store struct {
	stk  *Stack // the stack of the store's network
	net  string
	line string // store part of the input line
	m    *Mat
	rows []HeaderRow
	byH  map[int64][]int // height -> ids (all states)
	lIDs []int           // longest chain ids by ascending height
	sIDs []int
	oIDs []int
	all  []int
}

// stack returns (creating it on first use) the real stack configured for the network.
func (r *c13Run) stack(n c13Net) (*Stack, error) {
	if s, ok := r.stacks[n.name]; ok {
		return s, nil
	}
	s, err := NewStack(StackOpts{Dir: r.c.TmpDir("c13-" + n.name), Mutate: func(cfg *config.AppConfig) { cfg.P2P.ChainNetType = n.typ }})
	if err != nil {
		return nil, err
	}
	r.stacks[n.name] = s
	return s, nil
}

func c13Build(r *c13Run, line string) (*c13Store, error) {
	h, net, err := c13ParseStore(line)
	if err != nil {
		return nil, err
	}
	s, err := r.stack(net)
	if err != nil {
		return nil, err
	}
	m, err := c13Materialize(h, *net.params.GenesisHash)
	if err != nil {
		return nil, err
	}
	if err := s.ResetHeaders(); err != nil {
		return nil, err
	}
	// the Chains service with the network's parameters plus the forbidden hashes of the history
	p := *net.params
	p.HeadersToIgnore = m.ForbiddenHashes()
	s.Services.Chains = service.NewChainsService(s.Repo, &p, s.Log, service.DefaultBlockHasher(), s.Services.Notifier)
	for i := range h.Subs {
		AddOutcome(s, m.Src[i])
	}
	rows, err := s.DumpHeaders()
	if err != nil {
		return nil, err
	}
	st := &c13Store{stk: s, net: net.name, line: line, m: m, rows: rows, byH: map[int64][]int{}}
	type hl struct {
		h  int64
		id int
	}
	var ls []hl
	for _, r := range rows {
		id := m.ID(r.Hash)
		st.all = append(st.all, id)
		st.byH[r.Height] = append(st.byH[r.Height], id)
		switch r.State {
		case "LONGEST_CHAIN":
			ls = append(ls, hl{r.Height, id})
		case "STALE":
			st.sIDs = append(st.sIDs, id)
		case "ORPHAN":
			st.oIDs = append(st.oIDs, id)
		}
	}
	sort.SliceStable(ls, func(i, j int) bool { return ls[i].h < ls[j].h })
	for _, x := range ls {
		st.lIDs = append(st.lIDs, x.id)
	}
	return st, nil
}

// c13IDs renders an id list with runs a-b.
func c13IDs(ids []int) string {
	var sb strings.Builder
	for i := 0; i < len(ids); {
		j := i
		for j+1 < len(ids) && ids[j+1] == ids[j]+1 {
			j++
		}
		if sb.Len() > 0 {
			sb.WriteByte(',')
		}
		if j-i >= 2 {
			fmt.Fprintf(&sb, "%d-%d", ids[i], ids[j])
			i = j + 1
		} else {
			fmt.Fprintf(&sb, "%d", ids[i])
			i++
		}
	}
	return sb.String()
}

func (st *c13Store) hashOf(id int) chainhash.Hash {
	if hv, ok := st.m.Hash[id]; ok {
		return hv
	}
	return fakeHash(id)
}

func (st *c13Store) idOfHash(hv chainhash.Hash) int {
	if id, ok := st.m.IDOf[hv]; ok {
		return id
	}
	return -1
}

func c13ErrClass(err error) string {
	switch {
	case strings.Contains(err.Error(), "no locators provided"):
		return "E:nolocators"
	case strings.Contains(err.Error(), "hashStop is lower than first valid height"):
		return "E:stoplow"
	case strings.Contains(err.Error(), "error getting headers of locators"):
		return "E:locator-lookup"
	}
	return "E:other"
}

func (st *c13Store) obsLoc(s *Stack) (out string) {
	defer func() {
		if r := recover(); r != nil {
			out = "PANIC"
		}
	}()
	loc := s.Services.Headers.LatestHeaderLocator()
	ids := make([]int, 0, len(loc))
	for _, hp := range loc {
		if hp == nil {
			ids = append(ids, -3)
			continue
		}
		ids = append(ids, st.idOfHash(*hp))
	}
	return c13IDs(ids)
}

func (st *c13Store) wireIDs(hs []*wire.BlockHeader) []int {
	ids := make([]int, 0, len(hs))
	for _, bh := range hs {
		if bh == nil {
			ids = append(ids, -3)
			continue
		}
		// the id is recovered from the returned 80 bytes: all six fields must be the stored ones
		ids = append(ids, st.idOfHash(bh.BlockHash()))
	}
	return ids
}

func (st *c13Store) obsQuery(s *Stack, locIDs []int, stop int) string {
	mk := func() (domains.BlockLocator, *chainhash.Hash) {
		loc := make(domains.BlockLocator, 0, len(locIDs))
		for _, id := range locIDs {
			hv := st.hashOf(id)
			loc = append(loc, &hv)
		}
		sh := st.hashOf(stop)
		return loc, &sh
	}
	g := func() (out string, ids []int) {
		defer func() {
			if r := recover(); r != nil {
				out, ids = "PANIC", nil
			}
		}()
		loc, sh := mk()
		hs, err := s.Services.Headers.LocateHeadersGetHeaders(loc, sh)
		if err != nil {
			return c13ErrClass(err), nil
		}
		ids = st.wireIDs(hs)
		return "H:" + c13IDs(ids), ids
	}
	l := func() (out string) {
		defer func() {
			if r := recover(); r != nil {
				out = "PANIC"
			}
		}()
		loc, sh := mk()
		hs := s.Services.Headers.LocateHeaders(loc, sh)
		ps := make([]*wire.BlockHeader, len(hs))
		for i := range hs {
			ps[i] = &hs[i]
		}
		return "H:" + c13IDs(st.wireIDs(ps))
	}
	gobs, gids := g()
	lobs := l()
	want := "H:" + c13IDs(gids)
	if lobs == want {
		return gobs + " same"
	}
	return gobs + " L=" + lobs
}

// obsRetained issues the requests in order, keeps what was returned, and projects everything at the end.
func (st *c13Store) obsRetained(s *Stack, reqs [][2]interface{}) string {
	type kept struct {
		gErr   string
		g      []*wire.BlockHeader
		l      []wire.BlockHeader
		gNow   string
		lNow   string
		gPanic bool
		lPanic bool
	}
	projL := func(hs []wire.BlockHeader) string {
		ps := make([]*wire.BlockHeader, len(hs))
		for i := range hs {
			ps[i] = &hs[i]
		}
		return "H:" + c13IDs(st.wireIDs(ps))
	}
	ks := make([]*kept, len(reqs))
	for k, rq := range reqs {
		locIDs, stop := rq[0].([]int), rq[1].(int)
		mk := func() (domains.BlockLocator, *chainhash.Hash) {
			loc := make(domains.BlockLocator, 0, len(locIDs))
			for _, id := range locIDs {
				hv := st.hashOf(id)
				loc = append(loc, &hv)
			}
			sh := st.hashOf(stop)
			return loc, &sh
		}
		kp := &kept{}
		ks[k] = kp
		func() {
			defer func() {
				if r := recover(); r != nil {
					kp.gPanic = true
				}
			}()
			loc, sh := mk()
			hs, err := s.Services.Headers.LocateHeadersGetHeaders(loc, sh)
			if err != nil {
				kp.gErr = c13ErrClass(err)
				return
			}
			kp.g = hs
			kp.gNow = "H:" + c13IDs(st.wireIDs(hs))
		}()
		func() {
			defer func() {
				if r := recover(); r != nil {
					kp.lPanic = true
				}
			}()
			loc, sh := mk()
			kp.l = s.Services.Headers.LocateHeaders(loc, sh)
			kp.lNow = projL(kp.l)
		}()
	}
	parts := make([]string, len(ks))
	for k, kp := range ks {
		if kp.gPanic || kp.lPanic {
			parts[k] = "PANIC"
			continue
		}
		gLate, changed := kp.gErr, false
		want := "H:"
		if kp.gErr == "" {
			gLate = "H:" + c13IDs(st.wireIDs(kp.g))
			changed = gLate != kp.gNow
			want = gLate
		}
		lLate := projL(kp.l)
		if lLate != kp.lNow {
			changed = true
		}
		o := gLate
		if lLate == want {
			o += " same"
		} else {
			o += " L=" + lLate
		}
		if changed {
			o += " changed"
		}
		parts[k] = o
	}
	return strings.Join(parts, " + ")
}

func c13QueryString(locIDs []int, stop int) string {
	p := make([]string, len(locIDs))
	for i, v := range locIDs {
		p[i] = strconv.Itoa(v)
	}
	return fmt.Sprintf("q=%s/%d", strings.Join(p, ","), stop)
}

func c13ParseQuery(q string) ([]int, int, error) {
	if !strings.HasPrefix(q, "q=") {
		return nil, 0, fmt.Errorf("bad query %q", q)
	}
	parts := strings.Split(q[2:], "/")
	if len(parts) != 2 {
		return nil, 0, fmt.Errorf("bad query %q", q)
	}
	var loc []int
	for _, x := range strings.Split(parts[0], ",") {
		if x == "" {
			continue
		}
		if i := strings.Index(x, "*"); i > 0 {
			a, err1 := strconv.Atoi(x[:i])
			n, err2 := strconv.Atoi(x[i+1:])
			if err1 != nil || err2 != nil || n < 0 || n > 1000000 {
				return nil, 0, fmt.Errorf("bad run %q", x)
			}
			for k := 0; k < n; k++ {
				loc = append(loc, a+k)
			}
			continue
		}
		v, err := strconv.Atoi(x)
		if err != nil {
			return nil, 0, err
		}
		loc = append(loc, v)
	}
	stop, err := strconv.Atoi(parts[1])
	if err != nil {
		return nil, 0, err
	}
	return loc, stop, nil
}

type c13Run struct {
	c      *Ctx
	qlog   []string // the getheaders queries emitted for the current store (material for retained sequences)
	stacks map[string]*Stack
	seen map[string]bool
}

func (r *c13Run) emit(st *c13Store, q string) {
	line := st.line + ";|" + q
	if r.seen[line] {
		return
	}
	r.seen[line] = true
	switch {
	case q == "st":
		var sb strings.Builder
		for _, row := range st.rows {
			sb.WriteString(stLetter(row.State))
		}
		tip := -2
		if t, err := st.stk.Repo.Headers.GetTip(); err == nil && t != nil {
			tip = st.m.ID(t.Hash.String())
		}
		r.c.Case(line, fmt.Sprintf("%d/%s", tip, sb.String()))
		r.c.Count("query:store")
	case q == "loc":
		r.c.Case(line, st.obsLoc(st.stk))
		r.c.Count("query:locator")
		r.c.Count(fmt.Sprintf("locator:tip-height-%s", c13Bucket(len(st.lIDs)-1)))
	case strings.HasPrefix(q, "r="):
		var reqs [][2]interface{}
		for _, one := range strings.Split(q[2:], "+") {
			loc, stop, err := c13ParseQuery("q=" + one)
			if err != nil {
				panic(err)
			}
			reqs = append(reqs, [2]interface{}{loc, stop})
		}
		r.c.Case(line, st.obsRetained(st.stk, reqs))
		r.c.Count("query:retained-answers")
		r.c.Count(fmt.Sprintf("retained:sequence-of-%d", len(reqs)))
	default:
		loc, stop, err := c13ParseQuery(q)
		if err != nil {
			panic(err)
		}
		r.qlog = append(r.qlog, q[2:])
		obs := st.obsQuery(st.stk, loc, stop)
		r.c.Case(line, obs)
		r.c.Count("query:getheaders")
		r.classify(st, loc, stop, obs)
	}
}

func c13Bucket(n int) string {
	switch {
	case n <= 0:
		return "0"
	case n <= 10:
		return "1-10"
	case n <= 12:
		return "11-12"
	case n <= 30:
		return "13-30"
	case n <= 2000:
		return "31-2000"
	}
	return ">2000"
}

func (r *c13Run) classify(st *c13Store, loc []int, stop int, obs string) {
	c := r.c
	in := func(l []int, x int) bool {
		for _, v := range l {
			if v == x {
				return true
			}
		}
		return false
	}
	kinds := map[string]bool{}
	for _, id := range loc {
		switch {
		case id == 0:
			kinds["zero"] = true
		case in(st.lIDs, id):
			kinds["longest"] = true
		case in(st.sIDs, id):
			kinds["stale"] = true
		case in(st.oIDs, id):
			kinds["orphan"] = true
		default:
			kinds["unknown"] = true
		}
	}
	if len(loc) == 0 {
		c.Count("locator:empty")
	}
	for k := range kinds {
		c.Count("locator:has-" + k)
	}
	if len(kinds) > 1 {
		c.Count("locator:mixed")
	}
	if len(loc) > 0 && !kinds["longest"] {
		c.Count("locator:nothing-on-longest-chain")
	}
	switch {
	case stop == 0:
		c.Count("stop:zero")
	case stop == genesisID:
		c.Count("stop:genesis")
	case in(st.lIDs, stop):
		c.Count("stop:longest")
	case in(st.sIDs, stop):
		c.Count("stop:stale")
	case in(st.oIDs, stop):
		c.Count("stop:orphan")
	default:
		c.Count("stop:unknown")
	}
	switch {
	case strings.HasPrefix(obs, "E:"):
		c.Count("answer:" + strings.Fields(obs)[0])
	case strings.HasPrefix(obs, "H: ") || obs == "H:":
		c.Count("answer:empty")
	case strings.HasPrefix(obs, "H:"):
		c.Count("answer:headers")
	}
	if len(st.lIDs) > 2000 && strings.Contains(obs, "-") {
		f := strings.Fields(obs)[0]
		if p := strings.Split(strings.TrimPrefix(f, "H:"), "-"); len(p) == 2 {
			a, _ := strconv.Atoi(p[0])
			b, _ := strconv.Atoi(p[1])
			if b-a+1 == wire.MaxCFHeadersPerMsg {
				c.Count("answer:exactly-cap")
			}
		}
	}
}

// queries for one store: own locator, structured + random locators x structured + random stops
func (r *c13Run) queries(st *c13Store, nLoc, nStop int, stopEvery int) {
	rng := r.c.Rng
	r.qlog = r.qlog[:0]
	r.emit(st, "st")
	r.emit(st, "loc")
	pick := func(l []int) int { return l[rng.Intn(len(l))] }
	unknown := func() int { return 900000 + rng.Intn(50) }
	var locs [][]int
	// the locator the service itself would send
	own := st.stk.Services.Headers.LatestHeaderLocator()
	var ownIDs []int
	for _, hp := range own {
		if hp != nil {
			ownIDs = append(ownIDs, st.idOfHash(*hp))
		}
	}
	locs = append(locs, ownIDs, nil, []int{genesisID}, []int{unknown()}, []int{0})
	tipID := st.lIDs[len(st.lIDs)-1]
	locs = append(locs, []int{tipID})
	if len(st.lIDs) > 1 {
		locs = append(locs, []int{st.lIDs[len(st.lIDs)-2]}, []int{st.lIDs[1]})
	}
	if len(st.sIDs) > 0 {
		locs = append(locs, []int{pick(st.sIDs)}, []int{pick(st.sIDs), pick(st.lIDs)}, []int{pick(st.lIDs), pick(st.sIDs), unknown()})
	}
	if len(st.oIDs) > 0 {
		locs = append(locs, []int{pick(st.oIDs)}, []int{pick(st.oIDs), pick(st.lIDs)})
	}
	for len(locs) < nLoc {
		k := 1 + rng.Intn(6)
		var l []int
		for i := 0; i < k; i++ {
			switch x := rng.Intn(10); {
			case x < 5:
				l = append(l, pick(st.lIDs))
			case x < 8:
				l = append(l, pick(st.all))
			case x < 9:
				l = append(l, unknown())
			default:
				if len(l) > 0 {
					l = append(l, l[rng.Intn(len(l))]) // duplicate entry
				} else {
					l = append(l, 0)
				}
			}
		}
		locs = append(locs, l)
	}
	var stops []int
	stops = append(stops, 0, genesisID, unknown(), tipID)
	if len(st.sIDs) > 0 {
		stops = append(stops, pick(st.sIDs))
	}
	if len(st.oIDs) > 0 {
		stops = append(stops, pick(st.oIDs))
	}
	if stopEvery > 0 {
		for i := stopEvery; i < len(st.lIDs); i += stopEvery {
			stops = append(stops, st.lIDs[i])
		}
	}
	for len(stops) < nStop {
		if rng.Intn(4) == 0 {
			stops = append(stops, pick(st.all))
		} else {
			stops = append(stops, pick(st.lIDs))
		}
	}
	for _, l := range locs {
		for _, sp := range stops {
			r.emit(st, c13QueryString(l, sp))
		}
		// stops around the start of this locator: the start itself, one behind, one / cap / cap+1 ahead
		best := -1
		for _, id := range l {
			for h, lid := range st.lIDs {
				if lid == id && h > best {
					best = h
				}
			}
		}
		if best >= 0 {
			for _, d := range []int{-1, 0, 1, 2, wire.MaxCFHeadersPerMsg - 1, wire.MaxCFHeadersPerMsg, wire.MaxCFHeadersPerMsg + 1} {
				if h := best + d; h >= 0 && h < len(st.lIDs) {
					r.emit(st, c13QueryString(l, st.lIDs[h]))
				}
			}
		}
	}
}


// retained emits n "answers stay stable" sequences of 2-4 requests drawn from the queries already emitted for
// this store (so: all locator and stop families), preferring requests with non-empty, different answers.
func (r *c13Run) retained(st *c13Store, n int) {
	rng := r.c.Rng
	if len(r.qlog) < 2 {
		return
	}
	for i := 0; i < n; i++ {
		k := 2 + rng.Intn(3)
		if i%2 == 0 {
			k = 2
		}
		seq := make([]string, 0, k)
		for len(seq) < k {
			seq = append(seq, r.qlog[rng.Intn(len(r.qlog))])
		}
		r.emit(st, "r="+strings.Join(seq, "+"))
	}
}

// longLocators: locators of 101..500 entries (the wire allows 500) - longer than any batch size a lookup might
// use - whose longest-chain entries are spread over the whole locator, with stale / orphan / unknown entries
// interleaved; orders: newest first, oldest first, shuffled; the highest longest-chain entry is placed in the
// first, a middle or the last hundred.  Stops: none, unknown, right after the true start, a little below the
// true start (must yield nothing), the tip.
func (r *c13Run) longLocators(st *c13Store, sizes []int) {
	rng := r.c.Rng
	H := len(st.lIDs) - 1
	if H < 30 {
		return
	}
	var other []int
	other = append(other, st.sIDs...)
	other = append(other, st.oIDs...)
	for _, n := range sizes {
		for _, place := range []string{"first", "middle", "last"} {
			for _, order := range []string{"newest", "oldest", "shuffled"} {
				if order != "shuffled" && place != "first" && rng.Intn(2) == 0 {
					continue
				}
				hiH := H - rng.Intn(8)
				// the other longest-chain entries: distinct heights below hiH-20
				pool := rng.Perm(hiH - 20)
				var lows []int
				for _, h := range pool {
					if len(lows) >= n-1 {
						break
					}
					lows = append(lows, h)
				}
				if order == "newest" {
					sort.Sort(sort.Reverse(sort.IntSlice(lows)))
				} else if order == "oldest" {
					sort.Ints(lows)
				}
				loc := make([]int, 0, n)
				for _, h := range lows {
					switch x := rng.Intn(10); {
					case x == 0:
						loc = append(loc, 900000+rng.Intn(50))
					case x == 1 && len(other) > 0:
						loc = append(loc, other[rng.Intn(len(other))])
					default:
						loc = append(loc, st.lIDs[h])
					}
				}
				for len(loc) < n-1 { // short chains: fill with unknown hashes and duplicates
					if rng.Intn(2) == 0 {
						loc = append(loc, 900000+rng.Intn(50))
					} else {
						loc = append(loc, loc[rng.Intn(len(loc))])
					}
				}
				var pos int
				switch place {
				case "first":
					pos = rng.Intn(100)
				case "middle":
					if n <= 200 {
						pos = 100 + rng.Intn(n-100)
					} else {
						pos = 100 + rng.Intn(n-200+1)
					}
				default:
					pos = n - 1 - rng.Intn(100)
					if pos < 100 {
						pos = n - 1
					}
				}
				if order == "newest" && place == "first" {
					pos = 0
				}
				if pos > len(loc) {
					pos = len(loc)
				}
				loc = append(loc[:pos], append([]int{st.lIDs[hiH]}, loc[pos:]...)...)
				stops := []int{0, 900001, st.lIDs[H]}
				if hiH+1 <= H {
					stops = append(stops, st.lIDs[hiH+1])
				}
				stops = append(stops, st.lIDs[hiH-5], st.lIDs[hiH])
				for _, sp := range stops {
					r.emit(st, c13QueryString(loc, sp))
				}
				r.c.Count("locator:long-" + place + "-hundred")
				r.c.Count("locator:long-" + order)
			}
		}
	}
}

func runC13(c *Ctx) error {
	r := &c13Run{c: c, stacks: map[string]*Stack{}, seen: map[string]bool{}}
	defer func() {
		for _, s := range r.stacks {
			s.Close()
		}
	}()
	c.Meta("cap", strconv.Itoa(wire.MaxCFHeadersPerMsg))
	split := func(line string) (string, string, error) {
		i := strings.LastIndex(line, "|")
		if i < 0 {
			return "", "", fmt.Errorf("case line without query: %q", line)
		}
		return strings.TrimRight(strings.TrimSpace(line[:i]), ";"), strings.TrimSpace(line[i+1:]), nil
	}
	if c.Only != "" {
		sl, q, err := split(c.Only)
		if err != nil {
			return err
		}
		st, err := c13Build(r, sl)
		if err != nil {
			return err
		}
		r.emit(st, q)
		return nil
	}
	// corpus lines, grouped by store
	var cur *c13Store
	for _, l := range corpusLines(c, "C13") {
		sl, q, err := split(l)
		if err != nil {
			return err
		}
		if cur == nil || cur.line != sl {
			if cur, err = c13Build(r, sl); err != nil {
				return fmt.Errorf("corpus line %q: %w", l, err)
			}
		}
		r.emit(cur, q)
		c.Count("gen:corpus")
	}
	// tiny stores: every locator of length <= 2 over (stored ids + one unknown) x every stop
	head := (&History{}).Line()
	tiny := []string{
		"",
		";2,1,545259519,1,102,1600000000,0",
		";2,1,545259519,1,102,1600000000,0;3,1,545259519,1,103,1600000001,1;4,3,545259519,1,104,1600000002,2;5,77,545259519,1,105,1600000003,3",
	}
	for _, t := range tiny {
		line := head + t
		st, err := c13Build(r, line)
		if err != nil {
			return err
		}
		r.emit(st, "st")
		r.emit(st, "loc")
		univ := append(append([]int{}, st.all...), 900001, 0)
		var locs [][]int
		locs = append(locs, nil)
		for _, a := range univ {
			locs = append(locs, []int{a})
			for _, b := range univ {
				if a != b {
					locs = append(locs, []int{a, b})
				}
			}
		}
		for _, l := range locs {
			for _, sp := range univ {
				r.emit(st, c13QueryString(l, sp))
			}
		}
		c.Count("gen:tiny-exhaustive")
	}
	// linear stores around the locator's step-doubling boundaries: tip heights 9..14, 17, 18, 26, 27, 40
	lin := []int{9, 10, 11, 12, 13, 14, 17, 18, 26, 27, 40}
	if c.Thorough() {
		for n := 1; n <= 80; n++ {
			lin = append(lin, n)
		}
	}
	for _, n := range lin {
		st, err := c13Build(r, fmt.Sprintf("%s;linear=%d", head, n))
		if err != nil {
			return err
		}
		r.queries(st, 8, 6, 0)
		r.retained(st, 3)
		c.Count("gen:linear-small")
	}
	// random small stores with forks, stale branches (also at locator heights), orphans, duplicates
	n := c.Pick(70, 700)
	for i := 0; i < n; i++ {
		o := GenOpts{N: 2 + c.Rng.Intn(c.Pick(28, 45)), PUnknown: 0.06, PLate: 0.08, PDup: 0.05, PForbidden: 0.1, Positive: true, Deep: i%3 != 0}
		h := GenHistory(c.Rng, o)
		st, err := c13Build(r, h.Line())
		if err != nil {
			return err
		}
		r.queries(st, 14, 9, 0)
		r.retained(st, 4)
		c.Count("gen:random-forked")
		for _, cl := range HistoryClass(h) {
			c.Count("class:" + cl)
		}
	}
	// histories with zero-work headers (any-work theorems: the labelled chain; see the driver)
	for i, m := 0, c.Pick(25, 250); i < m; i++ {
		o := GenOpts{N: 2 + c.Rng.Intn(c.Pick(20, 35)), PUnknown: 0.06, PLate: 0.08, PDup: 0.05, ZeroWork: true, Deep: i%2 == 0}
		h := GenHistory(c.Rng, o)
		st, err := c13Build(r, h.Line())
		if err != nil {
			return err
		}
		r.queries(st, 12, 8, 0)
		r.retained(st, 2)
		c.Count("gen:random-with-zero-work")
	}
	// a linear trunk of 30-60 headers with stale siblings and orphans at the heights the locator visits
	for i, m := 0, c.Pick(6, 40); i < m; i++ {
		trunk := 20 + c.Rng.Intn(45)
		var sb strings.Builder
		fmt.Fprintf(&sb, "%s;linear=%d", head, trunk)
		id := trunk + 10
		for _, back := range []int{0, 1, 5, 10, 11, 13, 17} {
			if back >= trunk || c.Rng.Intn(3) == 0 {
				continue
			}
			// stale sibling of the longest-chain header at height trunk-back (parent id = trunk-back)
			fmt.Fprintf(&sb, ";%s", Sub{ID: id, Prev: trunk - back, Bits: bitsW2, Ver: 1, Merkle: id + 100, TS: uint32(1700000000 + id), Nonce: uint32(id)})
			if c.Rng.Intn(2) == 0 && back > 1 {
				fmt.Fprintf(&sb, ";%s", Sub{ID: id + 1, Prev: id, Bits: bitsW2, Ver: 1, Merkle: id + 101, TS: uint32(1700000001 + id), Nonce: uint32(id + 1)})
			}
			id += 2
		}
		fmt.Fprintf(&sb, ";%s", Sub{ID: id, Prev: 800000 + i, Bits: bitsW2, Ver: 1, Merkle: id + 100, TS: uint32(1700000000 + id), Nonce: uint32(id)})
		st, err := c13Build(r, sb.String())
		if err != nil {
			return err
		}
		r.queries(st, 16, 8, 7)
		r.retained(st, 6)
		c.Count("gen:trunk-with-stale-at-locator-heights")
	}
	// the long store: crosses the cap; a stale sibling pair at a locator height and an orphan on top
	long := c.Pick(2100, 5000)
	{
		var sb strings.Builder
		fmt.Fprintf(&sb, "%s;linear=%d", head, long)
		id := long + 10
		fmt.Fprintf(&sb, ";%s", Sub{ID: id, Prev: long - 10, Bits: bitsW2, Ver: 1, Merkle: id + 100, TS: uint32(1700000000), Nonce: 1})
		fmt.Fprintf(&sb, ";%s", Sub{ID: id + 1, Prev: id, Bits: bitsW2, Ver: 1, Merkle: id + 101, TS: uint32(1700000001), Nonce: 2})
		fmt.Fprintf(&sb, ";%s", Sub{ID: id + 2, Prev: 800900, Bits: bitsW2, Ver: 1, Merkle: id + 102, TS: uint32(1700000002), Nonce: 3})
		st, err := c13Build(r, sb.String())
		if err != nil {
			return err
		}
		r.queries(st, c.Pick(14, 30), 8, 50)
		r.retained(st, c.Pick(12, 60))
		// retained answers of exactly cap headers
		for _, q := range []string{"r=1/0+51/0", "r=1/0+1001/0+/0", "r=/0+101/0+1/2101+2000/0", "r=51/0+1/0+51/0", "r=900001/0+1,2,3/0+100/900002"} {
			r.emit(st, q)
		}
		r.longLocators(st, []int{101, 250, 500})
		c.Count("gen:long-linear")
	}
	// a smaller chain for the locators of 101..500 entries (all sizes), with stale siblings and an orphan
	{
		n := 330
		var sb strings.Builder
		fmt.Fprintf(&sb, "%s;linear=%d", head, n)
		id := n + 10
		for _, at := range []int{40, 150, 151, 300} {
			fmt.Fprintf(&sb, ";%s", Sub{ID: id, Prev: at, Bits: bitsW2, Ver: 1, Merkle: id + 100, TS: uint32(1700000000 + id), Nonce: uint32(id)})
			id++
		}
		fmt.Fprintf(&sb, ";%s", Sub{ID: id, Prev: 800901, Bits: bitsW2, Ver: 1, Merkle: id + 100, TS: uint32(1700000000 + id), Nonce: uint32(id)})
		st, err := c13Build(r, sb.String())
		if err != nil {
			return err
		}
		r.emit(st, "st")
		r.emit(st, "loc")
		sizes := []int{101, 150, 200, 201, 300, 301, 499, 500}
		if c.Thorough() {
			for k := 0; k < 20; k++ {
				sizes = append(sizes, 101+c.Rng.Intn(400))
			}
		}
		r.longLocators(st, sizes)
		c.Count("gen:medium-linear-long-locators")
	}
	// locators around and beyond SQLite's bind-variable limit (SQLITE_MAX_VARIABLE_NUMBER, 32766 by default): mostly
	// unknown hashes, a few longest-chain hashes at known positions (first / middle / last) or none at all
	{
		var sb strings.Builder
		fmt.Fprintf(&sb, "%s;linear=64", head)
		fmt.Fprintf(&sb, ";%s", Sub{ID: 80, Prev: 50, Bits: bitsW2, Ver: 1, Merkle: 180, TS: 1700000080, Nonce: 80})
		fmt.Fprintf(&sb, ";%s", Sub{ID: 81, Prev: 80, Bits: bitsW2, Ver: 1, Merkle: 181, TS: 1700000081, Nonce: 81})
		fmt.Fprintf(&sb, ";%s", Sub{ID: 82, Prev: 800903, Bits: bitsW2, Ver: 1, Merkle: 182, TS: 1700000082, Nonce: 82})
		st, err := c13Build(r, sb.String())
		if err != nil {
			return err
		}
		r.emit(st, "st")
		r.emit(st, "loc")
		const u = 1000000 // first unknown id of the runs
		type fam struct {
			n     int
			which []int // indices into the placements below
			stops []int
		}
		for _, f := range []fam{
			{32766, []int{0, 1, 2, 4}, []int{0}}, {32766, []int{3}, []int{63}},
			{32767, []int{0, 1, 2, 3, 4}, []int{0}}, {32767, []int{1}, []int{63}},
			{32765, []int{1}, []int{0}}, {32768, []int{3}, []int{0}},
			{40001, []int{0, 1, 3, 4}, []int{0}}, {40001, []int{2}, []int{63}},
		} {
			n, half := f.n, f.n/2
			locs := []string{
				fmt.Sprintf("%d*%d", u, n),                                       // all unknown
				fmt.Sprintf("61,%d*%d", u, n-1),                                   // a longest-chain hash first
				fmt.Sprintf("%d*%d,40,%d*%d", u, half, u+half, n-half-1),          // in the middle
				fmt.Sprintf("%d*%d,55", u, n-1),                                   // last
				fmt.Sprintf("30,%d*%d,81,60,%d*%d,12", u, half, u+half, n-half-4), // several, a stale one among them
			}
			for _, i := range f.which {
				for _, sp := range f.stops {
					r.emit(st, fmt.Sprintf("q=%s/%d", locs[i], sp))
					c.Count("locator:around-sql-variable-limit")
				}
			}
		}
		c.Count("gen:over-long-locators")
	}
	// the network dimension: stores on the testnet and regtest genesis (configured as cmd/main.go does); all the
	// stop-hash families (genesis, zero, ahead, behind, stale, orphan, unknown) and the empty / unknown locators
	for _, net := range c13Nets[1:] {
		nh := c13Head(net)
		lines := []string{nh, fmt.Sprintf("%s;linear=1", nh)}
		{
			var sb strings.Builder
			fmt.Fprintf(&sb, "%s;linear=14", nh)
			fmt.Fprintf(&sb, ";%s", Sub{ID: 30, Prev: 9, Bits: bitsW2, Ver: 1, Merkle: 130, TS: 1700000030, Nonce: 30})
			fmt.Fprintf(&sb, ";%s", Sub{ID: 31, Prev: 30, Bits: bitsW2, Ver: 1, Merkle: 131, TS: 1700000031, Nonce: 31})
			fmt.Fprintf(&sb, ";%s", Sub{ID: 32, Prev: 800902, Bits: bitsW2, Ver: 1, Merkle: 132, TS: 1700000032, Nonce: 32})
			lines = append(lines, sb.String())
		}
		for i, m := 0, c.Pick(4, 40); i < m; i++ {
			h := GenHistory(c.Rng, GenOpts{N: 3 + c.Rng.Intn(20), PUnknown: 0.06, PLate: 0.08, PDup: 0.05, PForbidden: 0.1, Positive: true, Deep: i%2 == 0})
			l := h.Line()
			lines = append(lines, nh+l[strings.Index(l, ";f=")+3:])
		}
		for _, l := range lines {
			st, err := c13Build(r, l)
			if err != nil {
				return err
			}
			r.queries(st, 12, 8, 0)
			r.retained(st, 3)
			c.Count("gen:net-" + net.name)
		}
	}
	return nil
}
