//go:build verif

package main

import (
	"fmt"
	"os"
	"os/exec"
	"path/filepath"
	"reflect"
	"sort"
	"strconv"
	"strings"
	"sync"
	"time"

	"github.com/bitcoin-sv/block-headers-service/cli"
	"github.com/bitcoin-sv/block-headers-service/config"
	"github.com/bitcoin-sv/block-headers-service/logging"
	"gopkg.in/yaml.v3"
)

// C20: configuration resolves as environment over file over defaults, for every key.
//
// case inputs (one line, ';' separated so that the shrinker can drop items):
//
//	load;E:<ENVVAR>=<value>;F:<dotted.key>=<value>;Q:<dotted.key>=<value>;A:<how>
//	    E: a process environment variable (the literal variable name, e.g. BHS_DB_ENGINE)
//	    F: a value in the YAML file selected with the config-file option, written in the natural YAML
//	       type of the key (bare bool/int, double-quoted string/duration/enum)
//	    Q: the same, always written as a double-quoted YAML string (weakly typed input)
//	    A: how the file is selected: A:flag (-C <file>, the default when a file item is present),
//	       A:long (--config_file=<file>), A:cwd (a file called config.<ext> in the working directory, no flag:
//	       only config.yaml is the default file), A:env (BHS_CONFIG_FILE=<file>)
//	    X: the extension (= format) of the selected file: yaml (default), yml, json, toml; X:none = no
//	       extension and any other word = that extension with YAML text inside (cmd/main.go at HEAD: viper
//	       refuses an extension it does not know)
//	    N:<stem>  the base name (without extension) of the selected file, default "selected" ("config" in
//	       A:cwd mode): N:config with X:yaml is a file CALLED config.yaml that need not be the default file
//	    P:<where> where the selected file lies and how its path is spelled in the option: abs (default: an
//	       absolute path in another directory), sub (sub/<name>), dotsub (./sub/<name>), dotdot
//	       (sub/../sub/<name>), here (./<name> in the working directory), plain (<name> in the working directory)
//	    C:<dotted.key>=<value>  content of a ./config.yaml in the working directory.  It is the default file:
//	       read when nothing is selected, a decoy when another file is selected (when the selected file IS
//	       ./config.yaml the F:/Q: items are its content and C: items are dropped)
//	    Z:<dotted.path>  the selected file mentions this SECTION or LEAF with no entry (all children commented out:
//	       YAML/JSON null), e.g. Z:db.postgres writes "db:\n  postgres:\n".  A null section or leaf contributes no
//	       value: the environment, else the default, decides (F:/Q: items below a Z: section win: it is then no
//	       longer null)
//	    R:<n>  a repetition tag without meaning: the same sources again in another fresh process (behaviour that
//	       depends on Go's map iteration order differs from run to run)
//	    T:<relative path>=<empty|dir>  something that EXISTS in the working directory of the process (an empty
//	       file or a directory), e.g. at db.sqlite.file_path; the model's file system oracle answers "found"
//	       for exactly these paths
//	    D:<ext>:<dotted.key>=<value>  a DECOY: a sibling of the selected file in the same directory with the
//	       same stem and extension <ext> (json toml yaml yml properties env ini ...) that assigns the key.
//	       Decoys are not the selected file: they must have no effect at all.
//	    obs: "k=v;k=v;...;validate=<verdict>" for every leaf key in table order, or LOAD-ERROR
//	validate;engine=<e>;sqlite=<path>;host=<h>;port=<n>;user=<u>;dbname=<d>;prepared=<0|1>;ppath=<0|1>;stat=<file|dir|missing|notdir|toolong>
//	    optional sqstat=<none|empty|dir|db>: what exists at the (non-empty) db.sqlite.file_path - nothing, an empty
//	    file, a directory, a real SQLite database created by database.Init (schema + genesis header)
//	validate;nil
//	    obs: OK | ERR <class>
//	docdefault;F:<dotted.key>=<value>      (one per key of config.example.yaml: the DOCUMENTED default)
//	    obs: <key>=<default of the default struct> | <key>=<absent>
//
// Every load case runs in a FRESH SUBPROCESS (viper and pflag state are process-global): the harness binary
// re-executes itself as `harness c20child <dir> [-C file]` with exactly the environment of the case.
func init() {
	register("C20", runC20)
	register("c20child", runC20Child)
	registerDump("ConfigKeys", dumpConfigKeys)
}

const c20Version = "development" // what cmd/main.go passes to SetDefaults unless overridden by ldflags

type c20Key struct {
	Key, Type, GoType, Default string
}

// c20Walk enumerates the leaf keys of a config struct type by reflection over the mapstructure tags.
func c20Walk(t reflect.Type, prefix string, f func(key string, path []int, ft reflect.Type), path []int) {
	for t.Kind() == reflect.Ptr {
		t = t.Elem()
	}
	for i := 0; i < t.NumField(); i++ {
		sf := t.Field(i)
		tag := strings.Split(sf.Tag.Get("mapstructure"), ",")[0]
		if tag == "" {
			tag = sf.Name
		}
		if tag == "-" || sf.PkgPath != "" {
			continue
		}
		key := strings.ToLower(tag)
		if prefix != "" {
			key = prefix + "." + key
		}
		ft := sf.Type
		for ft.Kind() == reflect.Ptr {
			ft = ft.Elem()
		}
		p := append(append([]int{}, path...), i)
		if ft.Kind() == reflect.Struct {
			c20Walk(ft, key, f, p)
		} else {
			f(key, p, ft)
		}
	}
}

func c20TypeWord(ft reflect.Type) string {
	if ft == reflect.TypeOf(time.Duration(0)) {
		return "duration"
	}
	switch ft.Kind() {
	case reflect.Bool:
		return "bool"
	case reflect.Int, reflect.Int64:
		return "int"
	case reflect.Uint16:
		return "uint16"
	case reflect.String:
		if ft.PkgPath() != "" {
			return "enum"
		}
		return "string"
	}
	return "other:" + ft.String()
}

// c20Field follows an index path through pointers; ok=false when a pointer on the way is nil.
func c20Field(v reflect.Value, path []int) (reflect.Value, bool) {
	for _, i := range path {
		for v.Kind() == reflect.Ptr {
			if v.IsNil() {
				return v, false
			}
			v = v.Elem()
		}
		v = v.Field(i)
	}
	return v, true
}

func c20Render(v reflect.Value, ok bool) string {
	if !ok {
		return "<nil>"
	}
	return fmt.Sprint(v.Interface())
}

// c20Flat renders the effective values of all leaf keys, in the order of the struct walk.
func c20Flat(cfg *config.AppConfig) []c20Key {
	var out []c20Key
	c20Walk(reflect.TypeOf(config.AppConfig{}), "", func(key string, path []int, ft reflect.Type) {
		v, ok := c20Field(reflect.ValueOf(cfg), path)
		out = append(out, c20Key{Key: key, Type: c20TypeWord(ft), GoType: ft.String(), Default: c20Render(v, ok)})
	}, nil)
	return out
}

func c20Keys() []c20Key {
	// the default of p2p.user_agent_version is the version handed to SetDefaults; render it as the child does
	def := config.GetDefaultAppConfig()
	if def.P2P != nil && def.P2P.UserAgentVersion == config.Version() {
		def.P2P.UserAgentVersion = c20Version
	}
	return c20Flat(def)
}

func coqString(s string) string {
	var b strings.Builder
	b.WriteByte('"')
	for _, r := range []byte(s) {
		if r == '"' {
			b.WriteString(`""`)
		} else {
			b.WriteByte(r)
		}
	}
	b.WriteByte('"')
	return b.String()
}

func dumpConfigKeys() (string, error) {
	var b strings.Builder
	b.WriteString("(* leaf keys of config.AppConfig by reflection over the mapstructure tags: (key, type, default) *)\n")
	b.WriteString("From Coq Require Import String List.\nImport ListNotations.\nOpen Scope string_scope.\n\n")
	b.WriteString("Definition config_keys : list (string * string * string) := [\n")
	ks := c20Keys()
	for i, k := range ks {
		if strings.ContainsAny(k.Key+k.Default, "\n\t") {
			return "", fmt.Errorf("key or default with control characters: %q", k.Key)
		}
		sep := ";"
		if i == len(ks)-1 {
			sep = ""
		}
		fmt.Fprintf(&b, "  (%s, %s, %s)%s\n", coqString(k.Key), coqString(k.Type), coqString(k.Default), sep)
	}
	b.WriteString("].\n")
	return b.String(), nil
}

// ---------------------------------------------------------------------------------------------------
// the child: one real SetDefaults + LoadFlags + Load (+ Validate) in a fresh process

func runC20Child(c *Ctx) error {
	// what the service's main() sees: argv without the harness's own two words
	os.Args = append([]string{os.Args[0]}, os.Args[3:]...)
	res := ""
	func() {
		defer func() {
			if r := recover(); r != nil {
				res = "PANIC " + strings.ReplaceAll(fmt.Sprint(r), "\n", " ")
			}
		}()
		log := logging.GetDefaultLogger()
		if err := config.SetDefaults(c20Version, log); err != nil {
			res = "SETDEFAULTS-ERROR"
			return
		}
		cfg := config.GetDefaultAppConfig()
		if err := cli.LoadFlags(cfg); err != nil {
			res = "FLAGS-ERROR"
			return
		}
		got, _, err := config.Load(cfg)
		if err != nil {
			res = "LOAD-ERROR"
			return
		}
		var parts []string
		for _, k := range c20Flat(got) {
			parts = append(parts, k.Key+"="+k.Default)
		}
		parts = append(parts, "validate="+c20Verdict(got.Validate()))
		res = strings.Join(parts, "\n")
	}()
	return os.WriteFile(filepath.Join(c.Out, "effective.txt"), []byte(res), 0o644)
}

func c20Verdict(err error) string {
	if err == nil {
		return "OK"
	}
	m := err.Error()
	switch {
	case strings.HasPrefix(m, "db: configuration cannot be empty"):
		return "ERR nil-config"
	case strings.Contains(m, "file path cannot be empty"):
		return "ERR prepared-path-empty"
	case strings.Contains(m, "file does not exist"):
		return "ERR prepared-missing"
	case strings.Contains(m, "sqlite configuration cannot be empty"):
		return "ERR sqlite-path-empty"
	case strings.Contains(m, "postgres configuration should be filled"):
		return "ERR postgres-incomplete"
	case strings.Contains(m, "unsupported type"):
		return "ERR unsupported-engine"
	}
	return "ERR other"
}

// ---------------------------------------------------------------------------------------------------

type c20Item struct{ kind, name, val string }

func c20Parse(input string) (head string, items []c20Item) {
	toks := strings.Split(input, ";")
	head = toks[0]
	for _, t := range toks[1:] {
		if t == "" {
			continue
		}
		kind := ""
		if len(t) > 2 && t[1] == ':' && head != "validate" {
			kind, t = t[:1], t[2:]
		}
		name, val, _ := strings.Cut(t, "=")
		items = append(items, c20Item{kind, name, val})
	}
	return
}

type yamlNode struct {
	kids  map[string]*yamlNode
	order []string
	leaf  string
}

func (n *yamlNode) put(path []string, scalar string) {
	if len(path) == 0 {
		n.leaf = scalar
		return
	}
	if n.kids == nil {
		n.kids = map[string]*yamlNode{}
	}
	k, ok := n.kids[path[0]]
	if !ok {
		k = &yamlNode{}
		n.kids[path[0]] = k
		n.order = append(n.order, path[0])
	}
	k.put(path[1:], scalar)
}

func (n *yamlNode) write(b *strings.Builder, indent string) {
	for _, name := range n.order {
		k := n.kids[name]
		if k.kids != nil {
			fmt.Fprintf(b, "%s%s:\n", indent, name)
			k.write(b, indent+"  ")
		} else {
			fmt.Fprintf(b, "%s%s: %s\n", indent, name, k.leaf)
		}
	}
}

func (n *yamlNode) writeJSON(b *strings.Builder, indent string) {
	b.WriteString("{\n")
	for i, name := range n.order {
		k := n.kids[name]
		fmt.Fprintf(b, "%s  %s: ", indent, strconv.Quote(name))
		if k.kids != nil {
			k.writeJSON(b, indent+"  ")
		} else if k.leaf == "" {
			b.WriteString("null")
		} else {
			b.WriteString(k.leaf)
		}
		if i < len(n.order)-1 {
			b.WriteString(",")
		}
		b.WriteString("\n")
	}
	b.WriteString(indent + "}")
}

func (n *yamlNode) writeTOML(b *strings.Builder, path string) {
	for _, name := range n.order {
		if k := n.kids[name]; k.kids == nil {
			fmt.Fprintf(b, "%s = %s\n", name, k.leaf)
		}
	}
	for _, name := range n.order {
		if k := n.kids[name]; k.kids != nil {
			sub := name
			if path != "" {
				sub = path + "." + name
			}
			fmt.Fprintf(b, "\n[%s]\n", sub)
			k.writeTOML(b, sub)
		}
	}
}

// c20FileText renders a key tree in the format that goes with the extension.  flat lists the raw key=value
// pairs for the line-oriented formats.
func c20FileText(ext string, root *yamlNode, flat [][2]string) string {
	var b strings.Builder
	switch ext {
	case "json":
		root.writeJSON(&b, "")
		b.WriteString("\n")
	case "toml":
		root.writeTOML(&b, "")
	case "properties", "props", "prop", "env", "dotenv":
		for _, kv := range flat {
			fmt.Fprintf(&b, "%s=%s\n", kv[0], kv[1])
		}
	case "ini":
		for _, kv := range flat {
			i := strings.LastIndex(kv[0], ".")
			if i < 0 {
				fmt.Fprintf(&b, "%s=%s\n", kv[0], kv[1])
			} else {
				fmt.Fprintf(&b, "[%s]\n%s=%s\n", kv[0][:i], kv[0][i+1:], kv[1])
			}
		}
	default:
		root.write(&b, "")
	}
	return b.String()
}

func c20Scalar(kind, key, val string, types map[string]string) string {
	if kind != "Q" {
		switch types[key] {
		case "bool", "int", "uint16":
			return val
		}
	}
	return strconv.Quote(val)
}

// c20Load runs one load case in a fresh subprocess and returns the observable.
func c20Load(dir string, items []c20Item, types map[string]string) string {
	_ = os.RemoveAll(dir)
	cwd := filepath.Join(dir, "cwd")
	out := filepath.Join(dir, "out")
	for _, d := range []string{cwd, out} {
		if err := os.MkdirAll(d, 0o755); err != nil {
			return "HARNESS-ERROR " + err.Error()
		}
	}
	defer os.RemoveAll(dir)
	env := []string{"PATH=" + os.Getenv("PATH"), "HOME=" + dir, "TMPDIR=" + dir}
	seenE, seenF := map[string]bool{}, map[string]bool{}
	root := &yamlNode{}
	haveFile := false
	how, selExt, selStem, where := "", "", "", ""
	cwdRoot, seenC, haveCwd := &yamlNode{}, map[string]bool{}, false
	var flatSel, touch [][2]string
	type c20Decoy struct {
		root *yamlNode
		flat [][2]string
	}
	decoys, seenD := map[string]*c20Decoy{}, map[string]bool{}
	var decoyOrder []string
	for _, it := range items {
		switch it.kind {
		case "E":
			if seenE[it.name] || strings.ContainsAny(it.name, "=\x00") || strings.ContainsRune(it.val, 0) {
				continue // the first assignment of a variable counts
			}
			seenE[it.name] = true
			env = append(env, it.name+"="+it.val)
		case "F", "Q":
			if seenF[it.name] {
				continue
			}
			seenF[it.name] = true
			root.put(strings.Split(it.name, "."), c20Scalar(it.kind, it.name, it.val, types))
			flatSel = append(flatSel, [2]string{it.name, it.val})
			haveFile = true
		case "A":
			if how == "" {
				how = it.name
			}
		case "X":
			if selExt == "" {
				selExt = it.name
			}
		case "Z":
			if it.name == "" || seenF[it.name] {
				continue
			}
			root.put(strings.Split(it.name, "."), "")
			haveFile = true
		case "T":
			if it.name == "" || filepath.IsAbs(it.name) || strings.Contains(it.name, "..") {
				continue
			}
			touch = append(touch, [2]string{it.name, it.val})
		case "N":
			if selStem == "" && it.name != "" && !strings.ContainsAny(it.name, "/\x00") {
				selStem = it.name
			}
		case "P":
			if where == "" {
				where = it.name
			}
		case "C":
			if seenC[it.name] {
				continue
			}
			seenC[it.name] = true
			cwdRoot.put(strings.Split(it.name, "."), c20Scalar("F", it.name, it.val, types))
			haveCwd = true
		case "D":
			ext, key, ok := strings.Cut(it.name, ":")
			if !ok || ext == "" || strings.ContainsAny(ext, "/.") || seenD[it.name] {
				continue
			}
			seenD[it.name] = true
			d, have := decoys[ext]
			if !have {
				d = &c20Decoy{root: &yamlNode{}}
				decoys[ext] = d
				decoyOrder = append(decoyOrder, ext)
			}
			d.root.put(strings.Split(key, "."), c20Scalar("F", key, it.val, types))
			d.flat = append(d.flat, [2]string{key, it.val})
		}
	}
	args := []string{"c20child", out}
	if selExt == "" {
		selExt = "yaml"
	}
	fdir, stem := filepath.Join(dir, "etc"), "selected"
	if how == "cwd" {
		fdir, stem = cwd, "config"
		where = "here"
	}
	if selStem != "" && how != "cwd" {
		stem = selStem
	}
	base := stem + "." + selExt
	if selExt == "none" {
		base = stem
	}
	spelled := "" // how the path is written in the option
	switch where {
	case "sub":
		fdir, spelled = filepath.Join(cwd, "sub"), "sub/"+base
	case "dotsub":
		fdir, spelled = filepath.Join(cwd, "sub"), "./sub/"+base
	case "dotdot":
		fdir, spelled = filepath.Join(cwd, "sub"), "sub/../sub/"+base
	case "here":
		fdir, spelled = cwd, "./"+base
	case "plain":
		fdir, spelled = cwd, base
	default:
		spelled = filepath.Join(fdir, base)
	}
	if err := os.MkdirAll(fdir, 0o755); err != nil {
		return "HARNESS-ERROR " + err.Error()
	}
	selName := filepath.Join(fdir, base)
	// a ./config.yaml in the working directory (unless the selected file is that very file)
	if cwdDefault := filepath.Join(cwd, "config.yaml"); haveCwd && !(haveFile && selName == cwdDefault) {
		if err := os.WriteFile(cwdDefault, []byte(c20FileText("yaml", cwdRoot, nil)), 0o644); err != nil {
			return "HARNESS-ERROR " + err.Error()
		}
	}
	// the decoys first, so that the selected file wins should a decoy have the very same name
	for _, ext := range decoyOrder {
		name := filepath.Join(fdir, stem+"."+ext)
		if name == selName && haveFile {
			continue
		}
		d := decoys[ext]
		if err := os.WriteFile(name, []byte(c20FileText(ext, d.root, d.flat)), 0o644); err != nil {
			return "HARNESS-ERROR " + err.Error()
		}
	}
	if haveFile {
		switch how {
		case "cwd":
		case "long":
			args = append(args, "--config_file="+spelled)
		case "env":
			env = append(env, "BHS_CONFIG_FILE="+spelled)
		default:
			args = append(args, "-C", spelled)
		}
		if err := os.WriteFile(selName, []byte(c20FileText(selExt, root, flatSel)), 0o644); err != nil {
			return "HARNESS-ERROR " + err.Error()
		}
	}
	for _, t := range touch {
		p := filepath.Join(cwd, t[0])
		if _, err := os.Lstat(p); err == nil {
			continue
		}
		var err error
		if t[1] == "dir" {
			err = os.MkdirAll(p, 0o755)
		} else if err = os.MkdirAll(filepath.Dir(p), 0o755); err == nil {
			err = os.WriteFile(p, nil, 0o644)
		}
		if err != nil {
			return "HARNESS-ERROR " + err.Error()
		}
	}
	exe, err := os.Executable()
	if err != nil {
		return "HARNESS-ERROR " + err.Error()
	}
	cmd := exec.Command(exe, args...)
	cmd.Dir = cwd
	cmd.Env = env
	if o, err := cmd.CombinedOutput(); err != nil {
		tail := string(o)
		if len(tail) > 200 {
			tail = tail[len(tail)-200:]
		}
		return "CHILD-FAILED " + strings.NewReplacer("\n", " ", "\t", " ").Replace(err.Error()+" "+tail)
	}
	eff, err := os.ReadFile(filepath.Join(out, "effective.txt"))
	if err != nil {
		return "CHILD-NO-OUTPUT"
	}
	return strings.NewReplacer("\n", ";", "\t", " ").Replace(string(eff))
}

// c20RealDB is a real SQLite database (schema and genesis header, made by database.Init through the shared
// fixture) for the sqstat=db cases; created once per run, only looked at.
var c20RealDB, c20RealDBErr string

func c20MakeRealDB(dir string) {
	defer func() {
		if r := recover(); r != nil {
			c20RealDBErr = fmt.Sprint(r)
		}
	}()
	st, err := NewStack(StackOpts{Dir: dir})
	if err != nil {
		c20RealDBErr = err.Error()
		return
	}
	p := st.DBPath
	st.Close()
	if fi, err := os.Stat(p); err != nil || fi.Size() == 0 {
		c20RealDBErr = "database file missing or empty after database.Init"
		return
	}
	c20RealDB = p
}

// c20Validate runs DbConfig.Validate in process on the described section.
func c20Validate(dir string, items []c20Item) string {
	_ = os.RemoveAll(dir)
	if err := os.MkdirAll(dir, 0o755); err != nil {
		return "HARNESS-ERROR " + err.Error()
	}
	defer os.RemoveAll(dir)
	var db *config.DbConfig
	nilCfg := false
	d := &config.DbConfig{}
	ppath, stat, sqstat := false, "missing", ""
	for _, it := range items {
		switch it.name {
		case "sqstat":
			sqstat = it.val
		case "nil":
			nilCfg = true
		case "engine":
			d.Engine = config.DbEngine(it.val)
		case "sqlite":
			d.SQLite.FilePath = it.val
		case "host":
			d.Postgres.Host = it.val
		case "port":
			n, _ := strconv.ParseUint(it.val, 10, 16)
			d.Postgres.Port = uint16(n)
		case "user":
			d.Postgres.User = it.val
		case "dbname":
			d.Postgres.DbName = it.val
		case "password":
			d.Postgres.Password = it.val
		case "prepared":
			d.PreparedDb = it.val == "1"
		case "ppath":
			ppath = it.val == "1"
		case "stat":
			stat = it.val
		}
	}
	if ppath {
		reg := filepath.Join(dir, "regular.csv.gz")
		_ = os.WriteFile(reg, []byte("x"), 0o644)
		switch stat {
		case "file":
			d.PreparedDbFilePath = reg
		case "dir":
			d.PreparedDbFilePath = dir
		case "notdir":
			d.PreparedDbFilePath = filepath.Join(reg, "headers.csv.gz") // a path THROUGH a regular file: ENOTDIR
		case "toolong":
			d.PreparedDbFilePath = filepath.Join(dir, strings.Repeat("n", 300)+".csv.gz") // ENAMETOOLONG
		default:
			d.PreparedDbFilePath = filepath.Join(dir, "no-such-file.csv.gz")
		}
	}
	if d.SQLite.FilePath != "" && sqstat != "" {
		switch sqstat {
		case "empty":
			d.SQLite.FilePath = filepath.Join(dir, "empty.db")
			_ = os.WriteFile(d.SQLite.FilePath, nil, 0o644)
		case "dir":
			d.SQLite.FilePath = filepath.Join(dir, "a-directory.db")
			_ = os.MkdirAll(d.SQLite.FilePath, 0o755)
		case "db":
			if c20RealDB == "" {
				return "HARNESS-ERROR no real database: " + c20RealDBErr
			}
			d.SQLite.FilePath = c20RealDB
		default:
			d.SQLite.FilePath = filepath.Join(dir, "no-such.db")
		}
	}
	if !nilCfg {
		db = d
	}
	res := ""
	func() {
		defer func() {
			if r := recover(); r != nil {
				res = "PANIC"
			}
		}()
		res = c20Verdict(db.Validate())
	}()
	return res
}

// ---------------------------------------------------------------------------------------------------
// generator

func c20EnvName(key string) string {
	return "BHS_" + strings.ToUpper(strings.ReplaceAll(key, ".", "_"))
}

// value pools: values of the key's type, in the canonical rendering unless noted
func c20Pool(k c20Key, thorough bool) []string {
	switch k.Type {
	case "bool":
		not := "true"
		if k.Default == "true" {
			not = "false"
		}
		p := []string{not, k.Default}
		if thorough {
			p = append(p, "1", "0", "T", "F", "TRUE", "False", "t", "f")
		}
		return p
	case "int":
		p := []string{"7", "4321"}
		if thorough {
			p = append(p, "0", "-3", "65536", "2147483648", "9223372036854775807", "-9223372036854775808")
		}
		return p
	case "uint16":
		p := []string{"6543", "1"}
		if thorough {
			p = append(p, "0", "65535", "80")
		}
		return p
	case "duration":
		p := []string{"1m30s", "36h0m0s"}
		if thorough {
			p = append(p, "90s", "24h", "45m", "1h1m1s", "0s", "100000h", "61m", "3600s")
			p = append(p, c20DurationSpellings...)
		}
		return p
	case "enum":
		switch k.GoType {
		case "config.DbEngine":
			return []string{"postgres", "mysql", "sqlite"}
		case "config.NetworkType":
			return []string{"testnet", "regtest", "simnet", "mainnet"}
		}
		return []string{"verif-enum-a", "verif-enum-b"}
	}
	if k.Key == "logging.level" { // Load builds the logger: the level must be one zerolog knows
		p := []string{"info", "warn"}
		if thorough {
			p = append(p, "error", "TRACE", "Disabled", "panic", "fatal", "3", "-1")
		}
		return p
	}
	// the '$' values: a loader that expands ${VAR} / $VAR in file text or values is not "the file's value"
	// (HOME and PATH are set in the child's environment, so expansion changes them visibly)
	p := []string{"verif-A", "verif B/with space", "pa$$w0rd$x9", "${HOME}/x-$PATH-%d"}
	if thorough {
		p = append(p, "/abs/path/x.db", "a=b", "#not-a-comment", "true", "123", "null", "~", "x: y", "\"quoted\"", "'single'", "ünïcode", "UPPER lower", " lead", "trail ", "back\\slash", "{brace}", "[1,2]", "@at", "%p", "*star", "&amp", "!bang", "|pipe", ">gt", "`tick`", "-", "- item", "? q", ": c")
	}
	return p
}

// spellings time.ParseDuration accepts beyond <digits><h|m|s>: sub-second units, fractions, signs, the bare 0,
// several segments, the int64 boundaries; the effective value is the Duration's String()
var c20DurationSpellings = []string{"500ms", "1.5h", "2m30.5s", "-5m", "+3s", "1h0.5m", "100us", "250\u00b5s", "250\u03bcs", "7ns",
	"0", "-0", "1500ms", ".5s", "1.s", "1h1h", "0.000001s", "1.5us", "2h45m30.25s", "999999999ns", "1000000000ns", "-1ns",
	"2562047h47m16.854775807s", "-2562047h47m16.854775808s", "1m1ms", "3.000s", "0.5ms", "12h30m"}

// ... and spellings it refuses
var c20DurationIllTyped = []string{"1d", "5 m", "1h-", "1e3s", ".s", "1..5s", "s", "-", "+", "", "1h 30m", "2562047h47m16.854775808s", "1.5", "5M", "1H", "ms5", "3d12h"}

func c20IllTyped(k c20Key) []string {
	switch k.Type {
	case "bool":
		return []string{"maybe", "2"}
	case "int":
		return []string{"abc", "1.5", "9223372036854775808"}
	case "uint16":
		return []string{"65536", "-1", "x"}
	case "duration":
		return append([]string{"abc", "10", "5 parsecs"}, c20DurationIllTyped...)
	}
	if k.Key == "logging.level" {
		return []string{"verbose", "128"}
	}
	return nil
}

func runC20(c *Ctx) error {
	keys := c20Keys()
	types := map[string]string{}
	for _, k := range keys {
		types[k.Key] = k.Type
	}
	c.Meta("config_keys", strconv.Itoa(len(keys)))

	type job struct{ input, class string }
	var jobs []job
	seen := map[string]bool{}
	add := func(class, input string) {
		if seen[input] {
			return
		}
		seen[input] = true
		jobs = append(jobs, job{input, class})
	}

	if c.Only != "" {
		add("only", c.Only)
	} else {
		for _, l := range c20Corpus() {
			add("corpus", l)
		}
		add("defaults", "load")
		th := c.Thorough()
		for _, k := range keys {
			pool := c20Pool(k, th)
			ev := c20EnvName(k.Key)
			fk := "F"
			a, b := pool[0], pool[1]
			// every subset of {env, file}
			add("env-only:"+k.Type, "load;E:"+ev+"="+a)
			add("file-only:"+k.Type, "load;"+fk+":"+k.Key+"="+a)
			add("env+file:"+k.Type, "load;E:"+ev+"="+a+";"+fk+":"+k.Key+"="+b)
			add("env+file:"+k.Type, "load;E:"+ev+"="+b+";"+fk+":"+k.Key+"="+a)
			add("file-quoted:"+k.Type, "load;Q:"+k.Key+"="+b)
			if k.Type == "string" || k.Type == "enum" {
				add("env-empty:"+k.Type, "load;E:"+ev+"=")
				add("env-empty+file:"+k.Type, "load;E:"+ev+"=;F:"+k.Key+"="+a)
				add("file-empty:"+k.Type, "load;F:"+k.Key+"=")
			}
			if th {
				for i, v := range pool {
					w := pool[(i+1)%len(pool)]
					add("env-only:"+k.Type, "load;E:"+ev+"="+v)
					add("file-only:"+k.Type, "load;F:"+k.Key+"="+v)
					add("file-quoted:"+k.Type, "load;Q:"+k.Key+"="+v)
					add("env+file:"+k.Type, "load;E:"+ev+"="+v+";F:"+k.Key+"="+w)
					add("env+file:"+k.Type, "load;E:"+ev+"="+v+";Q:"+k.Key+"="+w+";A:long")
					add("file-cwd:"+k.Type, "load;F:"+k.Key+"="+v+";A:cwd")
				}
				for _, v := range c20IllTyped(k) {
					if v != "" { // an empty variable is not set at all (known finding env-empty-ignored), not an ill-typed value
						add("ill-typed-env:"+k.Type, "load;E:"+ev+"="+v)
					}
					add("ill-typed-file:"+k.Type, "load;Q:"+k.Key+"="+v)
				}
				// near-miss variable names must not reach the key
				add("env-near-miss", "load;E:"+strings.ToLower(ev)+"="+a)
				add("env-near-miss", "load;E:"+strings.TrimPrefix(ev, "BHS_")+"="+a)
				add("env-near-miss", "load;E:BHS_"+strings.ToUpper(k.Key)+"="+a)
			}
		}
		// a few ill-typed and near-miss cases in the quick tier as well
		for i, k := range keys {
			if ill := c20IllTyped(k); len(ill) > 0 && i%4 == 0 {
				add("ill-typed-env:"+k.Type, "load;E:"+c20EnvName(k.Key)+"="+ill[0])
			}
		}
		last := keys[len(keys)-1]
		for _, k := range []c20Key{keys[0], last} {
			add("env-near-miss", "load;E:"+strings.ToLower(c20EnvName(k.Key))+"="+c20Pool(k, false)[0])
		}
		// the example in README.md ("BHS_HISTORY_MAX=300"): not the variable of any key
		add("env-near-miss", "load;E:BHS_HISTORY_MAX=5")
		add("file-cwd", "load;F:"+keys[0].Key+"="+c20Pool(keys[0], false)[0]+";A:cwd")
		add("file-long", "load;F:"+last.Key+"="+c20Pool(last, false)[0]+";A:long")
		// WHICH file is read: the selected file accompanied by same-stem siblings in other formats that give
		// DIFFERENT values to the same key and a value to a key the selected file omits (decoys: no effect at
		// all), for each way of selecting the file; selected files in the other formats and with unusual
		// extensions (.yml; none / unknown: refused at HEAD)
		{
			simple := func(k c20Key) (string, string, string) {
				switch k.Type {
				case "bool":
					not := "true"
					if k.Default == "true" {
						not = "false"
					}
					return not, k.Default, not
				case "int":
					return "7", "4321", "99"
				case "uint16":
					return "6543", "1", "99"
				case "duration":
					return "1m30s", "36h0m0s", "45s"
				case "enum":
					p := c20Pool(k, false)
					return p[0], p[1], p[len(p)-1]
				}
				if k.Key == "logging.level" {
					return "info", "warn", "error"
				}
				return "verif-A", "verif-D", "verif-E"
			}
			var sample []int
			if th {
				for i := range keys {
					sample = append(sample, i)
				}
			} else {
				seenT := map[string]bool{}
				for i, k := range keys { // the first key of every type, and the last key
					if !seenT[k.Type] || i == len(keys)-1 {
						seenT[k.Type] = true
						sample = append(sample, i)
					}
				}
			}
			allExts := []string{"json", "toml", "yaml", "yml", "properties", "env", "ini"}
			for _, ki := range sample {
				k, o := keys[ki], keys[(ki+1)%len(keys)]
				a, b, cval := simple(k)
				ov, _, _ := simple(o)
				ev := c20EnvName(k.Key)
				decoys := func(sel string, exts ...string) string {
					var d []string
					for _, e := range exts {
						if e != sel {
							d = append(d, "D:"+e+":"+k.Key+"="+b, "D:"+e+":"+o.Key+"="+ov)
						}
					}
					return strings.Join(d, ";")
				}
				for _, mode := range []string{"flag", "long", "cwd", "env"} {
					add("decoy-siblings:"+mode, "load;F:"+k.Key+"="+a+";"+decoys("yaml", allExts...)+";A:"+mode)
					if mode == "cwd" {
						continue // the default file is config.yaml and nothing else
					}
					add("decoy-siblings:"+mode, "load;F:"+k.Key+"="+a+";X:yml;"+decoys("yml", "yaml", "json")+";A:"+mode)
					add("decoy-siblings:"+mode, "load;F:"+k.Key+"="+a+";X:json;"+decoys("json", "yaml", "toml", "yml")+";A:"+mode)
					add("decoy-siblings:"+mode, "load;F:"+k.Key+"="+a+";X:toml;"+decoys("toml", "json", "yaml")+";A:"+mode)
				}
				for _, e := range allExts {
					if e != "yaml" {
						add("decoy-single", "load;F:"+k.Key+"="+a+";D:"+e+":"+k.Key+"="+b)
						add("selected-format:"+e, "load;F:"+k.Key+"="+a+";X:"+e)
					}
				}
				add("decoy-siblings+env", "load;E:"+ev+"="+cval+";F:"+k.Key+"="+a+";"+decoys("yaml", "json", "toml", "yml"))
				add("decoy-siblings+env", "load;E:"+c20EnvName(o.Key)+"="+ov+";F:"+k.Key+"="+a+";X:yml;"+decoys("yml", "yaml"))
				// the NAME and PLACE of the selected file: a file called config.yaml (config.yml, Config.yaml,
				// xconfig.yaml) in ANOTHER directory is the selected file, not "the default file"; with and
				// without a different ./config.yaml in the working directory; relative spellings; the working
				// directory's own config.yaml selected explicitly
				cdecoy := "C:" + k.Key + "=" + b + ";C:" + o.Key + "=" + ov
				for _, mode := range []string{"flag", "long", "env"} {
					for _, nm := range [][2]string{{"config", "yaml"}, {"config", "yml"}, {"Config", "yaml"}, {"xconfig", "yaml"}} {
						in := "load;F:" + k.Key + "=" + a + ";N:" + nm[0] + ";X:" + nm[1] + ";A:" + mode
						add("named-config-elsewhere:"+mode, in)
						add("named-config-elsewhere+cwd-default:"+mode, in+";"+cdecoy)
					}
					for _, w := range []string{"sub", "dotsub", "dotdot"} {
						in := "load;F:" + k.Key + "=" + a + ";N:config;P:" + w + ";A:" + mode
						add("named-config-relative:"+mode, in)
						add("named-config-relative+cwd-default:"+mode, in+";"+cdecoy)
					}
					add("cwd-file-explicit:"+mode, "load;F:"+k.Key+"="+a+";N:config;P:here;A:"+mode)
					add("cwd-file-explicit:"+mode, "load;F:"+k.Key+"="+a+";N:config;P:plain;A:"+mode)
					add("cwd-sibling-explicit:"+mode, "load;F:"+k.Key+"="+a+";N:Config;P:here;A:"+mode+";"+cdecoy)
					add("cwd-sibling-explicit:"+mode, "load;F:"+k.Key+"="+a+";N:config;X:yml;P:here;A:"+mode+";"+cdecoy)
					add("selected-elsewhere+cwd-default:"+mode, "load;F:"+k.Key+"="+a+";A:"+mode+";"+cdecoy)
				}
				add("cwd-default-only", "load;"+cdecoy)
				add("cwd-default-only+env", "load;E:"+ev+"="+cval+";"+cdecoy)
				add("cwd-not-default-name+cwd-default", "load;F:"+k.Key+"="+a+";X:yml;A:cwd;"+cdecoy)
				add("decoy-only-cwd", "load;"+decoys("", "json", "toml", "yml")+";A:cwd")
				add("cwd-not-default-name", "load;F:"+k.Key+"="+a+";X:yml;A:cwd")
				for _, e := range []string{"none", "conf", "txt"} {
					add("selected-ext-unknown", "load;F:"+k.Key+"="+a+";X:"+e)
					add("selected-ext-unknown", "load;F:"+k.Key+"="+a+";X:"+e+";D:yaml:"+k.Key+"="+b+";A:long")
				}
			}
		}
		// the documented example file as the selected file (every key in the file), alone and under an env override
		if ex := c20ExampleItems(types); len(ex) > 0 {
			add("example-file", "load;"+strings.Join(ex, ";"))
			add("example-file+env", "load;E:BHS_HTTP_PORT=9999;E:BHS_P2P_BAN_DURATION=2h0m0s;"+strings.Join(ex, ";"))
		}
		// the documented defaults: what config.example.yaml says about each key
		for _, it := range c20ExampleItems(types) {
			add("documented-default", "docdefault;"+it)
		}
		// FOREIGN ENVIRONMENT: only BHS_<KEY> (exactly: upper case, "." -> "_") is the variable of a key.  Variables
		// that merely look like it - the un-prefixed <KEY>, lower/mixed case spellings, BHS<KEY>, BHS__<KEY>,
		// bhs_<key>, BHS_<key>, dotted names - and generic ones (PORT, HOST, TOKEN, DEBUG, CONFIG_FILE ...) carry a
		// DIFFERENT value and must change nothing, with the key otherwise at its default, from the file, from its
		// real variable, from both.
		{
			two := func(k c20Key) (string, string) { // (the key's real value, the foreign value); both non-default
				switch k.Type {
				case "bool":
					not := "true"
					if k.Default == "true" {
						not = "false"
					}
					return k.Default, not // a bool has one non-default value: the foreign one gets it
				case "int":
					return "7", "4321"
				case "uint16":
					return "6543", "1"
				case "duration":
					return "1m30s", "36h0m0s"
				case "enum":
					p := c20Pool(k, false)
					return p[0], p[1]
				}
				if k.Key == "logging.level" {
					return "info", "warn"
				}
				return "verif-A", "foreign-Z"
			}
			mixed := func(u string) string { // HTTP_PORT -> Http_Port
				parts := strings.Split(strings.ToLower(u), "_")
				for i, p := range parts {
					if p != "" {
						parts[i] = strings.ToUpper(p[:1]) + p[1:]
					}
				}
				return strings.Join(parts, "_")
			}
			foreignNames := func(k c20Key) []string {
				u := strings.TrimPrefix(c20EnvName(k.Key), "BHS_")
				l := strings.ToLower(u)
				return []string{u, l, mixed(u), "BHS" + u, "BHS__" + u, "bhs_" + l, "Bhs_" + u, "BHS_" + l, "bhs_" + u,
					"_" + u, u + "_", "BHS_" + strings.ToUpper(k.Key), k.Key, "HEADERS_SERVICE_" + u, "BHS_BHS_" + u}
			}
			var sample []int
			seenT := map[string]bool{}
			for i, k := range keys {
				if th || !seenT[k.Type] || i == len(keys)-1 || k.Key == "http.auth_token" || k.Key == "db.postgres.password" {
					seenT[k.Type] = true
					sample = append(sample, i)
				}
			}
			for _, ki := range sample {
				k := keys[ki]
				a, z := two(k)
				var all []string
				for _, n := range foreignNames(k) {
					all = append(all, "E:"+n+"="+z)
					add("foreign-env:single", "load;E:"+n+"="+z)
					if th {
						add("foreign-env:single+file", "load;F:"+k.Key+"="+a+";E:"+n+"="+z)
					}
				}
				fa := strings.Join(all, ";")
				add("foreign-env:all-names", "load;"+fa)
				add("foreign-env:all-names+file", "load;F:"+k.Key+"="+a+";"+fa)
				add("foreign-env:all-names+real-env", "load;E:"+c20EnvName(k.Key)+"="+a+";"+fa)
				add("foreign-env:all-names+real-env+file", "load;E:"+c20EnvName(k.Key)+"="+a+";Q:"+k.Key+"="+z+";"+fa)
			}
			// every key's un-prefixed variable at once (and the lower-case one), keys at default / all from the file
			var unpref, lower, allF []string
			for _, k := range keys {
				a, z := two(k)
				u := strings.TrimPrefix(c20EnvName(k.Key), "BHS_")
				unpref = append(unpref, "E:"+u+"="+z)
				lower = append(lower, "E:bhs_"+strings.ToLower(u)+"="+z)
				allF = append(allF, "F:"+k.Key+"="+a)
			}
			add("foreign-env:every-key-unprefixed", "load;"+strings.Join(unpref, ";"))
			add("foreign-env:every-key-unprefixed+file", "load;"+strings.Join(allF, ";")+";"+strings.Join(unpref, ";"))
			add("foreign-env:every-key-lower", "load;"+strings.Join(lower, ";"))
			add("foreign-env:every-key-lower+file", "load;"+strings.Join(allF, ";")+";"+strings.Join(lower, ";"))
			generic := "E:PORT=1234;E:HOST=foreign-host;E:TOKEN=foreign-token;E:AUTH_TOKEN=foreign-token;E:DEBUG=true;E:CONFIG_FILE=/nonexistent/foreign.yaml;" +
				"E:LEVEL=error;E:LOG_LEVEL=error;E:ENGINE=postgres;E:PASSWORD=foreign-pw;E:USER=foreign-user;E:ENABLED=true;E:FILE_PATH=/foreign.db;E:BHS=1;E:BHS_=1"
			add("foreign-env:generic", "load;"+generic)
			add("foreign-env:generic+file", "load;F:http.port=7;F:db.postgres.host=verif-A;"+generic)
			add("foreign-env:generic+real-env", "load;E:BHS_HTTP_PORT=7;E:BHS_LOGGING_LEVEL=info;"+generic)
		}
		// BLANK VARIABLES: a BHS_ variable that is present but empty.  (i) it never makes Load fail, (ii) it never
		// changes ANOTHER key - also when it is named like a SECTION (BHS_HTTP, BHS_DB_POSTGRES: no key at all),
		// (iii) for a bool / int / uint16 / duration key the empty text is no value of the type: file or default
		// stay in force.  (For string keys the blank leaf itself is the known finding env-empty-ignored.)
		{
			nd := func(k c20Key) string { // a simple non-default value
				switch k.Type {
				case "bool":
					if k.Default == "true" {
						return "false"
					}
					return "true"
				case "int":
					return "4321"
				case "uint16":
					return "6543"
				case "duration":
					return "1m30s"
				case "enum":
					return c20Pool(k, false)[0]
				}
				if k.Key == "logging.level" {
					return "warn"
				}
				return "verif-A"
			}
			var allF, blankNonString, blankAll []string
			sections := map[string]bool{}
			var sectionOrder []string
			for _, k := range keys {
				allF = append(allF, "F:"+k.Key+"="+nd(k))
				blankAll = append(blankAll, "E:"+c20EnvName(k.Key)+"=")
				if k.Type != "string" && k.Type != "enum" {
					blankNonString = append(blankNonString, "E:"+c20EnvName(k.Key)+"=")
				}
				parts := strings.Split(k.Key, ".")
				for i := 1; i < len(parts); i++ {
					sec := strings.Join(parts[:i], ".")
					if !sections[sec] {
						sections[sec] = true
						sectionOrder = append(sectionOrder, sec)
					}
				}
			}
			fileAll := strings.Join(allF, ";")
			for _, k := range keys {
				if k.Type == "string" || k.Type == "enum" {
					// the leaf itself is the known finding; the OTHER keys must still come from the file
					add("blank-env:string-leaf+all-file", "load;E:"+c20EnvName(k.Key)+"=;"+fileAll)
					continue
				}
				ev := c20EnvName(k.Key)
				add("blank-env:leaf:"+k.Type, "load;E:"+ev+"=")
				add("blank-env:leaf+file:"+k.Type, "load;E:"+ev+"=;F:"+k.Key+"="+nd(k))
				add("blank-env:leaf+quoted-file:"+k.Type, "load;E:"+ev+"=;Q:"+k.Key+"="+nd(k))
				add("blank-env:leaf+all-file:"+k.Type, "load;E:"+ev+"=;"+fileAll)
			}
			add("blank-env:every-non-string-leaf", "load;"+strings.Join(blankNonString, ";"))
			add("blank-env:every-non-string-leaf+all-file", "load;"+strings.Join(blankNonString, ";")+";"+fileAll)
			add("blank-env:every-leaf+all-file", "load;"+strings.Join(blankAll, ";")+";"+fileAll)
			var blankSecs []string
			for _, sec := range sectionOrder {
				sv := c20EnvName(sec)
				blankSecs = append(blankSecs, "E:"+sv+"=")
				add("blank-env:section", "load;E:"+sv+"=")
				add("blank-env:section+all-file", "load;E:"+sv+"=;"+fileAll)
				add("blank-env:section+all-file:long", "load;E:"+sv+"=;"+fileAll+";A:long")
				add("blank-env:section-nonblank+all-file", "load;E:"+sv+"=x;"+fileAll)
				var secF, secE []string
				for _, k := range keys {
					if strings.HasPrefix(k.Key, sec+".") {
						secF = append(secF, "F:"+k.Key+"="+nd(k))
						secE = append(secE, "E:"+c20EnvName(k.Key)+"="+nd(k))
					}
				}
				add("blank-env:section+section-file", "load;E:"+sv+"=;"+strings.Join(secF, ";"))
				add("blank-env:section+section-env", "load;E:"+sv+"=;"+strings.Join(secE, ";"))
			}
			add("blank-env:every-section", "load;"+strings.Join(blankSecs, ";"))
			add("blank-env:every-section+all-file", "load;"+strings.Join(blankSecs, ";")+";"+fileAll)
			add("blank-env:every-section+all-file:cwd", "load;"+strings.Join(blankSecs, ";")+";"+fileAll+";A:cwd")
			add("blank-env:prefix-only", "load;E:BHS_=;E:BHS=;"+fileAll)
		}
		// NULL SECTIONS AND LEAVES in the selected file (a section whose children are all commented out): they
		// contribute no value - the section's keys come from the environment, else the default, and other file
		// entries stay in force.  Every case three times in fresh processes (the old defect depended on map order).
		{
			nd := func(k c20Key) string {
				switch k.Type {
				case "bool":
					if k.Default == "true" {
						return "false"
					}
					return "true"
				case "int":
					return "4321"
				case "uint16":
					return "6543"
				case "duration":
					return "1m30s"
				case "enum":
					return c20Pool(k, false)[0]
				}
				if k.Key == "logging.level" {
					return "warn"
				}
				return "verif-A"
			}
			var secs []string
			seenS := map[string]bool{}
			for _, k := range keys {
				parts := strings.Split(k.Key, ".")
				for i := 1; i < len(parts); i++ {
					if sec := strings.Join(parts[:i], "."); !seenS[sec] {
						seenS[sec] = true
						secs = append(secs, sec)
					}
				}
			}
			reps := c.Pick(3, 6)
			addR := func(class, in string) {
				for r := 1; r <= reps; r++ {
					add(class, fmt.Sprintf("%s;R:%d", in, r))
				}
			}
			var allZ, allE []string
			for _, k := range keys {
				allE = append(allE, "E:"+c20EnvName(k.Key)+"="+nd(k))
			}
			for _, sec := range secs {
				allZ = append(allZ, "Z:"+sec)
				var secE, outF []string
				for _, k := range keys {
					if strings.HasPrefix(k.Key, sec+".") {
						secE = append(secE, "E:"+c20EnvName(k.Key)+"="+nd(k))
					} else if len(outF) < 3 && !strings.HasPrefix(sec, strings.Split(k.Key, ".")[0]) {
						outF = append(outF, "F:"+k.Key+"="+nd(k))
					}
				}
				z := "load;Z:" + sec
				addR("null-section:default", z)
				addR("null-section:section-env", z+";"+strings.Join(secE, ";"))
				addR("null-section:one-env", z+";"+secE[0])
				addR("null-section:one-env", z+";"+secE[len(secE)-1])
				addR("null-section:section-env+other-file", z+";"+strings.Join(secE, ";")+";"+strings.Join(outF, ";"))
				addR("null-section:other-file", z+";"+strings.Join(outF, ";"))
				addR("null-section:section-env:json", z+";"+strings.Join(secE, ";")+";X:json;A:long")
				addR("null-section:section-env:cwd", z+";"+strings.Join(secE, ";")+";A:cwd")
				if i := strings.LastIndex(sec, "."); i > 0 { // nested: a sibling entry of the parent in the file
					for _, k := range keys {
						if strings.HasPrefix(k.Key, sec[:i]+".") && !strings.HasPrefix(k.Key, sec+".") && strings.Count(k.Key, ".") == strings.Count(sec, ".") {
							addR("null-section:nested+parent-entry", z+";F:"+k.Key+"="+nd(k)+";"+strings.Join(secE, ";"))
							break
						}
					}
				}
			}
			// the reported shape: db: {engine: sqlite, postgres: null}, metrics: null
			addR("null-section:reported", "load;F:db.engine=sqlite;Z:db.postgres;Z:metrics;E:BHS_DB_POSTGRES_HOST=verif-A;E:BHS_DB_POSTGRES_PORT=6543;E:BHS_METRICS_ENABLED=true")
			var leafSecs []string // null sections that are not above one another
			for _, sec := range secs {
				top := true
				for _, o := range secs {
					if strings.HasPrefix(o, sec+".") {
						top = false
					}
				}
				if top {
					leafSecs = append(leafSecs, "Z:"+sec)
				}
			}
			addR("null-section:every-section+all-env", "load;"+strings.Join(leafSecs, ";")+";"+strings.Join(allE, ";"))
			addR("null-section:every-section", "load;"+strings.Join(leafSecs, ";"))
			seenT := map[string]bool{}
			for i, k := range keys { // null LEAVES
				if !th && seenT[k.Type] && i != len(keys)-1 {
					continue
				}
				seenT[k.Type] = true
				o := keys[(i+1)%len(keys)]
				addR("null-leaf:default", "load;Z:"+k.Key)
				addR("null-leaf:env", "load;Z:"+k.Key+";E:"+c20EnvName(k.Key)+"="+nd(k))
				addR("null-leaf:env+neighbour-file", "load;Z:"+k.Key+";E:"+c20EnvName(k.Key)+"="+nd(k)+";F:"+o.Key+"="+nd(o))
				addR("null-leaf:neighbour-env", "load;Z:"+k.Key+";E:"+c20EnvName(o.Key)+"="+nd(o))
			}
		}
		// WHAT LOAD REFUSES beyond ill-typed values: a resolved logging.level zerolog.ParseLevel does not know - from the
		// file and from the environment, with the sibling logging keys set from file / environment (they must
		// neither rescue the level nor be lost); valid spellings in any letter case, blank and numeric levels
		{
			invalid := []string{"verbose", "warning", "err", "information", "128", "-129", "1.5", " info", "info ", "debug,info", "off", "all", "none"}
			valid := []string{"WARN", "Info", "ERROR", "trace", "disabled", "panic", "fatal", "127", "-128", "-1", "0", "5"}
			sib := map[string][2]string{"E": {"E:BHS_LOGGING_FORMAT=json;E:BHS_LOGGING_INSTANCE_NAME=verif-A;E:BHS_LOGGING_ORIGIN=false", "env"},
				"F": {"F:logging.format=json;F:logging.instance_name=verif-A;F:logging.origin=false", "file"}}
			for _, v := range invalid {
				add("invalid-level:env", "load;E:BHS_LOGGING_LEVEL="+v)
				add("invalid-level:file", "load;Q:logging.level="+v)
				add("invalid-level:env-over-valid-file", "load;E:BHS_LOGGING_LEVEL="+v+";F:logging.level=info")
				for _, sk := range []string{"E", "F"} {
					add("invalid-level:env+siblings-"+sib[sk][1], "load;E:BHS_LOGGING_LEVEL="+v+";"+sib[sk][0])
					add("invalid-level:file+siblings-"+sib[sk][1], "load;Q:logging.level="+v+";"+sib[sk][0])
				}
			}
			for _, v := range valid {
				add("valid-level:env", "load;E:BHS_LOGGING_LEVEL="+v+";"+sib["F"][0])
				add("valid-level:file", "load;Q:logging.level="+v+";"+sib["E"][0])
				add("valid-level:env-over-invalid-file", "load;E:BHS_LOGGING_LEVEL="+v+";Q:logging.level=verbose")
			}
			add("valid-level:blank-file", "load;F:logging.level=;"+sib["E"][0])
			add("invalid-level:blank-env-over-invalid-file", "load;E:BHS_LOGGING_LEVEL=;Q:logging.level=verbose")
		}
		// duration spellings (quick and thorough): every spelling through the environment, the file (typed) and the
		// file (quoted), and under an environment-over-file pair of two different spellings
		for _, k := range keys {
			if k.Type != "duration" {
				continue
			}
			ev := c20EnvName(k.Key)
			for i, v := range c20DurationSpellings {
				w := c20DurationSpellings[(i+1)%len(c20DurationSpellings)]
				add("duration-spelling:env", "load;E:"+ev+"="+v)
				add("duration-spelling:file", "load;F:"+k.Key+"="+v)
				add("duration-spelling:env+file", "load;E:"+ev+"="+v+";Q:"+k.Key+"="+w)
			}
			for _, v := range c20DurationIllTyped {
				if v != "" { // an empty variable is not set (known finding); an empty file value is tried below
					add("duration-ill-typed:env", "load;E:"+ev+"="+v)
				}
				add("duration-ill-typed:file", "load;Q:"+k.Key+"="+v)
			}
		}
		// CROSS-KEY: the effective value of a key must not depend on the value of ANOTHER key.  For every value of
		// the mode-like keys (logging.level over all zerolog levels, logging.format, every bool key both ways,
		// db.engine, p2p.chain_net_type), set from the environment and from the file, the ALL-KEYS matrix: every
		// other key from the environment, every other key from the file, every other key at its default - the
		// observable holds every key's effective value.  Plus key x mode pairs: every string/enum key (tokens,
		// passwords, paths, names) under every log level (quick), every key under every mode (thorough).
		{
			val := func(k c20Key, i int) string { // simple non-default values of the key's type
				switch k.Type {
				case "bool":
					if (k.Default == "true") == (i%2 == 0) {
						return "false"
					}
					return "true"
				case "int":
					return []string{"7", "4321"}[i%2]
				case "uint16":
					return []string{"6543", "1"}[i%2]
				case "duration":
					return []string{"1m30s", "36h0m0s"}[i%2]
				case "enum":
					p := c20Pool(k, false)
					return p[i%2]
				}
				if k.Key == "logging.level" {
					return []string{"info", "warn"}[i%2]
				}
				return []string{"verif-A", "s3cret-B"}[i%2]
			}
			type mode struct{ key, val string }
			var modes []mode
			for _, k := range keys {
				switch {
				case k.Key == "logging.level":
					for _, v := range []string{"trace", "debug", "info", "warn", "error", "fatal", "panic", "disabled", "TRACE", "-1", "0", "7"} {
						modes = append(modes, mode{k.Key, v})
					}
				case k.Key == "logging.format":
					modes = append(modes, mode{k.Key, "console"}, mode{k.Key, "json"}, mode{k.Key, "text"})
				case k.Type == "bool":
					modes = append(modes, mode{k.Key, "true"}, mode{k.Key, "false"})
				case k.Type == "enum":
					for _, v := range c20Pool(k, false) {
						modes = append(modes, mode{k.Key, v})
					}
				}
			}
			c.Meta("cross_key_modes", strconv.Itoa(len(modes)))
			for mi, m := range modes {
				for si, src := range []string{"E", "F"} {
					mitem := "F:" + m.key + "=" + m.val
					if src == "E" {
						mitem = "E:" + c20EnvName(m.key) + "=" + m.val
					}
					var allE, allF []string
					for _, k := range keys {
						if k.Key == m.key {
							continue
						}
						allE = append(allE, "E:"+c20EnvName(k.Key)+"="+val(k, mi+si))
						allF = append(allF, "F:"+k.Key+"="+val(k, mi+si+1))
					}
					add("cross-key:all-default", "load;"+mitem)
					add("cross-key:all-env", "load;"+mitem+";"+strings.Join(allE, ";"))
					add("cross-key:all-file", "load;"+mitem+";"+strings.Join(allF, ";"))
					if th {
						add("cross-key:all-env+file", "load;"+mitem+";"+strings.Join(allE, ";")+";"+strings.Join(allF, ";"))
					}
					for ki, k := range keys {
						if k.Key == m.key {
							continue
						}
						secretLike := k.Type == "string" || k.Type == "enum"
						if th || (m.key == "logging.level" && secretLike && (ki+mi+si)%2 == 0) {
							add("cross-key:pair-env", "load;"+mitem+";E:"+c20EnvName(k.Key)+"="+val(k, ki))
							add("cross-key:pair-file", "load;"+mitem+";F:"+k.Key+"="+val(k, ki+1))
						}
					}
				}
			}
		}
		// several keys at once from random sources
		for i, n := 0, c.Pick(24, 600); i < n; i++ {
			m := 2 + c.Rng.Intn(6)
			if i%6 == 0 {
				m = len(keys)
			}
			perm := c.Rng.Perm(len(keys))[:m]
			sort.Ints(perm)
			var its []string
			for _, ki := range perm {
				k := keys[ki]
				pool := c20Pool(k, th)
				v := pool[c.Rng.Intn(len(pool))]
				switch c.Rng.Intn(4) {
				case 0:
					its = append(its, "E:"+c20EnvName(k.Key)+"="+v)
				case 1:
					its = append(its, "F:"+k.Key+"="+v)
				case 2:
					its = append(its, "Q:"+k.Key+"="+v)
				default:
					w := pool[c.Rng.Intn(len(pool))]
					its = append(its, "E:"+c20EnvName(k.Key)+"="+v, "F:"+k.Key+"="+w)
				}
			}
			add("multi-key", "load;"+strings.Join(its, ";"))
		}
		// database sections through Validate: the full decision lattice ...
		add("validate:nil", "validate;nil")
		engines := []string{"sqlite", "postgres", "", "mysql", "SQLite", "postgresql"}
		for _, e := range engines {
			for _, sq := range []string{"", "./x.db"} {
				for mask := 0; mask < 16; mask++ {
					if e != "postgres" && mask != 0 && mask != 15 && !th {
						continue
					}
					f := func(bit int, v string) string {
						if mask&bit != 0 {
							return v
						}
						return ""
					}
					port := "0"
					if mask&2 != 0 {
						port = "5432"
					}
					base := fmt.Sprintf("validate;engine=%s;sqlite=%s;host=%s;port=%s;user=%s;dbname=%s", e, sq, f(1, "h"), port, f(4, "u"), f(8, "d"))
					add("validate:plain", base)
					preps := []string{";prepared=1;ppath=0", ";prepared=1;ppath=1;stat=file", ";prepared=1;ppath=1;stat=missing"}
					if th || mask == 15 || mask == 0 {
						preps = append(preps, ";prepared=1;ppath=1;stat=dir", ";prepared=1;ppath=1;stat=notdir", ";prepared=1;ppath=1;stat=toolong",
							";prepared=0;ppath=1;stat=missing", ";prepared=0;ppath=0")
					}
					if th || mask == 15 || mask == 0 || mask == 7 {
						for _, p := range preps {
							add("validate:prepared", base+p)
						}
					}
				}
			}
		}
		// what exists at db.sqlite.file_path x what exists at the prepared path x prepared x engine: the verdict
		// must not depend on the former
		for _, e := range []string{"sqlite", "postgres", "mysql", ""} {
			for _, sq := range []string{"none", "empty", "dir", "db"} {
				for _, prep := range []string{"prepared=0;ppath=1;stat=missing", "prepared=0;ppath=0", "prepared=1;ppath=0", "prepared=1;ppath=1;stat=missing",
					"prepared=1;ppath=1;stat=file", "prepared=1;ppath=1;stat=dir", "prepared=1;ppath=1;stat=notdir"} {
					add("validate:sqlite-path-exists:"+sq, "validate;engine="+e+";sqlite=./data/blockheaders.db;sqstat="+sq+";host=h;port=5432;user=u;dbname=d;"+prep)
				}
			}
		}
		// ... the same through a whole start-up: something exists at db.sqlite.file_path (default path, a path from
		// the file, a path from the environment), the prepared file is missing / its path empty / it exists
		for _, sqp := range []string{"", "F:db.sqlite.file_path=my/headers.db", "E:BHS_DB_SQLITE_FILE_PATH=envdir/x.db"} {
			tp := "data/blockheaders.db"
			if sqp != "" {
				tp = sqp[strings.Index(sqp, "=")+1:]
			}
			for _, kind := range []string{"empty", "dir"} {
				for _, prep := range []string{"F:db.prepared_db=true", "E:BHS_DB_PREPARED_DB=true", "F:db.prepared_db=true;F:db.prepared_db_file_path=",
					"F:db.prepared_db=true;F:db.prepared_db_file_path=imp/h.csv.gz;T:imp/h.csv.gz=empty", "F:db.prepared_db=false", "F:db.prepared_db=true;F:db.engine=postgres"} {
					in := "load;" + prep
					if sqp != "" {
						in += ";" + sqp
					}
					add("load:sqlite-path-exists:"+kind, in+";T:"+tp+"="+kind)
				}
			}
		}
		// ... and random sections
		for i, n := 0, c.Pick(100, 3000); i < n; i++ {
			pick := func(vs ...string) string { return vs[c.Rng.Intn(len(vs))] }
			in := "validate;engine=" + pick("sqlite", "postgres", "postgres", "sqlite", "", "oracle") +
				";sqlite=" + pick("", "a.db", "/x/y.db") + ";host=" + pick("", "localhost", "db") + ";port=" + pick("0", "1", "5432", "65535") +
				";user=" + pick("", "u") + ";dbname=" + pick("", "bhs") + ";password=" + pick("", "p") +
				";prepared=" + pick("0", "1") + ";ppath=" + pick("0", "1", "1") + ";stat=" + pick("file", "dir", "missing", "missing", "notdir", "toolong")
			add("validate:random", in)
		}
	}

	for _, j := range jobs {
		if strings.HasPrefix(j.input, "validate;") && strings.Contains(j.input, "sqstat=db") {
			d := c.TmpDir("c20realdb")
			if abs, err := filepath.Abs(d); err == nil {
				d = abs
			}
			c20MakeRealDB(d)
			break
		}
	}
	// run: load cases in parallel subprocesses, validate cases in process
	obs := make([]string, len(jobs))
	var wg sync.WaitGroup
	sem := make(chan struct{}, 16)
	base := c.TmpDir("c20")
	if abs, err := filepath.Abs(base); err == nil {
		base = abs
	}
	t0 := time.Now()
	nsub := 0
	for i, j := range jobs {
		head, items := c20Parse(j.input)
		dir := filepath.Join(base, fmt.Sprintf("j%06d", i))
		switch head {
		case "load":
			nsub++
			wg.Add(1)
			sem <- struct{}{}
			go func(i int) {
				defer wg.Done()
				defer func() { <-sem }()
				obs[i] = c20Load(dir, items, types)
			}(i)
		case "validate":
			obs[i] = c20Validate(dir, items)
		case "docdefault":
			obs[i] = "BAD-INPUT"
			if len(items) > 0 {
				obs[i] = items[0].name + "=<absent>"
				for _, k := range keys {
					if k.Key == items[0].name {
						obs[i] = k.Key + "=" + k.Default
					}
				}
			}
		default:
			obs[i] = "BAD-INPUT"
		}
	}
	wg.Wait()
	c.Meta("subprocess_runs", strconv.Itoa(nsub))
	c.Meta("subprocess_wall_s", fmt.Sprintf("%.1f", time.Since(t0).Seconds()))
	for i, j := range jobs {
		c.Case(j.input, obs[i])
		c.Count(j.class)
	}
	return nil
}

func c20Corpus() []string {
	var out []string
	files, _ := filepath.Glob("/verif/corpus/C20/*.txt")
	sort.Strings(files)
	for _, f := range files {
		b, err := os.ReadFile(f)
		if err != nil {
			continue
		}
		for _, l := range strings.Split(string(b), "\n") {
			l = strings.TrimRight(l, "\r")
			if l == "" || strings.HasPrefix(l, "#") {
				continue
			}
			out = append(out, l)
		}
	}
	return out
}

// c20ExampleItems flattens config.example.yaml of the working tree into F: items (Q: for values whose YAML
// type is a string although the key is numeric/bool).
func c20ExampleItems(types map[string]string) []string {
	root := os.Getenv("VERIF_REPO")
	if root == "" {
		root = "/repo"
	}
	b, err := os.ReadFile(filepath.Join(root, "config.example.yaml"))
	if err != nil {
		return nil
	}
	var doc map[string]interface{}
	if err := yaml.Unmarshal(b, &doc); err != nil {
		return nil
	}
	var out []string
	var walk func(prefix string, m map[string]interface{})
	walk = func(prefix string, m map[string]interface{}) {
		names := make([]string, 0, len(m))
		for k := range m {
			names = append(names, k)
		}
		sort.Strings(names)
		for _, name := range names {
			key := strings.ToLower(name)
			if prefix != "" {
				key = prefix + "." + key
			}
			switch v := m[name].(type) {
			case map[string]interface{}:
				walk(key, v)
			case string:
				if strings.ContainsAny(v, ";\n\t") {
					continue
				}
				switch types[key] {
				case "bool", "int", "uint16":
					out = append(out, "Q:"+key+"="+v)
				default:
					out = append(out, "F:"+key+"="+v)
				}
			default:
				out = append(out, "F:"+key+"="+fmt.Sprint(v))
			}
		}
	}
	walk("", doc)
	return out
}
