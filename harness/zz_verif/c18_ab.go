//go:build verif

package main

// C18 "ab" cases: the address manager's bookkeeping alone.  A real addrmgr.AddrManager is driven by a script of
// AddAddresses / Good / BanAddress / GetAddress calls; after every call its counters, what its tables really hold
// and the new-bucket reference count of every scripted address are read through the add-only hooks
// (harness/transports/p2p/addrmgr/zz_verif_c18b.go) and compared with the extracted model AddrBook.step.
//
// case:   ab;<op>;<op>;...
//   A<k>.<s><m>  AddAddresses([address k], source s)    address k = 45.(10+k).1.1:8333, source s = 46.(10+s).1.1
//                m is REALISED and part of the case: '+' the call put the address into one more new bucket
//                (the bucket hash and updateAddress's 1-in-2N lottery are the manager's own), '-' it did not
//   O<k>.<s><m>  the same with a time stamp of 40 days ago (gossip about a node nobody has seen for a month)
//   G<k>         Good(address k)           B<k>   BanAddress(key of address k)
//   Q            GetAddress() under a 500 ms deadline
// obs:    per op  <nTried>,<nNew>,<in tried table>,<in new buckets>,<index>/<refs of address 1..K, -1 unknown>
//         (Q: prefixed by some: / nil: / BLOCKED:), ';'-joined.  LOCKED = the manager's mutex is held.

import (
	"fmt"
	"net"
	"strconv"
	"strings"
	"time"

	"github.com/bitcoin-sv/block-headers-service/internal/wire"
	"github.com/bitcoin-sv/block-headers-service/transports/p2p/addrmgr"
	"github.com/rs/zerolog"
)

const c18AbKeys = 6

var c18AbBlocked int

func c18AbAddr(k int) *wire.NetAddress {
	return wire.NewNetAddressIPPort(net.IPv4(45, byte(10+k), 1, 1), 8333, wire.SFNodeNetwork)
}

// c18RunAb returns the case line with the realised marks and the observable
func c18RunAb(ops []string) (line, obs string) {
	lg := zerolog.Nop()
	am := addrmgr.New(func(string) ([]net.IP, error) { return nil, fmt.Errorf("no lookups") }, &lg)
	snap := func() string {
		nt, nn, it, in, idx, ok := am.VerifC18Counts()
		if !ok {
			return "LOCKED"
		}
		refs := make([]string, c18AbKeys)
		for k := 1; k <= c18AbKeys; k++ {
			refs[k-1] = strconv.Itoa(am.VerifC18Refs(addrmgr.NetAddressKey(c18AbAddr(k))))
		}
		return fmt.Sprintf("%d,%d,%d,%d,%d/%s", nt, nn, it, in, idx, strings.Join(refs, ","))
	}
	var outOps, outObs []string
	dead := false
	for _, o := range ops {
		o = strings.TrimRight(o, "+-")
		if o == "" {
			continue
		}
		if dead {
			outOps = append(outOps, o)
			outObs = append(outObs, "SKIPPED")
			continue
		}
		switch o[0] {
		case 'A', 'O':
			f := strings.Split(o[1:], ".")
			if len(f) != 2 {
				return strings.Join(ops, ";"), "BAD-INPUT"
			}
			k, e1 := strconv.Atoi(f[0])
			s, e2 := strconv.Atoi(f[1])
			if e1 != nil || e2 != nil || k < 1 || k > c18AbKeys || s < 0 || s > 200 {
				return strings.Join(ops, ";"), "BAD-INPUT"
			}
			key := addrmgr.NetAddressKey(c18AbAddr(k))
			before := am.VerifC18Refs(key)
			src := wire.NewNetAddressIPPort(net.IPv4(46, byte(10+s), 1, 1), 8333, wire.SFNodeNetwork)
			na := c18AbAddr(k)
			if o[0] == 'O' {
				na.Timestamp = time.Now().Add(-40 * 24 * time.Hour)
			}
			am.AddAddresses([]*wire.NetAddress{na}, src)
			after := am.VerifC18Refs(key)
			mark := "-"
			if after >= 0 && (before < 0 || after > before) {
				mark = "+"
			}
			outOps = append(outOps, o+mark)
			outObs = append(outObs, snap())
		case 'G', 'B':
			k, err := strconv.Atoi(o[1:])
			if err != nil || k < 1 || k > c18AbKeys {
				return strings.Join(ops, ";"), "BAD-INPUT"
			}
			if o[0] == 'G' {
				am.Good(c18AbAddr(k))
			} else {
				am.BanAddress(addrmgr.NetAddressKey(c18AbAddr(k)))
			}
			outOps = append(outOps, o)
			outObs = append(outObs, snap())
		case 'Q':
			ch := make(chan *addrmgr.KnownAddress, 1)
			go func() { ch <- am.GetAddress() }()
			select {
			case ka := <-ch:
				w := "some:"
				if ka == nil {
					w = "nil:"
				}
				outObs = append(outObs, w+snap())
			case <-time.After(500 * time.Millisecond):
				// GetAddress does not return: it spins under the manager's mutex for the rest of the process
				outObs = append(outObs, "BLOCKED:"+snap())
				dead = true
				c18AbBlocked++
			}
			outOps = append(outOps, o)
		default:
			return strings.Join(ops, ";"), "BAD-INPUT"
		}
	}
	return "ab;" + strings.Join(outOps, ";"), strings.Join(outObs, ";")
}

func c18AbCases(c *Ctx, emit func(ops []string, tag string)) {
	sp := func(s string) []string { return strings.Split(s, ";") }
	for _, s := range []string{
		"Q", "A1.1;Q", "A1.1;G1;Q", "A1.1;B1;Q", "A1.1;G1;B1;Q", "A1.1;G1;B1;Q;A2.1;Q", "A1.1;A2.1;G1;B1;Q;Q;Q;Q",
		"A1.1;A2.2;G1;G2;B1;Q;B2;Q", "B1;A1.1;Q", "A1.1;B1;A1.2;Q", "A1.1;G1;G1;B1;B1;Q", "G1;B1;Q",
		"A1.1;A1.2;A1.3;A1.4;A1.5;A1.6;A1.7;A1.8;B1;Q", "A1.1;A1.2;A1.3;A1.4;G1;A1.5;B1;Q",
		"A1.1;A1.2;A1.3;A2.1;B1;Q;Q;Q", "A1.1;A2.1;A3.1;G1;G2;G3;B1;B2;B3;Q;A4.1;Q",
		"O1.1;Q;Q", "O1.1;O2.2;O3.3;Q;Q;Q", "A1.1;G1;O2.1;O3.1;Q;Q;Q;Q;Q;Q", "O1.1;G1;A2.1;Q;Q;Q;Q;Q;Q", "O1.1;A1.2;Q;Q",
	} {
		emit(sp(s), "fixed")
	}
	for i, n := 0, c.Pick(250, 4000); i < n && c18AbBlocked < 3; i++ {
		var ops []string
		nk := 1 + c.Rng.Intn(c18AbKeys)
		for j, ln := 0, 1+c.Rng.Intn(28); j < ln; j++ {
			k := 1 + c.Rng.Intn(nk)
			switch x := c.Rng.Intn(20); {
			case x < 2:
				ops = append(ops, fmt.Sprintf("O%d.%d", k, 1+c.Rng.Intn(12)))
			case x < 10:
				ops = append(ops, fmt.Sprintf("A%d.%d", k, 1+c.Rng.Intn(12)))
			case x < 14:
				ops = append(ops, fmt.Sprintf("G%d", k))
			case x < 18:
				ops = append(ops, fmt.Sprintf("B%d", k))
			default:
				ops = append(ops, "Q")
			}
		}
		ops = append(ops, "Q")
		emit(ops, "random")
	}
}
