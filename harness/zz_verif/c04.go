//go:build verif

package main

import (
	"bytes"
	"encoding/json"
	"fmt"
	"math/big"
	"net/http"
	"net/url"
	"sort"
	"strconv"
	"strings"

	"github.com/bitcoin-sv/block-headers-service/internal/chaincfg/chainhash"
)

// C04 - chain query endpoints answer as pure functions of the stored header tree.
//
// case input  = <history tokens>;<query>;<query>;...      (";"-separated: the shrinker drops submissions AND queries)
// query tokens start with an upper-case letter:
//    X            raw rows of the headers table (ties the model store to the implementation store)
//    H=<id>       GET /api/v1/chain/header/<hash>
//    S=<id>       GET /api/v1/chain/header/state/<hash>
//    L            GET /api/v1/chain/tip/longest
//    T            GET /api/v1/chain/tip                                   (set: sorted by id)
//    R=<h>/<c>    GET /api/v1/chain/header/byHeight?height=<h>&count=<c>  ("-" = parameter absent, "x" = not a number)
//    A=<a>/<b>    GET /api/v1/chain/header/<a>/<b>/ancestor
//    C=<id>/<id>  POST /api/v1/chain/header/commonAncestor  (JSON list of hashes; "C=" is the empty list)
//    B=<name>     POST /api/v1/chain/header/commonAncestor with a raw body: null | obj | num | bad
//    D            not a query: this batch runs on the stack built with StackOpts.DebugLog (a real logger at the service's
//                 default level, debug) instead of zerolog.Nop() - the log level is a dimension of the tie, the model has none
// a list argument may end in *<n>: the list is repeated cyclically up to n elements (long commonAncestor bodies)
// observable  = one answer per query joined by ";" and a final "pure" / "MODIFIED" (TableDigest("headers")
// before and after the whole batch of reads).
//
// an id that no submission defines maps to a hash that is not stored (unknown hash).
// a hash argument may be <letter><id>: a string DERIVED from the hash of <id> that is never that hash itself, so it must be
// answered exactly like an unknown hash:  u upper case | m mixed case | z all leading zeros stripped | o one leading zero
// stripped | d one digit dropped | w one digit doubled | p zero-padded on the left to 66 | b surrounded by blanks |
// r byte-reversed | x 0x prefix  (when the derivation happens to give the hash itself, its last digit is dropped).

func init() { register("C04", runC04) }

const c04API = "/api/v1/chain"

type c04Env struct {
	s *Stack
	m *Mat
}

func (e *c04Env) hashOf(id int) string {
	if hv, ok := e.m.Hash[id]; ok {
		return hv.String()
	}
	return fakeHash(id).String()
}

func (e *c04Env) idOfHex(hexHash string) int { return e.m.ID(hexHash) }

func (e *c04Env) merkOf(hexHash string) int {
	h, err := chainhash.NewHashFromStr(hexHash)
	if err != nil {
		return -1
	}
	if id, ok := e.m.MerkID[*h]; ok {
		return id
	}
	return -1
}

type c04Hdr struct {
	Hash   string      `json:"hash"`
	Ver    int64       `json:"version"`
	Prev   string      `json:"prevBlockHash"`
	Merkle string      `json:"merkleRoot"`
	TS     int64       `json:"creationTimestamp"`
	Bits   int64       `json:"difficultyTarget"`
	Nonce  int64       `json:"nonce"`
	Work   json.Number `json:"work"`
}

type c04State struct {
	Header c04Hdr      `json:"header"`
	State  string      `json:"state"`
	Cum    json.Number `json:"chainWork"`
	Height int64       `json:"height"`
}

type c04Err struct {
	Code string `json:"code"`
}

func decNum(n json.Number) string {
	s := strings.Trim(n.String(), `"`)
	if b, ok := new(big.Int).SetString(s, 10); ok {
		return b.String()
	}
	return "?" + s
}

// id:prev:ver:merkle:ts:bits:nonce:work
func (e *c04Env) hdrString(h c04Hdr) string {
	return fmt.Sprintf("%d:%d:%d:%d:%d:%d:%d:%s", e.idOfHex(h.Hash), e.idOfHex(h.Prev), h.Ver, e.merkOf(h.Merkle), h.TS, h.Bits, h.Nonce, decNum(h.Work))
}

func (e *c04Env) stateString(st c04State) string {
	return fmt.Sprintf("%s:%s:%s:%d", e.hdrString(st.Header), stLetter(st.State), decNum(st.Cum), st.Height)
}

func strictDecode(body string, v interface{}) error {
	d := json.NewDecoder(bytes.NewReader([]byte(body)))
	d.UseNumber()
	d.DisallowUnknownFields()
	return d.Decode(v)
}

func errString(code int, body string) string {
	var er c04Err
	if err := json.Unmarshal([]byte(body), &er); err != nil || er.Code == "" {
		if strings.TrimSpace(body) == "" {
			return fmt.Sprintf("%d -", code)
		}
		return fmt.Sprintf("%d ?", code)
	}
	return fmt.Sprintf("%d %s", code, er.Code)
}

func (e *c04Env) do(method, target, body string) (code int, out string) {
	defer func() {
		if r := recover(); r != nil {
			code, out = -1, "PANIC"
		}
	}()
	return e.s.Do(method, target, body, nil)
}

func (e *c04Env) one(code int, body string) string {
	if code == -1 {
		return "PANIC"
	}
	if code != http.StatusOK {
		return errString(code, body)
	}
	if strings.TrimSpace(body) == "null" {
		return "200 null"
	}
	var h c04Hdr
	if err := strictDecode(body, &h); err != nil {
		return "200 ?undecodable"
	}
	return "200 " + e.hdrString(h)
}

func (e *c04Env) oneState(code int, body string) string {
	if code == -1 {
		return "PANIC"
	}
	if code != http.StatusOK {
		return errString(code, body)
	}
	var st c04State
	if err := strictDecode(body, &st); err != nil {
		return "200 ?undecodable"
	}
	return "200 " + e.stateString(st)
}

func (e *c04Env) list(code int, body string, sorted bool) string {
	if code == -1 {
		return "PANIC"
	}
	if code != http.StatusOK {
		return errString(code, body)
	}
	var hs []c04Hdr
	if err := strictDecode(body, &hs); err != nil || hs == nil {
		return "200 ?undecodable"
	}
	parts := make([]string, 0, len(hs))
	for _, h := range hs {
		parts = append(parts, e.hdrString(h))
	}
	if sorted {
		sort.Strings(parts)
	}
	return "200 [" + strings.Join(parts, " ") + "]"
}

func (e *c04Env) tipList(code int, body string) string {
	if code == -1 {
		return "PANIC"
	}
	if code != http.StatusOK {
		return errString(code, body)
	}
	var ts []c04State
	if err := strictDecode(body, &ts); err != nil || ts == nil {
		return "200 ?undecodable"
	}
	type kv struct {
		id int
		s  string
	}
	parts := make([]kv, 0, len(ts))
	for _, t := range ts {
		parts = append(parts, kv{e.idOfHex(t.Header.Hash), e.stateString(t)})
	}
	sort.Slice(parts, func(i, j int) bool {
		if parts[i].id != parts[j].id {
			return parts[i].id < parts[j].id
		}
		return parts[i].s < parts[j].s
	})
	ss := make([]string, len(parts))
	for i := range parts {
		ss[i] = parts[i].s
	}
	return "200 [" + strings.Join(ss, " ") + "]"
}

// hashVariant derives from a hash a string that is not that hash.
func hashVariant(h string, kind byte) (string, error) {
	var v string
	switch kind {
	case 'u':
		v = strings.ToUpper(h)
	case 'm':
		b := []byte(h)
		n := 0
		for i, c := range b {
			if c >= 'a' && c <= 'f' {
				if n%2 == 0 {
					b[i] = c - 'a' + 'A'
				}
				n++
			}
		}
		v = string(b)
	case 'z':
		v = strings.TrimLeft(h, "0")
	case 'o':
		v = strings.TrimPrefix(h, "0")
	case 'd':
		v = h[:len(h)/2] + h[len(h)/2+1:]
	case 'w':
		v = h[:len(h)/2] + h[len(h)/2:len(h)/2+1] + h[len(h)/2:]
	case 'p':
		v = "00" + h
	case 'b':
		v = " " + h + " "
	case 'r':
		b := []byte(h)
		for i := 0; i+1 < len(b); i += 2 {
			j := len(b) - 2 - i
			if i >= j {
				break
			}
			b[i], b[i+1], b[j], b[j+1] = b[j], b[j+1], b[i], b[i+1]
		}
		v = string(b)
	case 'x':
		v = "0x" + h
	default:
		return "", fmt.Errorf("unknown hash variant %q", string(kind))
	}
	if v == h {
		v = h[:len(h)-1]
	}
	return v, nil
}

// hashArg maps a hash argument token (<id> or <letter><id>) to the string sent to the service.
func (e *c04Env) hashArg(tok string) (string, error) {
	if tok == "" {
		return "", fmt.Errorf("empty hash argument")
	}
	kind := byte(0)
	if tok[0] >= 'a' && tok[0] <= 'z' {
		kind, tok = tok[0], tok[1:]
	}
	id, err := strconv.Atoi(tok)
	if err != nil {
		return "", fmt.Errorf("bad id %q", tok)
	}
	h := e.hashOf(id)
	if kind == 0 {
		return h, nil
	}
	return hashVariant(h, kind)
}

func (e *c04Env) hashArgs(arg string) ([]string, error) {
	if arg == "" {
		return nil, nil
	}
	n := -1
	if i := strings.IndexByte(arg, '*'); i >= 0 {
		v, err := strconv.Atoi(arg[i+1:])
		if err != nil || v < 0 || v > 100000 {
			return nil, fmt.Errorf("bad repeat count in %q", arg)
		}
		n, arg = v, arg[:i]
	}
	var out []string
	for _, x := range strings.Split(arg, "/") {
		h, err := e.hashArg(x)
		if err != nil {
			return nil, err
		}
		out = append(out, h)
	}
	if n >= 0 {
		base := out
		out = make([]string, 0, n)
		for i := 0; i < n; i++ {
			out = append(out, base[i%len(base)])
		}
	}
	return out, nil
}

// query runs one query token against the implementation.
func (e *c04Env) query(q string) (string, error) {
	kind, arg := q, ""
	if i := strings.IndexByte(q, '='); i >= 0 {
		kind, arg = q[:i], q[i+1:]
	}
	switch kind {
	case "D":
		return "log=debug", nil
	case "X":
		rows, err := e.s.DumpHeaders()
		if err != nil {
			return "", err
		}
		return "rows " + RowsString(rows, e.m), nil
	case "H", "S":
		h, err := e.hashArg(arg)
		if err != nil {
			return "", fmt.Errorf("bad query %q: %v", q, err)
		}
		if kind == "H" {
			code, body := e.do("GET", c04API+"/header/"+url.PathEscape(h), "")
			return e.one(code, body), nil
		}
		code, body := e.do("GET", c04API+"/header/state/"+url.PathEscape(h), "")
		return e.oneState(code, body), nil
	case "L":
		code, body := e.do("GET", c04API+"/tip/longest", "")
		if code == http.StatusOK {
			var st c04State
			if err := strictDecode(body, &st); err != nil {
				return "200 ?undecodable", nil
			}
			return "200 " + e.stateString(st), nil
		}
		return e.oneState(code, body), nil
	case "T":
		code, body := e.do("GET", c04API+"/tip", "")
		return e.tipList(code, body), nil
	case "R":
		p := strings.Split(arg, "/")
		if len(p) != 2 {
			return "", fmt.Errorf("bad query %q", q)
		}
		var qs []string
		if p[0] != "-" {
			qs = append(qs, "height="+p[0])
		}
		if p[1] != "-" {
			qs = append(qs, "count="+p[1])
		}
		target := c04API + "/header/byHeight"
		if len(qs) > 0 {
			target += "?" + strings.Join(qs, "&")
		}
		code, body := e.do("GET", target, "")
		return e.list(code, body, false), nil
	case "A":
		hs, err := e.hashArgs(arg)
		if err != nil || len(hs) != 2 {
			return "", fmt.Errorf("bad query %q", q)
		}
		code, body := e.do("GET", c04API+"/header/"+url.PathEscape(hs[0])+"/"+url.PathEscape(hs[1])+"/ancestor", "")
		return e.list(code, body, false), nil
	case "C":
		hs, err := e.hashArgs(arg)
		if err != nil {
			return "", fmt.Errorf("bad query %q", q)
		}
		if hs == nil {
			hs = []string{}
		}
		b, _ := json.Marshal(hs)
		code, body := e.do("POST", c04API+"/header/commonAncestor", string(b))
		return e.one(code, body), nil
	case "B":
		var raw string
		switch arg {
		case "null":
			raw = "null"
		case "obj":
			raw = `{"a":1}`
		case "num":
			raw = "[1,2]"
		case "bad":
			raw = `["abc"`
		default:
			return "", fmt.Errorf("bad query %q", q)
		}
		code, body := e.do("POST", c04API+"/header/commonAncestor", raw)
		return e.one(code, body), nil
	}
	return "", fmt.Errorf("unknown query %q", q)
}

func splitC04(input string) (hist string, queries []string) {
	var ht []string
	for _, tok := range strings.Split(input, ";") {
		t := strings.TrimSpace(tok)
		if t == "" {
			continue
		}
		if t[0] >= 'A' && t[0] <= 'Z' {
			queries = append(queries, t)
		} else {
			ht = append(ht, t)
		}
	}
	return strings.Join(ht, ";"), queries
}

// c04Gen builds the query batches for a materialised history whose rows are stored.
type c04Gen struct {
	c        *Ctx
	stored   []int         // stored ids in rowid order
	height   map[int]int64 // stored id -> height
	state    map[int]string
	prev     map[int]int
	unk      []int // ids that are not stored
	idx      int   // running number of the store (long lists are not sent to every store)
	maxH     int64
	zeroLead map[int]bool // stored ids whose hash starts with a zero digit
}

func newC04Gen(c *Ctx, e *c04Env) (*c04Gen, error) {
	rows, err := e.s.DumpHeaders()
	if err != nil {
		return nil, err
	}
	g := &c04Gen{c: c, height: map[int]int64{}, state: map[int]string{}, prev: map[int]int{}, zeroLead: map[int]bool{}}
	for _, r := range rows {
		id := e.m.ID(r.Hash)
		g.zeroLead[id] = strings.HasPrefix(r.Hash, "0")
		g.stored = append(g.stored, id)
		g.height[id] = r.Height
		g.state[id] = stLetter(r.State)
		g.prev[id] = e.m.ID(r.Prev)
		if r.Height > g.maxH {
			g.maxH = r.Height
		}
	}
	// unknown hashes: a never-mentioned id, and ids that are referenced (as parent / submitted) but not stored
	seen := map[int]bool{}
	for _, id := range g.stored {
		seen[id] = true
	}
	g.unk = append(g.unk, 999)
	seen[999] = true
	var rest []int
	for id := range e.m.Hash {
		if id != 0 && !seen[id] {
			rest = append(rest, id)
		}
	}
	sort.Ints(rest)
	if len(rest) > 1 {
		rest = rest[:1]
	}
	g.unk = append(g.unk, rest...)
	return g, nil
}

func (g *c04Gen) pairClass(a, b int) string {
	ha, oka := g.height[a]
	hb, okb := g.height[b]
	switch {
	case !oka || !okb:
		return "anc:unknown-hash"
	case a == b:
		return "anc:same-header"
	case ha == hb:
		return "anc:equal-height-different"
	case hb > ha:
		return "anc:ancestor-higher"
	}
	// walk the links
	x := a
	for i := 0; i <= len(g.stored); i++ {
		if x == b {
			if g.state[a] == "O" {
				return "anc:descends-orphan"
			}
			return "anc:descends"
		}
		p, ok := g.prev[x]
		if !ok {
			break
		}
		if _, st := g.height[p]; !st {
			break
		}
		x = p
	}
	return "anc:other-branch-lower"
}

func (g *c04Gen) batches() [][]string {
	c := g.c
	var out [][]string
	chunk := func(kind string, qs []string, n int) {
		for i := 0; i < len(qs); i += n {
			j := i + n
			if j > len(qs) {
				j = len(qs)
			}
			out = append(out, qs[i:j])
		}
		c.Hist["queries:"+kind] += len(qs)
	}
	all := append(append([]int{}, g.stored...), g.unk...)

	// rows, tips, lookups
	qs := []string{"X", "T", "L"}
	for _, id := range all {
		qs = append(qs, fmt.Sprintf("H=%d", id), fmt.Sprintf("S=%d", id))
	}
	chunk("lookup", qs, 80)

	// strings DERIVED from stored hashes (never sampled away): every hash parameter and body element must treat them as unknown.
	// genesis always starts with zero digits; one more stored header at random, plus every stored hash that starts with a zero.
	qs = nil
	kinds := "umzodwpbrx"
	other := g.stored[c.Rng.Intn(len(g.stored))]
	partner := g.stored[c.Rng.Intn(len(g.stored))]
	for i := 0; i < len(kinds); i++ {
		k := string(kinds[i])
		qs = append(qs, fmt.Sprintf("H=%s%d", k, genesisID), fmt.Sprintf("H=%s%d", k, other))
		if i%3 == 0 {
			qs = append(qs, fmt.Sprintf("S=%s%d", k, genesisID))
		} else {
			qs = append(qs, fmt.Sprintf("S=%s%d", k, other))
		}
		// ancestors: the derived string in either position, against itself and against another stored header
		switch i % 3 {
		case 0:
			qs = append(qs, fmt.Sprintf("A=%s%d/%d", k, other, genesisID))
		case 1:
			qs = append(qs, fmt.Sprintf("A=%d/%s%d", other, k, genesisID))
		default:
			qs = append(qs, fmt.Sprintf("A=%d/%s%d", other, k, other))
		}
		// common ancestor: alone, first, last
		switch i % 3 {
		case 0:
			qs = append(qs, fmt.Sprintf("C=%s%d", k, other))
		case 1:
			qs = append(qs, fmt.Sprintf("C=%s%d/%d", k, other, partner))
		default:
			qs = append(qs, fmt.Sprintf("C=%d/%s%d", partner, k, genesisID))
		}
		c.Count("hash-variant:" + k)
	}
	for _, id := range g.stored {
		if id != genesisID && g.zeroLead[id] {
			qs = append(qs, fmt.Sprintf("H=z%d", id), fmt.Sprintf("S=o%d", id), fmt.Sprintf("A=z%d/%d", id, genesisID), fmt.Sprintf("C=%d/o%d", partner, id))
			c.Count("hash-variant:stored-leading-zero")
		}
	}
	chunk("derived-hash", qs, 80)

	// height windows around the data
	qs = nil
	counts := []string{"-", "0", "1", "2", "3", strconv.FormatInt(g.maxH+2, 10), "-1", "x"}
	for h := int64(-2); h <= g.maxH+2; h++ {
		for _, cn := range counts {
			qs = append(qs, fmt.Sprintf("R=%d/%s", h, cn))
		}
	}
	qs = append(qs, "R=-/-", "R=x/2", "R=-/3", "R=0/1000000", "R=-5/7", fmt.Sprintf("R=%d/-", g.maxH+100))
	if lim := c.Pick(60, 400); len(qs) > lim {
		c.Rng.Shuffle(len(qs), func(i, j int) { qs[i], qs[j] = qs[j], qs[i] })
		qs = qs[:lim]
	}
	chunk("window", qs, 80)

	// windows whose height, count or height+count-1 lies beyond 31 / 32 / 63 bits (never sampled away):
	// a store that narrows the bounds (int32) or an arithmetic that wraps shows up here
	qs = nil
	bigs := []string{"2147483647", "2147483648", "4294967295", "4294967296", "4294967297", "9223372036854775807",
		"9223372036854775808", "-2147483648", "-2147483649", "-4294967296", "-4294967295", "-9223372036854775808", "-9223372036854775809"}
	smallH := []int64{0, 1, 2, g.maxH}
	for _, k := range smallH {
		bigs = append(bigs, strconv.FormatInt(4294967296+k, 10), strconv.FormatInt(-4294967296+k, 10),
			strconv.FormatInt(2147483648+k, 10), strconv.FormatInt(8589934592+k, 10))
	}
	seenQ := map[string]bool{}
	add := func(q string) {
		if !seenQ[q] {
			seenQ[q] = true
			qs = append(qs, q)
		}
	}
	for _, b := range bigs {
		for _, cn := range []string{"-", "1", "2", "3", "-1"} {
			add("R=" + b + "/" + cn) // big height, small count
		}
		for _, k := range smallH {
			add(fmt.Sprintf("R=%d/%s", k, b)) // small height, big count
		}
		add("R=-1/" + b)
		add("R=" + b + "/" + b)
	}
	// ends that land exactly on small heights after a 2^32 / 2^64 wrap, and sums around the 64-bit limits
	for _, k := range smallH {
		add(fmt.Sprintf("R=%d/%d", 4294967296+k, -4294967296+2))
		add(fmt.Sprintf("R=%d/%d", -4294967296+k, 4294967296+2))
		add(fmt.Sprintf("R=%d/9223372036854775807", k+1))
		add(fmt.Sprintf("R=%d/9223372036854775806", k+1))
		add(fmt.Sprintf("R=%d/%d", k, 9223372036854775807-k))
		add(fmt.Sprintf("R=-9223372036854775808/%d", -k-1))
		add(fmt.Sprintf("R=9223372036854775807/%d", k+2))
	}
	add("R=-9223372036854775808/9223372036854775807")
	add("R=-9223372036854775808/-9223372036854775808")
	add("R=01/2")
	add("R=-0/2")
	add("R=1_0/2")
	chunk("window-big", qs, 80)

	// ancestors: all ordered pairs (bounded)
	qs = nil
	type pr struct{ a, b int }
	var pairs []pr
	for _, a := range g.stored {
		for _, b := range g.stored {
			pairs = append(pairs, pr{a, b})
		}
	}
	if lim := c.Pick(150, 900); len(pairs) > lim {
		c.Rng.Shuffle(len(pairs), func(i, j int) { pairs[i], pairs[j] = pairs[j], pairs[i] })
		pairs = pairs[:lim]
	}
	for _, u := range g.unk {
		x := g.stored[c.Rng.Intn(len(g.stored))]
		pairs = append(pairs, pr{u, x}, pr{x, u})
	}
	pairs = append(pairs, pr{g.unk[0], g.unk[len(g.unk)-1]})
	for _, p := range pairs {
		qs = append(qs, fmt.Sprintf("A=%d/%d", p.a, p.b))
		c.Count(g.pairClass(p.a, p.b))
	}
	chunk("ancestors", qs, 50)

	// common ancestor: the empty list, raw bodies, all singletons, sets (lists) up to 4
	qs = []string{"C=", "B=null", "B=obj", "B=num", "B=bad"}
	var lists [][]int
	for _, a := range all {
		lists = append(lists, []int{a})
	}
	for _, a := range g.stored {
		for _, b := range g.stored {
			lists = append(lists, []int{a, b}) // ordered, incl. the duplicate [a,a]
		}
	}
	var big [][]int
	n := len(g.stored)
	for i := 0; i < n; i++ {
		for j := i + 1; j < n; j++ {
			for k := j + 1; k < n; k++ {
				big = append(big, []int{g.stored[i], g.stored[j], g.stored[k]})
				for l := k + 1; l < n && len(big) < 20000; l++ {
					big = append(big, []int{g.stored[i], g.stored[j], g.stored[k], g.stored[l]})
				}
			}
		}
	}
	// a few lists with an unknown hash at different positions
	for _, u := range g.unk {
		x := g.stored[c.Rng.Intn(len(g.stored))]
		y := g.stored[c.Rng.Intn(len(g.stored))]
		big = append(big, []int{u, x}, []int{x, y, u})
	}
	limPairs, limBig := c.Pick(80, 400), c.Pick(60, 400)
	if len(lists) > limPairs {
		c.Rng.Shuffle(len(lists), func(i, j int) { lists[i], lists[j] = lists[j], lists[i] })
		lists = lists[:limPairs]
	}
	if len(big) > limBig {
		c.Rng.Shuffle(len(big), func(i, j int) { big[i], big[j] = big[j], big[i] })
		big = big[:limBig]
	}
	for _, l := range big {
		c.Rng.Shuffle(len(l), func(i, j int) { l[i], l[j] = l[j], l[i] })
	}
	lists = append(lists, big...)
	for _, l := range lists {
		ss := make([]string, len(l))
		minH, unknown, orphan := int64(1<<40), false, false
		for i, id := range l {
			ss[i] = strconv.Itoa(id)
			if h, ok := g.height[id]; ok {
				if h < minH {
					minH = h
				}
				if g.state[id] == "O" {
					orphan = true
				}
			} else {
				unknown = true
			}
		}
		qs = append(qs, "C="+strings.Join(ss, "/"))
		switch {
		case unknown:
			c.Count("ca:unknown-hash")
		case minH == 0:
			c.Count("ca:contains-genesis")
		case orphan:
			c.Count("ca:with-orphan")
		default:
			c.Count(fmt.Sprintf("ca:connected-size-%d", len(l)))
		}
	}
	chunk("common-ancestor", qs, 50)

	// long bodies (> 1 KiB from 16 hashes on, > 64 KiB): stored hashes repeated cyclically, so duplicates are included and
	// the answer is known; connected headers above genesis (an ancestor always exists) and all stored non-genesis headers
	qs = nil
	var conn, allNG []string
	for _, id := range g.stored {
		if id == genesisID {
			continue
		}
		if len(allNG) < 24 {
			allNG = append(allNG, strconv.Itoa(id))
		}
		if g.state[id] != "O" && len(conn) < 24 {
			conn = append(conn, strconv.Itoa(id))
		}
	}
	sizes := []int{16, 17}
	if g.idx%3 == 0 {
		sizes = append(sizes, 40)
	}
	if g.idx%15 == 0 {
		sizes = append(sizes, 200)
	}
	if g.idx%100 == 0 {
		sizes = append(sizes, 2000)
	}
	for _, n := range sizes {
		if len(conn) > 0 {
			qs = append(qs, fmt.Sprintf("C=%s*%d", strings.Join(conn, "/"), n))
		}
		if len(allNG) > len(conn) && n == 17 && g.idx%2 == 0 {
			qs = append(qs, fmt.Sprintf("C=%s*%d", strings.Join(allNG, "/"), n))
		}
		c.Count(fmt.Sprintf("ca:long-list-%d", n))
	}
	if len(qs) > 0 {
		chunk("common-ancestor-long", qs, 50)
	}
	return out
}

func runC04(c *Ctx) error {
	// two stacks: the harness default (zerolog.Nop) and one with a real logger at the service's DEFAULT level (debug),
	// so that whatever only runs "when debug logging is on" (request / body logging middleware) is part of the tie
	sNop, err := NewStack(StackOpts{Dir: c.TmpDir("c04")})
	if err != nil {
		return err
	}
	defer sNop.Close()
	sDbg, err := NewStack(StackOpts{Dir: c.TmpDir("c04dbg"), DebugLog: true})
	if err != nil {
		return err
	}
	defer sDbg.Close()

	// runBatch executes the queries on the CURRENT store (history already run) and records the case.
	runBatch := func(e *c04Env, hline string, qs []string) error {
		s := e.s
		before := s.TableDigest("headers")
		obs := make([]string, 0, len(qs)+1)
		for _, q := range qs {
			o, err := e.query(q)
			if err != nil {
				return err
			}
			obs = append(obs, o)
		}
		after := s.TableDigest("headers")
		if before == after && !strings.HasPrefix(before, "ERR:") {
			obs = append(obs, "pure")
		} else {
			obs = append(obs, "MODIFIED")
		}
		c.Case(hline+";"+strings.Join(qs, ";"), strings.Join(obs, ";"))
		return nil
	}
	hasD := func(qs []string) bool {
		for _, q := range qs {
			if q == "D" {
				return true
			}
		}
		return false
	}
	load := func(h *History, debug bool) (*c04Env, error) {
		s := sNop
		if debug {
			s = sDbg
		}
		m, err := Materialize(h)
		if err != nil {
			return nil, err
		}
		if _, err := RunHistory(s, h); err != nil {
			return nil, err
		}
		return &c04Env{s: s, m: m}, nil
	}

	if c.Only != "" {
		hl, qs := splitC04(c.Only)
		h, err := ParseHistory(hl)
		if err != nil {
			return err
		}
		e, err := load(h, hasD(qs))
		if err != nil {
			return err
		}
		return runBatch(e, h.Line(), qs)
	}

	seen := map[string]bool{}
	total := 0
	nStores := 0
	doHistory := func(h *History, tag string) error {
		line := h.Line()
		if seen[line] {
			return nil
		}
		seen[line] = true
		debug := nStores%2 == 1
		e, err := load(h, debug)
		if err != nil {
			return fmt.Errorf("history %s: %w", line, err)
		}
		g, err := newC04Gen(c, e)
		if err != nil {
			return err
		}
		g.idx = nStores
		nStores++
		if debug {
			c.Count("log:debug")
		} else {
			c.Count("log:nop")
		}
		c.Count("gen:" + tag)
		for _, cl := range HistoryClass(h) {
			c.Count("class:" + cl)
		}
		c.Count(fmt.Sprintf("rows:%02d", (len(g.stored)+4)/5*5))
		for _, b := range g.batches() {
			total += len(b)
			if debug {
				b = append([]string{"D"}, b...)
			}
			if err := runBatch(e, line, b); err != nil {
				return fmt.Errorf("history %s: %w", line, err)
			}
		}
		return nil
	}

	// corpus: lines with queries are replayed as they are, lines without get the generated batches
	for _, l := range corpusLines(c, "C04") {
		hl, qs := splitC04(l)
		h, err := ParseHistory(hl)
		if err != nil {
			return fmt.Errorf("corpus line %q: %w", l, err)
		}
		if len(qs) > 0 {
			e, err := load(h, hasD(qs))
			if err != nil {
				return fmt.Errorf("corpus line %q: %w", l, err)
			}
			total += len(qs)
			c.Count("gen:corpus-query")
			if err := runBatch(e, h.Line(), qs); err != nil {
				return err
			}
			continue
		}
		if err := doHistory(h, "corpus"); err != nil {
			return err
		}
	}
	// bounded-exhaustive small trees (every parent choice incl. unknown, every arrival order)
	var eerr error
	ExhaustiveHistories(c.Pick(3, 4), []uint32{bitsW2}, func(h *History) {
		if eerr == nil {
			eerr = doHistory(h, "exhaustive")
		}
	})
	if eerr != nil {
		return eerr
	}
	// random: forks of several depths, several stale branches, orphan chains (also parent arriving later),
	// reorganisations back and forth - the C01 generator; three quarters positive work only, one quarter with zero-work headers
	n := c.Pick(150, 1500)
	for i := 0; i < n; i++ {
		o := GenOpts{N: 3 + c.Rng.Intn(c.Pick(14, 26)), PUnknown: 0.1, PLate: 0.12, PDup: 0.05, PForbidden: 0.1, Positive: true, Deep: i%2 == 0}
		if i%5 == 4 {
			o.PUnknown, o.PLate = 0.25, 0.3
		}
		if i%3 == 1 {
			// 32-bit extremes in the returned payload fields: time 0 / 2^31 / 2^32-1 / random, version min / max / random,
			// nonce 0 / 2^32-1 / random - every endpoint must return them as stored
			o.Extreme = true
		}
		if i%4 == 3 {
			// any work: zero-work headers too (the _any_work theorems; the C01 model is faithful for them)
			o.Positive, o.ZeroWork = false, true
		}
		if err := doHistory(GenHistory(c.Rng, o), "random"); err != nil {
			return err
		}
	}
	c.Meta("queries_total", strconv.Itoa(total))
	return nil
}
