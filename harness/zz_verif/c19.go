//go:build verif

package main

import (
	"fmt"

	"github.com/bitcoin-sv/block-headers-service/domains"
)

func init() { register("C19", runC19) }

// C19: compact bits -> target -> work and FastLog2Floor.
// input:  "bits <decimal uint32>"   obs: "<target hex> <work hex>"
//         "log2 <decimal uint32>"   obs: "<decimal>"
func runC19(c *Ctx) error {
	seen := map[uint32]bool{}
	bits := func(v uint32, class string) {
		if seen[v] {
			return
		}
		seen[v] = true
		t := domains.CompactToBig(v)
		w := domains.CalculateWork(v).BigInt()
		c.Case(fmt.Sprintf("bits %d", v), fmt.Sprintf("%s %s", t.Text(16), w.Text(16)))
		c.Count("bits:" + class)
	}
	mants := []uint32{0, 1, 2, 0x7f, 0x80, 0xff, 0x100, 0x7fff, 0x8000, 0xffff, 0x10000, 0x7ffffe, 0x7fffff}
	for i := 0; i < 23; i++ {
		mants = append(mants, 1<<uint(i))
		if c.Thorough() {
			for j := 0; j < i; j++ {
				mants = append(mants, 1<<uint(i)|1<<uint(j))
			}
		}
	}
	for e := uint32(0); e < 256; e++ {
		for _, s := range []uint32{0, 0x00800000} {
			for _, m := range mants {
				bits(e<<24|s|m, "lattice")
			}
		}
	}
	// the literals of domains/chainwork_test.go and genesis bits
	for _, v := range []uint32{486604799, 453281356, 436591499, 419558700, 419486617, 419465580, 403093919, 403290394, 403214614, 403985107, 0x207fffff, 0x1d800001} {
		bits(v, "literal")
	}
	for i, n := 0, c.Pick(20000, 400000); i < n; i++ {
		bits(c.Rng.Uint32(), "random")
	}
	seenL := map[uint32]bool{}
	lg := func(v uint32, class string) {
		if seenL[v] {
			return
		}
		seenL[v] = true
		c.Case(fmt.Sprintf("log2 %d", v), fmt.Sprintf("%d", domains.FastLog2Floor(v)))
		c.Count("log2:" + class)
	}
	lg(0, "zero")
	for k := uint(0); k < 32; k++ {
		p := uint32(1) << k
		lg(p, "pow2")
		lg(p-1, "pow2-1")
		lg(p+1, "pow2+1")
		for j := uint(0); j < k; j++ {
			lg(p|1<<j, "twobit")
		}
	}
	lg(0xffffffff, "max")
	for i, n := 0, c.Pick(20000, 400000); i < n; i++ {
		lg(c.Rng.Uint32()>>uint(c.Rng.Intn(32)), "random")
	}
	return nil
}
