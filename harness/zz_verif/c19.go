//go:build verif

package main

import (
	"fmt"
	"sync"
	"time"

	"github.com/bitcoin-sv/block-headers-service/domains"
)

func init() { register("C19", runC19) }

// C19: compact bits -> target -> work and FastLog2Floor.
// input:  "bits <decimal uint32>"   obs: "<target hex> <work hex>"
//         "log2 <decimal uint32>"   obs: "<decimal>"
func runC19(c *Ctx) error {
	seen := map[uint32]bool{}
	var seqV []uint32
	var seqObs []string
	bits := func(v uint32, class string) {
		if seen[v] {
			return
		}
		seen[v] = true
		t := domains.CompactToBig(v)
		w := domains.CalculateWork(v).BigInt()
		o := fmt.Sprintf("%s %s", t.Text(16), w.Text(16))
		c.Case(fmt.Sprintf("bits %d", v), o)
		c.Count("bits:" + class)
		seqV, seqObs = append(seqV, v), append(seqObs, o)
	}
	// The functions are pure: the value for one argument does not depend on who else is computing at the same time
	// (the service computes work in the per-peer goroutines and in the start-up import).  16 goroutines recompute the
	// recorded arguments concurrently, each in another order; an answer that differs from the sequential one is
	// emitted as one more case of that argument (the model then disagrees with it), a caller that does not come back
	// within 30 s as "HANG".
	defer func() {
		type bad struct {
			v uint32
			o string
		}
		var mu sync.Mutex
		var bads []bad
		var wg sync.WaitGroup
		n := len(seqV)
		const ng = 16
		per := c.Pick(4000, 40000)
		for g := 0; g < ng; g++ {
			wg.Add(1)
			go func(g int) {
				defer wg.Done()
				for i := 0; i < per && i < n; i++ {
					k := (g*7919 + i*(2*g+1)) % n
					v := seqV[k]
					o := func() (o string) {
						defer func() {
							if rec := recover(); rec != nil {
								o = fmt.Sprintf("PANIC %v", rec)
							}
						}()
						return fmt.Sprintf("%s %s", domains.CompactToBig(v).Text(16), domains.CalculateWork(v).BigInt().Text(16))
					}()
					if o != seqObs[k] {
						mu.Lock()
						if len(bads) < 20 {
							bads = append(bads, bad{v, o})
						}
						mu.Unlock()
					}
				}
			}(g)
		}
		done := make(chan struct{})
		go func() { wg.Wait(); close(done) }()
		select {
		case <-done:
		case <-time.After(30 * time.Second):
			c.Case(fmt.Sprintf("bits %d", seqV[0]), "HANG concurrent-callers-did-not-return")
		}
		mu.Lock()
		for _, b := range bads {
			c.Case(fmt.Sprintf("bits %d", b.v), b.o)
			c.Count("bits:concurrent-mismatch")
		}
		mu.Unlock()
		c.Meta("c19_concurrent", fmt.Sprintf("%d goroutines x %d recomputations of recorded arguments, compared with the sequential answers", ng, per))
	}()
	mants := []uint32{0, 1, 2, 0x7f, 0x80, 0xff, 0x100, 0x7fff, 0x8000, 0xffff, 0x10000, 0x7ffffe, 0x7fffff}
	for i := 0; i < 23; i++ {
		mants = append(mants, 1<<uint(i))
		if c.Thorough() {
			for j := 0; j < i; j++ {
				mants = append(mants, 1<<uint(i)|1<<uint(j))
			}
		}
	}
	for e := uint32(0); e < 256; e++ {
		for _, s := range []uint32{0, 0x00800000} {
			for _, m := range mants {
				bits(e<<24|s|m, "lattice")
			}
		}
	}
	// the literals of domains/chainwork_test.go and genesis bits
	for _, v := range []uint32{486604799, 453281356, 436591499, 419558700, 419486617, 419465580, 403093919, 403290394, 403214614, 403985107, 0x207fffff, 0x1d800001} {
		bits(v, "literal")
	}
	for i, n := 0, c.Pick(20000, 400000); i < n; i++ {
		bits(c.Rng.Uint32(), "random")
	}
	seenL := map[uint32]bool{}
	lg := func(v uint32, class string) {
		if seenL[v] {
			return
		}
		seenL[v] = true
		c.Case(fmt.Sprintf("log2 %d", v), fmt.Sprintf("%d", domains.FastLog2Floor(v)))
		c.Count("log2:" + class)
	}
	lg(0, "zero")
	for k := uint(0); k < 32; k++ {
		p := uint32(1) << k
		lg(p, "pow2")
		lg(p-1, "pow2-1")
		lg(p+1, "pow2+1")
		for j := uint(0); j < k; j++ {
			lg(p|1<<j, "twobit")
		}
	}
	lg(0xffffffff, "max")
	for i, n := 0, c.Pick(20000, 400000); i < n; i++ {
		lg(c.Rng.Uint32()>>uint(c.Rng.Intn(32)), "random")
	}
	return nil
}
