//go:build verif

package connmgr

// Add-only test access for property C18 of /verif: the compiled-in failure threshold
// (after this many failed attempts an address is banned / retries are delayed).
const VerifC18MaxFailedAttempts = maxFailedAttempts
