//go:build verif

package addrmgr

// Add-only test access for property C18 of /verif (builder's part): the address manager's own
// counters beside what its tables really hold.  ok = false when the manager's mutex is held.
func (a *AddrManager) VerifC18Counts() (nTried, nNew, inTried, inNew, index int, ok bool) {
	if !a.mtx.TryLock() {
		return 0, 0, 0, 0, 0, false
	}
	defer a.mtx.Unlock()
	for _, b := range a.addrTried {
		inTried += b.Len()
	}
	seen := map[string]bool{}
	for _, b := range a.addrNew {
		for k := range b {
			seen[k] = true
		}
	}
	return a.nTried, a.nNew, inTried, len(seen), len(a.addrIndex), true
}

// VerifC18Refs returns the number of new-bucket references of the address with the given key
// (-1 unknown address, -2 mutex held).
func (a *AddrManager) VerifC18Refs(key string) int {
	if !a.mtx.TryLock() {
		return -2
	}
	defer a.mtx.Unlock()
	ka, ok := a.addrIndex[key]
	if !ok {
		return -1
	}
	return ka.refs
}
