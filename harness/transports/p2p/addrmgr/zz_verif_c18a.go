//go:build verif

package addrmgr

import (
	"time"

	"github.com/bitcoin-sv/block-headers-service/internal/wire"
)

// VerifC18KnownAddress builds a KnownAddress as the address manager hands them out (its fields are unexported):
// the address and the time of the last connection attempt are all that the selection filters of
// p2putil.NewAddressFunc look at.  Add-only test access for the C18 "na" family.
func VerifC18KnownAddress(na *wire.NetAddress, lastAttempt time.Time) *KnownAddress {
	return &KnownAddress{na: na, lastattempt: lastAttempt}
}
