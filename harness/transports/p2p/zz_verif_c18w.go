//go:build verif

package p2p

// Add-only test access for property C18 of /verif, part 2: the REAL server (Start -> peerHandler,
// sync manager, address manager) wired to the REAL connection manager exactly as newServer wires it
// (OnConnection: s.outboundPeerConnected, BanAddress: s.addrManager.BanAddress), but without
// listeners and with the caller's Dial / GetNewAddress (in-memory connections).  The chain
// OnConnection -> outboundPeerConnected -> peerDoneHandler -> donePeers -> handleDonePeerMsg ->
// connManager.Disconnect is the production code.

import (
	"bytes"
	"errors"
	"net"
	"time"

	"github.com/bitcoin-sv/block-headers-service/config"
	"github.com/bitcoin-sv/block-headers-service/internal/chaincfg"
	"github.com/bitcoin-sv/block-headers-service/internal/wire"
	"github.com/bitcoin-sv/block-headers-service/service"
	"github.com/bitcoin-sv/block-headers-service/transports/p2p/addrmgr"
	"github.com/bitcoin-sv/block-headers-service/transports/p2p/connmgr"
	"github.com/bitcoin-sv/block-headers-service/transports/p2p/p2psync"
	"github.com/bitcoin-sv/block-headers-service/transports/p2p/p2putil"
	"github.com/bitcoin-sv/block-headers-service/transports/p2p/peer"
	"github.com/rs/zerolog"
)

// VerifC18Wired is one running server + connection manager pair.
type VerifC18Wired struct {
	s      *server
	params *chaincfg.Params
}

// VerifC18WiredCfg configures VerifC18NewWired.
type VerifC18WiredCfg struct {
	Services      *service.Services
	Target        int
	Retry         time.Duration
	GetNewAddress func() (net.Addr, error)
	Dial          func(net.Addr) (net.Conn, error)
	// RealAddressSource: GetNewAddress is the production closure
	// p2putil.NewAddressFunc(s.addrManager.GetAddress, s.OutboundGroupCount, lookup), as in newServer,
	// over the server's real address manager filled with Book.
	RealAddressSource bool
	Book              []VerifC18BookEntry
	// OnBan, when set, is told each address right after the real addrManager.BanAddress returned
	OnBan func(addr string)
}

// VerifC18BookEntry is one known peer address.
type VerifC18BookEntry struct {
	IP     net.IP
	Port   int
	Recent bool // connection attempted just now (addrManager.Attempt)
	// Sources > 1: the address is learnt from that many sources in different /16 groups (the new
	// bucket is chosen from the source group), repeated until it sits in that many new buckets
	Sources int
}

// learn hands the address to AddAddresses once per source group, repeating (the chance of a further
// reference is 1/(2*refs) per call) until the address holds b.Sources new-bucket references.
func (w *VerifC18Wired) learn(b VerifC18BookEntry) {
	na := wire.NewNetAddressIPPort(b.IP, uint16(b.Port), wire.SFspv)
	key := addrmgr.NetAddressKey(na)
	n := b.Sources
	if n < 1 {
		n = 1
	}
	for j := 0; j < n; j++ {
		for try := 0; try < 400; try++ {
			src := wire.NewNetAddressIPPort(net.IPv4(45, byte(200+j), byte(1+try%200), 1), 8333, wire.SFspv)
			w.s.addrManager.AddAddresses([]*wire.NetAddress{na}, src)
			if r := w.s.addrManager.VerifC18Refs(key); r >= j+1 || r < 0 {
				break
			}
		}
	}
	if b.Recent {
		w.s.addrManager.Attempt(na)
	}
}

// Refs returns the number of new-bucket references the address manager holds for the address.
func (w *VerifC18Wired) Refs(b VerifC18BookEntry) int {
	return w.s.addrManager.VerifC18Refs(addrmgr.NetAddressKey(wire.NewNetAddressIPPort(b.IP, uint16(b.Port), wire.SFspv)))
}

// VerifC18NewWired builds the server value the way newServer does (minus listeners and DNS seeds).
func VerifC18NewWired(c VerifC18WiredCfg) (*VerifC18Wired, error) {
	lg := zerolog.Nop()
	// no DNS seeding: the process-wide active parameters lose their seed list (harness process only)
	p := *config.ActiveNetParams
	p.DNSSeeds = nil
	config.ActiveNetParams = &p
	p2pCfg := &config.P2PConfig{BanDuration: time.Hour, UserAgentName: "verif", UserAgentVersion: "0.0.1",
		BlocksForForkConfirmation: 10}
	s := &server{
		startupTime:       time.Now().Unix(),
		chainParams:       &p,
		addrManager:       addrmgr.New(func(string) ([]net.IP, error) { return nil, errors.New("no dns") }, &lg),
		newPeers:          make(chan *serverPeer, config.MaxPeers),
		donePeers:         make(chan *serverPeer, config.MaxPeers),
		banPeers:          make(chan *peer.Peer, config.MaxPeers),
		query:             make(chan interface{}),
		relayInv:          make(chan relayMsg, config.MaxPeers),
		broadcast:         make(chan broadcastMsg, config.MaxPeers),
		quit:              make(chan struct{}),
		peerHeightsUpdate: make(chan updatePeerHeightsMsg),
		timeSource:        config.NewMedianTime(&lg),
		wireServices:      defaultServices,
		p2pConfig:         p2pCfg,
		log:               &lg,
	}
	sm, err := p2psync.New(&p2psync.Config{
		PeerNotifier:              s,
		ChainParams:               s.chainParams,
		DisableCheckpoints:        true,
		MaxPeers:                  config.MaxPeers,
		MinSyncPeerNetworkSpeed:   config.MinSyncPeerNetworkSpeed,
		BlocksForForkConfirmation: p2pCfg.BlocksForForkConfirmation,
		Logger:                    &lg,
		Services:                  c.Services,
	}, map[*peer.Peer]*peer.SyncState{})
	if err != nil {
		return nil, err
	}
	s.syncManager = sm
	getAddr := c.GetNewAddress
	if c.RealAddressSource {
		lookup := func(string) ([]net.IP, error) { return nil, errors.New("no dns") }
		getAddr = p2putil.NewAddressFunc(s.addrManager.GetAddress, s.OutboundGroupCount, lookup)
	}
	cm, err := connmgr.New(&connmgr.Config{
		TargetOutbound: uint32(c.Target),
		RetryDuration:  c.Retry,
		Dial:           c.Dial,
		OnConnection:   s.outboundPeerConnected,
		GetNewAddress:  getAddr,
		BanAddress: func(addr string) {
			s.addrManager.BanAddress(addr)
			if c.OnBan != nil {
				c.OnBan(addr)
			}
		},
		Logger:         &lg,
	})
	if err != nil {
		return nil, err
	}
	s.connManager = cm
	w := &VerifC18Wired{s: s, params: &p}
	if c.RealAddressSource {
		for _, b := range c.Book {
			w.learn(b)
		}
	}
	return w, nil
}

// Start runs the real server.Start (peerHandler, which starts the connection manager).
func (w *VerifC18Wired) Start() error { return w.s.Start() }

// Stop runs the real server.Stop and waits for the peer handler to finish.
func (w *VerifC18Wired) Stop() {
	w.s.Stop()
	w.s.WaitForShutdown()
}

// ConnectedCount asks the peer handler (real query path) for the number of connected peers; -1 when it
// does not answer within the bound.
func (w *VerifC18Wired) ConnectedCount(bound time.Duration) int {
	ch := make(chan int32, 1)
	go func() { ch <- w.s.ConnectedCount() }()
	select {
	case n := <-ch:
		return int(n)
	case <-time.After(bound):
		return -1
	}
}

// RemoteHandshake returns what a remote node at ip:port sends: its version (withVersion) and its
// verack (withVerAck), serialised for the server's network.
func (w *VerifC18Wired) RemoteHandshake(ip net.IP, port int, nonce uint64, withVersion, withVerAck bool) ([]byte, error) {
	var buf bytes.Buffer
	if withVersion {
		me := wire.NewNetAddressIPPort(ip, uint16(port), wire.SFspv)
		you := wire.NewNetAddressIPPort(net.IPv4(127, 0, 0, 1), 8333, wire.SFspv)
		ver := wire.NewMsgVersion(me, you, nonce, 0)
		ver.Services = wire.SFspv
		ver.UserAgent = "/verif-remote:0.0.1/"
		if err := wire.WriteMessage(&buf, ver, wire.ProtocolVersion, w.params.Net); err != nil {
			return nil, err
		}
	}
	if withVerAck {
		if err := wire.WriteMessage(&buf, wire.NewMsgVerAck(), wire.ProtocolVersion, w.params.Net); err != nil {
			return nil, err
		}
	}
	return buf.Bytes(), nil
}

// AddAddress hands one more address to the server's address manager (what OnAddr / DNS seeding do).
// Returns false when AddAddresses did not return within the bound (the manager's mutex is held for ever).
func (w *VerifC18Wired) AddAddress(b VerifC18BookEntry, bound time.Duration) bool {
	done := make(chan struct{})
	go func() { w.learn(b); close(done) }()
	select {
	case <-done:
		return true
	case <-time.After(bound):
		return false
	}
}

// AddrMgrResponds reports whether a call that needs the address manager's mutex returns within the bound.
func (w *VerifC18Wired) AddrMgrResponds(bound time.Duration) bool {
	done := make(chan struct{})
	go func() { _ = w.s.addrManager.NeedMoreAddresses(); close(done) }()
	select {
	case <-done:
		return true
	case <-time.After(bound):
		return false
	}
}

// AddrCounts returns the address manager's counters (nTried, nNew) beside the number of addresses its
// tried / new tables really hold and the size of its index; ok = false while its mutex is held.
func (w *VerifC18Wired) AddrCounts() (nTried, nNew, inTried, inNew, index int, ok bool) {
	return w.s.addrManager.VerifC18Counts()
}

// RemoteHandshakeN is RemoteHandshake with the version message repeated `versions` times.
func (w *VerifC18Wired) RemoteHandshakeN(ip net.IP, port int, nonce uint64, versions int, withVerAck bool) ([]byte, error) {
	var out []byte
	for i := 0; i < versions; i++ {
		b, err := w.RemoteHandshake(ip, port, nonce+uint64(i)*7919, true, false)
		if err != nil {
			return nil, err
		}
		out = append(out, b...)
	}
	if withVerAck {
		b, err := w.RemoteHandshake(ip, port, nonce, false, true)
		if err != nil {
			return nil, err
		}
		out = append(out, b...)
	}
	return out, nil
}

// OutboundGroups asks the peer handler (the real query path server.OutboundGroupCount, the one
// NewAddressFunc uses) for the sum of the outbound group counters of the given group keys; -1 when it
// does not answer within the bound.
func (w *VerifC18Wired) OutboundGroups(keys []string, bound time.Duration) int {
	ch := make(chan int, 1)
	go func() {
		n := 0
		for _, k := range keys {
			n += w.s.OutboundGroupCount(k)
		}
		ch <- n
	}()
	select {
	case n := <-ch:
		return n
	case <-time.After(bound):
		return -1
	}
}
