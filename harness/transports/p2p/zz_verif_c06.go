//go:build verif

package p2p

// Add-only, in-package test access for properties C06/C07 of /verif (tagged `verif`, injected through
// `go build -overlay`).  Builds a real `server` value around a real p2psync.SyncManager (the server is the
// manager's PeerNotifier, as in newServer) WITHOUT listeners, connection manager or goroutines, so that
// connections accepted through the REAL inboundPeerConnected get real serverPeer / peer.Peer objects
// (OnVersion -> syncManager.NewPeer, OnHeaders -> QueueHeaders, OnInv -> QueueInv, peerDoneHandler ->
// DonePeer) and BanPeer calls go through the real banPeers channel and handleBanPeerMsg.

import (
	"errors"
	"net"
	"sort"
	"time"

	"github.com/bitcoin-sv/block-headers-service/config"
	"github.com/bitcoin-sv/block-headers-service/internal/chaincfg"
	"github.com/bitcoin-sv/block-headers-service/service"
	"github.com/bitcoin-sv/block-headers-service/transports/p2p/addrmgr"
	"github.com/bitcoin-sv/block-headers-service/transports/p2p/p2psync"
	"github.com/bitcoin-sv/block-headers-service/transports/p2p/peer"
	"github.com/rs/zerolog"
)

// VerifC06Server owns one server + peerState pair.
type VerifC06Server struct {
	s     *server
	state *peerState
	log   zerolog.Logger
}

// VerifC06NewServer mirrors the relevant part of newServer.
func VerifC06NewServer(params *chaincfg.Params, services *service.Services, cps []chaincfg.Checkpoint, disableCheckpoints bool) (*VerifC06Server, error) {
	return VerifC06NewServerWithPeers(params, services, cps, disableCheckpoints, map[*peer.Peer]*peer.SyncState{})
}

// VerifC06NewServerWithPeers is VerifC06NewServer with the peer-state map supplied by the caller (in production the same
// map is handed to service.NewNetworkService and to the sync manager).
func VerifC06NewServerWithPeers(params *chaincfg.Params, services *service.Services, cps []chaincfg.Checkpoint, disableCheckpoints bool,
	peers map[*peer.Peer]*peer.SyncState) (*VerifC06Server, error) {
	v := &VerifC06Server{log: zerolog.Nop()}
	s := &server{
		startupTime:  time.Now().Unix(),
		chainParams:  params,
		newPeers:     make(chan *serverPeer, config.MaxPeers),
		donePeers:    make(chan *serverPeer, config.MaxPeers),
		banPeers:     make(chan *peer.Peer, config.MaxPeers),
		quit:         make(chan struct{}),
		timeSource:   config.NewMedianTime(&v.log),
		wireServices: defaultServices,
		p2pConfig:    &config.P2PConfig{BanDuration: time.Hour, UserAgentName: "verif", UserAgentVersion: "0.0.1", DisableCheckpoints: disableCheckpoints},
		log:          &v.log,
	}
	s.addrManager = addrmgr.New(func(string) ([]net.IP, error) { return nil, errors.New("no lookup") }, &v.log)
	sm, err := p2psync.New(&p2psync.Config{
		PeerNotifier:            s,
		ChainParams:             s.chainParams,
		DisableCheckpoints:      disableCheckpoints,
		MaxPeers:                config.MaxPeers,
		MinSyncPeerNetworkSpeed: 0, // the network-speed rule is switched off; the rig drives the stall rule by ageing lastBlockTime
		Logger:                  &v.log,
		Services:                services,
		Checkpoints:             cps,
	}, peers)
	if err != nil {
		return nil, err
	}
	s.syncManager = sm
	v.s = s
	v.state = &peerState{
		inboundPeers:    make(map[int32]*serverPeer),
		persistentPeers: make(map[int32]*serverPeer),
		outboundPeers:   make(map[int32]*serverPeer),
		banned:          make(map[string]time.Time),
		outboundGroups:  make(map[string]int),
		connectionCount: make(map[string]int),
	}
	return v, nil
}

// SM returns the sync manager.
func (v *VerifC06Server) SM() *p2psync.SyncManager { return v.s.syncManager }

// Accept hands an accepted connection to the real inboundPeerConnected.
func (v *VerifC06Server) Accept(conn net.Conn) { v.s.inboundPeerConnected(conn, &v.log) }

// Bans drains the banPeers channel through the real handleBanPeerMsg and returns the banned hosts.
func (v *VerifC06Server) Bans() []string {
	for {
		select {
		case p := <-v.s.banPeers:
			v.s.handleBanPeerMsg(v.state, p)
			continue
		default:
		}
		break
	}
	out := make([]string, 0, len(v.state.banned))
	for h := range v.state.banned {
		out = append(out, h)
	}
	sort.Strings(out)
	return out
}

// DrainServerQueues empties the newPeers / donePeers channels (nobody runs peerHandler in the rig).
func (v *VerifC06Server) DrainServerQueues() {
	for {
		select {
		case <-v.s.newPeers:
		case <-v.s.donePeers:
		default:
			return
		}
	}
}
