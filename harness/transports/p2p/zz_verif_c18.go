//go:build verif

package p2p

// Add-only, in-package test access for property C18 of /verif (never part of a normal
// build: tagged `verif`, injected through `go build -overlay`).  It calls the REAL unexported
// handlers handleAddPeerMsg / handleDonePeerMsg / handleBanPeerMsg on a real peerState with
// real serverPeer / peer.Peer objects.  The peers are attached to an in-memory connection that
// replays a canned version+verack so that the ordinary handshake code of package peer assigns
// the peer id and sets the version-known flag exactly as it does in production (AddPeer is only
// ever called from OnVersion, i.e. after that point).

import (
	"bytes"
	"fmt"
	"io"
	"net"
	"sort"
	"strings"
	"sync"
	"sync/atomic"
	"time"

	"github.com/bitcoin-sv/block-headers-service/config"
	"github.com/bitcoin-sv/block-headers-service/internal/chaincfg"
	"github.com/bitcoin-sv/block-headers-service/internal/wire"
	"github.com/bitcoin-sv/block-headers-service/transports/p2p/addrmgr"
	"github.com/bitcoin-sv/block-headers-service/transports/p2p/peer"
	"github.com/rs/zerolog"
)

// VerifC18Limits returns the compiled-in admission limits.
func VerifC18Limits() (maxPeers, maxPeersPerIP int) { return config.MaxPeers, config.MaxPeersPerIP }

// verifC18Conn is an in-memory net.Conn: reads replay canned bytes and then block until Close.
type verifC18Conn struct {
	mu     sync.Mutex
	rd     *bytes.Reader
	closed chan struct{}
	once   sync.Once
	raddr  net.Addr
}

func (c *verifC18Conn) Read(b []byte) (int, error) {
	c.mu.Lock()
	if c.rd.Len() > 0 {
		n, err := c.rd.Read(b)
		c.mu.Unlock()
		return n, err
	}
	c.mu.Unlock()
	<-c.closed
	return 0, io.EOF
}
func (c *verifC18Conn) Write(b []byte) (int, error) {
	select {
	case <-c.closed:
		return 0, io.ErrClosedPipe
	default:
	}
	return len(b), nil
}
func (c *verifC18Conn) Close() error                       { c.once.Do(func() { close(c.closed) }); return nil }
func (c *verifC18Conn) LocalAddr() net.Addr                { return &net.TCPAddr{IP: net.IPv4(127, 0, 0, 1), Port: 8333} }
func (c *verifC18Conn) RemoteAddr() net.Addr               { return c.raddr }
func (c *verifC18Conn) SetDeadline(t time.Time) error      { return nil }
func (c *verifC18Conn) SetReadDeadline(t time.Time) error  { return nil }
func (c *verifC18Conn) SetWriteDeadline(t time.Time) error { return nil }

// VerifC18Adm owns one server + peerState pair.
type VerifC18Adm struct {
	s     *server
	state *peerState
	peers []*serverPeer
	log   zerolog.Logger
	unit  time.Duration
}

var verifC18Nonce uint64 = 0x18c18c18

// VerifC18NewAdm creates a server value (no goroutines, no listeners) and an empty peerState,
// exactly as peerHandler initialises it.
func VerifC18NewAdm(banDuration time.Duration) *VerifC18Adm {
	lg := zerolog.Nop()
	a := &VerifC18Adm{log: lg}
	a.s = &server{
		chainParams: &chaincfg.TestNet3Params,
		p2pConfig:   &config.P2PConfig{BanDuration: banDuration},
		log:         &a.log,
		quit:        make(chan struct{}),
	}
	a.s.addrManager = addrmgr.New(func(string) ([]net.IP, error) { return nil, fmt.Errorf("no lookup") }, &a.log)
	// the server's network-adjusted time source, as newServer sets it (config.TimeSource is built the
	// same way); serverPeer.OnVersion feeds it the version timestamp of every peer
	a.s.timeSource = config.NewMedianTime(&a.log)
	a.state = &peerState{
		inboundPeers:    make(map[int32]*serverPeer),
		persistentPeers: make(map[int32]*serverPeer),
		outboundPeers:   make(map[int32]*serverPeer),
		banned:          make(map[string]time.Time),
		outboundGroups:  make(map[string]int),
		connectionCount: make(map[string]int),
	}
	return a
}

// SeenSkewedPeers records that k distinct peers whose version timestamps were off by skew have been
// seen: exactly what serverPeer.OnVersion does with each peer's msg.Timestamp.  Returns the offset the
// time source reports afterwards (0 with fewer than five or an even number of samples).
func (a *VerifC18Adm) SeenSkewedPeers(k int, skew time.Duration) time.Duration {
	for i := 0; i < k; i++ {
		a.s.timeSource.AddTimeSample(fmt.Sprintf("198.51.%d.%d:8333", 100+i/200, 1+i%200), time.Now().Add(skew))
	}
	return a.s.timeSource.Offset()
}

// NewPeer creates a real serverPeer of the given kind ('i' inbound, 'o' outbound, 'p' persistent
// outbound) whose remote address is ip:port, attaches the in-memory connection and waits for the
// handshake of package peer to finish (id assigned, version known).  Returns a handle.
func (a *VerifC18Adm) NewPeer(kind byte, ip string, port int) (int, error) {
	h, _, err := a.newPeer(kind, ip, port, false)
	return h, err
}

// NewPeerAddInListener is NewPeer, but the add message is handled INSIDE the OnVersion listener: the
// real handleAddPeerMsg runs while package peer is still in handleVersionMessage - an order the real
// peerHandler can produce, since AddPeer queues the message from the listener and the handler goroutine
// may take it at once.  Returns the handler's decision.
func (a *VerifC18Adm) NewPeerAddInListener(kind byte, ip string, port int) (int, bool, error) {
	return a.newPeer(kind, ip, port, true)
}

func (a *VerifC18Adm) newPeer(kind byte, ip string, port int, addInListener bool) (int, bool, error) {
	decision := false
	sp := newServerPeer(a.s, kind == 'p', &a.log)
	verCh := make(chan struct{}, 1)
	cfg := &peer.Config{
		Listeners: peer.MessageListeners{
			OnVersion: func(_ *peer.Peer, _ *wire.MsgVersion) *wire.MsgReject {
				if addInListener {
					decision = a.s.handleAddPeerMsg(a.state, sp)
				}
				select {
				case verCh <- struct{}{}:
				default:
				}
				return nil
			},
		},
		Log:              &a.log,
		ChainParams:      &chaincfg.TestNet3Params,
		Services:         wire.SFspv,
		ProtocolVersion:  uint32(70013),
		UserAgentName:    "verif",
		UserAgentVersion: "0",
		TrickleInterval:  time.Hour,
	}
	// an IPv6 zone ("fe80::1%eth0") travels in the address string, as it does in a real RemoteAddr
	zone := ""
	bare := ip
	if i := strings.IndexByte(ip, '%'); i >= 0 {
		bare, zone = ip[:i], ip[i+1:]
	}
	raddr := &net.TCPAddr{IP: net.ParseIP(bare), Port: port, Zone: zone}
	if raddr.IP == nil {
		return -1, false, fmt.Errorf("bad ip %q", ip)
	}
	if kind == 'i' {
		sp.Peer = peer.NewInboundPeer(cfg)
	} else {
		p, err := peer.NewOutboundPeer(cfg, net.JoinHostPort(ip, fmt.Sprint(port)))
		if err != nil {
			return -1, false, err
		}
		sp.Peer = p
	}
	// canned remote side: version, then verack
	var buf bytes.Buffer
	me := wire.NewNetAddressIPPort(raddr.IP, uint16(port), wire.SFspv)
	you := wire.NewNetAddressIPPort(net.IPv4(127, 0, 0, 1), 8333, wire.SFspv)
	ver := wire.NewMsgVersion(me, you, atomic.AddUint64(&verifC18Nonce, 1), 0)
	ver.Services = wire.SFspv
	if err := wire.WriteMessage(&buf, ver, wire.ProtocolVersion, chaincfg.TestNet3Params.Net); err != nil {
		return -1, false, err
	}
	if err := wire.WriteMessage(&buf, wire.NewMsgVerAck(), wire.ProtocolVersion, chaincfg.TestNet3Params.Net); err != nil {
		return -1, false, err
	}
	conn := &verifC18Conn{rd: bytes.NewReader(buf.Bytes()), closed: make(chan struct{}), raddr: raddr}
	sp.AssociateConnection(conn)
	select {
	case <-verCh:
	case <-time.After(10 * time.Second):
		sp.Disconnect()
		return -1, false, fmt.Errorf("handshake timeout")
	}
	for i := 0; i < 20000 && (!sp.VersionKnown() || sp.ID() == 0); i++ {
		time.Sleep(100 * time.Microsecond) // the listener runs inside handleVersionMessage; let it finish
	}
	if !sp.VersionKnown() || sp.ID() == 0 {
		sp.Disconnect()
		return -1, false, fmt.Errorf("handshake incomplete")
	}
	a.peers = append(a.peers, sp)
	return len(a.peers) - 1, decision, nil
}

// PeerID returns the id package peer assigned to the handle.
func (a *VerifC18Adm) PeerID(h int) int32 { return a.peers[h].ID() }

// Connected reports the peer's Connected() flag.
func (a *VerifC18Adm) Connected(h int) bool { return a.peers[h].Connected() }

// Add delivers the peer to the real handleAddPeerMsg.
func (a *VerifC18Adm) Add(h int) bool { return a.s.handleAddPeerMsg(a.state, a.peers[h]) }

// Done delivers the peer to the real handleDonePeerMsg.  The handler does not read or change the
// peer's connected flag; in production peerDoneHandler sends on donePeers only after
// WaitForDisconnect returned, which scripts express by a preceding Disconnect.
func (a *VerifC18Adm) Done(h int) { a.s.handleDonePeerMsg(a.state, a.peers[h]) }

// Disconnect drops the peer's connection (what a remote close or a protocol error does).
func (a *VerifC18Adm) Disconnect(h int) { a.peers[h].Disconnect() }

// Ban delivers a peer object with address ip:port to the real handleBanPeerMsg.
func (a *VerifC18Adm) Ban(ip string, port int) error {
	cfg := &peer.Config{Log: &a.log, ChainParams: &chaincfg.TestNet3Params}
	p, err := peer.NewOutboundPeer(cfg, net.JoinHostPort(ip, fmt.Sprint(port)))
	if err != nil {
		return err
	}
	a.s.handleBanPeerMsg(a.state, p)
	return nil
}

// AdvanceClock lets d of wall-clock time "pass" for the ban bookkeeping: every stored expiry
// time is moved d into the past, which is indistinguishable (for time.Now().Before(banEnd))
// from time.Now() having advanced by d.
func (a *VerifC18Adm) AdvanceClock(d time.Duration) {
	for h, t := range a.state.banned {
		a.state.banned[h] = t.Add(-d)
	}
}

// SetBanLeft rewrites the stored expiry of host ip (if it is in the ban table) to time.Now()+left:
// the harness keeps ban expiries on a logical clock (measured from what handleBanPeerMsg stored) and
// re-anchors them to the wall clock immediately before each call of handleAddPeerMsg, so that clock
// positions a few milliseconds around the expiry can be exercised exactly.
func (a *VerifC18Adm) SetBanLeft(ip string, left time.Duration) bool {
	if _, ok := a.state.banned[ip]; !ok {
		return false
	}
	a.state.banned[ip] = time.Now().Add(left)
	return true
}

// BannedHosts lists the hosts in the ban table.
func (a *VerifC18Adm) BannedHosts() []string {
	r := make([]string, 0, len(a.state.banned))
	for h := range a.state.banned {
		r = append(r, h)
	}
	return r
}

// BanLeft returns the stored expiry of host ip minus time.Now().
func (a *VerifC18Adm) BanLeft(ip string) (time.Duration, bool) {
	t, ok := a.state.banned[ip]
	return time.Until(t), ok
}

// VerifC18Snap is a canonical copy of the peerState.
type VerifC18Snap struct {
	Inbound, Outbound, Persistent []int32
	ConnCount                     map[string]int
	Groups                        map[string]int
	BannedLeft                    map[string]time.Duration
	Count                         int
}

// Snapshot copies the bookkeeping.
func (a *VerifC18Adm) Snapshot() VerifC18Snap {
	ids := func(m map[int32]*serverPeer) []int32 {
		r := make([]int32, 0, len(m))
		for k := range m {
			r = append(r, k)
		}
		sort.Slice(r, func(i, j int) bool { return r[i] < r[j] })
		return r
	}
	sn := VerifC18Snap{Inbound: ids(a.state.inboundPeers), Outbound: ids(a.state.outboundPeers),
		Persistent: ids(a.state.persistentPeers), ConnCount: map[string]int{}, Groups: map[string]int{},
		BannedLeft: map[string]time.Duration{}, Count: a.state.Count()}
	for k, v := range a.state.connectionCount {
		sn.ConnCount[k] = v
	}
	for k, v := range a.state.outboundGroups {
		sn.Groups[k] = v
	}
	now := time.Now()
	for k, v := range a.state.banned {
		sn.BannedLeft[k] = v.Sub(now)
	}
	return sn
}

// Close disconnects every peer created through this fixture (stops their goroutines).
func (a *VerifC18Adm) Close() {
	for _, sp := range a.peers {
		sp.Disconnect()
	}
}
