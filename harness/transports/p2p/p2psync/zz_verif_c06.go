//go:build verif

package p2psync

// Add-only, in-package test access for properties C06/C07 of /verif (never part of a normal build:
// tagged `verif`, injected through `go build -overlay`).  It lets the harness BE the event loop of a
// real SyncManager: messages are pulled from sm.msgChan exactly where blockHandler's select receives
// them and are dispatched to the REAL handle*Msg functions by the same type switch, one at a time, in
// the order the harness chooses.  Nothing here changes the manager's behaviour.

import (
	"fmt"
	"time"

	"github.com/bitcoin-sv/block-headers-service/internal/chaincfg/chainhash"
	peerpkg "github.com/bitcoin-sv/block-headers-service/transports/p2p/peer"
)

// VerifC06Pull receives the next message of the manager's queue, waiting at most d.
func (sm *SyncManager) VerifC06Pull(d time.Duration) (interface{}, bool) {
	select {
	case m := <-sm.msgChan:
		return m, true
	case <-time.After(d):
		return nil, false
	}
}

// VerifC06Describe names a pulled message and the peer it concerns.
func VerifC06Describe(m interface{}) (string, *peerpkg.Peer, int) {
	switch msg := m.(type) {
	case *newPeerMsg:
		return "new", msg.peer, 0
	case *invMsg:
		return "inv", msg.peer, len(msg.inv.InvList)
	case *headersMsg:
		return "headers", msg.peer, len(msg.headers.Headers)
	case *donePeerMsg:
		return "done", msg.peer, 0
	case getSyncPeerMsg:
		return "getsync", nil, 0
	case isCurrentMsg:
		return "iscurrent", nil, 0
	case pauseMsg:
		return "pause", nil, 0
	}
	return fmt.Sprintf("other:%T", m), nil, 0
}

// VerifC06Handle dispatches one message exactly as blockHandler does (same switch, same handlers).
// A panic of the handler (which would kill the process in production) is reported as a string.
func (sm *SyncManager) VerifC06Handle(m interface{}) (panicked string) {
	defer func() {
		if r := recover(); r != nil {
			panicked = fmt.Sprint(r)
		}
	}()
	switch msg := m.(type) {
	case *newPeerMsg:
		sm.handleNewPeerMsg(msg.peer)
		if msg.reply != nil {
			msg.reply <- struct{}{}
		}
	case *invMsg:
		sm.handleInvMsg(msg)
	case *headersMsg:
		sm.handleHeadersMsg(msg)
	case *donePeerMsg:
		sm.handleDonePeerMsg(msg.peer)
		if msg.reply != nil {
			msg.reply <- struct{}{}
		}
	case getSyncPeerMsg:
		var peerID int32
		if sm.syncPeer != nil {
			peerID = sm.syncPeer.ID()
		}
		msg.reply <- peerID
	case isCurrentMsg:
		msg.reply <- sm.current()
	case pauseMsg:
		<-msg.unpause
	}
	return ""
}

// VerifC06Tick is the ticker branch of blockHandler: handleCheckSyncPeer.  With aged = true the sync
// peer's lastBlockTime is first moved into the past beyond maxLastBlockTime (the harness never waits
// for the 3 minute timeout); with aged = false it is left as it is (a case never lasts 3 minutes).
func (sm *SyncManager) VerifC06Tick(aged bool) (panicked string) {
	defer func() {
		if r := recover(); r != nil {
			panicked = fmt.Sprint(r)
		}
	}()
	if aged && sm.syncPeerState != nil {
		sm.syncPeerState.lastBlockTime = time.Now().Add(-maxLastBlockTime - time.Minute)
	}
	sm.handleCheckSyncPeer()
	return ""
}

// VerifC06State exposes the sync state machine's variables.
func (sm *SyncManager) VerifC06State() (headersFirst bool, nextHeight int32, nextHash *chainhash.Hash, syncPeer *peerpkg.Peer, nStates int) {
	nextHeight = -1
	if sm.nextCheckpoint != nil {
		nextHeight = sm.nextCheckpoint.Height
		nextHash = sm.nextCheckpoint.Hash
	}
	return sm.headersFirstMode, nextHeight, nextHash, sm.syncPeer, len(sm.peerStates)
}

// VerifC06FindNext is findNextHeaderCheckpoint.
func (sm *SyncManager) VerifC06FindNext(height int32) (int32, *chainhash.Hash) {
	c := sm.findNextHeaderCheckpoint(height)
	if c == nil {
		return -1, nil
	}
	return c.Height, c.Hash
}

// VerifC06Constants returns the timer constants the rig stands in for.
func VerifC06Constants() (maxLastBlock, tick time.Duration) { return maxLastBlockTime, syncPeerTickerInterval }
