//go:build verif

package database

// VerifSQLiteBatchSize exposes the size of the batches in which the SQLite adapter commits
// imported headers (add-only accessor for the C17 check of /verif; the model takes the
// batch size from here on every run).
const VerifSQLiteBatchSize = sqliteBatchSize
