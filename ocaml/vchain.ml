(* Shared driver glue for the chain properties: parsing of history lines (see
   harness/zz_verif/common_chain.go) into the extracted types, and canonical printing. *)
open Vutil

type hist = { gid : BinNums.coq_N; gpl : Store.payload; forbidden : BinNums.coq_N list; subs : Store.src list; extras : string list }

let payload_of bits ver merkle ts nonce : Store.payload =
  { Store.p_bits = z_of_string bits; p_ver = z_of_string ver; p_merkle = n_of_string merkle;
    p_ts = z_of_string ts; p_nonce = z_of_string nonce }

let parse_history (line : string) : hist =
  let toks = Stdlib.List.filter (fun t -> t <> "") (split_on ';' line) in
  let gid = ref (n_of_int 1) and gpl = ref (payload_of "486604799" "1" "1" "1231006505" "2083236893")
  and forb = ref [] and subs = ref [] and extras = ref [] in
  Stdlib.List.iter (fun t ->
      if Stdlib.String.length t >= 2 && Stdlib.String.sub t 0 2 = "g=" then begin
        match split_on ',' (Stdlib.String.sub t 2 (Stdlib.String.length t - 2)) with
        | [i; b; v; m; ts; n] -> gid := n_of_string i; gpl := payload_of b v m ts n
        | _ -> failwith "bad genesis token"
      end else if Stdlib.String.length t >= 2 && Stdlib.String.sub t 0 2 = "f=" then
        forb := Stdlib.List.map n_of_string
            (Stdlib.List.filter (fun x -> x <> "") (split_on ',' (Stdlib.String.sub t 2 (Stdlib.String.length t - 2))))
      else if Stdlib.String.length t >= 2 && Stdlib.String.sub t 0 2 = "x=" then
        extras := Stdlib.String.sub t 2 (Stdlib.String.length t - 2) :: !extras
      else
        match split_on ',' t with
        | [i; p; b; v; m; ts; n] ->
          subs := { Store.s_id = n_of_string i; s_prev = n_of_string p; s_pl = payload_of b v m ts n } :: !subs
        | _ -> failwith ("bad sub " ^ t))
    toks;
  { gid = !gid; gpl = !gpl; forbidden = !forb; subs = Stdlib.List.rev !subs; extras = Stdlib.List.rev !extras }

let st_letter = function Store.Longest -> "L" | Store.Stale -> "S" | Store.Orphan -> "O"

(* rows oldest first (rowid order) *)
let oldest_first (s : Store.store) = Stdlib.List.rev s

let states_string (s : Store.store) =
  Stdlib.String.concat "" (Stdlib.List.map (fun r -> st_letter r.Store.st) (oldest_first s))

let row_string (r : Store.row) =
  Printf.sprintf "%s:%s:%s:%s:%s:%s" (dec_of_n r.Store.id) (dec_of_n r.Store.prev) (dec_of_z r.Store.height)
    (hex_of_z r.Store.work) (hex_of_z r.Store.cum) (st_letter r.Store.st)

let rows_string (s : Store.store) = Stdlib.String.concat "," (Stdlib.List.map row_string (oldest_first s))

let tip_string (s : Store.store) = match Store.tipB s with Some t -> dec_of_n t.Store.id | None -> "-2"

let outcome_string = function
  | Chain.Stored x -> "S" ^ st_letter x
  | Chain.Duplicate -> "D"
  | Chain.Forbidden -> "F"
  | Chain.ErrNoTip -> "EC"

let work_of (h : Store.src) = Work.calc_work h.Store.s_pl.Store.p_bits

(* parse "id:prev:height:workhex:cumhex:st,..." (rowid order) back into a store (newest first) *)
let st_of_letter = function "L" -> Store.Longest | "S" -> Store.Stale | "O" -> Store.Orphan | x -> failwith ("bad state " ^ x)
let dummy_pl : Store.payload = payload_of "0" "0" "0" "0" "0"
let parse_rows (s : string) : Store.store =
  if s = "" then [] else
    Stdlib.List.rev (Stdlib.List.map (fun r ->
        match split_on ':' r with
        | i :: p :: h :: w :: c :: st :: _ ->
          { Store.id = n_of_string i; prev = (if p = "-1" then n_of_string "999999999" else n_of_string p); height = z_of_string h;
            work = z_of_hex w; cum = z_of_hex c; orph = (st = "O"); st = st_of_letter st; pl = dummy_pl }
        | _ -> failwith ("bad row " ^ r)) (split_on ',' s))

(* "x=sparse" histories: labels and tip are recorded at the sampled steps only (same rule as SparseSampled in c01.go) *)
let is_sparse (h : hist) = Stdlib.List.mem "sparse" h.extras
let sparse_sampled i n = i >= n - 3 || (i + 1) mod 97 = 0
