(* C19 driver: runs the extracted Work model and the declarative spec on the harness cases. *)
open Vutil

let model input =
  match words input with
  | ["bits"; v] -> let c = z_of_string v in
    Printf.sprintf "%s %s" (hex_of_z (Work.compact_to_big c)) (hex_of_z (Work.calc_work c))
  | ["log2"; v] -> dec_of_z (Work.fast_log2 (z_of_string v))
  | _ -> "BAD-INPUT"

(* spec oracle applied to the IMPLEMENTATION's observable *)
let spec input obs =
  match words input, words obs with
  | ["bits"; v], [t; w] ->
    let c = z_of_string v in
    let ts = hex_of_z (Work.target_spec c) and ws = hex_of_z (Work.work_spec_fn c) in
    if t <> ts then "FAIL target-mismatch want " ^ ts
    else if w <> ws then "FAIL work-mismatch want " ^ ws else "OK"
  | ["log2"; v], [l] ->
    let n = z_of_string v in
    if n = BinNums.Z0 then "OK" (* the property quantifies over n >= 1 *)
    else let want = dec_of_z (BinInt.Z.log2 n) in
      if l = want then "OK" else "FAIL log2-mismatch want " ^ want
  | _ -> "FAIL malformed-observable"

let () = run_driver model spec
