(* C04 driver: the extracted query models (BHS.Query) on the store obtained by replaying the history
   through the extracted model of chainService.Add, and the extracted declarative oracles applied to the
   IMPLEMENTATION's observed answers.

   The model of GetHeaderAncestorsByHash is the code since the fix ed2f6a2 (Query.ancestors = ancestors_gen true).
   VERIF_C04_FIXED=0 switches to the model of the code BEFORE that fix (Query.ancestors_before_fix) - only useful
   together with VERIF_REPO=<tree without ed2f6a2>. *)
open Vutil
open Vchain
module L = Stdlib.List
module S = Stdlib.String

let fixed = (try Sys.getenv "VERIF_C04_FIXED" with Not_found -> "") <> "0"

(* ---------- input ---------- *)
let is_query t = t <> "" && t.[0] >= 'A' && t.[0] <= 'Z'

let split_input (input : string) : string * string list =
  let toks = L.filter (fun t -> t <> "") (L.map S.trim (split_on ';' input)) in
  let qs = L.filter is_query toks and hs = L.filter (fun t -> not (is_query t)) toks in
  (S.concat ";" hs, qs)

let cache : (string * Store.store) option ref = ref None
let store_of (hline : string) : Store.store =
  match !cache with
  | Some (k, s) when k = hline -> s
  | _ ->
    let h = parse_history hline in
    let s = L.fold_left (fun s sub -> fst (Chain.add h.forbidden s sub)) (Chain.init h.gid h.gpl) h.subs in
    cache := Some (hline, s); s

let kind_arg q = match S.index_opt q '=' with
  | Some i -> (S.sub q 0 i, S.sub q (i + 1) (S.length q - i - 1))
  | None -> (q, "")

(* a hash argument is <id>, or <letter><id>: a string derived from the hash of <id> that is NOT that hash (upper case, zeros
   stripped, padded, ...; see harness/zz_verif/c04.go) - for the model simply a hash that is not stored *)
let id_of_tok (t : string) : BinNums.coq_N =
  if t <> "" && t.[0] >= 'a' && t.[0] <= 'z' then
    n_of_zt (Z.add (Z.of_string "1000000000000")
               (Z.add (Z.mul (Z.of_int 1000) (Z.of_string (S.sub t 1 (S.length t - 1)))) (Z.of_int (Char.code t.[0]))))
  else n_of_string t
(* a list argument may end in *<n>: repeated cyclically up to n elements *)
let ids_of arg =
  if arg = "" then [] else
    let (arg, n) = match S.index_opt arg '*' with
      | Some i -> (S.sub arg 0 i, Some (int_of_string (S.sub arg (i + 1) (S.length arg - i - 1))))
      | None -> (arg, None) in
    let base = L.map id_of_tok (split_on '/' arg) in
    match n with
    | None -> base
    | Some n -> let a = Array.of_list base in L.init n (fun i -> a.(i mod Array.length a))
let int_opt x = try Some (z_of_zt (Z.of_string x)) with _ -> None
let is_num x =
  (* what strconv.Atoi accepts: optional sign, then at least one decimal digit, nothing else, and the value fits a
     64-bit int (otherwise Atoi reports a range error) *)
  let n = S.length x in
  let start = if n > 0 && (x.[0] = '-' || x.[0] = '+') then 1 else 0 in
  n > start && (let ok = ref true in for i = start to n - 1 do if x.[i] < '0' || x.[i] > '9' then ok := false done; !ok)
  && (let v = Z.of_string (if x.[0] = '+' then S.sub x 1 (n - 1) else x) in
      Z.geq v (Z.neg (Z.shift_left Z.one 63)) && Z.lt v (Z.shift_left Z.one 63))

(* ---------- rendering ---------- *)
let hdr_string (r : Store.row) =
  let p = r.Store.pl in
  Printf.sprintf "%s:%s:%s:%s:%s:%s:%s:%s" (dec_of_n r.Store.id) (dec_of_n r.Store.prev) (dec_of_z p.Store.p_ver)
    (dec_of_n p.Store.p_merkle) (dec_of_z p.Store.p_ts) (dec_of_z p.Store.p_bits) (dec_of_z p.Store.p_nonce)
    (dec_of_z r.Store.work)
let state_string (r : Store.row) =
  Printf.sprintf "%s:%s:%s:%s" (hdr_string r) (st_letter r.Store.st) (dec_of_z r.Store.cum) (dec_of_z r.Store.height)
let list_string f rows = "200 [" ^ S.concat " " (L.map f rows) ^ "]"
let sort_by_id rows = L.stable_sort (fun a b -> Z.compare (zt_of_n a.Store.id) (zt_of_n b.Store.id)) rows

let aerr_string = function
  | Query.ENotFound -> "400 ErrHeaderWithGivenHashes"
  | Query.EHigher -> "400 ErrAncestorHashHigher"
  | Query.ENotSame -> "400 ErrHeadersNotPartOfTheSameChain"
  | Query.ERange -> "404 ErrHeadersForGivenRangeNotFound"

let cres_string = function
  | Query.COk r -> "200 " ^ hdr_string r
  | Query.CNil -> "400 ErrAncestorNotFound"
  | Query.CErrNotFound -> "404 ErrHeaderNotFound"
  | Query.CErrAnc -> "400 ErrAncestorNotFound"
  | Query.CPanic -> "500 -"
  | Query.CBind -> "400 ErrBindBody"

(* ---------- model ---------- *)
let model_query (s : Store.store) (q : string) : string =
  let (k, arg) = kind_arg q in
  match k with
  | "D" -> "log=debug"
  | "X" -> "rows " ^ rows_string s
  | "H" -> (match Query.get_by_hash s (id_of_tok arg) with Some r -> "200 " ^ hdr_string r | None -> "404 ErrHeaderNotFound")
  | "S" -> (match Query.get_by_hash s (id_of_tok arg) with Some r -> "200 " ^ state_string r | None -> "404 ErrHeaderNotFound")
  | "L" -> (match Query.tip_longest s with Some r -> "200 " ^ state_string r | None -> "500 -")
  | "T" -> list_string state_string (sort_by_id (Query.tips s))
  | "R" ->
    (match split_on '/' arg with
     | [h; c] ->
       if not (is_num h) then "400 ErrInvalidHeightParam"
       else
         let cnt = if is_num c then int_opt c else None in
         list_string hdr_string (Query.by_height_range s (z_of_string h) cnt)
     | _ -> failwith "bad R")
  | "A" ->
    (match ids_of arg with
     | [a; b] -> (match Query.ancestors_gen fixed s a b with
         | Query.AOk p -> list_string hdr_string p
         | Query.AErr e -> aerr_string e)
     | _ -> failwith "bad A")
  | "C" -> cres_string (Query.common_ancestor_endpoint s (ids_of arg))
  | "B" -> (match arg with
      | "null" -> cres_string (Query.common_ancestor_endpoint s [])
      | _ -> "400 ErrBindBody")
  | _ -> failwith ("unknown query " ^ q)

let model input =
  let (hl, qs) = split_input input in
  let s = store_of hl in
  S.concat ";" (L.map (model_query s) qs @ ["pure"])

(* ---------- spec oracle on the implementation's answers ---------- *)
(* classes of departures that are documented findings; used ONLY to order the report so that an
   undocumented failure in the same batch is never hidden behind a documented one *)
let documented = ["ancestors-orphan-late-parent"; "common-ancestor-orphan-late-parent"]

let status obs = match split_on ' ' obs with c :: _ -> (try int_of_string c with _ -> -1) | [] -> -1
let is_4xx obs = let c = status obs in c >= 400 && c < 500
let payload obs = match S.index_opt obs ' ' with Some i -> S.sub obs (i + 1) (S.length obs - i - 1) | None -> ""

(* parses "[r r r]" into the stored rows with those renderings; None when a rendering is not that of a stored row *)
let rows_of_obs (s : Store.store) (render : Store.row -> string) (txt : string) : Store.row list option =
  let n = S.length txt in
  if n < 2 || txt.[0] <> '[' || txt.[n - 1] <> ']' then None else
    let items = L.filter (fun x -> x <> "") (split_on ' ' (S.sub txt 1 (n - 2))) in
    let find it =
      match split_on ':' it with
      | i :: _ -> (match (try Store.by_hash s (n_of_string i) with _ -> None) with
          | Some r when render r = it -> Some r
          | _ -> None)
      | [] -> None in
    let rs = L.map find items in
    if L.exists (fun x -> x = None) rs then None else Some (L.map (function Some r -> r | None -> assert false) rs)

let irregular_walk (s : Store.store) (t : BinNums.coq_N) : bool =
  (* some parent link on the way down from t is not height-consistent (an orphan whose parent arrived later) *)
  let rec go fuel t =
    if fuel = 0 then false else
      match Store.by_hash s t with
      | None -> false
      | Some x -> (match Store.by_hash s x.Store.prev with
          | None -> false
          | Some p -> (Z.compare (zt_of_z x.Store.height) (Z.succ (zt_of_z p.Store.height)) <> 0) || go (fuel - 1) x.Store.prev) in
  go (L.length s + 1) t

let spec_query (s : Store.store) (q : string) (obs : string) : (string * string) option =
  let (k, arg) = kind_arg q in
  let fail c d = Some (c, q ^ " " ^ d) in
  if obs = "PANIC" then fail "panic-escaped" obs else
  match k with
  | "X" | "D" -> None
  | "H" | "S" ->
    let render = if k = "H" then hdr_string else state_string in
    (match Store.by_hash s (id_of_tok arg) with
     | Some r -> if obs = "200 " ^ render r then None else fail "lookup-wrong" ("got " ^ obs)
     | None -> if status obs = 404 then None else fail "lookup-wrong" ("absent, got " ^ obs))
  | "L" ->
    let ls = L.filter (fun r -> r.Store.st = Store.Longest) s in
    let top = L.filter (fun r -> L.for_all (fun r' -> Z.leq (zt_of_z r'.Store.height) (zt_of_z r.Store.height)) ls) ls in
    if L.exists (fun r -> obs = "200 " ^ state_string r) top then None else fail "tip-longest-wrong" ("got " ^ obs)
  | "T" ->
    if status obs <> 200 then fail "tips-wrong" ("got " ^ obs) else
      (match rows_of_obs s state_string (payload obs) with
       | None -> fail "tips-wrong" ("not stored rows: " ^ obs)
       | Some rows -> if Query.tips_ok s rows then None else fail "tips-wrong" ("got " ^ obs))
  | "R" ->
    (match split_on '/' arg with
     | [h; c] ->
       if not (is_num h) then (if status obs >= 400 then None else fail "by-height-wrong" ("bad height accepted: " ^ obs))
       else if status obs <> 200 then fail "by-height-wrong" ("got " ^ obs)
       else (match rows_of_obs s hdr_string (payload obs) with
           | None -> fail "by-height-wrong" ("not stored rows: " ^ obs)
           | Some rows ->
             let cnt = if is_num c then int_opt c else None in
             if Query.by_height_ok s (z_of_string h) cnt rows then None
             else
               (* height + count - 1 outside the 64-bit range: the class of the defect repaired by 76f1492 (a wrapping sum) *)
               let c' = if is_num c then Z.of_string c else Z.one in
               let e = Z.pred (Z.add (Z.of_string h) c') in
               let two63 = Z.shift_left Z.one 63 in
               if Z.geq e two63 || Z.lt e (Z.neg two63) then fail "by-height-int64-overflow" ("got " ^ obs)
               else fail "by-height-wrong" ("got " ^ obs))
     | _ -> fail "malformed-query" "")
  | "A" ->
    (match ids_of arg with
     | [a; b] ->
       let ra = Store.by_hash s a and rb = Store.by_hash s b in
       let both = ra <> None && rb <> None in
       let descends = both && Query.reach_b s a b in
       let late = irregular_walk s a in
       if status obs = 200 then
         (match rows_of_obs s hdr_string (payload obs) with
          | None -> fail "ancestors-wrong-path" ("not stored rows: " ^ obs)
          | Some p ->
            if Query.path_ok s a b p then None
            else
              let eq_h = (match ra, rb with Some x, Some y -> x.Store.height = y.Store.height && a <> b | _ -> false) in
              if eq_h && p = [] then fail "ancestors-equal-height-empty" "two different headers of equal height: 200 []"
              else if late then fail "ancestors-orphan-late-parent" ("got " ^ obs)
              else fail "ancestors-wrong-path" ("got " ^ obs))
       else if is_4xx obs then
         (if not descends then None
          else if late then fail "ancestors-orphan-late-parent" ("ancestor refused: " ^ obs)
          else fail "ancestors-error-for-descendant" ("got " ^ obs))
       else fail "ancestors-crash" ("got " ^ obs)
     | _ -> fail "malformed-query" "")
  | "C" | "B" ->
    if k = "B" && arg <> "null" then (if is_4xx obs then None else fail "common-ancestor-bad-body" ("got " ^ obs)) else
    let l = if k = "B" then [] else ids_of arg in
    let none_ok () = is_4xx obs || obs = "200 null" in
    if l = [] then (if none_ok () then None else fail "common-ancestor-empty-list-crash" ("got " ^ obs)) else
    let rows = L.map (Store.by_hash s) l in
    if L.exists (fun x -> x = None) rows then (if is_4xx obs then None else fail "common-ancestor-wrong" ("unknown hash, got " ^ obs)) else
    let hs = L.map (function Some r -> r | None -> assert false) rows in
    let mh = Store.min_height hs (z_of_string "2147483647") in
    let cands = Query.ca_candidates s l mh in
    let late = L.exists (irregular_walk s) l in
    if cands = [] then
      (if none_ok () then None
       else if status obs = 200 then fail (if late then "common-ancestor-orphan-late-parent" else "common-ancestor-wrong") ("none exists, got " ^ obs)
       else fail "common-ancestor-none-crash" ("no common ancestor below the minimal height exists, got " ^ obs))
    else
      (let good =
         status obs = 200 &&
         (match rows_of_obs s hdr_string ("[" ^ payload obs ^ "]") with
          | Some [r] -> Query.ca_ok s l mh r
          | _ -> false) in
       if good then None
       else if late then fail "common-ancestor-orphan-late-parent" ("got " ^ obs)
       else fail "common-ancestor-wrong" ("got " ^ obs))
  | _ -> fail "malformed-query" ""

let spec input obs =
  let (hl, qs) = split_input input in
  let s = store_of hl in
  let os = split_on ';' obs in
  if L.length os <> L.length qs + 1 then "FAIL malformed-observable count" else begin
    let fails = ref [] in
    L.iteri (fun i q ->
        match spec_query s q (L.nth os i) with
        | Some f -> fails := f :: !fails
        | None -> ()) qs;
    (match L.nth os (L.length qs) with
     | "pure" -> ()
     | x -> fails := ("read-modified-store", x) :: !fails);
    let fs = L.rev !fails in
    match L.filter (fun (c, _) -> not (L.mem c documented)) fs with
    | (c, d) :: _ -> "FAIL " ^ c ^ " " ^ d
    | [] -> (match fs with (c, d) :: _ -> "FAIL " ^ c ^ " " ^ d | [] -> "OK")
  end

let () = run_driver model spec
