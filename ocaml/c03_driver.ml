(* C03 driver: header hashing through the Gallina SHA-256d of the 80-byte serialisation, and stored
   rows (with payload) after every step / through every read path / after a restart. *)
open Vutil
open Vchain

let bytes_of_hex (s : string) : BinNums.coq_N list =
  let n = Stdlib.String.length s / 2 in
  Stdlib.List.init n (fun i -> n_of_int (int_of_string ("0x" ^ Stdlib.String.sub s (2 * i) 2)))
let hex_of_bytes (l : BinNums.coq_N list) =
  Stdlib.String.concat "" (Stdlib.List.map (fun b -> Printf.sprintf "%02x" (int_of_n b)) l)

let row_full (r : Store.row) =
  let p = r.Store.pl in
  Printf.sprintf "%s:%s:%s:%s:%s:%s:%s:%s:%s:%s:%s" (dec_of_n r.Store.id) (dec_of_n r.Store.prev) (dec_of_z r.Store.height)
    (hex_of_z r.Store.work) (hex_of_z r.Store.cum) (st_letter r.Store.st)
    (dec_of_z p.Store.p_bits) (dec_of_z p.Store.p_ver) (dec_of_n p.Store.p_merkle) (dec_of_z p.Store.p_ts) (dec_of_z p.Store.p_nonce)
let rows_full s = Stdlib.String.concat "," (Stdlib.List.map row_full (oldest_first s))

let model input =
  if Stdlib.String.length input > 4 && Stdlib.String.sub input 0 4 = "hdr " then
    match words input with
    | [_; ver; prev; merkle; ts; bits; nonce] ->
      hex_of_bytes (Header80.block_hash_display (z_of_string ver) (bytes_of_hex prev) (bytes_of_hex merkle)
                      (z_of_string ts) (z_of_string bits) (z_of_string nonce))
    | _ -> "BAD-INPUT"
  else begin
    let h = parse_history input in
    let s = ref (Chain.init h.gid h.gpl) in
    let steps = Stdlib.List.map (fun sub ->
        let (s', o) = Chain.add h.forbidden !s sub in
        s := s'; outcome_string o ^ "/" ^ rows_full s') h.subs in
    let final = rows_full !s in
    let restarted = rows_full (ChainFields.restart h.gid h.gpl !s) in
    Stdlib.String.concat ";" steps ^ "|repo=" ^ final ^ "|http=" ^ final ^ "|restart=" ^ restarted
  end

(* strip the label (6th field) of every row *)
let unlabel rows_s =
  if rows_s = "" then [] else
    Stdlib.List.map (fun r -> match split_on ':' r with
        | [a; b; c; d; e; _; f; g; h; i; j] -> Stdlib.String.concat ":" [a; b; c; d; e; f; g; h; i; j]
        | _ -> "MALFORMED:" ^ r) (split_on ',' rows_s)

let rec is_prefix a b = match a, b with
  | [], _ -> true | x :: a', y :: b' -> x = y && is_prefix a' b' | _ -> false

let spec input obs =
  if Stdlib.String.length input > 4 && Stdlib.String.sub input 0 4 = "hdr " then
    (if model input = obs then "OK" else "FAIL hash-not-sha256d-of-ser80 want " ^ model input)
  else begin
    let h = parse_history input in
    match split_on '|' obs with
    | [steps_s; repo; http; restart] ->
      let steps = if steps_s = "" then [] else split_on ';' steps_s in
      if Stdlib.List.length steps <> Stdlib.List.length h.subs then "FAIL step-count" else begin
        (* the specification's arrival records, label-free *)
        let a = ref (Chain.init h.gid h.gpl) in
        let verdict = ref "OK" in
        let fail c d = if !verdict = "OK" then verdict := "FAIL " ^ c ^ " " ^ d in
        let prev_rows = ref (unlabel (rows_full !a)) in
        Stdlib.List.iteri (fun i (sub, step) ->
            let (a', _) = ChainSpec.spec_step h.forbidden !a sub in
            a := a';
            let rows_s = match Stdlib.String.index_opt step '/' with
              | Some k -> Stdlib.String.sub step (k + 1) (Stdlib.String.length step - k - 1) | None -> step in
            let got = unlabel rows_s in
            if not (is_prefix !prev_rows got) then fail "stored-row-changed-or-vanished" (Printf.sprintf "step %d" i);
            let want = unlabel (rows_full a') in
            if got <> want then fail "derived-fields-or-payload" (Printf.sprintf "step %d want %s" i (Stdlib.String.concat "," want));
            prev_rows := got)
          (Stdlib.List.combine h.subs steps);
        let strip p s = let l = Stdlib.String.length p in
          if Stdlib.String.length s >= l && Stdlib.String.sub s 0 l = p then Stdlib.String.sub s l (Stdlib.String.length s - l) else "NOPREFIX" in
        let last_rows = match Stdlib.List.rev steps with
          | st :: _ -> (match Stdlib.String.index_opt st '/' with Some k -> Stdlib.String.sub st (k + 1) (Stdlib.String.length st - k - 1) | None -> st)
          | [] -> rows_full !a in
        if steps <> [] then begin
          if strip "repo=" repo <> last_rows then fail "repository-read-differs-from-table" "";
          if strip "http=" http <> last_rows then fail "http-read-differs-from-table" "";
          if strip "restart=" restart <> last_rows then fail "restart-modified-store" ""
        end;
        !verdict
      end
    | _ -> "FAIL malformed-observable"
  end

let () = run_driver model spec
