(* C06 driver.  model = the extracted closed system (SyncSys) run on the scenario (same script, same node behaviour,
   the observed sync-peer choices as hints).
   spec  = the declarative statement applied to the IMPLEMENTATION's observed trace and final table:
     convergence (SyncSpec.spec_converged): every header of the best chain of every honest peer that is still reachable
       at the end (connected by the script, not closed, not stalled) is stored, and the reported tip is a LONGEST_CHAIN row
       carrying at least the greatest cumulative work on offer (and at least the work the store started with);
       not required when (the statement's own caveat) some non-empty reply left the tip where it was although it brought
       at least one header the store did not have, when no honest peer is reachable, or when an inv is sent to the
       experimental engine after it asked for headers-announcements;
     safety (C06_multi_partial): every stored header is one of the pre-loaded ones or on some node's chain; the work of the
       reported tip never decreases from event to event; after the done event of the sync peer that peer is not the sync
       peer any more; no handler panics. *)
open Vutil
open Vchain
open C06_sim

let model input = run_model (parse_scenario input)

type nstate = { mutable chain : int list; mutable reserve : int list; mutable connected : bool; mutable closed : bool; mutable stalled : bool }

let rec take n l = if n <= 0 then [] else match l with [] -> [] | x :: r -> x :: take (n - 1) r
let rec drop n l = if n <= 0 then l else match l with [] -> [] | _ :: r -> drop (n - 1) r

let spec input obs_s =
  if starts_with "PANIC" obs_s then "FAIL panic " ^ obs_s else
  let sc = parse_scenario input in
  match parse_obs obs_s with
  | None -> "FAIL malformed-observable"
  | Some o ->
    let u = universe sc in
    let is_x = sc.eng = "x" in
    let verdict = ref "OK" in
    let fail c d = if !verdict = "OK" then verdict := "FAIL " ^ c ^ " " ^ d in
    (* the nodes' own bookkeeping, from the script alone *)
    let ns = Stdlib.List.map (fun n -> (n.np, { chain = n.nchain; reserve = n.nreserve; connected = false; closed = false; stalled = false })) sc.nodes in
    let inv_to_exp = ref false in
    Stdlib.List.iter (fun c ->
        match parse_cmd c with
        | SyncSys.CConnect p -> (try (Stdlib.List.assoc (int_of_n p) ns).connected <- true with Not_found -> ())
        | SyncSys.CClose p -> (try (Stdlib.List.assoc (int_of_n p) ns).closed <- true with Not_found -> ())
        | SyncSys.CStall p -> (try (Stdlib.List.assoc (int_of_n p) ns).stalled <- true with Not_found -> ())
        | SyncSys.CAnnounce (p, k, byinv) ->
          (try let n = Stdlib.List.assoc (int_of_n p) ns in
             let k = int_of_nat k in
             n.chain <- n.chain @ take k n.reserve; n.reserve <- drop k n.reserve;
             if byinv && is_x then inv_to_exp := true
           with Not_found -> ())
        | _ -> ()) sc.cmds;
    let reachable = Stdlib.List.filter (fun (_, n) -> n.connected && not n.closed && not n.stalled) ns in
    let offers = Stdlib.List.map (fun (_, n) -> Stdlib.List.map (src_of u) n.chain) reachable in
    let rows = orows o in
    let gw = Work.calc_work sc.hist.gpl.Store.p_bits in
    let s0 = init_store sc u in
    let own = match Store.tipB s0 with Some t -> t.Store.cum | None -> gw in
    (* ---- safety ---- *)
    let allowed = Hashtbl.create 64 in
    Hashtbl.replace allowed (int_of_n sc.hist.gid) ();
    Stdlib.List.iter (fun i -> Hashtbl.replace allowed i ()) sc.init;
    Stdlib.List.iter (fun (_, n) -> Stdlib.List.iter (fun i -> Hashtbl.replace allowed i ()) n.chain) ns;
    Stdlib.List.iter (fun (i, _, _, _, _) -> if not (Hashtbl.mem allowed i) then fail "stored-header-nobody-offered" (string_of_int i)) o.rows;
    (* the final table: one LONGEST_CHAIN header per height, each the child of the LONGEST_CHAIN header one below *)
    (let ls = Stdlib.List.filter (fun (_, _, _, _, stt) -> stt = "L") o.rows in
     let by_h = Hashtbl.create 64 in
     Stdlib.List.iter (fun (i, _, h, _, _) ->
         (match Hashtbl.find_opt by_h h with
          | Some j -> fail "two-longest-chain-headers-at-one-height" (Printf.sprintf "height %d: %d and %d" h j i)
          | None -> ());
         Hashtbl.replace by_h h i) ls;
     Stdlib.List.iter (fun (i, p, h, _, _) ->
         if h > 0 && Hashtbl.find_opt by_h (h - 1) <> Some p then
           fail "longest-chain-not-linked" (Printf.sprintf "header %d at height %d: parent %d is not the longest-chain header below" i h p)) ls);
    let cum_of = Hashtbl.create 64 in
    Stdlib.List.iter (fun (i, _, _, cum, _) -> Hashtbl.replace cum_of i (zt_of_z (z_of_hex cum))) o.rows;
    let tip_idx = if is_x then 5 else 3 in
    let tip_of st = try int_of_string (Stdlib.List.nth st tip_idx) with _ -> -2 in
    let sync_of st = if is_x then 0 else (try int_of_string (Stdlib.List.nth st 2) with _ -> 0) in
    let prev_state = ref o.init_state in
    let prev_tip = ref (if is_x then (match Store.tipB s0 with Some t -> int_of_n t.Store.id | None -> -2) else tip_of o.init_state) in
    let caveat = ref false in
    let svc_dropped = ref false in       (* the service disconnected some peer *)
    let asked = Hashtbl.create 8 in      (* peers that were sent a getheaders at some point *)
    let known = Hashtbl.create 64 in
    Stdlib.List.iter (fun i -> Hashtbl.replace known i ()) sc.init;
    let filtered_inv = ref None in
    (* an inv of a connected peer that is not the sync peer, answered with no request although the chain was CURRENT by the
       statement's own definition (tip at or above the last checkpoint's height, tip timestamp within 24 h of the rig's clock) *)
    let ignored_current_inv = ref [] in
    let th = tree_height sc u in
    let last_cp_h = Stdlib.List.fold_left (fun a (h, _) -> max a h) 0 sc.cps in
    let ts_of i = if i = int_of_n sc.hist.gid then zt_of_z sc.hist.gpl.Store.p_ts
      else (match Hashtbl.find_opt u i with Some (sr : Store.src) -> zt_of_z sr.Store.s_pl.Store.p_ts | None -> Z.zero) in
    let decl_current tipid = (match th tipid with Some h -> h >= last_cp_h | None -> false)
                             && Z.geq (ts_of tipid) (Z.sub (zt_of_z rig_now) (Z.of_int 86400)) in
    Stdlib.List.iter (fun step -> Stdlib.List.iter (fun (e : obs_event) ->
        if Stdlib.List.mem "P" e.effs then fail "panic" e.label;
        if Stdlib.List.exists (fun eff -> String.length eff >= 2 && eff.[0] = 'X') e.effs then svc_dropped := true;
        Stdlib.List.iter (fun eff -> match parse_g eff with Some (q, _, _) -> Hashtbl.replace asked q () | None -> ()) e.effs;
        let t = tip_of e.state in
        (match Hashtbl.find_opt cum_of !prev_tip, Hashtbl.find_opt cum_of t with
         | Some a, Some b -> if Z.lt b a then fail "tip-work-decreased" e.label
         | _ -> ());
        if e.kind = 'Q' && (not is_x) && sync_of !prev_state = e.peer && sync_of e.state = e.peer then fail "lost-sync-peer-kept" e.label;
        if e.kind = 'H' && e.batch <> [] then begin
          (* the caveat of the statement: a reply that was ingested (some new header of it is in the table, the sender
             was not dropped in that step) but contained no header that joined the longest chain *)
          let fresh_stored = Stdlib.List.exists (fun i -> not (Hashtbl.mem known i) && Hashtbl.mem cum_of i) e.batch in
          let dropped = Stdlib.List.mem ("X" ^ string_of_int e.peer) e.effs in
          if fresh_stored && (not dropped) && t = !prev_tip then caveat := true;
          Stdlib.List.iter (fun i -> Hashtbl.replace known i ()) e.batch
        end;
        if e.kind = 'I' && (not is_x) && sync_of !prev_state <> e.peer && g_effs_empty e.effs && decl_current !prev_tip then
          (match Stdlib.List.rev e.batch with last :: _ -> ignored_current_inv := (e.peer, last) :: !ignored_current_inv | [] -> ());
        if e.kind = 'I' && (not is_x) && sync_of !prev_state = e.peer && g_effs_empty e.effs then
          (match Stdlib.List.rev e.batch with last :: _ -> filtered_inv := Some last | [] -> ());
        prev_tip := t; prev_state := e.state) step) o.steps;
    (* ---- convergence ---- *)
    (* convergence is a statement about the quiescent system: the script has to end with a run command *)
    let ends_with_run = (match Stdlib.List.rev sc.cmds with c :: _ -> c.[0] = 'R' | [] -> false) in
    if !verdict = "OK" && reachable <> [] && not !caveat && not !inv_to_exp && ends_with_run then begin
      if not (SyncSpec.spec_converged gw own offers rows (n_of_int o.tip)) then begin
        let stored i = Stdlib.List.exists (fun (j, _, _, _, _) -> i = j) o.rows in
        let best = zt_of_z (SyncSpec.best_offer gw offers) in
        let final_sync = sync_of !prev_state in
        let sync_lags = (try let n = Stdlib.List.assoc final_sync ns in
                           Z.lt (zt_of_z (SyncSpec.chain_cum gw (Stdlib.List.map (src_of u) n.chain))) best with Not_found -> false) in
        let detail = Printf.sprintf "tip=%d best-offer-work=%s" o.tip (Z.format "%x" best) in
        if (not is_x) && sc.dis && !svc_dropped then fail "checkpoints-disabled-peer-disconnected" detail
        else if (match !filtered_inv with Some i -> not (stored i) | None -> false) then fail "sync-peer-announcement-ignored" detail
        else if Stdlib.List.exists (fun (q, i) -> not (stored i) && Stdlib.List.mem_assoc q reachable) !ignored_current_inv
        then fail "current-announcement-ignored" detail   (* announced by a connected conformant peer while current, never requested, never stored *)
        else if sync_lags && not (Stdlib.List.exists (fun (q, n) ->
            Hashtbl.mem asked q && Z.equal (zt_of_z (SyncSpec.chain_cum gw (Stdlib.List.map (src_of u) n.chain))) best) reachable)
        then fail "lagging-sync-peer-kept" detail      (* the known finding: a better peer is NEVER asked *)
        else fail "not-converged" detail
      end
    end;
    if !verdict = "OK" then
      Printf.sprintf "OK reachable=%d caveat=%b" (Stdlib.List.length reachable) !caveat
    else !verdict

let () = run_driver model spec
