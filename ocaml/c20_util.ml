(* C20: the line-oriented driver loop of vutil.ml (iter_lines, run_driver, split_on), copied verbatim except
   that the OCaml standard String module is named Stdlib.String everywhere: the C20 extraction contains Coq's
   String module (String.ml), which shadows it, and vutil.ml (z_of_hex) then does not compile.  The driver
   therefore does not reference Vutil. *)
let split_on c s = Stdlib.String.split_on_char c s

let iter_lines file f =
  let ic = open_in file in
  (try
     while true do
       let l = input_line ic in
       match Stdlib.String.index_opt l '\t' with
       | Some i -> f (Stdlib.String.sub l 0 i) (Stdlib.String.sub l (i + 1) (Stdlib.String.length l - i - 1))
       | None -> if l <> "" then f l ""
     done
   with End_of_file -> ());
  close_in ic

let run_driver (model : string -> string) (spec : string -> string -> string) =
  let cases = Sys.argv.(1) and impl = Sys.argv.(2) and mout = Sys.argv.(3) and sout = Sys.argv.(4) in
  let tbl = Hashtbl.create 100000 in
  iter_lines impl (fun id obs -> Hashtbl.replace tbl id obs);
  let mo = open_out mout and so = open_out sout in
  iter_lines cases (fun id input ->
      let m = try model input with e -> "MODEL-EXCEPTION " ^ Printexc.to_string e in
      Printf.fprintf mo "%s\t%s\n" id m;
      let obs = try Hashtbl.find tbl id with Not_found -> "MISSING" in
      let v = try spec input obs with e -> "FAIL oracle-exception " ^ Printexc.to_string e in
      Printf.fprintf so "%s\t%s\n" id v);
  close_out mo; close_out so
