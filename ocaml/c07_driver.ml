(* C07 driver.  model = the extracted closed system (SyncSys) run on the scenario.
   spec  = the declarative statement of C07 applied to the IMPLEMENTATION's observed trace and final table:
     R1 no forbidden hash is stored, and GET /chain/header/<hash> answers 404 for each           (SyncSpec.spec_forbidden_absent)
     R2 every stored header whose parent is forbidden is an ORPHAN                                (SyncSpec.spec_desc_orphan)
     R3 a ban comes with a disconnect; nothing is requested from a peer after it was disconnected
     R4 a batch whose first offending header is forbidden: the sender is disconnected (and banned by the default
        engine) in that very step and nothing is requested in it
     R5 a batch whose first offending header contradicts the next checkpoint: disconnected, nothing requested
     R5' (independent of the cursor the implementation reports) a batch that extends the tip header by header and whose
        header at the height of the least checkpoint above the tip differs from that checkpoint: the sender is disconnected
     Rb a header contradicting ANY checkpoint that joins the longest chain in a step (delivered in that step or lying stale from
        before, by whichever peer): the sender of that step is disconnected and nothing is requested from it
     R6 every request made while handling headers carries the hash of the checkpoint the cursor points at, the zero
        hash when none is left (SyncSpec.spec_stop); a clean batch containing the expected checkpoint moves the cursor
        to the least checkpoint above it (SyncSpec.spec_advance) *)
open Vutil
open Vchain
open C06_sim

let model input = run_model (parse_scenario input)

let has_prefix_eff pre p effs = Stdlib.List.mem (pre ^ string_of_int p) effs
let g_effs effs = Stdlib.List.filter_map parse_g effs

let spec input obs_s =
  if starts_with "PANIC" obs_s then "FAIL panic " ^ obs_s else
  let sc = parse_scenario input in
  match parse_obs obs_s with
  | None -> "FAIL malformed-observable"
  | Some o ->
    let u = universe sc in
    let th = tree_height sc u in
    let forb = Stdlib.List.map int_of_n sc.hist.forbidden in
    let is_forb i = Stdlib.List.mem i forb in
    let cps = coq_cps sc in
    let cp_id_at h = try Some (Stdlib.List.assoc h sc.cps) with Not_found -> None in
    let verdict = ref "OK" in
    let fail c d = if !verdict = "OK" then verdict := "FAIL " ^ c ^ " " ^ d in
    let n_contra = ref 0 and n_forb = ref 0 and n_adv = ref 0 and n_adopt = ref 0 in
    let caveat = ref false and n_conv = ref 0 and n_promoted = ref 0 in
    let stored_final = Hashtbl.create 64 in
    Stdlib.List.iter (fun (i, _, _, _, _) -> Hashtbl.replace stored_final i ()) o.rows;
    (* R1, R2 *)
    let rows = orows o in
    if not (SyncSpec.spec_forbidden_absent sc.hist.forbidden rows) then fail "forbidden-stored" "a forbidden hash is in the headers table";
    Stdlib.List.iter (fun (i, code) -> if code <> 404 then fail "forbidden-served" (Printf.sprintf "GET header %d -> %d" i code)) o.http;
    if not (SyncSpec.spec_desc_orphan sc.hist.forbidden rows) then fail "forbidden-descendant-not-orphan" "";
    if not (SyncSpec.spec_desc_orphan_all sc.hist.forbidden rows) then fail "forbidden-descendant-not-orphan" "(at depth >= 2)";
    (* the final table: one LONGEST_CHAIN header per height, each the child of the LONGEST_CHAIN header one below *)
    (let ls = Stdlib.List.filter (fun (_, _, _, _, stt) -> stt = "L") o.rows in
     let by_h = Hashtbl.create 64 in
     Stdlib.List.iter (fun (i, _, h, _, _) ->
         (match Hashtbl.find_opt by_h h with
          | Some j -> fail "two-longest-chain-headers-at-one-height" (Printf.sprintf "height %d: %d and %d" h j i)
          | None -> ());
         Hashtbl.replace by_h h i) ls;
     Stdlib.List.iter (fun (i, p, h, _, _) ->
         if h > 0 && Hashtbl.find_opt by_h (h - 1) <> Some p then
           fail "longest-chain-not-linked" (Printf.sprintf "header %d at height %d: parent %d is not the longest-chain header below" i h p)) ls);
    (* the trace *)
    let is_x = sc.eng = "x" in
    let next_of st = if is_x then (match st with h :: _ -> int_of_string h | [] -> -1)
      else (match st with _ :: n :: _ -> int_of_string n | _ -> -1) in
    let tip_of st = try int_of_string (Stdlib.List.nth st (if is_x then 5 else 3)) with _ -> -2 in
    let hfm_of st = is_x || (match st with h :: _ -> h = "1" | [] -> false) in
    let known = Hashtbl.create 64 in
    Stdlib.List.iter (fun i -> Hashtbl.replace known i ()) sc.init;
    (* headers stored as NON-ORPHANS so far (their parent was stored as a non-orphan when they arrived) *)
    let connected = Hashtbl.create 64 in
    Hashtbl.replace connected (int_of_n sc.hist.gid) ();
    let parent_of i = (match Hashtbl.find_opt u i with Some (sr : Store.src) -> int_of_n sr.Store.s_prev | None -> -1) in
    Stdlib.List.iter (fun i -> if Hashtbl.mem connected (parent_of i) then Hashtbl.replace connected i ()) sc.init;
    let dropped = Hashtbl.create 8 in
    let prev_state = ref o.init_state in
    (* experimental engine: every connection has its own cursor; the tip is shared *)
    let peer_state : (int, string list) Hashtbl.t = Hashtbl.create 8 in
    let cur_state p = if is_x then (match Hashtbl.find_opt peer_state p with Some st -> st | None -> ["-"]) else !prev_state in
    let ancestors tip = (* ancestor-or-self ids of tip inside the universe *)
      let rec go acc n i = if n > 100000 then acc else match Hashtbl.find_opt u i with
        | Some (sr : Store.src) -> go (i :: acc) (n + 1) (int_of_n sr.Store.s_prev) | None -> i :: acc in
      go [] 0 tip in
    let last_contain = ref (-1) in       (* index of the last command during which a forbidden / contradicting header was delivered *)
    let contain_tip = ref (-1) in
    Stdlib.List.iteri (fun step_idx step -> let before = !n_forb + !n_contra in Stdlib.List.iter (fun (e : obs_event) ->
        let p = e.peer in
        let gs = g_effs e.effs in
        (* R3 *)
        Stdlib.List.iter (fun (q, _, _) ->
            if Hashtbl.mem dropped q then fail "request-after-disconnect" (Printf.sprintf "%s asks peer %d again" e.label q)) gs;
        Stdlib.List.iter (fun eff ->
            if Stdlib.String.length eff > 1 && eff.[0] = 'B' then begin
              let q = int_of_string (after 1 eff) in
              if not (has_prefix_eff "X" q e.effs) then fail "ban-without-disconnect" e.label
            end) e.effs;
        (* Rb: a header that contradicts a checkpoint (any checkpoint of the list, delivered by any connected peer, now or
           earlier) must not JOIN THE LONGEST CHAIN with the sender of the step kept: if after this step the reported tip has
           an ancestor-or-self at a checkpoint height whose hash differs from the checkpoint, and it was not there before,
           the sender of this step is disconnected and nothing is requested from it *)
        if e.kind = 'H' then begin
          let before = ancestors (tip_of !prev_state) and after_ = ancestors (tip_of e.state) in
          let bad i = (match th i with Some h -> (match cp_id_at h with Some c -> c <> i | None -> false) | None -> false) in
          let newly = Stdlib.List.filter (fun i -> bad i && not (Stdlib.List.mem i before)) after_ in
          if newly <> [] && tip_of !prev_state >= 0 then begin
            incr n_adopt;
            if not (has_prefix_eff "X" p e.effs) then begin
              (* the default engine only ever looks at the checkpoint its cursor points at: a branch contradicting an ALREADY PASSED
                 checkpoint that overtakes the tip is adopted (known finding C07-passed-checkpoint-fork-adopted) *)
              let hc = (match th (Stdlib.List.hd newly) with Some h -> h | None -> -1) in
              let cls = if (not is_x) && next_of !prev_state <> hc then "passed-checkpoint-contradiction-adopted" else "checkpoint-contradicting-header-adopted" in
              fail cls (Printf.sprintf "%s: header %d joined the longest chain, sender kept" e.label (Stdlib.List.hd newly))
            end;
            if Stdlib.List.exists (fun (q, _, _) -> q = p) gs then fail "request-after-checkpoint-contradiction" e.label
          end
        end;
        if e.kind = 'H' && e.batch <> [] then begin
          let nh = if is_x && cur_state p = ["-"] then -1 else next_of (cur_state p) in
          let fresh i = not (Hashtbl.mem known i) in
          (* contradicts ANY checkpoint of the list: tree height = a checkpoint's height, another hash *)
          let bad_height i = (match th i with Some h -> (match cp_id_at h with Some c -> c <> i | None -> false) | None -> false) in
          let matches i = fresh i && nh >= 0 && th i = Some nh && cp_id_at nh = Some i in
          (* does the batch extend the tip header by header (so that every header becomes LONGEST_CHAIN)? *)
          let linear_on_tip =
            let rec go prev = function
              | [] -> true
              | i :: r -> fresh i && (match Hashtbl.find_opt u i with Some (s : Store.src) -> int_of_n s.Store.s_prev = prev | None -> false) && go i r in
            go (tip_of !prev_state) e.batch in
          (* the first offending header of the batch; [ingested] = the headers stored as non-orphans before it (and itself
             when it is a contradicting one: both engines store first and compare afterwards) *)
          let rec first_bad newly = function
            | [] -> (`None, newly)
            | i :: r ->
              if is_forb i then (`Forb, newly)
              else begin
                let conn = Hashtbl.mem connected (parent_of i) || Stdlib.List.mem (parent_of i) newly in
                if fresh i && conn && bad_height i then (`Contra, i :: newly)
                else first_bad (if conn then i :: newly else newly) r
              end in
          let (verdict_of_batch, ingested) = first_bad [] e.batch in
          let active = hfm_of !prev_state in
          (* R5': the checkpoint the engine OUGHT to be waiting for = least checkpoint above the tip's height (SyncNode.least_above) *)
          (match th (tip_of !prev_state) with
           | Some tiph when linear_on_tip && hfm_of !prev_state ->
             (match SyncNode.least_above cps (z_of_int tiph) with
              | Some (hz, cidn) ->
                let hh = int_of_z hz and cid = int_of_n cidn in
                let rec scan pos = function
                  | [] -> ()
                  | i :: r ->
                    if is_forb i then ()
                    else if tiph + pos = hh then
                      (if i <> cid then incr n_contra;
                       if i <> cid && not (has_prefix_eff "X" p e.effs) then
                         fail "checkpoint-contradiction-accepted" (Printf.sprintf "%s: header %d at height %d, checkpoint %d" e.label i hh cid))
                    else scan (pos + 1) r in
                scan 1 e.batch
              | None -> ())
           | _ -> ());
          (match verdict_of_batch with
           | `Forb ->
             incr n_forb;
             if not (has_prefix_eff "X" p e.effs) then fail "forbidden-sender-not-disconnected" e.label;
             if (not is_x) && active && not (has_prefix_eff "B" p e.effs) then fail "forbidden-sender-not-banned" e.label;
             if Stdlib.List.exists (fun (q, _, _) -> q = p) gs then fail "request-after-forbidden" e.label
           | `Contra ->
             (* as the property states it: every delivery of a non-orphan header that differs from the checkpoint at its height -
                the cursor's or any other, stale or longest, either engine - gets its sender disconnected in that step *)
             if active then begin
               incr n_contra;
               if not (has_prefix_eff "X" p e.effs) then fail "checkpoint-mismatch-not-disconnected" e.label;
               if Stdlib.List.exists (fun (q, _, _) -> q = p) gs then fail "request-after-checkpoint-mismatch" e.label
             end
           | `None ->
             (* a clean batch that holds the header matching the expected checkpoint advances the cursor: when the batch extends
                the tip header by header, and (default engine, which counts the matching header whatever its state on arrival)
                also when the matching header arrives beside the tip - e.g. as a STALE sibling of a contained contradicting
                header - and is on the longest chain once the batch has been handled (its child won the reorganisation) *)
             let promoted = (not is_x) && (let anc = ancestors (tip_of e.state) in
                                           Stdlib.List.exists (fun i -> matches i && Stdlib.List.mem i anc) e.batch) in
             if active && ((linear_on_tip && Stdlib.List.exists matches e.batch) || promoted) then begin
               if promoted && not linear_on_tip then incr n_promoted;
               let nh_after = next_of e.state in
               incr n_adv;
               if not (SyncSpec.spec_advance cps (z_of_int nh) (z_of_int nh_after)) then
                 fail "cursor-not-advanced" (Printf.sprintf "%s: next checkpoint %d -> %d" e.label nh nh_after)
             end);
          (* R6: stop hash of requests made while handling headers *)
          Stdlib.List.iter (fun (q, _, stop) ->
              if q = p && not (SyncSpec.spec_stop cps (z_of_int (next_of e.state)) (n_of_int stop)) then
                fail "wrong-stop-hash" (Printf.sprintf "%s: stop %d while next checkpoint height is %d" e.label stop (next_of e.state))) gs;
          (* the caveat of the statement: a reply that was ingested, brought something new, and left the tip where it was *)
          if Stdlib.List.exists (fun i -> fresh i && Hashtbl.mem stored_final i) e.batch && not (has_prefix_eff "X" p e.effs)
             && tip_of e.state = tip_of !prev_state then begin
            (* ... which excuses only if ONE reply of the sender's reply cap, starting after the point where its chain leaves
               what the store has, would not have overtaken the tip either (the statement: "adopted when one reply suffices") *)
            let work_of i = (match Hashtbl.find_opt u i with Some (sr : Store.src) -> zt_of_z (Work.calc_work sr.Store.s_pl.Store.p_bits) | None -> Z.zero) in
            let rec tree_cum n i = if n > 100000 || i = int_of_n sc.hist.gid then zt_of_z (Work.calc_work sc.hist.gpl.Store.p_bits)
              else Z.add (work_of i) (tree_cum (n + 1) (parent_of i)) in
            let tipcum = tree_cum 0 (tip_of !prev_state) in
            let suffices = (match Stdlib.List.find_opt (fun n -> n.np = p) sc.nodes with
                | Some n ->
                  let chain = n.nchain @ n.nreserve in
                  let rec from_first = function [] -> [] | (i :: _) as l when fresh i -> l | _ :: r -> from_first r in
                  let rec take k = function [] -> [] | x :: r -> if k <= 0 then [] else x :: take (k - 1) r in
                  Stdlib.List.exists (fun i -> th i <> None && Z.gt (tree_cum 0 i) tipcum) (take n.ncap (from_first chain))
                | None -> false) in
            if not suffices then caveat := true
          end;
          if active then Stdlib.List.iter (fun i -> Hashtbl.replace connected i ()) ingested;
          Stdlib.List.iter (fun i -> Hashtbl.replace known i ()) e.batch
        end;
        if is_x && e.kind = 'N' then
          Stdlib.List.iter (fun (_, _, stop) ->
              if not (SyncSpec.spec_stop cps (z_of_int (next_of e.state)) (n_of_int stop)) then fail "wrong-stop-hash" e.label) gs;
        Stdlib.List.iter (fun eff -> if Stdlib.String.length eff > 1 && eff.[0] = 'X' then Hashtbl.replace dropped (int_of_string (after 1 eff)) ()) e.effs;
        if Stdlib.List.mem "P" e.effs then fail "panic" e.label;
        Hashtbl.replace peer_state p e.state;
        prev_state := e.state) step;
        if !n_forb + !n_contra > before then begin last_contain := step_idx; contain_tip := tip_of !prev_state end) o.steps;
    (* ---- last clause of C07: after either event the service still converges on an honest peer's chain.
       Evaluated for the default engine, and for the experimental one with respect to honest peers whose session starts
       after the last containment event (it has no second peer to turn to by design), on scripts that end with
       a run to quiescence, when some sender was dropped for a forbidden or checkpoint-contradicting header and an honest peer
       (its chain holds no forbidden and no checkpoint-contradicting header) is connected and neither closed nor stalled by the
       script: every header of the honest peers' best chain is stored and the tip carries at least that work
       (SyncSpec.spec_converged); the statement's own caveat (an ingested reply without any longest-chain header ends the
       conversation) exempts, as in C06 ---- *)
    let ends_with_run = (match Stdlib.List.rev sc.cmds with c :: _ -> c.[0] = 'R' | [] -> false) in
    if !verdict = "OK" && ends_with_run && (!n_forb > 0 || !n_contra > 0) then begin
      let rec take n l = if n <= 0 then [] else match l with [] -> [] | x :: r -> x :: take (n - 1) r in
      let rec drop n l = if n <= 0 then l else match l with [] -> [] | _ :: r -> drop (n - 1) r in
      let st = Stdlib.List.map (fun n -> (n.np, (ref n.nchain, ref n.nreserve, ref false, ref false))) sc.nodes in
      Stdlib.List.iteri (fun ci c ->
          match parse_cmd c with
          | SyncSys.CConnect q ->
            (* the experimental engine never turns to another connected peer by design: only a session that STARTS after the
               last containment event is expected to bring the service onto the honest chain *)
            if (not is_x) || ci > !last_contain then
              (try let (_, _, conn, _) = Stdlib.List.assoc (int_of_n q) st in conn := true with Not_found -> ())
          | SyncSys.CClose q | SyncSys.CStall q -> (try let (_, _, _, gone) = Stdlib.List.assoc (int_of_n q) st in gone := true with Not_found -> ())
          | SyncSys.CAnnounce (q, k, _) ->
            (try let (ch, rs, _, _) = Stdlib.List.assoc (int_of_n q) st in
               let k = int_of_nat k in ch := !ch @ take k !rs; rs := drop k !rs with Not_found -> ())
          | _ -> ()) sc.cmds;
      let bad_anywhere i = Stdlib.List.exists is_forb (ancestors i) (* forbidden, or a descendant of a forbidden header *) || (match th i with Some h -> (match cp_id_at h with Some c -> c <> i | None -> false) | None -> true) in
      let honest = Stdlib.List.filter (fun (_, (ch, _, conn, gone)) -> !conn && not !gone && !ch <> [] && not (Stdlib.List.exists bad_anywhere !ch)) st in
      if honest <> [] && not !caveat then begin
        incr n_conv;
        let offers = Stdlib.List.map (fun (_, (ch, _, _, _)) -> Stdlib.List.map (src_of u) !ch) honest in
        let gw = Work.calc_work sc.hist.gpl.Store.p_bits in
        (* "own" of spec_converged: the work the store already had when the misbehaving sender was dropped - the valid
           headers it delivered BEFORE the forbidden / contradicting one stay stored, and an honest peer whose chain
           carries less work than that has nothing the service must fetch.  Measured at the nearest ancestor-or-self
           of the tip at that moment that is neither forbidden-descended nor checkpoint-contradicting. *)
        let work_of' i = (match Hashtbl.find_opt u i with Some (sr : Store.src) -> zt_of_z (Work.calc_work sr.Store.s_pl.Store.p_bits) | None -> Z.zero) in
        let gid' = int_of_n sc.hist.gid in
        let rec cum' n i = if n > 100000 || i = gid' || i < 0 then zt_of_z gw else Z.add (work_of' i) (cum' (n + 1) (parent_of i)) in
        let rec good_anc n i = if n > 100000 || i = gid' || i < 0 then gid' else if bad_anywhere i then good_anc (n + 1) (parent_of i) else i in
        let own = z_of_zt (cum' 0 (good_anc 0 !contain_tip)) in
        if not (SyncSpec.spec_converged gw own offers rows (n_of_int o.tip)) then
          fail "not-converged-after-containment" (Printf.sprintf "tip=%d honest peers=%s" o.tip
                                                    (Stdlib.String.concat "," (Stdlib.List.map (fun (q, _) -> string_of_int q) honest)))
      end
    end;
    if !verdict = "OK" then Printf.sprintf "OK forbidden-deliveries=%d contradictions=%d advances=%d adoptions-refused=%d converged-after-containment=%d advances-by-promoted-checkpoint-header=%d" !n_forb !n_contra !n_adv !n_adopt !n_conv !n_promoted else !verdict

let () = run_driver model spec
