(* C11 driver: runs the extracted model of ingestion + notifier (Notify.step) under a pseudo-random
   schedule derived from the case's n, and applies the extracted spec oracle (Notify.check_channel,
   Notify.row_matches_src) to the implementation's observations. *)
open Vutil
open Vchain

type case = { chans : (string * string) list; n : int; h : hist; subs_f : (Store.src * Notify.fault) list }

let starts_with p s = Stdlib.String.length s >= Stdlib.String.length p && Stdlib.String.sub s 0 (Stdlib.String.length p) = p
let drop k s = Stdlib.String.sub s k (Stdlib.String.length s - k)

let parse_fault s =
  let k = nat_of_int (int_of_string (drop 1 s)) in
  match s.[0] with
  | 'b' -> Notify.FailBefore k
  | 'a' -> Notify.FailAfter k
  | 'c' -> Notify.FailBefore k        (* COMMIT of the k-th write fails: see resolve_commit_faults *)
  | _ -> failwith ("bad fault " ^ s)

let parse_case (line : string) : case =
  let bar = Stdlib.String.index line '|' in
  let head = Stdlib.String.sub line 0 bar and hist = drop (bar + 1) line in
  let chans = ref [] and n = ref 0 in
  Stdlib.List.iter (fun part ->
      if starts_with "c=" part then
        chans := Stdlib.List.map (fun x -> match split_on ':' x with [k; b] -> (k, b) | _ -> failwith ("bad channel " ^ x))
            (Stdlib.List.filter (fun x -> x <> "") (split_on ',' (drop 2 part)))
      else if starts_with "n=" part then n := int_of_string (drop 2 part)
      else failwith ("bad head part " ^ part))
    (split_on '/' head);
  (* strip the optional 8th field of every submission *)
  let faults = ref [] and commit_level = ref [] in
  (* X = restart of the process on the same database: nothing changes for the model (the store persists, the
     channels are registered again) *)
  let toks = Stdlib.List.filter (fun t -> t <> "" && t <> "X") (split_on ';' hist) in
  (* L<first>,<prev>,<count>,<bits> = a run of headers, see harness/zz_verif/c11.go *)
  let toks = Stdlib.List.concat_map (fun t ->
      if starts_with "L" t then
        match Stdlib.List.map int_of_string (split_on ',' (drop 1 t)) with
        | [first; prev; count; bits] ->
          Stdlib.List.init count (fun i ->
              let id = first + i in
              let pr = if i = 0 then prev else id - 1 in
              Printf.sprintf "%d,%d,%d,1,%d,%d,%d" id pr bits (id + 100000) (1600000000 + i) i)
        | _ -> failwith ("bad run token " ^ t)
      else [t]) toks in
  let toks' = Stdlib.List.map (fun t ->
      if starts_with "g=" t || starts_with "f=" t then t
      else match split_on ',' t with
        | [a; b; c; d; e; f; g; x] ->
          faults := parse_fault x :: !faults; commit_level := (x.[0] = 'c') :: !commit_level;
          Stdlib.String.concat "," [a; b; c; d; e; f; g]
        | _ -> faults := Notify.NoFault :: !faults; commit_level := false :: !commit_level; t) toks in
  let h = parse_history (Stdlib.String.concat ";" toks') in
  (* A COMMIT-level fault on the k-th write call is the model's "k-th planned write fails without having happened"
     (the transaction is rolled back) - EXCEPT when that write is an UpdateState of no hashes: the SQL layer
     returns before opening a transaction (database/sql/headers.go UpdateState), so there is no COMMIT to fail.
     Which one it is depends on the store at that moment: resolved by running the extracted model along. *)
  let s = ref (Chain.init h.gid h.gpl) in
  let subs_f = Stdlib.List.map2 (fun sub (x, cl) ->
      let x' =
        if not cl then x else
          match x with
          | Notify.FailBefore kk ->
            let (_, ws) = Chain.plan h.forbidden !s sub in
            (match Stdlib.List.nth_opt ws (int_of_nat kk) with
             | Some (Chain.WUpdate ([], _)) -> Notify.NoFault
             | _ -> x)
          | _ -> x in
      let ((s', _), _) = Notify.add_f h.forbidden !s sub x' in
      s := s';
      (sub, x')) h.subs (Stdlib.List.combine (Stdlib.List.rev !faults) (Stdlib.List.rev !commit_level)) in
  { chans = !chans; n = !n; h; subs_f }

(* hang = a slow channel that is never released; late = ok (the target answers 200, only later) *)
let beh_of = function
  | "ok" | "late" -> Notify.BOk | "err" -> Notify.BErr | "slow" | "hang" -> Notify.BSlow
  | b -> failwith ("bad behaviour " ^ b)

let cfg_of (k : case) : Notify.cfg =
  let behs = Stdlib.Array.of_list (Stdlib.List.map (fun (_, b) -> beh_of b) k.chans) in
  { Notify.c_forbidden = k.h.forbidden;
    c_chans = Stdlib.List.mapi (fun i _ -> nat_of_int i) k.chans;
    c_beh = (fun c -> let i = int_of_nat c in if i < Stdlib.Array.length behs then behs.(i) else Notify.BOk) }

(* id:prev:height:cumhex:state:version:merkle:nonce:ts *)
let rowlike id prev height cum st ver merkle nonce ts =
  Printf.sprintf "%s:%s:%s:%s:%s:%s:%s:%s:%s" (dec_of_n id) (dec_of_n prev) (dec_of_z height) (hex_of_z cum)
    (st_letter st) (dec_of_z ver) (dec_of_n merkle) (dec_of_z nonce) (dec_of_z ts)

let row_str (r : Store.row) =
  let p = r.Store.pl in
  rowlike r.Store.id r.Store.prev r.Store.height r.Store.cum r.Store.st p.Store.p_ver p.Store.p_merkle p.Store.p_nonce p.Store.p_ts

let event_str (e : Notify.event) =
  "ADD:" ^ rowlike e.Notify.e_id e.Notify.e_prev e.Notify.e_height e.Notify.e_cum e.Notify.e_st e.Notify.e_ver
    e.Notify.e_merkle e.Notify.e_nonce e.Notify.e_ts

let chan_logs (k : case) (y : Notify.sys) =
  Stdlib.String.concat "/"
    (Stdlib.List.mapi (fun i _ ->
         let evs = Stdlib.List.map event_str (Notify.log_evs (nat_of_int i) y) in
         Stdlib.String.concat "," (Stdlib.List.sort compare evs)) k.chans)

let model input =
  let k = parse_case input in
  let cfg = cfg_of k in
  let s0 = Chain.init k.h.gid k.h.gpl in
  let y = ref (Notify.init_sys s0 k.subs_f) in
  (* pseudo-random interleaving of ingestion and deliveries (no releases while ingesting) *)
  let st = ref (k.n * 2654435761 + 12345) in
  let rnd m = st := (!st * 1103515245 + 12345) land 0x3fffffff; (!st lsr 8) mod m in
  while !y.Notify.sy_todo <> [] do
    let pl = Stdlib.List.length !y.Notify.sy_pool in
    let a = if pl = 0 || rnd 3 = 0 then Notify.Ingest else Notify.Complete (nat_of_int (rnd pl)) in
    y := Notify.step cfg !y a
  done;
  (* everything that can be delivered while the slow channels are held *)
  y := Notify.run_sched cfg !y (Notify.sweep (nat_of_int (Stdlib.List.length !y.Notify.sy_pool)));
  let pre = chan_logs k !y in
  (* the gate opens: slow channels are released, hanging ones never *)
  let hanging = Stdlib.List.concat (Stdlib.List.mapi (fun i (_, b) -> if b = "hang" then [i] else []) k.chans) in
  let releases = Stdlib.List.concat (Stdlib.List.mapi (fun i (_, b) -> if b = "slow" then [Notify.Release (nat_of_int i)] else []) k.chans) in
  if hanging = [] then y := Notify.run_sched cfg !y (Notify.drain !y)
  else y := Notify.run_sched cfg !y (releases @ Notify.sweep (nat_of_int (Stdlib.List.length !y.Notify.sy_pool)));
  let fin = chan_logs k !y in
  let leftover =
    if Stdlib.List.for_all (fun t -> Stdlib.List.mem (int_of_nat t.Notify.t_ch) hanging) !y.Notify.sy_pool then ""
    else "|MODEL-POOL-NOT-EMPTY" in
  let results = Stdlib.List.rev !y.Notify.sy_results in
  let rows = ref (Notify.stored_rows k.h.forbidden s0 k.subs_f) in
  let steps = Stdlib.List.map (fun r ->
      match r with
      | Notify.Done (Chain.Stored x) ->
        let rs = match !rows with w :: t -> rows := t; row_str w | [] -> "NOROW" in
        "S" ^ st_letter x ^ "=" ^ rs
      | Notify.Done o -> outcome_string o
      | Notify.WriteFailed (Chain.WUpdate (_, _)) -> "EU"
      | Notify.WriteFailed (Chain.WInsert _) -> "ES") results in
  Printf.sprintf "%s|%s|pre=%s|fin=%s|ing=ok%s" (Stdlib.String.concat ";" steps) (rows_string !y.Notify.sy_store) pre fin leftover

(* ---------------- spec oracle on the implementation's observable ---------------- *)
exception Bad of string

let st_of_letter = function "L" -> Store.Longest | "S" -> Store.Stale | "O" -> Store.Orphan | s -> raise (Bad ("state " ^ s))

let num_n s = if s = "" || s.[0] = '-' then raise (Bad ("id " ^ s)) else (try n_of_string s with _ -> raise (Bad ("number " ^ s)))
let num_z s = try z_of_string s with _ -> raise (Bad ("number " ^ s))

let parse_row (s : string) : Store.row =
  match split_on ':' s with
  | [i; p; h; c; st; v; m; nn; ts] ->
    { Store.id = num_n i; prev = num_n p; height = num_z h; work = BinNums.Z0; cum = (try z_of_hex c with _ -> raise (Bad ("hex " ^ c)));
      orph = false; st = st_of_letter st;
      pl = { Store.p_bits = BinNums.Z0; p_ver = num_z v; p_merkle = num_n m; p_nonce = num_z nn; p_ts = num_z ts } }
  | _ -> raise (Bad ("row " ^ s))

let parse_event (s : string) : Notify.event =
  match split_on ':' s with
  | "ADD" :: rest -> Notify.event_of_row (parse_row (Stdlib.String.concat ":" rest))
  | op :: _ -> raise (Bad ("operation " ^ op))
  | [] -> raise (Bad "empty event")

let parse_events s = if s = "" then [] else Stdlib.List.map parse_event (split_on ',' s)

let spec input obs =
  let k = parse_case input in
  let fail c d = "FAIL " ^ c ^ " " ^ d in
  match split_on '|' obs with
  | [steps_s; _rows; pre_s; fin_s; ing_s] when starts_with "pre=" pre_s && starts_with "fin=" fin_s ->
    let steps = if steps_s = "" then [] else split_on ';' steps_s in
    if ing_s <> "ing=ok" then fail "ingestion-blocked" ing_s
    else if Stdlib.List.length steps <> Stdlib.List.length k.subs_f then fail "step-count" "" else begin
      try
        if ing_s <> "ing=ok" then raise (Bad "INGESTION");
        (* the rows of the submissions reported as stored, as read back right after each Add *)
        let rows = ref [] in
        Stdlib.List.iteri (fun i ((sub, _), step) ->
            if step = "P" then raise (Bad "PANIC");
            if step.[0] = 'S' then begin
              match split_on '=' step with
              | [o; rs] ->
                if rs = "NOROW" then raise (Bad (Printf.sprintf "NOTINTABLE step %d answered %s but no row with this hash is in the table" i o));
                let r = (try parse_row rs with Bad d -> raise (Bad ("ROW step " ^ string_of_int i ^ " " ^ d))) in
                if not (Notify.row_matches_src r sub) then raise (Bad (Printf.sprintf "ROWSRC step %d row %s" i rs));
                if "S" ^ st_letter r.Store.st <> o then raise (Bad (Printf.sprintf "ROWSTATE step %d %s" i step));
                rows := r :: !rows
              | _ -> raise (Bad ("ROW step " ^ string_of_int i))
            end)
          (Stdlib.List.combine k.subs_f steps);
        let rows = Stdlib.List.rev !rows in
        let ids = Stdlib.List.map (fun r -> r.Store.id) rows in
        let chk tag i evs_s =
          let evs = (try parse_events evs_s with Bad d -> raise (Bad ("EVENT channel " ^ string_of_int i ^ " " ^ d))) in
          (* order is irrelevant for the oracle (multisets); ids ascending makes the quadratic matching linear on runs *)
          let evs = Stdlib.List.stable_sort (fun a b -> Z.compare (zt_of_n a.Notify.e_id) (zt_of_n b.Notify.e_id)) evs in
          match Notify.check_channel rows evs with
          | Notify.VOk -> ()
          | Notify.VMissing e -> raise (Bad (Printf.sprintf "%sMISSING channel %d %s" tag i (event_str e)))
          | Notify.VExtra e ->
            let cls = if Stdlib.List.mem e.Notify.e_id ids then "DUPLICATE" else "UNSTORED" in
            raise (Bad (Printf.sprintf "%s%s channel %d %s" tag cls i (event_str e)))
          | Notify.VField (w, g) -> raise (Bad (Printf.sprintf "%sFIELD channel %d want %s got %s" tag i (event_str w) (event_str g))) in
        let fin = split_on '/' (drop 4 fin_s) and pre = split_on '/' (drop 4 pre_s) in
        let nch = Stdlib.List.length k.chans in
        let fin = if nch = 0 && fin = [""] then [] else fin and pre = if nch = 0 && pre = [""] then [] else pre in
        if Stdlib.List.length fin <> nch || Stdlib.List.length pre <> nch then raise (Bad "CHANNELS");
        Stdlib.List.iteri (fun i (evs, (_, b)) ->
            if b = "hang" then (if evs <> "" then raise (Bad (Printf.sprintf "NOTHELD channel %d" i)))
            else chk "" i evs)
          (Stdlib.List.combine fin k.chans);
        Stdlib.List.iteri (fun i (evs, (_, b)) ->
            if b = "slow" || b = "hang" then (if evs <> "" then raise (Bad (Printf.sprintf "NOTHELD channel %d" i)))
            else chk "PRE-" i evs)
          (Stdlib.List.combine pre k.chans);
        "OK"
      with Bad d ->
        let cls =
          if d = "INGESTION" then "ingestion-blocked"
          else if d = "PANIC" then "panic"
          else if d = "CHANNELS" then "channel-count"
          else if starts_with "NOTINTABLE" d then "reported-stored-but-not-in-table"
          else if starts_with "ROWSRC" d then "stored-row-differs-from-submission"
          else if starts_with "ROWSTATE" d then "reported-state-differs-from-row"
          else if starts_with "ROW" d then "stored-row-unreadable"
          else if starts_with "EVENT" d then "malformed-event"
          else if starts_with "NOTHELD" d then "slow-channel-not-held"
          else if starts_with "PRE-MISSING" d then "delivery-suppressed-by-slow-channel"
          else if starts_with "PRE-" d then (
            if starts_with "PRE-DUPLICATE" d then "duplicate-event"
            else if starts_with "PRE-UNSTORED" d then "event-without-stored-header" else "event-field-mismatch")
          else if starts_with "MISSING" d then "missing-event"
          else if starts_with "DUPLICATE" d then "duplicate-event"
          else if starts_with "UNSTORED" d then "event-without-stored-header"
          else if starts_with "FIELD" d then "event-field-mismatch"
          else "malformed-observable" in
        fail cls d
    end
  | _ -> fail "malformed-observable" ""

let () = run_driver model spec
