(* C13 driver: rebuilds the store of a case from its description (C01 history syntax + `linear=<n>`),
   runs the extracted model of LatestHeaderLocator / locateHeadersGetHeaders on the MODEL store
   (Chain.run_from) and the extracted declarative specification (Locator.spec_locator / spec_locate, which
   read only parent links and cumulative work of the label-free store ChainSpec.spec_run_from) on the
   implementation's observable.  See harness/zz_verif/c13.go for the case syntax. *)
open Vutil
open Vchain

let linear_subs n =
  Stdlib.List.init n (fun k ->
      { Store.s_id = n_of_int (k + 2); s_prev = n_of_int (k + 1);
        s_pl = payload_of "545259519" "1" (string_of_int (k + 102)) (string_of_int (1600000000 + k)) (string_of_int k) })

let starts_with p s = Stdlib.String.length s >= Stdlib.String.length p && Stdlib.String.sub s 0 (Stdlib.String.length p) = p

let parse_store (line : string) : hist =
  let toks = Stdlib.List.filter (fun t -> t <> "") (Stdlib.List.map Stdlib.String.trim (split_on ';' line)) in
  let base = parse_history "" in
  let gid = ref base.gid and gpl = ref base.gpl and forb = ref [] and subs = ref [] in
  Stdlib.List.iter (fun t ->
      if starts_with "linear=" t then
        subs := !subs @ linear_subs (int_of_string (Stdlib.String.sub t 7 (Stdlib.String.length t - 7)))
      else begin
        let h = parse_history t in
        if starts_with "g=" t then (gid := h.gid; gpl := h.gpl);
        forb := !forb @ h.forbidden;
        subs := !subs @ h.subs
      end) toks;
  { base with gid = !gid; gpl = !gpl; forbidden = !forb; subs = !subs }

(* both stores of a description, memoised (many queries share one store) *)
(* [zw]: the history contains a zero-work header.  Then the greatest-cumulative-work chain of the label-free
   specification need not be the labelled one (C01's known finding), and the oracle is the any-work form of the
   theorems: spec_*_mc on tip_chain (the chain of the reported tip = the LONGEST_CHAIN rows) of the model store,
   whose labels and tip are compared with the implementation's by the `st` case of the same store. *)
let memo : (string, hist * Store.store * Store.store * bool) Hashtbl.t = Hashtbl.create 64
let stores (sl : string) =
  match Hashtbl.find_opt memo sl with
  | Some v -> v
  | None ->
    let h = parse_store sl in
    let ms = Chain.run_from h.forbidden (Chain.init h.gid h.gpl) h.subs in
    let ss = ChainSpec.spec_run_from h.forbidden (Chain.init h.gid h.gpl) h.subs in
    let zw = Stdlib.List.exists (fun sub -> work_of sub = BinNums.Z0) h.subs in
    if Hashtbl.length memo > 8 then Hashtbl.reset memo;
    Hashtbl.replace memo sl (h, ms, ss, zw);
    (h, ms, ss, zw)

let split_case (input : string) =
  match Stdlib.String.rindex_opt input '|' with
  | None -> failwith "case without query"
  | Some i -> (Stdlib.String.sub input 0 i, Stdlib.String.sub input (i + 1) (Stdlib.String.length input - i - 1))

(* id lists with runs a-b (at least three consecutive ids), as c13IDs in the harness *)
let ids_string (l : BinNums.coq_N list) =
  let a = Stdlib.Array.of_list (Stdlib.List.map int_of_n l) in
  let n = Stdlib.Array.length a in
  let b = Buffer.create 64 in
  let i = ref 0 in
  while !i < n do
    let j = ref !i in
    while !j + 1 < n && a.(!j + 1) = a.(!j) + 1 do incr j done;
    if Buffer.length b > 0 then Buffer.add_char b ',';
    if !j - !i >= 2 then begin
      Buffer.add_string b (Printf.sprintf "%d-%d" a.(!i) a.(!j)); i := !j + 1
    end else begin
      Buffer.add_string b (string_of_int a.(!i)); incr i
    end
  done;
  Buffer.contents b

let parse_query q =
  if not (starts_with "q=" q) then failwith "bad query" else
    match split_on '/' (Stdlib.String.sub q 2 (Stdlib.String.length q - 2)) with
    | [l; s] ->
      (* <id>*<n> = the n ids id, id+1, .., id+n-1 *)
      let expand x = match split_on '*' x with
        | [a; n] -> Stdlib.List.init (int_of_string n) (fun k -> n_of_int (int_of_string a + k))
        | _ -> [n_of_string x] in
      (Stdlib.List.concat_map expand (Stdlib.List.filter (fun x -> x <> "") (split_on ',' l)), n_of_string s)
    | _ -> failwith "bad query"

let row_ids l = Stdlib.List.map (fun r -> r.Store.id) l

let model_q ms q =
  let (locs, stop) = parse_query q in
  match Locator.locate ms locs stop with
  | Locator.LOk l -> "H:" ^ ids_string (row_ids l) ^ " same"
  | Locator.LErr Locator.EStopLow -> "E:stoplow same"
  | Locator.LErr Locator.ELocatorLookup -> "E:locator-lookup same"

(* "r=<q1>+<q2>+.." : the answers are values, a later request cannot change an earlier answer *)
let retained_parts q = split_on '+' (Stdlib.String.sub q 2 (Stdlib.String.length q - 2))
let split_plus (obs : string) = Str.split (Str.regexp_string " + ") obs

let model input =
  let (sl, q) = split_case input in
  let (_, ms, _, _) = stores sl in
  if q = "st" then tip_string ms ^ "/" ^ states_string ms
  else if q = "loc" then
    (match Locator.latest_locator ms with Some l -> ids_string l | None -> "FUEL-EXHAUSTED")
  else if starts_with "r=" q then
    Stdlib.String.concat " + " (Stdlib.List.map (fun one -> model_q ms ("q=" ^ one)) (retained_parts q))
  else model_q ms q

(* one getheaders answer against the specification *)
let check_answer (h, ms, ss, zw) q obs =
  let (locs, stop) = parse_query q in
  match words obs with
  | [_; _; "changed"] -> "FAIL retained-answer-changed " ^ obs
  | [g; l] ->
    if l <> "same" then "FAIL locateheaders-differs-from-getheaders " ^ l else begin
      let got =
        if starts_with "H:" g then Some (Stdlib.String.sub g 2 (Stdlib.String.length g - 2))
        else if g = "E:nolocators" || g = "E:stoplow" then Some ""       (* an error: the peer is sent nothing *)
        else if g = "E:locator-lookup" then Some "!refused" 
        else None in
      match got with
      | None -> "FAIL unexpected-error " ^ g
      | Some got ->
        let spec_loc l st = if zw then Locator.spec_locate_mc (Locator.tip_chain ms) l st else Locator.spec_locate ss l st in
        let want = lazy (ids_string (row_ids (spec_loc locs stop))) in
        (* beyond the bind-variable limit of SQLite the locator cannot be looked up: refusing (nothing sent) is the
           admissible answer there - C13_locate_too_long / C13_locate_safe; anything else must be the specified one *)
        let too_long = Stdlib.List.length locs > int_of_z Locator.sql_max_vars in
        if got = "!refused" then
          (if too_long then "OK" else "FAIL unexpected-error " ^ g)
        else let want = Lazy.force want in
        if got = want then "OK"
        else if locs = [] && got = "" then
          "FAIL empty-locator-yields-nothing want " ^ want
        else if stop = h.gid && want = "" && got = ids_string (row_ids (spec_loc locs BinNums.N0)) then
          "FAIL stop-genesis-treated-as-no-stop got " ^ got
        else "FAIL answer-mismatch got " ^ got ^ " want " ^ want
    end
  | _ -> "FAIL malformed-observable"

(* the specification applied to the IMPLEMENTATION's observable *)
let spec input obs =
  let (sl, q) = split_case input in
  let (h, ms, ss, zw) = stores sl in
  if obs = "PANIC" || starts_with "PANIC" obs then "FAIL panic" else
  if q = "st" then begin
    let want = if zw then tip_string ms ^ "/" ^ states_string ms
      else dec_of_n (ChainSpec.spec_tip ss) ^ "/" ^ states_string (ChainSpec.spec_store ss) in
    if obs = want then "OK" else "FAIL store-mismatch want " ^ want
  end else if q = "loc" then begin
    let want = ids_string (if zw then Locator.spec_locator_mc (Locator.tip_chain ms) else Locator.spec_locator ss) in
    if obs = want then "OK" else "FAIL locator-mismatch want " ^ want
  end else if starts_with "r=" q then begin
    let qs = retained_parts q and os = split_plus obs in
    if Stdlib.List.length qs <> Stdlib.List.length os then "FAIL malformed-observable" else
      Stdlib.List.fold_left2 (fun acc one o ->
          if acc <> "OK" then acc else
          if starts_with "PANIC" o then "FAIL panic" else check_answer (h, ms, ss, zw) ("q=" ^ one) o)
        "OK" qs os
  end else check_answer (h, ms, ss, zw) q obs

let () = run_driver model spec
